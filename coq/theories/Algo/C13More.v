(* C13, further theorems about the relation constructors (model: Algo/Relation.v, proofs so far: Algo/RelationProofs.v).

   A. The frame glue.  The model fixes one row-list reading of the pandas / polars operations: `drop_duplicates`
      (pandas, keeps the first of equal rows) / `unique` (polars, any order) is `dedupe_pairs` (keeps the last),
      `set(...)` is a duplicate-free list in one particular order.  Here: the result of the constructor is the
      same for EVERY duplicate-free enumeration of the distinct (child, parent) pairs and EVERY duplicate-free
      enumeration of the root candidates (`frame_order_irrelevant`), in particular for pandas' keep-first.
   B. The list entry point `list_to_tree_by_relation`: it is the attribute erasure of the frame entry point on
      every input and flag (same acceptance, same exception, same tree without attributes), and the tree
      theorems carry over.
   C. "Exactly the given pairs as edges, exactly the given names as nodes" for every accepted row list (one
      inclusion, any flag) and for every row list that passes `presents_tree` (equality as multisets of pairs /
      sets of names) - without the detour through a `valid_tree` (which excludes null attribute values). *)
From BT Require Import Base.Prelude Base.Str Base.Rose Algo.Relation Spec.PC13 Algo.RelationProofs.
From Coq Require Import Permutation.

(* ============================================================================================== *)
(* A. frame glue *)

Definition data_check_of (d : list (str * option str)) : list (str * option str) :=
  filter (fun pr => existsb (fun q => ostr_eqb (snd q) (Some (fst pr))) d) d.

Definition dup_check (d : list (str * option str)) : bool :=
  let dc := data_check_of d in existsb (fun pr => Nat.ltb 1 (count_child (fst pr) dc)) dc.

Lemma dup_children_is rows : dup_children rows = dup_check (dedupe_pairs (pairs_of rows)).
Proof. reflexivity. Qed.

(* d is a duplicate-free enumeration of the elements of l *)
Definition distinct_of {A} (d l : list A) : Prop := NoDup d /\ forall x, In x d <-> In x l.

Lemma existsb_perm {A} (f : A -> bool) l l' : Permutation l l' -> existsb f l = existsb f l'.
Proof.
  induction 1 as [|x l l' _ IH|x y l|l l' l'' _ IH1 _ IH2]; cbn [existsb].
  - reflexivity.
  - rewrite IH. reflexivity.
  - destruct (f x), (f y); reflexivity.
  - congruence.
Qed.

Lemma dup_check_perm d d' : Permutation d d' -> dup_check d = dup_check d'.
Proof.
  intros Hp. unfold dup_check.
  assert (Hdc : Permutation (data_check_of d) (data_check_of d')).
  { unfold data_check_of.
    rewrite (filter_ext (fun pr => existsb (fun q => ostr_eqb (snd q) (Some (fst pr))) d')
                        (fun pr => existsb (fun q => ostr_eqb (snd q) (Some (fst pr))) d)).
    - apply filter_perm. exact Hp.
    - intros pr. symmetry. apply existsb_perm. exact Hp. }
  cbn zeta. rewrite (existsb_perm _ _ _ Hdc). apply existsb_ext'. intros pr.
  unfold count_child. rewrite (Permutation_length (filter_perm _ _ _ Hdc)). reflexivity.
Qed.

(* the ambiguity check gives the same verdict whichever of equal rows `drop_duplicates` / `unique` keeps and in
   whatever order it returns them *)
Theorem dup_check_any_dedup rows d :
  distinct_of d (pairs_of rows) -> dup_check d = dup_children rows.
Proof.
  intros [Hnd Hin]. rewrite dup_children_is. apply dup_check_perm.
  apply NoDup_Permutation; [exact Hnd|apply dedupe_pairs_NoDup|].
  intros x. rewrite Hin. symmetry. apply dedupe_pairs_In.
Qed.

(* pandas: drop_duplicates(keep="first") *)
Fixpoint dedupe_first (l : list (str * option str)) : list (str * option str) :=
  match l with
  | [] => []
  | x :: t => x :: filter (fun y => negb (pair_eqb x y)) (dedupe_first t)
  end.

Lemma pair_eqb_false a b : pair_eqb a b = false <-> a <> b.
Proof.
  split.
  - intros H E. apply pair_eqb_eq in E. congruence.
  - intros H. destruct (pair_eqb a b) eqn:E; [apply pair_eqb_eq in E; contradiction|reflexivity].
Qed.

Lemma dedupe_first_distinct l : distinct_of (dedupe_first l) l.
Proof.
  induction l as [|x t [IHn IHi]]; [split; [constructor|intros x; reflexivity]|].
  cbn [dedupe_first]. split.
  - constructor; [|apply NoDup_filter'; exact IHn].
    intros Hin. apply filter_In in Hin as [_ Hin]. apply negb_true_iff in Hin.
    apply pair_eqb_false in Hin. congruence.
  - intros y. cbn [In]. rewrite filter_In, IHi, negb_true_iff, pair_eqb_false. split.
    + intros [E|[H _]]; [left; exact E|right; exact H].
    + intros [E|H]; [left; exact E|].
      destruct (pair_eqb x y) eqn:E; [left; apply pair_eqb_eq; exact E|].
      right. split; [exact H|apply pair_eqb_false; exact E].
Qed.

Theorem dup_check_keep_first rows : dup_check (dedupe_first (pairs_of rows)) = dup_children rows.
Proof. apply dup_check_any_dedup. apply dedupe_first_distinct. Qed.

(* the constructor, given whatever `drop_duplicates` / `unique` returned (d) and whatever order the set of root
   names is enumerated in (rn) *)
Definition rel_to_tree_via (d : list (str * option str)) (rn : list str)
                           (allow_duplicates : bool) (rows : list row) : res tree :=
  match rows with
  | [] => Raise ValueError
  | _ =>
    if negb allow_duplicates && dup_check d then Raise ValueError
    else match rn with
         | [[]] => Raise TreeError
         | [root_name] =>
             match add_children (S (length rows)) rows root_name with
             | Raise e => Raise e
             | Ret ks => Ret (T None root_name (root_attrs rows root_name) ks)
             end
         | _ => Raise ValueError
         end
  end.

Lemma rel_to_tree_via_self ad rows :
  rel_to_tree_via (dedupe_pairs (pairs_of rows)) (root_names rows) ad rows = rel_to_tree ad rows.
Proof. reflexivity. Qed.

Theorem frame_order_irrelevant ad rows d rn :
  distinct_of d (pairs_of rows) ->
  NoDup rn -> (forall x, In x rn <-> root_candidate rows x = true) ->
  rel_to_tree_via d rn ad rows = rel_to_tree ad rows.
Proof.
  intros Hd Hn Hi. rewrite <- rel_to_tree_via_self. unfold rel_to_tree_via.
  destruct rows as [|r0 rs]; [reflexivity|]. remember (r0 :: rs) as rows eqn:Erows. clear Erows.
  rewrite (dup_check_any_dedup rows d Hd), <- dup_children_is.
  destruct (negb ad && dup_children rows); [reflexivity|].
  assert (Hp : Permutation rn (root_names rows)).
  { apply NoDup_Permutation; [exact Hn|apply dedupe_str_NoDup|].
    intros x. rewrite Hi. symmetry. apply root_names_candidate. }
  destruct (root_names rows) as [|x [|y l]] eqn:Er.
  - apply Permutation_sym, Permutation_nil in Hp. subst rn. reflexivity.
  - apply Permutation_sym, Permutation_length_1_inv in Hp. subst rn. reflexivity.
  - apply Permutation_length in Hp. destruct rn as [|a [|b m]]; try discriminate.
    destruct a, x; reflexivity.
Qed.

(* ============================================================================================== *)
(* B. the list entry point *)

Fixpoint erase (t : tree) : tree :=
  match t with T g n _ ks => T g n [] (map erase ks) end.

Definition rmap {A B} (f : A -> B) (m : res A) : res B :=
  match m with Ret a => Ret (f a) | Raise e => Raise e end.

Lemma erase_name t : tname (erase t) = tname t.
Proof. destruct t; reflexivity. Qed.

Lemma erase_kids t : tkids (erase t) = map erase (tkids t).
Proof. destruct t; reflexivity. Qed.

Lemma filter_map' {A B} (f : B -> bool) (g : A -> B) l : filter f (map g l) = map g (filter (fun x => f (g x)) l).
Proof. induction l as [|x t IH]; cbn [map filter]; [reflexivity|]. rewrite IH. destruct (f (g x)); reflexivity. Qed.

Lemma flat_map_map' {A B C} (f : B -> list C) (g : A -> B) l : flat_map f (map g l) = flat_map (fun x => f (g x)) l.
Proof. induction l as [|x t IH]; cbn [map flat_map]; [reflexivity|]. rewrite IH. reflexivity. Qed.

Definition strip_row (r : row) : row := (rchild r, rparent r, []).

Lemma strip_attrs_map rows : strip_attrs rows = map strip_row rows.
Proof. reflexivity. Qed.

Lemma strip_pairs rows : pairs_of (strip_attrs rows) = pairs_of rows.
Proof. unfold pairs_of, strip_attrs. rewrite map_map. reflexivity. Qed.

Lemma strip_children rows : map rchild (strip_attrs rows) = map rchild rows.
Proof. unfold strip_attrs. rewrite map_map. reflexivity. Qed.

Lemma strip_dup rows : dup_children (strip_attrs rows) = dup_children rows.
Proof. unfold dup_children, data_check. rewrite strip_pairs. reflexivity. Qed.

Lemma strip_root_names rows : root_names (strip_attrs rows) = root_names rows.
Proof.
  unfold root_names, null_children, parent_names. rewrite strip_children.
  unfold strip_attrs. rewrite filter_map', map_map, flat_map_map'. reflexivity.
Qed.

Lemma strip_child_rows rows p : child_rows (strip_attrs rows) p = strip_attrs (child_rows rows p).
Proof. unfold child_rows, strip_attrs. rewrite filter_map'. reflexivity. Qed.

Lemma strip_root_attrs rows root : root_attrs (strip_attrs rows) root = [].
Proof.
  unfold root_attrs, strip_attrs. rewrite filter_map'.
  destruct (filter _ rows); reflexivity.
Qed.

Lemma attach_strip rec rec' :
  (forall c, rec' c = rmap (map erase) (rec c)) ->
  forall crs acc,
    attach rec' (strip_attrs crs) (map erase acc) = rmap (map erase) (attach rec crs acc).
Proof.
  intros Hrec. induction crs as [|r rest IH]; intros acc.
  - cbn [strip_attrs map attach rmap]. rewrite map_rev. reflexivity.
  - change (strip_attrs (r :: rest)) with (strip_row r :: strip_attrs rest). cbn [attach].
    change (rchild (strip_row r)) with (rchild r).
    destruct (rchild r) as [|c0 nm0] eqn:Ec; [reflexivity|]. rewrite <- Ec.
    rewrite map_map. rewrite (map_ext (fun x => tname (erase x)) tname erase_name).
    destruct (mem_str (rchild r) (map tname acc)); [reflexivity|].
    rewrite Hrec. destruct (rec (rchild r)) as [ks|e]; cbn [rmap]; [|reflexivity].
    rewrite <- IH. reflexivity.
Qed.

Lemma add_children_strip rows : forall fuel p,
  add_children fuel (strip_attrs rows) p = rmap (map erase) (add_children fuel rows p).
Proof.
  induction fuel as [|f IH]; intros p; [reflexivity|].
  cbn [add_children]. rewrite strip_child_rows.
  exact (attach_strip (add_children f rows) (add_children f (strip_attrs rows)) IH (child_rows rows p) []).
Qed.

(* list_to_tree_by_relation = the frame constructor followed by forgetting the attributes: on every input and
   flag the same acceptance, the same exception, the same names, edges and sibling order *)
Theorem list_rel_erases ad rows : list_rel_to_tree ad rows = rmap erase (rel_to_tree ad rows).
Proof.
  unfold list_rel_to_tree. destruct rows as [|r0 rs]; [reflexivity|].
  remember (r0 :: rs) as rows eqn:Erows.
  assert (Hne : rows <> []) by (subst rows; discriminate).
  assert (Hne' : strip_attrs rows <> []) by (subst rows; discriminate). clear Erows.
  rewrite (rel_to_tree_nonempty ad _ Hne'), (rel_to_tree_nonempty ad _ Hne).
  rewrite strip_dup, strip_root_names.
  destruct (negb ad && dup_children rows); [reflexivity|].
  destruct (root_names rows) as [|[|c0 nm0] [|y l]]; try reflexivity.
  unfold strip_attrs at 1. rewrite map_length. rewrite add_children_strip, strip_root_attrs.
  destruct (add_children (S (length rows)) rows (c0 :: nm0)); reflexivity.
Qed.

Lemma pre_erase t : pre (erase t) = map erase (pre t).
Proof.
  induction t as [g n a ks IH] using tree_ind'. cbn [erase pre map]. f_equal.
  induction ks as [|k ks IHk]; [reflexivity|]. inversion IH as [|? ? Hk Hks]; subst.
  cbn [map flat_map]. rewrite map_app, Hk, IHk by exact Hks. reflexivity.
Qed.

Lemma names_erase t : map tname (pre (erase t)) = map tname (pre t).
Proof. rewrite pre_erase, map_map. apply map_ext. exact erase_name. Qed.

Lemma edges_erase t : edges (erase t) = edges t.
Proof.
  unfold edges. rewrite pre_erase, flat_map_map'. apply flat_map_ext. intros n.
  rewrite erase_kids, map_map, erase_name. apply map_ext. intros k. rewrite erase_name. reflexivity.
Qed.

Theorem list_relation_of_tree b t :
  valid_tree t = true -> presentable b t -> list_rel_to_tree false (rows_of b t) = Ret (erase t).
Proof. intros Hv Hp. rewrite list_rel_erases, (relation_of_tree b t Hv Hp). reflexivity. Qed.

Theorem list_row_order b t rows :
  valid_tree t = true -> presentable b t -> Permutation rows (rows_of b t) ->
  exists t', list_rel_to_tree false rows = Ret t'
             /\ Permutation (edges t') (edge_pairs rows)
             /\ Permutation (map tname (pre t')) (map tname (pre t))
             /\ forallb (fun n => match tattrs n with [] => true | _ => false end) (pre t') = true.
Proof.
  intros Hv Hp Hperm. destruct (row_order_full b t rows Hv Hp Hperm) as [t0 [Ht0 _]].
  destruct (edges_exact b t rows t0 Hv Hp Hperm Ht0) as [He Hn].
  exists (erase t0). rewrite list_rel_erases, Ht0. split; [reflexivity|].
  rewrite edges_erase, names_erase. split; [exact He|]. split; [exact Hn|].
  rewrite pre_erase. apply forallb_forall. intros n Hin. apply in_map_iff in Hin as [m [<- _]].
  destruct m; reflexivity.
Qed.

(* ============================================================================================== *)
(* C. edges and names of what is accepted *)

(* the children of n are the rows naming n as parent, by name and in order *)
Definition kids_are_rows (rows : list row) (n : tree) : Prop :=
  map tname (tkids n) = map rchild (child_rows rows (tname n)).

Lemma forall2b_names ks : forall crs,
  forall2b (fun k r => str_eqb (tname k) (rchild r) && attrs_equ (tattrs k) (nonnull_attrs r)) ks crs = true ->
  map tname ks = map rchild crs.
Proof.
  induction ks as [|k ks IH]; intros [|r crs] H; cbn [forall2b] in H; try discriminate; [reflexivity|].
  apply andb_true_iff in H as [H1 H2]. apply andb_true_iff in H1 as [H1 _]. apply str_eqb_eq in H1.
  cbn [map]. rewrite H1, (IH _ H2). reflexivity.
Qed.

Lemma accepted_inv ad rows t : rel_to_tree ad rows = Ret t ->
  exists root, the_root rows = Some root /\ tname t = root /\ forall n, In n (pre t) -> kids_are_rows rows n.
Proof.
  intros H. pose proof (accepted_sound ad rows t H) as Hp. unfold prop_rel in Hp.
  destruct rows as [|r0 rs]; [discriminate|]. remember (r0 :: rs) as rows eqn:Erows. clear Erows H.
  destruct (the_root rows) as [root|]; [|discriminate]. exists root. split; [reflexivity|].
  apply andb_true_iff in Hp as [Hp _]. apply andb_true_iff in Hp as [Hp Hok].
  apply andb_true_iff in Hp as [Hn _]. apply str_eqb_eq in Hn. split; [exact Hn|].
  intros n Hin. rewrite forallb_forall in Hok. specialize (Hok n Hin). unfold node_ok in Hok.
  unfold kids_are_rows. rewrite child_rows_spec. apply forall2b_names. exact Hok.
Qed.

Lemma In_child_rows rows p r : In r (child_rows rows p) <-> In r rows /\ rparent r = Some p.
Proof. unfold child_rows. rewrite filter_In, ostr_eqb_eq. reflexivity. Qed.

Lemma In_edge_pairs rows p c : In (p, c) (edge_pairs rows) <-> exists r, In r rows /\ rparent r = Some p /\ rchild r = c.
Proof.
  unfold edge_pairs. rewrite in_flat_map. split.
  - intros [r [Hr Hin]]. destruct (rparent r) as [q|] eqn:E; [|destruct Hin].
    destruct Hin as [Hin|[]]. inversion Hin; subst. exists r. repeat split; assumption.
  - intros [r [Hr [Hp Hc]]]. exists r. split; [exact Hr|]. rewrite Hp, Hc. left. reflexivity.
Qed.

Lemma In_edges t p c : In (p, c) (edges t) <-> exists n k, In n (pre t) /\ In k (tkids n) /\ tname n = p /\ tname k = c.
Proof.
  unfold edges. rewrite in_flat_map. split.
  - intros [n [Hn Hin]]. apply in_map_iff in Hin as [k [E Hk]]. inversion E; subst.
    exists n, k. repeat split; assumption.
  - intros [n [k [Hn [Hk [E1 E2]]]]]. exists n. split; [exact Hn|]. apply in_map_iff. exists k.
    split; [rewrite E1, E2; reflexivity|exact Hk].
Qed.

Lemma kid_row rows n k : kids_are_rows rows n -> In k (tkids n) ->
  exists r, In r rows /\ rparent r = Some (tname n) /\ rchild r = tname k.
Proof.
  intros Hk Hin. assert (H : In (tname k) (map tname (tkids n))) by (apply in_map; exact Hin).
  rewrite Hk in H. apply in_map_iff in H as [r [E Hr]]. apply In_child_rows in Hr as [Hr Hp].
  exists r. repeat split; assumption.
Qed.

Lemma row_kid rows n r : kids_are_rows rows n -> In r rows -> rparent r = Some (tname n) ->
  exists k, In k (tkids n) /\ tname k = rchild r.
Proof.
  intros Hk Hr Hp. assert (H : In (rchild r) (map rchild (child_rows rows (tname n)))).
  { apply in_map. apply In_child_rows. split; assumption. }
  rewrite <- Hk in H. apply in_map_iff in H as [k [E Hin]]. exists k. split; assumption.
Qed.

Lemma pre_parent t n : In n (pre t) -> n = t \/ exists m, In m (pre t) /\ In n (tkids m).
Proof.
  intros H. rewrite pre_unfold in H. destruct H as [H|H]; [left; symmetry; exact H|right].
  assert (H' : In n (tl (pre t))) by (rewrite pre_unfold; exact H).
  apply (Permutation_in _ (Permutation_sym (kids_perm t))) in H'.
  apply in_flat_map in H' as [m [Hm Hn]]. exists m. split; assumption.
Qed.

Lemma In_all_names rows x :
  In x (all_names rows) <-> exists r, In r rows /\ (rchild r = x \/ rparent r = Some x).
Proof.
  unfold all_names. rewrite in_flat_map. split.
  - intros [r [Hr [H|H]]]; exists r; (split; [exact Hr|]); [left; exact H|right].
    destruct (rparent r) as [p|]; [|destruct H]. destruct H as [H|[]]. rewrite H. reflexivity.
  - intros [r [Hr [H|H]]]; exists r; (split; [exact Hr|]); [left; exact H|right]. rewrite H. left. reflexivity.
Qed.

(* whatever is accepted, under either flag: every edge of the result is one of the given pairs, every node
   name is one of the given names *)
Theorem accepted_edges_given ad rows t : rel_to_tree ad rows = Ret t ->
  incl (edges t) (edge_pairs rows) /\ incl (map tname (pre t)) (all_names rows).
Proof.
  intros H. destruct (accepted_inv ad rows t H) as [root [Hroot [Hn Hk]]]. split.
  - intros [p c] Hin. apply In_edges in Hin as [n [k [Hin [Hkn [E1 E2]]]]].
    destruct (kid_row rows n k (Hk n Hin) Hkn) as [r [Hr [Hp Hc]]].
    apply In_edge_pairs. exists r. rewrite <- E1, <- E2. repeat split; assumption.
  - intros x Hin. apply in_map_iff in Hin as [n [E Hin]]. subst x.
    destruct (pre_parent t n Hin) as [->|[m [Hm Hnm]]].
    + rewrite Hn. apply candidate_in_all_names. apply root_names_candidate.
      rewrite (the_root_root_names rows root Hroot). left. reflexivity.
    + destruct (kid_row rows m n (Hk m Hm) Hnm) as [r [Hr [_ Hc]]].
      apply In_all_names. exists r. split; [exact Hr|left; exact Hc].
Qed.

(* ---- reverse name paths of the nodes, in pre-order *)

Fixpoint rpaths (pfx : list str) (t : tree) : list (list str) :=
  match t with T _ n _ ks => (n :: pfx) :: flat_map (rpaths (n :: pfx)) ks end.

Lemma rpaths_unfold pfx t : rpaths pfx t = (tname t :: pfx) :: flat_map (rpaths (tname t :: pfx)) (tkids t).
Proof. destruct t; reflexivity. Qed.

Lemma rpaths_heads t : forall pfx, map (hd []) (rpaths pfx t) = map tname (pre t).
Proof.
  induction t as [g n a ks IH] using tree_ind'. intros pfx. rewrite rpaths_unfold, pre_unfold. cbn [map hd tname tkids].
  apply (f_equal (cons n)).
  induction ks as [|k ks IHk]; [reflexivity|]. inversion IH as [|? ? Hk Hks]; subst.
  cbn [flat_map]. rewrite !map_app. rewrite Hk. f_equal. exact (IHk Hks).
Qed.

Lemma rpaths_suffix t : forall pfx l, In l (rpaths pfx t) -> exists mid, l = mid ++ tname t :: pfx.
Proof.
  induction t as [g n a ks IH] using tree_ind'. intros pfx l Hin. cbn [rpaths tname] in *.
  destruct Hin as [<-|Hin]; [exists []; reflexivity|].
  apply in_flat_map in Hin as [k [Hk Hin]]. rewrite Forall_forall in IH.
  destruct (IH k Hk _ _ Hin) as [mid E]. exists (mid ++ [tname k]). rewrite <- app_assoc. exact E.
Qed.

Lemma NoDup_app_intro {A} (l l' : list A) :
  NoDup l -> NoDup l' -> (forall x, In x l -> ~ In x l') -> NoDup (l ++ l').
Proof.
  induction l as [|x l IH]; intros H1 H2 Hd; [exact H2|]. inversion H1 as [|? ? Hn Hl]; subst.
  cbn [app]. constructor.
  - intros Hin. apply in_app_or in Hin as [Hin|Hin]; [contradiction|]. apply (Hd x (or_introl eq_refl) Hin).
  - apply IH; [exact Hl|exact H2|]. intros y Hy. apply Hd. right. exact Hy.
Qed.

Lemma rpaths_nodup t : forall pfx,
  (forall n, In n (pre t) -> NoDup (map tname (tkids n))) -> NoDup (rpaths pfx t).
Proof.
  induction t as [g n a ks IH] using tree_ind'. intros pfx Hs. cbn [rpaths]. constructor.
  - intros Hin. apply in_flat_map in Hin as [k [_ Hin]]. apply rpaths_suffix in Hin as [mid E].
    apply (f_equal (@length str)) in E. rewrite app_length in E. cbn [length] in E. lia.
  - pose proof (Hs _ (or_introl eq_refl)) as Hnd. cbn [tkids] in Hnd.
    assert (Hsub : forall k, In k ks -> forall m, In m (pre k) -> NoDup (map tname (tkids m))).
    { intros k Hk m Hm. apply Hs. apply (pre_kid m k (T g n a ks)); [exact Hk|exact Hm]. }
    clear Hs. induction ks as [|k ks IHk]; [constructor|].
    inversion IH as [|? ? Hk Hks]; subst. cbn [map] in Hnd. inversion Hnd as [|? ? Hnk Hndk]; subst.
    cbn [flat_map]. apply NoDup_app_intro.
    + apply Hk. apply Hsub. left. reflexivity.
    + apply IHk; [exact Hks|exact Hndk|]. intros k' Hk'. apply Hsub. right. exact Hk'.
    + intros l H1 H2. apply rpaths_suffix in H1 as [mid1 E1].
      apply in_flat_map in H2 as [k' [Hk' H2]]. apply rpaths_suffix in H2 as [mid2 E2].
      apply Hnk. rewrite E1 in E2.
      change (mid1 ++ tname k :: n :: pfx) with (mid1 ++ [tname k] ++ n :: pfx) in E2.
      change (mid2 ++ tname k' :: n :: pfx) with (mid2 ++ [tname k'] ++ n :: pfx) in E2.
      rewrite !app_assoc in E2. apply app_inv_tail in E2. apply app_inj_tail in E2 as [_ E2].
      rewrite E2. apply in_map. exact Hk'.
Qed.

(* a list of names x1 :: x2 :: ... :: [root] where each (x_i, x_i+1) is a given (child, parent) pair *)
Fixpoint name_chain (rows : list row) (root : str) (l : list str) : Prop :=
  match l with
  | [] => False
  | x :: l' => match l' with
               | [] => x = root
               | y :: _ => (exists r, In r rows /\ rchild r = x /\ rparent r = Some y) /\ name_chain rows root l'
               end
  end.

Lemma rpaths_chains rows root t : forall pfx,
  name_chain rows root (tname t :: pfx) ->
  (forall n, In n (pre t) -> kids_are_rows rows n) ->
  forall l, In l (rpaths pfx t) -> name_chain rows root l.
Proof.
  induction t as [g n a ks IH] using tree_ind'. intros pfx Hc Hk l Hin. cbn [rpaths tname] in *.
  destruct Hin as [<-|Hin]; [exact Hc|].
  apply in_flat_map in Hin as [k [Hkin Hin]]. rewrite Forall_forall in IH.
  apply (IH k Hkin (n :: pfx)); [| |exact Hin].
  - destruct (kid_row rows (T g n a ks) k (Hk _ (or_introl eq_refl)) Hkin) as [r [Hr [Hp Hch]]].
    cbn [name_chain]. split; [|exact Hc]. exists r. cbn [tname] in Hp. repeat split; assumption.
  - intros m Hm. apply Hk. apply (pre_kid m k (T g n a ks)); [exact Hkin|exact Hm].
Qed.

Lemma occurs_is_parent rows c : occurs_as_parent rows c = true <-> is_parent rows c.
Proof. rewrite occurs_as_parent_In, In_parent_names. reflexivity. Qed.

(* a name that is a parent has one chain up to the root *)
Lemma chain_unique rows root :
  ambiguous rows = false ->
  (forall r p, In r rows -> rparent r = Some p -> rchild r <> root) ->
  forall l1 l2, name_chain rows root l1 -> name_chain rows root l2 ->
    hd [] l1 = hd [] l2 -> is_parent rows (hd [] l1) -> l1 = l2.
Proof.
  intros Hamb Hnl. induction l1 as [|x l1 IH]; intros l2 H1 H2 Eh Hpar; [destruct H1|].
  destruct l2 as [|x' l2]; [destruct H2|]. cbn [hd] in Eh, Hpar. subst x'.
  cbn [name_chain] in H1, H2. destruct l1 as [|y l1], l2 as [|y' l2].
  - reflexivity.
  - exfalso. destruct H2 as [[r [Hr [Hc Hp]]] _]. rewrite H1 in Hc. exact (Hnl r y' Hr Hp Hc).
  - exfalso. destruct H1 as [[r [Hr [Hc Hp]]] _]. rewrite H2 in Hc. exact (Hnl r y Hr Hp Hc).
  - destruct H1 as [[r1 [Hr1 [Hc1 Hp1]]] H1], H2 as [[r2 [Hr2 [Hc2 Hp2]]] H2].
    pose proof (unambiguous_parent rows x r1 r2 Hamb Hpar Hr1 Hr2 Hc1 Hc2) as E.
    rewrite Hp1, Hp2 in E. inversion E; subst y'. f_equal.
    apply IH; [exact H1|exact H2|reflexivity|]. cbn [hd]. exists r1. split; assumption.
Qed.

Lemma filter_heads_nodup (isp : str -> bool) : forall L : list (list str),
  NoDup L ->
  (forall l1 l2, In l1 L -> In l2 L -> hd [] l1 = hd [] l2 -> isp (hd [] l1) = true -> l1 = l2) ->
  NoDup (filter isp (map (hd []) L)).
Proof.
  induction L as [|l L IH]; intros Hnd Hu; [constructor|]. inversion Hnd as [|? ? Hn Hnd']; subst.
  assert (IH' : NoDup (filter isp (map (hd []) L))).
  { apply IH; [exact Hnd'|]. intros l1 l2 H1 H2. apply Hu; right; assumption. }
  cbn [map filter]. destruct (isp (hd [] l)) eqn:E; [|exact IH']. constructor; [|exact IH'].
  intros Hin. apply filter_In in Hin as [Hin _]. apply in_map_iff in Hin as [l2 [E2 H2]].
  assert (l = l2) by (apply Hu; [left; reflexivity|right; exact H2|symmetry; exact E2|exact E]).
  subst l2. contradiction.
Qed.

(* ---- grouping the rows by parent name *)

Lemma filter_disjoint_app {A} (f g : A -> bool) l :
  (forall x, In x l -> f x = true -> g x = false) ->
  Permutation (filter f l ++ filter g l) (filter (fun x => f x || g x) l).
Proof.
  induction l as [|x l IH]; intros Hd; [constructor|].
  assert (IH' : Permutation (filter f l ++ filter g l) (filter (fun x => f x || g x) l)).
  { apply IH. intros y Hy. apply Hd. right. exact Hy. }
  pose proof (Hd x (or_introl eq_refl)) as Hx. cbn [filter].
  destruct (f x) eqn:Ef; [rewrite (Hx eq_refl); cbn [orb app]; apply perm_skip; exact IH'|].
  destruct (g x) eqn:Eg; cbn [orb]; [|exact IH'].
  apply Permutation_sym. apply Permutation_cons_app. apply Permutation_sym. exact IH'.
Qed.

Definition parent_in (Q : list str) (r : row) : bool :=
  match rparent r with Some p => mem_str p Q | None => false end.

Lemma group_by_parent rows : forall Q, NoDup Q ->
  Permutation (flat_map (fun x => filter (fun r => has_parent r x) rows) Q) (filter (parent_in Q) rows).
Proof.
  induction Q as [|x Q IH]; intros Hnd.
  - cbn [flat_map]. rewrite filter_none; [constructor|]. intros r _. unfold parent_in. destruct (rparent r); reflexivity.
  - inversion Hnd as [|? ? Hn Hnd']; subst. cbn [flat_map].
    rewrite (filter_ext (parent_in (x :: Q)) (fun r => has_parent r x || parent_in Q r)).
    + eapply Permutation_trans; [apply Permutation_app_head; apply IH; exact Hnd'|].
      apply filter_disjoint_app. intros r _ Hp. apply has_parent_eq in Hp. unfold parent_in. rewrite Hp.
      apply mem_str_nIn. exact Hn.
    + intros r. unfold parent_in, has_parent. destruct (rparent r) as [p|]; [|reflexivity].
      cbn [mem_str existsb]. rewrite (str_eqb_sym p x). reflexivity.
Qed.

Definition pair_of_row (r : row) : str * str := (match rparent r with Some p => p | None => [] end, rchild r).

Lemma edge_pairs_map rows :
  edge_pairs rows = map pair_of_row (filter (fun r => match rparent r with Some _ => true | None => false end) rows).
Proof.
  unfold edge_pairs. induction rows as [|r rows IH]; [reflexivity|]. cbn [flat_map filter].
  rewrite IH. destruct (rparent r) as [p|] eqn:E; [|reflexivity]. cbn [map app]. f_equal. unfold pair_of_row. rewrite E. reflexivity.
Qed.

Definition row_edges (rows : list row) (x : str) : list (str * str) :=
  map (fun r => (x, rchild r)) (child_rows rows x).

Lemma row_edges_map rows x : row_edges rows x = map pair_of_row (filter (fun r => has_parent r x) rows).
Proof.
  unfold row_edges. rewrite child_rows_spec. apply map_ext_in. intros r Hr. apply filter_In in Hr as [_ Hp].
  apply has_parent_eq in Hp. unfold pair_of_row. rewrite Hp. reflexivity.
Qed.

Lemma flat_map_ext_in {A B} (f g : A -> list B) l : (forall x, In x l -> f x = g x) -> flat_map f l = flat_map g l.
Proof.
  induction l as [|x l IH]; intros H; [reflexivity|]. cbn [flat_map].
  rewrite (H x (or_introl eq_refl)), IH; [reflexivity|]. intros y Hy. apply H. right. exact Hy.
Qed.

Lemma flat_map_filter_nil {A B} (p : A -> bool) (g : A -> list B) l :
  (forall x, p x = false -> g x = []) -> flat_map g (filter p l) = flat_map g l.
Proof.
  intros H. induction l as [|x l IH]; [reflexivity|]. cbn [filter flat_map].
  destruct (p x) eqn:E; cbn [flat_map]; rewrite IH; [reflexivity|]. rewrite (H x E). reflexivity.
Qed.

Lemma edges_by_name rows t : (forall n, In n (pre t) -> kids_are_rows rows n) ->
  edges t = flat_map (row_edges rows) (map tname (pre t)).
Proof.
  intros Hk. unfold edges. rewrite flat_map_map'. apply flat_map_ext_in. intros n Hn.
  unfold row_edges. rewrite <- (map_map rchild (fun c => (tname n, c))), <- (Hk n Hn), map_map. reflexivity.
Qed.

(* ---- the tree built from rows that present a tree *)

Section Presented.
  Variable rows : list row.
  Variable root : str.
  Variable t : tree.
  Hypothesis Hroot : the_root rows = Some root.
  Hypothesis Hamb : ambiguous rows = false.
  Hypothesis Hnd : nodup_pairs rows = true.
  Hypothesis Hclimb : forall r p, In r rows -> rparent r = Some p -> climbs (length rows) rows root p = true.
  Hypothesis Hnull : forall r, In r rows -> rparent r = None -> rchild r = root.
  Hypothesis Hname : tname t = root.
  Hypothesis Hkids : forall n, In n (pre t) -> kids_are_rows rows n.

  Lemma child_closed r p : In p (map tname (pre t)) -> In r rows -> rparent r = Some p -> In (rchild r) (map tname (pre t)).
  Proof.
    intros Hp Hr Hrp. apply in_map_iff in Hp as [n [E Hn]]. subst p.
    destruct (row_kid rows n r (Hkids n Hn) Hr Hrp) as [k [Hk Ek]]. rewrite <- Ek. apply in_map.
    apply (kid_in_pre t n k Hn Hk).
  Qed.

  Lemma root_in_tree : In root (map tname (pre t)).
  Proof. rewrite <- Hname. apply in_map. rewrite pre_unfold. left. reflexivity. Qed.

  Lemma climbs_in_tree : forall k x, climbs k rows root x = true -> In x (map tname (pre t)).
  Proof.
    induction k as [|k IH]; intros x H; cbn [climbs] in H.
    - rewrite orb_false_r in H. apply str_eqb_eq in H. subst x. exact root_in_tree.
    - apply orb_true_iff in H as [H|H]; [apply str_eqb_eq in H; subst x; exact root_in_tree|].
      destruct (find (fun r => str_eqb (rchild r) x) rows) as [r|] eqn:Ef; [|discriminate].
      destruct (rparent r) as [p|] eqn:Ep; [|discriminate].
      apply find_some in Ef as [Hr Hc]. apply str_eqb_eq in Hc. subst x.
      apply (child_closed r p); [apply IH; exact H|exact Hr|exact Ep].
  Qed.

  Theorem presented_names x : In x (map tname (pre t)) <-> In x (all_names rows).
  Proof.
    split.
    - intros Hin. apply in_map_iff in Hin as [n [E Hin]]. subst x.
      destruct (pre_parent t n Hin) as [->|[m [Hm Hnm]]].
      + rewrite Hname. apply candidate_in_all_names. apply root_names_candidate.
        rewrite (the_root_root_names rows root Hroot). left. reflexivity.
      + destruct (kid_row rows m n (Hkids m Hm) Hnm) as [r [Hr [_ Hc]]].
        apply In_all_names. exists r. split; [exact Hr|left; exact Hc].
    - intros Hin. apply In_all_names in Hin as [r [Hr [Hc|Hp]]].
      + subst x. destruct (rparent r) as [p|] eqn:Ep.
        * apply (child_closed r p); [|exact Hr|exact Ep]. apply (climbs_in_tree _ _ (Hclimb r p Hr Ep)).
        * rewrite (Hnull r Hr Ep). exact root_in_tree.
      + apply (climbs_in_tree _ _ (Hclimb r x Hr Hp)).
  Qed.

  Lemma tree_sibs_nodup n : In n (pre t) -> NoDup (map tname (tkids n)).
  Proof. intros Hn. rewrite (Hkids n Hn). apply child_rows_names_nodup. exact Hnd. Qed.

  (* every name that has children is carried by exactly one node *)
  Theorem presented_parents_once : NoDup (filter (occurs_as_parent rows) (map tname (pre t))).
  Proof.
    rewrite <- (rpaths_heads t []). apply filter_heads_nodup.
    - apply rpaths_nodup. exact tree_sibs_nodup.
    - intros l1 l2 H1 H2 Eh Hp. apply (chain_unique rows root Hamb (root_not_listed rows root Hroot Hamb Hclimb)).
      + apply (rpaths_chains rows root t []); [cbn; exact Hname|exact Hkids|exact H1].
      + apply (rpaths_chains rows root t []); [cbn; exact Hname|exact Hkids|exact H2].
      + exact Eh.
      + apply occurs_is_parent. exact Hp.
  Qed.

  Theorem presented_edges : Permutation (edges t) (edge_pairs rows).
  Proof.
    rewrite (edges_by_name rows t Hkids).
    rewrite <- (flat_map_filter_nil (occurs_as_parent rows) (row_edges rows)).
    - set (Q := filter (occurs_as_parent rows) (map tname (pre t))).
      rewrite (flat_map_ext _ _ (row_edges_map rows)), <- map_flat_map', edge_pairs_map.
      apply Permutation_map.
      eapply Permutation_trans; [apply group_by_parent; exact presented_parents_once|].
      fold Q. rewrite (filter_ext_in (parent_in Q) (fun r => match rparent r with Some _ => true | None => false end)).
      + apply Permutation_refl.
      + intros r Hr. unfold parent_in. destruct (rparent r) as [p|] eqn:Ep; [|reflexivity].
        apply mem_str_In. unfold Q. apply filter_In. split.
        * apply (climbs_in_tree _ _ (Hclimb r p Hr Ep)).
        * apply occurs_is_parent. exists r. split; assumption.
    - intros x Hx. unfold row_edges. destruct (child_rows rows x) as [|r l] eqn:E; [reflexivity|exfalso].
      assert (Hr : In r (child_rows rows x)) by (rewrite E; left; reflexivity).
      apply In_child_rows in Hr as [Hr Hp].
      assert (occurs_as_parent rows x = true) by (apply occurs_is_parent; exists r; split; assumption). congruence.
  Qed.
End Presented.

Lemma presents_tree_null rows root : presents_tree rows = true -> the_root rows = Some root ->
  forall r, In r rows -> rparent r = None -> rchild r = root.
Proof.
  unfold presents_tree. destruct rows as [|r0 rs]; [discriminate|].
  intros H E. rewrite E in H. apply andb_true_iff in H as [_ H]. rewrite forallb_forall in H.
  intros r Hr Hp. specialize (H r Hr). rewrite Hp in H. apply str_eqb_eq. exact H.
Qed.

(* every row list that passes the specification's test for "the relations of a tree whose repeated names are
   leaves" - null attribute values, any row order, either flag - is accepted, and the result has exactly the
   given pairs as edges (as multisets), exactly the given names as node names, and every name that has
   children on exactly one node *)
Theorem presented_edges_exact ad rows : presents_tree rows = true ->
  exists t, rel_to_tree ad rows = Ret t
            /\ Permutation (edges t) (edge_pairs rows)
            /\ (forall x, In x (map tname (pre t)) <-> In x (all_names rows))
            /\ NoDup (filter (occurs_as_parent rows) (map tname (pre t))).
Proof.
  intros H. destruct (presents_tree_accepted ad rows H) as [t Ht]. exists t. split; [exact Ht|].
  destruct (presents_tree_inv rows H) as [root [_ [Eroot [Ha [Hnd [_ [_ Hcl]]]]]]].
  destruct (accepted_inv ad rows t Ht) as [root' [Eroot' [Hn Hk]]].
  assert (E : root' = root) by congruence. rewrite E in Hn. clear E Eroot'.
  pose proof (presents_tree_null rows root H Eroot) as Hnull. split; [|split].
  - exact (presented_edges rows root t Eroot Ha Hnd Hcl Hn Hk).
  - exact (presented_names rows root t Eroot Hcl Hnull Hn Hk).
  - exact (presented_parents_once rows root t Eroot Ha Hnd Hcl Hn Hk).
Qed.

(* the same through the list entry point (no attribute columns) *)
Theorem list_presented_edges_exact ad rows : presents_tree rows = true ->
  exists t, list_rel_to_tree ad rows = Ret t
            /\ Permutation (edges t) (edge_pairs rows)
            /\ (forall x, In x (map tname (pre t)) <-> In x (all_names rows))
            /\ NoDup (filter (occurs_as_parent rows) (map tname (pre t))).
Proof.
  intros H. destruct (presented_edges_exact ad rows H) as [t [Ht [He [Hn Hp]]]].
  exists (erase t). rewrite list_rel_erases, Ht, edges_erase, names_erase. repeat split; try assumption; apply Hn.
Qed.
