(* Executable model of the relation / nested-dict / heap-list constructors of bigtree (property C13).

   bigtree/tree/construct.py
     714-760   list_to_tree_by_relation        (a DataFrame of (parent, child) pairs, then 1041-1166)
     1041-1166 dataframe_to_tree_by_relation   } the same function on a *row list*
     1278-1404 polars_to_tree_by_relation      } (child, parent-or-null, attribute columns)
     852-927   nested_dict_to_tree
   bigtree/utils/assertions.py  assert_dataframe_no_duplicate_children, filter_attributes
   bigtree/binarytree/construct.py:11-53  list_to_binarytree
   bigtree/node/node.py:159-173  Node refuses a second child of the same name under one parent (TreeError)
   bigtree/node/binarynode.py parent setter: first empty slot, TreeError when both are taken

   pandas / polars appear only as row lists: `data[data[parent] == x]` = filter in row order,
   `drop_duplicates` / `unique` + `isin` + `value_counts() > 1` = the counting below, `set(...)` = a list
   up to duplicates.  No proofs in this file. *)
From BT Require Import Base.Prelude Base.Str Base.Rose.

(* ---------------------------------------------------------------------------------------------- *)
(* rows *)

Definition row := (str * option str * attrs)%type.      (* child name, parent name or null, attribute columns *)
Definition rchild (r : row) : str := fst (fst r).
Definition rparent (r : row) : option str := snd (fst r).
Definition rattrs (r : row) : attrs := snd r.

Definition ostr_eqb (a b : option str) : bool := opt_eqb str_eqb a b.
Definition pair_eqb (a b : str * option str) : bool := str_eqb (fst a) (fst b) && ostr_eqb (snd a) (snd b).
Definition mem_str (x : str) (l : list str) : bool := existsb (str_eqb x) l.

Definition is_null (v : val) : bool := match v with VNone => true | _ => false end.

(* assertions.filter_attributes(row, omit_keys=[child_col, parent_col], omit_null_values=True); the child and
   parent columns are not part of `rattrs`.  (`name` is then set from the child column.) *)
Definition retrieve_attr (r : row) : attrs := filter (fun kv => negb (is_null (snd kv))) (rattrs r).

(* the (child, parent) pairs with duplicates removed.  pandas keeps the first of equal rows, this keeps the last;
   everything computed from the result below (membership, counts) does not depend on which one is kept. *)
Fixpoint dedupe_pairs (l : list (str * option str)) : list (str * option str) :=
  match l with
  | [] => []
  | x :: t => if existsb (pair_eqb x) t then dedupe_pairs t else x :: dedupe_pairs t
  end.

Fixpoint dedupe_str (l : list str) : list str :=
  match l with
  | [] => []
  | x :: t => if mem_str x t then dedupe_str t else x :: dedupe_str t
  end.

Definition pairs_of (rows : list row) : list (str * option str) := map (fun r => (rchild r, rparent r)) rows.

(* assertions.assert_dataframe_no_duplicate_children: among the distinct (child, parent) pairs keep those whose
   child also occurs in the parent column; a child name counted more than once there is refused. *)
Definition count_child (c : str) (l : list (str * option str)) : nat :=
  length (filter (fun pr => str_eqb (fst pr) c) l).

Definition data_check (rows : list row) : list (str * option str) :=
  let d := dedupe_pairs (pairs_of rows) in
  filter (fun pr => existsb (fun q => ostr_eqb (snd q) (Some (fst pr))) d) d.

Definition dup_children (rows : list row) : bool :=
  let dc := data_check rows in
  existsb (fun pr => Nat.ltb 1 (count_child (fst pr) dc)) dc.

(* root inference, construct.py:1120-1128 (pandas), 1357-1365 (polars):
     root_names = set(child of rows with null parent); root_names.update(set(non-null parents) - set(child))
   (pandas: set(data[parent_col].dropna()) since fix F12 - None, NaN and pd.NA all mean "no parent"; polars: - {None}) *)
Definition null_children (rows : list row) : list str :=
  map rchild (filter (fun r => match rparent r with None => true | Some _ => false end) rows).

Definition parent_names (rows : list row) : list str :=
  flat_map (fun r => match rparent r with Some p => [p] | None => [] end) rows.

Definition root_names (rows : list row) : list str :=
  dedupe_str (null_children rows ++
              filter (fun p => negb (mem_str p (map rchild rows))) (parent_names rows)).

(* data[data[parent_col] == name], in row order (read as records since fix F9: row labels play no role) *)
Definition child_rows (rows : list row) (pname : str) : list row :=
  filter (fun r => ostr_eqb (rparent r) (Some pname)) rows.

(* the loop of _recursive_add_child over the child rows of one node: the child is created (Node refuses an empty
   name: TreeError), attached (Node refuses a second child with the same name: TreeError), then its own children
   are added.  `acc` = children attached so far, most recent first. *)
Fixpoint attach (rec : str -> res (list tree)) (crs : list row) (acc : list tree) : res (list tree) :=
  match crs with
  | [] => Ret (rev acc)
  | r :: rest =>
      match rchild r with
      | [] => Raise TreeError
      | _ =>
        if mem_str (rchild r) (map tname acc) then Raise TreeError
        else match rec (rchild r) with
             | Raise e => Raise e
             | Ret ks => attach rec rest (T None (rchild r) (retrieve_attr r) ks :: acc)
             end
      end
  end.

(* _recursive_add_child(parent_node): children are looked up by the parent's *name*.  Out of fuel = Python's
   RecursionError (observed class: RecursionError, or TreeError when the limit is hit inside a setter's try
   block); it is reported as OtherError. *)
Fixpoint add_children (fuel : nat) (rows : list row) (pname : str) : res (list tree) :=
  match fuel with
  | 0 => Raise OtherError
  | S f => attach (add_children f rows) (child_rows rows pname) []
  end.

Definition root_attrs (rows : list row) (root_name : str) : attrs :=
  match filter (fun r => str_eqb (rchild r) root_name) rows with
  | r :: _ => retrieve_attr r
  | [] => []
  end.

(* dataframe_to_tree_by_relation / polars_to_tree_by_relation on a row list *)
Definition rel_to_tree (allow_duplicates : bool) (rows : list row) : res tree :=
  match rows with
  | [] => Raise ValueError                                        (* assert_dataframe_not_empty *)
  | _ =>
    if negb allow_duplicates && dup_children rows then Raise ValueError
    else match root_names rows with
         | [[]] => Raise TreeError                               (* root node with an empty name *)
         | [root_name] =>
             match add_children (S (length rows)) rows root_name with
             | Raise e => Raise e
             | Ret ks => Ret (T None root_name (root_attrs rows root_name) ks)
             end
         | _ => Raise ValueError                                  (* "Unable to determine root node" *)
         end
  end.

(* list_to_tree_by_relation: (parent, child) tuples, no attribute columns *)
Definition strip_attrs (rows : list row) : list row := map (fun r => (rchild r, rparent r, [])) rows.
Definition list_rel_to_tree (allow_duplicates : bool) (rows : list row) : res tree :=
  rel_to_tree allow_duplicates (strip_attrs rows).

(* ---------------------------------------------------------------------------------------------- *)
(* nested_dict_to_tree, construct.py:852-927.
   A dictionary = its scalar entries in insertion order (the name entry among them) + what is stored under
   child_key: nothing, a value that is not a list, or a list of dictionaries. *)

Inductive ckind := CMissing | CBad | CList.
Inductive nd := ND (entries : list (str * val)) (kind : ckind) (kids : list nd).

Fixpoint pop_key (k : str) (l : list (str * val)) : option (val * list (str * val)) :=
  match l with
  | [] => None
  | (k', v) :: t =>
      if str_eqb k k' then Some (v, t)
      else match pop_key k t with
           | Some (v', t') => Some (v', (k', v) :: t')
           | None => None
           end
  end.

(* _recursive_add_child(child_dict, parent_node); `sibs` = names of the children the parent already has.
   Order of events as in the code: pop name (KeyError), pop children + type test (TypeError), create the node
   attached to its parent (TreeError on a repeated sibling name / empty name), then the children in order. *)
Fixpoint nd_build (name_key : str) (sibs : list str) (d : nd) : res tree :=
  match d with
  | ND entries kind kids =>
      match pop_key name_key entries with
      | None => Raise KeyError
      | Some (VStr nm, rest) =>
          match kind with
          | CBad => Raise TypeError
          | _ =>
            if mem_str nm sibs then Raise TreeError else
            match nm with
            | [] => Raise TreeError                                (* "Node must have a `name` attribute" *)
            | _ =>
              let built :=
                (fix go (l : list nd) (acc : list tree) : res (list tree) :=
                   match l with
                   | [] => Ret (rev acc)
                   | c :: r => match nd_build name_key (map tname acc) c with
                               | Raise e => Raise e
                               | Ret t => go r (t :: acc)
                               end
                   end) kids [] in
              match (match kind with CList => built | _ => Ret [] end) with
              | Raise e => Raise e
              | Ret ks => Ret (T None nm rest ks)
              end
            end
          end
      | Some (_, _) => Raise Unmodelled                            (* names other than str are not generated *)
      end
  end.

Definition nested_dict_to_tree (name_key : str) (d : nd) : res tree :=
  match d with
  | ND [] CMissing _ => Raise ValueError                           (* assert_length_not_empty *)
  | _ => nd_build name_key [] d
  end.

(* ---------------------------------------------------------------------------------------------- *)
(* list_to_binarytree, binarytree/construct.py:11-53.  node_list[i] is the node made from element i; the table
   holds the two child slots of every node made so far. *)

Inductive hbt := BT (v : Z) (l r : option hbt).

Definition slots := (option nat * option nat)%type.

Fixpoint set_nth {A} (i : nat) (x : A) (l : list A) : list A :=
  match l, i with
  | [], _ => []
  | _ :: t, 0 => x :: t
  | y :: t, S j => y :: set_nth j x t
  end.

(* parent_idx = int((idx + 1) / 2) - 1 ; on natural numbers the float division is exact below 2^53 *)
Definition parent_idx (idx : nat) : nat := Nat.div (idx + 1) 2 - 1.

(* node_type(num, parent=node_list[parent_idx]): BinaryNode.parent setter, first empty slot *)
Definition heap_attach (tbl : list slots) (idx : nat) : res (list slots) :=
  let p := parent_idx idx in
  match nth_error tbl p with
  | None => Raise IndexError
  | Some (None, r) => Ret (set_nth p (Some idx, r) tbl ++ [(None, None)])
  | Some (Some l, None) => Ret (set_nth p (Some l, Some idx) tbl ++ [(None, None)])
  | Some (Some _, Some _) => Raise TreeError
  end.

(* for idx, num in enumerate(heapq_list): if idx: ...   (k = number of elements still to place) *)
Fixpoint heap_loop (k : nat) (idx : nat) (tbl : list slots) : res (list slots) :=
  match k with
  | 0 => Ret tbl
  | S k' => match heap_attach tbl idx with
            | Raise e => Raise e
            | Ret tbl' => heap_loop k' (S idx) tbl'
            end
  end.

Definition heap_table (l : list Z) : res (list slots) :=
  match l with
  | [] => Raise ValueError                                         (* assert_length_not_empty *)
  | _ :: t => heap_loop (length t) 1 [(None, None)]
  end.

(* read the linked nodes back as a tree, from node i; None = out of fuel (cannot happen: a child's index is
   larger than its parent's, see RelationProofs.heap_tree_fuel) *)
Fixpoint hbt_of (fuel : nat) (vals : list Z) (tbl : list slots) (i : nat) : option hbt :=
  match fuel with
  | 0 => None
  | S f =>
      let sl := nth i tbl (None, None) in
      let sub (o : option nat) : option (option hbt) :=
        match o with
        | None => Some None
        | Some j => match hbt_of f vals tbl j with Some b => Some (Some b) | None => None end
        end in
      match sub (fst sl), sub (snd sl) with
      | Some lb, Some rb => Some (BT (nth i vals 0%Z) lb rb)
      | _, _ => None
      end
  end.

Definition list_to_binarytree (l : list Z) : res hbt :=
  match heap_table l with
  | Raise e => Raise e
  | Ret tbl => match hbt_of (length l) l tbl 0 with
               | Some b => Ret b
               | None => Raise OtherError
               end
  end.
