(* Proofs about the Reingold-Tilford model Algo/Plot.v for property C19 (Spec/PC19.v). *)
From Coq Require Import QArith Qminmax Qabs Lqa.
From BT Require Import Base.Prelude Base.Rose Algo.Plot Spec.PC19.

Local Open Scope Q_scope.

Ltac qn := repeat rewrite Qred_correct in *.

(* ---------------------------------------------------------------------------------------------
   generic list facts *)

Lemma last_map {A B} (f : A -> B) (l : list A) (d : A) : last (map f l) (f d) = f (last l d).
Proof.
  induction l as [|a l IH]; [reflexivity|]. cbn [map last].
  destruct l as [|b l]; [reflexivity|]. cbn [map] in *. exact IH.
Qed.

Lemma last_cons_ne {A} (a d d' : A) (l : list A) : l <> [] -> last (a :: l) d = last l d'.
Proof.
  revert a. induction l as [|b l IH]; intros a H; [congruence|].
  cbn [last]. destruct l as [|c l]; [reflexivity|]. apply (IH b). discriminate.
Qed.

Lemma last_app1 {A} (l : list A) (x d : A) : last (l ++ [x]) d = x.
Proof.
  induction l as [|a l IH]; [reflexivity|]. cbn [app last].
  destruct (l ++ [x]) eqn:E; [destruct l; discriminate|]. exact IH.
Qed.

Lemma last_In {A} (l : list A) (d : A) : l <> [] -> In (last l d) l.
Proof.
  induction l as [|a l IH]; intros H; [congruence|]. cbn [last].
  destruct l as [|b l]; [left; reflexivity|]. right. apply IH. discriminate.
Qed.

(* P a b for all a before b *)
Fixpoint ordP {A} (R : A -> A -> Prop) (l : list A) : Prop :=
  match l with [] => True | a :: r => Forall (R a) r /\ ordP R r end.

Lemma ordP_map {A B} (f : A -> B) (R : B -> B -> Prop) (l : list A) :
  ordP (fun a b => R (f a) (f b)) l -> ordP R (map f l).
Proof.
  induction l as [|a l IH]; cbn [ordP map]; [trivial|]. intros [H1 H2]. split; [|auto].
  apply Forall_map. exact H1.
Qed.

Lemma ordP_impl {A} (R S : A -> A -> Prop) (l : list A) :
  (forall a b, R a b -> S a b) -> ordP R l -> ordP S l.
Proof.
  intros HI. induction l as [|a l IH]; cbn [ordP]; [trivial|]. intros [H1 H2]. split; [|auto].
  eapply Forall_impl; [|exact H1]. auto.
Qed.

Lemma ordpairs_true {A} (R : A -> A -> Prop) (P : A -> A -> bool) (l : list A) :
  (forall a b, R a b -> P a b = true) -> ordP R l -> ordpairs P l = true.
Proof.
  intros HI. induction l as [|a l IH]; cbn [ordP ordpairs]; [trivial|]. intros [H1 H2].
  apply andb_true_iff. split; [|auto]. apply forallb_forall. intros b Hb.
  apply HI. rewrite Forall_forall in H1. auto.
Qed.

(* ---------------------------------------------------------------------------------------------
   tolerance comparisons *)

Lemma leq_eps_true eps a b : 0 <= eps -> a <= b -> leq_eps eps a b = true.
Proof. intros He H. unfold leq_eps. apply Qle_bool_iff. lra. Qed.

Lemma eq_eps_true eps a b : 0 <= eps -> a == b -> eq_eps eps a b = true.
Proof.
  intros He H. unfold eq_eps. apply Qle_bool_iff.
  assert (E : a - b == 0) by lra. rewrite (Qabs_wd _ _ E). cbn. exact He.
Qed.

(* ---------------------------------------------------------------------------------------------
   induction principles and structural lemmas *)

Section DInd.
  Variable P : dtree -> Prop.
  Hypothesis H : forall x m s ks, Forall P ks -> P (D x m s ks).
  Fixpoint dtree_ind' (d : dtree) : P d :=
    match d with
    | D x m s ks => H x m s ks ((fix go (l : list dtree) : Forall P l :=
                                  match l with
                                  | [] => Forall_nil P
                                  | k :: r => Forall_cons k (dtree_ind' k) (go r)
                                  end) ks)
    end.
End DInd.

Section CInd.
  Variable P : ctree -> Prop.
  Hypothesis H : forall x y ks, Forall P ks -> P (C x y ks).
  Fixpoint ctree_ind' (c : ctree) : P c :=
    match c with
    | C x y ks => H x y ks ((fix go (l : list ctree) : Forall P l :=
                               match l with
                               | [] => Forall_nil P
                               | k :: r => Forall_cons k (ctree_ind' k) (go r)
                               end) ks)
    end.
End CInd.

Lemma cpre_unfold c : cpre c = c :: flat_map cpre (ckids c).
Proof. destruct c; reflexivity. Qed.

Lemma Forall_cpre (P : ctree -> Prop) c :
  Forall P (cpre c) <-> P c /\ Forall (fun k => Forall P (cpre k)) (ckids c).
Proof.
  rewrite cpre_unfold. split.
  - intros HF. inversion HF as [|? ? H1 H2]; subst. split; [exact H1|].
    apply Forall_flat_map. exact H2.
  - intros [H1 H2]. constructor; [exact H1|]. apply Forall_flat_map. exact H2.
Qed.

(* ---------------------------------------------------------------------------------------------
   cshift (third pass) *)

Lemma cx_cshift a c : cx (cshift a c) == cx c + a.
Proof. destruct c; cbn [cshift cx]. apply Qred_correct. Qed.
Lemma cy_cshift a c : cy (cshift a c) = cy c.
Proof. destruct c; reflexivity. Qed.
Lemma ckids_cshift a c : ckids (cshift a c) = map (cshift a) (ckids c).
Proof. destruct c; reflexivity. Qed.

Lemma cpre_cshift a c : cpre (cshift a c) = map (cshift a) (cpre c).
Proof.
  induction c as [x y ks IH] using ctree_ind'. cbn [cshift cpre map]. f_equal.
  induction ks as [|k ks IHk]; [reflexivity|]. inversion IH as [|? ? Hk Hks]; subst.
  cbn [map flat_map]. rewrite map_app, Hk, IHk by exact Hks. reflexivity.
Qed.

Lemma clevel_cshift a k : forall c, clevel k (cshift a c) = map (cshift a) (clevel k c).
Proof.
  induction k as [|k IH]; intros c; [reflexivity|]. cbn [clevel]. rewrite ckids_cshift.
  induction (ckids c) as [|x l IHl]; [reflexivity|].
  cbn [map flat_map]. rewrite map_app, IH, IHl. reflexivity.
Qed.

Lemma cheight_cshift a c : cheight (cshift a c) = cheight c.
Proof.
  induction c as [x y ks IH] using ctree_ind'. cbn [cshift cheight]. f_equal.
  induction ks as [|k ks IHk]; [reflexivity|]. inversion IH as [|? ? Hk Hks]; subst.
  cbn [map fold_right]. rewrite Hk, IHk by exact Hks. reflexivity.
Qed.

Lemma Forall_cpre_cshift (P : ctree -> Prop) a c :
  (forall n, P n -> P (cshift a n)) -> Forall P (cpre c) -> Forall P (cpre (cshift a c)).
Proof.
  intros HP HF. rewrite cpre_cshift. apply Forall_map. eapply Forall_impl; [|exact HF]. exact HP.
Qed.

(* ---------------------------------------------------------------------------------------------
   1. levels *)

Definition ylev (ls yo : Q) (maxd j : nat) : Q := inject_Z (Z.of_nat maxd - Z.of_nat j) * ls + yo.

Lemma ylev_succ ls yo maxd j : ylev ls yo maxd j - ylev ls yo maxd (S j) == ls.
Proof.
  unfold ylev. rewrite Nat2Z.inj_succ.
  replace (Z.of_nat maxd - Z.succ (Z.of_nat j))%Z with ((Z.of_nat maxd - Z.of_nat j) + (-1))%Z by lia.
  rewrite inject_Z_plus. change (inject_Z (-1)) with (-1 # 1). lra.
Qed.

Lemma second_level_y ls xo yo maxd k : forall depth cum d,
  Forall (fun n => cy n == ylev ls yo maxd (depth + k)) (clevel k (second ls xo yo maxd depth cum d)).
Proof.
  induction k as [|k IH]; intros depth cum d.
  - destruct d as [x m sh ks]. cbn [clevel second]. constructor; [|constructor].
    cbn [cy]. rewrite Qred_correct. rewrite Nat.add_0_r. reflexivity.
  - destruct d as [x m sh ks]. cbn [clevel second ckids].
    apply Forall_flat_map. apply Forall_map. apply Forall_forall. intros kd _.
    replace (depth + S k)%nat with (S depth + k)%nat by lia. apply IH.
Qed.

Definition levelsP (ls : Q) (c : ctree) : Prop :=
  exists y0 : nat -> Q, (forall k, y0 k - y0 (S k) == ls) /\
                        forall k, Forall (fun n => cy n == y0 k) (clevel k c).

Lemma levelsP_second ls xo yo maxd depth cum d : levelsP ls (second ls xo yo maxd depth cum d).
Proof.
  exists (fun k => ylev ls yo maxd (depth + k)). split.
  - intros k. replace (depth + S k)%nat with (S (depth + k)) by lia. apply ylev_succ.
  - intros k. apply second_level_y.
Qed.

Lemma levelsP_cshift ls a c : levelsP ls c -> levelsP ls (cshift a c).
Proof.
  intros [y0 [H1 H2]]. exists y0. split; [exact H1|]. intros k. rewrite clevel_cshift.
  apply Forall_map. eapply Forall_impl; [|apply H2]. intros n Hn. rewrite cy_cshift. exact Hn.
Qed.

Lemma levelsP_third ls c : levelsP ls c -> levelsP ls (third c).
Proof. intros H. unfold third. destruct (Qeq_bool (adjust c) 0); [exact H|]. apply levelsP_cshift, H. Qed.

Lemma levels_ok_of_P eps ls c : 0 <= eps -> 0 < ls -> levelsP ls c -> levels_ok eps ls c = true.
Proof.
  intros He Hls [y0 [H1 H2]]. unfold levels_ok. apply forallb_forall. intros k _.
  unfold level_y_ok. pose proof (H2 k) as Hk. destruct (clevel k c) as [|n0 l] eqn:E; [reflexivity|].
  inversion Hk as [|? ? Hn0 _]; subst.
  apply andb_true_iff. split; apply forallb_forall.
  - intros n Hn. rewrite Forall_forall in Hk. apply eq_eps_true; [exact He|].
    rewrite (Hk n Hn), Hn0. reflexivity.
  - intros m Hm. pose proof (H2 (S k)) as Hk1. rewrite Forall_forall in Hk1.
    apply eq_eps_true; [exact He|].
    assert (Ed : cy n0 - cy m == ls) by (rewrite Hn0, (Hk1 m Hm); apply H1).
    rewrite (Qabs_wd _ _ Ed). apply Qabs_pos. lra.
Qed.

(* ---------------------------------------------------------------------------------------------
   Invariants of the first pass *)

(* consecutive siblings: preliminary x exactly ss apart, shifts non-decreasing *)
Fixpoint chain_x (ss : Q) (l : list dtree) : Prop :=
  match l with
  | a :: (b :: _) as r => dx b == dx a + ss /\ chain_x ss r
  | _ => True
  end.
Fixpoint mono (l : list Q) : Prop :=
  match l with
  | a :: (b :: _) as r => a <= b /\ mono r
  | _ => True
  end.

(* what the property needs of one node: centred over its children (x - mod is the midpoint of
   the children's x + shift), children chained *)
Definition dlocal (ss : Q) (d : dtree) : Prop :=
  (dkids d <> [] -> dx d - dmod d == midpoint_raw (dkids d))
  /\ chain_x ss (dkids d) /\ mono (map dsh (dkids d)).

Fixpoint alld (P : dtree -> Prop) (d : dtree) : Prop :=
  match d with
  | D _ _ _ ks => P d /\ (fix go (l : list dtree) : Prop :=
                            match l with [] => True | k :: r => alld P k /\ go r end) ks
  end.

Lemma alld_unfold P d : alld P d <-> P d /\ Forall (alld P) (dkids d).
Proof.
  destruct d as [x m s ks]. cbn [alld dkids].
  assert (E : (fix go (l : list dtree) : Prop :=
                 match l with [] => True | k :: r => alld P k /\ go r end) ks
              <-> Forall (alld P) ks).
  { induction ks as [|k ks IH]; [split; constructor|]. split.
    - intros [H1 H2]. constructor; [exact H1|]. apply IH, H2.
    - intros HF. inversion HF; subst. split; [assumption|]. apply IH. assumption. }
  rewrite E. reflexivity.
Qed.

Definition dwf (ss : Q) (d : dtree) : Prop := alld (dlocal ss) d.

(* bump / bumpq *)
Lemma bump_dsh s idx : forall l k, map dsh (bump s idx k l) = bumpq s idx k (map dsh l).
Proof.
  induction l as [|[x m sh ks] l IH]; intros k; [reflexivity|].
  cbn [bump bumpq map dsh]. rewrite IH. reflexivity.
Qed.

Lemma bumpq_app s idx : forall a b k,
  bumpq s idx k (a ++ b) = bumpq s idx k a ++ bumpq s idx (k + length a) b.
Proof.
  induction a as [|x a IH]; intros b k; cbn [app bumpq length].
  - rewrite Nat.add_0_r. reflexivity.
  - rewrite IH. replace (S k + length a)%nat with (k + S (length a))%nat by lia. reflexivity.
Qed.

Lemma bumpq_length s idx : forall l k, length (bumpq s idx k l) = length l.
Proof. induction l as [|x l IH]; intros k; cbn [bumpq length]; [reflexivity|]. rewrite IH. reflexivity. Qed.

Lemma frac_mono (k idx : nat) : (Z.of_nat k # Pos.of_nat idx) <= (Z.of_nat (S k) # Pos.of_nat idx).
Proof. unfold Qle. cbn [Qnum Qden]. rewrite Nat2Z.inj_succ. nia. Qed.

Lemma mono_bumpq s idx : 0 <= s -> forall l k, mono l -> mono (bumpq s idx k l).
Proof.
  intros Hs. induction l as [|a l IH]; intros k Hm; [exact I|].
  destruct l as [|b l]; [exact I|].
  cbn [bumpq]. cbn [mono] in Hm. destruct Hm as [Hab Hm]. split.
  - qn. pose proof (frac_mono k idx) as Hf.
    assert (s * (Z.of_nat k # Pos.of_nat idx) <= s * (Z.of_nat (S k) # Pos.of_nat idx)) by nra.
    lra.
  - apply (IH (S k)) in Hm. exact Hm.
Qed.

Lemma bump_dx s idx : forall l k, map dx (bump s idx k l) = map dx l.
Proof. induction l as [|[x m sh ks] l IH]; intros k; [reflexivity|]. cbn [bump map dx]. rewrite IH. reflexivity. Qed.

Lemma chain_x_ext ss : forall l l', map dx l = map dx l' -> chain_x ss l -> chain_x ss l'.
Proof.
  induction l as [|a l IH]; intros l' E H; destruct l' as [|a' l']; try discriminate; [exact I|].
  cbn [map] in E. injection E as Ea El.
  destruct l as [|b l]; destruct l' as [|b' l']; try discriminate; [exact I|].
  cbn [chain_x] in *. destruct H as [H1 H2]. cbn [map] in El. injection El as Eb El'.
  split; [rewrite <- Ea, <- Eb; exact H1|]. apply (IH (b' :: l')); [cbn [map]; congruence|exact H2].
Qed.

Lemma bump_Forall (P : dtree -> Prop) s idx :
  (forall x m sh sh' ks, P (D x m sh ks) -> P (D x m sh' ks)) ->
  forall l k, Forall P l -> Forall P (bump s idx k l).
Proof.
  intros HP. induction l as [|[x m sh ks] l IH]; intros k HF; [constructor|].
  inversion HF; subst. cbn [bump]. constructor; [eapply HP; eassumption|]. apply IH. assumption.
Qed.

Lemma dwf_sh ss x m sh sh' ks : dwf ss (D x m sh ks) -> dwf ss (D x m sh' ks).
Proof.
  unfold dwf. rewrite !alld_unfold. cbn [dkids]. intros [H1 H2]. split; [|exact H2].
  unfold dlocal in *. cbn [dkids dx dmod] in *. exact H1.
Qed.

Lemma chain_x_snoc ss : forall l d0 nd,
  l <> [] -> chain_x ss l -> dx nd == dx (last l d0) + ss -> chain_x ss (l ++ [nd]).
Proof.
  induction l as [|a l IH]; intros d0 nd Hne Hc Hx; [congruence|].
  destruct l as [|b l].
  - cbn [app chain_x]. cbn [last] in Hx. split; [exact Hx|exact I].
  - change ((a :: b :: l) ++ [nd]) with (a :: ((b :: l) ++ [nd])).
    cbn [chain_x] in Hc. destruct Hc as [H1 H2].
    assert (E : chain_x ss ((b :: l) ++ [nd])).
    { apply (IH d0); [discriminate|exact H2|]. rewrite Hx.
      rewrite (last_cons_ne a d0 d0 (b :: l)) by discriminate. reflexivity. }
    cbn [app] in *. cbn [chain_x]. split; [exact H1|exact E].
Qed.

Lemma max_shift_ge sts nd idx : forall lefts j acc, acc <= max_shift sts nd idx j lefts acc.
Proof.
  induction lefts as [|l r IH]; intros j acc; cbn [max_shift]; [lra|].
  eapply Qle_trans; [|apply IH]. apply Q.le_max_l.
Qed.

(* the loop over the children of one parent *)
Lemma place_inv ss sts : forall todo done pend,
  length pend = length todo ->
  Forall (fun dk => Forall (dwf ss) dk /\ chain_x ss dk /\ mono (map dsh dk)) todo ->
  Forall (dwf ss) done -> chain_x ss done -> mono (map dsh done ++ pend) ->
  let r := place ss sts done todo pend in
  Forall (dwf ss) r /\ chain_x ss r /\ mono (map dsh r).
Proof.
  induction todo as [|dk rest IH]; intros done pend Hlen Htodo Hdone Hcx Hmono.
  - destruct pend; [|discriminate]. rewrite app_nil_r in Hmono. cbn [place]. auto.
  - destruct pend as [|sh0 pend']; [discriminate|]. cbn [length] in Hlen. injection Hlen as Hlen.
    inversion Htodo as [|? ? [Hdk1 [Hdk2 Hdk3]] Hrest]; subst.
    cbn [place hd tl].
    set (mid := midpoint dk).
    set (x := match done with
              | [] => match dk with [] => 0 | _ :: _ => mid end
              | d0 :: _ => Qred (dx (last done d0) + ss)
              end).
    set (md := match done, dk with
               | _ :: _, _ :: _ => Qred (x - mid)
               | _, _ => 0
               end).
    set (nd := D x md sh0 dk).
    assert (Hnd : dwf ss nd).
    { unfold dwf. rewrite alld_unfold. unfold nd at 2. cbn [dkids]. split; [|exact Hdk1].
      unfold dlocal, nd. cbn [dkids dx dmod]. split; [|split; assumption].
      intros Hne. unfold md, x, mid, midpoint.
      destruct done as [|d0 done']; destruct dk as [|k0 dk']; try congruence.
      - rewrite Qred_correct. lra.
      - rewrite !Qred_correct. lra. }
    destruct done as [|d0 done'].
    + apply IH; [exact Hlen|exact Hrest|constructor; [exact Hnd|constructor]|exact I|].
      cbn [map app dsh nd]. cbn [map app] in Hmono. exact Hmono.
    + set (idx := length (d0 :: done')).
      set (s := max_shift sts nd idx 0 (d0 :: done') 0).
      assert (Hs : 0 <= s) by apply max_shift_ge.
      apply IH.
      * rewrite bumpq_length. exact Hlen.
      * exact Hrest.
      * apply bump_Forall; [intros; eapply dwf_sh; eassumption|].
        apply Forall_app. split; [exact Hdone|constructor; [exact Hnd|constructor]].
      * apply (chain_x_ext ss ((d0 :: done') ++ [nd])); [symmetry; apply bump_dx|].
        apply (chain_x_snoc ss _ d0); [discriminate|exact Hcx|].
        cbn [nd dx]. unfold x. qn. reflexivity.
      * rewrite bump_dsh.
        replace (S idx) with (0 + length (map dsh ((d0 :: done') ++ [nd])))%nat
          by (rewrite map_length, app_length; cbn [length]; unfold idx; cbn [length]; lia).
        rewrite <- bumpq_app. apply mono_bumpq; [exact Hs|].
        rewrite map_app. cbn [map dsh nd]. rewrite <- app_assoc. cbn [app]. exact Hmono.
Qed.

Lemma mono_zeros {A} (l : list A) : mono (map (fun _ => 0) l).
Proof.
  induction l as [|a l IH]; [exact I|]. destruct l as [|b l]; [exact I|].
  cbn [map mono] in *. split; [lra|exact IH].
Qed.

Lemma fp_inv ss sts t :
  Forall (dwf ss) (fp ss sts t) /\ chain_x ss (fp ss sts t) /\ mono (map dsh (fp ss sts t)).
Proof.
  induction t as [g n a ks IH] using tree_ind'. cbn [fp].
  apply place_inv.
  - rewrite !map_length. reflexivity.
  - apply Forall_map. exact IH.
  - constructor.
  - exact I.
  - cbn [map app]. apply mono_zeros.
Qed.

Lemma first_pass_wf ss sts t : dwf ss (first_pass ss sts t).
Proof.
  unfold first_pass. destruct (fp_inv ss sts t) as [H1 [H2 H3]].
  unfold dwf. rewrite alld_unfold. cbn [dkids]. split; [|exact H1].
  unfold dlocal. cbn [dkids dx dmod]. split; [|split; assumption].
  intros _. unfold midpoint. qn. lra.
Qed.

(* ---------------------------------------------------------------------------------------------
   2./3. parent midpoint, sibling separation: Prop-level statements on coordinate trees *)

Definition Mid (n : ctree) : Prop :=
  match ckids n with
  | [] => True
  | f :: _ => cx n == (cx f + cx (last (ckids n) f)) * (1 # 2)
  end.
Definition Sib (ss : Q) (n : ctree) : Prop := ordP (fun a b => cx a + ss <= cx b) (ckids n).

Lemma Mid_cshift a n : Mid n -> Mid (cshift a n).
Proof.
  unfold Mid. rewrite ckids_cshift. destruct (ckids n) as [|f l] eqn:E; [trivial|].
  cbn [map]. intros H. change (cshift a f :: map (cshift a) l) with (map (cshift a) (f :: l)).
  rewrite last_map. rewrite !cx_cshift. rewrite H. lra.
Qed.

Lemma Sib_cshift ss a n : Sib ss n -> Sib ss (cshift a n).
Proof.
  unfold Sib. rewrite ckids_cshift. intros H. apply ordP_map.
  eapply ordP_impl; [|exact H]. intros x y Hxy. cbn beta in *. rewrite !cx_cshift. lra.
Qed.

Lemma chain_pairs ss : 0 <= ss -> forall l, chain_x ss l -> mono (map dsh l) ->
  ordP (fun a b => dx a + dsh a + ss <= dx b + dsh b) l.
Proof.
  intros Hss. induction l as [|a l IH]; intros Hc Hm; [exact I|].
  cbn [ordP]. destruct l as [|b l]; [split; [constructor|exact I]|].
  cbn [chain_x map mono] in Hc, Hm. destruct Hc as [Hx Hc]. destruct Hm as [Hs Hm].
  specialize (IH Hc Hm). split; [|exact IH].
  cbn [ordP] in IH. destruct IH as [IH1 _]. constructor; [lra|].
  eapply Forall_impl; [|exact IH1]. intros c Hc'. cbn beta in Hc'. lra.
Qed.

Lemma cx_second ls xo yo maxd depth cum d :
  cx (second ls xo yo maxd depth cum d) == dx d + dsh d + cum + xo.
Proof. destruct d. cbn [second cx dx dsh]. apply Qred_correct. Qed.

Lemma ckids_second ls xo yo maxd depth cum d :
  ckids (second ls xo yo maxd depth cum d)
  = map (second ls xo yo maxd (S depth) (Qred (cum + dmod d + dsh d))) (dkids d).
Proof. destruct d. reflexivity. Qed.

Lemma second_local ss ls xo yo maxd : forall d depth cum,
  dwf ss d ->
  Forall (fun n => Mid n /\ (0 <= ss -> Sib ss n)) (cpre (second ls xo yo maxd depth cum d)).
Proof.
  induction d as [x m sh ks IH] using dtree_ind'. intros depth cum Hwf.
  unfold dwf in Hwf. rewrite alld_unfold in Hwf. destruct Hwf as [[Hc [Hcx Hmo]] Hks].
  cbn [dkids dx dmod] in Hc, Hcx, Hmo, Hks.
  apply Forall_cpre. split; [split|].
  - (* centred *)
    unfold Mid. rewrite ckids_second. cbn [dkids dmod dsh].
    destruct ks as [|f l]; [exact I|]. cbn [map].
    set (sec := second ls xo yo maxd (S depth) (Qred (cum + m + sh))).
    change (sec f :: map sec l) with (map sec (f :: l)). rewrite last_map.
    unfold sec. rewrite !cx_second. cbn [dx dsh]. qn.
    assert (E : x - m == midpoint_raw (f :: l)) by (apply Hc; discriminate).
    unfold midpoint_raw in E. lra.
  - (* siblings *)
    intros Hss. unfold Sib. rewrite ckids_second. apply ordP_map.
    eapply ordP_impl; [|apply (chain_pairs ss Hss ks Hcx Hmo)].
    intros a b Hab. cbn beta in *. rewrite !cx_second. lra.
  - rewrite ckids_second. apply Forall_map. cbn [dkids].
    rewrite Forall_forall in IH, Hks. apply Forall_forall. intros k Hk.
    apply (IH k Hk). apply (Hks k Hk).
Qed.

(* ---------------------------------------------------------------------------------------------
   5. no negative x: the adjustment computed from the leaves bounds every node, because every
      inner node lies between its first and last child *)

Lemma fold_Qmax_ge : forall l a, a <= fold_left Qmax l a.
Proof.
  induction l as [|b l IH]; intros a; cbn [fold_left]; [lra|].
  eapply Qle_trans; [|apply IH]. apply Q.le_max_l.
Qed.

Lemma fold_Qmax_in : forall l a b, In b l -> b <= fold_left Qmax l a.
Proof.
  induction l as [|c l IH]; intros a b Hin; [destruct Hin|]. cbn [fold_left].
  destruct Hin as [->|Hin]; [|apply IH, Hin].
  eapply Qle_trans; [|apply fold_Qmax_ge]. apply Q.le_max_r.
Qed.

Lemma adjust_kid x y ks k : In k ks -> adjust k <= adjust (C x y ks).
Proof.
  destruct ks as [|k0 r]; [intros []|]. cbn [adjust]. intros [->|Hin].
  - apply fold_Qmax_ge.
  - apply fold_Qmax_in. apply in_map. exact Hin.
Qed.

Lemma adjust_bound c :
  Forall Mid (cpre c) -> Forall (fun n => - cx n <= adjust c) (cpre c).
Proof.
  induction c as [x y ks IH] using ctree_ind'. intros HM.
  apply Forall_cpre in HM. destruct HM as [HM0 HMk]. cbn [ckids] in HMk.
  assert (Hkids : Forall (fun k => Forall (fun n => - cx n <= adjust (C x y ks)) (cpre k)) ks).
  { rewrite Forall_forall in IH, HMk. apply Forall_forall. intros k Hk.
    eapply Forall_impl; [|apply (IH k Hk), (HMk k Hk)].
    intros n Hn. cbn beta in *. eapply Qle_trans; [exact Hn|]. apply adjust_kid, Hk. }
  apply Forall_cpre. split; [|exact Hkids]. cbn [cx].
  unfold Mid in HM0. cbn [ckids cx] in HM0.
  destruct ks as [|f l].
  - cbn [adjust]. apply Q.le_max_r.
  - rewrite Forall_forall in Hkids.
    assert (Hf : - cx f <= adjust (C x y (f :: l))).
    { specialize (Hkids f (or_introl eq_refl)). rewrite cpre_unfold in Hkids.
      inversion Hkids; assumption. }
    assert (Hl : - cx (last (f :: l) f) <= adjust (C x y (f :: l))).
    { assert (Hin : In (last (f :: l) f) (f :: l)).
      { apply last_In. discriminate. }
      specialize (Hkids _ Hin). rewrite cpre_unfold in Hkids. inversion Hkids; assumption. }
    lra.
Qed.

Lemma third_local ss c :
  Forall (fun n => Mid n /\ (0 <= ss -> Sib ss n)) (cpre c) ->
  Forall (fun n => Mid n /\ (0 <= ss -> Sib ss n)) (cpre (third c)).
Proof.
  intros H. unfold third. destruct (Qeq_bool (adjust c) 0); [exact H|].
  apply Forall_cpre_cshift; [|exact H]. intros n [H1 H2].
  split; [apply Mid_cshift, H1|intros Hss; apply Sib_cshift, H2, Hss].
Qed.

Lemma third_nonneg c : Forall Mid (cpre c) -> Forall (fun n => 0 <= cx n) (cpre (third c)).
Proof.
  intros HM. pose proof (adjust_bound c HM) as HB. unfold third.
  destruct (Qeq_bool (adjust c) 0) eqn:E.
  - apply Qeq_bool_iff in E. eapply Forall_impl; [|exact HB]. intros n Hn. cbn beta in Hn. lra.
  - rewrite cpre_cshift. apply Forall_map. eapply Forall_impl; [|exact HB].
    intros n Hn. cbn beta in Hn. rewrite cx_cshift. lra.
Qed.

(* ---------------------------------------------------------------------------------------------
   shape *)

Lemma bump_dkids s idx : forall l k, map dkids (bump s idx k l) = map dkids l.
Proof. induction l as [|[x m sh ks] l IH]; intros k; [reflexivity|]. cbn [bump map dkids]. rewrite IH. reflexivity. Qed.

Lemma place_dkids ss sts : forall todo done pend,
  map dkids (place ss sts done todo pend) = map dkids done ++ todo.
Proof.
  induction todo as [|dk rest IH]; intros done pend; cbn [place]; [rewrite app_nil_r; reflexivity|].
  destruct done as [|d0 done'].
  - rewrite IH. reflexivity.
  - rewrite IH. rewrite bump_dkids. rewrite map_app. cbn [map dkids]. rewrite <- app_assoc. reflexivity.
Qed.

Lemma fp_dkids ss sts g n a ks : map dkids (fp ss sts (T g n a ks)) = map (fp ss sts) ks.
Proof. cbn [fp]. rewrite place_dkids. reflexivity. Qed.

Lemma same_shape_second ss sts ls xo yo maxd t : forall x m sh depth cum,
  same_shape t (second ls xo yo maxd depth cum (D x m sh (fp ss sts t))) = true.
Proof.
  induction t as [g n a ks IH] using tree_ind'. intros x m sh depth cum.
  pose proof (fp_dkids ss sts g n a ks) as E.
  cbn [second same_shape].
  set (sec := second ls xo yo maxd (S depth) (Qred (cum + m + sh))).
  generalize dependent (fp ss sts (T g n a ks)). intros L E.
  revert L E. induction ks as [|k ks IHk]; intros L E; destruct L as [|d L]; try discriminate; [reflexivity|].
  inversion IH as [|? ? Hk Hks]; subst. cbn [map] in *. injection E as E1 E2.
  apply andb_true_iff. split.
  - destruct d as [x' m' sh' kids']. cbn [dkids] in E1. subst kids'. apply Hk.
  - apply IHk; assumption.
Qed.

Lemma same_shape_cshift a : forall t c, same_shape t (cshift a c) = same_shape t c.
Proof.
  induction t as [g n at_ ks IH] using tree_ind'. intros [x y cs]. cbn [cshift same_shape].
  revert cs. induction ks as [|k ks IHk]; intros [|c cs]; try reflexivity.
  inversion IH as [|? ? Hk Hks]; subst. cbn [map]. rewrite Hk, IHk by exact Hks. reflexivity.
Qed.

Lemma same_shape_rt p t : same_shape t (reingold_tilford p t) = true.
Proof.
  unfold reingold_tilford, rt_gen, third, first_pass.
  match goal with |- context [Qeq_bool ?a 0] => destruct (Qeq_bool a 0) end.
  - apply same_shape_second.
  - rewrite same_shape_cshift. apply same_shape_second.
Qed.

(* ---------------------------------------------------------------------------------------------
   the boolean clauses of Spec/PC19.v on the model's output *)

Definition rt2 (p : params) (t : tree) : ctree :=
  second (p_ls p) (p_xo p) (p_yo p) (height t) 1 0 (first_pass (p_ss p) (p_sts p) t).

Lemma rt_third p t : reingold_tilford p t = third (rt2 p t).
Proof. reflexivity. Qed.

Lemma rt2_local p t :
  Forall (fun n => Mid n /\ (0 <= p_ss p -> Sib (p_ss p) n)) (cpre (rt2 p t)).
Proof. unfold rt2. apply second_local. apply first_pass_wf. Qed.

Lemma rt_local p t :
  Forall (fun n => Mid n /\ (0 <= p_ss p -> Sib (p_ss p) n)) (cpre (reingold_tilford p t)).
Proof. rewrite rt_third. apply third_local, rt2_local. Qed.

Lemma rt_levels eps p t : 0 <= eps -> 0 < p_ls p -> levels_ok eps (p_ls p) (reingold_tilford p t) = true.
Proof.
  intros He Hls. apply levels_ok_of_P; [exact He|exact Hls|].
  unfold reingold_tilford. apply levelsP_third, levelsP_second.
Qed.

Lemma rt_midpoint eps p t : 0 <= eps -> midpoint_ok eps (reingold_tilford p t) = true.
Proof.
  intros He. unfold midpoint_ok. apply forallb_forall. intros n Hn.
  pose proof (rt_local p t) as HL. rewrite Forall_forall in HL. destruct (HL n Hn) as [HM _].
  unfold Mid in HM. destruct (ckids n) as [|f l]; [reflexivity|].
  apply eq_eps_true; [exact He|exact HM].
Qed.

Lemma rt_siblings eps p t : 0 <= eps -> 0 <= p_ss p -> siblings_ok eps (p_ss p) (reingold_tilford p t) = true.
Proof.
  intros He Hss. unfold siblings_ok. apply forallb_forall. intros n Hn.
  pose proof (rt_local p t) as HL. rewrite Forall_forall in HL. destruct (HL n Hn) as [_ HS].
  specialize (HS Hss). unfold Sib in HS.
  eapply ordpairs_true; [|exact HS]. intros a b Hab. cbn beta in Hab. apply leq_eps_true; assumption.
Qed.

Lemma rt_nonneg eps p t : 0 <= eps -> nonneg_ok eps (reingold_tilford p t) = true.
Proof.
  intros He. unfold nonneg_ok. apply forallb_forall. intros n Hn.
  assert (HN : Forall (fun n => 0 <= cx n) (cpre (reingold_tilford p t))).
  { rewrite rt_third. apply third_nonneg. eapply Forall_impl; [|apply rt2_local]. intros a [H _]. exact H. }
  rewrite Forall_forall in HN. apply leq_eps_true; [exact He|apply HN, Hn].
Qed.

Lemma rt_but_cousins eps p t : 0 <= eps -> params_pos p ->
  prop_C19_but_cousins eps p t (reingold_tilford p t) = true.
Proof.
  intros He [Hss [Hsts Hls]]. unfold prop_C19_but_cousins.
  rewrite same_shape_rt, rt_levels, rt_midpoint, rt_siblings, rt_nonneg by (assumption || lra).
  reflexivity.
Qed.

(* =============================================================================================
   4. cousin separation under the guard of Spec/PC19.v *)

(* positions (relative to an offset `off` inherited from the ancestors) of the nodes of d at
   relative depth k, left to right *)
Fixpoint lv (k : nat) (off : Q) (d : dtree) : list Q :=
  match k with
  | O => [dx d + dsh d + off]
  | S k' => flat_map (lv k' (off + dmod d + dsh d)) (dkids d)
  end.
Definition lvs (k : nat) (off : Q) (ks : list dtree) : list Q := flat_map (lv k off) ks.

Definition gap (m : Q) (a b : Q) : Prop := a + m <= b.
Definition sepF (m : Q) (ks : list dtree) : Prop := forall j off, ordP (gap m) (lvs j off ks).

Lemma Forall2_flat_map {A B C} (R : B -> C -> Prop) (f : A -> list B) (g : A -> list C) (l : list A) :
  (forall x, In x l -> Forall2 R (f x) (g x)) -> Forall2 R (flat_map f l) (flat_map g l).
Proof.
  induction l as [|x l IH]; intros H; [constructor|]. cbn [flat_map].
  apply Forall2_app; [apply H; left; reflexivity|]. apply IH. intros y Hy. apply H. right. exact Hy.
Qed.

Lemma Forall2_In_r {A B} (R : A -> B -> Prop) l l' b :
  Forall2 R l l' -> In b l' -> exists a, In a l /\ R a b.
Proof.
  induction 1 as [|x y l l' Hxy HF IH]; intros Hin; [destruct Hin|].
  destruct Hin as [->|Hin]; [exists x; split; [left; reflexivity|exact Hxy]|].
  destruct (IH Hin) as [a [Ha1 Ha2]]. exists a. split; [right; exact Ha1|exact Ha2].
Qed.

Lemma Forall2_In_l {A B} (R : A -> B -> Prop) l l' a :
  Forall2 R l l' -> In a l -> exists b, In b l' /\ R a b.
Proof.
  induction 1 as [|x y l l' Hxy HF IH]; intros Hin; [destruct Hin|].
  destruct Hin as [->|Hin]; [exists y; split; [left; reflexivity|exact Hxy]|].
  destruct (IH Hin) as [b [Hb1 Hb2]]. exists b. split; [right; exact Hb1|exact Hb2].
Qed.

Lemma ordP_Forall2 {A B} (R : A -> A -> Prop) (S : B -> B -> Prop) (T : A -> B -> Prop) l l' :
  (forall a a' b b', T a b -> T a' b' -> R a a' -> S b b') ->
  Forall2 T l l' -> ordP R l -> ordP S l'.
Proof.
  intros HT. induction 1 as [|x y l l' Hxy HF IH]; intros HO; [exact I|].
  cbn [ordP] in *. destruct HO as [H1 H2]. split; [|apply IH, H2].
  apply Forall_forall. intros b Hb. destruct (Forall2_In_r _ _ _ _ HF Hb) as [a [Ha1 Ha2]].
  rewrite Forall_forall in H1. eapply HT; [exact Hxy|exact Ha2|apply H1, Ha1].
Qed.

Lemma ordP_app {A} (R : A -> A -> Prop) l1 l2 :
  ordP R (l1 ++ l2) <-> ordP R l1 /\ ordP R l2 /\ (forall a b, In a l1 -> In b l2 -> R a b).
Proof.
  induction l1 as [|x l1 IH]; cbn [app ordP].
  - split; [intros H; repeat split; [exact H|intros a b []]|intros [_ [H _]]; exact H].
  - rewrite IH, Forall_app. split.
    + intros [[H1 H2] [H3 [H4 H5]]]. repeat split; try assumption.
      intros a b [->|Ha] Hb; [rewrite Forall_forall in H2; apply H2, Hb|apply H5; assumption].
    + intros [[H1 H2] [H3 H4]]. repeat split; try assumption.
      * apply Forall_forall. intros b Hb. apply H4; [left; reflexivity|exact Hb].
      * intros a b Ha Hb. apply H4; [right; exact Ha|exact Hb].
Qed.

(* moving the offset moves every position by the same amount *)
Lemma lv_shift dl : forall k d off off', off' == off + dl ->
  Forall2 (fun a b => b == a + dl) (lv k off d) (lv k off' d).
Proof.
  induction k as [|k IH]; intros d off off' E; cbn [lv].
  - constructor; [|constructor]. rewrite E. lra.
  - apply Forall2_flat_map. intros x _. apply IH. rewrite E. lra.
Qed.

Lemma lvs_shift dl k ks off off' : off' == off + dl ->
  Forall2 (fun a b => b == a + dl) (lvs k off ks) (lvs k off' ks).
Proof. intros E. unfold lvs. apply Forall2_flat_map. intros x _. apply lv_shift, E. Qed.

Lemma lvs_cons k off d ks : lvs k off (d :: ks) = lv k off d ++ lvs k off ks.
Proof. reflexivity. Qed.
Lemma lvs_app k off a b : lvs k off (a ++ b) = lvs k off a ++ lvs k off b.
Proof. unfold lvs. apply flat_map_app. Qed.
Lemma lv_S k off d : lv (S k) off d = lvs k (off + dmod d + dsh d) (dkids d).
Proof. reflexivity. Qed.

(* shapes of decorated trees *)
Fixpoint sk_d (d : dtree) : sk := match d with D _ _ _ ks => Sk (map sk_d ks) end.
Lemma sk_d_unfold d : sk_d d = Sk (map sk_d (dkids d)).
Proof. destruct d; reflexivity. Qed.

Lemma sk_fp ss sts t : map sk_d (fp ss sts t) = skids (sk_of t).
Proof.
  induction t as [g n a ks IH] using tree_ind'.
  pose proof (fp_dkids ss sts g n a ks) as E. cbn [sk_of skids].
  generalize dependent (fp ss sts (T g n a ks)). intros L. revert L.
  induction ks as [|k ks IHk]; intros L E; destruct L as [|d L]; try discriminate; [reflexivity|].
  inversion IH as [|? ? Hk Hks]; subst. cbn [map] in *. injection E as E1 E2.
  rewrite (IHk Hks L E2). f_equal. rewrite sk_d_unfold, E1, Hk. destruct k; reflexivity.
Qed.

Lemma dheight_sk d : dheight d = sheight (sk_d d).
Proof.
  induction d as [x m s ks IH] using dtree_ind'. cbn [dheight sk_d sheight]. f_equal.
  induction ks as [|k ks IHk]; [reflexivity|]. inversion IH as [|? ? Hk Hks]; subst.
  cbn [map fold_right maxh]. rewrite Hk. f_equal. apply IHk, Hks.
Qed.

Lemma maxh_ge h l x : In x l -> (h x <= maxh h l)%nat.
Proof.
  induction l as [|y l IH]; intros []; cbn [maxh fold_right].
  - subst. apply Nat.le_max_l.
  - etransitivity; [apply IH; assumption|]. apply Nat.le_max_r.
Qed.

Lemma maxh_witness h l j : (j < maxh h l)%nat -> exists x, In x l /\ (j < h x)%nat.
Proof.
  induction l as [|y l IH]; cbn [maxh fold_right]; intros H; [lia|].
  destruct (Nat.max_spec (h y) (fold_right (fun k a => Nat.max (h k) a) 0%nat l)) as [[_ E]|[_ E]];
    rewrite E in H.
  - destruct (IH H) as [x [Hx1 Hx2]]. exists x. split; [right; exact Hx1|exact Hx2].
  - exists y. split; [left; reflexivity|exact H].
Qed.

Lemma sheight_unfold s : sheight s = S (maxh sheight (skids s)).
Proof. destruct s; reflexivity. Qed.

(* a level of d is inhabited exactly below the height *)
Lemma lv_height : forall j d off a, In a (lv j off d) -> (j < sheight (sk_d d))%nat.
Proof.
  induction j as [|j IH]; intros d off a Hin.
  - rewrite sheight_unfold. lia.
  - rewrite lv_S in Hin. unfold lvs in Hin. apply in_flat_map in Hin. destruct Hin as [k [Hk Ha]].
    apply IH in Ha. rewrite sk_d_unfold. cbn [sheight].
    assert (sheight (sk_d k) <= maxh sheight (map sk_d (dkids d)))%nat by (apply maxh_ge, in_map, Hk).
    lia.
Qed.

Lemma lv_nonempty : forall j d off, (j < sheight (sk_d d))%nat -> exists a, In a (lv j off d).
Proof.
  induction j as [|j IH]; intros d off H.
  - eexists. left. reflexivity.
  - rewrite sk_d_unfold in H. cbn [sheight] in H.
    destruct (maxh_witness sheight (map sk_d (dkids d)) j) as [x [Hx1 Hx2]]; [lia|].
    apply in_map_iff in Hx1. destruct Hx1 as [k [<- Hk]].
    destruct (IH k (off + dmod d + dsh d) Hx2) as [a Ha]. exists a.
    rewrite lv_S. unfold lvs. apply in_flat_map. exists k. split; assumption.
Qed.

Lemma lvs_leaves j off ks : Forall (fun d => dkids d = []) ks -> lvs (S j) off ks = [].
Proof.
  induction 1 as [|d ks Hd _ IH]; [reflexivity|]. rewrite lvs_cons, IH, lv_S, Hd. reflexivity.
Qed.

(* the sibling walk: pick X dflt is the first element of X with children (everything before it
   is a leaf), or, if there is none, some leaf *)
Definition dleaf (d : dtree) : Prop := dkids d = [].

Lemma sleaf_sk_d d : sleaf (sk_d d) = match dkids d with [] => true | _ => false end.
Proof. destruct d as [x m s [|k ks]]; reflexivity. Qed.

Lemma chain_cons h k l :
  chain h (k :: l) = if sleaf k then Nat.max (chain h l) 1 else h k.
Proof. reflexivity. Qed.

Lemma pick_spec (h : sk -> nat) : (forall s, 1 <= h s)%nat -> forall X dflt, X <> [] ->
  let p := pick X dflt in
  (dleaf p /\ Forall dleaf X /\ chain h (map sk_d X) = 1%nat)
  \/ (~ dleaf p /\ exists pre post, X = pre ++ p :: post /\ Forall dleaf pre
                                   /\ chain h (map sk_d X) = h (sk_d p)).
Proof.
  intros Hh. induction X as [|d X IH]; intros dflt Hne; [congruence|]. cbn [pick].
  destruct (dkids d) as [|k0 kr] eqn:Ek.
  - destruct X as [|e X'].
    + left. repeat split; [exact Ek|constructor; [exact Ek|constructor]|].
      cbn [map]. rewrite chain_cons, sleaf_sk_d, Ek. reflexivity.
    + destruct (IH d ltac:(discriminate)) as [[H1 [H2 H3]]|[H1 [pre [post [H2 [H3 H4]]]]]].
      * left. repeat split; [exact H1|constructor; [exact Ek|exact H2]|].
        change (map sk_d (d :: e :: X')) with (sk_d d :: map sk_d (e :: X')).
        rewrite chain_cons, sleaf_sk_d, Ek, H3. reflexivity.
      * right. split; [exact H1|]. exists (d :: pre), post. repeat split.
        -- cbn [app]. f_equal. exact H2.
        -- constructor; [exact Ek|exact H3].
        -- change (map sk_d (d :: e :: X')) with (sk_d d :: map sk_d (e :: X')).
           rewrite chain_cons, sleaf_sk_d, Ek, H4.
           pose proof (Hh (sk_d (pick (e :: X') d))). lia.
  - right. split; [unfold dleaf; rewrite Ek; discriminate|]. exists [], X. repeat split; [constructor|].
    cbn [map]. rewrite chain_cons, sleaf_sk_d, Ek. reflexivity.
Qed.

Section SkInd.
  Variable P : sk -> Prop.
  Hypothesis H : forall l, Forall P l -> P (Sk l).
  Fixpoint sk_ind' (s : sk) : P s :=
    match s with
    | Sk l => H l ((fix go (l : list sk) : Forall P l :=
                      match l with
                      | [] => Forall_nil P
                      | k :: r => Forall_cons k (sk_ind' k) (go r)
                      end) l)
    end.
End SkInd.

Lemma sheight_ge1 s : (1 <= sheight s)%nat.
Proof. destruct s; cbn [sheight]; lia. Qed.
Lemma hL_ge1 s : (1 <= hL s)%nat.
Proof. destruct s; cbn [hL]; lia. Qed.
Lemma hR_ge1 s : (1 <= hR s)%nat.
Proof. destruct s; cbn [hR]; lia. Qed.

Lemma hR_chain l : hR (Sk l) = S (chain hR (rev l)).
Proof.
  cbn [hR]. f_equal. unfold chain.
  rewrite (fold_left_rev_right (fun k acc => if sleaf k then Nat.max acc 1 else hR k)). reflexivity.
Qed.

Lemma chain_le h X B :
  (forall x, In x X -> h x <= B)%nat -> (X <> [] -> 1 <= B)%nat -> (chain h X <= B)%nat.
Proof.
  induction X as [|k X IH]; intros H1 H2; [cbn; lia|]. rewrite chain_cons.
  destruct (sleaf k).
  - assert (chain h X <= B)%nat.
    { apply IH; [intros x Hx; apply H1; right; exact Hx|intros _; apply H2; discriminate]. }
    assert (1 <= B)%nat by (apply H2; discriminate). lia.
  - apply H1. left. reflexivity.
Qed.

Lemma hL_le s : (hL s <= sheight s)%nat.
Proof.
  induction s as [l IH] using sk_ind'. cbn [hL sheight]. apply le_n_S. apply chain_le.
  - intros x Hx. rewrite Forall_forall in IH. etransitivity; [apply IH, Hx|]. apply maxh_ge, Hx.
  - intros Hne. destruct l as [|k l]; [congruence|].
    etransitivity; [apply (sheight_ge1 k)|]. apply maxh_ge. left. reflexivity.
Qed.

Lemma hR_le s : (hR s <= sheight s)%nat.
Proof.
  induction s as [l IH] using sk_ind'. rewrite hR_chain. cbn [sheight]. apply le_n_S. apply chain_le.
  - intros x Hx. apply in_rev in Hx. rewrite Forall_forall in IH.
    etransitivity; [apply IH, Hx|]. apply maxh_ge, Hx.
  - intros Hne. destruct l as [|k l]; [cbn in Hne; congruence|].
    etransitivity; [apply (sheight_ge1 k)|]. apply maxh_ge. left. reflexivity.
Qed.

(* a sub-forest inherits separation (at the children's own offset) *)
Lemma sepF_kids m pre p post : sepF m (pre ++ p :: post) -> sepF m (dkids p).
Proof.
  intros H j off. specialize (H (S j) (off - dmod p - dsh p)).
  rewrite lvs_app, lvs_cons in H. apply ordP_app in H. destruct H as [_ [H _]].
  apply ordP_app in H. destruct H as [H _]. rewrite lv_S in H.
  eapply (ordP_Forall2 (gap m) (gap m) (fun a b => b == a + 0)); [| |exact H].
  - unfold gap. intros a a' b b' E1 E2 Hg. rewrite E1, E2. lra.
  - apply lvs_shift. lra.
Qed.

Lemma complete_kid (h : sk -> nat) p All :
  (forall s, h s <= sheight s)%nat -> In p All ->
  h (sk_d p) = maxh sheight (map sk_d All) ->
  h (sk_d p) = sheight (sk_d p) /\ (sheight (sk_d p) = maxh sheight (map sk_d All)).
Proof.
  intros Hle Hin E. pose proof (Hle (sk_d p)).
  assert (sheight (sk_d p) <= maxh sheight (map sk_d All))%nat by (apply maxh_ge, in_map, Hin). lia.
Qed.

Lemma left_side m Lk lcs l0 X' : 0 <= m -> rev Lk = l0 :: X' -> sepF m Lk ->
  chain hR (map sk_d (rev Lk)) = maxh sheight (map sk_d Lk) ->
  let p := pick (rev Lk) l0 in
  (forall a, In a (lvs 0 lcs Lk) -> a <= dx l0 + dsh l0 + lcs) /\
  ((dleaf p /\ forall j, lvs (S j) lcs Lk = []) \/
   (~ dleaf p /\ sepF m (dkids p)
    /\ chain hR (map sk_d (rev (dkids p))) = maxh sheight (map sk_d (dkids p))
    /\ (S (maxh sheight (map sk_d (dkids p))) <= maxh sheight (map sk_d Lk))%nat
    /\ forall j a, In a (lvs (S j) lcs Lk) ->
                   exists a', In a' (lvs j (lcs + dmod p + dsh p) (dkids p)) /\ a <= a')).
Proof.
  intros Hm Erev Hsep Hcomp p. split.
  - assert (EL : Lk = rev X' ++ [l0]).
    { rewrite <- (rev_involutive Lk), Erev. reflexivity. }
    intros a Ha. pose proof (Hsep 0%nat lcs) as H0. rewrite EL, lvs_app in H0, Ha.
    apply ordP_app in H0. destruct H0 as [_ [_ H0]].
    apply in_app_or in Ha. destruct Ha as [Ha|Ha].
    + specialize (H0 a (dx l0 + dsh l0 + lcs) Ha). unfold gap in H0.
      assert (a + m <= dx l0 + dsh l0 + lcs) by (apply H0; left; reflexivity). lra.
    + cbn in Ha. destruct Ha as [<-|[]]. lra.
  - assert (Hne : rev Lk <> []) by (rewrite Erev; discriminate).
    destruct (pick_spec hR hR_ge1 (rev Lk) l0 Hne) as [[H1 [H2 _]]|[H1 [pre [post [H2 [H3 H4]]]]]];
      fold p in H1, H2.
    + left. split; [exact H1|]. intros j. apply lvs_leaves.
      apply Forall_forall. intros d Hd. rewrite Forall_forall in H2. apply H2. apply in_rev in Hd. exact Hd.
    + right. fold p in H4.
      assert (EL : Lk = rev post ++ p :: rev pre).
      { rewrite <- (rev_involutive Lk), H2, rev_app_distr. cbn [rev]. rewrite <- app_assoc. reflexivity. }
      assert (Hpin : In p Lk) by (rewrite EL; apply in_or_app; right; left; reflexivity).
      rewrite H4 in Hcomp. destruct (complete_kid hR p Lk hR_le Hpin Hcomp) as [Hc1 Hc2].
      split; [exact H1|]. split; [rewrite EL in Hsep; eapply sepF_kids; exact Hsep|].
      split; [|split].
      * rewrite (sk_d_unfold p), hR_chain in Hc1. cbn [sheight] in Hc1. rewrite <- map_rev in Hc1. lia.
      * rewrite <- Hc2. rewrite (sk_d_unfold p). cbn [sheight]. lia.
      * intros j a Ha. pose proof (Hsep (S j) lcs) as HS. rewrite EL in HS, Ha.
        rewrite lvs_app, lvs_cons in HS, Ha.
        assert (Epost : lvs (S j) lcs (rev pre) = []).
        { apply lvs_leaves. apply Forall_forall. intros d Hd. rewrite Forall_forall in H3.
          apply H3. apply in_rev. exact Hd. }
        rewrite Epost, app_nil_r in HS, Ha. apply ordP_app in HS. destruct HS as [_ [_ HS]].
        apply in_app_or in Ha. destruct Ha as [Ha|Ha].
        -- (* a under an earlier sibling: p is as tall, so it has a node on this level *)
           assert (Hlt : (S j < sheight (sk_d p))%nat).
           { unfold lvs in Ha. apply in_flat_map in Ha. destruct Ha as [d [Hd Ha]].
             apply lv_height in Ha. rewrite Hc2.
             assert (sheight (sk_d d) <= maxh sheight (map sk_d Lk))%nat; [|lia].
             apply maxh_ge, in_map. rewrite EL. apply in_or_app. left. exact Hd. }
           destruct (lv_nonempty (S j) p lcs Hlt) as [a' Ha'].
           exists a'. split; [rewrite lv_S in Ha'; exact Ha'|].
           specialize (HS a a' Ha Ha'). unfold gap in HS. lra.
        -- exists a. split; [rewrite lv_S in Ha; exact Ha|lra].
Qed.

Lemma right_side m Rk rcs r0 X' : 0 <= m -> Rk = r0 :: X' -> sepF m Rk ->
  chain hL (map sk_d Rk) = maxh sheight (map sk_d Rk) ->
  let p := pick Rk r0 in
  (forall b, In b (lvs 0 rcs Rk) -> dx r0 + dsh r0 + rcs <= b) /\
  ((dleaf p /\ forall j, lvs (S j) rcs Rk = []) \/
   (~ dleaf p /\ sepF m (dkids p)
    /\ chain hL (map sk_d (dkids p)) = maxh sheight (map sk_d (dkids p))
    /\ forall j b, In b (lvs (S j) rcs Rk) ->
                   exists b', In b' (lvs j (rcs + dmod p + dsh p) (dkids p)) /\ b' <= b)).
Proof.
  intros Hm ER Hsep Hcomp p. split.
  - intros b Hb. pose proof (Hsep 0%nat rcs) as H0. rewrite ER, lvs_cons in H0, Hb.
    apply ordP_app in H0. destruct H0 as [_ [_ H0]].
    apply in_app_or in Hb. destruct Hb as [Hb|Hb].
    + cbn in Hb. destruct Hb as [<-|[]]. lra.
    + specialize (H0 (dx r0 + dsh r0 + rcs) b). unfold gap in H0.
      assert (dx r0 + dsh r0 + rcs + m <= b) by (apply H0; [left; reflexivity|exact Hb]). lra.
  - assert (Hne : Rk <> []) by (rewrite ER; discriminate).
    destruct (pick_spec hL hL_ge1 Rk r0 Hne) as [[H1 [H2 _]]|[H1 [pre [post [H2 [H3 H4]]]]]];
      fold p in H1, H2.
    + left. split; [exact H1|]. intros j. apply lvs_leaves. exact H2.
    + right. fold p in H4.
      assert (Hpin : In p Rk) by (rewrite H2; apply in_or_app; right; left; reflexivity).
      rewrite H4 in Hcomp. destruct (complete_kid hL p Rk hL_le Hpin Hcomp) as [Hc1 Hc2].
      split; [exact H1|]. split; [rewrite H2 in Hsep; eapply sepF_kids; exact Hsep|].
      split.
      * rewrite (sk_d_unfold p) in Hc1. cbn [hL sheight] in Hc1. lia.
      * intros j b Hb. pose proof (Hsep (S j) rcs) as HS. rewrite H2 in HS, Hb.
        rewrite lvs_app, lvs_cons in HS, Hb.
        rewrite (lvs_leaves j rcs pre H3) in HS, Hb. cbn [app] in HS, Hb.
        apply ordP_app in HS. destruct HS as [_ [_ HS]].
        apply in_app_or in Hb. destruct Hb as [Hb|Hb].
        -- exists b. split; [rewrite lv_S in Hb; exact Hb|lra].
        -- assert (Hlt : (S j < sheight (sk_d p))%nat).
           { unfold lvs in Hb. apply in_flat_map in Hb. destruct Hb as [d [Hd Hb]].
             apply lv_height in Hb. rewrite Hc2.
             assert (sheight (sk_d d) <= maxh sheight (map sk_d Rk))%nat; [|lia].
             apply maxh_ge, in_map. rewrite H2. apply in_or_app. right. right. exact Hd. }
           destruct (lv_nonempty (S j) p rcs Hlt) as [b' Hb'].
           exists b'. split; [rewrite lv_S in Hb'; exact Hb'|].
           specialize (HS b' b Hb' Hb). unfold gap in HS. lra.
Qed.

Lemma list_case {A B} (l : list A) (x y : B) :
  l <> [] -> match l with [] => x | _ :: _ => y end = y.
Proof. destruct l; congruence. Qed.

(* the contour comparison with left_idx = 0 (ratio 1): the returned shift separates the two
   forests on every level *)
Lemma contour_spec m sts rt : rt == 1 -> 0 <= m ->
  forall fuel Lk Rk lcs rcs cum,
    Lk <> [] -> Rk <> [] -> (maxh sheight (map sk_d Lk) <= fuel)%nat ->
    sepF m Lk -> sepF m Rk ->
    chain hR (map sk_d (rev Lk)) = maxh sheight (map sk_d Lk) ->
    chain hL (map sk_d Rk) = maxh sheight (map sk_d Rk) ->
    let c := contour fuel rt sts (rev Lk) Rk lcs rcs cum in
    cum <= c /\ forall j a b, In a (lvs j lcs Lk) -> In b (lvs j rcs Rk) -> a + sts <= b + c.
Proof.
  intros Hrt Hm. induction fuel as [|f IH]; intros Lk Rk lcs rcs cum HLne HRne Hfuel HsL HsR HcL HcR.
  - exfalso. destruct Lk as [|d Lk]; [congruence|]. cbn [map maxh fold_right] in Hfuel.
    pose proof (sheight_ge1 (sk_d d)). lia.
  - destruct (rev Lk) as [|l0 XL] eqn:EL.
    { exfalso. apply HLne. rewrite <- (rev_involutive Lk), EL. reflexivity. }
    destruct Rk as [|r0 XR] eqn:ER; [congruence|]. rewrite <- ER in *.
    pose proof (left_side m Lk lcs l0 XL Hm EL HsL) as SL. rewrite EL in SL.
    specialize (SL HcL). cbv zeta in SL. destruct SL as [SL0 SL].
    pose proof (right_side m Rk rcs r0 XR Hm ER HsR HcR) as SR. cbv zeta in SR. destruct SR as [SR0 SR].
    rewrite ER. cbn [contour]. rewrite <- ER.
    set (xl := dx l0 + dsh l0 + lcs) in *.
    set (xr := dx r0 + dsh r0 + rcs + cum).
    set (new := Qmax ((xl + sts - xr) / rt) 0).
    assert (Hn0 : 0 <= new) by apply Q.le_max_r.
    assert (Hn1 : xl + sts - xr <= new).
    { eapply Qle_trans; [|apply Q.le_max_l]. rewrite Hrt. unfold Qdiv. change (/ 1) with 1. lra. }
    set (cum' := Qred (cum + new)).
    assert (Hc' : cum' == cum + new) by apply Qred_correct.
    assert (Lev0 : forall c, cum' <= c -> forall a b,
               In a (lvs 0 lcs Lk) -> In b (lvs 0 rcs Rk) -> a + sts <= b + c).
    { intros c Hc a b Ha Hb. specialize (SL0 a Ha). specialize (SR0 b Hb). unfold xr in Hn1. lra. }
    set (pl := pick (l0 :: XL) l0) in *. set (pr := pick Rk r0) in *.
    assert (Stop : (dleaf pl \/ dleaf pr) ->
                   forall j a b, In a (lvs j lcs Lk) -> In b (lvs j rcs Rk) -> a + sts <= b + cum').
    { intros Hstop [|j] a b Ha Hb; [apply (Lev0 cum'); [lra|exact Ha|exact Hb]|].
      exfalso. destruct Hstop as [Hl|Hr].
      - destruct SL as [[_ SL]|[SL _]]; [rewrite SL in Ha; destruct Ha|contradiction].
      - destruct SR as [[_ SR]|[SR _]]; [rewrite SR in Hb; destruct Hb|contradiction]. }
    cbv zeta. fold xl xr new cum' pl pr.
    destruct SL as [[SLa _]|[SLa [SL1 [SL2 [SL3 SL4]]]]].
    { assert (E : dkids pl = []) by exact SLa. rewrite E. split; [lra|]. apply Stop. left. exact SLa. }
    destruct SR as [[SRa _]|[SRa [SR1 [SR2 SR4]]]].
    { assert (E : dkids pr = []) by exact SRa. rewrite E. rewrite (list_case (dkids pl)) by exact SLa.
      split; [lra|]. apply Stop. right. exact SRa. }
    rewrite (list_case (dkids pl)) by exact SLa. rewrite (list_case (dkids pr)) by exact SRa.
    assert (HneL : dkids pl <> []) by exact SLa.
    assert (HneR : dkids pr <> []) by exact SRa.
    assert (Hf : (maxh sheight (map sk_d (dkids pl)) <= f)%nat) by lia.
    destruct (IH (dkids pl) (dkids pr) (Qred (lcs + dmod pl + dsh pl)) (Qred (rcs + dmod pr + dsh pr)) cum'
                 HneL HneR Hf SL1 SR1 SL2 SR2) as [IH1 IH2].
    split; [lra|]. intros [|j] a b Ha Hb.
    + apply (Lev0 _ IH1 a b Ha Hb).
    + destruct (SL4 j a Ha) as [a' [Ha' Hle]]. destruct (SR4 j b Hb) as [b' [Hb' Hge]].
      assert (EoL : Qred (lcs + dmod pl + dsh pl) == lcs + dmod pl + dsh pl + 0) by (rewrite Qred_correct; lra).
      assert (EoR : Qred (rcs + dmod pr + dsh pr) == rcs + dmod pr + dsh pr + 0) by (rewrite Qred_correct; lra).
      destruct (Forall2_In_l _ _ _ _ (lvs_shift 0 j (dkids pl) _ _ EoL) Ha') as [a2 [Ha2 Ea2]].
      destruct (Forall2_In_l _ _ _ _ (lvs_shift 0 j (dkids pr) _ _ EoR) Hb') as [b2 [Hb2 Eb2]].
      specialize (IH2 j a2 b2 Ha2 Hb2). lra.
Qed.

(* the loop `place` for a parent with exactly two children *)
Lemma place2 ss sts K0 K1 : exists x0 x1 md sh0 sh1 s,
  place ss sts [] [K0; K1] [0; 0] = [D x0 0 sh0 K0; D x1 md sh1 K1]
  /\ sh0 == 0 /\ sh1 == s /\ x1 == x0 + ss /\ 0 <= s
  /\ (K0 <> [] -> K1 <> [] ->
      contour (dheight (D x0 0 0 K0)) (ratio 0 1) sts (rev K0) K1 (Qred (0 + 0)) (Qred (md + 0)) 0 <= s).
Proof.
  set (x0 := match K0 with [] => 0 | _ :: _ => midpoint K0 end).
  set (x1 := Qred (x0 + ss)).
  set (md := match K1 with _ :: _ => Qred (x1 - midpoint K1) | [] => 0 end).
  set (s := Qmax 0 (subtree_shift sts (D x0 0 0 K0) (D x1 md 0 K1) 0 1)).
  exists x0, x1, md, (Qred (0 + s * (0 # 1))), (Qred (0 + s * (1 # 1))), s.
  split; [reflexivity|]. split; [rewrite Qred_correct; lra|]. split; [rewrite Qred_correct; lra|].
  split; [unfold x1; apply Qred_correct|]. split; [apply Q.le_max_l|].
  intros H0 H1. unfold s, subtree_shift. cbn [dkids dmod dsh].
  destruct K0 as [|a K0']; [congruence|]. destruct K1 as [|b K1']; [congruence|].
  apply Q.le_max_r.
Qed.

Lemma sep_node m d : sepF m (dkids d) -> forall j off, ordP (gap m) (lv j off d).
Proof.
  intros H [|j] off; [cbn; split; [constructor|exact I]|]. rewrite lv_S. apply H.
Qed.

Lemma guard_unfold l :
  cguard_sk (Sk l) = forallb cguard_sk l
                     && (Nat.leb (nonleaves l) 1
                         || match l with
                            | [a; b] => Nat.eqb (hR a) (sheight a) && Nat.eqb (hL b) (sheight b)
                            | _ => false
                            end).
Proof. reflexivity. Qed.

(* a parent at most one of whose children has children: nothing is compared below it *)
Lemma lvs0 off l : lvs 0 off l = map (fun d => dx d + dsh d + off) l.
Proof. induction l as [|d l IH]; [reflexivity|]. rewrite lvs_cons, IH. reflexivity. Qed.

Lemma nonleaves_0 l : nonleaves (map sk_d l) = 0%nat -> Forall dleaf l.
Proof.
  unfold nonleaves. induction l as [|d l IH]; intros H; [constructor|]. cbn [map filter] in H.
  rewrite sleaf_sk_d in H. unfold dleaf. destruct (dkids d) eqn:E; cbn [negb length] in H; [|discriminate].
  constructor; [exact E|apply IH, H].
Qed.

Lemma deep_one m : forall l, (nonleaves (map sk_d l) <= 1)%nat ->
  Forall (fun d => sepF m (dkids d)) l -> forall j off, ordP (gap m) (lvs (S j) off l).
Proof.
  induction l as [|d l IH]; intros Hc HF j off; [exact I|].
  inversion HF as [|? ? Hd Hl]; subst. rewrite lvs_cons, lv_S.
  unfold nonleaves in Hc. cbn [map filter] in Hc. rewrite sleaf_sk_d in Hc.
  destruct (dkids d) as [|k ks] eqn:E; cbn [negb] in Hc.
  - cbn [lvs flat_map app]. apply IH; assumption.
  - cbn [length] in Hc. rewrite (lvs_leaves j off l); [|apply nonleaves_0; unfold nonleaves; lia].
    rewrite app_nil_r. apply Hd.
Qed.

Lemma sep_one_nonleaf m ss l : 0 <= m -> m <= ss ->
  chain_x ss l -> mono (map dsh l) -> (nonleaves (map sk_d l) <= 1)%nat ->
  Forall (fun d => sepF m (dkids d)) l -> sepF m l.
Proof.
  intros Hm Hss Hcx Hmo Hc HF [|j] off; [|apply deep_one; assumption].
  rewrite lvs0. apply ordP_map. eapply ordP_impl; [|apply (chain_pairs ss ltac:(lra) l Hcx Hmo)].
  intros a b Hab. unfold gap. cbn beta in Hab. lra.
Qed.

Lemma sk_of_fp ss sts t : sk_of t = Sk (map sk_d (fp ss sts t)).
Proof. rewrite sk_fp. destruct t; reflexivity. Qed.

Lemma sep_case_b ss sts m g n a k0 k1 : 0 <= m -> m <= ss -> m <= sts ->
  sepF m (fp ss sts k0) -> sepF m (fp ss sts k1) ->
  hR (sk_of k0) = sheight (sk_of k0) -> hL (sk_of k1) = sheight (sk_of k1) ->
  sepF m (fp ss sts (T g n a [k0; k1])).
Proof.
  intros Hm Hss Hsts S0 S1 HR HL.
    rewrite (sk_of_fp ss sts k0), hR_chain in HR. rewrite (sk_of_fp ss sts k1) in HL.
    cbn [sheight hL] in HR, HL. rewrite <- map_rev in HR.
    injection HR as HR. injection HL as HL.
    cbn [fp map].
    destruct (place2 ss sts (fp ss sts k0) (fp ss sts k1))
      as [x0 [x1 [md [sh0 [sh1 [s [EP [E0 [E1 [Ex [Hs Hc]]]]]]]]]]].
    rewrite EP. set (K0 := fp ss sts k0) in *. set (K1 := fp ss sts k1) in *.
    intros j off. rewrite lvs_cons. unfold lvs at 1. cbn [flat_map]. rewrite app_nil_r.
    apply ordP_app. split; [apply sep_node; exact S0|]. split; [apply sep_node; exact S1|].
    intros qa qb Ha Hb. unfold gap. destruct j as [|j].
    + cbn [lv dx dsh] in Ha, Hb. destruct Ha as [<-|[]]. destruct Hb as [<-|[]]. lra.
    + rewrite lv_S in Ha, Hb. cbn [dmod dsh dkids] in Ha, Hb.
      destruct K0 as [|e0 K0'] eqn:EK0; [destruct Ha|]. destruct K1 as [|e1 K1'] eqn:EK1; [destruct Hb|].
      rewrite <- EK0, <- EK1 in *.
      assert (N0 : K0 <> []) by (rewrite EK0; discriminate).
      assert (N1 : K1 <> []) by (rewrite EK1; discriminate).
      specialize (Hc N0 N1).
      assert (Hrt : ratio 0 1 == 1) by reflexivity.
      assert (Hfuel : (maxh sheight (map sk_d K0) <= dheight (D x0 0 0 K0))%nat).
      { rewrite dheight_sk. cbn [sk_d sheight]. lia. }
      destruct (contour_spec m sts (ratio 0 1) Hrt Hm (dheight (D x0 0 0 K0)) K0 K1
                             (Qred (0 + 0)) (Qred (md + 0)) 0 N0 N1 Hfuel S0 S1 HR HL) as [_ CS].
      set (c := contour (dheight (D x0 0 0 K0)) (ratio 0 1) sts (rev K0) K1 (Qred (0 + 0)) (Qred (md + 0)) 0) in *.
      assert (EA : off + 0 + sh0 == Qred (0 + 0) + off) by (rewrite Qred_correct; lra).
      assert (EB : off + md + sh1 == Qred (md + 0) + (off + s)) by (rewrite Qred_correct; lra).
      destruct (Forall2_In_r _ _ _ _ (lvs_shift off j K0 _ _ EA) Ha) as [a1 [Ha1 Ea]].
      destruct (Forall2_In_r _ _ _ _ (lvs_shift (off + s) j K1 _ _ EB) Hb) as [b1 [Hb1 Eb]].
      specialize (CS j a1 b1 Ha1 Hb1). lra.
Qed.

Lemma sep_case_a ss sts m g n a ks : 0 <= m -> m <= ss ->
  Forall (fun k => sepF m (fp ss sts k)) ks -> (nonleaves (map sk_of ks) <= 1)%nat ->
  sepF m (fp ss sts (T g n a ks)).
Proof.
  intros Hm Hss Skids HG.
  destruct (fp_inv ss sts (T g n a ks)) as [_ [Hcx Hmo]].
  apply (sep_one_nonleaf m ss); try assumption.
  - rewrite sk_fp. cbn [sk_of skids]. exact HG.
  - assert (E : Forall (sepF m) (map dkids (fp ss sts (T g n a ks)))).
    { rewrite fp_dkids. apply Forall_map. exact Skids. }
    rewrite Forall_map in E. exact E.
Qed.

Lemma fp_sep ss sts m : 0 <= m -> m <= ss -> m <= sts ->
  forall t, cguard_sk (sk_of t) = true -> sepF m (fp ss sts t).
Proof.
  intros Hm Hss Hsts. induction t as [g n a ks IH] using tree_ind'. intros HG.
  cbn [sk_of] in HG. rewrite guard_unfold in HG. apply andb_true_iff in HG. destruct HG as [HGk HG].
  rewrite forallb_forall in HGk.
  assert (Skids : Forall (fun k => sepF m (fp ss sts k)) ks).
  { rewrite Forall_forall in IH. apply Forall_forall. intros k Hk. apply (IH k Hk).
    apply HGk. apply in_map. exact Hk. }
  apply orb_true_iff in HG. destruct HG as [HG|HG].
  { apply Nat.leb_le in HG. apply sep_case_a; assumption. }
  destruct ks as [|k0 [|k1 [|k2 ks]]]; cbn [map] in HG; try discriminate HG.
  inversion Skids as [|? ? S0 Sr]; subst. inversion Sr as [|? ? S1 _]; subst.
  apply andb_true_iff in HG. destruct HG as [HR HL].
  apply Nat.eqb_eq in HR. apply Nat.eqb_eq in HL. apply sep_case_b; assumption.
Qed.

(* from relative positions to the final coordinates *)
Lemma flat_map_map {A B C} (f : B -> list C) (g : A -> B) (l : list A) :
  flat_map f (map g l) = flat_map (fun x => f (g x)) l.
Proof. induction l as [|x l IH]; [reflexivity|]. cbn [map flat_map]. rewrite IH. reflexivity. Qed.

Lemma second_lv ls xo yo maxd : forall k d depth cum cum', cum' == cum ->
  Forall2 (fun n q => cx n == q + xo) (clevel k (second ls xo yo maxd depth cum' d)) (lv k cum d).
Proof.
  induction k as [|k IH]; intros d depth cum cum' E.
  - cbn [clevel lv]. constructor; [|constructor]. rewrite cx_second, E. lra.
  - cbn [clevel]. rewrite ckids_second, flat_map_map, lv_S. unfold lvs.
    apply Forall2_flat_map. intros x _. apply IH. rewrite Qred_correct, E. reflexivity.
Qed.

Lemma ordP_Forall2_l {A B} (R : A -> A -> Prop) (S : B -> B -> Prop) (T : A -> B -> Prop) l l' :
  (forall a a' b b', T a b -> T a' b' -> S b b' -> R a a') ->
  Forall2 T l l' -> ordP S l' -> ordP R l.
Proof.
  intros HT. induction 1 as [|x y l l' Hxy HF IH]; intros HO; [exact I|].
  cbn [ordP] in *. destruct HO as [H1 H2]. split; [|apply IH, H2].
  apply Forall_forall. intros a Ha. destruct (Forall2_In_l _ _ _ _ HF Ha) as [b [Hb1 Hb2]].
  rewrite Forall_forall in H1. eapply HT; [exact Hxy|exact Hb2|apply H1, Hb1].
Qed.

Definition cousinsP (m : Q) (c : ctree) : Prop :=
  forall k, ordP (fun a b => cx a + m <= cx b) (clevel k c).

Lemma cousinsP_cshift m a c : cousinsP m c -> cousinsP m (cshift a c).
Proof.
  intros H k. rewrite clevel_cshift. apply ordP_map. eapply ordP_impl; [|apply H].
  intros x y Hxy. cbn beta in *. rewrite !cx_cshift. lra.
Qed.

Lemma cousinsP_third m c : cousinsP m c -> cousinsP m (third c).
Proof. intros H. unfold third. destruct (Qeq_bool (adjust c) 0); [exact H|]. apply cousinsP_cshift, H. Qed.

Lemma rt_cousinsP_sep p t :
  sepF (Qmin (p_ss p) (p_sts p)) (fp (p_ss p) (p_sts p) t) ->
  cousinsP (Qmin (p_ss p) (p_sts p)) (reingold_tilford p t).
Proof.
  intros HS. set (m := Qmin (p_ss p) (p_sts p)) in *.
  rewrite rt_third. apply cousinsP_third. intros k. unfold rt2.
  eapply (ordP_Forall2_l _ (gap m)); [|apply (second_lv _ _ _ _ k _ _ 0 0); reflexivity|].
  - intros a a' b b' E1 E2 Hg. unfold gap in Hg. rewrite E1, E2. lra.
  - apply sep_node. unfold first_pass. cbn [dkids]. exact HS.
Qed.

Lemma min_facts p : params_pos p ->
  0 <= Qmin (p_ss p) (p_sts p) /\ Qmin (p_ss p) (p_sts p) <= p_ss p /\ Qmin (p_ss p) (p_sts p) <= p_sts p.
Proof.
  intros [Hss [Hsts _]]. split; [apply Q.min_glb; lra|]. split; [apply Q.le_min_l|apply Q.le_min_r].
Qed.

Lemma rt_cousinsP p t : params_pos p -> cousin_guard t = true ->
  cousinsP (Qmin (p_ss p) (p_sts p)) (reingold_tilford p t).
Proof.
  intros [Hss [Hsts _]] HG. set (m := Qmin (p_ss p) (p_sts p)).
  assert (Hm : 0 <= m) by (apply Q.min_glb; lra).
  assert (Hm1 : m <= p_ss p) by apply Q.le_min_l.
  assert (Hm2 : m <= p_sts p) by apply Q.le_min_r.
  rewrite rt_third. apply cousinsP_third. intros k. unfold rt2.
  eapply (ordP_Forall2_l _ (gap m)); [|apply (second_lv _ _ _ _ k _ _ 0 0); reflexivity|].
  - intros a a' b b' E1 E2 Hg. unfold gap in Hg. rewrite E1, E2. lra.
  - apply sep_node. unfold first_pass. cbn [dkids].
    apply fp_sep; assumption.
Qed.

Lemma rt_cousins_partial eps p t : 0 <= eps -> params_pos p -> cousin_guard t = true ->
  cousins_ok eps (p_ss p) (p_sts p) (reingold_tilford p t) = true.
Proof.
  intros He Hp HG. unfold cousins_ok. apply forallb_forall. intros k _.
  eapply ordpairs_true; [|apply (rt_cousinsP p t Hp HG)].
  intros a b Hab. cbn beta in Hab. apply leq_eps_true; assumption.
Qed.

Lemma rt_prop_partial eps p t : 0 <= eps -> params_pos p -> cousin_guard t = true ->
  prop_C19 eps p t (reingold_tilford p t) = true.
Proof.
  intros He Hp HG. unfold prop_C19. rewrite rt_but_cousins, rt_cousins_partial by assumption. reflexivity.
Qed.

(* ---------------------------------------------------------------------------------------------
   The fuel of `contour` never runs out (for every tree, no guard): the recursion descends one
   level of the left subtree per call, so any fuel >= the height of the left contour nodes gives
   the same result; subtree_shift passes dheight left. *)
Lemma pick_in : forall X dflt, X <> [] -> In (pick X dflt) X.
Proof.
  induction X as [|d X IH]; intros dflt Hne; [congruence|]. cbn [pick].
  destruct (dkids d); [|left; reflexivity].
  destruct X as [|e X']; [left; reflexivity|]. right. apply IH. discriminate.
Qed.

Lemma sheight_kid d k : In k (dkids d) -> (sheight (sk_d k) < sheight (sk_d d))%nat.
Proof.
  intros Hk. rewrite (sk_d_unfold d). cbn [sheight].
  assert (sheight (sk_d k) <= maxh sheight (map sk_d (dkids d)))%nat by (apply maxh_ge, in_map, Hk). lia.
Qed.

Lemma contour_fuel rt sts : forall f1 f2 X Rk lcs rcs cum,
  (forall x, In x X -> sheight (sk_d x) <= f1)%nat ->
  (forall x, In x X -> sheight (sk_d x) <= f2)%nat ->
  contour f1 rt sts X Rk lcs rcs cum = contour f2 rt sts X Rk lcs rcs cum.
Proof.
  induction f1 as [|f1 IH]; intros f2 X Rk lcs rcs cum H1 H2.
  - destruct X as [|l0 X']; [destruct f2; reflexivity|].
    exfalso. pose proof (H1 l0 (or_introl eq_refl)). pose proof (sheight_ge1 (sk_d l0)). lia.
  - destruct X as [|l0 X']; [destruct f2; reflexivity|].
    destruct f2 as [|f2].
    { exfalso. pose proof (H2 l0 (or_introl eq_refl)). pose proof (sheight_ge1 (sk_d l0)). lia. }
    destruct Rk as [|r0 Rk']; [reflexivity|]. cbn [contour].
    set (l := pick (l0 :: X') l0).
    assert (Hl : In l (l0 :: X')) by (apply pick_in; discriminate).
    destruct (dkids l) as [|a b] eqn:El; [reflexivity|].
    destruct (dkids (pick (r0 :: Rk') r0)) as [|a' b']; [reflexivity|].
    rewrite <- El. apply IH; intros x Hx; apply in_rev in Hx; apply sheight_kid in Hx.
    + specialize (H1 l Hl). lia.
    + specialize (H2 l Hl). lia.
Qed.

Lemma subtree_shift_fuel sts left right li ri f : (dheight left <= f)%nat ->
  subtree_shift sts left right li ri =
  match dkids left, dkids right with
  | _ :: _, _ :: _ => contour f (ratio li ri) sts (rev (dkids left)) (dkids right)
                              (Qred (dmod left + dsh left)) (Qred (dmod right + dsh right)) 0
  | _, _ => 0
  end.
Proof.
  intros Hf. unfold subtree_shift. destruct (dkids left) as [|a b] eqn:El; [reflexivity|].
  destruct (dkids right) as [|a' b']; [reflexivity|]. rewrite <- El.
  rewrite dheight_sk in *.
  apply contour_fuel; intros x Hx; apply in_rev in Hx; apply sheight_kid in Hx; lia.
Qed.

(* =============================================================================================
   Clause (c) of the wider guard: a parent all of whose grandchildren are leaves *)

Lemma pos_of_nat_Z idx : (0 < idx)%nat -> Z.pos (Pos.of_nat idx) = Z.of_nat idx.
Proof. intros H. destruct idx as [|n]; [lia|]. rewrite <- Pos.of_nat_succ. lia. Qed.

Lemma frac_one idx : (0 < idx)%nat -> (Z.of_nat idx # Pos.of_nat idx) == 1.
Proof. intros H. unfold Qeq. cbn [Qnum Qden]. rewrite pos_of_nat_Z by exact H. lia. Qed.

Lemma frac_le k k' idx : (k <= k')%nat -> (Z.of_nat k # Pos.of_nat idx) <= (Z.of_nat k' # Pos.of_nat idx).
Proof. intros H. unfold Qle. cbn [Qnum Qden]. nia. Qed.

Lemma frac_lt1 j idx : (j < idx)%nat -> (Z.of_nat j # Pos.of_nat idx) < 1.
Proof. intros H. unfold Qlt. cbn [Qnum Qden]. rewrite pos_of_nat_Z by lia. lia. Qed.

Definition reshift (d : dtree) (sh' : Q) : dtree := D (dx d) (dmod d) sh' (dkids d).

Definition cross1 (m : Q) (d e : dtree) : Prop :=
  forall off a b, In a (lv 1 off d) -> In b (lv 1 off e) -> a + m <= b.

Lemma lv1_reshift off d sh' dl : sh' == dsh d + dl ->
  Forall2 (fun a b => b == a + dl) (lv 1 off d) (lv 1 off (reshift d sh')).
Proof.
  intros E. rewrite !lv_S. cbn [reshift dmod dsh dkids]. apply lvs_shift. rewrite E. lra.
Qed.

Lemma cross1_reshift m d e sd se d1 d2 :
  sd == dsh d + d1 -> se == dsh e + d2 -> d1 <= d2 -> cross1 m d e ->
  cross1 m (reshift d sd) (reshift e se).
Proof.
  intros E1 E2 Hle H off a b Ha Hb.
  destruct (Forall2_In_r _ _ _ _ (lv1_reshift off d sd d1 E1) Ha) as [a0 [Ha0 Ea]].
  destruct (Forall2_In_r _ _ _ _ (lv1_reshift off e se d2 E2) Hb) as [b0 [Hb0 Eb]].
  specialize (H off a0 b0 Ha0 Hb0). lra.
Qed.

Lemma bump_cons s idx k d r :
  bump s idx k (d :: r) = reshift d (Qred (dsh d + s * (Z.of_nat k # Pos.of_nat idx))) :: bump s idx (S k) r.
Proof. destruct d; reflexivity. Qed.

Lemma bump_app s idx : forall a b k,
  bump s idx k (a ++ b) = bump s idx k a ++ bump s idx (k + length a) b.
Proof.
  induction a as [|x a IH]; intros b k; cbn [app length].
  - rewrite Nat.add_0_r. reflexivity.
  - rewrite !bump_cons. cbn [app]. rewrite IH.
    replace (S k + length a)%nat with (k + S (length a))%nat by lia. reflexivity.
Qed.

Lemma Forall_bump_cross m s idx d k : 0 <= s -> forall r k', (k <= k')%nat ->
  Forall (cross1 m d) r ->
  Forall (cross1 m (reshift d (Qred (dsh d + s * (Z.of_nat k # Pos.of_nat idx))))) (bump s idx k' r).
Proof.
  intros Hs. induction r as [|e r IH]; intros k' Hk HF; [constructor|].
  inversion HF as [|? ? He Hr]; subst. rewrite bump_cons. constructor; [|apply IH; [lia|exact Hr]].
  eapply cross1_reshift; [apply Qred_correct|apply Qred_correct| |exact He].
  pose proof (frac_le k k' idx Hk). nra.
Qed.

Lemma ordP_bump m s idx : 0 <= s -> forall l k, ordP (cross1 m) l -> ordP (cross1 m) (bump s idx k l).
Proof.
  intros Hs. induction l as [|d l IH]; intros k HO; [exact I|].
  cbn [ordP] in HO. destruct HO as [H1 H2]. rewrite bump_cons. cbn [ordP]. split; [|apply IH, H2].
  apply Forall_bump_cross; [exact Hs|lia|exact H1].
Qed.

Lemma max_shift_each sts nd idx : forall lefts j0 acc i l,
  nth_error lefts i = Some l -> subtree_shift sts l nd (j0 + i) idx <= max_shift sts nd idx j0 lefts acc.
Proof.
  induction lefts as [|x r IH]; intros j0 acc i l H; [destruct i; discriminate|].
  cbn [max_shift]. destruct i as [|i]; cbn [nth_error] in H.
  - injection H as ->. rewrite Nat.add_0_r. eapply Qle_trans; [apply Q.le_max_r|apply max_shift_ge].
  - replace (j0 + S i)%nat with (S j0 + i)%nat by lia. apply IH. exact H.
Qed.

Lemma left_max m Lk lcs l0 X' : 0 <= m -> rev Lk = l0 :: X' -> sepF m Lk ->
  forall a, In a (lvs 0 lcs Lk) -> a <= dx l0 + dsh l0 + lcs.
Proof.
  intros Hm Erev Hsep.
  assert (EL : Lk = rev X' ++ [l0]).
  { rewrite <- (rev_involutive Lk), Erev. reflexivity. }
  intros a Ha. pose proof (Hsep 0%nat lcs) as H0. rewrite EL, lvs_app in H0, Ha.
  apply ordP_app in H0. destruct H0 as [_ [_ H0]].
  apply in_app_or in Ha. destruct Ha as [Ha|Ha].
  - specialize (H0 a (dx l0 + dsh l0 + lcs) Ha). unfold gap in H0.
    assert (a + m <= dx l0 + dsh l0 + lcs) by (apply H0; left; reflexivity). lra.
  - cbn in Ha. destruct Ha as [<-|[]]. lra.
Qed.

Lemma right_min m Rk rcs r0 X' : 0 <= m -> Rk = r0 :: X' -> sepF m Rk ->
  forall b, In b (lvs 0 rcs Rk) -> dx r0 + dsh r0 + rcs <= b.
Proof.
  intros Hm ER Hsep b Hb. pose proof (Hsep 0%nat rcs) as H0. rewrite ER, lvs_cons in H0, Hb.
  apply ordP_app in H0. destruct H0 as [_ [_ H0]].
  apply in_app_or in Hb. destruct Hb as [Hb|Hb].
  - cbn in Hb. destruct Hb as [<-|[]]. lra.
  - specialize (H0 (dx r0 + dsh r0 + rcs) b). unfold gap in H0.
    assert (dx r0 + dsh r0 + rcs + m <= b) by (apply H0; [left; reflexivity|exact Hb]). lra.
Qed.

(* one level of contour comparison between two subtrees whose children are leaves *)
Lemma contour_flat fuel rt sts l0 XL r0 XR lcs rcs :
  Forall dleaf (l0 :: XL) -> Forall dleaf (r0 :: XR) ->
  (dx l0 + dsh l0 + lcs + sts - (dx r0 + dsh r0 + rcs + 0)) / rt
  <= contour fuel rt sts (l0 :: XL) (r0 :: XR) lcs rcs 0.
Proof.
  intros HL HR.
  assert (EL : dkids (pick (l0 :: XL) l0) = []).
  { rewrite Forall_forall in HL. apply HL. apply pick_in. discriminate. }
  destruct fuel as [|f]; cbn [contour]; cbv zeta; [|rewrite EL]; rewrite Qred_correct;
    match goal with |- _ <= 0 + Qmax ?a ?b => pose proof (Q.le_max_l a b) as H; set (q := a) in * end; lra.
Qed.

Lemma cross1_new m sts d nd j idx s sd sn :
  0 <= m -> m <= sts -> (j < idx)%nat ->
  Forall dleaf (dkids d) -> Forall dleaf (dkids nd) -> sepF m (dkids d) -> sepF m (dkids nd) ->
  subtree_shift sts d nd j idx <= s ->
  sd == dsh d + s * (Z.of_nat j # Pos.of_nat idx) ->
  sn == dsh nd + s * (Z.of_nat idx # Pos.of_nat idx) ->
  cross1 m (reshift d sd) (reshift nd sn).
Proof.
  intros Hm Hsts Hj HLd HLn HSd HSn Hs Esd Esn off a b Ha Hb.
  rewrite lv_S in Ha, Hb. cbn [reshift dmod dsh dkids] in Ha, Hb.
  unfold subtree_shift in Hs.
  destruct (dkids d) as [|kd0 kdr] eqn:EKd; [destruct Ha|].
  destruct (dkids nd) as [|r0 XR] eqn:EKn; [destruct Hb|].
  cbv beta iota in Hs. rewrite <- EKd in *.
  destruct (rev (dkids d)) as [|l0 XL] eqn:Erev.
  { exfalso. assert (E : dkids d = []) by (rewrite <- (rev_involutive (dkids d)), Erev; reflexivity).
    rewrite E in EKd. discriminate. }
  assert (HLrev : Forall dleaf (l0 :: XL)).
  { rewrite <- Erev. apply Forall_forall. intros x Hx. apply in_rev in Hx.
    rewrite Forall_forall in HLd. apply HLd, Hx. }
  pose proof (contour_flat (dheight d) (ratio j idx) sts l0 XL r0 XR
                (Qred (dmod d + dsh d)) (Qred (dmod nd + dsh nd)) HLrev HLn) as HC.
  pose proof (left_max m (dkids d) (off + dmod d + sd) l0 XL Hm Erev HSd a Ha) as HA.
  pose proof (right_min m (r0 :: XR) (off + dmod nd + sn) r0 XR Hm eq_refl HSn b Hb) as HB.
  pose proof (frac_lt1 j idx Hj) as HF1.
  assert (HF2 : (Z.of_nat idx # Pos.of_nat idx) == 1) by (apply frac_one; lia).
  rewrite HF2 in Esn. unfold ratio in HC, Hs.
  set (F1 := Z.of_nat j # Pos.of_nat idx) in *.
  set (N := dx l0 + dsh l0 + Qred (dmod d + dsh d) + sts - (dx r0 + dsh r0 + Qred (dmod nd + dsh nd) + 0)) in *.
  assert (Hrt : ~ 1 - F1 == 0) by (intros E; lra).
  pose proof (Qmult_div_r N (1 - F1) Hrt) as HQ.
  set (q := N / (1 - F1)) in *.
  assert (Hq : q <= s) by lra.
  assert (HN : N <= s * (1 - F1)) by nra.
  unfold N in HN. rewrite !Qred_correct in HN. lra.
Qed.

Lemma bump_In s idx : forall l k d', In d' (bump s idx k l) ->
  exists i d, nth_error l i = Some d
              /\ d' = reshift d (Qred (dsh d + s * (Z.of_nat (k + i) # Pos.of_nat idx))).
Proof.
  induction l as [|x l IH]; intros k d' H; [destruct H|]. rewrite bump_cons in H.
  destruct H as [<-|H].
  - exists 0%nat, x. split; [reflexivity|]. rewrite Nat.add_0_r. reflexivity.
  - destruct (IH (S k) d' H) as [i [d [H1 H2]]]. exists (S i), d. split; [exact H1|].
    replace (k + S i)%nat with (S k + i)%nat by lia. exact H2.
Qed.

Definition flatok (m : Q) (d : dtree) : Prop := Forall dleaf (dkids d) /\ sepF m (dkids d).

Lemma place_flat ss sts m : 0 <= m -> m <= sts -> forall todo done pend,
  Forall (fun dk => Forall dleaf dk /\ sepF m dk) todo ->
  Forall (flatok m) done -> ordP (cross1 m) done ->
  let r := place ss sts done todo pend in
  Forall (flatok m) r /\ ordP (cross1 m) r.
Proof.
  intros Hm Hsts. induction todo as [|dk rest IH]; intros done pend Htodo Hdone Hcross.
  - cbn [place]. split; assumption.
  - inversion Htodo as [|? ? [Hdk1 Hdk2] Hrest]; subst. cbn [place].
    set (x := match done with
              | [] => match dk with [] => 0 | _ :: _ => midpoint dk end
              | d0 :: _ => Qred (dx (last done d0) + ss)
              end).
    set (md := match done, dk with
               | _ :: _, _ :: _ => Qred (x - midpoint dk)
               | _, _ => 0
               end).
    set (nd := D x md (hd 0 pend) dk).
    assert (Hnd : flatok m nd) by (split; assumption).
    destruct done as [|d0 done'].
    + apply IH; [exact Hrest|constructor; [exact Hnd|constructor]|]. cbn. split; [constructor|exact I].
    + set (done := d0 :: done') in *. set (idx := length done).
      set (s := max_shift sts nd idx 0 done 0).
      assert (Hs : 0 <= s) by apply max_shift_ge.
      apply IH; [exact Hrest| |].
      * apply bump_Forall; [intros x0 m0 sh sh' ks H; exact H|].
        apply Forall_app. split; [exact Hdone|constructor; [exact Hnd|constructor]].
      * rewrite bump_app. apply ordP_app. split; [apply ordP_bump; assumption|].
        cbn [Nat.add]. fold idx. rewrite bump_cons. cbn [bump]. split; [cbn; split; [constructor|exact I]|].
        intros d' e Hd' [<-|[]].
        destruct (bump_In _ _ _ _ _ Hd') as [i [d [Hi ->]]]. cbn [Nat.add].
        assert (Hlt : (i < idx)%nat) by (apply nth_error_Some; rewrite Hi; discriminate).
        assert (Hd : flatok m d).
        { rewrite Forall_forall in Hdone. apply Hdone. eapply nth_error_In. exact Hi. }
        destruct Hd as [Hd1 Hd2]. destruct Hnd as [Hn1 Hn2].
        eapply (cross1_new m sts d nd i idx s); try eassumption.
        -- apply (max_shift_each sts nd idx done 0 0 i d Hi).
        -- apply Qred_correct.
        -- apply Qred_correct.
Qed.

Lemma ordP_flat_map {A B} (R : B -> B -> Prop) (f : A -> list B) (l : list A) :
  (forall x, In x l -> ordP R (f x)) ->
  ordP (fun x y => forall a b, In a (f x) -> In b (f y) -> R a b) l ->
  ordP R (flat_map f l).
Proof.
  induction l as [|x l IH]; intros H1 H2; [exact I|]. cbn [flat_map]. cbn [ordP] in H2.
  destruct H2 as [H2 H3]. apply ordP_app. split; [apply H1; left; reflexivity|].
  split; [apply IH; [intros y Hy; apply H1; right; exact Hy|exact H3]|].
  intros a b Ha Hb. apply in_flat_map in Hb. destruct Hb as [y [Hy Hb]].
  rewrite Forall_forall in H2. apply (H2 y Hy a b Ha Hb).
Qed.

Lemma flat_map_nil {A B} (f : A -> list B) l : (forall x, In x l -> f x = []) -> flat_map f l = [].
Proof.
  induction l as [|x l IH]; intros H; [reflexivity|]. cbn [flat_map].
  rewrite (H x (or_introl eq_refl)), IH; [reflexivity|]. intros y Hy. apply H. right. exact Hy.
Qed.

Lemma sep_case_c ss sts m g n a ks : 0 <= m -> m <= ss -> m <= sts ->
  Forall (fun k => sepF m (fp ss sts k)) ks -> flat2 (map sk_of ks) = true ->
  sepF m (fp ss sts (T g n a ks)).
Proof.
  intros Hm Hss Hsts Skids HG.
  destruct (fp_inv ss sts (T g n a ks)) as [_ [Hcx Hmo]].
  assert (Htodo : Forall (fun dk => Forall dleaf dk /\ sepF m dk) (map (fp ss sts) ks)).
  { apply Forall_map. unfold flat2 in HG. rewrite forallb_forall in HG.
    rewrite Forall_forall in Skids. apply Forall_forall. intros k Hk. split; [|apply Skids, Hk].
    specialize (HG (sk_of k) (in_map sk_of ks k Hk)). rewrite forallb_forall in HG.
    apply Forall_forall. intros d Hd. unfold dleaf.
    assert (Hin : In (sk_d d) (skids (sk_of k))) by (rewrite <- (sk_fp ss sts k); apply in_map, Hd).
    specialize (HG _ Hin). rewrite sleaf_sk_d in HG. destruct (dkids d); [reflexivity|discriminate]. }
  destruct (place_flat ss sts m Hm Hsts (map (fp ss sts) ks) [] (map (fun _ => 0) ks) Htodo
                       (Forall_nil _) I) as [HF HC].
  change (place ss sts [] (map (fp ss sts) ks) (map (fun _ => 0) ks)) with (fp ss sts (T g n a ks)) in HF, HC.
  set (F := fp ss sts (T g n a ks)) in *.
  intros [|[|j]] off.
  - rewrite lvs0. apply ordP_map. eapply ordP_impl; [|apply (chain_pairs ss ltac:(lra) F Hcx Hmo)].
    intros x y Hxy. unfold gap. cbn beta in Hxy. lra.
  - unfold lvs. apply ordP_flat_map.
    + intros d Hd. rewrite lv_S. rewrite Forall_forall in HF. apply (HF d Hd).
    + eapply ordP_impl; [|exact HC]. intros d e H a0 b0 Ha Hb. apply (H off a0 b0 Ha Hb).
  - unfold lvs. rewrite flat_map_nil; [exact I|]. intros d Hd. rewrite lv_S.
    rewrite Forall_forall in HF. apply lvs_leaves. apply (HF d Hd).
Qed.

Lemma guard2_unfold l :
  cguard2_sk (Sk l) = forallb cguard2_sk l
                      && (Nat.leb (nonleaves l) 1
                          || match l with
                             | [a; b] => Nat.eqb (hR a) (sheight a) && Nat.eqb (hL b) (sheight b)
                             | _ => false
                             end
                          || flat2 l).
Proof. reflexivity. Qed.

Lemma fp_sep2 ss sts m : 0 <= m -> m <= ss -> m <= sts ->
  forall t, cguard2_sk (sk_of t) = true -> sepF m (fp ss sts t).
Proof.
  intros Hm Hss Hsts. induction t as [g n a ks IH] using tree_ind'. intros HG.
  cbn [sk_of] in HG. rewrite guard2_unfold in HG. apply andb_true_iff in HG. destruct HG as [HGk HG].
  rewrite forallb_forall in HGk.
  assert (Skids : Forall (fun k => sepF m (fp ss sts k)) ks).
  { rewrite Forall_forall in IH. apply Forall_forall. intros k Hk. apply (IH k Hk).
    apply HGk. apply in_map. exact Hk. }
  apply orb_true_iff in HG. destruct HG as [HG|HG]; [|apply sep_case_c; assumption].
  apply orb_true_iff in HG. destruct HG as [HG|HG].
  { apply Nat.leb_le in HG. apply sep_case_a; assumption. }
  destruct ks as [|k0 [|k1 [|k2 ks]]]; cbn [map] in HG; try discriminate HG.
  inversion Skids as [|? ? S0 Sr]; subst. inversion Sr as [|? ? S1 _]; subst.
  apply andb_true_iff in HG. destruct HG as [HR HL].
  apply Nat.eqb_eq in HR. apply Nat.eqb_eq in HL. apply sep_case_b; assumption.
Qed.

Lemma guard_guard2 : forall s, cguard_sk s = true -> cguard2_sk s = true.
Proof.
  induction s as [l IH] using sk_ind'. rewrite guard_unfold, guard2_unfold. intros H.
  apply andb_true_iff in H. destruct H as [H1 H2]. apply andb_true_iff. split.
  - rewrite forallb_forall in *. rewrite Forall_forall in IH. intros x Hx. apply IH; [exact Hx|apply H1, Hx].
  - rewrite H2. reflexivity.
Qed.

Lemma rt_cousins_partial2 eps p t : 0 <= eps -> params_pos p -> cousin_guard2 t = true ->
  cousins_ok eps (p_ss p) (p_sts p) (reingold_tilford p t) = true.
Proof.
  intros He Hp HG. destruct (min_facts p Hp) as [Hm [Hm1 Hm2]].
  unfold cousins_ok. apply forallb_forall. intros k _.
  eapply ordpairs_true; [|apply (rt_cousinsP_sep p t)].
  - intros a b Hab. cbn beta in Hab. apply leq_eps_true; assumption.
  - apply fp_sep2; assumption.
Qed.

(* the shape of every failure of clause 4 (contrapositive): if two nodes of one depth come closer
   than min(sibling, subtree separation), the tree violates the guard *)
Lemma rt_cousins_failure_shape p t : params_pos p ->
  cousins_ok 0 (p_ss p) (p_sts p) (reingold_tilford p t) = false -> cousin_guard2 t = false.
Proof.
  intros Hp HF. destruct (cousin_guard2 t) eqn:E; [|reflexivity].
  rewrite (rt_cousins_partial2 0 p t) in HF; [discriminate|lra|exact Hp|exact E].
Qed.

(* =============================================================================================
   Re-running the layout: since the reset of `shift` (F10) a call of reingold_tilford does not
   depend on earlier calls; what it computes is the fresh layout of the shape the tree has *)

Lemma dsh_reset d : dsh (reset_d d) = 0.
Proof. destruct d; reflexivity. Qed.

Lemma fpd_reset ss sts : forall d, fpd ss sts (reset_d d) = fp ss sts (tree_of_d d).
Proof.
  induction d as [x m s ks IH] using dtree_ind'. cbn [reset_d fpd tree_of_d fp]. rewrite !map_map. f_equal.
  - apply map_ext_in. intros k Hk. rewrite Forall_forall in IH. apply IH, Hk.
  - apply map_ext. intros k. apply dsh_reset.
Qed.

Lemma dheight_tree : forall d, dheight d = height (tree_of_d d).
Proof.
  induction d as [x m s ks IH] using dtree_ind'. cbn [dheight tree_of_d height]. f_equal.
  induction ks as [|k ks IHk]; [reflexivity|]. inversion IH as [|? ? Hk Hks]; subst.
  cbn [map fold_right]. rewrite Hk, IHk by exact Hks. reflexivity.
Qed.

(* one call = the fresh layout of the current shape, whatever annotations the nodes carry *)
Lemma layout_fresh p d : snd (layout p d) = reingold_tilford p (tree_of_d d).
Proof.
  unfold layout, reingold_tilford, rt_gen, first_pass, first_pass_d. cbn [snd].
  rewrite fpd_reset, dheight_tree. reflexivity.
Qed.

(* the model never looks at tags, names or attributes *)
Lemma fp_strip ss sts : forall t, fp ss sts (tree_of_d (zero_d t)) = fp ss sts t.
Proof.
  induction t as [g n a ks IH] using tree_ind'. cbn [zero_d tree_of_d fp]. rewrite !map_map. f_equal.
  apply map_ext_in. intros k Hk. rewrite Forall_forall in IH. apply IH, Hk.
Qed.

Lemma height_strip : forall t, height (tree_of_d (zero_d t)) = height t.
Proof.
  induction t as [g n a ks IH] using tree_ind'. cbn [zero_d tree_of_d height]. f_equal. rewrite map_map.
  induction ks as [|k ks IHk]; [reflexivity|]. inversion IH as [|? ? Hk Hks]; subst.
  cbn [map fold_right]. rewrite Hk, IHk by exact Hks. reflexivity.
Qed.

Lemma rt_strip p t : reingold_tilford p (tree_of_d (zero_d t)) = reingold_tilford p t.
Proof. unfold reingold_tilford, rt_gen, first_pass. rewrite fp_strip, height_strip. reflexivity. Qed.

(* a call leaves the structure alone *)
Lemma tree_of_reset : forall d, tree_of_d (reset_d d) = tree_of_d d.
Proof.
  induction d as [x m s ks IH] using dtree_ind'. cbn [reset_d tree_of_d]. f_equal. rewrite map_map.
  apply map_ext_in. intros k Hk. rewrite Forall_forall in IH. apply IH, Hk.
Qed.

Lemma tree_of_fpd ss sts : forall d, map tree_of_d (fpd ss sts d) = map tree_of_d (dkids d).
Proof.
  induction d as [x m s ks IH] using dtree_ind'. cbn [dkids].
  assert (E : map dkids (fpd ss sts (D x m s ks)) = map (fpd ss sts) ks).
  { cbn [fpd]. rewrite place_dkids. reflexivity. }
  generalize dependent (fpd ss sts (D x m s ks)). intros L. revert L.
  induction ks as [|k ks IHk]; intros L E; destruct L as [|d L]; try discriminate; [reflexivity|].
  inversion IH as [|? ? Hk Hks]; subst. cbn [map] in *. injection E as E1 E2.
  rewrite (IHk Hks L E2). f_equal.
  destruct d as [x' m' s' kids']. cbn [dkids] in E1. subst kids'.
  destruct k as [x'' m'' s'' kids'']. cbn [tree_of_d dkids] in *. f_equal. exact Hk.
Qed.

Lemma tree_of_layout p d : tree_of_d (fst (layout p d)) = tree_of_d d.
Proof.
  unfold layout, first_pass_d. cbn [fst tree_of_d]. rewrite tree_of_fpd.
  rewrite <- (tree_of_reset d). destruct (reset_d d); reflexivity.
Qed.

Lemma tree_of_reruns : forall ps d, tree_of_d (reruns ps d) = tree_of_d d.
Proof.
  induction ps as [|p ps IH]; intros d; [reflexivity|]. cbn [reruns]. rewrite IH. apply tree_of_layout.
Qed.

(* laying the same (structurally unchanged) tree out again gives the fresh layout *)
Lemma rt_again_eq ps p t : rt_again ps p t = reingold_tilford p t.
Proof. unfold rt_again. rewrite layout_fresh, tree_of_reruns. apply rt_strip. Qed.

Lemma run_steps_app : forall s1 st s2, run_steps st (s1 ++ s2) = run_steps (run_steps st s1) s2.
Proof.
  induction s1 as [|[es p] s1 IH]; intros st s2; [reflexivity|]. cbn [app run_steps]. apply IH.
Qed.

(* after any history of layouts and structural changes, the coordinates of the last call are the
   fresh layout of the tree as it is then *)
Lemma relayout_is_fresh st steps es p :
  snd (run_steps st (steps ++ [(es, p)]))
  = reingold_tilford p (tree_of_d (apply_edits es (fst (run_steps st steps)))).
Proof. rewrite run_steps_app. cbn [run_steps]. apply layout_fresh. Qed.

(* =============================================================================================
   A start node that is not the root (first child of its parent): the same three passes with the
   whole tree's max_depth and the node's absolute depth; the four clauses do not depend on them *)
Lemma rtg_but_cousins eps p maxd depth t : 0 <= eps -> params_pos p ->
  prop_C19_but_cousins eps p t (rt_gen p maxd depth t) = true.
Proof.
  intros He [Hss [Hsts Hls]].
  assert (HL : Forall (fun n => Mid n /\ (0 <= p_ss p -> Sib (p_ss p) n)) (cpre (rt_gen p maxd depth t))).
  { unfold rt_gen. apply third_local, second_local, first_pass_wf. }
  assert (H0 : same_shape t (rt_gen p maxd depth t) = true).
  { unfold rt_gen, third, first_pass.
    match goal with |- context [Qeq_bool ?a 0] => destruct (Qeq_bool a 0) end.
    - apply same_shape_second.
    - rewrite same_shape_cshift. apply same_shape_second. }
  assert (H1 : levels_ok eps (p_ls p) (rt_gen p maxd depth t) = true).
  { apply levels_ok_of_P; [exact He|exact Hls|]. unfold rt_gen. apply levelsP_third, levelsP_second. }
  assert (H2 : midpoint_ok eps (rt_gen p maxd depth t) = true).
  { unfold midpoint_ok. apply forallb_forall. intros n Hn. rewrite Forall_forall in HL.
    destruct (HL n Hn) as [HMid _]. unfold Mid in HMid. destruct (ckids n) as [|f l]; [reflexivity|].
    apply eq_eps_true; [exact He|exact HMid]. }
  assert (H3 : siblings_ok eps (p_ss p) (rt_gen p maxd depth t) = true).
  { unfold siblings_ok. apply forallb_forall. intros n Hn. rewrite Forall_forall in HL.
    destruct (HL n Hn) as [_ HS]. specialize (HS (Qlt_le_weak _ _ Hss)). unfold Sib in HS.
    eapply ordpairs_true; [|exact HS]. intros a b Hab. cbn beta in Hab. apply leq_eps_true; assumption. }
  assert (H4 : nonneg_ok eps (rt_gen p maxd depth t) = true).
  { unfold nonneg_ok. apply forallb_forall. intros n Hn.
    assert (HN : Forall (fun n => 0 <= cx n) (cpre (rt_gen p maxd depth t))).
    { unfold rt_gen. apply third_nonneg.
      eapply Forall_impl; [|apply second_local, first_pass_wf]. intros a [H _]. exact H. }
    rewrite Forall_forall in HN. apply leq_eps_true; [exact He|apply HN, Hn]. }
  unfold prop_C19_but_cousins. rewrite H0, H1, H2, H3, H4. reflexivity.
Qed.

Lemma rt_at_but_cousins eps p whole path sub c : 0 <= eps -> params_pos p ->
  subtree_at whole path = Some sub -> rt_at p whole path = Some c ->
  prop_C19_but_cousins eps p sub c = true.
Proof.
  intros He Hp Hs Hc. unfold rt_at in Hc. destruct path as [|i path'].
  - cbn in Hs. injection Hs as <-. injection Hc as <-. apply rtg_but_cousins; assumption.
  - destruct (Nat.eqb (last (i :: path') 1%nat) 0); [|discriminate].
    rewrite Hs in Hc. injection Hc as <-. apply rtg_but_cousins; assumption.
Qed.

(* =============================================================================================
   After any history of layouts and edits the property holds as on a fresh tree *)
Lemma history_but_cousins eps st steps es p : 0 <= eps -> params_pos p ->
  let t := tree_of_d (apply_edits es (fst (run_steps st steps))) in
  prop_C19_but_cousins eps p t (snd (run_steps st (steps ++ [(es, p)]))) = true
  /\ (cousin_guard2 t = true -> prop_C19 eps p t (snd (run_steps st (steps ++ [(es, p)]))) = true).
Proof.
  intros He Hp t. rewrite relayout_is_fresh. fold t. split; [apply rt_but_cousins; assumption|].
  intros HG. unfold prop_C19. rewrite rt_but_cousins, rt_cousins_partial2 by assumption. reflexivity.
Qed.

(* =============================================================================================
   K1 for infinitely many inputs: the witness hanging under a chain of n unary nodes *)

(* same x everywhere (y may differ) *)
Fixpoint xeq (a b : ctree) : Prop :=
  match a, b with
  | C x _ ks, C x' _ ks' =>
      x = x' /\ (fix go (l l' : list ctree) : Prop :=
                   match l, l' with
                   | [], [] => True
                   | k :: r, k' :: r' => xeq k k' /\ go r r'
                   | _, _ => False
                   end) ks ks'
  end.

Lemma xeq_unfold a b : xeq a b <-> cx a = cx b /\ Forall2 xeq (ckids a) (ckids b).
Proof.
  destruct a as [x y ks], b as [x' y' ks']. cbn [xeq cx ckids].
  assert (E : forall l l', (fix go (l l' : list ctree) : Prop :=
                   match l, l' with
                   | [], [] => True
                   | k :: r, k' :: r' => xeq k k' /\ go r r'
                   | _, _ => False
                   end) l l' <-> Forall2 xeq l l').
  { induction l as [|k l IH]; intros [|k' l'].
    - split; intros _; [constructor|exact I].
    - split; [intros []|intros H; inversion H].
    - split; [intros []|intros H; inversion H].
    - split.
      + intros [H1 H2]. constructor; [exact H1|apply IH, H2].
      + intros H. inversion H; subst. split; [assumption|apply IH; assumption]. }
  rewrite E. reflexivity.
Qed.

Lemma second_xeq ls xo yo : forall d maxd maxd' depth depth' cum,
  xeq (second ls xo yo maxd depth cum d) (second ls xo yo maxd' depth' cum d).
Proof.
  induction d as [x m s ks IH] using dtree_ind'. intros. apply xeq_unfold. cbn [second cx ckids].
  split; [reflexivity|]. induction ks as [|k ks IHk]; [constructor|].
  inversion IH as [|? ? Hk Hks]; subst. cbn [map]. constructor; [apply Hk|apply IHk, Hks].
Qed.

Lemma xeq_levels : forall k a b, xeq a b -> map cx (clevel k a) = map cx (clevel k b).
Proof.
  induction k as [|k IH]; intros a b H; apply xeq_unfold in H; destruct H as [H1 H2].
  - cbn. f_equal. exact H1.
  - cbn [clevel]. induction H2 as [|x y l l' Hxy _ IHl]; [reflexivity|].
    cbn [flat_map]. rewrite !map_app, (IH _ _ Hxy), IHl. reflexivity.
Qed.

Lemma xeq_height : forall a b, xeq a b -> cheight a = cheight b.
Proof.
  induction a as [x y ks IH] using ctree_ind'. intros [x' y' ks'] H. apply xeq_unfold in H.
  cbn [ckids] in H. destruct H as [_ H]. cbn [cheight]. f_equal.
  revert IH. induction H as [|k k' l l' Hk _ IHl]; intros IH; [reflexivity|].
  inversion IH as [|? ? H1 H2]; subst. cbn [fold_right]. rewrite (H1 _ Hk), (IHl H2). reflexivity.
Qed.

Lemma xeq_adjust : forall a b, xeq a b -> adjust a = adjust b.
Proof.
  induction a as [x y ks IH] using ctree_ind'. intros [x' y' ks'] H. apply xeq_unfold in H.
  cbn [cx ckids] in H. destruct H as [Hx H]. subst x'.
  destruct H as [|k k' l l' Hk Hl]; [reflexivity|]. cbn [adjust].
  inversion IH as [|? ? H1 H2]; subst. rewrite (H1 _ Hk). f_equal.
  clear Hk H1 IH. revert H2. induction Hl as [|c c' r r' Hc _ IHr]; intros H2; [reflexivity|].
  inversion H2 as [|? ? H3 H4]; subst. cbn [map]. rewrite (H3 _ Hc), (IHr H4). reflexivity.
Qed.

Lemma xeq_cshift q : forall a b, xeq a b -> xeq (cshift q a) (cshift q b).
Proof.
  induction a as [x y ks IH] using ctree_ind'. intros [x' y' ks'] H. apply xeq_unfold in H.
  cbn [cx ckids] in H. destruct H as [Hx H]. subst x'. apply xeq_unfold. cbn [cshift cx ckids].
  split; [reflexivity|]. revert IH. induction H as [|k k' l l' Hk _ IHl]; intros IH; [constructor|].
  inversion IH as [|? ? H1 H2]; subst. cbn [map]. constructor; [apply H1, Hk|apply IHl, H2].
Qed.

Lemma forallb_map' {A B} (f : A -> B) (g : B -> bool) (l : list A) :
  forallb g (map f l) = forallb (fun x => g (f x)) l.
Proof. induction l as [|a l IH]; [reflexivity|]. cbn [map forallb]. rewrite IH. reflexivity. Qed.

Lemma ordpairs_map {A B} (f : A -> B) (P : B -> B -> bool) (l : list A) :
  ordpairs (fun a b => P (f a) (f b)) l = ordpairs P (map f l).
Proof.
  induction l as [|a l IH]; [reflexivity|]. cbn [ordpairs map]. rewrite IH, forallb_map'. reflexivity.
Qed.

Lemma forallb_ext' {A} (f g : A -> bool) (l : list A) : (forall x, f x = g x) -> forallb f l = forallb g l.
Proof. intros H. induction l as [|a l IH]; [reflexivity|]. cbn [forallb]. rewrite H, IH. reflexivity. Qed.

Lemma xeq_cousins eps ss sts a b : xeq a b -> cousins_ok eps ss sts a = cousins_ok eps ss sts b.
Proof.
  intros H. unfold cousins_ok. rewrite (xeq_height a b H). apply forallb_ext'. intros k.
  rewrite (ordpairs_map cx (fun u v => leq_eps eps (u + Qmin ss sts) v) (clevel k a)).
  rewrite (ordpairs_map cx (fun u v => leq_eps eps (u + Qmin ss sts) v) (clevel k b)).
  rewrite (xeq_levels k a b H). reflexivity.
Qed.

(* one unary node on top: the layout below it has the same x coordinates *)
Lemma rt_unary p t : fp (p_ss p) (p_sts p) t <> [] ->
  exists x y c1, reingold_tilford p (nd [t]) = C x y [c1] /\ xeq c1 (reingold_tilford p t).
Proof.
  intros Hne. unfold reingold_tilford, rt_gen, first_pass.
  set (ks := fp (p_ss p) (p_sts p) t) in *.
  assert (E : fp (p_ss p) (p_sts p) (nd [t]) = [D (midpoint ks) 0 0 ks]).
  { unfold nd. cbn [fp map]. fold ks. destruct ks as [|k0 kr]; [congruence|]. reflexivity. }
  rewrite E. set (r := D (midpoint ks) 0 0 ks).
  cbn [second map]. change (Qred (0 + 0 + 0)) with 0.
  set (inner := second (p_ls p) (p_xo p) (p_yo p) (height (nd [t])) 2 0 r).
  set (orig := second (p_ls p) (p_xo p) (p_yo p) (height t) 1 0 r).
  assert (Hx : xeq inner orig) by apply second_xeq.
  unfold third. cbn [adjust map fold_left]. rewrite (xeq_adjust _ _ Hx).
  destruct (Qeq_bool (adjust orig) 0).
  - eexists _, _, inner. split; [reflexivity|exact Hx].
  - cbn [cshift map]. eexists _, _, (cshift (adjust orig) inner). split; [reflexivity|].
    apply xeq_cshift, Hx.
Qed.

Lemma cousins_under_unary eps ss sts x y c1 :
  cousins_ok eps ss sts c1 = false -> cousins_ok eps ss sts (C x y [c1]) = false.
Proof.
  intros HF. destruct (cousins_ok eps ss sts (C x y [c1])) eqn:E; [|reflexivity].
  rewrite <- HF. symmetry. unfold cousins_ok in *. apply forallb_forall. intros k Hk.
  rewrite forallb_forall in E. apply in_seq in Hk.
  assert (Hin : In (S k) (seq 0 (cheight (C x y [c1])))).
  { apply in_seq. cbn [cheight fold_right]. lia. }
  specialize (E (S k) Hin). cbn [clevel ckids flat_map] in E. rewrite app_nil_r in E. exact E.
Qed.

Fixpoint under_chain (n : nat) (t : tree) : tree :=
  match n with O => t | S n' => nd [under_chain n' t] end.

Lemma fp_under_chain_ne ss sts n t : fp ss sts t <> [] -> fp ss sts (under_chain n t) <> [].
Proof.
  intros H. destruct n as [|n]; [exact H|]. cbn [under_chain]. unfold nd. cbn [fp map].
  destruct (fp ss sts (under_chain n t)); discriminate.
Qed.

Lemma cousins_under_chain eps p t : fp (p_ss p) (p_sts p) t <> [] ->
  cousins_ok eps (p_ss p) (p_sts p) (reingold_tilford p t) = false ->
  forall n, cousins_ok eps (p_ss p) (p_sts p) (reingold_tilford p (under_chain n t)) = false.
Proof.
  intros Hne HF. induction n as [|n IH]; [exact HF|]. cbn [under_chain].
  destruct (rt_unary p (under_chain n t) (fp_under_chain_ne _ _ n t Hne)) as [x [y [c1 [E Hx]]]].
  rewrite E. apply cousins_under_unary. rewrite (xeq_cousins _ _ _ _ _ Hx). exact IH.
Qed.

Lemma k1_family_refuted : forall n,
  params_pos unit_params
  /\ prop_C19_but_cousins 0 unit_params (under_chain n k1_tree)
       (reingold_tilford unit_params (under_chain n k1_tree)) = true
  /\ cousins_ok 0 (p_ss unit_params) (p_sts unit_params)
       (reingold_tilford unit_params (under_chain n k1_tree)) = false.
Proof.
  intros n. assert (Hp : params_pos unit_params) by (repeat split).
  split; [exact Hp|]. split; [apply rt_but_cousins; [lra|exact Hp]|].
  apply cousins_under_chain.
  - vm_compute. discriminate.
  - vm_compute. reflexivity.
Qed.

Lemma tsize_under_chain n t : tsize (under_chain n t) = (n + tsize t)%nat.
Proof. induction n as [|n IH]; [reflexivity|]. cbn [under_chain nd tsize fold_right]. rewrite IH. lia. Qed.

(* =============================================================================================
   The widest guard: pairwise condition on the children of every node *)

Definition crossA (m : Q) (d e : dtree) : Prop :=
  forall j off a b, In a (lv (S j) off d) -> In b (lv (S j) off e) -> a + m <= b.

Lemma lvS_reshift j off d sh' dl : sh' == dsh d + dl ->
  Forall2 (fun a b => b == a + dl) (lv (S j) off d) (lv (S j) off (reshift d sh')).
Proof.
  intros E. rewrite !lv_S. cbn [reshift dmod dsh dkids]. apply lvs_shift. rewrite E. lra.
Qed.

Lemma crossA_reshift m d e sd se d1 d2 :
  sd == dsh d + d1 -> se == dsh e + d2 -> d1 <= d2 -> crossA m d e ->
  crossA m (reshift d sd) (reshift e se).
Proof.
  intros E1 E2 Hle H j off a b Ha Hb.
  destruct (Forall2_In_r _ _ _ _ (lvS_reshift j off d sd d1 E1) Ha) as [a0 [Ha0 Ea]].
  destruct (Forall2_In_r _ _ _ _ (lvS_reshift j off e se d2 E2) Hb) as [b0 [Hb0 Eb]].
  specialize (H j off a0 b0 Ha0 Hb0). lra.
Qed.

Lemma Forall_bump_crossA m s idx d k : 0 <= s -> forall r k', (k <= k')%nat ->
  Forall (crossA m d) r ->
  Forall (crossA m (reshift d (Qred (dsh d + s * (Z.of_nat k # Pos.of_nat idx))))) (bump s idx k' r).
Proof.
  intros Hs. induction r as [|e r IH]; intros k' Hk HF; [constructor|].
  inversion HF as [|? ? He Hr]; subst. rewrite bump_cons. constructor; [|apply IH; [lia|exact Hr]].
  eapply crossA_reshift; [apply Qred_correct|apply Qred_correct| |exact He].
  pose proof (frac_le k k' idx Hk). nra.
Qed.

Lemma ordP_bumpA m s idx : 0 <= s -> forall l k, ordP (crossA m) l -> ordP (crossA m) (bump s idx k l).
Proof.
  intros Hs. induction l as [|d l IH]; intros k HO; [exact I|].
  cbn [ordP] in HO. destruct HO as [H1 H2]. rewrite bump_cons. cbn [ordP]. split; [|apply IH, H2].
  apply Forall_bump_crossA; [exact Hs|lia|exact H1].
Qed.

(* the condition on a pair of siblings, on decorated trees *)
Definition dflat (d : dtree) : Prop := Forall dleaf (dkids d).
Definition pairP (j : nat) (d e : dtree) : Prop :=
  dleaf d \/ dleaf e \/ (dflat d /\ dflat e)
  \/ (j = 0%nat /\ hR (sk_d d) = sheight (sk_d d) /\ hL (sk_d e) = sheight (sk_d e)).

Lemma ratio0 idx : ratio 0 idx == 1.
Proof. unfold ratio, Qeq. cbn. lia. Qed.

Lemma crossA_new m sts d nd j idx s sd sn :
  0 <= m -> m <= sts -> (j < idx)%nat -> pairP j d nd ->
  sepF m (dkids d) -> sepF m (dkids nd) ->
  subtree_shift sts d nd j idx <= s ->
  sd == dsh d + s * (Z.of_nat j # Pos.of_nat idx) ->
  sn == dsh nd + s * (Z.of_nat idx # Pos.of_nat idx) ->
  crossA m (reshift d sd) (reshift nd sn).
Proof.
  intros Hm Hsts Hj HP HSd HSn Hs Esd Esn.
  destruct HP as [HP|[HP|[[HP1 HP2]|[Hj0 [HR HL]]]]].
  - intros j' off a b Ha _. rewrite lv_S in Ha. cbn [reshift dkids] in Ha. unfold dleaf in HP.
    rewrite HP in Ha. destruct Ha.
  - intros j' off a b _ Hb. rewrite lv_S in Hb. cbn [reshift dkids] in Hb. unfold dleaf in HP.
    rewrite HP in Hb. destruct Hb.
  - intros [|j'] off a b Ha Hb.
    + eapply (cross1_new m sts d nd j idx s sd sn); eassumption.
    + exfalso. rewrite lv_S in Ha. cbn [reshift dkids] in Ha.
      rewrite (lvs_leaves j' _ (dkids d) HP1) in Ha. destruct Ha.
  - subst j. intros j' off a b Ha Hb. rewrite lv_S in Ha, Hb. cbn [reshift dmod dsh dkids] in Ha, Hb.
    unfold subtree_shift in Hs.
    destruct (dkids d) as [|kd0 kdr] eqn:EKd; [destruct Ha|].
    destruct (dkids nd) as [|kn0 knr] eqn:EKn; [destruct Hb|].
    cbv beta iota in Hs. rewrite <- EKd, <- EKn in *.
    assert (N0 : dkids d <> []) by (rewrite EKd; discriminate).
    assert (N1 : dkids nd <> []) by (rewrite EKn; discriminate).
    rewrite (sk_d_unfold d), hR_chain in HR. rewrite (sk_d_unfold nd) in HL.
    cbn [sheight hL] in HR, HL. rewrite <- map_rev in HR. injection HR as HR. injection HL as HL.
    assert (Hfuel : (maxh sheight (map sk_d (dkids d)) <= dheight d)%nat).
    { rewrite dheight_sk, (sk_d_unfold d). cbn [sheight]. lia. }
    destruct (contour_spec m sts (ratio 0 idx) (ratio0 idx) Hm (dheight d) (dkids d) (dkids nd)
                (Qred (dmod d + dsh d)) (Qred (dmod nd + dsh nd)) 0 N0 N1 Hfuel HSd HSn HR HL) as [_ CS].
    assert (F0 : (Z.of_nat 0 # Pos.of_nat idx) == 0) by reflexivity.
    assert (F1 : (Z.of_nat idx # Pos.of_nat idx) == 1) by (apply frac_one; lia).
    rewrite F0 in Esd. rewrite F1 in Esn.
    assert (EA : off + dmod d + sd == Qred (dmod d + dsh d) + off) by (rewrite Qred_correct, Esd; lra).
    assert (EB : off + dmod nd + sn == Qred (dmod nd + dsh nd) + (off + s)) by (rewrite Qred_correct, Esn; lra).
    destruct (Forall2_In_r _ _ _ _ (lvs_shift off j' (dkids d) _ _ EA) Ha) as [a1 [Ha1 Ea]].
    destruct (Forall2_In_r _ _ _ _ (lvs_shift (off + s) j' (dkids nd) _ _ EB) Hb) as [b1 [Hb1 Eb]].
    specialize (CS j' a1 b1 Ha1 Hb1). lra.
Qed.

Lemma pairP_kids j d e d' e' : dkids d = dkids d' -> dkids e = dkids e' -> pairP j d e -> pairP j d' e'.
Proof.
  intros E1 E2. unfold pairP, dleaf, dflat. rewrite (sk_d_unfold d), (sk_d_unfold e), (sk_d_unfold d'), (sk_d_unfold e').
  rewrite E1, E2. tauto.
Qed.

Definition PairsAll (KL : list (list dtree)) : Prop :=
  forall i k ki kk, (i < k)%nat -> nth_error KL i = Some ki -> nth_error KL k = Some kk ->
                    pairP i (D 0 0 0 ki) (D 0 0 0 kk).

Definition kidsep (m : Q) (d : dtree) : Prop := sepF m (dkids d).

Lemma place_safe ss sts m : 0 <= m -> m <= sts -> forall todo done pend,
  PairsAll (map dkids done ++ todo) ->
  Forall (sepF m) todo -> Forall (kidsep m) done -> ordP (crossA m) done ->
  let r := place ss sts done todo pend in
  Forall (kidsep m) r /\ ordP (crossA m) r.
Proof.
  intros Hm Hsts. induction todo as [|dk rest IH]; intros done pend HPA Htodo Hdone Hcross.
  - cbn [place]. split; assumption.
  - inversion Htodo as [|? ? Hdk Hrest]; subst. cbn [place].
    set (x := match done with
              | [] => match dk with [] => 0 | _ :: _ => midpoint dk end
              | d0 :: _ => Qred (dx (last done d0) + ss)
              end).
    set (md := match done, dk with
               | _ :: _, _ :: _ => Qred (x - midpoint dk)
               | _, _ => 0
               end).
    set (nd := D x md (hd 0 pend) dk).
    assert (Hnd : kidsep m nd) by exact Hdk.
    destruct done as [|d0 done'].
    + apply IH; [exact HPA|exact Hrest|constructor; [exact Hnd|constructor]|]. cbn. split; [constructor|exact I].
    + set (done := d0 :: done') in *. set (idx := length done).
      set (s := max_shift sts nd idx 0 done 0).
      assert (Hs : 0 <= s) by apply max_shift_ge.
      apply IH.
      * rewrite bump_dkids, map_app. cbn [map dkids nd]. rewrite <- app_assoc. exact HPA.
      * exact Hrest.
      * apply bump_Forall; [intros x0 m0 sh sh' ks H; exact H|].
        apply Forall_app. split; [exact Hdone|constructor; [exact Hnd|constructor]].
      * rewrite bump_app. apply ordP_app. split; [apply ordP_bumpA; assumption|].
        cbn [Nat.add]. fold idx. rewrite bump_cons. cbn [bump]. split; [cbn; split; [constructor|exact I]|].
        intros d' e Hd' [<-|[]].
        destruct (bump_In _ _ _ _ _ Hd') as [i [d [Hi ->]]]. cbn [Nat.add].
        assert (Hlt : (i < idx)%nat) by (apply nth_error_Some; rewrite Hi; discriminate).
        assert (Hd : kidsep m d).
        { rewrite Forall_forall in Hdone. apply Hdone. eapply nth_error_In. exact Hi. }
        assert (HP : pairP i d nd).
        { eapply (pairP_kids i (D 0 0 0 (dkids d)) (D 0 0 0 dk)); [reflexivity|reflexivity|].
          apply (HPA i idx); [exact Hlt| |].
          - rewrite nth_error_app1 by (rewrite map_length; exact Hlt). apply map_nth_error. exact Hi.
          - rewrite nth_error_app2 by (rewrite map_length; unfold idx; lia).
            rewrite map_length. fold idx. rewrite Nat.sub_diag. reflexivity. }
        eapply (crossA_new m sts d nd i idx s); try eassumption.
        -- apply (max_shift_each sts nd idx done 0 0 i d Hi).
        -- apply Qred_correct.
        -- apply Qred_correct.
Qed.

Lemma node_pairs_spec : forall l j0, node_pairs j0 l = true ->
  forall i k a b, (i < k)%nat -> nth_error l i = Some a -> nth_error l k = Some b ->
  sleaf a = true \/ sleaf b = true \/ pair_ok (j0 + i) a b = true.
Proof.
  induction l as [|x l IH]; intros j0 H i k a b Hik Ha Hb; [destruct i; discriminate|].
  cbn [node_pairs] in H. apply andb_true_iff in H. destruct H as [H1 H2].
  destruct i as [|i].
  - cbn in Ha. injection Ha as ->. destruct k as [|k]; [lia|]. cbn in Hb.
    apply orb_true_iff in H1. destruct H1 as [H1|H1]; [left; exact H1|]. right.
    rewrite forallb_forall in H1. specialize (H1 b (nth_error_In _ _ Hb)).
    apply orb_true_iff in H1. rewrite Nat.add_0_r. exact H1.
  - destruct k as [|k]; [lia|]. cbn in Ha, Hb.
    replace (j0 + S i)%nat with (S j0 + i)%nat by lia. apply (IH (S j0) H2 i k a b); [lia|exact Ha|exact Hb].
Qed.

Lemma leaves_of_sk ss sts k : forallb sleaf (skids (sk_of k)) = true -> Forall dleaf (fp ss sts k).
Proof.
  intros HG. rewrite forallb_forall in HG. apply Forall_forall. intros d Hd. unfold dleaf.
  assert (Hin : In (sk_d d) (skids (sk_of k))) by (rewrite <- (sk_fp ss sts k); apply in_map, Hd).
  specialize (HG _ Hin). rewrite sleaf_sk_d in HG. destruct (dkids d); [reflexivity|discriminate].
Qed.

Lemma nth_error_map_some {A B} (f : A -> B) : forall l i y, nth_error (map f l) i = Some y ->
  exists x, nth_error l i = Some x /\ f x = y.
Proof.
  induction l as [|a l IH]; intros i y H; [destruct i; discriminate|].
  destruct i as [|i]; cbn in *; [injection H as <-; exists a; auto|apply IH, H].
Qed.

Lemma pairs_of_guard ss sts ks : node_pairs 0 (map sk_of ks) = true -> PairsAll (map (fp ss sts) ks).
Proof.
  intros HG i k ki kk Hik Hi Hk.
  apply nth_error_map_some in Hi. apply nth_error_map_some in Hk.
  destruct Hi as [ti [Hti <-]]. destruct Hk as [tk [Htk <-]].
  destruct (node_pairs_spec _ 0 HG i k (sk_of ti) (sk_of tk) Hik
              (map_nth_error sk_of _ _ Hti) (map_nth_error sk_of _ _ Htk)) as [H|[H|H]].
  - left. unfold dleaf. cbn [dkids]. rewrite (sk_of_fp ss sts ti) in H. cbn [sleaf] in H.
    destruct (fp ss sts ti); [reflexivity|discriminate].
  - right. left. unfold dleaf. cbn [dkids]. rewrite (sk_of_fp ss sts tk) in H. cbn [sleaf] in H.
    destruct (fp ss sts tk); [reflexivity|discriminate].
  - right. right. cbn [Nat.add] in H. unfold pair_ok in H. apply orb_true_iff in H. destruct H as [H|H].
    + left. apply andb_true_iff in H. destruct H as [H1 H2]. unfold dflat. cbn [dkids].
      split; apply leaves_of_sk; assumption.
    + right. apply andb_true_iff in H. destruct H as [H H3]. apply andb_true_iff in H. destruct H as [H1 H2].
      apply Nat.eqb_eq in H1, H2, H3. cbn [sk_d]. rewrite <- (sk_of_fp ss sts ti), <- (sk_of_fp ss sts tk).
      auto.
Qed.

Lemma guard3_unfold l : cguard3_sk (Sk l) = forallb cguard3_sk l && node_pairs 0 l.
Proof. reflexivity. Qed.

Lemma fp_sep3 ss sts m : 0 <= m -> m <= ss -> m <= sts ->
  forall t, cguard3_sk (sk_of t) = true -> sepF m (fp ss sts t).
Proof.
  intros Hm Hss Hsts. induction t as [g n a ks IH] using tree_ind'. intros HG.
  cbn [sk_of] in HG. rewrite guard3_unfold in HG. apply andb_true_iff in HG. destruct HG as [HGk HG].
  rewrite forallb_forall in HGk.
  assert (Skids : Forall (fun k => sepF m (fp ss sts k)) ks).
  { rewrite Forall_forall in IH. apply Forall_forall. intros k Hk. apply (IH k Hk).
    apply HGk. apply in_map. exact Hk. }
  destruct (fp_inv ss sts (T g n a ks)) as [_ [Hcx Hmo]].
  assert (Htodo : Forall (sepF m) (map (fp ss sts) ks)) by (apply Forall_map; exact Skids).
  destruct (place_safe ss sts m Hm Hsts (map (fp ss sts) ks) [] (map (fun _ => 0) ks)
                       (pairs_of_guard ss sts ks HG) Htodo (Forall_nil _) I) as [HF HC].
  change (place ss sts [] (map (fp ss sts) ks) (map (fun _ => 0) ks)) with (fp ss sts (T g n a ks)) in HF, HC.
  set (F := fp ss sts (T g n a ks)) in *.
  intros [|j] off.
  - rewrite lvs0. apply ordP_map. eapply ordP_impl; [|apply (chain_pairs ss ltac:(lra) F Hcx Hmo)].
    intros x y Hxy. unfold gap. cbn beta in Hxy. lra.
  - unfold lvs. apply ordP_flat_map.
    + intros d Hd. rewrite lv_S. rewrite Forall_forall in HF. apply (HF d Hd).
    + eapply ordP_impl; [|exact HC]. intros d e H a0 b0 Ha Hb. apply (H j off a0 b0 Ha Hb).
Qed.

Lemma rt_cousins_safe eps p t : 0 <= eps -> params_pos p -> cousin_safe t = true ->
  cousins_ok eps (p_ss p) (p_sts p) (reingold_tilford p t) = true.
Proof.
  intros He Hp HG. destruct (min_facts p Hp) as [Hm [Hm1 Hm2]].
  unfold cousins_ok. apply forallb_forall. intros k _.
  eapply ordpairs_true; [|apply (rt_cousinsP_sep p t)].
  - intros a b Hab. cbn beta in Hab. apply leq_eps_true; assumption.
  - apply fp_sep3; assumption.
Qed.

Lemma rt_cousins_failure_safe p t : params_pos p ->
  cousins_ok 0 (p_ss p) (p_sts p) (reingold_tilford p t) = false -> cousin_safe t = false.
Proof.
  intros Hp HF. destruct (cousin_safe t) eqn:E; [|reflexivity].
  rewrite (rt_cousins_safe 0 p t) in HF; [discriminate|lra|exact Hp|exact E].
Qed.
