(* C14 — the hyield_tree observation of the get_subtree call path.

   The harness sends every get_subtree case also through hyield_tree(start, node_name_or_path, max_depth,
   style="ansi") (helper.py `_hprinted_names`) and compares with print_tree: the same exception, or the same
   names.  export.py:651: hyield_tree starts with `tree = get_subtree(tree, node_name_or_path, max_depth)`
   (unconditionally) and then lays the block out; so the model of the call is

       hprint_at hst inter bin tsep t st s d  =  get_subtree_at (Algo/Helper.v) ; hyield_rows (Algo/HRender.v)

   Proved here, for Node and BinaryNode trees, any start node, path, depth limit, separator of any positive
   length, every style and both settings of intermediate_node_name:
   - hyield_tree raises exactly when get_subtree raises, and the same exception (the layout never raises);
     hence exactly when print_tree raises, the same exception: the harness's `p.get("err") == h.get("err")`;
   - against the expected outcome of round 2: ValueError iff no node is addressed, SearchError iff several;
   - on success the rows decode, with the text-only decoder of C18, to a tree that matches (h_match) the
     result of get_subtree; for a tree without empty slots the names of the decoded tree, in pre-order, are
     the trimmed names of the result's nodes in pre-order — stronger than the sorted list of names the
     harness compares. *)
From BT Require Import Base.Prelude Base.Str Base.Rose Base.StrSep Algo.Render Algo.HRender Spec.PC18
                       Algo.RenderProofs Corr.RenderCorr Algo.C18More
                       Algo.Helper Spec.PC14 Algo.HelperProofs Algo.C14More Algo.C14More2.

Definition hprint_at (hst : hstyle) (inter : bool) (bin : bool) (tsep : str) (t : tree) (st : pos) (s : str)
           (d : nat) : res (list str) :=
  match get_subtree_at bin tsep t st s d with
  | Raise e => Raise e
  | Ret r => hyield_rows hst inter r
  end.

Definition err_of {A} (m : res A) : option exn := match m with Raise e => Some e | Ret _ => None end.

(* the layout never raises: the exceptions of hyield_tree are those of get_subtree *)
Theorem hprint_error_is_get_subtree hst inter bin tsep t st s d :
  err_of (hprint_at hst inter bin tsep t st s d) = err_of (get_subtree_at bin tsep t st s d).
Proof.
  unfold hprint_at. destruct (get_subtree_at bin tsep t st s d) as [r|e]; [|reflexivity].
  destruct (hyield_rows_spec hst inter r) as [rows [E _]]. rewrite E. reflexivity.
Qed.

(* the harness's comparison of the exceptions of print_tree and hyield_tree *)
Theorem hprint_error_is_print hst inter vst bin tsep t st s d :
  vstyle_ok vst = true ->
  err_of (hprint_at hst inter bin tsep t st s d) = err_of (print_tree_at vst bin tsep t st s d).
Proof.
  intros Hok. rewrite hprint_error_is_get_subtree. unfold print_tree_at.
  destruct (get_subtree_at bin tsep t st s d) as [r|e]; [|reflexivity]. rewrite Hok. reflexivity.
Qed.

(* against the expected outcome of round 2 *)
Theorem hprint_outcome hst inter bin tsep t st s d :
  print_ok bin tsep t st s ->
  match hprint_at hst inter bin tsep t st s d with
  | Raise e => expected_print_outcome bin tsep t st s d = OErr (exn_code e)
  | Ret rows => exists r L, get_subtree_at bin tsep t st s d = Ret r
                            /\ hyield_rows hst inter r = Ret rows
                            /\ h_rows r rows = true
                            /\ expected_print_outcome bin tsep t st s d = OTree L
  end.
Proof.
  intros Hp.
  assert (Hok : vstyle_ok vs_ansi = true) by reflexivity.
  assert (Hd : vstyle_distinct vs_ansi = true) by reflexivity.
  pose proof (print_tree_at_total vs_ansi bin tsep t st s d Hok Hd Hp) as Tot.
  unfold hprint_at, print_tree_at in *.
  destruct (get_subtree_at bin tsep t st s d) as [r|e].
  - destruct (hyield_rows_spec hst inter r) as [rows [E HR]]. rewrite E.
    rewrite Hok in Tot. cbn [print_obs] in Tot.
    exists r, (read_printed vs_ansi (print_lines vs_ansi (print_view bin r))).
    repeat split; [exact E|exact HR|symmetry; exact Tot].
  - cbn [print_obs] in Tot. symmetry. exact Tot.
Qed.

(* on success the rows decode back to the result of get_subtree *)
Theorem hprint_decodes hst inter bin tsep t st s d r :
  hglyphs_distinct (glyphs_of hst) = true ->
  get_subtree_at bin tsep t st s d = Ret r -> names_rstripped r = true ->
  exists rows dec,
    hprint_at hst inter bin tsep t st s d = Ret rows
    /\ h_decode (glyphs_of hst) inter (band_widths inter r) None rows = Some dec
    /\ h_match inter dec r = true.
Proof.
  intros Hg E Hn. unfold hprint_at. rewrite E. apply (hroundtrip_all hst inter r Hg Hn).
Qed.

(* ---- names of a matching tree ---- *)

Definition hole_free (t : tree) : bool := forallb (fun x => negb (Render.is_hole x)) (pre t).

Lemma hole_free_kids g n a ks :
  hole_free (T g n a ks) = true -> Forall (fun k => hole_free k = true) ks.
Proof.
  unfold hole_free. cbn [pre forallb]. intros H. apply andb_true_iff in H as [_ H].
  induction ks as [|k ks IH]; [constructor|].
  cbn [flat_map] in H. rewrite forallb_app in H. apply andb_true_iff in H as [H1 H2].
  constructor; [exact H1|exact (IH H2)].
Qed.

Lemma str_eqb_true a b : str_eqb a b = true -> a = b.
Proof. intros H. apply str_eqb_eq. exact H. Qed.

(* with intermediate node names: a tree that matches a tree without empty slots carries, in pre-order,
   the trimmed names of its nodes *)
Theorem h_match_names t : forall dec,
  hole_free t = true -> h_match true dec t = true ->
  map tname (pre dec) = map (fun x => trim (tname x)) (pre t).
Proof.
  induction t as [g n a ks IH] using tree_ind'. intros [dg dn da dks] Hf Hm.
  pose proof (hole_free_kids g n a ks Hf) as Hk.
  assert (Hh : Render.is_hole (T g n a ks) = false).
  { unfold hole_free in Hf. cbn [pre forallb] in Hf. apply andb_true_iff in Hf as [Hf _].
    apply negb_true_iff in Hf. exact Hf. }
  cbn [h_match] in Hm. rewrite Hh in Hm.
  cbn [pre map tname].
  destruct (negb (existsb (fun k => negb (Render.is_hole k)) ks)) eqn:Ex.
  - apply andb_true_iff in Hm as [Hn Hd]. destruct dks; [|discriminate Hd].
    assert (ks = []) as ->.
    { destruct ks as [|k ks]; [reflexivity|]. exfalso.
      apply negb_true_iff in Ex. cbn [existsb] in Ex. apply orb_false_iff in Ex as [Ex _].
      apply negb_false_iff in Ex. inversion Hk as [|? ? Hk1 _]. subst.
      unfold hole_free in Hk1. destruct k as [kg kn ka kks]. cbn [pre forallb] in Hk1.
      apply andb_true_iff in Hk1 as [Hk1 _]. rewrite Ex in Hk1. discriminate Hk1. }
    cbn [flat_map map]. f_equal. apply str_eqb_true. exact Hn.
  - apply andb_true_iff in Hm as [Hn Hgo]. f_equal; [apply str_eqb_true; exact Hn|].
    clear Ex Hn Hf Hh. revert dks Hgo.
    induction ks as [|k ks IHks]; intros dks Hgo.
    + destruct dks; [reflexivity|discriminate Hgo].
    + destruct dks as [|x dks]; [discriminate Hgo|].
      apply andb_true_iff in Hgo as [Hx Hgo].
      inversion IH as [|? ? IH1 IH2]. inversion Hk as [|? ? Hk1 Hk2]. subst.
      cbn [flat_map]. rewrite !map_app. f_equal.
      * apply IH1; assumption.
      * apply IHks; assumption.
Qed.

(* the names hyield_tree shows for a Node tree = the (trimmed) names of get_subtree's result, pre-order *)
Theorem hprint_names hst bin tsep t st s d r :
  hglyphs_distinct (glyphs_of hst) = true ->
  get_subtree_at bin tsep t st s d = Ret r -> names_rstripped r = true -> hole_free r = true ->
  exists rows dec,
    hprint_at hst true bin tsep t st s d = Ret rows
    /\ h_decode (glyphs_of hst) true (band_widths true r) None rows = Some dec
    /\ map tname (pre dec) = map (fun x => trim (tname x)) (pre r).
Proof.
  intros Hg E Hn Hf.
  destruct (hprint_decodes hst true bin tsep t st s d r Hg E Hn) as [rows [dec [E1 [E2 Hm]]]].
  exists rows, dec. repeat split; [exact E1|exact E2|]. apply h_match_names; assumption.
Qed.
