(* Proofs about the model of bigtree/tree/search.py (Algo/Search.v) against the specification
   Spec/PC09.v.  Plan:
     1. preorder_iter is a filter of the located pre-order list            (findall_exact)
     2. located nodes <-> positions of the whole tree                        (bridge)
     3. string lemmas: suffix, single-character strip, split/join            (strings)
     4. the count contracts                                                  (single / multi)
     5. find_full_path                                                       (full_path)
     6. find_relative_paths: depth-first recursion = frontier semantics      (relative)
     7. the model satisfies prop_C09                                         (main)          *)
From BT Require Import Base.Prelude Base.Str Base.StrSep Base.Rose Algo.Search Spec.PC09.

(* ------------------------------------------------------------------------------------------- *)
(* generic list facts *)

Lemma filter_none {A} (f : A -> bool) (l : list A) :
  (forall x, In x l -> f x = false) -> filter f l = [].
Proof.
  induction l as [|x l IH]; intros H; [reflexivity|]. cbn [filter].
  rewrite (H x (or_introl eq_refl)). apply IH. intros y Hy. apply H. right. exact Hy.
Qed.

Lemma filter_flat_map {A B} (f : B -> bool) (g : A -> list B) (l : list A) :
  filter f (flat_map g l) = flat_map (fun a => filter f (g a)) l.
Proof.
  induction l as [|x l IH]; [reflexivity|]. cbn [flat_map]. rewrite filter_app, IH. reflexivity.
Qed.

Lemma flat_map_ext_Forall {A B} (f g : A -> list B) (l : list A) :
  Forall (fun a => f a = g a) l -> flat_map f l = flat_map g l.
Proof.
  induction 1 as [|x l Hx Hl IH]; [reflexivity|]. cbn [flat_map]. rewrite Hx, IH. reflexivity.
Qed.

(* two lists related through a partial map: g sends the elements of l to the elements of m *)
Lemma filter_corr {A B} (g : A -> option B) (f : A -> bool) (h : B -> bool) (l : list A) (m : list B) :
  map g l = map Some m ->
  (forall a b, g a = Some b -> f a = h b) ->
  map g (filter f l) = map Some (filter h m).
Proof.
  revert m; induction l as [|a l IH]; intros [|b m] E Hfh; try discriminate; [reflexivity|].
  cbn [map] in E. injection E as Eab E. cbn [filter]. rewrite (Hfh a b Eab).
  destruct (h b); cbn [map]; [rewrite Eab; f_equal|]; apply IH; assumption.
Qed.

Lemma map_corr {A B C} (g : A -> option B) (f : A -> C) (h : B -> C) (l : list A) (m : list B) :
  map g l = map Some m ->
  (forall a b, g a = Some b -> f a = h b) ->
  map f l = map h m.
Proof.
  revert m; induction l as [|a l IH]; intros [|b m] E Hfh; try discriminate; [reflexivity|].
  cbn [map] in E. injection E as Eab E. cbn [map]. rewrite (Hfh a b Eab). f_equal. apply IH; assumption.
Qed.

Lemma map_Some_length {A B} (g : A -> option B) (l : list A) (m : list B) :
  map g l = map Some m -> length l = length m.
Proof. intros E. apply (f_equal (@length _)) in E. rewrite !map_length in E. exact E. Qed.

Lemma bool_iff_eq (a b : bool) : (a = true <-> b = true) -> a = b.
Proof. destruct a, b; intros [H1 H2]; try reflexivity; [symmetry; apply H1|apply H2]; reflexivity. Qed.

(* ------------------------------------------------------------------------------------------- *)
(* 1. preorder_iter = filter over the located pre-order list *)

Fixpoint pre_l (up : list tree) (t : tree) : list lnode :=
  match t with T _ _ _ ks => LN up t :: flat_map (pre_l (t :: up)) ks end.

(* `not max_depth or not depth > max_depth` *)
Definition depth_ok (md : nat) (n : lnode) : bool := Nat.eqb md 0 || negb (Nat.ltb md (ln_depth n)).

Lemma pre_l_depth up t n : In n (pre_l up t) -> length up <= length (ln_up n).
Proof.
  revert up; induction t as [g nm a ks IH] using tree_ind'; intros up Hin.
  cbn [pre_l] in Hin. destruct Hin as [<-|Hin]; [cbn; lia|].
  apply in_flat_map in Hin as [k [Hk Hn]].
  rewrite Forall_forall in IH. specialize (IH k Hk (T g nm a ks :: up) Hn). cbn [length] in IH. lia.
Qed.

Lemma preorder_iter_filter filt md up t :
  preorder_iter filt md up t = filter (fun n => depth_ok md n && filt n) (pre_l up t).
Proof.
  revert up; induction t as [g nm a ks IH] using tree_ind'; intros up.
  cbn [preorder_iter].
  destruct (Nat.eqb md 0 || negb (Nat.ltb md (S (length up)))) eqn:Hd.
  - cbn [pre_l filter]. unfold depth_ok at 1, ln_depth at 1. cbn [ln_up]. rewrite Hd. cbn [andb].
    assert (Hrest : flat_map (preorder_iter filt md (T g nm a ks :: up)) ks
                    = filter (fun n => depth_ok md n && filt n) (flat_map (pre_l (T g nm a ks :: up)) ks)).
    { rewrite filter_flat_map. apply flat_map_ext_Forall.
      eapply Forall_impl; [|exact IH]. intros k Hk. apply Hk. }
    rewrite Hrest. destruct (filt (LN up (T g nm a ks))); reflexivity.
  - symmetry. apply filter_none. intros n Hin. apply pre_l_depth in Hin.
    unfold depth_ok, ln_depth. apply orb_false_iff in Hd as [Hz Hlt]. rewrite Hz. cbn [orb].
    apply negb_false_iff in Hlt. apply Nat.ltb_lt in Hlt.
    assert (Nat.ltb md (S (length (ln_up n))) = true) as -> by (apply Nat.ltb_lt; lia). reflexivity.
Qed.

(* ------------------------------------------------------------------------------------------- *)
(* 2. located nodes and positions *)

Fixpoint positions_from (i : nat) (l : list tree) : list pos :=
  match l with
  | [] => []
  | k :: r => map (cons i) (positions k) ++ positions_from (S i) r
  end.

Lemma positions_unfold g nm a ks : positions (T g nm a ks) = [] :: positions_from 0 ks.
Proof.
  reflexivity.
Qed.

Lemma descend_app n q r :
  descend n (q ++ r) = match descend n q with Some m => descend m r | None => None end.
Proof.
  revert n; induction q as [|i q IH]; intros n; [reflexivity|]. cbn [app descend].
  destruct (nth_error (ln_children n) i); [apply IH|reflexivity].
Qed.

Lemma nth_error_children up t i :
  nth_error (ln_children (LN up t)) i = option_map (LN (t :: up)) (nth_error (tkids t) i).
Proof. unfold ln_children. cbn [ln_tree ln_up]. apply nth_error_map. Qed.

Lemma descend_child up t i k q :
  nth_error (tkids t) i = Some k -> descend (LN up t) (i :: q) = descend (LN (t :: up) k) q.
Proof. intros H. cbn [descend]. rewrite nth_error_children, H. reflexivity. Qed.

(* the positions of t, read as routes from the located node, enumerate the located pre-order *)
Lemma positions_descend up t : map (descend (LN up t)) (positions t) = map Some (pre_l up t).
Proof.
  revert up; induction t as [g nm a ks IH] using tree_ind'; intros up.
  rewrite positions_unfold. cbn [map pre_l descend]. f_equal.
  set (t := T g nm a ks).
  assert (G : forall pre rest i, ks = pre ++ rest -> i = length pre ->
              map (descend (LN up t)) (positions_from i rest)
              = map Some (flat_map (pre_l (t :: up)) rest)).
  { intros pre rest; revert pre; induction rest as [|k rest IHr]; intros pre i Eks Ei; [reflexivity|].
    cbn [positions_from flat_map]. rewrite !map_app. f_equal.
    - rewrite map_map.
      assert (Hk : nth_error (tkids t) i = Some k).
      { subst t i. cbn [tkids]. rewrite Eks, nth_error_app2, Nat.sub_diag by lia. reflexivity. }
      rewrite (map_ext _ (descend (LN (t :: up) k))) by (intros q; apply descend_child; exact Hk).
      rewrite Forall_forall in IH. apply IH. rewrite Eks. apply in_or_app. right. left. reflexivity.
    - apply (IHr (pre ++ [k])); [rewrite <- app_assoc; exact Eks|rewrite app_length; cbn; lia]. }
  apply (G [] ks 0); reflexivity.
Qed.

(* what a route tells about the node it reaches *)
Lemma descend_facts n q m :
  descend n q = Some m ->
  subtree_at (ln_tree n) q = Some (ln_tree m)
  /\ length (ln_up m) = length (ln_up n) + length q
  /\ ln_names m = rev (map tname (ln_up n)) ++ names_from (ln_tree n) q.
Proof.
  revert n; induction q as [|i q IH]; intros [up t] H.
  - cbn in H. injection H as <-. cbn [subtree_at ln_tree ln_up length names_from].
    split; [reflexivity|split; [lia|reflexivity]].
  - cbn [descend] in H. rewrite nth_error_children in H.
    cbn [subtree_at ln_tree ln_up names_from].
    destruct (nth_error (tkids t) i) as [k|] eqn:Ek; [|discriminate]. cbn [option_map] in H.
    destruct (IH _ H) as [H1 [H2 H3]]. cbn [ln_tree ln_up length map rev] in H1, H2, H3.
    split; [exact H1|split; [cbn [length]; lia|]]. rewrite H3, <- app_assoc. reflexivity.
Qed.

Lemma locate_facts w q m :
  locate w q = Some m ->
  subtree_at w q = Some (ln_tree m) /\ length (ln_up m) = length q /\ ln_names m = names_from w q.
Proof. intros H. apply descend_facts in H. cbn in H. exact H. Qed.

Lemma locate_app w p q :
  locate w (p ++ q) = match locate w p with Some s => descend s q | None => None end.
Proof. apply descend_app. Qed.

(* the positions under p are exactly the located pre-order of the start node *)
Lemma under_located w p s :
  locate w p = Some s ->
  map (locate w) (under w p) = map Some (pre_l (ln_up s) (ln_tree s)).
Proof.
  intros H. unfold under. destruct (locate_facts _ _ _ H) as [Hs _]. rewrite Hs.
  rewrite map_map. rewrite (map_ext _ (descend s)).
  - destruct s as [up t]. apply positions_descend.
  - intros q. rewrite locate_app, H. reflexivity.
Qed.

Lemma children_located w q n :
  locate w q = Some n -> map (locate w) (children_of w q) = map Some (ln_children n).
Proof.
  intros H. unfold children_of. destruct (locate_facts _ _ _ H) as [Hs _]. rewrite Hs.
  rewrite map_map. destruct n as [up t]. cbn [ln_tree]. unfold ln_children. cbn [ln_tree ln_up].
  rewrite (map_ext _ (fun i => option_map (LN (t :: up)) (nth_error (tkids t) i))).
  - generalize (tkids t). intros ks. clear.
    assert (G : forall pre rest, map (fun i => option_map (LN (t :: up)) (nth_error (pre ++ rest) i))
                                     (seq (length pre) (length rest))
                                 = map Some (map (LN (t :: up)) rest)).
    { intros pre rest; revert pre; induction rest as [|k rest IH]; intros pre; [reflexivity|].
      cbn [length seq map]. f_equal.
      - rewrite nth_error_app2, Nat.sub_diag by lia. reflexivity.
      - specialize (IH (pre ++ [k])). rewrite <- app_assoc, app_length in IH. cbn in IH.
        rewrite Nat.add_1_r in IH. exact IH. }
    apply (G [] ks).
  - intros i. rewrite locate_app, H. cbn [descend]. rewrite nth_error_children.
    destruct (nth_error (tkids t) i); reflexivity.
Qed.

(* reading the spec's accessors through a located node *)
Lemma tag_at_located w q n : locate w q = Some n -> tag_at w q = ln_tag n.
Proof. intros H. unfold tag_at. destruct (locate_facts _ _ _ H) as [-> _]. reflexivity. Qed.
Lemma name_at_located w q n : locate w q = Some n -> name_at w q = ln_name n.
Proof. intros H. unfold name_at. destruct (locate_facts _ _ _ H) as [-> _]. reflexivity. Qed.
Lemma attrs_at_located w q n : locate w q = Some n -> attrs_at w q = tattrs (ln_tree n).
Proof. intros H. unfold attrs_at. destruct (locate_facts _ _ _ H) as [-> _]. reflexivity. Qed.
Lemma path_of_located w sep q n : locate w q = Some n -> path_of w sep q = ln_path_name sep n.
Proof.
  intros H. unfold path_of, ln_path_name, names_to. destruct (locate_facts _ _ _ H) as [_ [_ ->]].
  reflexivity.
Qed.
Lemma within_located w md q n : locate w q = Some n -> within md q = depth_ok md n.
Proof.
  intros H. unfold within, depth_ok, depth_of, ln_depth. destruct (locate_facts _ _ _ H) as [_ [-> _]].
  f_equal. destruct (Nat.leb (S (length q)) md) eqn:E1, (Nat.ltb md (S (length q))) eqn:E2; try reflexivity.
  - apply Nat.leb_le in E1. apply Nat.ltb_lt in E2. lia.
  - apply Nat.leb_gt in E1. apply Nat.ltb_ge in E2. lia.
Qed.

(* searching the subtree: the spec's `matches` is the model's preorder_iter, node for node *)
Lemma matches_located w md p s (cond : pos -> bool) (filt : lnode -> bool) :
  locate w p = Some s ->
  (forall q n, locate w q = Some n -> cond q = filt n) ->
  map (locate w) (matches w cond md p)
  = map Some (preorder_iter filt md (ln_up s) (ln_tree s)).
Proof.
  intros H Hc. unfold matches. rewrite preorder_iter_filter.
  apply filter_corr; [apply under_located; exact H|].
  intros q n Hq. rewrite (within_located _ _ _ _ Hq), (Hc _ _ Hq). reflexivity.
Qed.

Lemma child_matches_located w p s (cond : pos -> bool) (filt : lnode -> bool) :
  locate w p = Some s ->
  (forall q n, locate w q = Some n -> cond q = filt n) ->
  map (locate w) (child_matches w cond p) = map Some (filter filt (ln_children s)).
Proof.
  intros H Hc. unfold child_matches. apply filter_corr; [apply children_located; exact H|exact Hc].
Qed.

Lemma tags_located w (L : list pos) (M : list lnode) :
  map (locate w) L = map Some M -> map (tag_at w) L = map otag (map Some M).
Proof.
  intros E. rewrite map_map. cbn [otag]. eapply map_corr; [exact E|].
  intros q n Hq. apply tag_at_located. exact Hq.
Qed.

(* ------------------------------------------------------------------------------------------- *)
(* 3. strings *)

Lemma startswith_iff s p : startswith s p = true <-> exists r, s = p ++ r.
Proof.
  split; [apply startswith_prefix|]. intros [r ->]. apply startswith_app.
Qed.

Lemma skipn_length_app {A} (a b : list A) : skipn (length a) (a ++ b) = b.
Proof. induction a as [|x a IH]; [reflexivity|exact IH]. Qed.
Lemma firstn_length_app {A} (a b : list A) : firstn (length a) (a ++ b) = a.
Proof. induction a as [|x a IH]; [reflexivity|]. cbn. rewrite IH. reflexivity. Qed.

Lemma is_suffix_iff s x : is_suffix s x = true <-> exists a, s = a ++ x.
Proof.
  unfold is_suffix. rewrite existsb_exists. split.
  - intros [k [_ Hk]]. apply str_eqb_eq in Hk. exists (firstn k s). rewrite <- Hk. symmetry. apply firstn_skipn.
  - intros [a ->]. exists (length a). split.
    + apply in_seq. rewrite app_length. lia.
    + rewrite skipn_length_app. apply str_eqb_refl.
Qed.

Lemma endswith_iff s x : endswith s x = true <-> exists a, s = a ++ x.
Proof.
  unfold endswith. rewrite startswith_iff. split.
  - intros [r H]. exists (rev r). apply (f_equal (@rev _)) in H. rewrite rev_involutive, rev_app_distr, rev_involutive in H. exact H.
  - intros [a ->]. exists (rev a). apply rev_app_distr.
Qed.

Lemma is_suffix_endswith s x : is_suffix s x = endswith s x.
Proof. apply bool_iff_eq. rewrite is_suffix_iff, endswith_iff. reflexivity. Qed.

Lemma is_prefix_startswith s p : is_prefix s p = startswith s p.
Proof.
  apply bool_iff_eq. unfold is_prefix. rewrite str_eqb_eq, startswith_iff. split.
  - intros H. exists (skipn (length p) s). rewrite <- H at 1. symmetry. apply firstn_skipn.
  - intros [r ->]. apply firstn_length_app.
Qed.

(* with a one-character separator, stripping the character set is stripping the separator *)
Section OneChar.
  Variable c : N.

  Lemma lstrip_cons y t : lstrip (y :: t) [c] = if N.eqb y c then lstrip t [c] else y :: t.
  Proof. cbn [lstrip memN existsb]. rewrite orb_false_r. reflexivity. Qed.

  Lemma drop_leading_lstrip fuel s : length s <= fuel -> drop_leading [c] fuel s = lstrip s [c].
  Proof.
    revert s; induction fuel as [|f IH]; intros s Hl.
    - destruct s; [reflexivity|cbn in Hl; lia].
    - cbn [drop_leading]. rewrite is_prefix_startswith. destruct s as [|y t]; [reflexivity|].
      rewrite lstrip_cons. cbn [startswith length skipn]. rewrite andb_true_r, N.eqb_sym.
      destruct (N.eqb y c); [|reflexivity]. apply IH. cbn in Hl. lia.
  Qed.

  Lemma is_suffix_snoc r y : is_suffix (r ++ [y]) [c] = N.eqb y c.
  Proof.
    apply bool_iff_eq. rewrite is_suffix_iff, N.eqb_eq. split.
    - intros [a H]. apply app_inj_tail in H as [_ H]. exact H.
    - intros ->. exists r. reflexivity.
  Qed.

  Lemma drop_trailing_rstrip fuel s : length s <= fuel -> drop_trailing [c] fuel s = rstrip s [c].
  Proof.
    unfold rstrip. revert s; induction fuel as [|f IH]; intros s Hl.
    - destruct s; [reflexivity|cbn in Hl; lia].
    - cbn [drop_trailing]. destruct (rev s) as [|y r] eqn:E.
      + apply (f_equal (@rev _)) in E. rewrite rev_involutive in E. subst s. reflexivity.
      + apply (f_equal (@rev _)) in E. rewrite rev_involutive in E. cbn [rev] in E. subst s.
        rewrite is_suffix_snoc, lstrip_cons. destruct (N.eqb y c).
        * rewrite app_length. cbn [length]. replace (length (rev r) + 1 - 1) with (length (rev r)) by lia.
          rewrite firstn_length_app. rewrite IH; [rewrite rev_involutive; reflexivity|].
          rewrite app_length in Hl. cbn in Hl. lia.
        * reflexivity.
  Qed.

  Lemma trim_right_rstrip s : trim_right [c] s = rstrip s [c].
  Proof. apply drop_trailing_rstrip. lia. Qed.

  Lemma trim_strip s : trim [c] s = lstrip (rstrip s [c]) [c].
  Proof. unfold trim. rewrite trim_right_rstrip. apply drop_leading_lstrip. lia. Qed.

  (* split / join *)
  Lemma startswith_one y t : startswith (y :: t) [c] = N.eqb c y.
  Proof. cbn [startswith]. apply andb_true_r. Qed.

  Definition cfree (x : str) : Prop := ~ In c x.

  Lemma split_go_word fuel cur x :
    cfree x -> length x <= fuel -> split_go fuel [c] cur x = [rev cur ++ x].
  Proof.
    revert cur x; induction fuel as [|f IH]; intros cur x Hx Hl.
    - destruct x; [rewrite app_nil_r; reflexivity|cbn in Hl; lia].
    - destruct x as [|y t]; [rewrite app_nil_r; reflexivity|].
      cbn [split_go]. rewrite startswith_one.
      destruct (N.eqb c y) eqn:E; [apply N.eqb_eq in E; subst y; exfalso; apply Hx; left; reflexivity|].
      rewrite IH; [cbn [rev]; rewrite <- app_assoc; reflexivity| |cbn in Hl; lia].
      intros Hin. apply Hx. right. exact Hin.
  Qed.

  Lemma split_go_word_sep fuel cur x rest :
    cfree x -> length x + 1 + length rest <= fuel ->
    split_go fuel [c] cur (x ++ c :: rest) = (rev cur ++ x) :: split_go (fuel - length x - 1) [c] [] rest.
  Proof.
    revert cur x; induction fuel as [|f IH]; intros cur x Hx Hl; [lia|].
    destruct x as [|y t].
    - cbn [app split_go]. rewrite startswith_one, N.eqb_refl. cbn [length skipn].
      rewrite app_nil_r. replace (S f - 0 - 1) with f by lia. reflexivity.
    - cbn [app split_go]. rewrite startswith_one.
      destruct (N.eqb c y) eqn:E; [apply N.eqb_eq in E; subst y; exfalso; apply Hx; left; reflexivity|].
      rewrite IH; [cbn [rev length]; rewrite <- app_assoc; reflexivity| |cbn in Hl; lia].
      intros Hin. apply Hx. right. exact Hin.
  Qed.

  (* split_go does not depend on surplus fuel *)
  Lemma split_go_fuel f1 f2 cur s :
    length s <= f1 -> length s <= f2 -> split_go f1 [c] cur s = split_go f2 [c] cur s.
  Proof.
    revert f2 cur s; induction f1 as [|f1 IH]; intros f2 cur s H1 H2.
    - destruct s; [|cbn in H1; lia]. destruct f2; reflexivity.
    - destruct f2 as [|f2]; [destruct s; [reflexivity|cbn in H2; lia]|].
      destruct s as [|y t]; [reflexivity|]. cbn [split_go]. rewrite startswith_one.
      cbn in H1, H2. destruct (N.eqb c y); [cbn [length skipn]; f_equal|]; apply IH; lia.
  Qed.

  Lemma length_join_ge x l : length x <= length (join [c] (x :: l)).
  Proof. destruct l; cbn [join]; [lia|]. rewrite app_length. lia. Qed.

  (* split inverts join on separator-free words *)
  Lemma split_join (names : list str) :
    names <> [] -> Forall cfree names -> split (join [c] names) [c] = names.
  Proof.
    intros Hne Hall. unfold split.
    assert (G : forall fuel, length (join [c] names) <= fuel -> split_go fuel [c] [] (join [c] names) = names).
    { induction Hall as [|x l Hx Hl IH]; intros fuel Hf; [congruence|].
      destruct l as [|y l].
      - cbn [join] in *. rewrite split_go_word by assumption. reflexivity.
      - rewrite join_cons in *. cbn [app] in *. rewrite split_go_word_sep; [|exact Hx|].
        + cbn [rev app]. f_equal. apply IH; [discriminate|].
          rewrite !app_length in Hf. cbn [length] in Hf. lia.
        + rewrite !app_length in Hf. cbn [length] in Hf. lia. }
    apply G. lia.
  Qed.
End OneChar.

(* join inverts split, for every non-empty separator *)
Lemma split_go_nonempty fuel sp cur s : split_go fuel sp cur s <> [].
Proof.
  revert cur s; induction fuel as [|f IH]; intros cur s; [discriminate|].
  cbn [split_go]. destruct s; [discriminate|]. destruct (startswith _ sp); [discriminate|apply IH].
Qed.

Lemma join_cons_ne sp x l : l <> [] -> join sp (x :: l) = x ++ sp ++ join sp l.
Proof. destruct l; [congruence|reflexivity]. Qed.

Lemma join_split_go fuel sp cur s :
  sp <> [] -> length s <= fuel -> join sp (split_go fuel sp cur s) = rev cur ++ s.
Proof.
  intros Hsp. revert cur s; induction fuel as [|f IH]; intros cur s Hl.
  - destruct s; [cbn; rewrite app_nil_r; reflexivity|cbn in Hl; lia].
  - destruct s as [|y t]; [cbn; rewrite app_nil_r; reflexivity|]. cbn [split_go].
    destruct (startswith (y :: t) sp) eqn:E.
    + rewrite join_cons_ne by apply split_go_nonempty.
      apply startswith_prefix in E as [r E].
      assert (Hr : skipn (length sp) (y :: t) = r) by (rewrite E; apply skipn_length_app).
      rewrite Hr, IH.
      * cbn [rev app]. rewrite E. reflexivity.
      * apply (f_equal (@length _)) in E. rewrite app_length in E. cbn [length] in E, Hl.
        destruct sp; [congruence|]. cbn [length] in E. lia.
    + rewrite IH by (cbn in Hl; lia). cbn [rev]. rewrite <- app_assoc. reflexivity.
Qed.

Lemma join_split s sp : sp <> [] -> join sp (split s sp) = s.
Proof.
  intros Hsp. unfold split. destruct sp as [|a sp]; [congruence|].
  rewrite join_split_go; [reflexivity|discriminate|lia].
Qed.

Lemma contains_one s x : contains s [x] = memN x s.
Proof.
  induction s as [|y t IH]; [reflexivity|]. cbn [contains memN existsb startswith].
  rewrite andb_true_r, IH. reflexivity.
Qed.

(* separators of any positive length: when does stripping the character set (what bigtree does)
   coincide with removing whole separators (what a path means)?  Exactly when the string that is
   left neither ends nor starts with a character of the separator. *)
Definition starts_ok (sep s : str) : bool :=
  match s with [] => true | y :: _ => negb (memN y sep) end.
Definition ends_ok (sep s : str) : bool := starts_ok sep (rev s).
(* the query, with whole trailing / leading separators removed, has no stray separator character at
   its end / start *)
Definition clean (sep path : str) : bool :=
  ends_ok sep (trim_right sep path) && starts_ok sep (trim sep path).

Lemma drop_trailing_decomp sep fuel : forall s,
  exists t, s = drop_trailing sep fuel s ++ t /\ (forall ch, In ch t -> In ch sep).
Proof.
  induction fuel as [|f IH]; intros s; [exists []; split; [symmetry; apply app_nil_r|intros ch []]|].
  cbn [drop_trailing]. destruct sep as [|a sp'] eqn:Es; [exists []; split; [symmetry; apply app_nil_r|intros ch []]|].
  rewrite <- Es in *. destruct (is_suffix s sep) eqn:E; [|exists []; split; [symmetry; apply app_nil_r|intros ch []]].
  apply is_suffix_iff in E as [x ->]. rewrite app_length, Nat.add_sub, firstn_length_app.
  destruct (IH x) as [t [Hx Ht]]. exists (t ++ sep). split.
  - rewrite app_assoc, <- Hx. reflexivity.
  - intros ch Hin. apply in_app_or in Hin as [Hin|Hin]; [apply Ht; exact Hin|exact Hin].
Qed.

Lemma drop_leading_decomp sep fuel : forall s,
  exists h, s = h ++ drop_leading sep fuel s /\ (forall ch, In ch h -> In ch sep).
Proof.
  induction fuel as [|f IH]; intros s; [exists []; split; [reflexivity|intros ch []]|].
  cbn [drop_leading]. destruct sep as [|a sp'] eqn:Es; [exists []; split; [reflexivity|intros ch []]|].
  rewrite <- Es in *. rewrite is_prefix_startswith. destruct (startswith s sep) eqn:E; [|exists []; split; [reflexivity|intros ch []]].
  apply startswith_prefix in E as [r ->]. rewrite skipn_length_app.
  destruct (IH r) as [h [Hr Hh]]. exists (sep ++ h). split.
  - rewrite <- app_assoc, <- Hr. reflexivity.
  - intros ch Hin. apply in_app_or in Hin as [Hin|Hin]; [exact Hin|apply Hh; exact Hin].
Qed.

Lemma lstrip_starts_ok sep s : starts_ok sep s = true -> lstrip s sep = s.
Proof.
  destruct s as [|y t]; [reflexivity|]. cbn [starts_ok lstrip]. intros H.
  apply negb_true_iff in H. rewrite H. reflexivity.
Qed.

Lemma rstrip_clean sep path :
  ends_ok sep (trim_right sep path) = true -> rstrip path sep = trim_right sep path.
Proof.
  unfold trim_right, ends_ok. intros H.
  destruct (drop_trailing_decomp sep (length path) path) as [t [E Ht]].
  set (P := drop_trailing sep (length path) path) in *. rewrite E at 1.
  unfold rstrip. rewrite rev_app_distr, lstrip_all.
  - rewrite lstrip_starts_ok by exact H. apply rev_involutive.
  - intros ch Hin. apply Ht. apply in_rev. exact Hin.
Qed.

Lemma strip_clean sep path :
  clean sep path = true -> lstrip (rstrip path sep) sep = trim sep path.
Proof.
  unfold clean. intros H. apply andb_true_iff in H as [H1 H2].
  rewrite (rstrip_clean _ _ H1). unfold trim in *.
  destruct (drop_leading_decomp sep (length (trim_right sep path)) (trim_right sep path)) as [h [E Hh]].
  rewrite E at 1. rewrite lstrip_all by exact Hh. apply lstrip_starts_ok. exact H2.
Qed.

(* ------------------------------------------------------------------------------------------- *)
(* 4. the result-count contracts *)

Definition with_count {A} (l : list A) (mn mx : nat) : res (list A) :=
  match check_result_count l mn mx with Raise e => Raise e | Ret _ => Ret l end.
Definition single_of {A} (r : res (list A)) : res (option A) :=
  match r with Raise e => Raise e | Ret l => Ret (first_or_none l) end.

Lemma findall_unfold filt n md mn mx :
  findall filt n md mn mx = with_count (preorder_iter filt md (ln_up n) (ln_tree n)) mn mx.
Proof. reflexivity. Qed.
Lemma find_unfold filt n md :
  find filt n md = single_of (with_count (preorder_iter filt md (ln_up n) (ln_tree n)) 0 1).
Proof. reflexivity. Qed.
Lemma find_children_unfold cond n mn mx :
  find_children cond n mn mx = with_count (filter cond (ln_children n)) mn mx.
Proof. reflexivity. Qed.
Lemma find_child_unfold cond n :
  find_child cond n = single_of (with_count (filter cond (ln_children n)) 0 1).
Proof. reflexivity. Qed.

Lemma with_count_spec {A} (l : list A) mn mx :
  (count_violated (length l) mn mx = true /\ with_count l mn mx = Raise SearchError)
  \/ (count_violated (length l) mn mx = false /\ with_count l mn mx = Ret l).
Proof.
  unfold with_count, check_result_count, count_violated.
  destruct (negb (Nat.eqb mn 0) && Nat.ltb (length l) mn); [left; split; reflexivity|].
  destruct (negb (Nat.eqb mx 0) && Nat.ltb mx (length l)); [left|right]; split; reflexivity.
Qed.

Lemma onat_eqb_refl x : onat_eqb x x = true.
Proof. destruct x; [apply Nat.eqb_refl|reflexivity]. Qed.
Lemma sobs_eqb_refl o : sobs_eqb o o = true.
Proof.
  destruct o as [l|x|c]; cbn [sobs_eqb]; [|apply onat_eqb_refl|apply Nat.eqb_refl].
  induction l as [|x l IH]; [reflexivity|]. cbn [list_eqb]. rewrite onat_eqb_refl, IH. reflexivity.
Qed.

(* all matches in order, or SearchError exactly when a bound is violated *)
Lemma multi_ok w (L : list pos) (M : list lnode) mn mx :
  map (locate w) L = map Some M ->
  expect_multi w L mn mx (obs_of (many (with_count M mn mx))) = true.
Proof.
  intros E. unfold expect_multi. rewrite (map_Some_length _ _ _ E).
  destruct (with_count_spec M mn mx) as [[-> ->]|[-> ->]]; [reflexivity|].
  cbn [many obs_of]. rewrite (tags_located _ _ _ E). apply sobs_eqb_refl.
Qed.

(* that node when exactly one matches, None when none does, SearchError when several do *)
Lemma single_ok w (L : list pos) (M : list lnode) :
  map (locate w) L = map Some M ->
  expect_single w L (obs_of (one (single_of (with_count M 0 1)))) = true.
Proof.
  intros E. pose proof (tags_located _ _ _ E) as Ht.
  destruct L as [|q [|q' L]], M as [|m [|m' M]]; try discriminate; cbn [expect_single].
  - reflexivity.
  - cbn in Ht. injection Ht as Ht. cbn. rewrite Ht. apply onat_eqb_refl.
  - reflexivity.
Qed.

(* ------------------------------------------------------------------------------------------- *)
(* 5. find_full_path *)

Lemma pre_self t : In t (pre t).
Proof. destruct t. left. reflexivity. Qed.

Lemma pre_child t i k x : nth_error (tkids t) i = Some k -> In x (pre k) -> In x (pre t).
Proof.
  destruct t as [g nm a ks]. cbn [tkids pre]. intros Hk Hx. right. apply in_flat_map.
  exists k. split; [eapply nth_error_In; exact Hk|exact Hx].
Qed.

Lemma names_from_cons t q : names_from t q = tname t :: tl (names_from t q).
Proof. destruct q; reflexivity. Qed.

Lemma names_from_in_pre t q x : In x (names_from t q) -> exists u, In u (pre t) /\ tname u = x.
Proof.
  revert t; induction q as [|i q IH]; intros t Hx.
  - cbn in Hx. destruct Hx as [<-|[]]. exists t. split; [apply pre_self|reflexivity].
  - cbn [names_from] in Hx. destruct Hx as [<-|Hx]; [exists t; split; [apply pre_self|reflexivity]|].
    destruct (nth_error (tkids t) i) as [k|] eqn:Ek; [|destruct Hx].
    destruct (IH k Hx) as [u [Hu Et]]. exists u. split; [eapply pre_child; eassumption|exact Et].
Qed.

(* children found by name *)
Lemma filter_children_name up t nm :
  filter (name_is nm) (ln_children (LN up t))
  = map (LN (t :: up)) (filter (fun k => str_eqb (tname k) nm) (tkids t)).
Proof.
  unfold ln_children. cbn [ln_tree ln_up]. induction (tkids t) as [|k ks IH]; [reflexivity|].
  cbn [map filter]. unfold name_is at 1, ln_name. cbn [ln_tree].
  destruct (str_eqb (tname k) nm); cbn [map]; rewrite IH; reflexivity.
Qed.

Lemma str_eqb_sym a b : str_eqb a b = str_eqb b a.
Proof.
  apply bool_iff_eq. rewrite !str_eqb_eq. split; congruence.
Qed.

Lemma uniq_names_le1 ks nm :
  uniq_names (map tname ks) = true -> length (filter (fun k => str_eqb (tname k) nm) ks) <= 1.
Proof.
  intros Hu. destruct (filter (fun k => str_eqb (tname k) nm) ks) as [|k0 rest] eqn:E; [cbn; lia|].
  assert (Hk0 : In k0 (filter (fun k => str_eqb (tname k) nm) ks)) by (rewrite E; left; reflexivity).
  apply filter_In in Hk0 as [Hin Hnm]. apply str_eqb_eq in Hnm.
  unfold uniq_names in Hu. rewrite forallb_forall in Hu.
  specialize (Hu (tname k0) (in_map tname _ _ Hin)). apply Nat.eqb_eq in Hu.
  rewrite <- E.
  assert (Hl : length (filter (str_eqb (tname k0)) (map tname ks))
               = length (filter (fun k => str_eqb (tname k) nm) ks)).
  { clear -Hnm. subst nm. induction ks as [|k ks IH]; [reflexivity|]. cbn [map filter].
    rewrite (str_eqb_sym (tname k0) (tname k)). destruct (str_eqb (tname k) (tname k0)); cbn [length]; rewrite IH; reflexivity. }
  lia.
Qed.

(* under sibling-name uniqueness a lookup by name never raises *)
Lemma find_child_by_name_uniq up t nm :
  uniq_names (map tname (tkids t)) = true ->
  find_child_by_name (LN up t) nm
  = Ret (first_or_none (filter (name_is nm) (ln_children (LN up t)))).
Proof.
  intros Hu. unfold find_child_by_name. rewrite find_child_unfold.
  destruct (with_count_spec (filter (name_is nm) (ln_children (LN up t))) 0 1) as [[Hv _]|[_ ->]]; [|reflexivity].
  exfalso. rewrite filter_children_name, map_length in Hv.
  pose proof (uniq_names_le1 (tkids t) nm Hu) as Hle.
  unfold count_violated in Hv. cbn [Nat.eqb negb andb orb] in Hv. apply Nat.ltb_lt in Hv. lia.
Qed.

(* whatever a lookup by name returns is a child of that name *)
Lemma find_child_by_name_sound up t nm k :
  find_child_by_name (LN up t) nm = Ret (Some k) ->
  exists i k0, nth_error (tkids t) i = Some k0 /\ k = LN (t :: up) k0 /\ tname k0 = nm.
Proof.
  unfold find_child_by_name. rewrite find_child_unfold. intros H.
  destruct (with_count_spec (filter (name_is nm) (ln_children (LN up t))) 0 1) as [[_ E]|[_ E]];
    rewrite E in H; [discriminate|]. cbn [single_of] in H. injection H as H.
  rewrite filter_children_name in H.
  destruct (filter (fun k1 => str_eqb (tname k1) nm) (tkids t)) as [|k0 rest] eqn:Ef; [discriminate|].
  cbn in H. injection H as <-.
  assert (Hin : In k0 (filter (fun k1 => str_eqb (tname k1) nm) (tkids t))) by (rewrite Ef; left; reflexivity).
  apply filter_In in Hin as [Hin Hnm]. apply str_eqb_eq in Hnm.
  apply In_nth_error in Hin as [i Hi]. exists i, k0. repeat split; assumption.
Qed.

(* soundness of the component-wise descent: the node returned lies on the route spelled by the names *)
Lemma full_path_walk_sound cs : forall n m,
  full_path_walk n cs = Ret (Some m) ->
  exists q, descend n q = Some m /\ names_from (ln_tree n) q = ln_name n :: cs.
Proof.
  induction cs as [|c0 cs IH]; intros [up t] m H.
  - cbn in H. injection H as <-. exists []. split; reflexivity.
  - cbn [full_path_walk] in H.
    destruct (find_child_by_name (LN up t) c0) as [[k|]|e] eqn:Ef; try discriminate.
    apply find_child_by_name_sound in Ef as [i [k0 [Hi [-> Hnm]]]].
    destruct (IH _ _ H) as [q [Hq Hn]]. exists (i :: q). split.
    + rewrite (descend_child _ _ _ _ _ Hi). exact Hq.
    + cbn [names_from ln_tree]. rewrite Hi. cbn [ln_tree] in Hn. rewrite Hn.
      unfold ln_name. cbn [ln_tree]. rewrite Hnm. reflexivity.
Qed.

(* completeness under sibling-name uniqueness: the route to any node is followed to that node *)
Lemma full_path_walk_complete q : forall up t m,
  (forall x, In x (pre t) -> uniq_names (map tname (tkids x)) = true) ->
  descend (LN up t) q = Some m ->
  full_path_walk (LN up t) (tl (names_from t q)) = Ret (Some m).
Proof.
  induction q as [|i q IH]; intros up t m Hu H.
  - cbn in H. injection H as <-. reflexivity.
  - cbn [descend] in H. rewrite nth_error_children in H.
    cbn [names_from tl]. destruct (nth_error (tkids t) i) as [k0|] eqn:Ek; [|discriminate].
    cbn [option_map] in H. rewrite names_from_cons. cbn [full_path_walk].
    rewrite find_child_by_name_uniq by (apply Hu, pre_self).
    rewrite filter_children_name.
    assert (Hin : In k0 (filter (fun k => str_eqb (tname k) (tname k0)) (tkids t))).
    { apply filter_In. split; [eapply nth_error_In; exact Ek|apply str_eqb_refl]. }
    pose proof (uniq_names_le1 (tkids t) (tname k0) (Hu t (pre_self t))) as Hle.
    destruct (filter (fun k => str_eqb (tname k) (tname k0)) (tkids t)) as [|k1 [|k2 rest]];
      [destruct Hin| |cbn in Hle; lia].
    destruct Hin as [->|[]]. cbn [map first_or_none].
    apply IH; [|exact H]. intros x Hx. apply Hu. eapply pre_child; eassumption.
Qed.

(* every route that reaches a node is one of the enumerated positions *)
Lemma positions_from_in ks : forall i j k q,
  nth_error ks i = Some k -> In q (positions k) -> In ((j + i) :: q) (positions_from j ks).
Proof.
  induction ks as [|k0 ks IH]; intros i j k q Hi Hq; [destruct i; discriminate|].
  cbn [positions_from]. apply in_or_app. destruct i as [|i].
  - cbn in Hi. injection Hi as ->. left. rewrite Nat.add_0_r. apply in_map. exact Hq.
  - right. cbn in Hi. replace (j + S i) with (S j + i) by lia. eapply IH; eassumption.
Qed.

Lemma descend_in_positions q : forall up t m, descend (LN up t) q = Some m -> In q (positions t).
Proof.
  induction q as [|i q IH]; intros up t m H.
  - destruct t. rewrite positions_unfold. left. reflexivity.
  - cbn [descend] in H. rewrite nth_error_children in H.
    destruct (nth_error (tkids t) i) as [k|] eqn:Ek; [|discriminate]. cbn [option_map] in H.
    apply IH in H. destruct t as [g nm a ks]. rewrite positions_unfold. right.
    apply (positions_from_in ks i 0 k q Ek H).
Qed.

Lemma positions_located w q : In q (positions w) -> exists n, locate w q = Some n.
Proof.
  intros Hq. pose proof (positions_descend [] w) as E.
  apply (in_map (descend (LN [] w))) in Hq. rewrite E in Hq.
  apply in_map_iff in Hq as [n [Hn _]]. exists n. symmetry. exact Hn.
Qed.

Lemma all_nodes_positions w : all_nodes w = positions w.
Proof.
  unfold all_nodes, under. cbn [subtree_at]. apply map_id.
Qed.

(* the root seen from a located node *)
Lemma last_nonempty {A} (l : list A) d d' : l <> [] -> last l d = last l d'.
Proof.
  induction l as [|x l IH]; intros H; [congruence|]. destruct l as [|y l]; [reflexivity|].
  cbn [last]. apply IH. discriminate.
Qed.
Lemma last_cons_default {A} (t k : A) up : last (t :: up) k = last up t.
Proof.
  revert t k; induction up as [|u up IH]; intros t k; [reflexivity|].
  change (last (t :: u :: up) k) with (last (u :: up) k). apply last_nonempty. discriminate.
Qed.
Lemma descend_root n q m : descend n q = Some m -> ln_root m = ln_root n.
Proof.
  revert n; induction q as [|i q IH]; intros [up t] H.
  - cbn in H. injection H as <-. reflexivity.
  - cbn [descend] in H. rewrite nth_error_children in H.
    destruct (nth_error (tkids t) i) as [k|]; [|discriminate]. cbn [option_map] in H.
    rewrite (IH _ H). unfold ln_root. cbn [ln_up ln_tree]. rewrite last_cons_default. reflexivity.
Qed.
Lemma locate_root w p s : locate w p = Some s -> ln_root s = LN [] w.
Proof. intros H. apply descend_root in H. exact H. Qed.

Definition guards (w : tree) (sep : str) : bool := sep_safe w sep && sibling_names_unique w.

Lemma guard_cfree w c q :
  sep_safe w [c] = true -> Forall (cfree c) (names_from w q).
Proof.
  intros Hs. apply Forall_forall. intros x Hx. apply names_from_in_pre in Hx as [u [Hu <-]].
  unfold sep_safe in Hs. apply andb_true_iff in Hs as [_ Hs]. rewrite forallb_forall in Hs.
  specialize (Hs u Hu). unfold name_safe in Hs. apply andb_true_iff in Hs as [Hs _].
  apply negb_true_iff in Hs. rewrite contains_one in Hs. intros Hin.
  apply memN_In in Hin. congruence.
Qed.

(* what the full-path clause needs from the separator: splitting a joined route gives the route back *)
Definition names_split (w : tree) (sep : str) : Prop :=
  forall q, split (join sep (names_from w q)) sep = names_from w q.

Lemma names_split_one w c : sep_safe w [c] = true -> names_split w [c].
Proof.
  intros Hsafe q. apply split_join; [rewrite names_from_cons; discriminate|apply guard_cfree; exact Hsafe].
Qed.

(* no character of the separator occurs in any name of the tree *)
Definition names_sfree (w : tree) (sep : str) : bool :=
  forallb (fun t => forallb (fun ch => negb (memN ch sep)) (tname t)) (pre w).

Lemma names_sfree_Forall w sep q : names_sfree w sep = true -> Forall (sfree sep) (names_from w q).
Proof.
  intros H. apply Forall_forall. intros x Hx. apply names_from_in_pre in Hx as [u [Hu <-]].
  unfold names_sfree in H. rewrite forallb_forall in H. specialize (H u Hu). rewrite forallb_forall in H.
  intros ch Hch Hin. specialize (H ch Hin). apply negb_true_iff, memN_false in H. exact (H Hch).
Qed.

Lemma names_split_multi w sep : sep <> [] -> names_sfree w sep = true -> names_split w sep.
Proof.
  intros Hne H q. destruct sep as [|a sp']; [congruence|].
  apply split_join_multi; [rewrite names_from_cons; discriminate|apply names_sfree_Forall; exact H].
Qed.

(* characterisation of find_full_path: separator of any length, provided stripping the character
   set removes exactly the whole separators around this query and routes split back *)
Lemma find_full_path_char_gen w sep p s path :
  sep <> [] ->
  lstrip (rstrip path sep) sep = trim sep path ->
  names_split w sep ->
  sibling_names_unique w = true ->
  locate w p = Some s ->
  (forall q, In q (full_path_nodes w sep path) ->
             exists n, locate w q = Some n /\ find_full_path sep s path = Ret (Some n))
  /\ (forall m, find_full_path sep s path = Ret (Some m) ->
                exists q, In q (full_path_nodes w sep path) /\ locate w q = Some m).
Proof.
  intros Hne Hstrip Hsplit Huniq Hs.
  unfold find_full_path, path_list_of. rewrite (locate_root _ _ _ Hs), Hstrip.
  set (comps := split (trim sep path) sep).
  assert (Hj : join sep comps = trim sep path) by (apply join_split; exact Hne).
  split.
  - intros q Hq. unfold full_path_nodes in Hq. apply filter_In in Hq as [Hin Heq].
    rewrite all_nodes_positions in Hin. apply str_eqb_eq in Heq.
    destruct (positions_located _ _ Hin) as [n Hn]. exists n. split; [exact Hn|].
    assert (Hc : comps = names_from w q).
    { unfold comps. rewrite <- Heq. unfold names_to. apply Hsplit. }
    rewrite Hc, names_from_cons. cbn [hd tl]. unfold ln_name at 1. cbn [ln_tree].
    rewrite str_eqb_refl. cbn [negb].
    apply full_path_walk_complete; [|exact Hn].
    intros x Hx. unfold sibling_names_unique in Huniq. rewrite forallb_forall in Huniq. apply Huniq. exact Hx.
  - intros m H.
    destruct (negb (str_eqb (hd [] comps) (ln_name (LN [] w)))) eqn:Ehd; [discriminate|].
    apply negb_false_iff, str_eqb_eq in Ehd.
    apply full_path_walk_sound in H as [q [Hq Hn]]. cbn [ln_tree] in Hn.
    assert (Hc : names_from w q = comps).
    { rewrite Hn, <- Ehd. unfold comps, split. destruct sep as [|a sp']; [congruence|].
      destruct (split_go (S (length (trim (a :: sp') path))) (a :: sp') [] (trim (a :: sp') path)) eqn:E; [|reflexivity].
      exfalso. eapply split_go_nonempty. exact E. }
    exists q. split; [|exact Hq].
    unfold full_path_nodes. apply filter_In. split.
    + rewrite all_nodes_positions. eapply descend_in_positions. exact Hq.
    + unfold names_to. rewrite Hc, Hj. apply str_eqb_refl.
Qed.

Lemma find_full_path_char w c p s path :
  guards w [c] = true ->
  locate w p = Some s ->
  (forall q, In q (full_path_nodes w [c] path) ->
             exists n, locate w q = Some n /\ find_full_path [c] s path = Ret (Some n))
  /\ (forall m, find_full_path [c] s path = Ret (Some m) ->
                exists q, In q (full_path_nodes w [c] path) /\ locate w q = Some m).
Proof.
  intros Hg Hs. apply andb_true_iff in Hg as [Hsafe Huniq].
  apply (find_full_path_char_gen w [c] p s path); try assumption;
    [discriminate|symmetry; apply trim_strip|apply names_split_one; exact Hsafe].
Qed.

Lemma full_path_ok_gen w sep p s path :
  sep <> [] ->
  lstrip (rstrip path sep) sep = trim sep path ->
  (guards w sep = true -> names_split w sep) ->
  locate w p = Some s ->
  expect_full_path w sep path true (obs_of (one (find_full_path sep s path))) = true
  /\ expect_full_path w sep path false
       (obs_of (match find_full_path sep s path with Raise e => Raise e | Ret r => Ret (Many [r]) end)) = true.
Proof.
  intros Hne Hstrip Hsplit Hs. unfold expect_full_path. fold (guards w sep).
  destruct (guards w sep) eqn:Hg; [|split; reflexivity].
  assert (Huniq : sibling_names_unique w = true) by (apply andb_true_iff in Hg as [_ H]; exact H).
  destruct (find_full_path_char_gen w sep p s path Hne Hstrip (Hsplit eq_refl) Huniq Hs) as [HA HB].
  destruct (full_path_nodes w sep path) as [|q [|q' L]] eqn:E.
  - destruct (find_full_path sep s path) as [[m|]|e]; try (split; reflexivity).
    exfalso. destruct (HB m eq_refl) as [q [[] _]].
  - destruct (HA q (or_introl eq_refl)) as [n [Hn ->]].
    cbn [one obs_of otag map]. rewrite (tag_at_located _ _ _ Hn). split; apply sobs_eqb_refl.
  - split; reflexivity.
Qed.

Lemma guards_split_one w c : guards w [c] = true -> names_split w [c].
Proof. intros Hg. apply andb_true_iff in Hg as [Hsafe _]. apply names_split_one. exact Hsafe. Qed.

Lemma full_path_ok w c p s path :
  locate w p = Some s ->
  expect_full_path w [c] path true (obs_of (one (find_full_path [c] s path))) = true
  /\ expect_full_path w [c] path false
       (obs_of (match find_full_path [c] s path with Raise e => Raise e | Ret r => Ret (Many [r]) end)) = true.
Proof.
  apply full_path_ok_gen; [discriminate|symmetry; apply trim_strip|apply guards_split_one].
Qed.

(* ------------------------------------------------------------------------------------------- *)
(* 6. find_relative_paths: the depth-first recursion computes the frontier semantics *)

Definition app_opt {A} (a b : option (list A)) : option (list A) :=
  match a, b with Some x, Some y => Some (x ++ y) | _, _ => None end.

Definition denote_from (w : tree) (wild : bool) (comps : list str) (fr : option (list pos)) :=
  fold_left (fun fr c => match fr with Some l => step w wild c l | None => None end) comps fr.

Lemma denote_unfold w wild comps p : denote w wild comps p = denote_from w wild comps (Some [p]).
Proof. reflexivity. Qed.

Lemma denote_from_none w wild comps : denote_from w wild comps None = None.
Proof. induction comps as [|c r IH]; [reflexivity|exact IH]. Qed.

Lemma denote_from_nil w wild comps : denote_from w wild comps (Some []) = Some [].
Proof. induction comps as [|c r IH]; [reflexivity|exact IH]. Qed.

Lemma app_opt_none_r {A} (a : option (list A)) : app_opt a None = None.
Proof. destruct a; reflexivity. Qed.

Lemma step_app w wild c A B : step w wild c (A ++ B) = app_opt (step w wild c A) (step w wild c B).
Proof.
  induction A as [|q A IH]; cbn [app step].
  - destruct (step w wild c B); reflexivity.
  - rewrite IH. destruct (step1 w wild c q) as [a|]; [|reflexivity].
    destruct (step w wild c A) as [x|]; [|reflexivity].
    destruct (step w wild c B) as [y|]; [|reflexivity]. cbn [app_opt]. rewrite app_assoc. reflexivity.
Qed.

Lemma step_single w wild c q : step w wild c [q] = step1 w wild c q.
Proof. cbn [step]. destruct (step1 w wild c q); [rewrite app_nil_r|]; reflexivity. Qed.

Lemma denote_from_app w wild comps : forall A B,
  denote_from w wild comps (Some (A ++ B))
  = app_opt (denote_from w wild comps (Some A)) (denote_from w wild comps (Some B)).
Proof.
  induction comps as [|c r IH]; intros A B; [reflexivity|].
  change (denote_from w wild (c :: r) (Some (A ++ B))) with (denote_from w wild r (step w wild c (A ++ B))).
  change (denote_from w wild (c :: r) (Some A)) with (denote_from w wild r (step w wild c A)).
  change (denote_from w wild (c :: r) (Some B)) with (denote_from w wild r (step w wild c B)).
  rewrite step_app. destruct (step w wild c A) as [a|]; cbn [app_opt].
  - destruct (step w wild c B) as [b|]; [apply IH|].
    rewrite !denote_from_none. symmetry. apply app_opt_none_r.
  - rewrite !denote_from_none. reflexivity.
Qed.

Definition resolve_each (wild : bool) (rest : list str) :=
  fix each (ks : list lnode) : res (list lnode) :=
    match ks with
    | [] => Ret []
    | k :: ks' =>
        match resolve wild rest k with
        | Raise e => Raise e
        | Ret a => match each ks' with
                   | Raise e => Raise e
                   | Ret b => Ret (a ++ b)
                   end
        end
    end.

(* model result vs specified result: the same nodes in the same order, or both an error *)
Definition rel (w : tree) (r : res (list lnode)) (o : option (list pos)) : Prop :=
  match r, o with
  | Raise e, None => e = SearchError
  | Ret M, Some L => map (locate w) L = map Some M
  | _, _ => False
  end.

Lemma rel_app w r1 r2 o1 o2 :
  rel w r1 o1 -> rel w r2 o2 ->
  rel w (match r1 with
         | Raise e => Raise e
         | Ret a => match r2 with Raise e => Raise e | Ret b => Ret (a ++ b) end
         end) (app_opt o1 o2).
Proof.
  destruct r1 as [a|e1], o1 as [L1|]; cbn [rel]; try contradiction; intros H1.
  - destruct r2 as [b|e2], o2 as [L2|]; cbn [rel app_opt]; try contradiction; intros H2.
    + rewrite !map_app, H1, H2. reflexivity.
    + exact H2.
  - intros _. exact H1.
Qed.

Lemma locate_snoc w q i n :
  locate w (q ++ [i]) = Some n -> exists pn, locate w q = Some pn /\ ln_parent n = Some pn.
Proof.
  rewrite locate_app. destruct (locate w q) as [[up t]|]; [|discriminate]. intros H.
  exists (LN up t). split; [reflexivity|]. cbn [descend] in H. rewrite nth_error_children in H.
  destruct (nth_error (tkids t) i) as [k|]; [|discriminate]. cbn in H. injection H as <-. reflexivity.
Qed.

Lemma resolve_denote w wild comps : forall q n,
  locate w q = Some n -> rel w (resolve wild comps n) (denote_from w wild comps (Some [q])).
Proof.
  induction comps as [|c rest IH]; intros q n Hq.
  - cbn [resolve denote_from fold_left rel map]. rewrite Hq. reflexivity.
  - change (denote_from w wild (c :: rest) (Some [q])) with (denote_from w wild rest (step w wild c [q])).
    rewrite step_single. cbn [resolve]. unfold step1.
    destruct (str_eqb c s_dot); [apply IH; exact Hq|].
    destruct (str_eqb c s_dotdot).
    { destruct q as [|i0 q0] eqn:Eq.
      - cbn in Hq. injection Hq as <-. cbn [parent_of ln_parent ln_up]. rewrite denote_from_none. reflexivity.
      - rewrite <- Eq in *. destruct (exists_last (l := q)) as [q' [i Eql]]; [rewrite Eq; discriminate|].
        assert (Hp : parent_of q = Some q').
        { unfold parent_of. rewrite Eq, <- Eq, Eql. f_equal. apply removelast_last. }
        rewrite Hp. rewrite Eql in Hq. apply locate_snoc in Hq as [pn [Hpn ->]]. apply IH. exact Hpn. }
    destruct (str_eqb c s_star).
    { change ((fix each (ks : list lnode) : res (list lnode) :=
                 match ks with
                 | [] => Ret []
                 | k :: ks' =>
                     match resolve wild rest k with
                     | Raise e1 => Raise e1
                     | Ret a => match each ks' with Raise e2 => Raise e2 | Ret b => Ret (a ++ b) end
                     end
                 end) (ln_children n)) with (resolve_each wild rest (ln_children n)).
      pose proof (children_located _ _ _ Hq) as Hc. revert Hc.
      generalize (children_of w q) (ln_children n). intros P N. revert N.
      induction P as [|k P IHP]; intros [|k' N] E; try discriminate.
      - cbn [resolve_each]. rewrite denote_from_nil. reflexivity.
      - cbn [map] in E. injection E as Ek E. cbn [resolve_each].
        change (k :: P) with ([k] ++ P). rewrite denote_from_app.
        apply rel_app; [apply IH; exact Ek|apply IHP; exact E]. }
    (* a name *)
    unfold find_child_by_name. rewrite find_child_unfold.
    assert (E : map (locate w) (filter (fun k => str_eqb (name_at w k) c) (children_of w q))
                = map Some (filter (name_is c) (ln_children n))).
    { apply filter_corr; [apply children_located; exact Hq|].
      intros k k' Hk. rewrite (name_at_located _ _ _ Hk). reflexivity. }
    destruct (filter (fun k => str_eqb (name_at w k) c) (children_of w q)) as [|k [|k2 G]],
             (filter (name_is c) (ln_children n)) as [|k' [|k2' F]]; try discriminate.
    + cbn [with_count check_result_count single_of first_or_none length Nat.eqb negb andb].
      destruct wild; [rewrite denote_from_nil; reflexivity|rewrite denote_from_none; reflexivity].
    + cbn [map] in E. injection E as Ek. cbn. apply IH. exact Ek.
    + rewrite denote_from_none. reflexivity.
Qed.

(* the wildcard indicator: `"*" in path_name` is "some component is *" for plain components *)
Lemma memN_app x a b : memN x (a ++ b) = memN x a || memN x b.
Proof. unfold memN. apply existsb_app. Qed.

Lemma memN_join x sep comps :
  memN x sep = false -> memN x (join sep comps) = existsb (memN x) comps.
Proof.
  intros Hx. induction comps as [|a l IH]; [reflexivity|]. destruct l as [|b l].
  - cbn [join existsb]. rewrite orb_false_r. reflexivity.
  - rewrite join_cons, !memN_app, IH, Hx. reflexivity.
Qed.

Lemma wild_eq_gen sep s :
  sep <> [] -> memN 42%N sep = false -> plain_components (split s sep) = true ->
  contains s s_star = has_wildcard (split s sep).
Proof.
  intros Hne Hc Hp. rewrite <- (join_split s sep) at 1 by exact Hne.
  unfold s_star. rewrite contains_one, memN_join by exact Hc.
  unfold has_wildcard. revert Hp. generalize (split s sep). intros comps Hp.
  induction comps as [|x l IH]; [reflexivity|]. cbn [plain_components forallb] in Hp.
  apply andb_true_iff in Hp as [Hx Hl]. cbn [existsb]. rewrite IH by exact Hl. f_equal.
  rewrite (str_eqb_sym s_star x). unfold s_star in *. rewrite contains_one in Hx.
  destruct (str_eqb x [42%N]) eqn:E.
  - apply str_eqb_eq in E. subst x. reflexivity.
  - cbn [orb] in Hx. apply negb_true_iff in Hx. exact Hx.
Qed.

Lemma star_not_one c : c <> 42%N -> memN 42%N [c] = false.
Proof. intros H. unfold memN. cbn [existsb]. rewrite orb_false_r. apply N.eqb_neq. congruence. Qed.

Lemma wild_eq c s :
  c <> 42%N -> plain_components (split s [c]) = true ->
  contains s s_star = has_wildcard (split s [c]).
Proof. intros Hc. apply wild_eq_gen; [discriminate|apply star_not_one; exact Hc]. Qed.

Lemma relative_ok_gen w sep p s path mn mx :
  sep <> [] -> memN 42%N sep = false ->
  lstrip (rstrip path sep) sep = trim sep path ->
  (guards w sep = true -> names_split w sep) ->
  locate w p = Some s ->
  expect_relative w sep p path false mn mx
    (obs_of (match find_relative_paths sep s path mn mx with Raise e => Raise e | Ret l => Ret (Many l) end)) = true
  /\ expect_relative w sep p path true 0 0 (obs_of (one (find_relative_path sep s path))) = true.
Proof.
  intros Hne Hc Hstrip Hsplit Hs. unfold expect_relative, find_relative_path, find_relative_paths.
  rewrite is_prefix_startswith. destruct (startswith path sep).
  - destruct (full_path_ok_gen w sep p s path Hne Hstrip Hsplit Hs) as [H1 H2]. split.
    + destruct (find_full_path sep s path); exact H2.
    + destruct (find_full_path sep s path); exact H1.
  - unfold components. rewrite Hstrip.
    destruct (plain_components (split (trim sep path) sep)) eqn:Hp; [|split; reflexivity].
    cbn [negb]. rewrite (wild_eq_gen sep _ Hne Hc Hp). rewrite denote_unfold.
    pose proof (resolve_denote w (has_wildcard (split (trim sep path) sep)) (split (trim sep path) sep) p s Hs) as R.
    destruct (resolve _ _ s) as [M|e], (denote_from _ _ _ _) as [L|]; cbn [rel] in R; try contradiction.
    + split.
      * pose proof (multi_ok w L M mn mx R) as HM. unfold with_count in HM.
        destruct (check_result_count M mn mx); exact HM.
      * pose proof (single_ok w L M R) as HS. unfold with_count in HS.
        destruct (check_result_count M 0 1); [|exact HS].
        destruct M; exact HS.
    + subst e. split; reflexivity.
Qed.

Lemma relative_ok w c p s path mn mx :
  c <> 42%N ->
  locate w p = Some s ->
  expect_relative w [c] p path false mn mx
    (obs_of (match find_relative_paths [c] s path mn mx with Raise e => Raise e | Ret l => Ret (Many l) end)) = true
  /\ expect_relative w [c] p path true 0 0 (obs_of (one (find_relative_path [c] s path))) = true.
Proof.
  intros Hc. apply relative_ok_gen;
    [discriminate|apply star_not_one; exact Hc|symmetry; apply trim_strip|apply guards_split_one].
Qed.

(* ------------------------------------------------------------------------------------------- *)
(* 7. the model satisfies the property *)

Lemma sat_tab_located w tab q n : locate w q = Some n -> sat_tab w tab q = cond_tab tab n.
Proof. intros H. unfold sat_tab, cond_tab. rewrite (tag_at_located _ _ _ H). reflexivity. Qed.
Lemma sat_name_located w nm q n : locate w q = Some n -> sat_name w nm q = name_is nm n.
Proof. intros H. unfold sat_name, name_is. rewrite (name_at_located _ _ _ H). reflexivity. Qed.
Lemma sat_attr_located w k v q n : locate w q = Some n -> sat_attr w k v q = attr_is k v n.
Proof. intros H. unfold sat_attr, attr_is, ln_get_attr. rewrite (attrs_at_located _ _ _ H). reflexivity. Qed.
Lemma sat_path_located_gen w sep path q n :
  rstrip path sep = trim_right sep path ->
  locate w q = Some n -> sat_path w sep path q = path_ends sep (rstrip path sep) n.
Proof.
  intros Hr H. unfold sat_path, path_ends.
  rewrite (path_of_located _ _ _ _ H), Hr. apply is_suffix_endswith.
Qed.

Lemma sat_path_located w c path q n :
  locate w q = Some n -> sat_path w [c] path q = path_ends [c] (rstrip path [c]) n.
Proof. apply sat_path_located_gen. symmetry. apply trim_right_rstrip. Qed.

(* the path string of a query, if it has one *)
Definition query_path (q : query) : option str :=
  match q with
  | QFindPath p | QFindPaths p | QFindFullPath p | QFindRelPath p | QFindRelPaths p _ _ => Some p
  | _ => None
  end.
(* on this query, stripping the character set = removing whole separators *)
Definition strips_ok (sep : str) (q : query) : Prop :=
  forall path, query_path q = Some path ->
    rstrip path sep = trim_right sep path /\ lstrip (rstrip path sep) sep = trim sep path.

Lemma query_ok_gen w sep p s q :
  sep <> [] -> memN 42%N sep = false -> strips_ok sep q ->
  (guards w sep = true -> names_split w sep) ->
  locate w p = Some s ->
  prop_query w sep p q (obs_of (run_query sep s q)) = true.
Proof.
  intros Hne Hc Hq Hsplit Hs. destruct q; cbn [prop_query run_query].
  - rewrite findall_unfold. apply multi_ok, matches_located; [exact Hs|apply sat_tab_located].
  - rewrite find_unfold. apply single_ok, matches_located; [exact Hs|apply sat_tab_located].
  - unfold find_name. rewrite find_unfold. apply single_ok, matches_located; [exact Hs|apply sat_name_located].
  - unfold find_names. rewrite findall_unfold. apply multi_ok, matches_located; [exact Hs|apply sat_name_located].
  - unfold find_path. rewrite find_unfold. apply single_ok, matches_located; [exact Hs|].
    intros q0 n0. apply sat_path_located_gen. apply (Hq path eq_refl).
  - unfold find_paths. rewrite findall_unfold. apply multi_ok, matches_located; [exact Hs|].
    intros q0 n0. apply sat_path_located_gen. apply (Hq path eq_refl).
  - apply (full_path_ok_gen w sep p s path Hne (proj2 (Hq path eq_refl)) Hsplit Hs).
  - apply (relative_ok_gen w sep p s path 0 0 Hne Hc (proj2 (Hq path eq_refl)) Hsplit Hs).
  - apply (relative_ok_gen w sep p s path mn mx Hne Hc (proj2 (Hq path eq_refl)) Hsplit Hs).
  - unfold find_attr. rewrite find_unfold. apply single_ok, matches_located; [exact Hs|apply sat_attr_located].
  - unfold find_attrs. rewrite findall_unfold. apply multi_ok, matches_located; [exact Hs|apply sat_attr_located].
  - rewrite find_children_unfold. apply multi_ok, child_matches_located; [exact Hs|apply sat_tab_located].
  - rewrite find_child_unfold. apply single_ok, child_matches_located; [exact Hs|apply sat_tab_located].
  - unfold find_child_by_name. rewrite find_child_unfold.
    apply single_ok, child_matches_located; [exact Hs|apply sat_name_located].
Qed.

Lemma strips_ok_one c q : strips_ok [c] q.
Proof. intros path _. split; symmetry; [apply trim_right_rstrip|apply trim_strip]. Qed.

Lemma query_ok w c p s q :
  c <> 42%N -> locate w p = Some s ->
  prop_query w [c] p q (obs_of (run_query [c] s q)) = true.
Proof.
  intros Hc. apply query_ok_gen;
    [discriminate|apply star_not_one; exact Hc|apply strips_ok_one|apply guards_split_one].
Qed.

(* separators of any length: the guard on the query *)
Definition query_clean (sep : str) (q : query) : bool :=
  match query_path q with Some path => clean sep path | None => true end.

Lemma strips_ok_clean sep q : query_clean sep q = true -> strips_ok sep q.
Proof.
  unfold query_clean. intros H path E. rewrite E in H. split; [|apply strip_clean; exact H].
  apply rstrip_clean. unfold clean in H. apply andb_true_iff in H as [H _]. exact H.
Qed.

Lemma query_ok_multi w sep p s q :
  sep <> [] -> memN 42%N sep = false -> names_sfree w sep = true -> query_clean sep q = true ->
  locate w p = Some s ->
  prop_query w sep p q (obs_of (run_query sep s q)) = true.
Proof.
  intros Hne Hc Hn Hq. apply query_ok_gen; [exact Hne|exact Hc|apply strips_ok_clean; exact Hq|].
  intros _. apply names_split_multi; assumption.
Qed.

Theorem model_satisfies_spec i c o :
  si_sep i = [c] -> c <> 42%N -> model i = Some o -> prop_C09 i o = true.
Proof.
  destruct i as [w sep p q]. cbn [si_sep]. intros -> Hc Hm. unfold model in Hm. cbn [si_tree si_start si_sep si_query] in Hm.
  unfold prop_C09. destruct (valid_input _); [|reflexivity]. cbn [si_tree si_start si_sep si_query].
  destruct (locate w p) as [s|] eqn:Hs; [|discriminate]. injection Hm as <-.
  apply query_ok; assumption.
Qed.

Theorem model_satisfies_spec_multi i o :
  si_sep i <> [] -> memN 42%N (si_sep i) = false ->
  names_sfree (si_tree i) (si_sep i) = true -> query_clean (si_sep i) (si_query i) = true ->
  model i = Some o -> prop_C09 i o = true.
Proof.
  destruct i as [w sep p q]. cbn [si_sep si_tree si_query]. intros Hne Hc Hn Hq Hm. unfold model in Hm.
  cbn [si_tree si_start si_sep si_query] in Hm.
  unfold prop_C09. destruct (valid_input _); [|reflexivity]. cbn [si_tree si_start si_sep si_query].
  destruct (locate w p) as [s|] eqn:Hs; [|discriminate]. injection Hm as <-.
  apply query_ok_multi; assumption.
Qed.

(* the model is defined on every valid input *)
Lemma locate_defined w p t : subtree_at w p = Some t -> exists s, locate w p = Some s.
Proof.
  unfold locate. generalize (@nil tree). revert w.
  induction p as [|i p IH]; intros w up H; [eexists; reflexivity|].
  cbn [subtree_at] in H. cbn [descend]. rewrite nth_error_children.
  destruct (nth_error (tkids w) i) as [k|]; [|discriminate]. cbn [option_map]. apply IH. exact H.
Qed.

Theorem model_total i : valid_input i = true -> exists o, model i = Some o.
Proof.
  unfold valid_input, model. intros H. apply andb_true_iff in H as [_ H].
  destruct (subtree_at (si_tree i) (si_start i)) as [t|] eqn:E; [|discriminate].
  destruct (locate_defined _ _ _ E) as [s ->]. eexists. reflexivity.
Qed.

(* the clauses that do not read the separator hold for every separator *)
Definition sep_independent (q : query) : bool :=
  match q with
  | QFindPath _ | QFindPaths _ | QFindFullPath _ | QFindRelPath _ | QFindRelPaths _ _ _ => false
  | _ => true
  end.

Lemma query_ok_any_sep w sep p s q :
  sep_independent q = true -> locate w p = Some s ->
  prop_query w sep p q (obs_of (run_query sep s q)) = true.
Proof.
  intros Hq Hs. destruct q; try discriminate; cbn [prop_query run_query].
  - rewrite findall_unfold. apply multi_ok, matches_located; [exact Hs|apply sat_tab_located].
  - rewrite find_unfold. apply single_ok, matches_located; [exact Hs|apply sat_tab_located].
  - unfold find_name. rewrite find_unfold. apply single_ok, matches_located; [exact Hs|apply sat_name_located].
  - unfold find_names. rewrite findall_unfold. apply multi_ok, matches_located; [exact Hs|apply sat_name_located].
  - unfold find_attr. rewrite find_unfold. apply single_ok, matches_located; [exact Hs|apply sat_attr_located].
  - unfold find_attrs. rewrite findall_unfold. apply multi_ok, matches_located; [exact Hs|apply sat_attr_located].
  - rewrite find_children_unfold. apply multi_ok, child_matches_located; [exact Hs|apply sat_tab_located].
  - rewrite find_child_unfold. apply single_ok, child_matches_located; [exact Hs|apply sat_tab_located].
  - unfold find_child_by_name. rewrite find_child_unfold.
    apply single_ok, child_matches_located; [exact Hs|apply sat_name_located].
Qed.

Theorem model_satisfies_spec_any_sep i o :
  sep_independent (si_query i) = true -> model i = Some o -> prop_C09 i o = true.
Proof.
  destruct i as [w sep p q]. cbn [si_query]. intros Hq Hm. unfold model in Hm.
  cbn [si_tree si_start si_sep si_query] in Hm.
  unfold prop_C09. destruct (valid_input _); [|reflexivity]. cbn [si_tree si_start si_sep si_query].
  destruct (locate w p) as [s|] eqn:Hs; [|discriminate]. injection Hm as <-.
  apply query_ok_any_sep; assumption.
Qed.

(* ------------------------------------------------------------------------------------------- *)
(* 8. readable corollaries *)

(* "each once": the positions of a tree are pairwise distinct *)
Lemma positions_from_head ks : forall j q, In q (positions_from j ks) -> exists i q', q = i :: q' /\ j <= i.
Proof.
  induction ks as [|k ks IH]; intros j q H; [destruct H|].
  cbn [positions_from] in H. apply in_app_or in H as [H|H].
  - apply in_map_iff in H as [q' [<- _]]. exists j, q'. split; [reflexivity|lia].
  - apply IH in H as [i [q' [-> Hle]]]. exists i, q'. split; [reflexivity|lia].
Qed.

Lemma nodup_app {A} (a b : list A) :
  NoDup a -> NoDup b -> (forall x, In x a -> In x b -> False) -> NoDup (a ++ b).
Proof.
  induction 1 as [|x a Hx Ha IH]; intros Hb Hd; [exact Hb|]. cbn [app]. constructor.
  - intros H. apply in_app_or in H as [H|H]; [exact (Hx H)|]. apply (Hd x (or_introl eq_refl) H).
  - apply IH; [exact Hb|]. intros y Hy. apply Hd. right. exact Hy.
Qed.

Lemma nodup_map_cons (i : nat) (l : list pos) : NoDup l -> NoDup (map (cons i) l).
Proof.
  induction 1 as [|x l Hx Hl IH]; [constructor|]. cbn [map]. constructor; [|exact IH].
  intros H. apply in_map_iff in H as [y [E Hy]]. injection E as ->. exact (Hx Hy).
Qed.

Lemma positions_nodup t : NoDup (positions t).
Proof.
  induction t as [g nm a ks IH] using tree_ind'. rewrite positions_unfold. constructor.
  - intros H. apply positions_from_head in H as [i [q' [E _]]]. discriminate.
  - generalize 0. induction IH as [|k ks Hk Hks IHks]; intros j; [constructor|].
    cbn [positions_from]. apply nodup_app.
    + apply nodup_map_cons. exact Hk.
    + apply IHks.
    + intros q H1 H2. apply in_map_iff in H1 as [q1 [<- _]].
      apply positions_from_head in H2 as [i [q' [E Hle]]]. injection E as E _. lia.
Qed.

Lemma under_nodup w p : NoDup (under w p).
Proof.
  unfold under. destruct (subtree_at w p) as [t|]; [|constructor].
  pose proof (positions_nodup t) as H. induction H as [|x l Hx Hl IH]; [constructor|].
  cbn [map]. constructor; [|exact IH]. intros Hin. apply in_map_iff in Hin as [y [E Hy]].
  apply app_inv_head in E. subst y. exact (Hx Hy).
Qed.

(* C09, first sentence: exactly the nodes of the searched subtree, within max_depth, that satisfy
   the condition; each once; in pre-order *)
Theorem findall_exact w p s (cond : pos -> bool) (filt : lnode -> bool) md :
  locate w p = Some s ->
  (forall q n, locate w q = Some n -> cond q = filt n) ->
  exists M, findall filt s md 0 0 = Ret M
            /\ map (locate w) (filter (fun q => within md q && cond q) (under w p)) = map Some M
            /\ NoDup (under w p).
Proof.
  intros Hs Hc. exists (preorder_iter filt md (ln_up s) (ln_tree s)). split; [|split].
  - rewrite findall_unfold. destruct (with_count_spec (preorder_iter filt md (ln_up s) (ln_tree s)) 0 0) as [[H _]|[_ H]];
      [discriminate H|exact H].
  - apply (matches_located w md p s cond filt Hs Hc).
  - apply under_nodup.
Qed.

Theorem findall_members filt s md n :
  In n (preorder_iter filt md (ln_up s) (ln_tree s))
  <-> In n (pre_l (ln_up s) (ln_tree s)) /\ depth_ok md n = true /\ filt n = true.
Proof.
  rewrite preorder_iter_filter, filter_In, andb_true_iff. reflexivity.
Qed.

(* C09, second sentence: the count contracts *)
Theorem count_contract filt s md mn mx :
  findall filt s md mn mx
  = let M := preorder_iter filt md (ln_up s) (ln_tree s) in
    if count_violated (length M) mn mx then Raise SearchError else Ret M.
Proof.
  rewrite findall_unfold. cbv zeta.
  destruct (with_count_spec (preorder_iter filt md (ln_up s) (ln_tree s)) mn mx) as [[-> ->]|[-> ->]]; reflexivity.
Qed.

Theorem single_contract filt s md :
  find filt s md
  = match preorder_iter filt md (ln_up s) (ln_tree s) with
    | [] => Ret None
    | [n] => Ret (Some n)
    | _ => Raise SearchError
    end.
Proof.
  rewrite find_unfold. destruct (preorder_iter filt md (ln_up s) (ln_tree s)) as [|n [|n' M]]; reflexivity.
Qed.

Theorem children_contract cond s mn mx :
  find_children cond s mn mx
  = let M := filter cond (ln_children s) in
    if count_violated (length M) mn mx then Raise SearchError else Ret M.
Proof.
  rewrite find_children_unfold. cbv zeta.
  destruct (with_count_spec (filter cond (ln_children s)) mn mx) as [[-> ->]|[-> ->]]; reflexivity.
Qed.

Theorem child_contract cond s :
  find_child cond s
  = match filter cond (ln_children s) with
    | [] => Ret None
    | [n] => Ret (Some n)
    | _ => Raise SearchError
    end.
Proof.
  rewrite find_child_unfold. destruct (filter cond (ln_children s)) as [|n [|n' M]]; reflexivity.
Qed.

(* C09, third sentence, first half *)
Theorem full_path_iff w c p s path n :
  guards w [c] = true -> locate w p = Some s ->
  (find_full_path [c] s path = Ret (Some n)
   <-> exists q, locate w q = Some n /\ join [c] (names_to w q) = trim [c] path).
Proof.
  intros Hg Hs. destruct (find_full_path_char w c p s path Hg Hs) as [HA HB]. split.
  - intros H. destruct (HB n H) as [q [Hin Hq]]. exists q. split; [exact Hq|].
    unfold full_path_nodes in Hin. apply filter_In in Hin as [_ E]. apply str_eqb_eq in E. exact E.
  - intros [q [Hq E]].
    assert (Hin : In q (full_path_nodes w [c] path)).
    { unfold full_path_nodes. apply filter_In. split.
      - rewrite all_nodes_positions. eapply descend_in_positions. exact Hq.
      - rewrite E. apply str_eqb_refl. }
    destruct (HA q Hin) as [n' [Hn' H]]. rewrite Hq in Hn'. injection Hn' as <-. exact H.
Qed.

(* C09, third sentence, second half *)
Theorem relative_spec w c p s path mn mx :
  c <> 42%N -> locate w p = Some s -> startswith path [c] = false ->
  plain_components (components [c] path) = true ->
  match denote w (has_wildcard (components [c] path)) (components [c] path) p with
  | None => find_relative_paths [c] s path mn mx = Raise SearchError
  | Some L => exists M, map (locate w) L = map Some M
                        /\ find_relative_paths [c] s path mn mx
                           = if count_violated (length L) mn mx then Raise SearchError else Ret (map Some M)
  end.
Proof.
  intros Hc Hs Hrel Hp. unfold find_relative_paths. rewrite Hrel. unfold components in *.
  rewrite <- trim_strip, (wild_eq c _ Hc Hp), denote_unfold.
  pose proof (resolve_denote w (has_wildcard (split (trim [c] path) [c])) (split (trim [c] path) [c]) p s Hs) as R.
  destruct (resolve _ _ s) as [M|e], (denote_from _ _ _ _) as [L|]; cbn [rel] in R; try contradiction.
  - exists M. split; [exact R|]. rewrite (map_Some_length _ _ _ R).
    unfold check_result_count, count_violated.
    destruct (negb (Nat.eqb mn 0) && Nat.ltb (length M) mn); [reflexivity|].
    destruct (negb (Nat.eqb mx 0) && Nat.ltb mx (length M)); reflexivity.
  - subst e. reflexivity.
Qed.

(* ------------------------------------------------------------------------------------------- *)
(* 9. the same clauses for separators of any positive length *)

Theorem path_suffix_multi w sep path q n :
  ends_ok sep (trim_right sep path) = true ->
  locate w q = Some n -> sat_path w sep path q = path_ends sep (rstrip path sep) n.
Proof. intros H. apply sat_path_located_gen. apply rstrip_clean. exact H. Qed.

Theorem full_path_iff_multi w sep p s path n :
  sep <> [] -> names_sfree w sep = true -> sibling_names_unique w = true -> clean sep path = true ->
  locate w p = Some s ->
  (find_full_path sep s path = Ret (Some n)
   <-> exists q, locate w q = Some n /\ join sep (names_to w q) = trim sep path).
Proof.
  intros Hne Hn Huniq Hcl Hs.
  destruct (find_full_path_char_gen w sep p s path Hne (strip_clean _ _ Hcl)
              (names_split_multi _ _ Hne Hn) Huniq Hs) as [HA HB]. split.
  - intros H. destruct (HB n H) as [q [Hin Hq]]. exists q. split; [exact Hq|].
    unfold full_path_nodes in Hin. apply filter_In in Hin as [_ E]. apply str_eqb_eq in E. exact E.
  - intros [q [Hq E]].
    assert (Hin : In q (full_path_nodes w sep path)).
    { unfold full_path_nodes. apply filter_In. split.
      - rewrite all_nodes_positions. eapply descend_in_positions. exact Hq.
      - rewrite E. apply str_eqb_refl. }
    destruct (HA q Hin) as [n' [Hn' H]]. rewrite Hq in Hn'. injection Hn' as <-. exact H.
Qed.

Theorem relative_spec_multi w sep p s path mn mx :
  sep <> [] -> memN 42%N sep = false -> clean sep path = true ->
  locate w p = Some s -> startswith path sep = false ->
  plain_components (components sep path) = true ->
  match denote w (has_wildcard (components sep path)) (components sep path) p with
  | None => find_relative_paths sep s path mn mx = Raise SearchError
  | Some L => exists M, map (locate w) L = map Some M
                        /\ find_relative_paths sep s path mn mx
                           = if count_violated (length L) mn mx then Raise SearchError else Ret (map Some M)
  end.
Proof.
  intros Hne Hc Hcl Hs Hrel Hp. unfold find_relative_paths. rewrite Hrel. unfold components in *.
  rewrite (strip_clean _ _ Hcl), (wild_eq_gen sep _ Hne Hc Hp), denote_unfold.
  pose proof (resolve_denote w (has_wildcard (split (trim sep path) sep)) (split (trim sep path) sep) p s Hs) as R.
  destruct (resolve _ _ s) as [M|e], (denote_from _ _ _ _) as [L|]; cbn [rel] in R; try contradiction.
  - exists M. split; [exact R|]. rewrite (map_Some_length _ _ _ R).
    unfold check_result_count, count_violated.
    destruct (negb (Nat.eqb mn 0) && Nat.ltb (length M) mn); [reflexivity|].
    destruct (negb (Nat.eqb mx 0) && Nat.ltb mx (length M)); reflexivity.
  - subst e. reflexivity.
Qed.
