(* C14 — the print_tree(node_name_or_path, max_depth) observation inside the total outcome.

   The harness sends every get_subtree call also through print_tree (export.py:195-241 -> yield_tree
   :243-415 -> helper.get_subtree) and records the printed lines as (depth, name); the predicate
   prop_C14_print (Spec/PC14.v) says that what is shown = the real nodes of the expected subtree, by depth
   and name.  So far this observation was decided on the implementation's output only.  Here it is a
   theorem about the composition of the two existing models:

     print_tree_at vst bin tsep t st s d
        = get_subtree_at (Algo/Helper.v)  ;  drop the empty BinaryNode slots (preorder_iter: `if child`)
          ;  print_lines vst (Algo/Render.v: the yield_tree loop with the `unclosed_depth` set, one text
          line per node)

   and the harness's reading of the printed TEXT (helper.py `_printed`: first line = root at depth 1; any
   other line is cut into 4-character cells, stem-or-gap cells then one connector: depth = cells + 2; a
   line that cannot be cut is recorded with depth 0) is `read_printed` (the parser v_parse_line of
   Spec/PC18.v).  Result, for Node and BinaryNode trees, any start node, any path, any depth limit,
   separators of any positive length, every style whose connectors cannot be mistaken for stems:

     print_obs vst (print_tree_at vst bin tsep t st s d) = expected_print_outcome bin tsep t st s d

   written from the spec's vocabulary only (addressed_at, expected_gen, within_depth), with the exact
   exception classes (no node: ValueError, several nodes: SearchError), and it implies prop_C14_print.
   (yield_tree passes max_depth to preorder_iter a second time; on a tree already cut by get_subtree
   this filter keeps every node, as in Algo/Render.v.) *)
From BT Require Import Algo.Render Spec.PC18 Algo.RenderProofs.
From BT Require Import Base.Prelude Base.Str Base.Rose Base.StrSep Algo.Helper Spec.PC14 Algo.HelperProofs
                       Algo.C14More.

(* ---- the model of the print path ---- *)

(* what the iterators see of a BinaryNode tree: empty slots are skipped (iterators.py `if _child`) *)
Fixpoint drop_holes (t : tree) : tree :=
  match t with
  | T g n a ks => T g n a (flat_map (fun k => if Helper.is_hole k then [] else [drop_holes k]) ks)
  end.

Definition print_view (bin : bool) (r : tree) : tree := if bin then drop_holes r else r.

(* yield_tree: get_subtree first (its exceptions come first), then the style check, then the loop *)
Definition print_tree_at (vst : vstyle) (bin : bool) (tsep : str) (t : tree) (st : pos) (s : str) (d : nat)
  : res (list str) :=
  match get_subtree_at bin tsep t st s d with
  | Raise e => Raise e
  | Ret r => if vstyle_ok vst then Ret (print_lines vst (print_view bin r)) else Raise ValueError
  end.

(* helper.py `_printed`: the (depth, name) rows read back from the text *)
Definition read_line (vst : vstyle) (s : str) : lbl :=
  match v_parse_line (S (length s)) vst 0 s with
  | Some (c, n) => (S c, n, [])
  | None => (0, s, [])
  end.

Definition read_printed (vst : vstyle) (lines : list str) : list lbl :=
  match lines with
  | [] => []
  | root :: rest => (1, root, []) :: map (read_line vst) rest
  end.

Definition print_obs (vst : vstyle) (m : res (list str)) : hobs :=
  match m with Ret lines => OTree (read_printed vst lines) | Raise e => OErr (exn_code e) end.

(* ---- the expected outcome, from the spec's vocabulary ---- *)

Definition strip_lbl (l : lbl) : lbl := match l with (d, n, _) => (d, n, []) end.

(* BinaryNode: the real nodes (Spec/PC14.v `shown`); Node: every node is real *)
Definition shown_x (bin : bool) (l : list lbl) : list lbl := if bin then shown l else map strip_lbl l.

Definition expected_print_outcome (bin : bool) (tsep : str) (t : tree) (st : pos) (s : str) (d : nat) : hobs :=
  let sub q := OTree (shown_x bin (expected_gen bin t q (fun p => within_depth d (S (length p) - length q)))) in
  if is_nil s then sub st else
  match addressed_at bin tsep t st s with
  | [] => OErr (exn_code ValueError)
  | [q] => sub q
  | _ :: _ :: _ => OErr (exn_code SearchError)
  end.

Definition shown_obs (bin : bool) (o : hobs) : hobs :=
  match o with OTree l => OTree (shown_x bin l) | OErr c => OErr c end.

Lemma expected_print_of_subtree bin tsep t st s d :
  expected_print_outcome bin tsep t st s d = shown_obs bin (expected_subtree_outcome bin tsep t st s d).
Proof.
  unfold expected_print_outcome, expected_subtree_outcome. destruct (is_nil s); [reflexivity|].
  destruct (addressed_at bin tsep t st s) as [|q [|q' l]]; reflexivity.
Qed.

(* ---- reading the text back: (depth, name) of every node, in pre-order ---- *)

Lemma read_printed_plist vst c :
  vstyle_ok vst = true -> vstyle_distinct vst = true ->
  read_printed vst (print_lines vst c) = map (fun x => (S (fst x), snd x, [])) (plist 0 c).
Proof.
  intros Hok Hd. unfold print_lines. rewrite yield_lines_spec. destruct c as [g n a ks].
  cbn [map line_of read_printed app tname]. rewrite plist_eq. cbn [map fst snd]. f_equal.
  pose proof (vrows_root_depth (T g n a ks)) as HD. rewrite vrows_root_eq in *. cbn [tkids] in *.
  rewrite <- (vrows_kids_plist ks 0 []). rewrite !map_map. apply map_ext_in. intros r Hr.
  unfold read_line. rewrite (parse_row vst Hok Hd r (HD r Hr)). reflexivity.
Qed.

Definition shift_lbl (e : nat) (l : lbl) : lbl := match l with (d, n, _) => (e + d, n, []) end.

Lemma plist_obs : forall c e,
  map (fun x => (S (fst x), snd x, [])) (plist e c) = map (shift_lbl e) (obs_tree c).
Proof.
  induction c as [g n a ks IH] using tree_ind'. intros e.
  rewrite plist_eq, obs_tree_unfold. cbn [map fst snd shift_lbl].
  replace (e + 1) with (S e) by lia. apply (f_equal (cons _)).
  induction IH as [|k r Hk Hr IHr]; [reflexivity|].
  rewrite plist_kids_cons. cbn [flat_map]. rewrite !map_app, IHr, (Hk (S e)).
  apply (f_equal (fun l => l ++ _)).
  rewrite map_map. apply map_ext. intros [[d' n'] a']. cbn [lbl_up shift_lbl].
  replace (e + S d') with (S e + d') by lia. reflexivity.
Qed.

(* the text of any tree, read back = its pre-order (depth, name) rows *)
Lemma read_printed_obs vst c :
  vstyle_ok vst = true -> vstyle_distinct vst = true ->
  read_printed vst (print_lines vst c) = map strip_lbl (obs_tree c).
Proof.
  intros Hok Hd. rewrite (read_printed_plist vst c Hok Hd), plist_obs.
  apply map_ext. intros [[d n] a]. reflexivity.
Qed.

(* ---- BinaryNode: skipping the empty slots = keeping the real labels ---- *)

Lemma shown_real l : shown l = map strip_lbl (filter is_real_lbl l).
Proof. reflexivity. Qed.

Lemma drop_holes_obs : forall r,
  holes_leaf r = true -> Helper.is_hole r = false -> obs_tree (drop_holes r) = real_obs r.
Proof.
  induction r as [g n a ks IH] using tree_ind'. intros HL Hr.
  unfold Helper.is_hole in Hr. cbn [tname] in Hr.
  cbn [drop_holes]. rewrite obs_tree_unfold, real_obs_unfold, Hr. cbn [negb app]. f_equal.
  cbn [holes_leaf] in HL. apply andb_true_iff in HL as [_ HLs].
  induction IH as [|k r Hk Hrr IHr]; [reflexivity|].
  cbn [forallb] in HLs. apply andb_true_iff in HLs as [HLk HLr].
  cbn [flat_map]. rewrite flat_map_app, (IHr HLr). f_equal.
  destruct (Helper.is_hole k) eqn:Ek.
  - rewrite (real_obs_hole k Ek HLk). reflexivity.
  - cbn [flat_map]. rewrite app_nil_r, (Hk HLk eq_refl). reflexivity.
Qed.

(* what print_tree shows of a returned tree = `shown` of its observation — the comparison the
   correspondence check makes (Corr/HelperCorr.v agree_print) is the rendering model *)
Lemma print_of_result vst bin r :
  vstyle_ok vst = true -> vstyle_distinct vst = true ->
  (bin = true -> holes_leaf r = true /\ Helper.is_hole r = false) ->
  read_printed vst (print_lines vst (print_view bin r)) = shown_x bin (obs_tree r).
Proof.
  intros Hok Hd Hb. rewrite (read_printed_obs vst _ Hok Hd). destruct bin; cbn [print_view shown_x]; [|reflexivity].
  destruct (Hb eq_refl) as [HL Hr]. rewrite (drop_holes_obs r HL Hr), shown_real. reflexivity.
Qed.

(* ---- the tree get_subtree returns: the cut copy of a real node of the tree ---- *)

Lemma subtree_at_app st : forall t p,
  subtree_at t (st ++ p) = match subtree_at t st with Some s => subtree_at s p | None => None end.
Proof.
  induction st as [|i st IH]; intros t p; [reflexivity|].
  cbn [app subtree_at]. destruct (nth_error (tkids t) i) as [k|]; [apply IH|reflexivity].
Qed.

Definition tail_of (bin : bool) (d : nat) (x : tree) : tree :=
  if Nat.eqb d 0 then copy_tree x else depth_cut_x bin d (copy_tree (copy_tree x)).

Lemma get_subtree_at_ret bin tsep t st s0 s d r :
  subtree_at t st = Some s0 -> (bin = true -> Helper.is_hole s0 = false) ->
  get_subtree_at bin tsep t st s d = Ret r ->
  exists q x, subtree_at t q = Some x /\ (bin = true -> Helper.is_hole x = false) /\ r = tail_of bin d x.
Proof.
  intros Hst Hs0. unfold get_subtree_at, tail_of. destruct (is_nil tsep); [discriminate|].
  destruct (is_nil s).
  - rewrite subtree_at_copy, Hst. cbn [option_map]. intros H. exists st, s0.
    split; [exact Hst|]. split; [exact Hs0|]. destruct (Nat.eqb d 0); inversion H; reflexivity.
  - unfold find_path_at.
    destruct (find_paths_pos_at bin tsep (copy_tree t) st s) as [|p [|p' l]] eqn:E; try discriminate.
    assert (Hp : In p (find_paths_pos_at bin tsep (copy_tree t) st s)) by (rewrite E; left; reflexivity).
    unfold find_paths_pos_at in Hp. apply filter_In in Hp as [Hp _].
    unfold search_space in Hp. rewrite subtree_at_copy, Hst in Hp. cbn [option_map] in Hp.
    apply in_map_iff in Hp as [p0 [<- Hp0]]. apply filter_In in Hp0 as [_ Hreal].
    rewrite subtree_at_copy, subtree_at_app, Hst.
    destruct (subtree_at s0 p0) as [x|] eqn:Ex; cbn [option_map]; [|discriminate].
    intros H. exists (st ++ p0), x. split; [rewrite subtree_at_app, Hst; exact Ex|]. split.
    + intros Hb. subst bin. cbn [negb orb] in Hreal. unfold is_hole_at in Hreal.
      rewrite subtree_at_copy, Ex in Hreal. cbn [option_map] in Hreal. rewrite is_hole_copy in Hreal.
      apply negb_true_iff in Hreal. exact Hreal.
    + destruct (Nat.eqb d 0); inversion H; reflexivity.
Qed.

Lemma tail_of_wf2 d x : wf2 x = true -> wf2 (tail_of true d x) = true.
Proof.
  intros Hw. unfold tail_of. destruct (Nat.eqb d 0); [apply wf2_copy; exact Hw|].
  rewrite (depth_cut_x_true_filter d _ (wf2_copy _ (wf2_copy x Hw))).
  apply wf2_filter_b. apply wf2_copy. apply wf2_copy. exact Hw.
Qed.

Lemma tail_of_real d x : wf2 x = true -> Helper.is_hole (tail_of true d x) = Helper.is_hole x.
Proof.
  intros Hw. unfold tail_of. destruct (Nat.eqb d 0); [apply is_hole_copy|].
  rewrite (depth_cut_x_true_filter d _ (wf2_copy _ (wf2_copy x Hw))), is_hole_filter_b, !is_hole_copy.
  reflexivity.
Qed.

(* ---- the guards: the start node is a node (BinaryNode: not an empty slot) ---- *)

Definition print_ok (bin : bool) (tsep : str) (t : tree) (st : pos) (s : str) : Prop :=
  (exists s0, subtree_at t st = Some s0 /\ (bin = true -> Helper.is_hole s0 = false)) /\
  tsep <> [] /\ strip_ok tsep s /\ (bin = true -> wf2 t = true).

(* what print_tree shows = `shown` of what get_subtree returns (exceptions: the same) *)
Theorem print_is_shown_of_get_subtree vst bin tsep t st s d :
  vstyle_ok vst = true -> vstyle_distinct vst = true -> print_ok bin tsep t st s ->
  print_obs vst (print_tree_at vst bin tsep t st s d) = shown_obs bin (obs_of (get_subtree_at bin tsep t st s d)).
Proof.
  intros Hok Hd [[s0 [Hst Hs0]] [Ht [Hs Hw]]]. unfold print_tree_at.
  destruct (get_subtree_at bin tsep t st s d) as [r|e] eqn:E; [|reflexivity].
  rewrite Hok. cbn [print_obs obs_of shown_obs]. f_equal.
  apply (print_of_result vst bin r Hok Hd). intros Hb.
  destruct (get_subtree_at_ret bin tsep t st s0 s d r Hst Hs0 E) as [q [x [Hx [Hrx ->]]]].
  subst bin. pose proof (wf2_subtree q t x (Hw eq_refl) Hx) as Wx. split.
  - apply wf2_holes_leaf. apply (tail_of_wf2 d x Wx).
  - rewrite (tail_of_real d x Wx). apply (Hrx eq_refl).
Qed.

(* ---- print_tree: the total outcome ---- *)

Theorem print_tree_at_total vst bin tsep t st s d :
  vstyle_ok vst = true -> vstyle_distinct vst = true -> print_ok bin tsep t st s ->
  print_obs vst (print_tree_at vst bin tsep t st s d) = expected_print_outcome bin tsep t st s d.
Proof.
  intros Hok Hd H. rewrite (print_is_shown_of_get_subtree vst bin tsep t st s d Hok Hd H).
  destruct H as [[s0 [Hst Hs0]] [Ht [Hs Hw]]].
  rewrite (get_subtree_at_total bin tsep t st s0 s d Hw Hst Ht Hs). symmetry. apply expected_print_of_subtree.
Qed.

(* a style that fails the length check: the exceptions of get_subtree still come first *)
Theorem print_tree_at_bad_style vst bin tsep t st s d :
  vstyle_ok vst = false ->
  print_tree_at vst bin tsep t st s d =
  match get_subtree_at bin tsep t st s d with Raise e => Raise e | Ret _ => Raise ValueError end.
Proof. intros H. unfold print_tree_at. rewrite H. reflexivity. Qed.

(* ---- the total outcome refines prop_C14_print ---- *)

(* Node trees: `shown` drops rows with an empty name; print_tree prints them.  The two agree when every
   node has a name (what the harness generates; see the refuted example in Props/C14_more2.v). *)
Definition all_named (t : tree) : bool := forallb (fun ps => negb (is_nil (tname (snd ps)))) (pre_pos t).

Lemma shown_x_named t q P :
  all_named t = true -> shown_x false (expected_gen false t q P) = shown (expected_gen false t q P).
Proof.
  intros Hn. unfold shown_x. rewrite shown_real. f_equal. symmetry. apply filter_all.
  intros l Hl. unfold expected_gen in Hl. apply in_map_iff in Hl as [ps [<- Hps]].
  apply filter_In in Hps as [Hps _]. unfold all_named in Hn. rewrite forallb_forall in Hn.
  apply (Hn ps Hps).
Qed.

Definition named_ok (bin : bool) (t : tree) : Prop := bin = false -> all_named t = true.

Lemma shown_x_shown bin t q P :
  named_ok bin t -> shown_x bin (expected_gen bin t q P) = shown (expected_gen bin t q P).
Proof. intros Hn. destruct bin; [reflexivity|]. apply shown_x_named. apply Hn. reflexivity. Qed.

Theorem expected_print_satisfies_prop bin tsep t st s d :
  named_ok bin t ->
  prop_C14_print bin tsep t st (CSubtree s d) (Some (expected_print_outcome bin tsep t st s d)) = true.
Proof.
  intros Hn. unfold prop_C14_print, expected_print_outcome. destruct (is_nil s).
  - apply is_tree_refl. apply shown_x_shown. exact Hn.
  - destruct (addressed_at bin tsep t st s) as [|q [|q' l]]; [reflexivity| |reflexivity].
    apply is_tree_refl. apply shown_x_shown. exact Hn.
Qed.

Theorem print_model_satisfies_prop vst bin tsep t st s d :
  vstyle_ok vst = true -> vstyle_distinct vst = true -> print_ok bin tsep t st s -> named_ok bin t ->
  prop_C14_print bin tsep t st (CSubtree s d) (Some (print_obs vst (print_tree_at vst bin tsep t st s d))) = true.
Proof.
  intros Hok Hd H Hn. rewrite (print_tree_at_total vst bin tsep t st s d Hok Hd H).
  apply expected_print_satisfies_prop. exact Hn.
Qed.

(* ---- the umbrella with the print observation: every call the harness makes ---- *)

(* the harness prints for get_subtree calls only *)
Definition print_call_at (vst : vstyle) (bin : bool) (tsep : str) (t : tree) (st : pos) (c : hcall)
  : option hobs :=
  match c with
  | CPrune _ _ _ _ => None
  | CSubtree s d => Some (print_obs vst (print_tree_at vst bin tsep t st s d))
  end.

Definition expected_print (bin : bool) (tsep : str) (t : tree) (st : pos) (c : hcall) : option hobs :=
  match c with
  | CPrune _ _ _ _ => None
  | CSubtree s d => Some (expected_print_outcome bin tsep t st s d)
  end.

(* case_ok + "the start node is a node" *)
Definition case_ok_print (bin : bool) (tsep : str) (t : tree) (st : pos) (call : hcall) : Prop :=
  case_ok bin tsep t st call /\
  (bin = true -> exists s0, subtree_at t st = Some s0 /\ Helper.is_hole s0 = false).

Lemma case_ok_print_ok bin tsep t st s d :
  case_ok_print bin tsep t st (CSubtree s d) -> print_ok bin tsep t st s.
Proof.
  intros [[[s0 Hst] [Ht [Hc Hw]]] Hr]. split; [|split; [exact Ht|split; [exact Hc|exact Hw]]].
  exists s0. split; [exact Hst|]. intros Hb. destruct (Hr Hb) as [s1 [H1 H2]].
  rewrite Hst in H1. inversion H1; subst. exact H2.
Qed.

Theorem total_C14_with_print vst bin tsep t st call :
  vstyle_ok vst = true -> vstyle_distinct vst = true -> case_ok_print bin tsep t st call ->
  obs_of (run_call_at bin tsep t st call) = expected_outcome bin tsep t st call /\
  print_call_at vst bin tsep t st call = expected_print bin tsep t st call.
Proof.
  intros Hok Hd H. split; [apply total_C14; exact (proj1 H)|].
  destruct call as [pp exact sep d|s d]; [reflexivity|]. cbn [print_call_at expected_print]. f_equal.
  apply (print_tree_at_total vst bin tsep t st s d Hok Hd). apply (case_ok_print_ok _ _ _ _ _ d H).
Qed.

(* the three property predicates the correspondence check evaluates (check_C14: prop_C14_at, prop_C14_top,
   prop_C14_print) hold of the models' outputs for every case of the modelled domain *)
Theorem umbrella_C14_with_print vst bin tsep t st call :
  vstyle_ok vst = true -> vstyle_distinct vst = true -> case_ok_print bin tsep t st call -> named_ok bin t ->
  prop_C14_at bin tsep t st call (obs_of (run_call_at bin tsep t st call))
  && prop_C14_top call (obs_of (run_call_at bin tsep t st call)) (top_depth st call)
  && prop_C14_print bin tsep t st call (print_call_at vst bin tsep t st call) = true.
Proof.
  intros Hok Hd H Hn. destruct (umbrella_C14 bin tsep t st call (proj1 H)) as [H1 H2].
  rewrite H1, H2. cbn [andb]. destruct call as [pp exact sep d|s d]; [reflexivity|].
  cbn [print_call_at]. apply (print_model_satisfies_prop vst bin tsep t st s d Hok Hd); [|exact Hn].
  apply (case_ok_print_ok _ _ _ _ _ d H).
Qed.

(* the built-in styles qualify *)
Lemma builtin_styles_ok :
  forallb (fun vst => vstyle_ok vst && vstyle_distinct vst)
          [vs_ansi; vs_ascii; vs_const; vs_const_bold; vs_rounded; vs_double] = true.
Proof. vm_compute. reflexivity. Qed.

(* ---- Node trees: the print model is the C18 model `Render.yield_tree` at the addressed position ----
   Algo/Render.v models yield_tree with the start node given as a position (the search is C09/C14's
   business).  For a Node tree the two models coincide: whenever get_subtree_at answers, it answers for a
   position q below the start node, and the printed lines are those of Render.yield_tree at q with the same
   depth limit (on the copy: identity tags cleared, so no node is mistaken for an empty slot). *)

Lemma copy_copy : forall t, copy_tree (copy_tree t) = copy_tree t.
Proof.
  induction t as [g n a ks IH] using tree_ind'. cbn [copy_tree]. f_equal. rewrite map_map.
  apply map_ext_in. intros k Hk. apply (Forall_In _ _ _ IH Hk).
Qed.

Lemma cut_prune : forall t k, cut k t = Render.prune (S k) t.
Proof.
  induction t as [g n a ks IH] using tree_ind'. intros [|k]; [reflexivity|].
  cbn [cut Render.prune]. f_equal. apply map_ext_in. intros c Hc. apply (Forall_In _ _ _ IH Hc).
Qed.

Lemma depth_cut_prune d t : depth_cut d t = Render.prune_depth d t.
Proof.
  destruct d as [|k]; [reflexivity|]. cbn [depth_cut Render.prune_depth].
  change (del_fold (level_pos k t) t = Render.prune (S k) t). rewrite del_level_cut. apply cut_prune.
Qed.

Lemma prune_SS m g n a ks :
  Render.prune (S (S m)) (T g n a ks) = T g n a (map (Render.prune (S m)) ks).
Proof. reflexivity. Qed.

Lemma prune_copy : forall t m, Render.prune m (copy_tree t) = copy_tree (Render.prune m t).
Proof.
  induction t as [g n a ks IH] using tree_ind'. intros [|[|m]]; try reflexivity.
  cbn [copy_tree]. rewrite !prune_SS. cbn [copy_tree]. f_equal. rewrite !map_map. apply map_ext_in. intros c Hc.
  apply (Forall_In _ _ _ IH Hc).
Qed.

Lemma prune_depth_copy d t : Render.prune_depth d (copy_tree t) = copy_tree (Render.prune_depth d t).
Proof. destruct d; [reflexivity|]. apply prune_copy. Qed.

Lemma compact_copy : forall t, Render.compact (copy_tree t) = copy_tree t.
Proof.
  induction t as [g n a ks IH] using tree_ind'. cbn [copy_tree Render.compact]. f_equal.
  induction IH as [|k r Hk Hr IHr]; [reflexivity|]. cbn [map].
  replace (Render.is_hole (copy_tree k)) with false by (destruct k; reflexivity).
  rewrite Hk, IHr. reflexivity.
Qed.

Lemma tail_of_false d x : tail_of false d x = copy_tree (Render.prune_depth d x).
Proof.
  unfold tail_of. destruct d as [|k]; [reflexivity|]. cbn [Nat.eqb].
  rewrite depth_cut_x_false, depth_cut_prune, copy_copy, prune_depth_copy. reflexivity.
Qed.

Theorem print_is_render_yield_tree vst tsep t st s0 s d r :
  subtree_at t st = Some s0 -> get_subtree_at false tsep t st s d = Ret r ->
  exists q, prefix st q /\
    match Render.yield_tree vst (copy_tree t) q d with
    | Ret ls => print_tree_at vst false tsep t st s d = Ret (map line_of ls)
    | Raise e => print_tree_at vst false tsep t st s d = Raise e
    end.
Proof.
  intros Hst E. pose proof E as E'.
  unfold get_subtree_at in E'. destruct (is_nil tsep); [discriminate|].
  assert (Hq : exists q x, prefix st q /\ subtree_at t q = Some x /\ r = tail_of false d x).
  { destruct (is_nil s).
    - rewrite subtree_at_copy, Hst in E'. cbn [option_map] in E'. exists st, s0.
      split; [apply prefix_refl|]. split; [exact Hst|]. unfold tail_of.
      destruct (Nat.eqb d 0); inversion E'; reflexivity.
    - unfold find_path_at in E'.
      destruct (find_paths_pos_at false tsep (copy_tree t) st s) as [|p [|p' l]] eqn:Ef; try discriminate.
      assert (Hp : In p (find_paths_pos_at false tsep (copy_tree t) st s)) by (rewrite Ef; left; reflexivity).
      unfold find_paths_pos_at in Hp. apply filter_In in Hp as [Hp _].
      unfold search_space in Hp. rewrite subtree_at_copy, Hst in Hp. cbn [option_map] in Hp.
      apply in_map_iff in Hp as [p0 [<- _]].
      rewrite subtree_at_copy in E'. destruct (subtree_at t (st ++ p0)) as [x|] eqn:Ex; [|discriminate].
      cbn [option_map] in E'. exists (st ++ p0), x. split; [apply prefix_app_l|]. split; [exact Ex|].
      unfold tail_of. destruct (Nat.eqb d 0); inversion E'; reflexivity. }
  destruct Hq as [q [x [Hpre [Hx ->]]]]. exists q. split; [exact Hpre|].
  unfold Render.yield_tree, Render.get_subtree, print_tree_at. rewrite E, subtree_at_copy, Hx.
  cbn [option_map]. replace (Render.is_hole (copy_tree x)) with false by (destruct x; reflexivity).
  destruct (vstyle_ok vst); [|reflexivity].
  rewrite prune_depth_copy, compact_copy, tail_of_false. reflexivity.
Qed.
