(* Proofs about the models of Algo/DagAlgo.v and Algo/DagIO.v against the graph-theoretic
   definitions of Spec/PC16.v (the theorems are restated one by one in Props/C16.v, Props/C17.v). *)
From BT Require Import Base.Prelude Base.Str Base.Rose Algo.DagAlgo Algo.DagIO Spec.PC16 Spec.PC17.

(* ------------------------------------------------------------------------------------------- *)
(* small facts *)

Lemma smem_In s l : smem s l = true <-> In s l.
Proof.
  unfold smem. rewrite existsb_exists. split.
  - intros [y [Hy He]]. apply str_eqb_eq in He. subst. exact Hy.
  - intros H. exists s. split; [exact H|apply str_eqb_refl].
Qed.

Lemma smem_false s l : smem s l = false <-> ~ In s l.
Proof.
  split.
  - intros H Hin. apply smem_In in Hin. congruence.
  - intros H. destruct (smem s l) eqn:E; [apply smem_In in E; contradiction|reflexivity].
Qed.

Lemma memb_In x l : memb x l = true <-> In x l.
Proof.
  unfold memb. rewrite existsb_exists. split.
  - intros [y [Hy He]]. apply Nat.eqb_eq in He. subst. exact Hy.
  - intros H. exists x. split; [exact H|apply Nat.eqb_refl].
Qed.

Lemma memb_false x l : memb x l = false <-> ~ In x l.
Proof.
  split.
  - intros H Hin. apply memb_In in Hin. congruence.
  - intros H. destruct (memb x l) eqn:E; [apply memb_In in E; contradiction|reflexivity].
Qed.

Lemma in_ids g x : In x (ids g) <-> x < dsize g.
Proof. unfold ids. rewrite in_seq. lia. Qed.

Lemma filter_length_le {A} (f f' : A -> bool) l :
  (forall y, In y l -> f' y = true -> f y = true) ->
  length (filter f' l) <= length (filter f l).
Proof.
  induction l as [|a l IH]; intros H; cbn; [lia|].
  assert (IH' := IH (fun y Hy => H y (or_intror Hy))).
  destruct (f' a) eqn:E1.
  - rewrite (H a (or_introl eq_refl) E1). cbn. lia.
  - destruct (f a); cbn; lia.
Qed.

Lemma filter_length_lt {A} (f f' : A -> bool) l x :
  (forall y, In y l -> f' y = true -> f y = true) ->
  In x l -> f x = true -> f' x = false ->
  length (filter f' l) < length (filter f l).
Proof.
  induction l as [|a l IH]; intros H Hin Hf Hf'; [contradiction|].
  cbn. destruct Hin as [->|Hin].
  - rewrite Hf, Hf'. cbn.
    assert (L := filter_length_le f f' l (fun y Hy => H y (or_intror Hy))). lia.
  - assert (IH' := IH (fun y Hy => H y (or_intror Hy)) Hin Hf Hf').
    destruct (f' a) eqn:E1.
    + rewrite (H a (or_introl eq_refl) E1). cbn. lia.
    + destruct (f a); cbn; lia.
Qed.

Lemma last_default (s : list id) : forall a d d', last (a :: s) d = last (a :: s) d'.
Proof.
  induction s as [|b s IH]; intros a d d'; [reflexivity|].
  change (last (a :: b :: s) d) with (last (b :: s) d).
  change (last (a :: b :: s) d') with (last (b :: s) d'). apply IH.
Qed.

Lemma last_cons2 (c c' : id) s x : last (c :: c' :: s) x = last (c' :: s) c.
Proof. change (last (c :: c' :: s) x) with (last (c' :: s) x). apply last_default. Qed.

Lemma NoDup_app_intro {A} (l1 l2 : list A) :
  NoDup l1 -> NoDup l2 -> (forall x, In x l1 -> In x l2 -> False) -> NoDup (l1 ++ l2).
Proof.
  induction 1 as [|a l Hn Hd IH]; intros H2 Hdis; cbn; [exact H2|].
  constructor.
  - intros H. apply in_app_or in H as [H|H]; [contradiction|].
    apply (Hdis a); [left; reflexivity|exact H].
  - apply IH; [exact H2|]. intros x H1 H3. apply (Hdis x); [right; exact H1|exact H3].
Qed.

(* ------------------------------------------------------------------------------------------- *)
(* dict.fromkeys *)

Lemma dedup_acc_In seen l x : In x (dedup_acc seen l) <-> In x l /\ ~ In x seen.
Proof.
  revert seen; induction l as [|a l IH]; intros seen; cbn.
  - tauto.
  - destruct (memb a seen) eqn:E.
    + apply memb_In in E. rewrite IH. split.
      * intros [H1 H2]. tauto.
      * intros [[->|H1] H2]; [contradiction|tauto].
    + apply memb_false in E. cbn. rewrite IH. cbn. split.
      * intros [->|[H1 H2]]; [tauto|]. split; [tauto|]. intros H3. apply H2. right. exact H3.
      * intros [[->|H1] H2]; [left; reflexivity|].
        destruct (Nat.eq_dec a x) as [->|Hne]; [left; reflexivity|].
        right. split; [exact H1|]. intros [H3|H3]; [contradiction|contradiction].
Qed.

Lemma dedup_acc_NoDup seen l : NoDup (dedup_acc seen l).
Proof.
  revert seen; induction l as [|a l IH]; intros seen; cbn; [constructor|].
  destruct (memb a seen); [apply IH|].
  constructor; [|apply IH].
  rewrite dedup_acc_In. intros [_ H]. apply H. left. reflexivity.
Qed.

Lemma dedup_In l x : In x (dedup l) <-> In x l.
Proof. unfold dedup. rewrite dedup_acc_In. cbn. tauto. Qed.
Lemma dedup_NoDup l : NoDup (dedup l).
Proof. apply dedup_acc_NoDup. Qed.

(* ------------------------------------------------------------------------------------------- *)
(* reachability *)

Lemma Reach_snoc g a p x : Reach g a p -> Edge g p x -> Reach g a x.
Proof.
  induction 1 as [a b Hab|a c b Hac Hcb IH]; intros He.
  - eapply ReachS; [exact Hab|]. apply Reach1. exact He.
  - eapply ReachS; [exact Hac|]. apply IH. exact He.
Qed.

Lemma Reach_last g a x : Reach g a x -> exists p, Edge g p x /\ (a = p \/ Reach g a p).
Proof.
  induction 1 as [a b Hab|a c b Hac Hcb IH].
  - exists a. split; [exact Hab|left; reflexivity].
  - destruct IH as [p [Hp [->|Hr]]].
    + exists p. split; [exact Hp|]. right. apply Reach1. exact Hac.
    + exists p. split; [exact Hp|]. right. eapply ReachS; eauto.
Qed.

Lemma Reach_trans g a b c : Reach g a b -> Reach g b c -> Reach g a c.
Proof.
  induction 1 as [a b Hab|a d b Had Hdb IH]; intros H.
  - eapply ReachS; eauto.
  - eapply ReachS; [exact Had|]. apply IH. exact H.
Qed.

Lemma Reach_rank g r a b : Ranked g r -> Reach g a b -> r a < r b.
Proof.
  intros [Hr _]. induction 1 as [a b Hab|a c b Hac Hcb IH].
  - apply Hr. exact Hab.
  - apply Hr in Hac. lia.
Qed.

Lemma Ranked_irrefl g r x : Ranked g r -> ~ Reach g x x.
Proof. intros Hr H. apply (Reach_rank g r) in H; [lia|exact Hr]. Qed.

Lemma Ranked_no_loop g r x : Ranked g r -> ~ Edge g x x.
Proof. intros Hr H. apply (Ranked_irrefl g r x Hr). apply Reach1. exact H. Qed.

(* ------------------------------------------------------------------------------------------- *)
(* dag_iterator: soundness and absence of repetition *)

Section Iter.
  Variable g : dag.
  Hypothesis WF : Wf g.
  Let nm := name g.

  Record Seg (vis : list str) (out : list edge) (vis' : list str) : Prop := {
    seg_mono  : incl vis vis';
    seg_edge  : forall a b, In (a, b) out -> Edge g a b;
    seg_fresh : forall a b, In (a, b) out -> ~ In (nm a) vis /\ ~ In (nm b) vis;
    seg_cover : forall a b, In (a, b) out -> In (nm a) vis' /\ In (nm b) vis';
    seg_nodup : NoDup out
  }.

  Lemma seg_nil v : Seg v [] v.
  Proof. constructor; try (intros a b []); [apply incl_refl|constructor]. Qed.

  Lemma seg_app v0 o1 v1 o2 v2 : Seg v0 o1 v1 -> Seg v1 o2 v2 -> Seg v0 (o1 ++ o2) v2.
  Proof.
    intros S1 S2. constructor.
    - eapply incl_tran; [apply (seg_mono _ _ _ S1)|apply (seg_mono _ _ _ S2)].
    - intros a b H. apply in_app_or in H as [H|H];
        [apply (seg_edge _ _ _ S1 a b H)|apply (seg_edge _ _ _ S2 a b H)].
    - intros a b H. apply in_app_or in H as [H|H].
      + apply (seg_fresh _ _ _ S1 a b H).
      + destruct (seg_fresh _ _ _ S2 a b H) as [Ha Hb].
        split; intros Hin; [apply Ha|apply Hb]; apply (seg_mono _ _ _ S1); exact Hin.
    - intros a b H. apply in_app_or in H as [H|H].
      + destruct (seg_cover _ _ _ S1 a b H) as [Ha Hb].
        split; apply (seg_mono _ _ _ S2); assumption.
      + apply (seg_cover _ _ _ S2 a b H).
    - apply NoDup_app_intro; [apply (seg_nodup _ _ _ S1)|apply (seg_nodup _ _ _ S2)|].
      intros [a b] H1 H2.
      destruct (seg_cover _ _ _ S1 a b H1) as [Ha _].
      destruct (seg_fresh _ _ _ S2 a b H2) as [Ha' _]. contradiction.
  Qed.

  Definition WSpec (W : id -> list str -> list edge * list str) : Prop :=
    forall y vis, ~ In (nm y) vis ->
      Seg vis (fst (W y vis)) (snd (W y vis)) /\ In (nm y) (snd (W y vis)).

  Lemma visit_list_seg W l : WSpec W -> forall vis,
    Seg vis (fst (visit_list W nm l vis)) (snd (visit_list W nm l vis))
    /\ forall y, In y l -> In (nm y) (snd (visit_list W nm l vis)).
  Proof.
    intros HW. induction l as [|y t IH]; intros vis; cbn [visit_list].
    - split; [apply seg_nil|intros y []].
    - destruct (smem (nm y) vis) eqn:E.
      + destruct (IH vis) as [S1 C1]. split; [exact S1|].
        intros z [<-|Hz]; [|apply C1; exact Hz].
        apply smem_In in E. apply (seg_mono _ _ _ S1). exact E.
      + apply smem_false in E. destruct (HW y vis E) as [S0 C0].
        destruct (IH (snd (W y vis))) as [S1 C1]. cbn [fst snd]. split.
        * eapply seg_app; eauto.
        * intros z [<-|Hz]; [|apply C1; exact Hz].
          apply (seg_mono _ _ _ S1). exact C0.
  Qed.

  Lemma in_up x vis1 a b :
    In (a, b) (map (fun p => (p, x)) (filter (fun p => negb (smem (nm p) vis1)) (parents g x))) <->
    b = x /\ In a (parents g x) /\ ~ In (nm a) vis1.
  Proof.
    rewrite in_map_iff. split.
    - intros [p [Hp Hin]]. inversion Hp; subst. apply filter_In in Hin as [H1 H2].
      apply negb_true_iff in H2. apply smem_false in H2. tauto.
    - intros [-> [H1 H2]]. exists a. split; [reflexivity|]. apply filter_In. split; [exact H1|].
      apply negb_true_iff. apply smem_false. exact H2.
  Qed.

  Lemma in_down x vis1 a b :
    In (a, b) (map (fun c => (x, c)) (filter (fun c => negb (smem (nm c) vis1)) (children g x))) <->
    a = x /\ In b (children g x) /\ ~ In (nm b) vis1.
  Proof.
    rewrite in_map_iff. split.
    - intros [p [Hp Hin]]. inversion Hp; subst. apply filter_In in Hin as [H1 H2].
      apply negb_true_iff in H2. apply smem_false in H2. tauto.
    - intros [-> [H1 H2]]. exists b. split; [reflexivity|]. apply filter_In. split; [exact H1|].
      apply negb_true_iff. apply smem_false. exact H2.
  Qed.

  Lemma NoDup_map_inj {A B} (f : A -> B) l :
    (forall a b, f a = f b -> a = b) -> NoDup l -> NoDup (map f l).
  Proof.
    intros Hf. induction 1 as [|a l Hn Hd IH]; cbn; constructor; [|exact IH].
    intros H. apply in_map_iff in H as [b [Hb Hin]]. apply Hf in Hb. subst. contradiction.
  Qed.

  Lemma walk_spec : forall f, WSpec (walk f g).
  Proof.
    induction f as [|f IH]; intros x vis Hx.
    - cbn [walk fst snd]. split; [|left; reflexivity].
      constructor; try (intros a b []); [apply incl_tl, incl_refl|constructor].
    - cbn [walk]. fold nm.
      set (vis1 := nm x :: vis).
      set (up := map (fun p => (p, x)) (filter (fun p => negb (smem (nm p) vis1)) (parents g x))).
      set (down := map (fun c => (x, c)) (filter (fun c => negb (smem (nm c) vis1)) (children g x))).
      destruct (visit_list_seg (walk f g) (parents g x) IH vis1) as [S3 C3].
      set (r3 := visit_list (walk f g) nm (parents g x) vis1) in *.
      destruct (visit_list_seg (walk f g) (children g x) IH (snd r3)) as [S4 C4].
      set (r4 := visit_list (walk f g) nm (children g x) (snd r3)) in *.
      cbn [fst snd].
      assert (S34 : Seg vis1 (fst r3 ++ fst r4) (snd r4)) by (eapply seg_app; eauto).
      assert (M1 : incl vis vis1) by (apply incl_tl, incl_refl).
      assert (Hx4 : In (nm x) (snd r4)).
      { apply (seg_mono _ _ _ S34). left. reflexivity. }
      split; [|exact Hx4].
      constructor.
      + eapply incl_tran; [exact M1|apply (seg_mono _ _ _ S34)].
      + intros a b H. apply in_app_or in H as [H|H].
        { apply in_up in H as [-> [H1 _]]. apply (wf_sym g WF). exact H1. }
        apply in_app_or in H as [H|H].
        { apply in_down in H as [-> [H1 _]]. exact H1. }
        eapply seg_edge; eauto.
      + intros a b H. apply in_app_or in H as [H|H].
        { apply in_up in H as [-> [_ H2]]. split; [|exact Hx]. intros Hin. apply H2. right. exact Hin. }
        apply in_app_or in H as [H|H].
        { apply in_down in H as [-> [_ H2]]. split; [exact Hx|]. intros Hin. apply H2. right. exact Hin. }
        destruct (seg_fresh _ _ _ S34 a b H) as [Ha Hb].
        split; intros Hin; [apply Ha|apply Hb]; right; exact Hin.
      + intros a b H. apply in_app_or in H as [H|H].
        { apply in_up in H as [-> [H1 _]]. split; [|exact Hx4].
          apply (seg_mono _ _ _ S4). apply C3. exact H1. }
        apply in_app_or in H as [H|H].
        { apply in_down in H as [-> [H1 _]]. split; [exact Hx4|]. apply C4. exact H1. }
        eapply seg_cover; eauto.
      + apply NoDup_app_intro.
        { apply NoDup_map_inj; [intros a b E; inversion E; reflexivity|].
          apply NoDup_filter. apply (wf_par_nodup g WF). }
        { apply NoDup_app_intro.
          - apply NoDup_map_inj; [intros a b E; inversion E; reflexivity|].
            apply NoDup_filter. apply (wf_kid_nodup g WF).
          - apply (seg_nodup _ _ _ S34).
          - intros [a b] H1 H2. apply in_down in H1 as [-> [_ _]].
            destruct (seg_fresh _ _ _ S34 x b H2) as [Ha _]. apply Ha. left. reflexivity. }
        intros [a b] H1 H2. apply in_up in H1 as [-> [_ Hna]].
        apply in_app_or in H2 as [H2|H2].
        { apply in_down in H2 as [-> _]. apply Hna. left. reflexivity. }
        destruct (seg_fresh _ _ _ S34 a x H2) as [_ Hb]. apply Hb. left. reflexivity.
  Qed.

  Lemma iter_seg x : exists V, Seg [] (dag_iterator g x) V /\ In (nm x) V.
  Proof.
    unfold dag_iterator. exists (snd (walk (S (dsize g)) g x [])).
    apply walk_spec. intros [].
  Qed.

  Theorem iter_sound x a b : In (a, b) (dag_iterator g x) -> Edge g a b.
  Proof. destruct (iter_seg x) as [V [S _]]. apply (seg_edge _ _ _ S). Qed.

  Theorem iter_nodup x : NoDup (dag_iterator g x).
  Proof. destruct (iter_seg x) as [V [S _]]. apply (seg_nodup _ _ _ S). Qed.

  (* ----------------------------------------------------------------------------------------- *)
  (* completeness: distinct names, no self loop, enough fuel *)

  Hypothesis DN : DistinctNames g.
  Hypothesis NL : forall x, ~ Edge g x x.

  Definition unvisited (vis : list str) : list id := filter (fun y => negb (smem (nm y) vis)) (ids g).

  Lemma unvisited_le vis vis' : incl vis vis' -> length (unvisited vis') <= length (unvisited vis).
  Proof.
    intros H. apply filter_length_le. intros y _ Hy.
    apply negb_true_iff in Hy. apply smem_false in Hy.
    apply negb_true_iff. apply smem_false. intros Hin. apply Hy. apply H. exact Hin.
  Qed.

  Lemma unvisited_lt vis vis' x :
    incl vis vis' -> x < dsize g -> ~ In (nm x) vis -> In (nm x) vis' ->
    length (unvisited vis') < length (unvisited vis).
  Proof.
    intros H Hx Hn Hi. apply filter_length_lt with (x := x).
    - intros y _ Hy. apply negb_true_iff in Hy. apply smem_false in Hy.
      apply negb_true_iff. apply smem_false. intros Hin. apply Hy. apply H. exact Hin.
    - apply in_ids. exact Hx.
    - apply negb_true_iff. apply smem_false. exact Hn.
    - apply negb_false_iff. apply smem_In. exact Hi.
  Qed.

  Record Clo (vis : list str) (out : list edge) (vis' : list str) : Prop := {
    clo_nb : forall y z, y < dsize g -> In (nm y) vis' -> ~ In (nm y) vis -> Adj g y z -> In (nm z) vis';
    clo_edges : forall a b, Edge g a b -> In (nm a) vis' -> ~ In (nm a) vis ->
                            In (nm b) vis' -> ~ In (nm b) vis -> In (a, b) out
  }.

  Lemma In_dec_str (s : str) l : In s l \/ ~ In s l.
  Proof. destruct (smem s l) eqn:E; [left; apply smem_In; exact E|right; apply smem_false; exact E]. Qed.

  Lemma edge_range a b : Edge g a b -> a < dsize g /\ b < dsize g.
  Proof. intros H. split; [eapply wf_kid_src; eauto|eapply wf_kid_range; eauto]. Qed.

  Lemma clo_nil v : Clo v [] v.
  Proof. constructor; intros; contradiction. Qed.

  Lemma clo_app v0 o1 v1 o2 v2 :
    incl v0 v1 -> incl v1 v2 -> Clo v0 o1 v1 -> Clo v1 o2 v2 -> Clo v0 (o1 ++ o2) v2.
  Proof.
    intros M1 M2 C1 C2. constructor.
    - intros y z Hy Hi Hn Hadj. destruct (In_dec_str (nm y) v1) as [H1|H1].
      + apply M2. eapply (clo_nb _ _ _ C1); eauto.
      + eapply (clo_nb _ _ _ C2); eauto.
    - intros a b He Ha Hna Hb Hnb. apply in_or_app.
      destruct (edge_range a b He) as [Ra Rb].
      destruct (In_dec_str (nm a) v1) as [A1|A1]; destruct (In_dec_str (nm b) v1) as [B1|B1].
      + left. eapply (clo_edges _ _ _ C1); eauto.
      + exfalso. apply B1. eapply (clo_nb _ _ _ C1 a b); eauto. left. exact He.
      + exfalso. apply A1. eapply (clo_nb _ _ _ C1 b a); eauto. right. exact He.
      + right. eapply (clo_edges _ _ _ C2); eauto.
  Qed.

  Definition WClo (W : id -> list str -> list edge * list str) (k : nat) : Prop :=
    forall y vis, y < dsize g -> ~ In (nm y) vis -> length (unvisited vis) <= k ->
      Clo vis (fst (W y vis)) (snd (W y vis)).

  Lemma visit_list_clo W k l : WSpec W -> WClo W k ->
    (forall y, In y l -> y < dsize g) ->
    forall vis, length (unvisited vis) <= k ->
    Clo vis (fst (visit_list W nm l vis)) (snd (visit_list W nm l vis)).
  Proof.
    intros HW HC. induction l as [|y t IH]; intros Hr vis Hk; cbn [visit_list].
    - apply clo_nil.
    - assert (Hr' : forall z, In z t -> z < dsize g) by (intros z Hz; apply Hr; right; exact Hz).
      destruct (smem (nm y) vis) eqn:E.
      + apply IH; assumption.
      + apply smem_false in E. destruct (HW y vis E) as [S0 C0]. cbn [fst snd].
        assert (M0 := seg_mono _ _ _ S0).
        assert (Hk' : length (unvisited (snd (W y vis))) <= k).
        { eapply Nat.le_trans; [apply unvisited_le; exact M0|exact Hk]. }
        destruct (visit_list_seg W t HW (snd (W y vis))) as [S1 _].
        eapply clo_app; [exact M0|apply (seg_mono _ _ _ S1)| |apply IH; assumption].
        apply HC; [apply Hr; left; reflexivity|exact E|exact Hk].
  Qed.

  Lemma walk_clo : forall f, WClo (walk f g) f.
  Proof.
    induction f as [|f IH]; intros x vis Hx Hn Hk.
    - exfalso. assert (L : length (unvisited (nm x :: vis)) < length (unvisited vis)).
      { apply unvisited_lt with (x := x); [apply incl_tl, incl_refl|exact Hx|exact Hn|left; reflexivity]. }
      lia.
    - cbn [walk]. fold nm.
      set (vis1 := nm x :: vis).
      set (up := map (fun p => (p, x)) (filter (fun p => negb (smem (nm p) vis1)) (parents g x))).
      set (down := map (fun c => (x, c)) (filter (fun c => negb (smem (nm c) vis1)) (children g x))).
      assert (M1 : incl vis vis1) by (apply incl_tl, incl_refl).
      assert (K1 : length (unvisited vis1) <= f).
      { assert (L : length (unvisited vis1) < length (unvisited vis)).
        { apply unvisited_lt with (x := x); [exact M1|exact Hx|exact Hn|left; reflexivity]. }
        lia. }
      assert (RP : forall y, In y (parents g x) -> y < dsize g) by (intros y Hy; eapply wf_par_range; eauto).
      assert (RC : forall y, In y (children g x) -> y < dsize g) by (intros y Hy; eapply wf_kid_range; eauto).
      destruct (visit_list_seg (walk f g) (parents g x) (walk_spec f) vis1) as [S3 C3].
      assert (Cl3 := visit_list_clo (walk f g) f (parents g x) (walk_spec f) IH RP vis1 K1).
      set (r3 := visit_list (walk f g) nm (parents g x) vis1) in *.
      assert (K3 : length (unvisited (snd r3)) <= f).
      { eapply Nat.le_trans; [apply unvisited_le; apply (seg_mono _ _ _ S3)|exact K1]. }
      destruct (visit_list_seg (walk f g) (children g x) (walk_spec f) (snd r3)) as [S4 C4].
      assert (Cl4 := visit_list_clo (walk f g) f (children g x) (walk_spec f) IH RC (snd r3) K3).
      set (r4 := visit_list (walk f g) nm (children g x) (snd r3)) in *.
      cbn [fst snd].
      assert (Cl34 : Clo vis1 (fst r3 ++ fst r4) (snd r4)).
      { eapply clo_app; [apply (seg_mono _ _ _ S3)|apply (seg_mono _ _ _ S4)|exact Cl3|exact Cl4]. }
      assert (M34 : incl vis1 (snd r4)).
      { eapply incl_tran; [apply (seg_mono _ _ _ S3)|apply (seg_mono _ _ _ S4)]. }
      assert (same : forall y, y < dsize g -> nm y = nm x -> y = x).
      { intros y Hy E. apply DN; assumption. }
      constructor.
      + intros y z Hy Hi Hny Hadj.
        destruct (str_eqb (nm y) (nm x)) eqn:E.
        * apply str_eqb_eq in E. apply same in E; [|exact Hy]. subst y.
          destruct Hadj as [He|He].
          { apply C4. exact He. }
          { apply (seg_mono _ _ _ S4). apply C3. apply (wf_sym g WF). exact He. }
        * apply str_eqb_neq in E.
          eapply (clo_nb _ _ _ Cl34 y z); eauto.
          intros [H|H]; [apply E; symmetry; exact H|contradiction].
      + intros a b He Ha Hna Hb Hnb.
        destruct (edge_range a b He) as [Ra Rb].
        destruct (str_eqb (nm a) (nm x)) eqn:EA.
        * apply str_eqb_eq in EA. apply same in EA; [|exact Ra]. subst a.
          apply in_or_app. right. apply in_or_app. left. apply in_down.
          split; [reflexivity|]. split; [exact He|].
          intros [H|H]; [|contradiction].
          assert (b = x) by (apply same; [exact Rb|symmetry; exact H]). subst b. exact (NL x He).
        * apply str_eqb_neq in EA.
          destruct (str_eqb (nm b) (nm x)) eqn:EB.
          { apply str_eqb_eq in EB. apply same in EB; [|exact Rb]. subst b.
            apply in_or_app. left. apply in_up.
            split; [reflexivity|]. split; [apply (wf_sym g WF); exact He|].
            intros [H|H]; [apply EA; symmetry; exact H|contradiction]. }
          apply str_eqb_neq in EB.
          apply in_or_app. right. apply in_or_app. right.
          eapply (clo_edges _ _ _ Cl34 a b); eauto.
          { intros [H|H]; [apply EA; symmetry; exact H|contradiction]. }
          { intros [H|H]; [apply EB; symmetry; exact H|contradiction]. }
  Qed.

  Lemma unvisited_nil : length (unvisited []) = dsize g.
  Proof.
    unfold unvisited.
    assert (E : forall l, filter (fun y => negb (smem (nm y) [])) l = l).
    { induction l as [|a l IH]; cbn; [reflexivity|]. f_equal. exact IH. }
    rewrite E. unfold ids. apply seq_length.
  Qed.

  Theorem iter_complete x a b :
    WeaklyConnected g -> x < dsize g -> Edge g a b -> In (a, b) (dag_iterator g x).
  Proof.
    intros WC Hx He.
    destruct (walk_spec (S (dsize g)) x [] (fun H => H)) as [S0 Hx0].
    assert (C0 : Clo [] (fst (walk (S (dsize g)) g x [])) (snd (walk (S (dsize g)) g x []))).
    { apply walk_clo; [exact Hx|intros []|rewrite unvisited_nil; lia]. }
    set (V := snd (walk (S (dsize g)) g x [])) in *.
    assert (All : forall x0 y, UReach g x0 y -> x0 < dsize g -> In (nm x0) V -> y < dsize g /\ In (nm y) V).
    { intros x0 y HU. induction HU as [a0|a0 c b0 Hu IH Hadj]; intros R0 I0.
      - split; assumption.
      - destruct (IH R0 I0) as [Rc Ic].
        split.
        + destruct Hadj as [H|H]; apply edge_range in H; tauto.
        + eapply (clo_nb _ _ _ C0 c b0); eauto. }
    destruct (edge_range a b He) as [Ra Rb].
    unfold dag_iterator.
    eapply (clo_edges _ _ _ C0 a b); eauto.
    - apply (All x a); [apply WC; assumption|exact Hx|exact Hx0].
    - apply (All x b); [apply WC; assumption|exact Hx|exact Hx0].
  Qed.
End Iter.

(* ------------------------------------------------------------------------------------------- *)
(* ancestors / descendants / siblings *)

Section Queries.
  Variable g : dag.
  Variable r : id -> nat.
  Hypothesis WF : Wf g.
  Hypothesis RK : Ranked g r.

  Lemma anc_raw_spec : forall f x a, r x < f -> (In a (anc_raw f g x) <-> Reach g a x).
  Proof.
    induction f as [|f IH]; intros x a Hf; [lia|].
    cbn [anc_raw]. rewrite in_flat_map. split.
    - intros [p [Hp Hin]]. assert (He : Edge g p x) by (apply (wf_sym g WF); exact Hp).
      apply in_app_or in Hin as [Hin|[<-|[]]].
      + apply IH in Hin.
        * eapply Reach_snoc; eauto.
        * destruct RK as [Hr _]. apply Hr in He. lia.
      + apply Reach1. exact He.
    - intros HR. apply Reach_last in HR as [p [He Hor]].
      exists p. split; [apply (wf_sym g WF); exact He|].
      apply in_or_app. destruct Hor as [->|HR]; [right; left; reflexivity|].
      left. apply IH; [|exact HR]. destruct RK as [Hr _]. apply Hr in He. lia.
  Qed.

  Theorem ancestors_reach x a : In a (ancestors g x) <-> Reach g a x.
  Proof.
    unfold ancestors. rewrite dedup_In. apply anc_raw_spec. destruct RK as [_ Hb]. apply Hb.
  Qed.

  Theorem ancestors_nodup x : NoDup (ancestors g x).
  Proof. apply dedup_NoDup. Qed.

  Lemma pre_raw_spec : forall f x d, dsize g - r x <= f -> (In d (pre_raw f g x) <-> d = x \/ Reach g x d).
  Proof.
    destruct RK as [Hr Hb].
    induction f as [|f IH]; intros x d Hf; [specialize (Hb x); lia|].
    cbn [pre_raw In]. rewrite in_flat_map. split.
    - intros [->|[c [Hc Hin]]]; [left; reflexivity|]. right.
      apply IH in Hin.
      + destruct Hin as [->|HR]; [apply Reach1; exact Hc|eapply ReachS; eauto].
      + assert (Hlt := Hr x c Hc). specialize (Hb c). lia.
    - intros [->|HR]; [left; reflexivity|]. right.
      inversion HR as [a0 b0 He|a0 c b0 He HR']; subst.
      + exists d. split; [exact He|]. apply IH; [|left; reflexivity].
        assert (Hlt := Hr x d He). specialize (Hb d). lia.
      + exists c. split; [exact He|]. apply IH; [|right; exact HR'].
        assert (Hlt := Hr x c He). specialize (Hb c). lia.
  Qed.

  Theorem descendants_reach x d : In d (descendants g x) <-> Reach g x d.
  Proof.
    unfold descendants. rewrite dedup_In, filter_In, pre_raw_spec by lia. split.
    - intros [[->|HR] Hne]; [|exact HR]. rewrite Nat.eqb_refl in Hne. discriminate.
    - intros HR. split; [right; exact HR|].
      apply negb_true_iff. apply Nat.eqb_neq. intros ->. exact (Ranked_irrefl g r x RK HR).
  Qed.

  Theorem descendants_nodup x : NoDup (descendants g x).
  Proof. apply dedup_NoDup. Qed.

  Theorem siblings_spec x s :
    In s (siblings g x) <-> s <> x /\ exists p, Edge g p x /\ Edge g p s.
  Proof.
    unfold siblings.
    assert (E : In s (flat_map (fun p => filter (fun c => negb (Nat.eqb c x)) (children g p)) (parents g x))
                <-> s <> x /\ exists p, Edge g p x /\ Edge g p s).
    { rewrite in_flat_map. split.
      - intros [p [Hp Hin]]. apply filter_In in Hin as [Hc Hne].
        apply negb_true_iff, Nat.eqb_neq in Hne. split; [exact Hne|].
        exists p. split; [apply (wf_sym g WF); exact Hp|exact Hc].
      - intros [Hne [p [Hp Hs]]]. exists p. split; [apply (wf_sym g WF); exact Hp|].
        apply filter_In. split; [exact Hs|]. apply negb_true_iff, Nat.eqb_neq. exact Hne. }
    destruct (parents g x) eqn:EP; [|exact E].
    cbn in E. exact E.
  Qed.

  (* ----------------------------------------------------------------------------------------- *)
  (* go_to *)

  Definition PathFrom (x t : id) (sigma : list id) : Prop := Chain g (x :: sigma) /\ last sigma x = t.

  Lemma chain_reach : forall sigma x, sigma <> [] -> Chain g (x :: sigma) -> Reach g x (last sigma x).
  Proof.
    induction sigma as [|c s IH]; intros x Hne Hc; [contradiction|].
    destruct Hc as [He Hc]. destruct s as [|c' s'].
    - cbn. apply Reach1. exact He.
    - assert (H := IH c (fun E => ltac:(discriminate E)) Hc).
      rewrite last_cons2. eapply ReachS; eauto.
  Qed.

  Lemma rec_path_spec : forall f t x path pi,
    dsize g - r x <= f -> x <> t ->
    (In pi (rec_path f g t x path) <-> exists sigma, pi = path ++ sigma /\ sigma <> [] /\ PathFrom x t sigma).
  Proof.
    destruct RK as [Hr Hb].
    induction f as [|f IH]; intros t x path pi Hf Hne; [specialize (Hb x); lia|].
    cbn [rec_path]. rewrite in_flat_map. split.
    - intros [c [Hc Hin]]. destruct (Nat.eqb c t) eqn:E.
      + apply Nat.eqb_eq in E. subst c. destruct Hin as [<-|[]].
        exists [t]. split; [reflexivity|]. split; [discriminate|]. split; [cbn; tauto|reflexivity].
      + apply Nat.eqb_neq in E. apply IH in Hin; [|assert (Hlt := Hr x c Hc); specialize (Hb c); lia|exact E].
        destruct Hin as [sg [-> [Hsg [Hch Hl]]]].
        exists (c :: sg). split; [rewrite <- app_assoc; reflexivity|]. split; [discriminate|].
        split.
        * cbn [Chain]. split; [exact Hc|exact Hch].
        * destruct sg as [|c' sg']; [contradiction|]. rewrite last_cons2. exact Hl.
    - intros [sg [-> [Hsg [Hch Hl]]]]. destruct sg as [|c sg]; [contradiction|].
      destruct Hch as [He Hch]. exists c. split; [exact He|].
      destruct (Nat.eqb c t) eqn:E.
      + apply Nat.eqb_eq in E. subst c. destruct sg as [|c' sg'].
        * left. reflexivity.
        * exfalso. assert (HR := chain_reach (c' :: sg') t (fun E => ltac:(discriminate E)) Hch).
          rewrite last_cons2 in Hl. rewrite Hl in HR.
          exact (Ranked_irrefl g r t RK HR).
      + apply Nat.eqb_neq in E. apply IH; [assert (Hlt := Hr x c He); specialize (Hb c); lia|exact E|].
        destruct sg as [|c' sg'].
        * cbn in Hl. contradiction.
        * exists (c' :: sg'). split; [rewrite <- app_assoc; reflexivity|]. split; [discriminate|].
          split; [exact Hch|]. rewrite <- Hl. rewrite last_cons2. reflexivity.
  Qed.

  Lemma NoDup_flat_map_disj {A B} (f : A -> list B) l :
    NoDup l -> (forall a, In a l -> NoDup (f a)) ->
    (forall a b y, In a l -> In b l -> In y (f a) -> In y (f b) -> a = b) ->
    NoDup (flat_map f l).
  Proof.
    induction 1 as [|a l Hn Hd IH]; intros H1 H2; cbn; [constructor|].
    apply NoDup_app_intro.
    - apply H1. left. reflexivity.
    - apply IH.
      + intros b Hb. apply H1. right. exact Hb.
      + intros b c y Hb Hc. apply H2; right; assumption.
    - intros y Hy1 Hy2. apply in_flat_map in Hy2 as [b [Hb Hy2]].
      assert (a = b) by (apply (H2 a b y); [left; reflexivity|right; exact Hb|exact Hy1|exact Hy2]).
      subst. contradiction.
  Qed.

  Lemma rec_path_prefix : forall f t x path pi,
    In pi (rec_path f g t x path) -> exists c rest, In c (children g x) /\ pi = path ++ c :: rest.
  Proof.
    induction f as [|f IH]; intros t x path pi Hin; [contradiction|].
    cbn [rec_path] in Hin. apply in_flat_map in Hin as [c [Hc Hin]].
    destruct (Nat.eqb c t).
    - destruct Hin as [<-|[]]. exists c, []. split; [exact Hc|reflexivity].
    - apply IH in Hin as [c' [rest [_ ->]]]. exists c, (c' :: rest). split; [exact Hc|].
      rewrite <- app_assoc. reflexivity.
  Qed.

  Lemma rec_path_nodup : forall f t x path, NoDup (rec_path f g t x path).
  Proof.
    induction f as [|f IH]; intros t x path; [constructor|].
    cbn [rec_path]. apply NoDup_flat_map_disj.
    - apply (wf_kid_nodup g WF).
    - intros c _. destruct (Nat.eqb c t); [constructor; [intros []|constructor]|apply IH].
    - intros c1 c2 pi _ _ H1 H2.
      assert (P1 : exists rest, pi = path ++ c1 :: rest).
      { destruct (Nat.eqb c1 t).
        - destruct H1 as [<-|[]]. exists []. reflexivity.
        - apply rec_path_prefix in H1 as [c' [rest [_ ->]]]. exists (c' :: rest). rewrite <- app_assoc. reflexivity. }
      assert (P2 : exists rest, pi = path ++ c2 :: rest).
      { destruct (Nat.eqb c2 t).
        - destruct H2 as [<-|[]]. exists []. reflexivity.
        - apply rec_path_prefix in H2 as [c' [rest [_ ->]]]. exists (c' :: rest). rewrite <- app_assoc. reflexivity. }
      destruct P1 as [r1 E1]. destruct P2 as [r2 E2]. rewrite E1 in E2.
      apply app_inv_head in E2. inversion E2. reflexivity.
  Qed.

  Lemma path_from_iff a b pi :
    Path g a b pi <-> exists sigma, pi = a :: sigma /\ PathFrom a b sigma.
  Proof.
    unfold Path, PathFrom. split.
    - intros [Hh [Hl [Hne Hc]]]. destruct pi as [|h sg]; [contradiction|].
      cbn in Hh. inversion Hh; subst h. exists sg. split; [reflexivity|]. split; [exact Hc|].
      rewrite <- Hl. destruct sg as [|c s]; [reflexivity|]. reflexivity.
    - intros [sg [-> [Hc Hl]]]. split; [reflexivity|]. split; [|split; [discriminate|exact Hc]].
      rewrite <- Hl. destruct sg as [|c s]; reflexivity.
  Qed.

  Theorem goto_paths a b ps :
    go_to g a b = Ret ps -> (forall pi, In pi ps <-> Path g a b pi) /\ NoDup ps.
  Proof.
    unfold go_to. destruct (Nat.eqb a b) eqn:E.
    - apply Nat.eqb_eq in E. subst b. intros H. inversion H; subst ps. split.
      + intros pi. rewrite path_from_iff. split.
        * intros [<-|[]]. exists []. split; [reflexivity|]. split; [exact I|reflexivity].
        * intros [sg [-> [Hc Hl]]]. destruct sg as [|c s]; [left; reflexivity|].
          exfalso. assert (HR := chain_reach (c :: s) a (fun E => ltac:(discriminate E)) Hc).
          rewrite Hl in HR. exact (Ranked_irrefl g r a RK HR).
      + constructor; [intros []|constructor].
    - apply Nat.eqb_neq in E. destruct (negb (memb b (descendants g a))) eqn:D; [discriminate|].
      intros H. inversion H; subst ps. split; [|apply rec_path_nodup].
      intros pi. rewrite path_from_iff, rec_path_spec; [|destruct RK as [_ Hb]; specialize (Hb a); lia|exact E].
      split.
      + intros [sg [-> [_ HP]]]. exists sg. split; [reflexivity|exact HP].
      + intros [sg [-> HP]]. exists sg. split; [reflexivity|]. split; [|exact HP].
        intros ->. destruct HP as [_ Hl]. cbn in Hl. contradiction.
  Qed.

  Theorem goto_accepts a b : (exists ps, go_to g a b = Ret ps) <-> a = b \/ Reach g a b.
  Proof.
    unfold go_to. destruct (Nat.eqb a b) eqn:E.
    - apply Nat.eqb_eq in E. split; [intros _; left; exact E|intros _; eexists; reflexivity].
    - apply Nat.eqb_neq in E. destruct (memb b (descendants g a)) eqn:D; cbn [negb].
      + apply memb_In, descendants_reach in D. split; [intros _; right; exact D|intros _; eexists; reflexivity].
      + apply memb_false in D. rewrite descendants_reach in D. split.
        * intros [ps H]. discriminate.
        * intros [H|H]; contradiction.
  Qed.

  Theorem goto_refused a b : go_to g a b = Raise TreeError <-> a <> b /\ ~ Reach g a b.
  Proof.
    unfold go_to. destruct (Nat.eqb a b) eqn:E.
    - apply Nat.eqb_eq in E. split; [discriminate|intros [H _]; contradiction].
    - apply Nat.eqb_neq in E. destruct (memb b (descendants g a)) eqn:D; cbn [negb].
      + apply memb_In, descendants_reach in D. split; [discriminate|intros [_ H]; contradiction].
      + apply memb_false in D. rewrite descendants_reach in D. split; [intros _; split; assumption|reflexivity].
  Qed.

  (* a path exists exactly when the target is the start or reachable from it *)
  Lemma path_exists a b : (exists pi, Path g a b pi) <-> a = b \/ Reach g a b.
  Proof.
    split.
    - intros [pi HP]. apply path_from_iff in HP as [sg [-> [Hc Hl]]].
      destruct sg as [|c s]; [left; exact Hl|]. right. rewrite <- Hl.
      apply (chain_reach (c :: s) a); [discriminate|exact Hc].
    - intros [->|HR].
      + exists [b]. apply path_from_iff. exists []. split; [reflexivity|]. split; [exact I|reflexivity].
      + induction HR as [a b He|a c b He HR IH].
        * exists [a; b]. apply path_from_iff. exists [b]. split; [reflexivity|]. split; [cbn; tauto|reflexivity].
        * destruct IH as [pi HP]. apply path_from_iff in HP as [sg [-> [Hc Hl]]].
          exists (a :: c :: sg). apply path_from_iff. exists (c :: sg). split; [reflexivity|].
          split; [cbn [Chain]; split; assumption|].
          destruct sg as [|i sg]; [exact Hl|rewrite last_cons2; exact Hl].
  Qed.
End Queries.

(* ------------------------------------------------------------------------------------------- *)
(* boolean well-formedness check => Wf; boolean name check => DistinctNames *)

Lemma nodupb_NoDup l : nodupb l = true -> NoDup l.
Proof.
  induction l as [|a l IH]; cbn; intros H; constructor.
  - apply andb_true_iff in H as [H _]. apply negb_true_iff in H. apply memb_false in H. exact H.
  - apply IH. apply andb_true_iff in H as [_ H]. exact H.
Qed.

Lemma out_of_range g x : dsize g <= x -> parents g x = [] /\ children g x = [].
Proof.
  intros H. unfold parents, children, node. rewrite nth_overflow by exact H. split; reflexivity.
Qed.

Lemma wfb_Wf g : wfb g = true -> Wf g.
Proof.
  intros H. unfold wfb in H. rewrite forallb_forall in H.
  assert (K : forall x, x < dsize g ->
    in_range g (parents g x) = true /\ in_range g (children g x) = true
    /\ nodupb (parents g x) = true /\ nodupb (children g x) = true
    /\ forallb (fun p => memb x (children g p)) (parents g x) = true
    /\ forallb (fun c => memb x (parents g c)) (children g x) = true).
  { intros x Hx. apply in_ids in Hx. specialize (H x Hx).
    repeat (apply andb_true_iff in H as [H ?]). tauto. }
  assert (PR : forall x p, In p (parents g x) -> p < dsize g /\ x < dsize g).
  { intros x p Hp. destruct (Nat.lt_ge_cases x (dsize g)) as [Hx|Hx].
    - split; [|exact Hx]. destruct (K x Hx) as [K1 _]. unfold in_range in K1.
      rewrite forallb_forall in K1. apply Nat.ltb_lt. apply K1. exact Hp.
    - destruct (out_of_range g x Hx) as [E _]. rewrite E in Hp. contradiction. }
  assert (KR : forall x c, In c (children g x) -> c < dsize g /\ x < dsize g).
  { intros x c Hc. destruct (Nat.lt_ge_cases x (dsize g)) as [Hx|Hx].
    - split; [|exact Hx]. destruct (K x Hx) as [_ [K1 _]]. unfold in_range in K1.
      rewrite forallb_forall in K1. apply Nat.ltb_lt. apply K1. exact Hc.
    - destruct (out_of_range g x Hx) as [_ E]. rewrite E in Hc. contradiction. }
  constructor.
  - intros x p Hp. apply (PR x p Hp).
  - intros x c Hc. apply (KR x c Hc).
  - intros x p Hp. apply (PR x p Hp).
  - intros x c Hc. apply (KR x c Hc).
  - intros p c. split.
    + intros Hc. destruct (KR p c Hc) as [_ Hp]. destruct (K p Hp) as [_ [_ [_ [_ [_ K6]]]]].
      rewrite forallb_forall in K6. apply memb_In. apply K6. exact Hc.
    + intros Hp. destruct (PR c p Hp) as [_ Hc]. destruct (K c Hc) as [_ [_ [_ [_ [K5 _]]]]].
      rewrite forallb_forall in K5. apply memb_In. apply K5. exact Hp.
  - intros x. destruct (Nat.lt_ge_cases x (dsize g)) as [Hx|Hx].
    + apply nodupb_NoDup. apply (K x Hx).
    + destruct (out_of_range g x Hx) as [E _]. rewrite E. constructor.
  - intros x. destruct (Nat.lt_ge_cases x (dsize g)) as [Hx|Hx].
    + apply nodupb_NoDup. apply (K x Hx).
    + destruct (out_of_range g x Hx) as [_ E]. rewrite E. constructor.
Qed.

Lemma snodupb_NoDup l : snodupb l = true -> NoDup l.
Proof.
  induction l as [|a l IH]; cbn; intros H; constructor.
  - apply andb_true_iff in H as [H _]. apply negb_true_iff in H. apply smem_false in H. exact H.
  - apply IH. apply andb_true_iff in H as [_ H]. exact H.
Qed.

Lemma distinct_namesb_ok g : distinct_namesb g = true -> DistinctNames g.
Proof.
  intros H. apply snodupb_NoDup in H. intros x y Hx Hy E.
  assert (L : length (map (name g) (ids g)) = dsize g) by (rewrite map_length; unfold ids; apply seq_length).
  rewrite (NoDup_nth (map (name g) (ids g)) []) in H.
  apply H; [rewrite L; exact Hx|rewrite L; exact Hy|].
  assert (N : forall z, z < dsize g -> nth z (map (name g) (ids g)) [] = name g z).
  { intros z Hz. rewrite (nth_indep (map (name g) (ids g)) [] (name g 0)); [|rewrite L; exact Hz].
    rewrite (map_nth (name g) (ids g) 0 z). unfold ids. rewrite seq_nth by exact Hz. reflexivity. }
  rewrite !N by assumption. exact E.
Qed.

(* ------------------------------------------------------------------------------------------- *)
(* C17: dag_to_list lists exactly the edges, by name *)

Lemma NoDup_map_inj_in {A B} (f : A -> B) l :
  (forall a b, In a l -> In b l -> f a = f b -> a = b) -> NoDup l -> NoDup (map f l).
Proof.
  intros Hf Hn. induction Hn as [|a l Hni Hd IH]; cbn; constructor.
  - intros H. apply in_map_iff in H as [b [Hb Hin]].
    assert (b = a) by (apply Hf; [right; exact Hin|left; reflexivity|exact Hb]). subst. contradiction.
  - apply IH. intros x y Hx Hy. apply Hf; right; assumption.
Qed.

Theorem list_edges_exact g r x :
  Wf g -> Ranked g r -> DistinctNames g -> WeaklyConnected g -> x < dsize g ->
  (forall pn cn, In (pn, cn) (dag_to_list g x) <->
                 exists p c, Edge g p c /\ pn = name g p /\ cn = name g c)
  /\ NoDup (dag_to_list g x).
Proof.
  intros WF RK DN WC Hx. unfold dag_to_list. split.
  - intros pn cn. rewrite in_map_iff. split.
    + intros [[p c] [E Hin]]. cbn in E. inversion E; subst.
      exists p, c. split; [eapply iter_sound; eauto|split; reflexivity].
    + intros [p [c [He [-> ->]]]]. exists (p, c). split; [reflexivity|].
      apply iter_complete; try assumption. intros y. apply (Ranked_no_loop g r y RK).
  - apply NoDup_map_inj_in; [|apply iter_nodup; exact WF].
    intros [p c] [p' c'] H1 H2 E. cbn in E. inversion E as [[E1 E2]].
    apply (iter_sound g WF) in H1. apply (iter_sound g WF) in H2.
    assert (R1 : p < dsize g /\ c < dsize g) by (split; [eapply wf_kid_src|eapply wf_kid_range]; eauto).
    assert (R2 : p' < dsize g /\ c' < dsize g) by (split; [eapply wf_kid_src|eapply wf_kid_range]; eauto).
    f_equal; apply DN; tauto.
Qed.

(* ------------------------------------------------------------------------------------------- *)
(* ancestors without a ranking: sound for every consistent link structure, complete as soon as there
   is no cycle (pigeonhole on the nodes of a walk) — used for the loop guard of the constructors *)

Definition Acyclic (g : dag) : Prop := forall y, ~ Reach g y y.

Section AncComplete.
  Variable g : dag.
  Hypothesis WF : Wf g.

  Lemma anc_raw_sound : forall f x a, In a (anc_raw f g x) -> Reach g a x.
  Proof.
    induction f as [|f IH]; intros x a H; [contradiction|].
    cbn [anc_raw] in H. apply in_flat_map in H as [p [Hp Hin]].
    assert (He : Edge g p x) by (apply (wf_sym g WF); exact Hp).
    apply in_app_or in Hin as [Hin|[<-|[]]].
    - eapply Reach_snoc; [apply IH; exact Hin|exact He].
    - apply Reach1. exact He.
  Qed.

  Lemma ancestors_sound x a : In a (ancestors g x) -> Reach g a x.
  Proof. unfold ancestors. rewrite dedup_In. apply anc_raw_sound. Qed.

  (* a walk from a to x together with the nodes it enters *)
  Inductive ReachL : list id -> id -> id -> Prop :=
  | RL1 : forall a b, Edge g a b -> ReachL [b] a b
  | RLS : forall l a p x, ReachL l a p -> Edge g p x -> ReachL (x :: l) a x.

  Lemma ReachL_front l c b : ReachL l c b -> forall a, Edge g a c -> ReachL (l ++ [c]) a b.
  Proof.
    induction 1 as [c b He|l c p x H IH He]; intros a Ha.
    - cbn. eapply RLS; [apply RL1; exact Ha|exact He].
    - cbn. eapply RLS; [apply IH; exact Ha|exact He].
  Qed.

  Lemma Reach_ReachL a b : Reach g a b -> exists l, ReachL l a b.
  Proof.
    induction 1 as [a b He|a c b He HR [l IH]].
    - exists [b]. apply RL1. exact He.
    - exists (l ++ [c]). apply ReachL_front; assumption.
  Qed.

  Lemma ReachL_anc l a x : ReachL l a x -> forall f, length l <= f -> In a (anc_raw f g x).
  Proof.
    induction 1 as [a b He|l a p x H IH He]; intros f Hf.
    - destruct f as [|f]; [cbn in Hf; lia|]. cbn [anc_raw]. apply in_flat_map.
      exists a. split; [apply (wf_sym g WF); exact He|]. apply in_or_app. right. left. reflexivity.
    - destruct f as [|f]; [cbn in Hf; lia|]. cbn [anc_raw]. apply in_flat_map.
      exists p. split; [apply (wf_sym g WF); exact He|]. apply in_or_app. left.
      apply IH. cbn in Hf. lia.
  Qed.

  Lemma ReachL_to_end l a x : ReachL l a x -> forall y, In y l -> y = x \/ Reach g y x.
  Proof.
    induction 1 as [a b He|l a p x H IH He]; intros y Hy.
    - destruct Hy as [<-|[]]. left. reflexivity.
    - destruct Hy as [<-|Hy]; [left; reflexivity|]. right.
      destruct (IH y Hy) as [->|HR]; [apply Reach1; exact He|eapply Reach_snoc; eauto].
  Qed.

  Lemma ReachL_nodup l a x : Acyclic g -> ReachL l a x -> NoDup l.
  Proof.
    intros AC. induction 1 as [a b He|l a p x H IH He].
    - constructor; [intros []|constructor].
    - constructor; [|exact IH]. intros Hin.
      destruct (ReachL_to_end l a p H x Hin) as [->|HR].
      + apply (AC p). apply Reach1. exact He.
      + apply (AC x). eapply Reach_snoc; eauto.
  Qed.

  Lemma ReachL_range l a x : ReachL l a x -> forall y, In y l -> y < dsize g.
  Proof.
    induction 1 as [a b He|l a p x H IH He]; intros y Hy.
    - destruct Hy as [<-|[]]. eapply wf_kid_range; eauto.
    - destruct Hy as [<-|Hy]; [eapply wf_kid_range; eauto|apply IH; exact Hy].
  Qed.

  Lemma ancestors_complete x a : Acyclic g -> Reach g a x -> In a (ancestors g x).
  Proof.
    intros AC HR. apply Reach_ReachL in HR as [l HL].
    unfold ancestors. rewrite dedup_In. apply (ReachL_anc l a x HL).
    assert (N := ReachL_nodup l a x AC HL).
    assert (I : incl l (ids g)) by (intros y Hy; apply in_ids; eapply ReachL_range; eauto).
    apply NoDup_incl_length in I; [|exact N]. unfold ids in I. rewrite seq_length in I. exact I.
  Qed.
End AncComplete.

(* adding one edge (p, c): a walk of the new graph either is a walk of the old one, or the old graph
   already leads from c to p, or the walk passes through the new edge once *)
Lemma Reach_split g g' p c :
  (forall u v, Edge g' u v -> Edge g u v \/ (u = p /\ v = c)) ->
  forall u v, Reach g' u v ->
    Reach g u v \/ (c = p \/ Reach g c p) \/ ((u = p \/ Reach g u p) /\ (c = v \/ Reach g c v)).
Proof.
  intros HE u v HR. induction HR as [u v He|u w v He HR IH].
  - destruct (HE u v He) as [H|[-> ->]]; [left; apply Reach1; exact H|].
    right. right. split; left; reflexivity.
  - destruct IH as [IH|[IH|[IH1 IH2]]].
    + destruct (HE u w He) as [H|[-> ->]]; [left; eapply ReachS; eauto|].
      right. right. split; [left; reflexivity|right; exact IH].
    + right. left. exact IH.
    + destruct (HE u w He) as [H|[-> ->]].
      * right. right. split; [|exact IH2]. right.
        destruct IH1 as [->|IH1]; [apply Reach1; exact H|eapply ReachS; eauto].
      * right. left. destruct IH1 as [->|IH1]; [left; reflexivity|right; exact IH1].
Qed.

Lemma Reach_mono g g' : (forall u v, Edge g u v -> Edge g' u v) -> forall a b, Reach g a b -> Reach g' a b.
Proof.
  intros H a b HR. induction HR as [a b He|a c b He HR IH].
  - apply Reach1. apply H. exact He.
  - eapply ReachS; [apply H; exact He|exact IH].
Qed.

(* ------------------------------------------------------------------------------------------- *)
(* the node table of the constructors *)

Definition bsize (b : bld) : nat := length (b_names b).
Definition bname (b : bld) (i : id) : str := nth i (b_names b) [].

Lemma b_dag_size b : dsize (b_dag b) = bsize b.
Proof. unfold dsize, b_dag, bsize. rewrite map_length, seq_length. reflexivity. Qed.

Lemma b_dag_node b i : i < bsize b ->
  node (b_dag b) i = DN (bname b i) (nth i (b_attrs b) []) (b_parents b i) (b_children b i).
Proof.
  intros Hi. unfold node, b_dag.
  set (F := fun i => DN (nth i (b_names b) []) (nth i (b_attrs b) []) (b_parents b i) (b_children b i)).
  rewrite (nth_indep (map F (seq 0 (length (b_names b)))) dn_default (F 0)).
  - rewrite (map_nth F (seq 0 (length (b_names b))) 0 i). rewrite seq_nth by exact Hi. reflexivity.
  - rewrite map_length, seq_length. exact Hi.
Qed.

Lemma b_dag_children b i : children (b_dag b) i = if Nat.ltb i (bsize b) then b_children b i else [].
Proof.
  destruct (Nat.ltb i (bsize b)) eqn:E.
  - apply Nat.ltb_lt in E. unfold children. rewrite b_dag_node by exact E. reflexivity.
  - apply Nat.ltb_ge in E. apply out_of_range. rewrite b_dag_size. exact E.
Qed.

Lemma b_dag_parents b i : parents (b_dag b) i = if Nat.ltb i (bsize b) then b_parents b i else [].
Proof.
  destruct (Nat.ltb i (bsize b)) eqn:E.
  - apply Nat.ltb_lt in E. unfold parents. rewrite b_dag_node by exact E. reflexivity.
  - apply Nat.ltb_ge in E. apply out_of_range. rewrite b_dag_size. exact E.
Qed.

Lemma b_dag_name b i : i < bsize b -> name (b_dag b) i = bname b i.
Proof. intros Hi. unfold name. rewrite b_dag_node by exact Hi. reflexivity. Qed.

Record BInv (b : bld) : Prop := {
  bi_range : forall p c, In (p, c) (b_edges b) -> p < bsize b /\ c < bsize b;
  bi_nodup_e : NoDup (b_edges b);
  bi_nodup_n : NoDup (b_names b)
}.

Lemma in_b_children b p c : In c (b_children b p) <-> In (p, c) (b_edges b).
Proof.
  unfold b_children. rewrite in_map_iff. split.
  - intros [[p' c'] [E Hin]]. cbn in E. subst c'. apply filter_In in Hin as [Hin Hp].
    cbn in Hp. apply Nat.eqb_eq in Hp. subst. exact Hin.
  - intros H. exists (p, c). split; [reflexivity|]. apply filter_In. split; [exact H|]. cbn. apply Nat.eqb_refl.
Qed.

Lemma in_b_parents b p c : In p (b_parents b c) <-> In (p, c) (b_edges b).
Proof.
  unfold b_parents. rewrite in_map_iff. split.
  - intros [[p' c'] [E Hin]]. cbn in E. subst p'. apply filter_In in Hin as [Hin Hp].
    cbn in Hp. apply Nat.eqb_eq in Hp. subst. exact Hin.
  - intros H. exists (p, c). split; [reflexivity|]. apply filter_In. split; [exact H|]. cbn. apply Nat.eqb_refl.
Qed.

Lemma b_edge b p c : BInv b -> (Edge (b_dag b) p c <-> In (p, c) (b_edges b)).
Proof.
  intros I. unfold Edge. rewrite b_dag_children. destruct (Nat.ltb p (bsize b)) eqn:E.
  - apply in_b_children.
  - apply Nat.ltb_ge in E. split; [intros []|]. intros H. apply (bi_range b I) in H. lia.
Qed.

Lemma b_parent_edge b p c : BInv b -> (In p (parents (b_dag b) c) <-> In (p, c) (b_edges b)).
Proof.
  intros I. rewrite b_dag_parents. destruct (Nat.ltb c (bsize b)) eqn:E.
  - apply in_b_parents.
  - apply Nat.ltb_ge in E. split; [intros []|]. intros H. apply (bi_range b I) in H. lia.
Qed.

Lemma b_wf b : BInv b -> Wf (b_dag b).
Proof.
  intros I. constructor.
  - intros x p H. apply (b_parent_edge b p x I) in H. rewrite b_dag_size. apply (bi_range b I) in H. tauto.
  - intros x c H. apply (b_edge b x c I) in H. rewrite b_dag_size. apply (bi_range b I) in H. tauto.
  - intros x p H. apply (b_parent_edge b p x I) in H. rewrite b_dag_size. apply (bi_range b I) in H. tauto.
  - intros x c H. apply (b_edge b x c I) in H. rewrite b_dag_size. apply (bi_range b I) in H. tauto.
  - intros p c. rewrite (b_parent_edge b p c I). apply (b_edge b p c I).
  - intros x. rewrite b_dag_parents. destruct (Nat.ltb x (bsize b)); [|constructor].
    unfold b_parents. apply NoDup_map_inj_in; [|apply NoDup_filter; apply (bi_nodup_e b I)].
    intros [p1 c1] [p2 c2] H1 H2 E. apply filter_In in H1 as [_ H1]. apply filter_In in H2 as [_ H2].
    cbn in *. apply Nat.eqb_eq in H1, H2. subst. reflexivity.
  - intros x. rewrite b_dag_children. destruct (Nat.ltb x (bsize b)); [|constructor].
    unfold b_children. apply NoDup_map_inj_in; [|apply NoDup_filter; apply (bi_nodup_e b I)].
    intros [p1 c1] [p2 c2] H1 H2 E. apply filter_In in H1 as [_ H1]. apply filter_In in H2 as [_ H2].
    cbn in *. apply Nat.eqb_eq in H1, H2. subst. reflexivity.
Qed.

Definition Good (b : bld) : Prop := BInv b /\ Acyclic (b_dag b).

(* b' extends b: the table only grows at the end, links are only added *)
Definition bext (b b' : bld) : Prop :=
  (exists l, b_names b' = b_names b ++ l) /\ incl (b_edges b) (b_edges b').

Lemma bext_refl b : bext b b.
Proof. split; [exists []; rewrite app_nil_r; reflexivity|apply incl_refl]. Qed.
Lemma bext_trans a b c : bext a b -> bext b c -> bext a c.
Proof.
  intros [[l1 E1] I1] [[l2 E2] I2]. split.
  - exists (l1 ++ l2). rewrite E2, E1, app_assoc. reflexivity.
  - eapply incl_tran; eauto.
Qed.
Lemma bext_name a b i : bext a b -> i < bsize a -> bname b i = bname a i /\ i < bsize b.
Proof.
  intros [[l E] _] Hi. unfold bname, bsize in *. rewrite E. rewrite app_nth1 by exact Hi.
  split; [reflexivity|]. rewrite app_length. lia.
Qed.

Lemma sindex_some s l i : sindex s l = Some i -> i < length l /\ nth i l [] = s.
Proof.
  revert i; induction l as [|x l IH]; intros i H; cbn in H; [discriminate|].
  destruct (str_eqb x s) eqn:E.
  - inversion H; subst. apply str_eqb_eq in E. cbn. split; [lia|exact E].
  - destruct (sindex s l) as [j|]; [|discriminate]. cbn in H. inversion H; subst.
    destruct (IH j eq_refl) as [H1 H2]. cbn. split; [lia|exact H2].
Qed.
Lemma sindex_none s l : sindex s l = None -> ~ In s l.
Proof.
  induction l as [|x l IH]; intros H; cbn in H; [intros []|].
  destruct (str_eqb x s) eqn:E; [discriminate|]. apply str_eqb_neq in E.
  destruct (sindex s l); [discriminate|]. intros [H1|H1]; [contradiction|]. apply IH; [reflexivity|exact H1].
Qed.

Lemma acyclic_same_edges b b' :
  BInv b -> BInv b' -> (forall e, In e (b_edges b') -> In e (b_edges b)) ->
  Acyclic (b_dag b) -> Acyclic (b_dag b').
Proof.
  intros I I' H AC y HR. apply (AC y). revert HR. apply Reach_mono.
  intros u v He. apply (b_edge b u v I). apply H. apply (b_edge b' u v I'). exact He.
Qed.

Lemma b_get_or_new_spec b nm a b' i :
  Good b -> b_get_or_new b nm a = (b', i) ->
  Good b' /\ bext b b' /\ b_edges b' = b_edges b /\ i < bsize b' /\ bname b' i = nm.
Proof.
  intros [I AC] H. unfold b_get_or_new, b_lookup in H. destruct (sindex nm (b_names b)) as [j|] eqn:E.
  - inversion H; subst. apply sindex_some in E as [E1 E2].
    split; [split; assumption|]. split; [apply bext_refl|]. split; [reflexivity|]. split; assumption.
  - unfold b_new in H. inversion H; subst. clear H. apply sindex_none in E.
    set (b' := BLD (b_names b ++ [nm]) (b_attrs b ++ [a]) (b_edges b)).
    assert (I' : BInv b').
    { constructor; cbn.
      - intros p c Hin. apply (bi_range b I) in Hin. unfold bsize in *. cbn. rewrite app_length. cbn. lia.
      - apply (bi_nodup_e b I).
      - apply NoDup_app_intro; [apply (bi_nodup_n b I)|constructor; [intros []|constructor]|].
        intros x H1 [<-|[]]. contradiction. }
    split; [split; [exact I'|]|].
    + apply (acyclic_same_edges b b' I I'); [intros e He; exact He|exact AC].
    + split; [split; [exists [nm]; reflexivity|apply incl_refl]|].
      split; [reflexivity|]. unfold bsize, bname. cbn. rewrite app_length. cbn. split; [lia|].
      rewrite app_nth2 by lia. rewrite Nat.sub_diag. reflexivity.
Qed.

Lemma set_parent1_spec b c p b' :
  Good b -> c < bsize b -> p < bsize b -> set_parent1 b c p = Ret b' ->
  Good b' /\ b_names b' = b_names b /\ (forall e, In e (b_edges b') <-> In e (b_edges b) \/ e = (p, c))
  /\ p <> c /\ ~ Reach (b_dag b) c p.
Proof.
  intros [I AC] Hc Hp H. unfold set_parent1 in H.
  destruct (Nat.eqb p c) eqn:E1; [discriminate|]. apply Nat.eqb_neq in E1.
  destruct (memb c (ancestors (b_dag b) p)) eqn:E2; [discriminate|]. apply memb_false in E2.
  assert (NR : ~ Reach (b_dag b) c p).
  { intros HR. apply E2. apply ancestors_complete; [apply b_wf; exact I|exact AC|exact HR]. }
  destruct (memb p (b_parents b c)) eqn:E3.
  - inversion H; subst b'. apply memb_In, in_b_parents in E3.
    split; [split; assumption|]. split; [reflexivity|]. split; [|split; assumption].
    intros e. split; [intros He; left; exact He|intros [He| ->]; assumption].
  - apply memb_false in E3. rewrite in_b_parents in E3. inversion H; subst b'. clear H.
    set (b' := BLD (b_names b) (b_attrs b) (b_edges b ++ [(p, c)])).
    assert (I' : BInv b').
    { constructor; cbn.
      - intros p0 c0 Hin. apply in_app_or in Hin as [Hin|[Hin|[]]].
        + apply (bi_range b I) in Hin. exact Hin.
        + inversion Hin; subst. unfold bsize in *. cbn. split; assumption.
      - apply NoDup_app_intro; [apply (bi_nodup_e b I)|constructor; [intros []|constructor]|].
        intros x H1 [<-|[]]. contradiction.
      - apply (bi_nodup_n b I). }
    split; [split; [exact I'|]|].
    + intros y HR.
      assert (HE : forall u v, Edge (b_dag b') u v -> Edge (b_dag b) u v \/ (u = p /\ v = c)).
      { intros u v He. apply (b_edge b' u v I') in He. cbn in He. apply in_app_or in He as [He|[He|[]]].
        - left. apply (b_edge b u v I). exact He.
        - right. inversion He; subst. split; reflexivity. }
      destruct (Reach_split (b_dag b) (b_dag b') p c HE y y HR) as [H|[[H|H]|[H1 H2]]].
      * exact (AC y H).
      * apply E1. symmetry. exact H.
      * exact (NR H).
      * apply NR. destruct H1 as [->|H1]; destruct H2 as [H2|H2].
        { exfalso. apply E1. symmetry. exact H2. }
        { exact H2. }
        { subst y. exact H1. }
        { eapply Reach_trans; eauto. }
    + split; [reflexivity|]. split; [|split; assumption].
      intros e. cbn. rewrite in_app_iff. cbn. split.
      * intros [He|[He|[]]]; [left; exact He|right; symmetry; exact He].
      * intros [He|He]; [left; exact He|right; left; symmetry; exact He].
Qed.

(* ------------------------------------------------------------------------------------------- *)
(* list_to_dag: what a successful run has built; relations with a cycle are refused *)

Definition HasEdge (b : bld) (pn cn : str) : Prop :=
  exists i j, In (i, j) (b_edges b) /\ i < bsize b /\ j < bsize b /\ bname b i = pn /\ bname b j = cn.

Lemma HasEdge_ext b b' pn cn : bext b b' -> HasEdge b pn cn -> HasEdge b' pn cn.
Proof.
  intros X [i [j [H [Hi [Hj [E1 E2]]]]]]. exists i, j.
  destruct (bext_name b b' i X Hi) as [N1 S1]. destruct (bext_name b b' j X Hj) as [N2 S2].
  split; [apply (proj2 X); exact H|]. rewrite N1, N2. tauto.
Qed.

Lemma bname_inj b i j : BInv b -> i < bsize b -> j < bsize b -> bname b i = bname b j -> i = j.
Proof.
  intros I Hi Hj E. assert (N := bi_nodup_n b I). rewrite (NoDup_nth (b_names b) []) in N.
  apply N; assumption.
Qed.

Lemma list_step_spec b last r b' last' :
  Good b -> list_step (Ret (b, last)) r = Ret (b', last') ->
  Good b' /\ bext b b' /\ HasEdge b' (fst r) (snd r)
  /\ (forall e, In e (b_edges b') -> In e (b_edges b) \/ (bname b' (fst e) = fst r /\ bname b' (snd e) = snd r))
  /\ (forall i, i < bsize b' -> i < bsize b \/ bname b' i = fst r \/ bname b' i = snd r)
  /\ exists p, last' = Some p.
Proof.
  intros G H. unfold list_step in H.
  destruct (b_get_or_new b (fst r) []) as [b1 p] eqn:E1.
  destruct (b_get_or_new b1 (snd r) []) as [b2 c] eqn:E2.
  destruct (set_parent1 b2 c p) as [b3|e] eqn:E3; [|discriminate].
  inversion H; subst b' last'. clear H.
  destruct (b_get_or_new_spec b _ _ _ _ G E1) as [G1 [X1 [Ed1 [Hp Np]]]].
  destruct (b_get_or_new_spec b1 _ _ _ _ G1 E2) as [G2 [X2 [Ed2 [Hc Nc]]]].
  destruct (bext_name b1 b2 p X2 Hp) as [Np2 Hp2].
  destruct (set_parent1_spec b2 c p b3 G2 Hc Hp2 E3) as [G3 [Nm3 [Ed3 _]]].
  assert (X3 : bext b2 b3).
  { split; [exists []; rewrite app_nil_r; exact Nm3|]. intros e He. apply Ed3. left. exact He. }
  assert (S3 : bsize b3 = bsize b2) by (unfold bsize; rewrite Nm3; reflexivity).
  assert (N3 : forall i, bname b3 i = bname b2 i) by (intros i; unfold bname; rewrite Nm3; reflexivity).
  split; [exact G3|]. split; [eapply bext_trans; [exact X1|eapply bext_trans; eauto]|].
  split.
  { exists p, c. split; [apply Ed3; right; reflexivity|]. rewrite S3, !N3, Np2. tauto. }
  split.
  { intros e He. apply Ed3 in He as [He| ->].
    - left. rewrite Ed2, Ed1 in He. exact He.
    - right. cbn. rewrite !N3, Np2. tauto. }
  split; [|exists p; reflexivity].
  intros i Hi. rewrite S3 in Hi. rewrite N3.
  (* where does node i come from *)
  unfold b_get_or_new, b_lookup in E1, E2.
  destruct (sindex (fst r) (b_names b)) eqn:L1.
  - inversion E1; subst b1 p.
    destruct (sindex (snd r) (b_names b)) eqn:L2.
    + inversion E2; subst b2 c. left. exact Hi.
    + unfold b_new in E2. inversion E2; subst b2 c. unfold bsize, bname in *. cbn in *.
      rewrite app_length in Hi. cbn in Hi.
      destruct (Nat.eq_dec i (length (b_names b))) as [->|Hne]; [|left; lia].
      right. right. rewrite app_nth2 by lia. rewrite Nat.sub_diag. reflexivity.
  - unfold b_new in E1. inversion E1; subst b1 p. cbn in E2.
    destruct (sindex (snd r) (b_names b ++ [fst r])) eqn:L2.
    + inversion E2; subst b2 c. unfold bsize, bname in *. cbn in *.
      rewrite app_length in Hi. cbn in Hi.
      destruct (Nat.eq_dec i (length (b_names b))) as [->|Hne]; [|left; lia].
      right. left. rewrite app_nth2 by lia. rewrite Nat.sub_diag. reflexivity.
    + unfold b_new in E2. inversion E2; subst b2 c. unfold bsize, bname in *. cbn in *.
      rewrite !app_length in Hi. cbn in Hi.
      destruct (Nat.lt_ge_cases i (length (b_names b))) as [Hlt|Hge]; [left; exact Hlt|].
      right. destruct (Nat.eq_dec i (length (b_names b))) as [->|Hne].
      * left. rewrite app_nth1 by (rewrite app_length; cbn; lia).
        rewrite app_nth2 by lia. rewrite Nat.sub_diag. reflexivity.
      * right. assert (i = length (b_names b ++ [fst r])) as -> by (rewrite app_length; cbn; lia).
        rewrite app_nth2 by lia. rewrite Nat.sub_diag. reflexivity.
Qed.

Lemma fold_list_raise rel e : fold_left list_step rel (Raise e) = Raise e.
Proof. induction rel as [|r rel IH]; [reflexivity|exact IH]. Qed.

Lemma fold_list_spec rel : forall b last b' last',
  Good b -> fold_left list_step rel (Ret (b, last)) = Ret (b', last') ->
  Good b' /\ bext b b' /\ (forall r, In r rel -> HasEdge b' (fst r) (snd r))
  /\ (forall e, In e (b_edges b') -> In e (b_edges b) \/ In (bname b' (fst e), bname b' (snd e)) rel)
  /\ (forall i, i < bsize b' -> i < bsize b \/ exists r, In r rel /\ (bname b' i = fst r \/ bname b' i = snd r))
  /\ (rel <> [] -> exists p, last' = Some p).
Proof.
  induction rel as [|r rel IH]; intros b last b' last' G H; cbn [fold_left] in H.
  - inversion H; subst. split; [exact G|]. split; [apply bext_refl|]. split; [intros r []|].
    split; [intros e He; left; exact He|]. split; [intros i Hi; left; exact Hi|]. intros N. contradiction.
  - destruct (list_step (Ret (b, last)) r) as [[b1 l1]|e] eqn:E; [|rewrite fold_list_raise in H; discriminate].
    destruct (list_step_spec b last r b1 l1 G E) as [G1 [X1 [HE1 [Ed1 [Nd1 [p1 L1]]]]]].
    destruct (IH b1 l1 b' last' G1 H) as [G' [X' [HE' [Ed' [Nd' L']]]]].
    split; [exact G'|]. split; [eapply bext_trans; eauto|]. split.
    { intros r0 [<-|Hr]; [eapply HasEdge_ext; eauto|apply HE'; exact Hr]. }
    split.
    { intros e He. destruct (Ed' e He) as [He1|Hr]; [|right; right; exact Hr].
      destruct (Ed1 e He1) as [He0|[N1 N2]]; [left; exact He0|]. right. left.
      destruct G1 as [I1 _]. destruct e as [i j]. cbn in *.
      destruct (bi_range b1 I1 i j He1) as [Ri Rj].
      destruct (bext_name b1 b' i X' Ri) as [Ei _]. destruct (bext_name b1 b' j X' Rj) as [Ej _].
      rewrite Ei, Ej, N1, N2. destruct r; reflexivity. }
    split.
    { intros i Hi. destruct (Nd' i Hi) as [Hi1|[r0 [Hr0 Hn]]].
      - destruct (Nd1 i Hi1) as [Hi0|Hn]; [left; exact Hi0|]. right. exists r. split; [left; reflexivity|].
        destruct (bext_name b1 b' i X' Hi1) as [Ei _]. rewrite Ei. exact Hn.
      - right. exists r0. split; [right; exact Hr0|exact Hn]. }
    intros _. destruct rel as [|r' rel'].
    + cbn in H. inversion H. exists p1. congruence.
    + apply L'. discriminate.
Qed.

Lemma good_empty : Good b_empty.
Proof.
  assert (I : BInv b_empty).
  { constructor; cbn; [intros p c []|constructor|constructor]. }
  split; [exact I|]. intros y HR.
  assert (E : forall u v, ~ Edge (b_dag b_empty) u v).
  { intros u v He. apply (b_edge b_empty u v I) in He. exact He. }
  inversion HR as [a b He|a c b He _]; subst; exact (E _ _ He).
Qed.

Lemma nreach_built b rel s t :
  BInv b -> (forall r, In r rel -> HasEdge b (fst r) (snd r)) -> NReach rel s t ->
  exists i j, i < bsize b /\ j < bsize b /\ bname b i = s /\ bname b j = t /\ Reach (b_dag b) i j.
Proof.
  intros I HE HR. induction HR as [a b0 Hin|a c b0 Hin HR IH].
  - destruct (HE _ Hin) as [i [j [He [Hi [Hj [E1 E2]]]]]]. cbn in E1, E2.
    exists i, j. repeat split; try assumption. apply Reach1. apply (b_edge b i j I). exact He.
  - destruct (HE _ Hin) as [i [j [He [Hi [Hj [E1 E2]]]]]]. cbn in E1, E2.
    destruct IH as [j' [k [Hj' [Hk [E3 [E4 HR']]]]]].
    assert (j = j') by (apply (bname_inj b); try assumption; congruence). subst j'.
    exists i, k. repeat split; try assumption.
    eapply ReachS; [apply (b_edge b i j I); exact He|exact HR'].
Qed.

Theorem list_cycle_refused rel : HasCycle rel -> forall r, list_to_dag rel <> Ret r.
Proof.
  intros [s HC] [b last] H. unfold list_to_dag in H. destruct rel as [|r0 rel0]; [discriminate|].
  destruct (fold_list_spec (r0 :: rel0) b_empty None b last good_empty H) as [[I AC] [_ [HE _]]].
  destruct (nreach_built b (r0 :: rel0) s s I HE HC) as [i [j [Hi [Hj [E1 [E2 HR]]]]]].
  assert (i = j) by (apply (bname_inj b); try assumption; congruence). subst j.
  exact (AC i HR).
Qed.

Lemma sreach_le_sound rel : forall k a b, sreach_le k rel a b = true -> a = b \/ NReach rel a b.
Proof.
  induction k as [|k IH]; intros a b H; cbn [sreach_le] in H.
  - left. apply str_eqb_eq. exact H.
  - destruct (str_eqb a b) eqn:E; [left; apply str_eqb_eq; exact E|].
    apply existsb_exists in H as [[p c] [Hin H]]. cbn in H.
    destruct (str_eqb p a) eqn:E2; [|discriminate]. apply str_eqb_eq in E2. subst p.
    right. destruct (IH c b H) as [->|HR]; [apply NR1; exact Hin|eapply NRS; eauto].
Qed.

Lemma has_cycle_sound rel : has_cycle rel = true -> HasCycle rel.
Proof.
  unfold has_cycle. intros H. apply existsb_exists in H as [[p c] [Hin H]]. cbn in H.
  exists p. destruct (sreach_le_sound rel _ c p H) as [->|HR]; [apply NR1; exact Hin|eapply NRS; eauto].
Qed.

(* ------------------------------------------------------------------------------------------- *)
(* list_to_dag on the relation list of an acyclic graph never trips the loop guard *)

Section ListRoundTrip.
  Variable g : dag.
  Variable r : id -> nat.
  Hypothesis WF : Wf g.
  Hypothesis RK : Ranked g r.
  Hypothesis DN : DistinctNames g.
  Variable L : list (str * str).
  Hypothesis LG : forall pn cn, In (pn, cn) L -> exists p c, Edge g p c /\ pn = name g p /\ cn = name g c.

  Definition Emb (b : bld) : Prop :=
    (forall e, In e (b_edges b) -> In (bname b (fst e), bname b (snd e)) L)
    /\ (forall i, i < bsize b -> exists q, In q L /\ (bname b i = fst q \/ bname b i = snd q)).

  Lemma emb_reach b i j : BInv b -> Emb b -> Reach (b_dag b) i j ->
    exists p c, name g p = bname b i /\ name g c = bname b j /\ Reach g p c /\ p < dsize g /\ c < dsize g.
  Proof.
    intros I [E1 _] HR. induction HR as [i j He|i k j He HR IH].
    - apply (b_edge b i j I) in He. apply E1 in He. cbn in He.
      destruct (LG _ _ He) as [p [c [Hg [N1 N2]]]]. exists p, c.
      destruct (edge_range g WF p c Hg) as [Rp Rc].
      repeat split; try (symmetry; assumption); try assumption. apply Reach1. exact Hg.
    - apply (b_edge b i k I) in He. apply E1 in He. cbn in He.
      destruct (LG _ _ He) as [p [q [Hg [N1 N2]]]].
      destruct IH as [p' [c [M1 [M2 [HR' [Rp' Rc]]]]]].
      destruct (edge_range g WF p q Hg) as [Rp Rq].
      assert (q = p') by (apply DN; try assumption; congruence). subst p'.
      exists p, c. repeat split; try (symmetry; assumption); try assumption.
      eapply ReachS; eauto.
  Qed.

  Lemma get_or_new_nodes b nm a b' i :
    b_get_or_new b nm a = (b', i) -> forall k, k < bsize b' -> k < bsize b \/ bname b' k = nm.
  Proof.
    unfold b_get_or_new, b_lookup. destruct (sindex nm (b_names b)).
    - intros H. inversion H; subst. intros k Hk. left. exact Hk.
    - unfold b_new. intros H. inversion H; subst. unfold bsize, bname. cbn. intros k Hk.
      rewrite app_length in Hk. cbn in Hk.
      destruct (Nat.eq_dec k (length (b_names b))) as [->|Hne]; [|left; lia].
      right. rewrite app_nth2 by lia. rewrite Nat.sub_diag. reflexivity.
  Qed.

  Lemma get_or_new_emb b nm a b' i :
    Good b -> Emb b -> (exists q, In q L /\ (nm = fst q \/ nm = snd q)) ->
    b_get_or_new b nm a = (b', i) -> Emb b'.
  Proof.
    intros G [E1 E2] Hq H.
    destruct (b_get_or_new_spec b nm a b' i G H) as [G' [X [Ed _]]].
    split.
    - intros e He. rewrite Ed in He. destruct e as [u v].
      destruct (bi_range b (proj1 G) u v He) as [Ru Rv]. cbn.
      destruct (bext_name b b' u X Ru) as [Eu _]. destruct (bext_name b b' v X Rv) as [Ev _].
      rewrite Eu, Ev. apply (E1 (u, v) He).
    - intros k Hk. destruct (get_or_new_nodes b nm a b' i H k Hk) as [Hk0|Hn].
      + destruct (bext_name b b' k X Hk0) as [Ek _]. rewrite Ek. apply E2. exact Hk0.
      + destruct Hq as [q [Hq1 Hq2]]. exists q. split; [exact Hq1|]. rewrite Hn. exact Hq2.
  Qed.

  Lemma list_step_ok b last q :
    Good b -> Emb b -> In q L ->
    exists b' l', list_step (Ret (b, last)) q = Ret (b', l') /\ Emb b'.
  Proof.
    intros G E Hq. unfold list_step.
    destruct (b_get_or_new b (fst q) []) as [b1 p] eqn:E1.
    destruct (b_get_or_new b1 (snd q) []) as [b2 c] eqn:E2.
    destruct (b_get_or_new_spec b _ _ _ _ G E1) as [G1 [X1 [Ed1 [Hp Np]]]].
    assert (Em1 : Emb b1).
    { eapply get_or_new_emb; [exact G|exact E| |exact E1]. exists q. split; [exact Hq|left; reflexivity]. }
    destruct (b_get_or_new_spec b1 _ _ _ _ G1 E2) as [G2 [X2 [Ed2 [Hc Nc]]]].
    assert (Em2 : Emb b2).
    { eapply get_or_new_emb; [exact G1|exact Em1| |exact E2]. exists q. split; [exact Hq|right; reflexivity]. }
    destruct (bext_name b1 b2 p X2 Hp) as [Np2 Hp2].
    destruct q as [pn cn]. cbn [fst snd] in *.
    destruct (LG pn cn Hq) as [p0 [c0 [Hg [N1 N2]]]].
    destruct (edge_range g WF p0 c0 Hg) as [Rp0 Rc0].
    destruct (set_parent1 b2 c p) as [b3|e] eqn:E3.
    - exists b3, (Some p). split; [reflexivity|].
      destruct (set_parent1_spec b2 c p b3 G2 Hc Hp2 E3) as [G3 [Nm3 [Ed3 _]]].
      assert (N3 : forall i, bname b3 i = bname b2 i) by (intros i; unfold bname; rewrite Nm3; reflexivity).
      assert (S3 : bsize b3 = bsize b2) by (unfold bsize; rewrite Nm3; reflexivity).
      destruct Em2 as [A1 A2]. split.
      + intros e He. rewrite !N3. apply Ed3 in He as [He| ->]; [apply A1; exact He|].
        cbn. rewrite Np2, Np, Nc. exact Hq.
      + intros i Hi. rewrite N3. apply A2. rewrite <- S3. exact Hi.
    - exfalso. unfold set_parent1 in E3.
      destruct (Nat.eqb p c) eqn:Q1.
      + apply Nat.eqb_eq in Q1. subst c.
        assert (p0 = c0) by (apply DN; try assumption; congruence). subst c0.
        exact (Ranked_no_loop g r p0 RK Hg).
      + destruct (memb c (ancestors (b_dag b2) p)) eqn:Q2.
        * apply memb_In in Q2. apply (ancestors_sound (b_dag b2) (b_wf b2 (proj1 G2))) in Q2.
          destruct (emb_reach b2 c p (proj1 G2) Em2 Q2) as [c' [p' [M1 [M2 [HR [Rc' Rp']]]]]].
          assert (c' = c0) by (apply DN; try assumption; congruence).
          assert (p' = p0) by (apply DN; try assumption; congruence). subst c' p'.
          apply (Ranked_irrefl g r p0 RK). eapply ReachS; eauto.
        * destruct (memb p (b_parents b2 c)); discriminate.
  Qed.

  Lemma fold_list_ok rel : incl rel L -> forall b last, Good b -> Emb b ->
    exists b' l', fold_left list_step rel (Ret (b, last)) = Ret (b', l').
  Proof.
    induction rel as [|q rel IH]; intros Hin b last G E.
    - exists b, last. reflexivity.
    - cbn [fold_left].
      destruct (list_step_ok b last q G E (Hin q (or_introl eq_refl))) as [b1 [l1 [H1 E1]]].
      rewrite H1. destruct (list_step_spec b last q b1 l1 G H1) as [G1 _].
      apply IH; [intros z Hz; apply Hin; right; exact Hz|exact G1|exact E1].
  Qed.
End ListRoundTrip.

Lemma incident_edge g y :
  Wf g -> WeaklyConnected g -> (exists p c, Edge g p c) -> y < dsize g ->
  exists p c, Edge g p c /\ (y = p \/ y = c).
Proof.
  intros WF WC [p0 [c0 He]] Hy. destruct (edge_range g WF p0 c0 He) as [Rp _].
  assert (HU := WC p0 y Rp Hy). inversion HU as [a|a c b HU' Hadj]; subst.
  - exists y, c0. split; [exact He|left; reflexivity].
  - destruct Hadj as [H|H]; [exists c, y|exists y, c]; split; try exact H; tauto.
Qed.

Theorem roundtrip_list g r x :
  Wf g -> Ranked g r -> DistinctNames g -> WeaklyConnected g -> x < dsize g -> (exists p c, Edge g p c) ->
  exists b ret, list_to_dag (dag_to_list g x) = Ret (b, Some ret)
    /\ SameNames g (b_names b)
    /\ NoDup (b_edges b)
    /\ (forall pn cn, HasEdge b pn cn <-> exists p c, Edge g p c /\ pn = name g p /\ cn = name g c).
Proof.
  intros WF RK DN WC Hx HE.
  destruct (list_edges_exact g r x WF RK DN WC Hx) as [LE _].
  set (rel := dag_to_list g x) in *.
  assert (LG : forall pn cn, In (pn, cn) rel -> exists p c, Edge g p c /\ pn = name g p /\ cn = name g c).
  { intros pn cn H. apply LE. exact H. }
  assert (Em0 : Emb rel b_empty).
  { split; [intros e []|intros i Hi; unfold bsize in Hi; cbn in Hi; lia]. }
  destruct (fold_list_ok g r WF RK DN rel LG rel (incl_refl _) b_empty None good_empty Em0) as [b [l H]].
  destruct (fold_list_spec rel b_empty None b l good_empty H) as [[I AC] [_ [HE' [Ed' [Nd' L']]]]].
  assert (NE : rel <> []).
  { destruct HE as [p [c He]]. intros E.
    assert (Hin : In (name g p, name g c) rel) by (apply LE; exists p, c; tauto).
    rewrite E in Hin. exact Hin. }
  destruct (L' NE) as [ret ->].
  exists b, ret. split.
  { unfold list_to_dag. destruct rel as [|q rel']; [contradiction|exact H]. }
  split.
  { split; [apply (bi_nodup_n b I)|]. intros s. split.
    - intros Hs. apply (In_nth _ _ []) in Hs as [i [Hi Es]].
      destruct (Nd' i Hi) as [H0|[[pn cn] [Hq Hn]]]; [unfold bsize in H0; cbn in H0; lia|].
      destruct (LG pn cn Hq) as [p [c [He [-> ->]]]]. destruct (edge_range g WF p c He) as [Rp Rc].
      unfold bname in Hn. subst s. cbn in Hn.
      destruct Hn as [Hn|Hn]; [exists p|exists c]; (split; [assumption|symmetry; exact Hn]).
    - intros [y [Hy <-]]. destruct (incident_edge g y WF WC HE Hy) as [p [c [He Hor]]].
      assert (Hin : In (name g p, name g c) rel) by (apply LE; exists p, c; tauto).
      destruct (HE' _ Hin) as [i [j [_ [Hi [Hj [E1 E2]]]]]]. cbn in E1, E2.
      destruct Hor as [->| ->]; [rewrite <- E1|rewrite <- E2]; apply nth_In; assumption. }
  split; [apply (bi_nodup_e b I)|].
  intros pn cn. split.
  - intros [i [j [Hin [Hi [Hj [<- <-]]]]]]. destruct (Ed' (i, j) Hin) as [[]|Hr]. cbn in Hr.
    apply LG. exact Hr.
  - intros [p [c [He [-> ->]]]]. apply (HE' (name g p, name g c)). apply LE. exists p, c. tauto.
Qed.

(* ------------------------------------------------------------------------------------------- *)
(* dict_to_dag / dataframe_to_dag: the same table invariants, hence the same refusal of cycles *)

Lemma no_cycle_in_built b rel :
  Good b -> (forall q, In q rel -> HasEdge b (fst q) (snd q)) -> ~ HasCycle rel.
Proof.
  intros [I AC] HE [s HC].
  destruct (nreach_built b rel s s I HE HC) as [i [j [Hi [Hj [E1 [E2 HR]]]]]].
  assert (i = j) by (apply (bname_inj b); try assumption; congruence). subst j.
  exact (AC i HR).
Qed.

Lemma set_attrs_good b x a :
  Good b -> Good (b_set_attrs b x a) /\ bext b (b_set_attrs b x a)
            /\ bsize (b_set_attrs b x a) = bsize b /\ (forall i, bname (b_set_attrs b x a) i = bname b i).
Proof.
  intros [I AC].
  assert (I' : BInv (b_set_attrs b x a)).
  { constructor; cbn; [apply (bi_range b I)|apply (bi_nodup_e b I)|apply (bi_nodup_n b I)]. }
  split; [split; [exact I'|]|].
  - apply (acyclic_same_edges b _ I I'); [intros e He; exact He|exact AC].
  - split; [split; [exists []; cbn; rewrite app_nil_r; reflexivity|apply incl_refl]|].
    split; [reflexivity|intros i; reflexivity].
Qed.

Lemma link_spec b c pn b' last last' :
  Good b -> c < bsize b -> dict_parent_step c (Ret (b, last)) pn = Ret (b', last') ->
  Good b' /\ bext b b' /\ HasEdge b' pn (bname b c).
Proof.
  intros G Hc H. unfold dict_parent_step in H.
  destruct (b_get_or_new b pn []) as [b1 p] eqn:E1.
  destruct (set_parent1 b1 c p) as [b2|e] eqn:E2; [|discriminate]. inversion H; subst b' last'. clear H.
  destruct (b_get_or_new_spec b _ _ _ _ G E1) as [G1 [X1 [Ed1 [Hp Np]]]].
  destruct (bext_name b b1 c X1 Hc) as [Nc1 Hc1].
  destruct (set_parent1_spec b1 c p b2 G1 Hc1 Hp E2) as [G2 [Nm2 [Ed2 _]]].
  assert (X2 : bext b1 b2).
  { split; [exists []; rewrite app_nil_r; exact Nm2|]. intros e He. apply Ed2. left. exact He. }
  split; [exact G2|]. split; [exact (bext_trans _ _ _ X1 X2)|].
  exists p, c. split; [apply Ed2; right; reflexivity|].
  assert (S2 : bsize b2 = bsize b1) by (unfold bsize; rewrite Nm2; reflexivity).
  assert (N2 : forall i, bname b2 i = bname b1 i) by (intros i; unfold bname; rewrite Nm2; reflexivity).
  rewrite S2, !N2, Nc1. tauto.
Qed.

Lemma fold_parent_raise c ps e : fold_left (dict_parent_step c) ps (Raise e) = Raise e.
Proof. induction ps as [|p ps IH]; [reflexivity|exact IH]. Qed.

Lemma fold_parent_spec c ps : forall b last b' last',
  Good b -> c < bsize b -> fold_left (dict_parent_step c) ps (Ret (b, last)) = Ret (b', last') ->
  Good b' /\ bext b b' /\ forall pn, In pn ps -> HasEdge b' pn (bname b c).
Proof.
  induction ps as [|pn ps IH]; intros b last b' last' G Hc H; cbn [fold_left] in H.
  - inversion H; subst. split; [exact G|]. split; [apply bext_refl|intros pn []].
  - destruct (dict_parent_step c (Ret (b, last)) pn) as [[b1 l1]|e] eqn:E;
      [|rewrite fold_parent_raise in H; discriminate].
    destruct (link_spec b c pn b1 last l1 G Hc E) as [G1 [X1 HE1]].
    destruct (bext_name b b1 c X1 Hc) as [Nc1 Hc1].
    destruct (IH b1 l1 b' last' G1 Hc1 H) as [G' [X' HE']].
    split; [exact G'|]. split; [exact (bext_trans _ _ _ X1 X')|].
    intros q [<-|Hq]; [eapply HasEdge_ext; eauto|]. rewrite <- Nc1. apply HE'. exact Hq.
Qed.

Definition entry_parents (e : dentry) : list str := match de_parents e with Some ps => ps | None => [] end.

Lemma dict_entry_spec b last e b' last' :
  Good b -> dict_entry_step (Ret (b, last)) e = Ret (b', last') ->
  Good b' /\ bext b b' /\ forall pn, In pn (entry_parents e) -> HasEdge b' pn (de_name e).
Proof.
  intros G H. unfold dict_entry_step in H.
  destruct (existsb (fun kv => reserved (fst kv)) (de_attrs e)); [discriminate|].
  fold (entry_parents e) in H.
  destruct (b_lookup b (de_name e)) as [i|] eqn:EL.
  - assert (E0 : b_get_or_new b (de_name e) [] = (b, i)) by (unfold b_get_or_new; rewrite EL; reflexivity).
    destruct (b_get_or_new_spec b _ _ _ _ G E0) as [_ [_ [_ [Hi Ni]]]].
    destruct (set_attrs_good b i (de_attrs e) G) as [G1 [X1 [S1 N1]]].
    assert (Hi1 : i < bsize (b_set_attrs b i (de_attrs e))) by (rewrite S1; exact Hi).
    destruct (fold_parent_spec i (entry_parents e) _ last b' last' G1 Hi1 H) as [G' [X' HE']].
    split; [exact G'|]. split; [exact (bext_trans _ _ _ X1 X')|].
    intros pn Hpn. rewrite <- Ni, <- N1. apply HE'. exact Hpn.
  - destruct (b_new b (de_name e) (attrs_update [] (de_attrs e))) as [b1 c] eqn:EN.
    assert (E0 : b_get_or_new b (de_name e) (attrs_update [] (de_attrs e)) = (b1, c))
      by (unfold b_get_or_new; rewrite EL; exact EN).
    destruct (b_get_or_new_spec b _ _ _ _ G E0) as [G1 [X1 [_ [Hc Nc]]]].
    destruct (fold_parent_spec c (entry_parents e) b1 last b' last' G1 Hc H) as [G' [X' HE']].
    split; [exact G'|]. split; [exact (bext_trans _ _ _ X1 X')|].
    intros pn Hpn. rewrite <- Nc. apply HE'. exact Hpn.
Qed.

Lemma fold_entry_raise d e : fold_left dict_entry_step d (Raise e) = Raise e.
Proof. induction d as [|x d IH]; [reflexivity|exact IH]. Qed.

Lemma fold_entry_spec d : forall b last b' last',
  Good b -> fold_left dict_entry_step d (Ret (b, last)) = Ret (b', last') ->
  Good b' /\ bext b b' /\ forall q, In q (dict_relations d) -> HasEdge b' (fst q) (snd q).
Proof.
  induction d as [|e d IH]; intros b last b' last' G H; cbn [fold_left] in H.
  - inversion H; subst. split; [exact G|]. split; [apply bext_refl|intros q []].
  - destruct (dict_entry_step (Ret (b, last)) e) as [[b1 l1]|x] eqn:E;
      [|rewrite fold_entry_raise in H; discriminate].
    destruct (dict_entry_spec b last e b1 l1 G E) as [G1 [X1 HE1]].
    destruct (IH b1 l1 b' last' G1 H) as [G' [X' HE']].
    split; [exact G'|]. split; [exact (bext_trans _ _ _ X1 X')|].
    intros q Hq. unfold dict_relations in Hq. cbn [flat_map] in Hq. apply in_app_or in Hq as [Hq|Hq].
    + apply in_map_iff in Hq as [pn [<- Hpn]]. cbn. eapply HasEdge_ext; [exact X'|].
      apply HE1. exact Hpn.
    + apply HE'. exact Hq.
Qed.

Theorem dict_cycle_refused d : HasCycle (dict_relations d) -> forall r, dict_to_dag d <> Ret r.
Proof.
  intros HC [b last] H. unfold dict_to_dag in H. destruct d as [|e0 d0]; [discriminate|].
  destruct (fold_left dict_entry_step (e0 :: d0) (Ret (b_empty, None))) as [[b1 l1]|x] eqn:E; [|discriminate].
  destruct (fold_entry_spec (e0 :: d0) b_empty None b1 l1 good_empty E) as [G [_ HE]].
  exact (no_cycle_in_built b1 _ G HE HC).
Qed.

Lemma df_row_spec b last rw b' last' :
  Good b -> df_row_step (Ret (b, last)) rw = Ret (b', last') ->
  Good b' /\ bext b b' /\ forall pn, dr_parent rw = Some pn -> HasEdge b' pn (dr_name rw).
Proof.
  intros G H. unfold df_row_step in H.
  destruct (b_get_or_new b (dr_name rw) (attrs_update [] (non_null (dr_attrs rw)))) as [b1 c] eqn:E1.
  destruct (b_get_or_new_spec b _ _ _ _ G E1) as [G1 [X1 [_ [Hc Nc]]]].
  destruct (set_attrs_good b1 c (non_null (dr_attrs rw)) G1) as [G2 [X2 [S2 N2]]].
  set (b2 := b_set_attrs b1 c (non_null (dr_attrs rw))) in *.
  destruct (dr_parent rw) as [pn|] eqn:EP.
  - destruct (b_get_or_new b2 pn []) as [b3 p] eqn:E3.
    destruct (set_parent1 b3 c p) as [b4|e] eqn:E4; [|discriminate]. inversion H; subst b' last'. clear H.
    destruct (b_get_or_new_spec b2 _ _ _ _ G2 E3) as [G3 [X3 [_ [Hp Np]]]].
    assert (Hc2 : c < bsize b2) by (rewrite S2; exact Hc).
    destruct (bext_name b2 b3 c X3 Hc2) as [Nc3 Hc3].
    destruct (set_parent1_spec b3 c p b4 G3 Hc3 Hp E4) as [G4 [Nm4 [Ed4 _]]].
    assert (X4 : bext b3 b4).
    { split; [exists []; rewrite app_nil_r; exact Nm4|]. intros e He. apply Ed4. left. exact He. }
    split; [exact G4|].
    split; [exact (bext_trans _ _ _ X1 (bext_trans _ _ _ X2 (bext_trans _ _ _ X3 X4)))|].
    intros pn' Epn. inversion Epn; subst pn'.
    exists p, c. split; [apply Ed4; right; reflexivity|].
    assert (S4 : bsize b4 = bsize b3) by (unfold bsize; rewrite Nm4; reflexivity).
    assert (N4 : forall i, bname b4 i = bname b3 i) by (intros i; unfold bname; rewrite Nm4; reflexivity).
    rewrite S4, !N4, Nc3, N2, Nc. tauto.
  - inversion H; subst b' last'. split; [exact G2|]. split; [exact (bext_trans _ _ _ X1 X2)|]. intros pn Epn. discriminate.
Qed.

Lemma fold_row_raise rows e : fold_left df_row_step rows (Raise e) = Raise e.
Proof. induction rows as [|x d IH]; [reflexivity|exact IH]. Qed.

Lemma fold_row_spec rows : forall b last b' last',
  Good b -> fold_left df_row_step rows (Ret (b, last)) = Ret (b', last') ->
  Good b' /\ bext b b' /\ forall q, In q (df_relations rows) -> HasEdge b' (fst q) (snd q).
Proof.
  induction rows as [|rw rows IH]; intros b last b' last' G H; cbn [fold_left] in H.
  - inversion H; subst. split; [exact G|]. split; [apply bext_refl|intros q []].
  - destruct (df_row_step (Ret (b, last)) rw) as [[b1 l1]|x] eqn:E;
      [|rewrite fold_row_raise in H; discriminate].
    destruct (df_row_spec b last rw b1 l1 G E) as [G1 [X1 HE1]].
    destruct (IH b1 l1 b' last' G1 H) as [G' [X' HE']].
    split; [exact G'|]. split; [exact (bext_trans _ _ _ X1 X')|].
    intros q Hq. unfold df_relations in Hq. cbn [flat_map] in Hq. apply in_app_or in Hq as [Hq|Hq].
    + destruct (dr_parent rw) as [pn|] eqn:EP; [|contradiction]. destruct Hq as [<-|[]]. cbn.
      eapply HasEdge_ext; [exact X'|]. apply HE1. reflexivity.
    + apply HE'. exact Hq.
Qed.

Theorem df_cycle_refused rows : HasCycle (df_relations rows) -> forall r, dataframe_to_dag rows <> Ret r.
Proof.
  intros HC [b last] H. unfold dataframe_to_dag in H. destruct rows as [|r0 rows0]; [discriminate|].
  destruct (negb (df_consistent (r0 :: rows0))); [discriminate|].
  destruct (fold_row_spec (r0 :: rows0) b_empty None b last good_empty H) as [G [_ HE]].
  exact (no_cycle_in_built b _ G HE HC).
Qed.

(* ------------------------------------------------------------------------------------------- *)
(* dag_to_dict: one entry per node, holding the node's parents and its requested attributes *)

Lemma dget_dset d e k : dget (dset d e) k = if str_eqb (de_name e) k then Some e else dget d k.
Proof.
  induction d as [|x d IH]; cbn.
  - destruct (str_eqb (de_name e) k); reflexivity.
  - destruct (str_eqb (de_name x) (de_name e)) eqn:E.
    + apply str_eqb_eq in E. cbn. destruct (str_eqb (de_name e) k) eqn:E2; [reflexivity|].
      rewrite E, E2. reflexivity.
    + cbn. rewrite IH. destruct (str_eqb (de_name x) k) eqn:E3; [|reflexivity].
      apply str_eqb_eq in E3. subst k. rewrite str_eqb_neq in E.
      destruct (str_eqb (de_name e) (de_name x)) eqn:E4; [|reflexivity].
      apply str_eqb_eq in E4. symmetry in E4. contradiction.
Qed.

Lemma dset_keys d e s : In s (map de_name (dset d e)) <-> In s (map de_name d) \/ s = de_name e.
Proof.
  induction d as [|x d IH]; cbn.
  - split; [intros [<-|[]]; right; reflexivity|intros [[]| ->]; left; reflexivity].
  - destruct (str_eqb (de_name x) (de_name e)) eqn:E; cbn.
    + apply str_eqb_eq in E. rewrite E. split; [intros [H|H]; [right; symmetry; exact H|left; right; exact H]|].
      intros [[H|H]| ->]; [left; exact H|right; exact H|left; reflexivity].
    + rewrite IH. tauto.
Qed.

Lemma dset_nodup d e : NoDup (map de_name d) -> NoDup (map de_name (dset d e)).
Proof.
  induction d as [|x d IH]; cbn; intros H.
  - constructor; [intros []|constructor].
  - destruct (str_eqb (de_name x) (de_name e)) eqn:E; cbn.
    + apply str_eqb_eq in E. rewrite <- E. exact H.
    + inversion H as [|? ? Hn Hd]; subst. constructor; [|apply IH; exact Hd].
      rewrite dset_keys. intros [H1|H1]; [contradiction|].
      apply str_eqb_neq in E. contradiction.
Qed.

Lemma dget_in d k e : dget d k = Some e -> In e d /\ de_name e = k.
Proof.
  induction d as [|x d IH]; cbn; [discriminate|].
  destruct (str_eqb (de_name x) k) eqn:E.
  - intros H. inversion H; subst. apply str_eqb_eq in E. split; [left; reflexivity|exact E].
  - intros H. destruct (IH H) as [H1 H2]. split; [right; exact H1|exact H2].
Qed.

Lemma dget_none d k : dget d k = None -> ~ In k (map de_name d).
Proof.
  induction d as [|x d IH]; cbn; [intros _ []|].
  destruct (str_eqb (de_name x) k) eqn:E; [discriminate|]. apply str_eqb_neq in E.
  intros H [H1|H1]; [contradiction|]. exact (IH H H1).
Qed.

Section DictExport.
  Variable g : dag.
  Variable md : amode.
  Hypothesis WF : Wf g.
  Hypothesis DN : DistinctNames g.
  Hypothesis NL : forall x, ~ Edge g x x.

  Definition ea (y : id) : attrs := export_attrs md (nattrs g y).
  Definition into (es : list edge) (y : id) : list str :=
    map (fun e => name g (fst e)) (filter (fun e => Nat.eqb (snd e) y) es).
  Definition expected (es : list edge) (y : id) : option dentry :=
    if is_root g y
    then (if existsb (fun e => Nat.eqb (fst e) y) es then Some (DE (name g y) None (ea y)) else None)
    else match into es y with [] => None | ps => Some (DE (name g y) (Some ps) (ea y)) end.

  Record DInv (es : list edge) (d : list dentry) : Prop := {
    di_keys : NoDup (map de_name d);
    di_names : forall s, In s (map de_name d) -> exists y, y < dsize g /\ name g y = s;
    di_get : forall y, y < dsize g -> dget d (name g y) = expected es y
  }.

  Lemma name_eqb y z : y < dsize g -> z < dsize g -> str_eqb (name g y) (name g z) = Nat.eqb y z.
  Proof.
    intros Hy Hz. destruct (Nat.eqb y z) eqn:E.
    - apply Nat.eqb_eq in E. subst. apply str_eqb_refl.
    - apply Nat.eqb_neq in E. apply str_eqb_neq. intros H. apply E. apply DN; assumption.
  Qed.

  Lemma into_snoc es p c y :
    into (es ++ [(p, c)]) y = if Nat.eqb c y then into es y ++ [name g p] else into es y.
  Proof.
    unfold into. rewrite filter_app, map_app. cbn. destruct (Nat.eqb c y); cbn; [reflexivity|apply app_nil_r].
  Qed.

  Lemma not_root_child p c : Edge g p c -> is_root g c = false.
  Proof.
    intros He. apply (wf_sym g WF) in He. unfold is_root. destruct (parents g c); [contradiction|reflexivity].
  Qed.

  Lemma dict_step_inv es d p c :
    DInv es d -> Edge g p c ->
    exists d', dict_step g md (Ret d) (p, c) = Ret d' /\ DInv (es ++ [(p, c)]) d'.
  Proof.
    intros I He. destruct (edge_range g WF p c He) as [Rp Rc].
    assert (Hpc : p <> c) by (intros ->; exact (NL c He)).
    assert (NRc := not_root_child p c He).
    unfold dict_step. cbn [fst snd].
    set (d1 := if is_root g p then dset d (DE (name g p) None (ea p)) else d).
    assert (K1 : NoDup (map de_name d1)).
    { unfold d1. destruct (is_root g p); [apply dset_nodup|]; apply (di_keys es d I). }
    assert (N1 : forall s, In s (map de_name d1) -> exists y, y < dsize g /\ name g y = s).
    { unfold d1. destruct (is_root g p); [|apply (di_names es d I)].
      intros s Hs. apply dset_keys in Hs as [Hs| ->]; [apply (di_names es d I); exact Hs|].
      exists p. split; [exact Rp|reflexivity]. }
    assert (G1 : forall y, y < dsize g -> dget d1 (name g y) =
                 if is_root g p && Nat.eqb p y then Some (DE (name g p) None (ea p)) else expected es y).
    { intros y Hy. unfold d1. destruct (is_root g p); cbn [andb]; [|apply (di_get es d I); exact Hy].
      rewrite dget_dset. cbn [de_name]. rewrite name_eqb by assumption.
      destruct (Nat.eqb p y); [reflexivity|apply (di_get es d I); exact Hy]. }
    assert (Gc : dget d1 (name g c) = expected es c).
    { rewrite G1 by exact Rc. apply Nat.eqb_neq in Hpc. rewrite Hpc, andb_false_r. reflexivity. }
    fold (ea p) (ea c). fold d1. rewrite Gc.
    set (newc := DE (name g c) (Some (into es c ++ [name g p])) (ea c)).
    assert (Hd' : exists d', (match expected es c with
             | Some en => if truthy en then
                 match de_parents en with
                 | Some ps => Ret (dset d1 (DE (de_name en) (Some (ps ++ [name g p])) (de_attrs en)))
                 | None => Raise KeyError end
               else Ret (dset d1 (DE (name g c) (Some [name g p]) (ea c)))
             | None => Ret (dset d1 (DE (name g c) (Some [name g p]) (ea c))) end) = Ret d'
             /\ d' = dset d1 newc).
    { unfold expected. rewrite NRc. unfold newc. destruct (into es c) as [|s ps] eqn:EI.
      - eexists. split; reflexivity.
      - cbn. eexists. split; reflexivity. }
    destruct Hd' as [d' [E' ->]]. exists (dset d1 newc). split; [exact E'|].
    constructor.
    - apply dset_nodup. exact K1.
    - intros s Hs. apply dset_keys in Hs as [Hs| ->]; [apply N1; exact Hs|].
      exists c. split; [exact Rc|reflexivity].
    - intros y Hy. rewrite dget_dset. unfold newc. cbn [de_name]. rewrite name_eqb by assumption.
      unfold expected. rewrite into_snoc, existsb_app. cbn [existsb fst].
      destruct (Nat.eqb c y) eqn:Ecy.
      + apply Nat.eqb_eq in Ecy. subst y. rewrite NRc.
        destruct (into es c ++ [name g p]) eqn:EE; [destruct (into es c); discriminate|]. reflexivity.
      + rewrite G1 by exact Hy. unfold expected.
        destruct (Nat.eqb p y) eqn:Epy.
        * apply Nat.eqb_eq in Epy. subst y. rewrite andb_true_r. cbn [orb].
          destruct (is_root g p) eqn:Rt; [rewrite orb_true_r; reflexivity|reflexivity].
        * rewrite andb_false_r. cbn [orb]. rewrite orb_false_r. reflexivity.
  Qed.

  Lemma dict_fold_inv : forall es2 es1 d,
    DInv es1 d -> (forall e, In e es2 -> Edge g (fst e) (snd e)) ->
    exists d', fold_left (dict_step g md) es2 (Ret d) = Ret d' /\ DInv (es1 ++ es2) d'.
  Proof.
    induction es2 as [|[p c] es2 IH]; intros es1 d I HE.
    - exists d. rewrite app_nil_r. split; [reflexivity|exact I].
    - cbn [fold_left]. destruct (dict_step_inv es1 d p c I (HE (p, c) (or_introl eq_refl))) as [d1 [E1 I1]].
      rewrite E1. destruct (IH (es1 ++ [(p, c)]) d1 I1 (fun e He => HE e (or_intror He))) as [d' [E' I']].
      exists d'. split; [exact E'|]. rewrite <- app_assoc in I'. exact I'.
  Qed.

  Lemma dinv_nil : DInv [] [].
  Proof.
    constructor; cbn; [constructor|intros s []|].
    intros y Hy. unfold expected, into. cbn. destruct (is_root g y); reflexivity.
  Qed.
End DictExport.

Theorem dict_nodes_edges_attrs g r x md :
  Wf g -> Ranked g r -> DistinctNames g -> WeaklyConnected g -> x < dsize g -> (exists p c, Edge g p c) ->
  exists d, dag_to_dict g x md = Ret d
    /\ NoDup (map de_name d)
    /\ (forall s, In s (map de_name d) <-> exists y, y < dsize g /\ name g y = s)
    /\ (forall y, y < dsize g -> exists e, In e d /\ de_name e = name g y
          /\ de_attrs e = export_attrs md (nattrs g y)
          /\ (parents g y = [] -> de_parents e = None)
          /\ (parents g y <> [] -> exists ps, de_parents e = Some ps /\ NoDup ps
                /\ forall s, In s ps <-> exists p, In p (parents g y) /\ s = name g p)).
Proof.
  intros WF RK DN WC Hx HE.
  assert (NL : forall y, ~ Edge g y y) by (intros y; apply (Ranked_no_loop g r y RK)).
  set (es := dag_iterator g x).
  assert (S : forall e, In e es -> Edge g (fst e) (snd e)).
  { intros [p c] H. apply (iter_sound g WF x p c H). }
  destruct (dict_fold_inv g md WF DN NL es [] [] (dinv_nil g md) S) as [d [E I]].
  cbn [app] in I. exists d. split; [exact E|]. split; [apply (di_keys g md es d I)|].
  assert (Ent : forall y, y < dsize g -> exists e, dget d (name g y) = Some e /\ expected g md es y = Some e).
  { intros y Hy. rewrite (di_get g md es d I y Hy).
    destruct (incident_edge g y WF WC HE Hy) as [p [c [He Hor]]].
    assert (Hin : In (p, c) es) by (apply iter_complete; assumption).
    unfold expected. destruct (is_root g y) eqn:Rt.
    - destruct Hor as [->| ->].
      + assert (Ex : existsb (fun e => Nat.eqb (fst e) p) es = true).
        { apply existsb_exists. exists (p, c). split; [exact Hin|apply Nat.eqb_refl]. }
        rewrite Ex. eexists. split; reflexivity.
      + rewrite (not_root_child g WF p c He) in Rt. discriminate.
    - destruct (into g es y) as [|s ps] eqn:EI; [|eexists; split; reflexivity].
      exfalso. unfold is_root in Rt. destruct (parents g y) as [|q qs] eqn:EP; [discriminate|].
      assert (Hq : Edge g q y) by (apply (wf_sym g WF); rewrite EP; left; reflexivity).
      assert (Hin' : In (q, y) es) by (apply iter_complete; assumption).
      unfold into in EI. apply map_eq_nil in EI.
      assert (In (q, y) (filter (fun e => Nat.eqb (snd e) y) es)).
      { apply filter_In. split; [exact Hin'|apply Nat.eqb_refl]. }
      rewrite EI in H. exact H. }
  split.
  { intros s. split; [apply (di_names g md es d I)|].
    intros [y [Hy <-]]. destruct (Ent y Hy) as [e [Hg _]]. apply dget_in in Hg as [H1 H2].
    rewrite <- H2. apply in_map. exact H1. }
  intros y Hy. destruct (Ent y Hy) as [e [Hg Hx']]. apply dget_in in Hg as [H1 H2].
  exists e. split; [exact H1|]. split; [exact H2|].
  unfold expected in Hx'. unfold is_root in Hx'.
  destruct (parents g y) as [|q qs] eqn:EP.
  - destruct (existsb (fun e0 => Nat.eqb (fst e0) y) es); [|discriminate]. inversion Hx'; subst e. cbn.
    split; [reflexivity|]. split; [reflexivity|]. intros N. contradiction.
  - destruct (into g es y) as [|s0 ps0] eqn:EI; [discriminate|]. inversion Hx'; subst e. cbn.
    split; [reflexivity|]. split; [intros N; discriminate|]. intros _.
    exists (s0 :: ps0). split; [reflexivity|]. rewrite <- EI. split.
    + unfold into. apply NoDup_map_inj_in; [|apply NoDup_filter; apply (iter_nodup g WF x)].
      intros [p1 c1] [p2 c2] A1 A2 En. apply filter_In in A1 as [A1 B1]. apply filter_In in A2 as [A2 B2].
      cbn in *. apply Nat.eqb_eq in B1, B2. subst c1 c2.
      apply S in A1. apply S in A2. cbn in *.
      destruct (edge_range g WF p1 y A1) as [R1 _]. destruct (edge_range g WF p2 y A2) as [R2 _].
      f_equal. apply DN; assumption.
    + intros s. unfold into. rewrite in_map_iff. split.
      * intros [[p c] [<- A]]. apply filter_In in A as [A B]. cbn in B. apply Nat.eqb_eq in B. subst c. cbn [fst].
        exists p. split; [|reflexivity]. change (In p (q :: qs)). rewrite <- EP. apply (wf_sym g WF). apply (S (p, y) A).
      * intros [p [Hp ->]]. exists (p, y). split; [reflexivity|]. apply filter_In. split; [|apply Nat.eqb_refl].
        apply iter_complete; try assumption. apply (wf_sym g WF). rewrite EP. exact Hp.
Qed.

(* ------------------------------------------------------------------------------------------- *)
(* attribute dictionaries and list updates *)

Lemma list_upd_length {A} (l : list A) i f : length (list_upd l i f) = length l.
Proof. revert i; induction l as [|x l IH]; intros [|i]; cbn; try reflexivity. rewrite IH. reflexivity. Qed.

Lemma nth_list_upd_same {A} (l : list A) i f d : i < length l -> nth i (list_upd l i f) d = f (nth i l d).
Proof.
  revert i; induction l as [|x l IH]; intros [|i] H; cbn in *; try lia; [reflexivity|]. apply IH. lia.
Qed.

Lemma nth_list_upd_other {A} (l : list A) i k f d : k <> i -> nth k (list_upd l i f) d = nth k l d.
Proof.
  revert i k; induction l as [|x l IH]; intros [|i] [|k] H; cbn; try reflexivity; try lia.
  apply IH. lia.
Qed.

Lemma attr_set_notin l k v : ~ In k (map fst l) -> attr_set l k v = l ++ [(k, v)].
Proof.
  induction l as [|[k' v'] l IH]; cbn; intros H; [reflexivity|].
  destruct (str_eqb k' k) eqn:E; [apply str_eqb_eq in E; subst; exfalso; apply H; left; reflexivity|].
  rewrite IH; [reflexivity|]. intros Hin. apply H. right. exact Hin.
Qed.

Lemma attrs_update_fresh a : forall x,
  NoDup (map fst a) -> (forall k, In k (map fst a) -> ~ In k (map fst x)) -> attrs_update x a = x ++ a.
Proof.
  unfold attrs_update. induction a as [|[k v] a IH]; intros x ND HF; cbn.
  - rewrite app_nil_r. reflexivity.
  - inversion ND as [|? ? Hn Hd]; subst. rewrite attr_set_notin by (apply HF; left; reflexivity).
    rewrite IH; [rewrite <- app_assoc; reflexivity|exact Hd|].
    intros k' Hk'. rewrite map_app, in_app_iff. cbn. intros [H|[H|[]]].
    + apply (HF k'); [right; exact Hk'|exact H].
    + subst. contradiction.
Qed.

Lemma attrs_update_nil a : NoDup (map fst a) -> attrs_update [] a = a.
Proof. intros H. apply attrs_update_fresh; [exact H|intros k _ []]. Qed.

Lemma attr_set_same l k v : NoDup (map fst l) -> In (k, v) l -> attr_set l k v = l.
Proof.
  induction l as [|[k' v'] l IH]; cbn; intros ND Hin; [contradiction|].
  inversion ND as [|? ? Hn Hd]; subst.
  destruct (str_eqb k' k) eqn:E.
  - apply str_eqb_eq in E. subst k'. destruct Hin as [Hin|Hin]; [inversion Hin; reflexivity|].
    exfalso. apply Hn. apply in_map_iff. exists (k, v). split; [reflexivity|exact Hin].
  - apply str_eqb_neq in E. destruct Hin as [Hin|Hin]; [inversion Hin; subst; contradiction|].
    rewrite IH; [reflexivity|exact Hd|exact Hin].
Qed.

Lemma attrs_update_incl a : forall l, NoDup (map fst l) -> incl a l -> attrs_update l a = l.
Proof.
  unfold attrs_update. induction a as [|[k v] a IH]; intros l ND HI; cbn; [reflexivity|].
  rewrite attr_set_same; [|exact ND|apply HI; left; reflexivity].
  apply IH; [exact ND|]. intros x Hx. apply HI. right. exact Hx.
Qed.

Lemma attrs_update_idem a : NoDup (map fst a) -> attrs_update a a = a.
Proof. intros H. apply attrs_update_incl; [exact H|apply incl_refl]. Qed.

Lemma NoDup_map_filter {A B} (f : A -> B) p l : NoDup (map f l) -> NoDup (map f (filter p l)).
Proof.
  induction l as [|x l IH]; cbn; intros H; [constructor|].
  inversion H as [|? ? Hn Hd]; subst. destruct (p x); cbn; [|apply IH; exact Hd].
  constructor; [|apply IH; exact Hd].
  intros Hin. apply Hn. apply in_map_iff in Hin as [y [E Hy]]. apply filter_In in Hy as [Hy _].
  apply in_map_iff. exists y. split; assumption.
Qed.

Lemma non_null_idem a : non_null (non_null a) = non_null a.
Proof.
  unfold non_null. induction a as [|[k v] a IH]; cbn; [reflexivity|].
  destruct v; cbn; rewrite ?IH; reflexivity.
Qed.

(* ------------------------------------------------------------------------------------------- *)
(* rebuilding from relations that are edges of an acyclic graph g with distinct names: the loop
   guard never fires, every table node is a node of g, every table edge is a listed relation, and
   the attributes of the touched nodes are the given ones *)

Section Rebuild.
  Variable g : dag.
  Variable r : id -> nat.
  Hypothesis WF : Wf g.
  Hypothesis RK : Ranked g r.
  Hypothesis DN : DistinctNames g.
  Variable L : list (str * str).
  Hypothesis LG : forall pn cn, In (pn, cn) L -> exists p c, Edge g p c /\ pn = name g p /\ cn = name g c.
  Variable A : str -> attrs.                       (* the attributes the input gives to a name *)
  Hypothesis AND : forall s, NoDup (map fst (A s)).

  Definition NodeName (s : str) : Prop := exists y, y < dsize g /\ name g y = s.

  Definition Emb2 (b : bld) : Prop :=
    (forall e, In e (b_edges b) -> In (bname b (fst e), bname b (snd e)) L)
    /\ (forall i, i < bsize b -> NodeName (bname b i)).

  Definition AInv (done : list str) (b : bld) : Prop :=
    length (b_attrs b) = bsize b
    /\ incl done (b_names b)
    /\ forall i, i < bsize b ->
         (In (bname b i) done -> nth i (b_attrs b) [] = A (bname b i))
         /\ (~ In (bname b i) done -> nth i (b_attrs b) [] = []).

  Definition RInv (done : list str) (b : bld) : Prop := Good b /\ Emb2 b /\ AInv done b.

  Lemma emb2_reach b i j : BInv b -> Emb2 b -> Reach (b_dag b) i j ->
    exists p c, name g p = bname b i /\ name g c = bname b j /\ Reach g p c /\ p < dsize g /\ c < dsize g.
  Proof.
    intros I [E1 _] HR. induction HR as [i j He|i k j He HR IH].
    - apply (b_edge b i j I) in He. apply E1 in He. cbn in He.
      destruct (LG _ _ He) as [p [c [Hg [N1 N2]]]]. exists p, c.
      destruct (edge_range g WF p c Hg) as [Rp Rc].
      repeat split; try (symmetry; assumption); try assumption. apply Reach1. exact Hg.
    - apply (b_edge b i k I) in He. apply E1 in He. cbn in He.
      destruct (LG _ _ He) as [p [q [Hg [N1 N2]]]].
      destruct IH as [p' [c [M1 [M2 [HR' [Rp' Rc]]]]]].
      destruct (edge_range g WF p q Hg) as [Rp Rq].
      assert (q = p') by (apply DN; try assumption; congruence). subst p'.
      exists p, c. repeat split; try (symmetry; assumption); try assumption.
      eapply ReachS; eauto.
  Qed.

  Lemma AInv_equiv done done' b : (forall s, In s done <-> In s done') -> AInv done b -> AInv done' b.
  Proof.
    intros EQ [A1 [A2 A3]]. split; [exact A1|]. split.
    - intros s Hs. apply A2. apply EQ. exact Hs.
    - intros i Hi. destruct (A3 i Hi) as [B1 B2]. split.
      + intros H. apply B1. apply EQ. exact H.
      + intros H. apply B2. intros H'. apply H. apply EQ. exact H'.
  Qed.

  (* node_dict.get(nm, node_type(nm)): a possibly new node without attributes *)
  Lemma R_get_parent done b nm b' i :
    RInv done b -> NodeName nm -> b_get_or_new b nm [] = (b', i) ->
    RInv done b' /\ bext b b' /\ b_edges b' = b_edges b /\ i < bsize b' /\ bname b' i = nm.
  Proof.
    intros [G [[E1 E2] [A1 [A2 A3]]]] HN H.
    destruct (b_get_or_new_spec b nm [] b' i G H) as [G' [X [Ed [Hi Ni]]]].
    split; [|tauto]. split; [exact G'|].
    unfold b_get_or_new, b_lookup in H. destruct (sindex nm (b_names b)) as [j|] eqn:EL.
    - inversion H; subst. split; [split; assumption|]. split; [exact A1|]. split; assumption.
    - apply sindex_none in EL. unfold b_new in H. inversion H; subst b' i. clear H.
      split.
      + split.
        * intros e He. cbn in He. destruct e as [u v]. destruct (bi_range b (proj1 G) u v He) as [Ru Rv].
          destruct (bext_name b _ u X Ru) as [Eu _]. destruct (bext_name b _ v X Rv) as [Ev _].
          cbn [fst snd]. rewrite Eu, Ev. apply (E1 (u, v) He).
        * intros k Hk. unfold bsize in Hk. cbn in Hk. rewrite app_length in Hk. cbn in Hk.
          destruct (Nat.eq_dec k (length (b_names b))) as [->|Hne].
          { unfold bname. cbn. rewrite app_nth2 by lia. rewrite Nat.sub_diag. exact HN. }
          { assert (Hk0 : k < bsize b) by (unfold bsize; lia).
            destruct (bext_name b _ k X Hk0) as [Ek _]. rewrite Ek. apply E2. exact Hk0. }
      + split; [unfold bsize; cbn; rewrite !app_length; cbn; unfold bsize in A1; lia|].
        split; [intros s Hs; cbn; apply in_or_app; left; apply A2; exact Hs|].
        intros k Hk. unfold bsize in Hk. cbn in Hk. rewrite app_length in Hk. cbn in Hk.
        unfold bname. cbn.
        destruct (Nat.eq_dec k (length (b_names b))) as [->|Hne].
        * rewrite app_nth2 by lia. rewrite Nat.sub_diag. cbn.
          rewrite app_nth2 by (unfold bsize in A1; lia). unfold bsize in A1. rewrite A1, Nat.sub_diag. cbn.
          split; [|reflexivity]. intros Hd. exfalso. apply EL. apply A2. exact Hd.
        * assert (Hk0 : k < bsize b) by (unfold bsize; lia).
          rewrite app_nth1 by (unfold bsize in Hk0; exact Hk0).
          rewrite app_nth1 by (unfold bsize in *; lia). apply A3. exact Hk0.
  Qed.

  (* child.parents = [parent] for a listed relation: accepted *)
  Lemma R_link done b c p :
    RInv done b -> c < bsize b -> p < bsize b -> In (bname b p, bname b c) L ->
    exists b', set_parent1 b c p = Ret b' /\ RInv done b' /\ bext b b'
               /\ b_names b' = b_names b /\ In (p, c) (b_edges b').
  Proof.
    intros [G [Em [A1 [A2 A3]]]] Hc Hp HL.
    destruct (LG _ _ HL) as [p0 [c0 [Hg [N1 N2]]]].
    destruct (edge_range g WF p0 c0 Hg) as [Rp0 Rc0].
    destruct (set_parent1 b c p) as [b3|e] eqn:E3.
    - exists b3. split; [reflexivity|].
      destruct (set_parent1_spec b c p b3 G Hc Hp E3) as [G3 [Nm3 [Ed3 _]]].
      assert (N3 : forall i, bname b3 i = bname b i) by (intros i; unfold bname; rewrite Nm3; reflexivity).
      assert (S3 : bsize b3 = bsize b) by (unfold bsize; rewrite Nm3; reflexivity).
      assert (At3 : b_attrs b3 = b_attrs b).
      { unfold set_parent1 in E3. destruct (Nat.eqb p c); [discriminate|].
        destruct (memb c (ancestors (b_dag b) p)); [discriminate|].
        destruct (memb p (b_parents b c)); inversion E3; reflexivity. }
      split; [|split; [|split; [exact Nm3|apply Ed3; right; reflexivity]]].
      + split; [exact G3|]. destruct Em as [E1 E2]. split; [split|].
        * intros e He. rewrite !N3. apply Ed3 in He as [He| ->]; [apply E1; exact He|exact HL].
        * intros i Hi. rewrite N3. apply E2. rewrite <- S3. exact Hi.
        * split; [rewrite At3, S3; exact A1|]. split; [rewrite Nm3; exact A2|].
          intros i Hi. rewrite At3, N3. apply A3. rewrite <- S3. exact Hi.
      + split; [exists []; rewrite app_nil_r; exact Nm3|]. intros e He. apply Ed3. left. exact He.
    - exfalso. unfold set_parent1 in E3.
      destruct (Nat.eqb p c) eqn:Q1.
      + apply Nat.eqb_eq in Q1. subst c.
        assert (p0 = c0) by (apply DN; try assumption; congruence). subst c0.
        exact (Ranked_no_loop g r p0 RK Hg).
      + destruct (memb c (ancestors (b_dag b) p)) eqn:Q2.
        * apply memb_In in Q2. apply (ancestors_sound (b_dag b) (b_wf b (proj1 G))) in Q2.
          destruct (emb2_reach b c p (proj1 G) Em Q2) as [c' [p' [M1 [M2 [HR [Rc' Rp']]]]]].
          assert (c' = c0) by (apply DN; try assumption; congruence).
          assert (p' = p0) by (apply DN; try assumption; congruence). subst c' p'.
          apply (Ranked_irrefl g r p0 RK). eapply ReachS; eauto.
        * destruct (memb p (b_parents b c)); discriminate.
  Qed.

  (* setting the attributes A nm on node c named nm whose attributes are [] or already A nm *)
  Lemma R_set_attrs done b c :
    RInv done b -> c < bsize b ->
    RInv (bname b c :: done) (b_set_attrs b c (A (bname b c))).
  Proof.
    intros [G [[E1 E2] [A1 [A2 A3]]]] Hc.
    destruct (set_attrs_good b c (A (bname b c)) G) as [G1 [X1 [S1 N1]]].
    split; [exact G1|]. split.
    - split; [intros e He; rewrite !N1; apply E1; exact He|].
      intros i Hi. rewrite N1. apply E2. rewrite <- S1. exact Hi.
    - split; [cbn; rewrite list_upd_length; exact A1|].
      split.
      { intros s [<-|Hs]; [apply nth_In; exact Hc|apply A2; exact Hs]. }
      intros i Hi. rewrite S1 in Hi. rewrite N1. cbn [b_set_attrs b_attrs].
      destruct (Nat.eq_dec i c) as [->|Hne].
      + rewrite nth_list_upd_same by (rewrite A1; exact Hc). split.
        * intros _. destruct (A3 c Hc) as [B1 B2].
          destruct (In_dec_str (bname b c) done) as [Hd|Hd].
          { rewrite (B1 Hd). apply attrs_update_idem. apply AND. }
          { rewrite (B2 Hd). apply attrs_update_nil. apply AND. }
        * intros Hn. exfalso. apply Hn. left. reflexivity.
      + rewrite nth_list_upd_other by exact Hne. destruct (A3 i Hi) as [B1 B2]. split.
        * intros [Hd|Hd]; [|apply B1; exact Hd].
          exfalso. apply Hne. apply (bname_inj b i c (proj1 G)); [exact Hi|exact Hc|symmetry; exact Hd].
        * intros Hn. apply B2. intros Hd. apply Hn. right. exact Hd.
  Qed.

  (* a possibly new node created with attributes attrs_update [] (A nm) *)
  Lemma R_get_child done b nm b' i :
    RInv done b -> NodeName nm -> b_get_or_new b nm (attrs_update [] (A nm)) = (b', i) ->
    bext b b' /\ i < bsize b' /\ bname b' i = nm
    /\ RInv (nm :: done) (b_set_attrs b' i (A nm)).
  Proof.
    intros R HN H.
    destruct R as [G [[E1 E2] [A1 [A2 A3]]]].
    destruct (b_get_or_new_spec b nm _ b' i G H) as [G' [X [Ed [Hi Ni]]]].
    split; [exact X|]. split; [exact Hi|]. split; [exact Ni|].
    unfold b_get_or_new, b_lookup in H. destruct (sindex nm (b_names b)) as [j|] eqn:EL.
    - inversion H; subst b' j. rewrite <- Ni. apply R_set_attrs; [|exact Hi].
      split; [exact G|]. split; [split; assumption|]. split; [exact A1|]. split; assumption.
    - (* new node: first look at it as created without attributes, then set them *)
      apply sindex_none in EL.
      assert (H0 : b_get_or_new b nm [] = (BLD (b_names b ++ [nm]) (b_attrs b ++ [[]]) (b_edges b), length (b_names b))).
      { unfold b_get_or_new, b_lookup. destruct (sindex nm (b_names b)) eqn:EL'; [|reflexivity].
        apply sindex_some in EL' as [L1 L2]. exfalso. apply EL. rewrite <- L2. apply nth_In. exact L1. }
      unfold b_new in H. inversion H; subst b' i. clear H.
      assert (R0 : RInv done b).
      { split; [exact G|]. split; [split; assumption|]. split; [exact A1|]. split; assumption. }
      destruct (R_get_parent done b nm _ _ R0 HN H0) as [R1 [_ [_ [Hi1 Ni1]]]].
      set (b1 := BLD (b_names b ++ [nm]) (b_attrs b ++ [[]]) (b_edges b)) in *.
      assert (R2 := R_set_attrs done b1 (length (b_names b)) R1 Hi1).
      rewrite Ni1 in R2.
      (* the two tables coincide *)
      assert (EQ : b_set_attrs (BLD (b_names b ++ [nm]) (b_attrs b ++ [attrs_update [] (A nm)]) (b_edges b))
                     (length (b_names b)) (A nm)
                   = b_set_attrs b1 (length (b_names b)) (A nm)).
      { unfold b_set_attrs, b1. cbn. f_equal.
        assert (LL : length (b_attrs b) = length (b_names b)) by exact A1.
        rewrite <- LL. generalize (b_attrs b). intros l0.
        induction l0 as [|x l IH]; cbn.
        - assert (U0 : attrs_update [] (A nm) = A nm) by (apply attrs_update_nil; apply AND).
          rewrite !U0. rewrite (attrs_update_idem (A nm) (AND nm)). reflexivity.
        - f_equal. exact IH. }
      rewrite EQ. exact R2.
  Qed.
End Rebuild.

Lemma list_upd_id {A} (l : list A) i f d : f (nth i l d) = nth i l d -> list_upd l i f = l.
Proof.
  revert i; induction l as [|x l IH]; intros [|i] H; cbn in *; try reflexivity.
  - rewrite H. reflexivity.
  - rewrite IH by exact H. reflexivity.
Qed.

Lemma dget_of_in d e : NoDup (map de_name d) -> In e d -> dget d (de_name e) = Some e.
Proof.
  induction d as [|x d IH]; cbn; intros ND Hin; [contradiction|].
  inversion ND as [|? ? Hn Hd]; subst. destruct Hin as [->|Hin].
  - rewrite str_eqb_refl. reflexivity.
  - destruct (str_eqb (de_name x) (de_name e)) eqn:E; [|apply IH; assumption].
    apply str_eqb_eq in E. exfalso. apply Hn. rewrite E. apply in_map. exact Hin.
Qed.

(* ------------------------------------------------------------------------------------------- *)
(* dict_to_dag on a dictionary whose relations are edges of g *)

Section DictRebuild.
  Variable g : dag.
  Variable r : id -> nat.
  Hypothesis WF : Wf g.
  Hypothesis RK : Ranked g r.
  Hypothesis DN : DistinctNames g.
  Variable L : list (str * str).
  Hypothesis LG : forall pn cn, In (pn, cn) L -> exists p c, Edge g p c /\ pn = name g p /\ cn = name g c.
  Variable A : str -> attrs.
  Hypothesis AND : forall s, NoDup (map fst (A s)).

  Notation RInv := (RInv g L A).

  Lemma dict_parent_ok done b c pn last :
    RInv done b -> c < bsize b -> In (pn, bname b c) L ->
    exists b' p, dict_parent_step c (Ret (b, last)) pn = Ret (b', Some p) /\ RInv done b' /\ bext b b'.
  Proof.
    intros R Hc HL. unfold dict_parent_step.
    destruct (b_get_or_new b pn []) as [b1 p] eqn:E1.
    assert (HN : NodeName g pn).
    { destruct (LG _ _ HL) as [p0 [c0 [Hg [-> _]]]]. exists p0. split; [|reflexivity].
      apply (edge_range g WF p0 c0 Hg). }
    destruct (R_get_parent g L A done b pn b1 p R HN E1) as [R1 [X1 [_ [Hp Np]]]].
    destruct (bext_name b b1 c X1 Hc) as [Nc1 Hc1].
    assert (HL1 : In (bname b1 p, bname b1 c) L) by (rewrite Np, Nc1; exact HL).
    destruct (R_link g r WF RK DN L LG A done b1 c p R1 Hc1 Hp HL1) as [b2 [E2 [R2 [X2 _]]]].
    rewrite E2. exists b2, p. split; [reflexivity|]. split; [exact R2|exact (bext_trans _ _ _ X1 X2)].
  Qed.

  Lemma fold_parent_ok done c : forall ps b last,
    RInv done b -> c < bsize b -> (forall pn, In pn ps -> In (pn, bname b c) L) ->
    exists b' last', fold_left (dict_parent_step c) ps (Ret (b, last)) = Ret (b', last')
      /\ RInv done b' /\ bext b b'
      /\ (ps <> [] -> exists p, last' = Some p) /\ (ps = [] -> last' = last).
  Proof.
    induction ps as [|pn ps IH]; intros b last R Hc HL.
    - exists b, last. split; [reflexivity|]. split; [exact R|]. split; [apply bext_refl|].
      split; [intros N; contradiction|reflexivity].
    - cbn [fold_left].
      destruct (dict_parent_ok done b c pn last R Hc (HL pn (or_introl eq_refl))) as [b1 [p [E1 [R1 X1]]]].
      rewrite E1. destruct (bext_name b b1 c X1 Hc) as [Nc1 Hc1].
      destruct (IH b1 (Some p) R1 Hc1) as [b' [last' [E' [R' [X' [L1 L2]]]]]].
      { intros q Hq. rewrite Nc1. apply HL. right. exact Hq. }
      exists b', last'. split; [exact E'|]. split; [exact R'|]. split; [exact (bext_trans _ _ _ X1 X')|].
      split; [|intros N; discriminate]. intros _. destruct ps as [|q ps'].
      + exists p. apply L2. reflexivity.
      + apply L1. discriminate.
  Qed.

  Lemma dict_entry_ok done b last e :
    RInv done b -> NodeName g (de_name e) -> de_attrs e = A (de_name e) ->
    existsb (fun kv => reserved (fst kv)) (de_attrs e) = false ->
    (forall pn, In pn (entry_parents e) -> In (pn, de_name e) L) ->
    exists b' last', dict_entry_step (Ret (b, last)) e = Ret (b', last')
      /\ RInv (de_name e :: done) b' /\ bext b b'
      /\ (entry_parents e <> [] -> exists p, last' = Some p) /\ (entry_parents e = [] -> last' = last).
  Proof.
    intros R HN HA HR HL. unfold dict_entry_step. rewrite HR. fold (entry_parents e).
    assert (Step : exists b1 c, (match b_lookup b (de_name e) with
                                 | Some i => (b_set_attrs b i (de_attrs e), i)
                                 | None => b_new b (de_name e) (attrs_update [] (de_attrs e)) end) = (b1, c)
                   /\ RInv (de_name e :: done) b1 /\ bext b b1 /\ c < bsize b1 /\ bname b1 c = de_name e).
    { destruct (b_lookup b (de_name e)) as [i|] eqn:EL.
      - unfold b_lookup in EL. apply sindex_some in EL as [Hi Ni]. fold (bsize b) in Hi. fold (bname b i) in Ni.
        exists (b_set_attrs b i (de_attrs e)), i. split; [reflexivity|].
        assert (R1 := R_set_attrs g L A AND done b i R Hi). rewrite Ni in R1. rewrite HA.
        split; [exact R1|].
        destruct (set_attrs_good b i (A (de_name e)) (proj1 R)) as [_ [X1 [S1 N1]]].
        split; [exact X1|]. split; [rewrite S1; exact Hi|rewrite N1; exact Ni].
      - destruct (b_new b (de_name e) (attrs_update [] (de_attrs e))) as [b1 c] eqn:EN.
        exists b1, c. split; [reflexivity|].
        assert (E0 : b_get_or_new b (de_name e) (attrs_update [] (A (de_name e))) = (b1, c)).
        { unfold b_get_or_new. rewrite EL, <- HA. exact EN. }
        destruct (R_get_child g L A AND done b (de_name e) b1 c R HN E0) as [X1 [Hc [Nc R1]]].
        assert (EQ : b_set_attrs b1 c (A (de_name e)) = b1).
        { unfold b_new in EN. inversion EN; subst b1 c. unfold b_set_attrs. cbn. f_equal.
          apply (list_upd_id _ _ _ []).
          destruct R as [_ [_ [A1 _]]]. unfold bsize in A1. rewrite <- A1.
          rewrite app_nth2 by lia. rewrite Nat.sub_diag. cbn. rewrite HA.
          rewrite (attrs_update_nil (A (de_name e)) (AND _)). apply attrs_update_idem. apply AND. }
        rewrite EQ in R1. tauto. }
    destruct Step as [b1 [c [E1 [R1 [X1 [Hc Nc]]]]]]. rewrite E1.
    destruct (fold_parent_ok (de_name e :: done) c (entry_parents e) b1 last R1 Hc)
      as [b' [last' [E' [R' [X' [L1 L2]]]]]].
    { intros pn Hpn. rewrite Nc. apply HL. exact Hpn. }
    exists b', last'. split; [exact E'|]. split; [exact R'|]. split; [exact (bext_trans _ _ _ X1 X')|].
    split; assumption.
  Qed.

  Lemma fold_entry_ok : forall ents done b last,
    RInv done b -> NoDup (map de_name ents) ->
    (forall e, In e ents -> NodeName g (de_name e) /\ de_attrs e = A (de_name e)
        /\ existsb (fun kv => reserved (fst kv)) (de_attrs e) = false
        /\ forall pn, In pn (entry_parents e) -> In (pn, de_name e) L) ->
    exists b' last' done', fold_left dict_entry_step ents (Ret (b, last)) = Ret (b', last')
      /\ RInv done' b' /\ (forall s, In s done' <-> In s done \/ In s (map de_name ents))
      /\ ((exists e, In e ents /\ entry_parents e <> []) -> exists p, last' = Some p).
  Proof.
    induction ents as [|e ents IH]; intros done b last R ND HC.
    - exists b, last, done. split; [reflexivity|]. split; [exact R|]. split; [cbn; tauto|].
      intros [e [[] _]].
    - cbn [fold_left]. inversion ND as [|? ? Hn Hd]; subst.
      destruct (HC e (or_introl eq_refl)) as [C1 [C2 [C3 C4]]].
      destruct (dict_entry_ok done b last e R C1 C2 C3 C4) as [b1 [l1 [E1 [R1 [X1 [L1 L2]]]]]].
      rewrite E1.
      destruct (IH (de_name e :: done) b1 l1 R1 Hd (fun e' H' => HC e' (or_intror H')))
        as [b' [last' [done' [E' [R' [EQ' LS']]]]]].
      exists b', last', done'. split; [exact E'|]. split; [exact R'|]. split.
      + intros s. rewrite EQ'. cbn. tauto.
      + intros [e0 [[<-|H0] HP]].
        * destruct (L1 HP) as [p ->]. clear - E'.
          (* once a parent has been linked the returned node stays defined *)
          revert E'. generalize b1 p. induction ents as [|e1 es IHes]; intros b0 p0 E'.
          { cbn in E'. inversion E'. exists p0. reflexivity. }
          { cbn [fold_left] in E'.
            destruct (dict_entry_step (Ret (b0, Some p0)) e1) as [[b2 l2]|x] eqn:E2;
              [|rewrite fold_entry_raise in E'; discriminate].
            assert (exists q, l2 = Some q) as [q ->].
            { unfold dict_entry_step in E2.
              destruct (existsb (fun kv => reserved (fst kv)) (de_attrs e1)); [discriminate|].
              destruct (match b_lookup b0 (de_name e1) with
                        | Some i => (b_set_attrs b0 i (de_attrs e1), i)
                        | None => b_new b0 (de_name e1) (attrs_update [] (de_attrs e1)) end) as [b3 c3].
              revert E2. generalize b3 p0.
              induction (match de_parents e1 with Some ps => ps | None => [] end) as [|pn ps IHp];
                intros b4 p4 E2.
              - cbn in E2. inversion E2. exists p4. reflexivity.
              - cbn [fold_left] in E2.
                destruct (dict_parent_step c3 (Ret (b4, Some p4)) pn) as [[b5 l5]|x] eqn:E5;
                  [|rewrite fold_parent_raise in E2; discriminate].
                unfold dict_parent_step in E5. destruct (b_get_or_new b4 pn []) as [b6 p6].
                destruct (set_parent1 b6 c3 p6); [|discriminate]. inversion E5; subst.
                apply (IHp _ _ E2). }
            apply (IHes _ _ E'). }
        * apply LS'. exists e0. split; assumption.
  Qed.
End DictRebuild.

Lemma entry_unique d e e' :
  NoDup (map de_name d) -> In e d -> In e' d -> de_name e = de_name e' -> e = e'.
Proof.
  intros ND H1 H2 E. assert (G1 := dget_of_in d e ND H1). assert (G2 := dget_of_in d e' ND H2).
  rewrite E in G1. rewrite G1 in G2. inversion G2. reflexivity.
Qed.

Theorem roundtrip_dict g r x md :
  Wf g -> Ranked g r -> DistinctNames g -> WeaklyConnected g -> x < dsize g -> (exists p c, Edge g p c) ->
  (forall y, y < dsize g -> NoDup (map fst (export_attrs md (nattrs g y)))) ->
  (forall y, y < dsize g -> existsb (fun kv => reserved (fst kv)) (export_attrs md (nattrs g y)) = false) ->
  exists d b ret, dag_to_dict g x md = Ret d /\ dict_to_dag d = Ret (b, Some ret)
    /\ SameNames g (b_names b)
    /\ NoDup (b_edges b)
    /\ (forall pn cn, HasEdge b pn cn <-> exists p c, Edge g p c /\ pn = name g p /\ cn = name g c)
    /\ length (b_attrs b) = bsize b
    /\ (forall i y, i < bsize b -> y < dsize g -> bname b i = name g y ->
          nth i (b_attrs b) [] = export_attrs md (nattrs g y)).
Proof.
  intros WF RK DN WC Hx HE KND RES.
  destruct (dict_nodes_edges_attrs g r x md WF RK DN WC Hx HE) as [d [ED [KD [KN EN]]]].
  exists d.
  set (L := dict_relations d).
  set (A := fun s => match dget d s with Some e => de_attrs e | None => [] end).
  (* every entry belongs to a node of g *)
  assert (EY : forall e, In e d -> exists y, y < dsize g /\ de_name e = name g y
              /\ de_attrs e = export_attrs md (nattrs g y)
              /\ (forall pn, In pn (entry_parents e) <-> exists p, In p (parents g y) /\ pn = name g p)).
  { intros e He. assert (Hk : In (de_name e) (map de_name d)) by (apply in_map; exact He).
    apply KN in Hk as [y [Hy Ny]]. destruct (EN y Hy) as [e' [He' [Ne' [Ae' [P1 P2]]]]].
    assert (e = e') by (apply (entry_unique d); try assumption; congruence). subst e'.
    exists y. split; [exact Hy|]. split; [exact Ne'|]. split; [exact Ae'|].
    intros pn. unfold entry_parents. destruct (parents g y) as [|q qs] eqn:EP.
    - rewrite (P1 eq_refl). split; [intros []|intros [p [[] _]]].
    - destruct (P2 ltac:(discriminate)) as [ps [E1 [_ E3]]]. rewrite E1. apply E3. }
  assert (LG : forall pn cn, In (pn, cn) L -> exists p c, Edge g p c /\ pn = name g p /\ cn = name g c).
  { intros pn cn H. unfold L, dict_relations in H. apply in_flat_map in H as [e [He H]].
    apply in_map_iff in H as [pn' [E Hpn]]. inversion E; subst pn' cn.
    destruct (EY e He) as [y [Hy [Ny [_ PP]]]]. fold (entry_parents e) in Hpn.
    apply PP in Hpn as [p [Hp ->]]. exists p, y. split; [apply (wf_sym g WF); exact Hp|]. split; [reflexivity|exact Ny]. }
  assert (LE : forall p c, Edge g p c -> In (name g p, name g c) L).
  { intros p c He. destruct (edge_range g WF p c He) as [_ Rc].
    destruct (EN c Rc) as [e [Hin [Ne _]]]. destruct (EY e Hin) as [y [Hy [Ny [_ PP]]]].
    assert (y = c) by (apply DN; try assumption; congruence). subst y.
    unfold L, dict_relations. apply in_flat_map. exists e. split; [exact Hin|].
    apply in_map_iff. exists (name g p). split; [rewrite Ne; reflexivity|].
    fold (entry_parents e). apply PP. exists p. split; [apply (wf_sym g WF); exact He|reflexivity]. }
  assert (AE : forall e, In e d -> A (de_name e) = de_attrs e).
  { intros e He. unfold A. rewrite (dget_of_in d e KD He). reflexivity. }
  assert (AND : forall s, NoDup (map fst (A s))).
  { intros s. unfold A. destruct (dget d s) as [e|] eqn:E; [|constructor].
    apply dget_in in E as [He _]. destruct (EY e He) as [y [Hy [_ [Ae _]]]]. rewrite Ae. apply KND. exact Hy. }
  assert (R0 : RInv g L A [] b_empty).
  { split; [exact good_empty|]. split.
    - split; [intros e []|intros i Hi; unfold bsize in Hi; cbn in Hi; lia].
    - split; [reflexivity|]. split; [intros s []|intros i Hi; unfold bsize in Hi; cbn in Hi; lia]. }
  assert (HC : forall e, In e d -> NodeName g (de_name e) /\ de_attrs e = A (de_name e)
        /\ existsb (fun kv => reserved (fst kv)) (de_attrs e) = false
        /\ forall pn, In pn (entry_parents e) -> In (pn, de_name e) L).
  { intros e He. destruct (EY e He) as [y [Hy [Ny [Ae PP]]]].
    split; [exists y; split; [exact Hy|symmetry; exact Ny]|]. split; [symmetry; apply AE; exact He|].
    split; [rewrite Ae; apply RES; exact Hy|].
    intros pn Hpn. unfold L, dict_relations. apply in_flat_map. exists e. split; [exact He|].
    apply in_map_iff. exists pn. split; [reflexivity|exact Hpn]. }
  destruct (fold_entry_ok g r WF RK DN L LG A AND d [] b_empty None R0 KD HC)
    as [b [last [done' [EF [[G [Em [A1 [A2 A3]]]] [EQ LS]]]]]].
  destruct (fold_entry_spec d b_empty None b last good_empty EF) as [_ [_ HEd]].
  fold L in HEd.
  assert (LS' : exists p, last = Some p).
  { apply LS. destruct HE as [p [c He]]. destruct (edge_range g WF p c He) as [_ Rc].
    destruct (EN c Rc) as [e [Hin [Ne _]]]. exists e. split; [exact Hin|].
    destruct (EY e Hin) as [y [Hy [Ny [_ PP]]]].
    assert (y = c) by (apply DN; try assumption; congruence). subst y.
    intros N. assert (Hp : In (name g p) (entry_parents e)).
    { apply PP. exists p. split; [apply (wf_sym g WF); exact He|reflexivity]. }
    rewrite N in Hp. exact Hp. }
  destruct LS' as [ret ->]. exists b, ret. split; [exact ED|].
  split.
  { unfold dict_to_dag. destruct d as [|e0 d0].
    - exfalso. destruct HE as [p [c He]]. destruct (edge_range g WF p c He) as [Rp _].
      destruct (EN p Rp) as [e [[] _]].
    - rewrite EF. reflexivity. }
  destruct G as [I AC]. destruct Em as [E1 E2].
  split.
  { split; [apply (bi_nodup_n b I)|]. intros s. split.
    - intros Hs. apply (In_nth _ _ []) in Hs as [i [Hi Es]]. fold (bsize b) in Hi. fold (bname b i) in Es.
      rewrite <- Es. apply E2. exact Hi.
    - intros [y [Hy <-]]. destruct (incident_edge g y WF WC HE Hy) as [p [c [He Hor]]].
      destruct (HEd _ (LE p c He)) as [i [j [_ [Hi [Hj [N1 N2]]]]]]. cbn in N1, N2.
      destruct Hor as [->| ->]; [rewrite <- N1|rewrite <- N2]; apply nth_In; assumption. }
  split; [apply (bi_nodup_e b I)|]. split.
  { intros pn cn. split.
    - intros [i [j [Hin [Hi [Hj [<- <-]]]]]]. apply LG. apply (E1 (i, j) Hin).
    - intros [p [c [He [-> ->]]]]. apply (HEd (name g p, name g c)). apply LE. exact He. }
  split; [exact A1|].
  intros i y Hi Hy Ni. destruct (A3 i Hi) as [B1 _].
  destruct (EN y Hy) as [e [Hin [Ne [Ae _]]]].
  rewrite B1.
  - rewrite Ni, <- Ne, (AE e Hin). exact Ae.
  - apply EQ. right. rewrite Ni, <- Ne. apply in_map. exact Hin.
Qed.

(* ------------------------------------------------------------------------------------------- *)
(* dag_to_dataframe: one row per edge and per root; dataframe_to_dag on these rows *)

Lemma val_eqb_refl v : val_eqb v v = true.
Proof.
  destruct v; cbn; try reflexivity.
  - apply Z.eqb_refl.
  - apply str_eqb_refl.
  - destruct b; reflexivity.
  - apply Z.eqb_refl.
Qed.

Lemma attrs_eqb_refl a : attrs_eqb a a = true.
Proof.
  induction a as [|[k v] a IH]; cbn; [reflexivity|].
  rewrite str_eqb_refl, val_eqb_refl, IH. reflexivity.
Qed.

Lemma row_eqb_refl x : row_eqb x x = true.
Proof.
  unfold row_eqb. rewrite str_eqb_refl, attrs_eqb_refl. destruct (dr_parent x); cbn; [rewrite str_eqb_refl|]; reflexivity.
Qed.

Lemma row_eqb_key x y : row_eqb x y = true -> dr_name x = dr_name y /\ dr_parent x = dr_parent y.
Proof.
  unfold row_eqb. intros H. apply andb_true_iff in H as [H _]. apply andb_true_iff in H as [H1 H2].
  apply str_eqb_eq in H1. split; [exact H1|].
  destruct (dr_parent x), (dr_parent y); cbn in H2; try discriminate; [|reflexivity].
  apply str_eqb_eq in H2. subst. reflexivity.
Qed.

Lemma dd_sub : forall l seen x, In x (drop_duplicates_acc seen l) -> In x l.
Proof.
  induction l as [|a l IH]; intros seen x H; cbn in H; [contradiction|].
  destruct (existsb (row_eqb a) seen); [right; eapply IH; eauto|].
  destruct H as [<-|H]; [left; reflexivity|right; eapply IH; eauto].
Qed.

Lemma dd_cover : forall l seen x, In x l ->
  exists x', (In x' seen \/ In x' (drop_duplicates_acc seen l)) /\ row_eqb x x' = true.
Proof.
  induction l as [|a l IH]; intros seen x H; [contradiction|]. cbn.
  destruct (existsb (row_eqb a) seen) eqn:E.
  - destruct H as [<-|H].
    + apply existsb_exists in E as [x' [H1 H2]]. exists x'. split; [left; exact H1|exact H2].
    + apply IH. exact H.
  - destruct H as [<-|H].
    + exists a. split; [right; left; reflexivity|apply row_eqb_refl].
    + destruct (IH (a :: seen) x H) as [x' [[[<-|H1]|H1] H2]].
      * exists a. split; [right; left; reflexivity|exact H2].
      * exists x'. split; [left; exact H1|exact H2].
      * exists x'. split; [right; right; exact H1|exact H2].
Qed.

Section DfRebuild.
  Variable g : dag.
  Variable r : id -> nat.
  Hypothesis WF : Wf g.
  Hypothesis RK : Ranked g r.
  Hypothesis DN : DistinctNames g.
  Variable L : list (str * str).
  Hypothesis LG : forall pn cn, In (pn, cn) L -> exists p c, Edge g p c /\ pn = name g p /\ cn = name g c.
  Variable A : str -> attrs.
  Hypothesis AND : forall s, NoDup (map fst (A s)).

  Notation RInv := (RInv g L A).
  Definition is_some {T} (o : option T) : bool := match o with Some _ => true | None => false end.

  Lemma df_row_ok done b last rw :
    RInv done b -> NodeName g (dr_name rw) -> non_null (dr_attrs rw) = A (dr_name rw) ->
    (forall pn, dr_parent rw = Some pn -> In (pn, dr_name rw) L) ->
    exists b' last', df_row_step (Ret (b, last)) rw = Ret (b', last')
      /\ RInv (dr_name rw :: done) b' /\ bext b b'
      /\ (dr_parent rw <> None -> is_some last' = true) /\ (dr_parent rw = None -> last' = last).
  Proof.
    intros R HN HA HL. unfold df_row_step. rewrite HA.
    destruct (b_get_or_new b (dr_name rw) (attrs_update [] (A (dr_name rw)))) as [b1 c] eqn:E1.
    destruct (R_get_child g L A AND done b (dr_name rw) b1 c R HN E1) as [X1 [Hc [Nc R2]]].
    set (b2 := b_set_attrs b1 c (A (dr_name rw))) in *.
    destruct (b_get_or_new_spec b _ _ b1 c (proj1 R) E1) as [G1 _].
    destruct (set_attrs_good b1 c (A (dr_name rw)) G1) as [_ [X2 [S2 N2]]].
    assert (Hc2 : c < bsize b2) by (unfold b2; rewrite S2; exact Hc).
    assert (Nc2 : bname b2 c = dr_name rw) by (unfold b2; rewrite N2; exact Nc).
    destruct (dr_parent rw) as [pn|] eqn:EP.
    - destruct (b_get_or_new b2 pn []) as [b3 p] eqn:E3.
      assert (HL' := HL pn eq_refl).
      assert (HNp : NodeName g pn).
      { destruct (LG _ _ HL') as [p0 [c0 [Hg [-> _]]]]. exists p0. split; [|reflexivity].
        apply (edge_range g WF p0 c0 Hg). }
      destruct (R_get_parent g L A (dr_name rw :: done) b2 pn b3 p R2 HNp E3) as [R3 [X3 [_ [Hp Np]]]].
      destruct (bext_name b2 b3 c X3 Hc2) as [Nc3 Hc3].
      assert (HL3 : In (bname b3 p, bname b3 c) L) by (rewrite Np, Nc3, Nc2; exact HL').
      destruct (R_link g r WF RK DN L LG A _ b3 c p R3 Hc3 Hp HL3) as [b4 [E4 [R4 [X4 _]]]].
      rewrite E4. exists b4, (Some p). split; [reflexivity|]. split; [exact R4|].
      split; [exact (bext_trans _ _ _ X1 (bext_trans _ _ _ X2 (bext_trans _ _ _ X3 X4)))|].
      split; [reflexivity|intros N; discriminate].
    - exists b2, last. split; [reflexivity|]. split; [exact R2|].
      split; [exact (bext_trans _ _ _ X1 X2)|]. split; [intros N; contradiction|reflexivity].
  Qed.
End DfRebuild.

Section DfRebuild2.
  Variable g : dag.
  Variable r : id -> nat.
  Hypothesis WF : Wf g.
  Hypothesis RK : Ranked g r.
  Hypothesis DN : DistinctNames g.
  Variable L : list (str * str).
  Hypothesis LG : forall pn cn, In (pn, cn) L -> exists p c, Edge g p c /\ pn = name g p /\ cn = name g c.
  Variable A : str -> attrs.
  Hypothesis AND : forall s, NoDup (map fst (A s)).

  Lemma fold_row_ok : forall rows done b last,
    RInv g L A done b ->
    (forall rw, In rw rows -> NodeName g (dr_name rw) /\ non_null (dr_attrs rw) = A (dr_name rw)
        /\ forall pn, dr_parent rw = Some pn -> In (pn, dr_name rw) L) ->
    exists b' last' done', fold_left df_row_step rows (Ret (b, last)) = Ret (b', last')
      /\ RInv g L A done' b' /\ (forall s, In s done' <-> In s done \/ In s (map dr_name rows))
      /\ (is_some last = true -> is_some last' = true)
      /\ ((exists rw, In rw rows /\ dr_parent rw <> None) -> is_some last' = true).
  Proof.
    induction rows as [|rw rows IH]; intros done b last R HC.
    - exists b, last, done. split; [reflexivity|]. split; [exact R|]. split; [cbn; tauto|].
      split; [tauto|intros [rw [[] _]]].
    - cbn [fold_left]. destruct (HC rw (or_introl eq_refl)) as [C1 [C2 C3]].
      destruct (df_row_ok g r WF RK DN L LG A AND done b last rw R C1 C2 C3) as [b1 [l1 [E1 [R1 [X1 [L1 L2]]]]]].
      rewrite E1.
      destruct (IH (dr_name rw :: done) b1 l1 R1 (fun x Hx => HC x (or_intror Hx)))
        as [b' [last' [done' [E' [R' [EQ' [M1 M2]]]]]]].
      exists b', last', done'. split; [exact E'|]. split; [exact R'|]. split.
      + intros s. rewrite EQ'. cbn. tauto.
      + assert (Keep : is_some last = true -> is_some l1 = true).
        { intros Hs. destruct (dr_parent rw) eqn:EP; [apply L1; discriminate|rewrite (L2 eq_refl); exact Hs]. }
        split; [intros Hs; apply M1, Keep, Hs|].
        intros [x [[<-|Hx] HP]]; [apply M1, L1, HP|apply M2; exists x; split; assumption].
  Qed.
End DfRebuild2.

Lemma find_name g y :
  DistinctNames g -> y < dsize g -> find (fun z => str_eqb (name g z) (name g y)) (ids g) = Some y.
Proof.
  intros DN Hy. destruct (find (fun z => str_eqb (name g z) (name g y)) (ids g)) as [z|] eqn:E.
  - apply find_some in E as [Hz Ez]. apply in_ids in Hz. apply str_eqb_eq in Ez.
    f_equal. apply DN; assumption.
  - exfalso. assert (H := find_none _ _ E y (proj2 (in_ids g y) Hy)). cbn in H.
    rewrite str_eqb_refl in H. discriminate.
Qed.

Theorem roundtrip_df g r x md :
  Wf g -> Ranked g r -> DistinctNames g -> WeaklyConnected g -> x < dsize g -> (exists p c, Edge g p c) ->
  (forall y, y < dsize g -> NoDup (map fst (export_attrs md (nattrs g y)))) ->
  exists b ret, dataframe_to_dag (dag_to_dataframe g x md) = Ret (b, Some ret)
    /\ SameNames g (b_names b)
    /\ NoDup (b_edges b)
    /\ (forall pn cn, HasEdge b pn cn <-> exists p c, Edge g p c /\ pn = name g p /\ cn = name g c)
    /\ length (b_attrs b) = bsize b
    /\ (forall i y, i < bsize b -> y < dsize g -> bname b i = name g y ->
          nth i (b_attrs b) [] = non_null (export_attrs md (nattrs g y))).
Proof.
  intros WF RK DN WC Hx HE KND.
  assert (NL : forall y, ~ Edge g y y) by (intros y; apply (Ranked_no_loop g r y RK)).
  set (es := dag_iterator g x).
  set (raw := flat_map (df_rows g md) es).
  set (rows := dag_to_dataframe g x md).
  assert (SUB : forall rw, In rw rows -> In rw raw) by (intros rw H; eapply dd_sub; exact H).
  assert (COV : forall rw, In rw raw -> exists rw', In rw' rows /\ row_eqb rw rw' = true).
  { intros rw H. destruct (dd_cover raw [] rw H) as [x' [[[]|H1] H2]]. exists x'. split; assumption. }
  set (na := fun y => non_null (export_attrs md (nattrs g y))).
  (* F1: every row describes a node, and its parent column an edge *)
  assert (F1 : forall rw, In rw rows -> exists y, y < dsize g /\ dr_name rw = name g y /\ dr_attrs rw = na y
                /\ forall pn, dr_parent rw = Some pn -> exists p, Edge g p y /\ pn = name g p).
  { intros rw H. apply SUB in H. unfold raw in H. apply in_flat_map in H as [[p c] [Hin H]].
    assert (He : Edge g p c) by (apply (iter_sound g WF x p c Hin)).
    destruct (edge_range g WF p c He) as [Rp Rc].
    unfold df_rows in H. cbn [fst snd] in H. apply in_app_or in H as [H|[<-|[]]].
    - destruct (is_root g p); [|contradiction]. destruct H as [<-|[]]. exists p. cbn.
      split; [exact Rp|]. split; [reflexivity|]. split; [reflexivity|]. intros pn N. discriminate.
    - exists c. cbn. split; [exact Rc|]. split; [reflexivity|]. split; [reflexivity|].
      intros pn N. inversion N. exists p. split; [exact He|reflexivity]. }
  (* F2: every edge has its row *)
  assert (F2 : forall p c, Edge g p c -> exists rw, In rw rows /\ dr_name rw = name g c /\ dr_parent rw = Some (name g p)).
  { intros p c He. assert (Hin : In (p, c) es) by (apply iter_complete; assumption).
    assert (Hraw : In (DR (name g c) (Some (name g p)) (na c)) raw).
    { unfold raw. apply in_flat_map. exists (p, c). split; [exact Hin|]. unfold df_rows. cbn [fst snd].
      apply in_or_app. right. left. reflexivity. }
    destruct (COV _ Hraw) as [rw' [H1 H2]]. apply row_eqb_key in H2 as [K1 K2]. cbn in K1, K2.
    exists rw'. split; [exact H1|]. split; congruence. }
  (* F3: every node has a row of its own *)
  assert (F3 : forall y, y < dsize g -> exists rw, In rw rows /\ dr_name rw = name g y).
  { intros y Hy. destruct (incident_edge g y WF WC HE Hy) as [p [c [He Hor]]].
    destruct Hor as [->| ->].
    - destruct (is_root g p) eqn:Rt.
      + assert (Hin : In (p, c) es) by (apply iter_complete; assumption).
        assert (Hraw : In (DR (name g p) None (na p)) raw).
        { unfold raw. apply in_flat_map. exists (p, c). split; [exact Hin|]. unfold df_rows. cbn [fst snd].
          rewrite Rt. apply in_or_app. left. left. reflexivity. }
        destruct (COV _ Hraw) as [rw' [H1 H2]]. apply row_eqb_key in H2 as [K1 _]. cbn in K1.
        exists rw'. split; [exact H1|congruence].
      + unfold is_root in Rt. destruct (parents g p) as [|q qs] eqn:EP; [discriminate|].
        assert (Hq : Edge g q p) by (apply (wf_sym g WF); rewrite EP; left; reflexivity).
        destruct (F2 q p Hq) as [rw [H1 [H2 _]]]. exists rw. split; assumption.
    - destruct (F2 p c He) as [rw [H1 [H2 _]]]. exists rw. split; assumption. }
  set (L := df_relations rows).
  assert (LG : forall pn cn, In (pn, cn) L -> exists p c, Edge g p c /\ pn = name g p /\ cn = name g c).
  { intros pn cn H. unfold L, df_relations in H. apply in_flat_map in H as [rw [Hrw H]].
    destruct (dr_parent rw) as [pn'|] eqn:EP; [|contradiction]. destruct H as [E|[]]. inversion E; subst pn' cn.
    destruct (F1 rw Hrw) as [y [Hy [Ny [_ PP]]]]. destruct (PP pn EP) as [p [He ->]].
    exists p, y. split; [exact He|]. split; [reflexivity|exact Ny]. }
  assert (LE : forall p c, Edge g p c -> In (name g p, name g c) L).
  { intros p c He. destruct (F2 p c He) as [rw [H1 [H2 H3]]]. unfold L, df_relations. apply in_flat_map.
    exists rw. split; [exact H1|]. rewrite H3. left. rewrite H2. reflexivity. }
  set (A := fun s => match find (fun z => str_eqb (name g z) s) (ids g) with Some y => na y | None => [] end).
  assert (AY : forall y, y < dsize g -> A (name g y) = na y).
  { intros y Hy. unfold A. rewrite (find_name g y DN Hy). reflexivity. }
  assert (AND : forall s, NoDup (map fst (A s))).
  { intros s. unfold A. destruct (find (fun z => str_eqb (name g z) s) (ids g)) as [y|] eqn:E; [|constructor].
    apply find_some in E as [Hy _]. apply in_ids in Hy. unfold na, non_null. apply NoDup_map_filter. apply KND. exact Hy. }
  assert (R0 : RInv g L A [] b_empty).
  { split; [exact good_empty|]. split.
    - split; [intros e []|intros i Hi; unfold bsize in Hi; cbn in Hi; lia].
    - split; [reflexivity|]. split; [intros s []|intros i Hi; unfold bsize in Hi; cbn in Hi; lia]. }
  assert (HC : forall rw, In rw rows -> NodeName g (dr_name rw) /\ non_null (dr_attrs rw) = A (dr_name rw)
        /\ forall pn, dr_parent rw = Some pn -> In (pn, dr_name rw) L).
  { intros rw Hrw. destruct (F1 rw Hrw) as [y [Hy [Ny [Ay PP]]]].
    split; [exists y; split; [exact Hy|symmetry; exact Ny]|].
    split; [rewrite Ny, (AY y Hy), Ay; unfold na; apply non_null_idem|].
    intros pn EP. unfold L, df_relations. apply in_flat_map. exists rw. split; [exact Hrw|].
    rewrite EP. left. reflexivity. }
  destruct (fold_row_ok g r WF RK DN L LG A AND rows [] b_empty None R0 HC)
    as [b [last [done' [EF [[G [Em [A1 [A2 A3]]]] [EQ [_ LS]]]]]]].
  destruct (fold_row_spec rows b_empty None b last good_empty EF) as [_ [_ HEd]]. fold L in HEd.
  assert (LS' : is_some last = true).
  { apply LS. destruct HE as [p [c He]]. destruct (F2 p c He) as [rw [H1 [_ H3]]].
    exists rw. split; [exact H1|]. rewrite H3. discriminate. }
  destruct last as [ret|]; [|discriminate]. exists b, ret. split.
  { unfold dataframe_to_dag. fold rows. destruct rows as [|r0 rows0] eqn:ER.
    - exfalso. destruct HE as [p [c He]]. destruct (F2 p c He) as [rw [[] _]].
    - assert (CONS : df_consistent (r0 :: rows0) = true).
      { unfold df_consistent. apply forallb_forall. intros r1 H1. apply forallb_forall. intros r2 H2.
        destruct (str_eqb (dr_name r1) (dr_name r2)) eqn:E; [|reflexivity]. cbn.
        apply str_eqb_eq in E.
        destruct (F1 r1 H1) as [y1 [Hy1 [N1 [At1 _]]]]. destruct (F1 r2 H2) as [y2 [Hy2 [N2 [At2 _]]]].
        assert (y1 = y2) by (apply DN; try assumption; congruence). subst y2.
        rewrite At1, At2. apply attrs_eqb_refl. }
      rewrite CONS. cbn [negb]. exact EF. }
  destruct G as [I AC]. destruct Em as [E1 E2].
  split.
  { split; [apply (bi_nodup_n b I)|]. intros s. split.
    - intros Hs. apply (In_nth _ _ []) in Hs as [i [Hi Es]]. fold (bsize b) in Hi. fold (bname b i) in Es.
      rewrite <- Es. apply E2. exact Hi.
    - intros [y [Hy <-]]. destruct (incident_edge g y WF WC HE Hy) as [p [c [He Hor]]].
      destruct (HEd _ (LE p c He)) as [i [j [_ [Hi [Hj [N1 N2]]]]]]. cbn in N1, N2.
      destruct Hor as [->| ->]; [rewrite <- N1|rewrite <- N2]; apply nth_In; assumption. }
  split; [apply (bi_nodup_e b I)|]. split.
  { intros pn cn. split.
    - intros [i [j [Hin [Hi [Hj [<- <-]]]]]]. apply LG. apply (E1 (i, j) Hin).
    - intros [p [c [He [-> ->]]]]. apply (HEd (name g p, name g c)). apply LE. exact He. }
  split; [exact A1|].
  intros i y Hi Hy Ni. destruct (A3 i Hi) as [B1 _]. rewrite B1.
  - rewrite Ni. apply AY. exact Hy.
  - apply EQ. right. rewrite Ni. destruct (F3 y Hy) as [rw [H1 H2]]. rewrite <- H2. apply in_map. exact H1.
Qed.

(* ------------------------------------------------------------------------------------------- *)
(* dag_to_dataframe: exactly one row per edge and one row per root *)

Definition row_key (rw : dfrow) : str * option str := (dr_name rw, dr_parent rw).

Lemma dd_key_nodup : forall l seen,
  (forall x x', In x l -> In x' seen \/ In x' l -> row_key x = row_key x' -> row_eqb x x' = true) ->
  NoDup (map row_key (drop_duplicates_acc seen l))
  /\ forall x s, In x (drop_duplicates_acc seen l) -> In s seen -> row_key x <> row_key s.
Proof.
  induction l as [|a l IH]; intros seen H; cbn [drop_duplicates_acc].
  - split; [constructor|intros x s []].
  - destruct (existsb (row_eqb a) seen) eqn:E.
    + apply IH. intros x x' Hx Hx'. apply H; [right; exact Hx|]. destruct Hx'; [left|right; right]; assumption.
    + destruct (IH (a :: seen)) as [N1 N2].
      { intros x x' Hx Hx'. apply H; [right; exact Hx|].
        destruct Hx' as [[<-|Hs]|Hl]; [right; left; reflexivity|left; exact Hs|right; right; exact Hl]. }
      split.
      * cbn. constructor; [|exact N1]. intros Hin. apply in_map_iff in Hin as [x [Ek Hx]].
        apply (N2 x a Hx (or_introl eq_refl)). exact Ek.
      * intros x s [<-|Hx] Hs.
        { intros Ek. assert (T := H a s (or_introl eq_refl) (or_introl Hs) Ek).
          assert (F : existsb (row_eqb a) seen = true) by (apply existsb_exists; exists s; split; assumption).
          congruence. }
        { apply (N2 x s Hx). right. exact Hs. }
Qed.

Theorem df_rows_exact g r x md :
  Wf g -> Ranked g r -> DistinctNames g -> WeaklyConnected g -> x < dsize g ->
  let rows := dag_to_dataframe g x md in
  let na := fun y => non_null (export_attrs md (nattrs g y)) in
  NoDup (map row_key rows)
  /\ (forall rw, In rw rows -> exists y, y < dsize g /\ dr_name rw = name g y /\ dr_attrs rw = na y
        /\ ((dr_parent rw = None /\ parents g y = [] /\ exists c, Edge g y c)
            \/ exists p, Edge g p y /\ dr_parent rw = Some (name g p)))
  /\ (forall p c, Edge g p c -> exists rw, In rw rows /\ dr_name rw = name g c /\ dr_parent rw = Some (name g p))
  /\ (forall y c, Edge g y c -> parents g y = [] ->
        exists rw, In rw rows /\ dr_name rw = name g y /\ dr_parent rw = None).
Proof.
  intros WF RK DN WC Hx rows na.
  assert (NL : forall y, ~ Edge g y y) by (intros y; apply (Ranked_no_loop g r y RK)).
  set (es := dag_iterator g x).
  set (raw := flat_map (df_rows g md) es).
  assert (RAW : forall rw, In rw raw -> exists y, y < dsize g /\ dr_name rw = name g y /\ dr_attrs rw = na y
        /\ ((dr_parent rw = None /\ parents g y = [] /\ exists c, Edge g y c)
            \/ exists p, Edge g p y /\ dr_parent rw = Some (name g p))).
  { intros rw H. unfold raw in H. apply in_flat_map in H as [[p c] [Hin H]].
    assert (He : Edge g p c) by (apply (iter_sound g WF x p c Hin)).
    destruct (edge_range g WF p c He) as [Rp Rc].
    unfold df_rows in H. cbn [fst snd] in H. apply in_app_or in H as [H|[<-|[]]].
    - destruct (is_root g p) eqn:Rt; [|contradiction]. destruct H as [<-|[]]. exists p. cbn.
      split; [exact Rp|]. split; [reflexivity|]. split; [reflexivity|]. left.
      split; [reflexivity|]. split; [|exists c; exact He].
      unfold is_root in Rt. destruct (parents g p); [reflexivity|discriminate].
    - exists c. cbn. split; [exact Rc|]. split; [reflexivity|]. split; [reflexivity|].
      right. exists p. split; [exact He|reflexivity]. }
  assert (SUB : forall rw, In rw rows -> In rw raw) by (intros rw H; eapply dd_sub; exact H).
  assert (COV : forall rw, In rw raw -> exists rw', In rw' rows /\ row_eqb rw rw' = true).
  { intros rw H. destruct (dd_cover raw [] rw H) as [x' [[[]|H1] H2]]. exists x'. split; assumption. }
  split.
  { apply (dd_key_nodup raw []). intros a b Ha [[]|Hb] Ek.
    destruct (RAW a Ha) as [y1 [Hy1 [N1 [A1 _]]]]. destruct (RAW b Hb) as [y2 [Hy2 [N2 [A2 _]]]].
    unfold row_key in Ek. inversion Ek as [[K1 K2]].
    assert (y1 = y2) by (apply DN; try assumption; congruence). subst y2.
    unfold row_eqb. rewrite K1, K2, A1, A2, str_eqb_refl, attrs_eqb_refl.
    destruct (dr_parent b); cbn; [rewrite str_eqb_refl|]; reflexivity. }
  split; [intros rw H; apply RAW, SUB, H|]. split.
  - intros p c He. assert (Hin : In (p, c) es) by (apply iter_complete; assumption).
    assert (Hraw : In (DR (name g c) (Some (name g p)) (na c)) raw).
    { unfold raw. apply in_flat_map. exists (p, c). split; [exact Hin|]. unfold df_rows. cbn [fst snd].
      apply in_or_app. right. left. reflexivity. }
    destruct (COV _ Hraw) as [rw' [H1 H2]]. apply row_eqb_key in H2 as [K1 K2]. cbn in K1, K2.
    exists rw'. split; [exact H1|]. split; congruence.
  - intros y c He Rt. assert (Hin : In (y, c) es) by (apply iter_complete; assumption).
    assert (Hraw : In (DR (name g y) None (na y)) raw).
    { unfold raw. apply in_flat_map. exists (y, c). split; [exact Hin|]. unfold df_rows. cbn [fst snd].
      unfold is_root. rewrite Rt. apply in_or_app. left. left. reflexivity. }
    destruct (COV _ Hraw) as [rw' [H1 H2]]. apply row_eqb_key in H2 as [K1 K2]. cbn in K1, K2.
    exists rw'. split; [exact H1|]. split; congruence.
Qed.

(* ------------------------------------------------------------------------------------------- *)
(* `Ranked` is acyclicity: on a non-empty consistent link structure a bounded topological numbering
   exists exactly when no node reaches itself (the number of ancestors is such a numbering) *)

Lemma NoDup_strict_incl_length {A} (l l' : list A) x :
  NoDup l -> incl l l' -> In x l' -> ~ In x l -> length l < length l'.
Proof.
  intros ND HI Hx Hn.
  assert (ND' : NoDup (x :: l)) by (constructor; assumption).
  assert (HI' : incl (x :: l) l') by (intros y [<-|Hy]; [exact Hx|apply HI; exact Hy]).
  apply (NoDup_incl_length ND') in HI'. cbn in HI'. lia.
Qed.

Theorem acyclic_iff_ranked g :
  Wf g -> 0 < dsize g -> ((forall y, ~ Reach g y y) <-> exists r, Ranked g r).
Proof.
  intros WF Hn. split.
  - intros AC. exists (fun x => length (ancestors g x)). split.
    + intros p c He.
      apply (NoDup_strict_incl_length (ancestors g p) (ancestors g c) p).
      * apply dedup_NoDup.
      * intros a Ha. apply (ancestors_sound g WF) in Ha.
        apply (ancestors_complete g WF c a AC). eapply Reach_snoc; eauto.
      * apply (ancestors_complete g WF c p AC). apply Reach1. exact He.
      * intros Hin. apply (ancestors_sound g WF) in Hin. exact (AC p Hin).
    + intros x. destruct (Nat.lt_ge_cases x (dsize g)) as [Hx|Hx].
      * assert (L : length (ancestors g x) < length (ids g)).
        { apply (NoDup_strict_incl_length (ancestors g x) (ids g) x).
          - apply dedup_NoDup.
          - intros a Ha. apply (ancestors_sound g WF) in Ha. apply in_ids.
            inversion Ha as [? ? He|? ? ? He _]; subst; apply (edge_range g WF _ _ He).
          - apply in_ids. exact Hx.
          - intros Hin. apply (ancestors_sound g WF) in Hin. exact (AC x Hin). }
        unfold ids in L. rewrite seq_length in L. exact L.
      * assert (E : ancestors g x = []).
        { unfold ancestors. destruct (dsize g) as [|f] eqn:EN; [lia|]. cbn [anc_raw].
          destruct (out_of_range g x) as [EP _]; [lia|]. rewrite EP. reflexivity. }
        rewrite E. exact Hn.
  - intros [r RK] y. apply (Ranked_irrefl g r y RK).
Qed.
