(* Proofs about the models of Algo/DagAlgo.v and Algo/DagIO.v against the graph-theoretic
   definitions of Spec/PC16.v (the theorems are restated one by one in Props/C16.v, Props/C17.v). *)
From BT Require Import Base.Prelude Base.Str Base.Rose Algo.DagAlgo Algo.DagIO Spec.PC16 Spec.PC17.

(* ------------------------------------------------------------------------------------------- *)
(* small facts *)

Lemma smem_In s l : smem s l = true <-> In s l.
Proof.
  unfold smem. rewrite existsb_exists. split.
  - intros [y [Hy He]]. apply str_eqb_eq in He. subst. exact Hy.
  - intros H. exists s. split; [exact H|apply str_eqb_refl].
Qed.

Lemma smem_false s l : smem s l = false <-> ~ In s l.
Proof.
  split.
  - intros H Hin. apply smem_In in Hin. congruence.
  - intros H. destruct (smem s l) eqn:E; [apply smem_In in E; contradiction|reflexivity].
Qed.

Lemma memb_In x l : memb x l = true <-> In x l.
Proof.
  unfold memb. rewrite existsb_exists. split.
  - intros [y [Hy He]]. apply Nat.eqb_eq in He. subst. exact Hy.
  - intros H. exists x. split; [exact H|apply Nat.eqb_refl].
Qed.

Lemma memb_false x l : memb x l = false <-> ~ In x l.
Proof.
  split.
  - intros H Hin. apply memb_In in Hin. congruence.
  - intros H. destruct (memb x l) eqn:E; [apply memb_In in E; contradiction|reflexivity].
Qed.

Lemma in_ids g x : In x (ids g) <-> x < dsize g.
Proof. unfold ids. rewrite in_seq. lia. Qed.

Lemma filter_length_le {A} (f f' : A -> bool) l :
  (forall y, In y l -> f' y = true -> f y = true) ->
  length (filter f' l) <= length (filter f l).
Proof.
  induction l as [|a l IH]; intros H; cbn; [lia|].
  assert (IH' := IH (fun y Hy => H y (or_intror Hy))).
  destruct (f' a) eqn:E1.
  - rewrite (H a (or_introl eq_refl) E1). cbn. lia.
  - destruct (f a); cbn; lia.
Qed.

Lemma filter_length_lt {A} (f f' : A -> bool) l x :
  (forall y, In y l -> f' y = true -> f y = true) ->
  In x l -> f x = true -> f' x = false ->
  length (filter f' l) < length (filter f l).
Proof.
  induction l as [|a l IH]; intros H Hin Hf Hf'; [contradiction|].
  cbn. destruct Hin as [->|Hin].
  - rewrite Hf, Hf'. cbn.
    assert (L := filter_length_le f f' l (fun y Hy => H y (or_intror Hy))). lia.
  - assert (IH' := IH (fun y Hy => H y (or_intror Hy)) Hin Hf Hf').
    destruct (f' a) eqn:E1.
    + rewrite (H a (or_introl eq_refl) E1). cbn. lia.
    + destruct (f a); cbn; lia.
Qed.

Lemma last_default (s : list id) : forall a d d', last (a :: s) d = last (a :: s) d'.
Proof.
  induction s as [|b s IH]; intros a d d'; [reflexivity|].
  change (last (a :: b :: s) d) with (last (b :: s) d).
  change (last (a :: b :: s) d') with (last (b :: s) d'). apply IH.
Qed.

Lemma last_cons2 (c c' : id) s x : last (c :: c' :: s) x = last (c' :: s) c.
Proof. change (last (c :: c' :: s) x) with (last (c' :: s) x). apply last_default. Qed.

Lemma NoDup_app_intro {A} (l1 l2 : list A) :
  NoDup l1 -> NoDup l2 -> (forall x, In x l1 -> In x l2 -> False) -> NoDup (l1 ++ l2).
Proof.
  induction 1 as [|a l Hn Hd IH]; intros H2 Hdis; cbn; [exact H2|].
  constructor.
  - intros H. apply in_app_or in H as [H|H]; [contradiction|].
    apply (Hdis a); [left; reflexivity|exact H].
  - apply IH; [exact H2|]. intros x H1 H3. apply (Hdis x); [right; exact H1|exact H3].
Qed.

(* ------------------------------------------------------------------------------------------- *)
(* dict.fromkeys *)

Lemma dedup_acc_In seen l x : In x (dedup_acc seen l) <-> In x l /\ ~ In x seen.
Proof.
  revert seen; induction l as [|a l IH]; intros seen; cbn.
  - tauto.
  - destruct (memb a seen) eqn:E.
    + apply memb_In in E. rewrite IH. split.
      * intros [H1 H2]. tauto.
      * intros [[->|H1] H2]; [contradiction|tauto].
    + apply memb_false in E. cbn. rewrite IH. cbn. split.
      * intros [->|[H1 H2]]; [tauto|]. split; [tauto|]. intros H3. apply H2. right. exact H3.
      * intros [[->|H1] H2]; [left; reflexivity|].
        destruct (Nat.eq_dec a x) as [->|Hne]; [left; reflexivity|].
        right. split; [exact H1|]. intros [H3|H3]; [contradiction|contradiction].
Qed.

Lemma dedup_acc_NoDup seen l : NoDup (dedup_acc seen l).
Proof.
  revert seen; induction l as [|a l IH]; intros seen; cbn; [constructor|].
  destruct (memb a seen); [apply IH|].
  constructor; [|apply IH].
  rewrite dedup_acc_In. intros [_ H]. apply H. left. reflexivity.
Qed.

Lemma dedup_In l x : In x (dedup l) <-> In x l.
Proof. unfold dedup. rewrite dedup_acc_In. cbn. tauto. Qed.
Lemma dedup_NoDup l : NoDup (dedup l).
Proof. apply dedup_acc_NoDup. Qed.

(* ------------------------------------------------------------------------------------------- *)
(* reachability *)

Lemma Reach_snoc g a p x : Reach g a p -> Edge g p x -> Reach g a x.
Proof.
  induction 1 as [a b Hab|a c b Hac Hcb IH]; intros He.
  - eapply ReachS; [exact Hab|]. apply Reach1. exact He.
  - eapply ReachS; [exact Hac|]. apply IH. exact He.
Qed.

Lemma Reach_last g a x : Reach g a x -> exists p, Edge g p x /\ (a = p \/ Reach g a p).
Proof.
  induction 1 as [a b Hab|a c b Hac Hcb IH].
  - exists a. split; [exact Hab|left; reflexivity].
  - destruct IH as [p [Hp [->|Hr]]].
    + exists p. split; [exact Hp|]. right. apply Reach1. exact Hac.
    + exists p. split; [exact Hp|]. right. eapply ReachS; eauto.
Qed.

Lemma Reach_trans g a b c : Reach g a b -> Reach g b c -> Reach g a c.
Proof.
  induction 1 as [a b Hab|a d b Had Hdb IH]; intros H.
  - eapply ReachS; eauto.
  - eapply ReachS; [exact Had|]. apply IH. exact H.
Qed.

Lemma Reach_rank g r a b : Ranked g r -> Reach g a b -> r a < r b.
Proof.
  intros [Hr _]. induction 1 as [a b Hab|a c b Hac Hcb IH].
  - apply Hr. exact Hab.
  - apply Hr in Hac. lia.
Qed.

Lemma Ranked_irrefl g r x : Ranked g r -> ~ Reach g x x.
Proof. intros Hr H. apply (Reach_rank g r) in H; [lia|exact Hr]. Qed.

Lemma Ranked_no_loop g r x : Ranked g r -> ~ Edge g x x.
Proof. intros Hr H. apply (Ranked_irrefl g r x Hr). apply Reach1. exact H. Qed.

(* ------------------------------------------------------------------------------------------- *)
(* dag_iterator: soundness and absence of repetition *)

Section Iter.
  Variable g : dag.
  Hypothesis WF : Wf g.
  Let nm := name g.

  Record Seg (vis : list str) (out : list edge) (vis' : list str) : Prop := {
    seg_mono  : incl vis vis';
    seg_edge  : forall a b, In (a, b) out -> Edge g a b;
    seg_fresh : forall a b, In (a, b) out -> ~ In (nm a) vis /\ ~ In (nm b) vis;
    seg_cover : forall a b, In (a, b) out -> In (nm a) vis' /\ In (nm b) vis';
    seg_nodup : NoDup out
  }.

  Lemma seg_nil v : Seg v [] v.
  Proof. constructor; try (intros a b []); [apply incl_refl|constructor]. Qed.

  Lemma seg_app v0 o1 v1 o2 v2 : Seg v0 o1 v1 -> Seg v1 o2 v2 -> Seg v0 (o1 ++ o2) v2.
  Proof.
    intros S1 S2. constructor.
    - eapply incl_tran; [apply (seg_mono _ _ _ S1)|apply (seg_mono _ _ _ S2)].
    - intros a b H. apply in_app_or in H as [H|H];
        [apply (seg_edge _ _ _ S1 a b H)|apply (seg_edge _ _ _ S2 a b H)].
    - intros a b H. apply in_app_or in H as [H|H].
      + apply (seg_fresh _ _ _ S1 a b H).
      + destruct (seg_fresh _ _ _ S2 a b H) as [Ha Hb].
        split; intros Hin; [apply Ha|apply Hb]; apply (seg_mono _ _ _ S1); exact Hin.
    - intros a b H. apply in_app_or in H as [H|H].
      + destruct (seg_cover _ _ _ S1 a b H) as [Ha Hb].
        split; apply (seg_mono _ _ _ S2); assumption.
      + apply (seg_cover _ _ _ S2 a b H).
    - apply NoDup_app_intro; [apply (seg_nodup _ _ _ S1)|apply (seg_nodup _ _ _ S2)|].
      intros [a b] H1 H2.
      destruct (seg_cover _ _ _ S1 a b H1) as [Ha _].
      destruct (seg_fresh _ _ _ S2 a b H2) as [Ha' _]. contradiction.
  Qed.

  Definition WSpec (W : id -> list str -> list edge * list str) : Prop :=
    forall y vis, ~ In (nm y) vis ->
      Seg vis (fst (W y vis)) (snd (W y vis)) /\ In (nm y) (snd (W y vis)).

  Lemma visit_list_seg W l : WSpec W -> forall vis,
    Seg vis (fst (visit_list W nm l vis)) (snd (visit_list W nm l vis))
    /\ forall y, In y l -> In (nm y) (snd (visit_list W nm l vis)).
  Proof.
    intros HW. induction l as [|y t IH]; intros vis; cbn [visit_list].
    - split; [apply seg_nil|intros y []].
    - destruct (smem (nm y) vis) eqn:E.
      + destruct (IH vis) as [S1 C1]. split; [exact S1|].
        intros z [<-|Hz]; [|apply C1; exact Hz].
        apply smem_In in E. apply (seg_mono _ _ _ S1). exact E.
      + apply smem_false in E. destruct (HW y vis E) as [S0 C0].
        destruct (IH (snd (W y vis))) as [S1 C1]. cbn [fst snd]. split.
        * eapply seg_app; eauto.
        * intros z [<-|Hz]; [|apply C1; exact Hz].
          apply (seg_mono _ _ _ S1). exact C0.
  Qed.

  Lemma in_up x vis1 a b :
    In (a, b) (map (fun p => (p, x)) (filter (fun p => negb (smem (nm p) vis1)) (parents g x))) <->
    b = x /\ In a (parents g x) /\ ~ In (nm a) vis1.
  Proof.
    rewrite in_map_iff. split.
    - intros [p [Hp Hin]]. inversion Hp; subst. apply filter_In in Hin as [H1 H2].
      apply negb_true_iff in H2. apply smem_false in H2. tauto.
    - intros [-> [H1 H2]]. exists a. split; [reflexivity|]. apply filter_In. split; [exact H1|].
      apply negb_true_iff. apply smem_false. exact H2.
  Qed.

  Lemma in_down x vis1 a b :
    In (a, b) (map (fun c => (x, c)) (filter (fun c => negb (smem (nm c) vis1)) (children g x))) <->
    a = x /\ In b (children g x) /\ ~ In (nm b) vis1.
  Proof.
    rewrite in_map_iff. split.
    - intros [p [Hp Hin]]. inversion Hp; subst. apply filter_In in Hin as [H1 H2].
      apply negb_true_iff in H2. apply smem_false in H2. tauto.
    - intros [-> [H1 H2]]. exists b. split; [reflexivity|]. apply filter_In. split; [exact H1|].
      apply negb_true_iff. apply smem_false. exact H2.
  Qed.

  Lemma NoDup_map_inj {A B} (f : A -> B) l :
    (forall a b, f a = f b -> a = b) -> NoDup l -> NoDup (map f l).
  Proof.
    intros Hf. induction 1 as [|a l Hn Hd IH]; cbn; constructor; [|exact IH].
    intros H. apply in_map_iff in H as [b [Hb Hin]]. apply Hf in Hb. subst. contradiction.
  Qed.

  Lemma walk_spec : forall f, WSpec (walk f g).
  Proof.
    induction f as [|f IH]; intros x vis Hx.
    - cbn [walk fst snd]. split; [|left; reflexivity].
      constructor; try (intros a b []); [apply incl_tl, incl_refl|constructor].
    - cbn [walk]. fold nm.
      set (vis1 := nm x :: vis).
      set (up := map (fun p => (p, x)) (filter (fun p => negb (smem (nm p) vis1)) (parents g x))).
      set (down := map (fun c => (x, c)) (filter (fun c => negb (smem (nm c) vis1)) (children g x))).
      destruct (visit_list_seg (walk f g) (parents g x) IH vis1) as [S3 C3].
      set (r3 := visit_list (walk f g) nm (parents g x) vis1) in *.
      destruct (visit_list_seg (walk f g) (children g x) IH (snd r3)) as [S4 C4].
      set (r4 := visit_list (walk f g) nm (children g x) (snd r3)) in *.
      cbn [fst snd].
      assert (S34 : Seg vis1 (fst r3 ++ fst r4) (snd r4)) by (eapply seg_app; eauto).
      assert (M1 : incl vis vis1) by (apply incl_tl, incl_refl).
      assert (Hx4 : In (nm x) (snd r4)).
      { apply (seg_mono _ _ _ S34). left. reflexivity. }
      split; [|exact Hx4].
      constructor.
      + eapply incl_tran; [exact M1|apply (seg_mono _ _ _ S34)].
      + intros a b H. apply in_app_or in H as [H|H].
        { apply in_up in H as [-> [H1 _]]. apply (wf_sym g WF). exact H1. }
        apply in_app_or in H as [H|H].
        { apply in_down in H as [-> [H1 _]]. exact H1. }
        eapply seg_edge; eauto.
      + intros a b H. apply in_app_or in H as [H|H].
        { apply in_up in H as [-> [_ H2]]. split; [|exact Hx]. intros Hin. apply H2. right. exact Hin. }
        apply in_app_or in H as [H|H].
        { apply in_down in H as [-> [_ H2]]. split; [exact Hx|]. intros Hin. apply H2. right. exact Hin. }
        destruct (seg_fresh _ _ _ S34 a b H) as [Ha Hb].
        split; intros Hin; [apply Ha|apply Hb]; right; exact Hin.
      + intros a b H. apply in_app_or in H as [H|H].
        { apply in_up in H as [-> [H1 _]]. split; [|exact Hx4].
          apply (seg_mono _ _ _ S4). apply C3. exact H1. }
        apply in_app_or in H as [H|H].
        { apply in_down in H as [-> [H1 _]]. split; [exact Hx4|]. apply C4. exact H1. }
        eapply seg_cover; eauto.
      + apply NoDup_app_intro.
        { apply NoDup_map_inj; [intros a b E; inversion E; reflexivity|].
          apply NoDup_filter. apply (wf_par_nodup g WF). }
        { apply NoDup_app_intro.
          - apply NoDup_map_inj; [intros a b E; inversion E; reflexivity|].
            apply NoDup_filter. apply (wf_kid_nodup g WF).
          - apply (seg_nodup _ _ _ S34).
          - intros [a b] H1 H2. apply in_down in H1 as [-> [_ _]].
            destruct (seg_fresh _ _ _ S34 x b H2) as [Ha _]. apply Ha. left. reflexivity. }
        intros [a b] H1 H2. apply in_up in H1 as [-> [_ Hna]].
        apply in_app_or in H2 as [H2|H2].
        { apply in_down in H2 as [-> _]. apply Hna. left. reflexivity. }
        destruct (seg_fresh _ _ _ S34 a x H2) as [_ Hb]. apply Hb. left. reflexivity.
  Qed.

  Lemma iter_seg x : exists V, Seg [] (dag_iterator g x) V /\ In (nm x) V.
  Proof.
    unfold dag_iterator. exists (snd (walk (S (dsize g)) g x [])).
    apply walk_spec. intros [].
  Qed.

  Theorem iter_sound x a b : In (a, b) (dag_iterator g x) -> Edge g a b.
  Proof. destruct (iter_seg x) as [V [S _]]. apply (seg_edge _ _ _ S). Qed.

  Theorem iter_nodup x : NoDup (dag_iterator g x).
  Proof. destruct (iter_seg x) as [V [S _]]. apply (seg_nodup _ _ _ S). Qed.

  (* ----------------------------------------------------------------------------------------- *)
  (* completeness: distinct names, no self loop, enough fuel *)

  Hypothesis DN : DistinctNames g.
  Hypothesis NL : forall x, ~ Edge g x x.

  Definition unvisited (vis : list str) : list id := filter (fun y => negb (smem (nm y) vis)) (ids g).

  Lemma unvisited_le vis vis' : incl vis vis' -> length (unvisited vis') <= length (unvisited vis).
  Proof.
    intros H. apply filter_length_le. intros y _ Hy.
    apply negb_true_iff in Hy. apply smem_false in Hy.
    apply negb_true_iff. apply smem_false. intros Hin. apply Hy. apply H. exact Hin.
  Qed.

  Lemma unvisited_lt vis vis' x :
    incl vis vis' -> x < dsize g -> ~ In (nm x) vis -> In (nm x) vis' ->
    length (unvisited vis') < length (unvisited vis).
  Proof.
    intros H Hx Hn Hi. apply filter_length_lt with (x := x).
    - intros y _ Hy. apply negb_true_iff in Hy. apply smem_false in Hy.
      apply negb_true_iff. apply smem_false. intros Hin. apply Hy. apply H. exact Hin.
    - apply in_ids. exact Hx.
    - apply negb_true_iff. apply smem_false. exact Hn.
    - apply negb_false_iff. apply smem_In. exact Hi.
  Qed.

  Record Clo (vis : list str) (out : list edge) (vis' : list str) : Prop := {
    clo_nb : forall y z, y < dsize g -> In (nm y) vis' -> ~ In (nm y) vis -> Adj g y z -> In (nm z) vis';
    clo_edges : forall a b, Edge g a b -> In (nm a) vis' -> ~ In (nm a) vis ->
                            In (nm b) vis' -> ~ In (nm b) vis -> In (a, b) out
  }.

  Lemma In_dec_str (s : str) l : In s l \/ ~ In s l.
  Proof. destruct (smem s l) eqn:E; [left; apply smem_In; exact E|right; apply smem_false; exact E]. Qed.

  Lemma edge_range a b : Edge g a b -> a < dsize g /\ b < dsize g.
  Proof. intros H. split; [eapply wf_kid_src; eauto|eapply wf_kid_range; eauto]. Qed.

  Lemma clo_nil v : Clo v [] v.
  Proof. constructor; intros; contradiction. Qed.

  Lemma clo_app v0 o1 v1 o2 v2 :
    incl v0 v1 -> incl v1 v2 -> Clo v0 o1 v1 -> Clo v1 o2 v2 -> Clo v0 (o1 ++ o2) v2.
  Proof.
    intros M1 M2 C1 C2. constructor.
    - intros y z Hy Hi Hn Hadj. destruct (In_dec_str (nm y) v1) as [H1|H1].
      + apply M2. eapply (clo_nb _ _ _ C1); eauto.
      + eapply (clo_nb _ _ _ C2); eauto.
    - intros a b He Ha Hna Hb Hnb. apply in_or_app.
      destruct (edge_range a b He) as [Ra Rb].
      destruct (In_dec_str (nm a) v1) as [A1|A1]; destruct (In_dec_str (nm b) v1) as [B1|B1].
      + left. eapply (clo_edges _ _ _ C1); eauto.
      + exfalso. apply B1. eapply (clo_nb _ _ _ C1 a b); eauto. left. exact He.
      + exfalso. apply A1. eapply (clo_nb _ _ _ C1 b a); eauto. right. exact He.
      + right. eapply (clo_edges _ _ _ C2); eauto.
  Qed.

  Definition WClo (W : id -> list str -> list edge * list str) (k : nat) : Prop :=
    forall y vis, y < dsize g -> ~ In (nm y) vis -> length (unvisited vis) <= k ->
      Clo vis (fst (W y vis)) (snd (W y vis)).

  Lemma visit_list_clo W k l : WSpec W -> WClo W k ->
    (forall y, In y l -> y < dsize g) ->
    forall vis, length (unvisited vis) <= k ->
    Clo vis (fst (visit_list W nm l vis)) (snd (visit_list W nm l vis)).
  Proof.
    intros HW HC. induction l as [|y t IH]; intros Hr vis Hk; cbn [visit_list].
    - apply clo_nil.
    - assert (Hr' : forall z, In z t -> z < dsize g) by (intros z Hz; apply Hr; right; exact Hz).
      destruct (smem (nm y) vis) eqn:E.
      + apply IH; assumption.
      + apply smem_false in E. destruct (HW y vis E) as [S0 C0]. cbn [fst snd].
        assert (M0 := seg_mono _ _ _ S0).
        assert (Hk' : length (unvisited (snd (W y vis))) <= k).
        { eapply Nat.le_trans; [apply unvisited_le; exact M0|exact Hk]. }
        destruct (visit_list_seg W t HW (snd (W y vis))) as [S1 _].
        eapply clo_app; [exact M0|apply (seg_mono _ _ _ S1)| |apply IH; assumption].
        apply HC; [apply Hr; left; reflexivity|exact E|exact Hk].
  Qed.

  Lemma walk_clo : forall f, WClo (walk f g) f.
  Proof.
    induction f as [|f IH]; intros x vis Hx Hn Hk.
    - exfalso. assert (L : length (unvisited (nm x :: vis)) < length (unvisited vis)).
      { apply unvisited_lt with (x := x); [apply incl_tl, incl_refl|exact Hx|exact Hn|left; reflexivity]. }
      lia.
    - cbn [walk]. fold nm.
      set (vis1 := nm x :: vis).
      set (up := map (fun p => (p, x)) (filter (fun p => negb (smem (nm p) vis1)) (parents g x))).
      set (down := map (fun c => (x, c)) (filter (fun c => negb (smem (nm c) vis1)) (children g x))).
      assert (M1 : incl vis vis1) by (apply incl_tl, incl_refl).
      assert (K1 : length (unvisited vis1) <= f).
      { assert (L : length (unvisited vis1) < length (unvisited vis)).
        { apply unvisited_lt with (x := x); [exact M1|exact Hx|exact Hn|left; reflexivity]. }
        lia. }
      assert (RP : forall y, In y (parents g x) -> y < dsize g) by (intros y Hy; eapply wf_par_range; eauto).
      assert (RC : forall y, In y (children g x) -> y < dsize g) by (intros y Hy; eapply wf_kid_range; eauto).
      destruct (visit_list_seg (walk f g) (parents g x) (walk_spec f) vis1) as [S3 C3].
      assert (Cl3 := visit_list_clo (walk f g) f (parents g x) (walk_spec f) IH RP vis1 K1).
      set (r3 := visit_list (walk f g) nm (parents g x) vis1) in *.
      assert (K3 : length (unvisited (snd r3)) <= f).
      { eapply Nat.le_trans; [apply unvisited_le; apply (seg_mono _ _ _ S3)|exact K1]. }
      destruct (visit_list_seg (walk f g) (children g x) (walk_spec f) (snd r3)) as [S4 C4].
      assert (Cl4 := visit_list_clo (walk f g) f (children g x) (walk_spec f) IH RC (snd r3) K3).
      set (r4 := visit_list (walk f g) nm (children g x) (snd r3)) in *.
      cbn [fst snd].
      assert (Cl34 : Clo vis1 (fst r3 ++ fst r4) (snd r4)).
      { eapply clo_app; [apply (seg_mono _ _ _ S3)|apply (seg_mono _ _ _ S4)|exact Cl3|exact Cl4]. }
      assert (M34 : incl vis1 (snd r4)).
      { eapply incl_tran; [apply (seg_mono _ _ _ S3)|apply (seg_mono _ _ _ S4)]. }
      assert (same : forall y, y < dsize g -> nm y = nm x -> y = x).
      { intros y Hy E. apply DN; assumption. }
      constructor.
      + intros y z Hy Hi Hny Hadj.
        destruct (str_eqb (nm y) (nm x)) eqn:E.
        * apply str_eqb_eq in E. apply same in E; [|exact Hy]. subst y.
          destruct Hadj as [He|He].
          { apply C4. exact He. }
          { apply (seg_mono _ _ _ S4). apply C3. apply (wf_sym g WF). exact He. }
        * apply str_eqb_neq in E.
          eapply (clo_nb _ _ _ Cl34 y z); eauto.
          intros [H|H]; [apply E; symmetry; exact H|contradiction].
      + intros a b He Ha Hna Hb Hnb.
        destruct (edge_range a b He) as [Ra Rb].
        destruct (str_eqb (nm a) (nm x)) eqn:EA.
        * apply str_eqb_eq in EA. apply same in EA; [|exact Ra]. subst a.
          apply in_or_app. right. apply in_or_app. left. apply in_down.
          split; [reflexivity|]. split; [exact He|].
          intros [H|H]; [|contradiction].
          assert (b = x) by (apply same; [exact Rb|symmetry; exact H]). subst b. exact (NL x He).
        * apply str_eqb_neq in EA.
          destruct (str_eqb (nm b) (nm x)) eqn:EB.
          { apply str_eqb_eq in EB. apply same in EB; [|exact Rb]. subst b.
            apply in_or_app. left. apply in_up.
            split; [reflexivity|]. split; [apply (wf_sym g WF); exact He|].
            intros [H|H]; [apply EA; symmetry; exact H|contradiction]. }
          apply str_eqb_neq in EB.
          apply in_or_app. right. apply in_or_app. right.
          eapply (clo_edges _ _ _ Cl34 a b); eauto.
          { intros [H|H]; [apply EA; symmetry; exact H|contradiction]. }
          { intros [H|H]; [apply EB; symmetry; exact H|contradiction]. }
  Qed.

  Lemma unvisited_nil : length (unvisited []) = dsize g.
  Proof.
    unfold unvisited.
    assert (E : forall l, filter (fun y => negb (smem (nm y) [])) l = l).
    { induction l as [|a l IH]; cbn; [reflexivity|]. f_equal. exact IH. }
    rewrite E. unfold ids. apply seq_length.
  Qed.

  Theorem iter_complete x a b :
    WeaklyConnected g -> x < dsize g -> Edge g a b -> In (a, b) (dag_iterator g x).
  Proof.
    intros WC Hx He.
    destruct (walk_spec (S (dsize g)) x [] (fun H => H)) as [S0 Hx0].
    assert (C0 : Clo [] (fst (walk (S (dsize g)) g x [])) (snd (walk (S (dsize g)) g x []))).
    { apply walk_clo; [exact Hx|intros []|rewrite unvisited_nil; lia]. }
    set (V := snd (walk (S (dsize g)) g x [])) in *.
    assert (All : forall x0 y, UReach g x0 y -> x0 < dsize g -> In (nm x0) V -> y < dsize g /\ In (nm y) V).
    { intros x0 y HU. induction HU as [a0|a0 c b0 Hu IH Hadj]; intros R0 I0.
      - split; assumption.
      - destruct (IH R0 I0) as [Rc Ic].
        split.
        + destruct Hadj as [H|H]; apply edge_range in H; tauto.
        + eapply (clo_nb _ _ _ C0 c b0); eauto. }
    destruct (edge_range a b He) as [Ra Rb].
    unfold dag_iterator.
    eapply (clo_edges _ _ _ C0 a b); eauto.
    - apply (All x a); [apply WC; assumption|exact Hx|exact Hx0].
    - apply (All x b); [apply WC; assumption|exact Hx|exact Hx0].
  Qed.
End Iter.

(* ------------------------------------------------------------------------------------------- *)
(* ancestors / descendants / siblings *)

Section Queries.
  Variable g : dag.
  Variable r : id -> nat.
  Hypothesis WF : Wf g.
  Hypothesis RK : Ranked g r.

  Lemma anc_raw_spec : forall f x a, r x < f -> (In a (anc_raw f g x) <-> Reach g a x).
  Proof.
    induction f as [|f IH]; intros x a Hf; [lia|].
    cbn [anc_raw]. rewrite in_flat_map. split.
    - intros [p [Hp Hin]]. assert (He : Edge g p x) by (apply (wf_sym g WF); exact Hp).
      apply in_app_or in Hin as [Hin|[<-|[]]].
      + apply IH in Hin.
        * eapply Reach_snoc; eauto.
        * destruct RK as [Hr _]. apply Hr in He. lia.
      + apply Reach1. exact He.
    - intros HR. apply Reach_last in HR as [p [He Hor]].
      exists p. split; [apply (wf_sym g WF); exact He|].
      apply in_or_app. destruct Hor as [->|HR]; [right; left; reflexivity|].
      left. apply IH; [|exact HR]. destruct RK as [Hr _]. apply Hr in He. lia.
  Qed.

  Theorem ancestors_reach x a : In a (ancestors g x) <-> Reach g a x.
  Proof.
    unfold ancestors. rewrite dedup_In. apply anc_raw_spec. destruct RK as [_ Hb]. apply Hb.
  Qed.

  Theorem ancestors_nodup x : NoDup (ancestors g x).
  Proof. apply dedup_NoDup. Qed.

  Lemma pre_raw_spec : forall f x d, dsize g - r x <= f -> (In d (pre_raw f g x) <-> d = x \/ Reach g x d).
  Proof.
    destruct RK as [Hr Hb].
    induction f as [|f IH]; intros x d Hf; [specialize (Hb x); lia|].
    cbn [pre_raw In]. rewrite in_flat_map. split.
    - intros [->|[c [Hc Hin]]]; [left; reflexivity|]. right.
      apply IH in Hin.
      + destruct Hin as [->|HR]; [apply Reach1; exact Hc|eapply ReachS; eauto].
      + assert (Hlt := Hr x c Hc). specialize (Hb c). lia.
    - intros [->|HR]; [left; reflexivity|]. right.
      inversion HR as [a0 b0 He|a0 c b0 He HR']; subst.
      + exists d. split; [exact He|]. apply IH; [|left; reflexivity].
        assert (Hlt := Hr x d He). specialize (Hb d). lia.
      + exists c. split; [exact He|]. apply IH; [|right; exact HR'].
        assert (Hlt := Hr x c He). specialize (Hb c). lia.
  Qed.

  Theorem descendants_reach x d : In d (descendants g x) <-> Reach g x d.
  Proof.
    unfold descendants. rewrite dedup_In, filter_In, pre_raw_spec by lia. split.
    - intros [[->|HR] Hne]; [|exact HR]. rewrite Nat.eqb_refl in Hne. discriminate.
    - intros HR. split; [right; exact HR|].
      apply negb_true_iff. apply Nat.eqb_neq. intros ->. exact (Ranked_irrefl g r x RK HR).
  Qed.

  Theorem descendants_nodup x : NoDup (descendants g x).
  Proof. apply dedup_NoDup. Qed.

  Theorem siblings_spec x s :
    In s (siblings g x) <-> s <> x /\ exists p, Edge g p x /\ Edge g p s.
  Proof.
    unfold siblings.
    assert (E : In s (flat_map (fun p => filter (fun c => negb (Nat.eqb c x)) (children g p)) (parents g x))
                <-> s <> x /\ exists p, Edge g p x /\ Edge g p s).
    { rewrite in_flat_map. split.
      - intros [p [Hp Hin]]. apply filter_In in Hin as [Hc Hne].
        apply negb_true_iff, Nat.eqb_neq in Hne. split; [exact Hne|].
        exists p. split; [apply (wf_sym g WF); exact Hp|exact Hc].
      - intros [Hne [p [Hp Hs]]]. exists p. split; [apply (wf_sym g WF); exact Hp|].
        apply filter_In. split; [exact Hs|]. apply negb_true_iff, Nat.eqb_neq. exact Hne. }
    destruct (parents g x) eqn:EP; [|exact E].
    cbn in E. exact E.
  Qed.

  (* ----------------------------------------------------------------------------------------- *)
  (* go_to *)

  Definition PathFrom (x t : id) (sigma : list id) : Prop := Chain g (x :: sigma) /\ last sigma x = t.

  Lemma chain_reach : forall sigma x, sigma <> [] -> Chain g (x :: sigma) -> Reach g x (last sigma x).
  Proof.
    induction sigma as [|c s IH]; intros x Hne Hc; [contradiction|].
    destruct Hc as [He Hc]. destruct s as [|c' s'].
    - cbn. apply Reach1. exact He.
    - assert (H := IH c (fun E => ltac:(discriminate E)) Hc).
      rewrite last_cons2. eapply ReachS; eauto.
  Qed.

  Lemma rec_path_spec : forall f t x path pi,
    dsize g - r x <= f -> x <> t ->
    (In pi (rec_path f g t x path) <-> exists sigma, pi = path ++ sigma /\ sigma <> [] /\ PathFrom x t sigma).
  Proof.
    destruct RK as [Hr Hb].
    induction f as [|f IH]; intros t x path pi Hf Hne; [specialize (Hb x); lia|].
    cbn [rec_path]. rewrite in_flat_map. split.
    - intros [c [Hc Hin]]. destruct (Nat.eqb c t) eqn:E.
      + apply Nat.eqb_eq in E. subst c. destruct Hin as [<-|[]].
        exists [t]. split; [reflexivity|]. split; [discriminate|]. split; [cbn; tauto|reflexivity].
      + apply Nat.eqb_neq in E. apply IH in Hin; [|assert (Hlt := Hr x c Hc); specialize (Hb c); lia|exact E].
        destruct Hin as [sg [-> [Hsg [Hch Hl]]]].
        exists (c :: sg). split; [rewrite <- app_assoc; reflexivity|]. split; [discriminate|].
        split.
        * cbn [Chain]. split; [exact Hc|exact Hch].
        * destruct sg as [|c' sg']; [contradiction|]. rewrite last_cons2. exact Hl.
    - intros [sg [-> [Hsg [Hch Hl]]]]. destruct sg as [|c sg]; [contradiction|].
      destruct Hch as [He Hch]. exists c. split; [exact He|].
      destruct (Nat.eqb c t) eqn:E.
      + apply Nat.eqb_eq in E. subst c. destruct sg as [|c' sg'].
        * left. reflexivity.
        * exfalso. assert (HR := chain_reach (c' :: sg') t (fun E => ltac:(discriminate E)) Hch).
          rewrite last_cons2 in Hl. rewrite Hl in HR.
          exact (Ranked_irrefl g r t RK HR).
      + apply Nat.eqb_neq in E. apply IH; [assert (Hlt := Hr x c He); specialize (Hb c); lia|exact E|].
        destruct sg as [|c' sg'].
        * cbn in Hl. contradiction.
        * exists (c' :: sg'). split; [rewrite <- app_assoc; reflexivity|]. split; [discriminate|].
          split; [exact Hch|]. rewrite <- Hl. rewrite last_cons2. reflexivity.
  Qed.

  Lemma NoDup_flat_map_disj {A B} (f : A -> list B) l :
    NoDup l -> (forall a, In a l -> NoDup (f a)) ->
    (forall a b y, In a l -> In b l -> In y (f a) -> In y (f b) -> a = b) ->
    NoDup (flat_map f l).
  Proof.
    induction 1 as [|a l Hn Hd IH]; intros H1 H2; cbn; [constructor|].
    apply NoDup_app_intro.
    - apply H1. left. reflexivity.
    - apply IH.
      + intros b Hb. apply H1. right. exact Hb.
      + intros b c y Hb Hc. apply H2; right; assumption.
    - intros y Hy1 Hy2. apply in_flat_map in Hy2 as [b [Hb Hy2]].
      assert (a = b) by (apply (H2 a b y); [left; reflexivity|right; exact Hb|exact Hy1|exact Hy2]).
      subst. contradiction.
  Qed.

  Lemma rec_path_prefix : forall f t x path pi,
    In pi (rec_path f g t x path) -> exists c rest, In c (children g x) /\ pi = path ++ c :: rest.
  Proof.
    induction f as [|f IH]; intros t x path pi Hin; [contradiction|].
    cbn [rec_path] in Hin. apply in_flat_map in Hin as [c [Hc Hin]].
    destruct (Nat.eqb c t).
    - destruct Hin as [<-|[]]. exists c, []. split; [exact Hc|reflexivity].
    - apply IH in Hin as [c' [rest [_ ->]]]. exists c, (c' :: rest). split; [exact Hc|].
      rewrite <- app_assoc. reflexivity.
  Qed.

  Lemma rec_path_nodup : forall f t x path, NoDup (rec_path f g t x path).
  Proof.
    induction f as [|f IH]; intros t x path; [constructor|].
    cbn [rec_path]. apply NoDup_flat_map_disj.
    - apply (wf_kid_nodup g WF).
    - intros c _. destruct (Nat.eqb c t); [constructor; [intros []|constructor]|apply IH].
    - intros c1 c2 pi _ _ H1 H2.
      assert (P1 : exists rest, pi = path ++ c1 :: rest).
      { destruct (Nat.eqb c1 t).
        - destruct H1 as [<-|[]]. exists []. reflexivity.
        - apply rec_path_prefix in H1 as [c' [rest [_ ->]]]. exists (c' :: rest). rewrite <- app_assoc. reflexivity. }
      assert (P2 : exists rest, pi = path ++ c2 :: rest).
      { destruct (Nat.eqb c2 t).
        - destruct H2 as [<-|[]]. exists []. reflexivity.
        - apply rec_path_prefix in H2 as [c' [rest [_ ->]]]. exists (c' :: rest). rewrite <- app_assoc. reflexivity. }
      destruct P1 as [r1 E1]. destruct P2 as [r2 E2]. rewrite E1 in E2.
      apply app_inv_head in E2. inversion E2. reflexivity.
  Qed.

  Lemma path_from_iff a b pi :
    Path g a b pi <-> exists sigma, pi = a :: sigma /\ PathFrom a b sigma.
  Proof.
    unfold Path, PathFrom. split.
    - intros [Hh [Hl [Hne Hc]]]. destruct pi as [|h sg]; [contradiction|].
      cbn in Hh. inversion Hh; subst h. exists sg. split; [reflexivity|]. split; [exact Hc|].
      rewrite <- Hl. destruct sg as [|c s]; [reflexivity|]. reflexivity.
    - intros [sg [-> [Hc Hl]]]. split; [reflexivity|]. split; [|split; [discriminate|exact Hc]].
      rewrite <- Hl. destruct sg as [|c s]; reflexivity.
  Qed.

  Theorem goto_paths a b ps :
    go_to g a b = Ret ps -> (forall pi, In pi ps <-> Path g a b pi) /\ NoDup ps.
  Proof.
    unfold go_to. destruct (Nat.eqb a b) eqn:E.
    - apply Nat.eqb_eq in E. subst b. intros H. inversion H; subst ps. split.
      + intros pi. rewrite path_from_iff. split.
        * intros [<-|[]]. exists []. split; [reflexivity|]. split; [exact I|reflexivity].
        * intros [sg [-> [Hc Hl]]]. destruct sg as [|c s]; [left; reflexivity|].
          exfalso. assert (HR := chain_reach (c :: s) a (fun E => ltac:(discriminate E)) Hc).
          rewrite Hl in HR. exact (Ranked_irrefl g r a RK HR).
      + constructor; [intros []|constructor].
    - apply Nat.eqb_neq in E. destruct (negb (memb b (descendants g a))) eqn:D; [discriminate|].
      intros H. inversion H; subst ps. split; [|apply rec_path_nodup].
      intros pi. rewrite path_from_iff, rec_path_spec; [|destruct RK as [_ Hb]; specialize (Hb a); lia|exact E].
      split.
      + intros [sg [-> [_ HP]]]. exists sg. split; [reflexivity|exact HP].
      + intros [sg [-> HP]]. exists sg. split; [reflexivity|]. split; [|exact HP].
        intros ->. destruct HP as [_ Hl]. cbn in Hl. contradiction.
  Qed.

  Theorem goto_accepts a b : (exists ps, go_to g a b = Ret ps) <-> a = b \/ Reach g a b.
  Proof.
    unfold go_to. destruct (Nat.eqb a b) eqn:E.
    - apply Nat.eqb_eq in E. split; [intros _; left; exact E|intros _; eexists; reflexivity].
    - apply Nat.eqb_neq in E. destruct (memb b (descendants g a)) eqn:D; cbn [negb].
      + apply memb_In, descendants_reach in D. split; [intros _; right; exact D|intros _; eexists; reflexivity].
      + apply memb_false in D. rewrite descendants_reach in D. split.
        * intros [ps H]. discriminate.
        * intros [H|H]; contradiction.
  Qed.

  Theorem goto_refused a b : go_to g a b = Raise TreeError <-> a <> b /\ ~ Reach g a b.
  Proof.
    unfold go_to. destruct (Nat.eqb a b) eqn:E.
    - apply Nat.eqb_eq in E. split; [discriminate|intros [H _]; contradiction].
    - apply Nat.eqb_neq in E. destruct (memb b (descendants g a)) eqn:D; cbn [negb].
      + apply memb_In, descendants_reach in D. split; [discriminate|intros [_ H]; contradiction].
      + apply memb_false in D. rewrite descendants_reach in D. split; [intros _; split; assumption|reflexivity].
  Qed.

  (* a path exists exactly when the target is the start or reachable from it *)
  Lemma path_exists a b : (exists pi, Path g a b pi) <-> a = b \/ Reach g a b.
  Proof.
    split.
    - intros [pi HP]. apply path_from_iff in HP as [sg [-> [Hc Hl]]].
      destruct sg as [|c s]; [left; exact Hl|]. right. rewrite <- Hl.
      apply (chain_reach (c :: s) a); [discriminate|exact Hc].
    - intros [->|HR].
      + exists [b]. apply path_from_iff. exists []. split; [reflexivity|]. split; [exact I|reflexivity].
      + induction HR as [a b He|a c b He HR IH].
        * exists [a; b]. apply path_from_iff. exists [b]. split; [reflexivity|]. split; [cbn; tauto|reflexivity].
        * destruct IH as [pi HP]. apply path_from_iff in HP as [sg [-> [Hc Hl]]].
          exists (a :: c :: sg). apply path_from_iff. exists (c :: sg). split; [reflexivity|].
          split; [cbn [Chain]; split; assumption|].
          destruct sg as [|i sg]; [exact Hl|rewrite last_cons2; exact Hl].
  Qed.
End Queries.

(* ------------------------------------------------------------------------------------------- *)
(* boolean well-formedness check => Wf; boolean name check => DistinctNames *)

Lemma nodupb_NoDup l : nodupb l = true -> NoDup l.
Proof.
  induction l as [|a l IH]; cbn; intros H; constructor.
  - apply andb_true_iff in H as [H _]. apply negb_true_iff in H. apply memb_false in H. exact H.
  - apply IH. apply andb_true_iff in H as [_ H]. exact H.
Qed.

Lemma out_of_range g x : dsize g <= x -> parents g x = [] /\ children g x = [].
Proof.
  intros H. unfold parents, children, node. rewrite nth_overflow by exact H. split; reflexivity.
Qed.

Lemma wfb_Wf g : wfb g = true -> Wf g.
Proof.
  intros H. unfold wfb in H. rewrite forallb_forall in H.
  assert (K : forall x, x < dsize g ->
    in_range g (parents g x) = true /\ in_range g (children g x) = true
    /\ nodupb (parents g x) = true /\ nodupb (children g x) = true
    /\ forallb (fun p => memb x (children g p)) (parents g x) = true
    /\ forallb (fun c => memb x (parents g c)) (children g x) = true).
  { intros x Hx. apply in_ids in Hx. specialize (H x Hx).
    repeat (apply andb_true_iff in H as [H ?]). tauto. }
  assert (PR : forall x p, In p (parents g x) -> p < dsize g /\ x < dsize g).
  { intros x p Hp. destruct (Nat.lt_ge_cases x (dsize g)) as [Hx|Hx].
    - split; [|exact Hx]. destruct (K x Hx) as [K1 _]. unfold in_range in K1.
      rewrite forallb_forall in K1. apply Nat.ltb_lt. apply K1. exact Hp.
    - destruct (out_of_range g x Hx) as [E _]. rewrite E in Hp. contradiction. }
  assert (KR : forall x c, In c (children g x) -> c < dsize g /\ x < dsize g).
  { intros x c Hc. destruct (Nat.lt_ge_cases x (dsize g)) as [Hx|Hx].
    - split; [|exact Hx]. destruct (K x Hx) as [_ [K1 _]]. unfold in_range in K1.
      rewrite forallb_forall in K1. apply Nat.ltb_lt. apply K1. exact Hc.
    - destruct (out_of_range g x Hx) as [_ E]. rewrite E in Hc. contradiction. }
  constructor.
  - intros x p Hp. apply (PR x p Hp).
  - intros x c Hc. apply (KR x c Hc).
  - intros x p Hp. apply (PR x p Hp).
  - intros x c Hc. apply (KR x c Hc).
  - intros p c. split.
    + intros Hc. destruct (KR p c Hc) as [_ Hp]. destruct (K p Hp) as [_ [_ [_ [_ [_ K6]]]]].
      rewrite forallb_forall in K6. apply memb_In. apply K6. exact Hc.
    + intros Hp. destruct (PR c p Hp) as [_ Hc]. destruct (K c Hc) as [_ [_ [_ [_ [K5 _]]]]].
      rewrite forallb_forall in K5. apply memb_In. apply K5. exact Hp.
  - intros x. destruct (Nat.lt_ge_cases x (dsize g)) as [Hx|Hx].
    + apply nodupb_NoDup. apply (K x Hx).
    + destruct (out_of_range g x Hx) as [E _]. rewrite E. constructor.
  - intros x. destruct (Nat.lt_ge_cases x (dsize g)) as [Hx|Hx].
    + apply nodupb_NoDup. apply (K x Hx).
    + destruct (out_of_range g x Hx) as [_ E]. rewrite E. constructor.
Qed.

Lemma snodupb_NoDup l : snodupb l = true -> NoDup l.
Proof.
  induction l as [|a l IH]; cbn; intros H; constructor.
  - apply andb_true_iff in H as [H _]. apply negb_true_iff in H. apply smem_false in H. exact H.
  - apply IH. apply andb_true_iff in H as [_ H]. exact H.
Qed.

Lemma distinct_namesb_ok g : distinct_namesb g = true -> DistinctNames g.
Proof.
  intros H. apply snodupb_NoDup in H. intros x y Hx Hy E.
  assert (L : length (map (name g) (ids g)) = dsize g) by (rewrite map_length; unfold ids; apply seq_length).
  rewrite (NoDup_nth (map (name g) (ids g)) []) in H.
  apply H; [rewrite L; exact Hx|rewrite L; exact Hy|].
  assert (N : forall z, z < dsize g -> nth z (map (name g) (ids g)) [] = name g z).
  { intros z Hz. rewrite (nth_indep (map (name g) (ids g)) [] (name g 0)); [|rewrite L; exact Hz].
    rewrite (map_nth (name g) (ids g) 0 z). unfold ids. rewrite seq_nth by exact Hz. reflexivity. }
  rewrite !N by assumption. exact E.
Qed.

(* ------------------------------------------------------------------------------------------- *)
(* C17: dag_to_list lists exactly the edges, by name *)

Lemma NoDup_map_inj_in {A B} (f : A -> B) l :
  (forall a b, In a l -> In b l -> f a = f b -> a = b) -> NoDup l -> NoDup (map f l).
Proof.
  intros Hf Hn. induction Hn as [|a l Hni Hd IH]; cbn; constructor.
  - intros H. apply in_map_iff in H as [b [Hb Hin]].
    assert (b = a) by (apply Hf; [right; exact Hin|left; reflexivity|exact Hb]). subst. contradiction.
  - apply IH. intros x y Hx Hy. apply Hf; right; assumption.
Qed.

Theorem list_edges_exact g r x :
  Wf g -> Ranked g r -> DistinctNames g -> WeaklyConnected g -> x < dsize g ->
  (forall pn cn, In (pn, cn) (dag_to_list g x) <->
                 exists p c, Edge g p c /\ pn = name g p /\ cn = name g c)
  /\ NoDup (dag_to_list g x).
Proof.
  intros WF RK DN WC Hx. unfold dag_to_list. split.
  - intros pn cn. rewrite in_map_iff. split.
    + intros [[p c] [E Hin]]. cbn in E. inversion E; subst.
      exists p, c. split; [eapply iter_sound; eauto|split; reflexivity].
    + intros [p [c [He [-> ->]]]]. exists (p, c). split; [reflexivity|].
      apply iter_complete; try assumption. intros y. apply (Ranked_no_loop g r y RK).
  - apply NoDup_map_inj_in; [|apply iter_nodup; exact WF].
    intros [p c] [p' c'] H1 H2 E. cbn in E. inversion E as [[E1 E2]].
    apply (iter_sound g WF) in H1. apply (iter_sound g WF) in H2.
    assert (R1 : p < dsize g /\ c < dsize g) by (split; [eapply wf_kid_src|eapply wf_kid_range]; eauto).
    assert (R2 : p' < dsize g /\ c' < dsize g) by (split; [eapply wf_kid_src|eapply wf_kid_range]; eauto).
    f_equal; apply DN; tauto.
Qed.

(* ------------------------------------------------------------------------------------------- *)
(* ancestors without a ranking: sound for every consistent link structure, complete as soon as there
   is no cycle (pigeonhole on the nodes of a walk) — used for the loop guard of the constructors *)

Definition Acyclic (g : dag) : Prop := forall y, ~ Reach g y y.

Section AncComplete.
  Variable g : dag.
  Hypothesis WF : Wf g.

  Lemma anc_raw_sound : forall f x a, In a (anc_raw f g x) -> Reach g a x.
  Proof.
    induction f as [|f IH]; intros x a H; [contradiction|].
    cbn [anc_raw] in H. apply in_flat_map in H as [p [Hp Hin]].
    assert (He : Edge g p x) by (apply (wf_sym g WF); exact Hp).
    apply in_app_or in Hin as [Hin|[<-|[]]].
    - eapply Reach_snoc; [apply IH; exact Hin|exact He].
    - apply Reach1. exact He.
  Qed.

  Lemma ancestors_sound x a : In a (ancestors g x) -> Reach g a x.
  Proof. unfold ancestors. rewrite dedup_In. apply anc_raw_sound. Qed.

  (* a walk from a to x together with the nodes it enters *)
  Inductive ReachL : list id -> id -> id -> Prop :=
  | RL1 : forall a b, Edge g a b -> ReachL [b] a b
  | RLS : forall l a p x, ReachL l a p -> Edge g p x -> ReachL (x :: l) a x.

  Lemma ReachL_front l c b : ReachL l c b -> forall a, Edge g a c -> ReachL (l ++ [c]) a b.
  Proof.
    induction 1 as [c b He|l c p x H IH He]; intros a Ha.
    - cbn. eapply RLS; [apply RL1; exact Ha|exact He].
    - cbn. eapply RLS; [apply IH; exact Ha|exact He].
  Qed.

  Lemma Reach_ReachL a b : Reach g a b -> exists l, ReachL l a b.
  Proof.
    induction 1 as [a b He|a c b He HR [l IH]].
    - exists [b]. apply RL1. exact He.
    - exists (l ++ [c]). apply ReachL_front; assumption.
  Qed.

  Lemma ReachL_anc l a x : ReachL l a x -> forall f, length l <= f -> In a (anc_raw f g x).
  Proof.
    induction 1 as [a b He|l a p x H IH He]; intros f Hf.
    - destruct f as [|f]; [cbn in Hf; lia|]. cbn [anc_raw]. apply in_flat_map.
      exists a. split; [apply (wf_sym g WF); exact He|]. apply in_or_app. right. left. reflexivity.
    - destruct f as [|f]; [cbn in Hf; lia|]. cbn [anc_raw]. apply in_flat_map.
      exists p. split; [apply (wf_sym g WF); exact He|]. apply in_or_app. left.
      apply IH. cbn in Hf. lia.
  Qed.

  Lemma ReachL_to_end l a x : ReachL l a x -> forall y, In y l -> y = x \/ Reach g y x.
  Proof.
    induction 1 as [a b He|l a p x H IH He]; intros y Hy.
    - destruct Hy as [<-|[]]. left. reflexivity.
    - destruct Hy as [<-|Hy]; [left; reflexivity|]. right.
      destruct (IH y Hy) as [->|HR]; [apply Reach1; exact He|eapply Reach_snoc; eauto].
  Qed.

  Lemma ReachL_nodup l a x : Acyclic g -> ReachL l a x -> NoDup l.
  Proof.
    intros AC. induction 1 as [a b He|l a p x H IH He].
    - constructor; [intros []|constructor].
    - constructor; [|exact IH]. intros Hin.
      destruct (ReachL_to_end l a p H x Hin) as [->|HR].
      + apply (AC p). apply Reach1. exact He.
      + apply (AC x). eapply Reach_snoc; eauto.
  Qed.

  Lemma ReachL_range l a x : ReachL l a x -> forall y, In y l -> y < dsize g.
  Proof.
    induction 1 as [a b He|l a p x H IH He]; intros y Hy.
    - destruct Hy as [<-|[]]. eapply wf_kid_range; eauto.
    - destruct Hy as [<-|Hy]; [eapply wf_kid_range; eauto|apply IH; exact Hy].
  Qed.

  Lemma ancestors_complete x a : Acyclic g -> Reach g a x -> In a (ancestors g x).
  Proof.
    intros AC HR. apply Reach_ReachL in HR as [l HL].
    unfold ancestors. rewrite dedup_In. apply (ReachL_anc l a x HL).
    assert (N := ReachL_nodup l a x AC HL).
    assert (I : incl l (ids g)) by (intros y Hy; apply in_ids; eapply ReachL_range; eauto).
    apply NoDup_incl_length in I; [|exact N]. unfold ids in I. rewrite seq_length in I. exact I.
  Qed.
End AncComplete.

(* adding one edge (p, c): a walk of the new graph either is a walk of the old one, or the old graph
   already leads from c to p, or the walk passes through the new edge once *)
Lemma Reach_split g g' p c :
  (forall u v, Edge g' u v -> Edge g u v \/ (u = p /\ v = c)) ->
  forall u v, Reach g' u v ->
    Reach g u v \/ (c = p \/ Reach g c p) \/ ((u = p \/ Reach g u p) /\ (c = v \/ Reach g c v)).
Proof.
  intros HE u v HR. induction HR as [u v He|u w v He HR IH].
  - destruct (HE u v He) as [H|[-> ->]]; [left; apply Reach1; exact H|].
    right. right. split; left; reflexivity.
  - destruct IH as [IH|[IH|[IH1 IH2]]].
    + destruct (HE u w He) as [H|[-> ->]]; [left; eapply ReachS; eauto|].
      right. right. split; [left; reflexivity|right; exact IH].
    + right. left. exact IH.
    + destruct (HE u w He) as [H|[-> ->]].
      * right. right. split; [|exact IH2]. right.
        destruct IH1 as [->|IH1]; [apply Reach1; exact H|eapply ReachS; eauto].
      * right. left. destruct IH1 as [->|IH1]; [left; reflexivity|right; exact IH1].
Qed.

Lemma Reach_mono g g' : (forall u v, Edge g u v -> Edge g' u v) -> forall a b, Reach g a b -> Reach g' a b.
Proof.
  intros H a b HR. induction HR as [a b He|a c b He HR IH].
  - apply Reach1. apply H. exact He.
  - eapply ReachS; [apply H; exact He|exact IH].
Qed.

(* ------------------------------------------------------------------------------------------- *)
(* the node table of the constructors *)

Definition bsize (b : bld) : nat := length (b_names b).
Definition bname (b : bld) (i : id) : str := nth i (b_names b) [].

Lemma b_dag_size b : dsize (b_dag b) = bsize b.
Proof. unfold dsize, b_dag, bsize. rewrite map_length, seq_length. reflexivity. Qed.

Lemma b_dag_node b i : i < bsize b ->
  node (b_dag b) i = DN (bname b i) (nth i (b_attrs b) []) (b_parents b i) (b_children b i).
Proof.
  intros Hi. unfold node, b_dag.
  set (F := fun i => DN (nth i (b_names b) []) (nth i (b_attrs b) []) (b_parents b i) (b_children b i)).
  rewrite (nth_indep (map F (seq 0 (length (b_names b)))) dn_default (F 0)).
  - rewrite (map_nth F (seq 0 (length (b_names b))) 0 i). rewrite seq_nth by exact Hi. reflexivity.
  - rewrite map_length, seq_length. exact Hi.
Qed.

Lemma b_dag_children b i : children (b_dag b) i = if Nat.ltb i (bsize b) then b_children b i else [].
Proof.
  destruct (Nat.ltb i (bsize b)) eqn:E.
  - apply Nat.ltb_lt in E. unfold children. rewrite b_dag_node by exact E. reflexivity.
  - apply Nat.ltb_ge in E. apply out_of_range. rewrite b_dag_size. exact E.
Qed.

Lemma b_dag_parents b i : parents (b_dag b) i = if Nat.ltb i (bsize b) then b_parents b i else [].
Proof.
  destruct (Nat.ltb i (bsize b)) eqn:E.
  - apply Nat.ltb_lt in E. unfold parents. rewrite b_dag_node by exact E. reflexivity.
  - apply Nat.ltb_ge in E. apply out_of_range. rewrite b_dag_size. exact E.
Qed.

Lemma b_dag_name b i : i < bsize b -> name (b_dag b) i = bname b i.
Proof. intros Hi. unfold name. rewrite b_dag_node by exact Hi. reflexivity. Qed.

Record BInv (b : bld) : Prop := {
  bi_range : forall p c, In (p, c) (b_edges b) -> p < bsize b /\ c < bsize b;
  bi_nodup_e : NoDup (b_edges b);
  bi_nodup_n : NoDup (b_names b)
}.

Lemma in_b_children b p c : In c (b_children b p) <-> In (p, c) (b_edges b).
Proof.
  unfold b_children. rewrite in_map_iff. split.
  - intros [[p' c'] [E Hin]]. cbn in E. subst c'. apply filter_In in Hin as [Hin Hp].
    cbn in Hp. apply Nat.eqb_eq in Hp. subst. exact Hin.
  - intros H. exists (p, c). split; [reflexivity|]. apply filter_In. split; [exact H|]. cbn. apply Nat.eqb_refl.
Qed.

Lemma in_b_parents b p c : In p (b_parents b c) <-> In (p, c) (b_edges b).
Proof.
  unfold b_parents. rewrite in_map_iff. split.
  - intros [[p' c'] [E Hin]]. cbn in E. subst p'. apply filter_In in Hin as [Hin Hp].
    cbn in Hp. apply Nat.eqb_eq in Hp. subst. exact Hin.
  - intros H. exists (p, c). split; [reflexivity|]. apply filter_In. split; [exact H|]. cbn. apply Nat.eqb_refl.
Qed.

Lemma b_edge b p c : BInv b -> (Edge (b_dag b) p c <-> In (p, c) (b_edges b)).
Proof.
  intros I. unfold Edge. rewrite b_dag_children. destruct (Nat.ltb p (bsize b)) eqn:E.
  - apply in_b_children.
  - apply Nat.ltb_ge in E. split; [intros []|]. intros H. apply (bi_range b I) in H. lia.
Qed.

Lemma b_parent_edge b p c : BInv b -> (In p (parents (b_dag b) c) <-> In (p, c) (b_edges b)).
Proof.
  intros I. rewrite b_dag_parents. destruct (Nat.ltb c (bsize b)) eqn:E.
  - apply in_b_parents.
  - apply Nat.ltb_ge in E. split; [intros []|]. intros H. apply (bi_range b I) in H. lia.
Qed.

Lemma b_wf b : BInv b -> Wf (b_dag b).
Proof.
  intros I. constructor.
  - intros x p H. apply (b_parent_edge b p x I) in H. rewrite b_dag_size. apply (bi_range b I) in H. tauto.
  - intros x c H. apply (b_edge b x c I) in H. rewrite b_dag_size. apply (bi_range b I) in H. tauto.
  - intros x p H. apply (b_parent_edge b p x I) in H. rewrite b_dag_size. apply (bi_range b I) in H. tauto.
  - intros x c H. apply (b_edge b x c I) in H. rewrite b_dag_size. apply (bi_range b I) in H. tauto.
  - intros p c. rewrite (b_parent_edge b p c I). apply (b_edge b p c I).
  - intros x. rewrite b_dag_parents. destruct (Nat.ltb x (bsize b)); [|constructor].
    unfold b_parents. apply NoDup_map_inj_in; [|apply NoDup_filter; apply (bi_nodup_e b I)].
    intros [p1 c1] [p2 c2] H1 H2 E. apply filter_In in H1 as [_ H1]. apply filter_In in H2 as [_ H2].
    cbn in *. apply Nat.eqb_eq in H1, H2. subst. reflexivity.
  - intros x. rewrite b_dag_children. destruct (Nat.ltb x (bsize b)); [|constructor].
    unfold b_children. apply NoDup_map_inj_in; [|apply NoDup_filter; apply (bi_nodup_e b I)].
    intros [p1 c1] [p2 c2] H1 H2 E. apply filter_In in H1 as [_ H1]. apply filter_In in H2 as [_ H2].
    cbn in *. apply Nat.eqb_eq in H1, H2. subst. reflexivity.
Qed.

Definition Good (b : bld) : Prop := BInv b /\ Acyclic (b_dag b).

(* b' extends b: the table only grows at the end, links are only added *)
Definition bext (b b' : bld) : Prop :=
  (exists l, b_names b' = b_names b ++ l) /\ incl (b_edges b) (b_edges b').

Lemma bext_refl b : bext b b.
Proof. split; [exists []; rewrite app_nil_r; reflexivity|apply incl_refl]. Qed.
Lemma bext_trans a b c : bext a b -> bext b c -> bext a c.
Proof.
  intros [[l1 E1] I1] [[l2 E2] I2]. split.
  - exists (l1 ++ l2). rewrite E2, E1, app_assoc. reflexivity.
  - eapply incl_tran; eauto.
Qed.
Lemma bext_name a b i : bext a b -> i < bsize a -> bname b i = bname a i /\ i < bsize b.
Proof.
  intros [[l E] _] Hi. unfold bname, bsize in *. rewrite E. rewrite app_nth1 by exact Hi.
  split; [reflexivity|]. rewrite app_length. lia.
Qed.

Lemma sindex_some s l i : sindex s l = Some i -> i < length l /\ nth i l [] = s.
Proof.
  revert i; induction l as [|x l IH]; intros i H; cbn in H; [discriminate|].
  destruct (str_eqb x s) eqn:E.
  - inversion H; subst. apply str_eqb_eq in E. cbn. split; [lia|exact E].
  - destruct (sindex s l) as [j|]; [|discriminate]. cbn in H. inversion H; subst.
    destruct (IH j eq_refl) as [H1 H2]. cbn. split; [lia|exact H2].
Qed.
Lemma sindex_none s l : sindex s l = None -> ~ In s l.
Proof.
  induction l as [|x l IH]; intros H; cbn in H; [intros []|].
  destruct (str_eqb x s) eqn:E; [discriminate|]. apply str_eqb_neq in E.
  destruct (sindex s l); [discriminate|]. intros [H1|H1]; [contradiction|]. apply IH; [reflexivity|exact H1].
Qed.

Lemma acyclic_same_edges b b' :
  BInv b -> BInv b' -> (forall e, In e (b_edges b') -> In e (b_edges b)) ->
  Acyclic (b_dag b) -> Acyclic (b_dag b').
Proof.
  intros I I' H AC y HR. apply (AC y). revert HR. apply Reach_mono.
  intros u v He. apply (b_edge b u v I). apply H. apply (b_edge b' u v I'). exact He.
Qed.

Lemma b_get_or_new_spec b nm a b' i :
  Good b -> b_get_or_new b nm a = (b', i) ->
  Good b' /\ bext b b' /\ b_edges b' = b_edges b /\ i < bsize b' /\ bname b' i = nm.
Proof.
  intros [I AC] H. unfold b_get_or_new, b_lookup in H. destruct (sindex nm (b_names b)) as [j|] eqn:E.
  - inversion H; subst. apply sindex_some in E as [E1 E2].
    split; [split; assumption|]. split; [apply bext_refl|]. split; [reflexivity|]. split; assumption.
  - unfold b_new in H. inversion H; subst. clear H. apply sindex_none in E.
    set (b' := BLD (b_names b ++ [nm]) (b_attrs b ++ [a]) (b_edges b)).
    assert (I' : BInv b').
    { constructor; cbn.
      - intros p c Hin. apply (bi_range b I) in Hin. unfold bsize in *. cbn. rewrite app_length. cbn. lia.
      - apply (bi_nodup_e b I).
      - apply NoDup_app_intro; [apply (bi_nodup_n b I)|constructor; [intros []|constructor]|].
        intros x H1 [<-|[]]. contradiction. }
    split; [split; [exact I'|]|].
    + apply (acyclic_same_edges b b' I I'); [intros e He; exact He|exact AC].
    + split; [split; [exists [nm]; reflexivity|apply incl_refl]|].
      split; [reflexivity|]. unfold bsize, bname. cbn. rewrite app_length. cbn. split; [lia|].
      rewrite app_nth2 by lia. rewrite Nat.sub_diag. reflexivity.
Qed.

Lemma set_parent1_spec b c p b' :
  Good b -> c < bsize b -> p < bsize b -> set_parent1 b c p = Ret b' ->
  Good b' /\ b_names b' = b_names b /\ (forall e, In e (b_edges b') <-> In e (b_edges b) \/ e = (p, c))
  /\ p <> c /\ ~ Reach (b_dag b) c p.
Proof.
  intros [I AC] Hc Hp H. unfold set_parent1 in H.
  destruct (Nat.eqb p c) eqn:E1; [discriminate|]. apply Nat.eqb_neq in E1.
  destruct (memb c (ancestors (b_dag b) p)) eqn:E2; [discriminate|]. apply memb_false in E2.
  assert (NR : ~ Reach (b_dag b) c p).
  { intros HR. apply E2. apply ancestors_complete; [apply b_wf; exact I|exact AC|exact HR]. }
  destruct (memb p (b_parents b c)) eqn:E3.
  - inversion H; subst b'. apply memb_In, in_b_parents in E3.
    split; [split; assumption|]. split; [reflexivity|]. split; [|split; assumption].
    intros e. split; [intros He; left; exact He|intros [He| ->]; assumption].
  - apply memb_false in E3. rewrite in_b_parents in E3. inversion H; subst b'. clear H.
    set (b' := BLD (b_names b) (b_attrs b) (b_edges b ++ [(p, c)])).
    assert (I' : BInv b').
    { constructor; cbn.
      - intros p0 c0 Hin. apply in_app_or in Hin as [Hin|[Hin|[]]].
        + apply (bi_range b I) in Hin. exact Hin.
        + inversion Hin; subst. unfold bsize in *. cbn. split; assumption.
      - apply NoDup_app_intro; [apply (bi_nodup_e b I)|constructor; [intros []|constructor]|].
        intros x H1 [<-|[]]. contradiction.
      - apply (bi_nodup_n b I). }
    split; [split; [exact I'|]|].
    + intros y HR.
      assert (HE : forall u v, Edge (b_dag b') u v -> Edge (b_dag b) u v \/ (u = p /\ v = c)).
      { intros u v He. apply (b_edge b' u v I') in He. cbn in He. apply in_app_or in He as [He|[He|[]]].
        - left. apply (b_edge b u v I). exact He.
        - right. inversion He; subst. split; reflexivity. }
      destruct (Reach_split (b_dag b) (b_dag b') p c HE y y HR) as [H|[[H|H]|[H1 H2]]].
      * exact (AC y H).
      * apply E1. symmetry. exact H.
      * exact (NR H).
      * apply NR. destruct H1 as [->|H1]; destruct H2 as [H2|H2].
        { exfalso. apply E1. symmetry. exact H2. }
        { exact H2. }
        { subst y. exact H1. }
        { eapply Reach_trans; eauto. }
    + split; [reflexivity|]. split; [|split; assumption].
      intros e. cbn. rewrite in_app_iff. cbn. split.
      * intros [He|[He|[]]]; [left; exact He|right; symmetry; exact He].
      * intros [He|He]; [left; exact He|right; left; symmetry; exact He].
Qed.
