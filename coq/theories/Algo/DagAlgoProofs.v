(* Proofs about the models of Algo/DagAlgo.v and Algo/DagIO.v against the graph-theoretic
   definitions of Spec/PC16.v (the theorems are restated one by one in Props/C16.v, Props/C17.v). *)
From BT Require Import Base.Prelude Base.Str Base.Rose Algo.DagAlgo Algo.DagIO Spec.PC16 Spec.PC17.

(* ------------------------------------------------------------------------------------------- *)
(* small facts *)

Lemma smem_In s l : smem s l = true <-> In s l.
Proof.
  unfold smem. rewrite existsb_exists. split.
  - intros [y [Hy He]]. apply str_eqb_eq in He. subst. exact Hy.
  - intros H. exists s. split; [exact H|apply str_eqb_refl].
Qed.

Lemma smem_false s l : smem s l = false <-> ~ In s l.
Proof.
  split.
  - intros H Hin. apply smem_In in Hin. congruence.
  - intros H. destruct (smem s l) eqn:E; [apply smem_In in E; contradiction|reflexivity].
Qed.

Lemma memb_In x l : memb x l = true <-> In x l.
Proof.
  unfold memb. rewrite existsb_exists. split.
  - intros [y [Hy He]]. apply Nat.eqb_eq in He. subst. exact Hy.
  - intros H. exists x. split; [exact H|apply Nat.eqb_refl].
Qed.

Lemma memb_false x l : memb x l = false <-> ~ In x l.
Proof.
  split.
  - intros H Hin. apply memb_In in Hin. congruence.
  - intros H. destruct (memb x l) eqn:E; [apply memb_In in E; contradiction|reflexivity].
Qed.

Lemma in_ids g x : In x (ids g) <-> x < dsize g.
Proof. unfold ids. rewrite in_seq. lia. Qed.

Lemma filter_length_le {A} (f f' : A -> bool) l :
  (forall y, In y l -> f' y = true -> f y = true) ->
  length (filter f' l) <= length (filter f l).
Proof.
  induction l as [|a l IH]; intros H; cbn; [lia|].
  assert (IH' := IH (fun y Hy => H y (or_intror Hy))).
  destruct (f' a) eqn:E1.
  - rewrite (H a (or_introl eq_refl) E1). cbn. lia.
  - destruct (f a); cbn; lia.
Qed.

Lemma filter_length_lt {A} (f f' : A -> bool) l x :
  (forall y, In y l -> f' y = true -> f y = true) ->
  In x l -> f x = true -> f' x = false ->
  length (filter f' l) < length (filter f l).
Proof.
  induction l as [|a l IH]; intros H Hin Hf Hf'; [contradiction|].
  cbn. destruct Hin as [->|Hin].
  - rewrite Hf, Hf'. cbn.
    assert (L := filter_length_le f f' l (fun y Hy => H y (or_intror Hy))). lia.
  - assert (IH' := IH (fun y Hy => H y (or_intror Hy)) Hin Hf Hf').
    destruct (f' a) eqn:E1.
    + rewrite (H a (or_introl eq_refl) E1). cbn. lia.
    + destruct (f a); cbn; lia.
Qed.

(* ------------------------------------------------------------------------------------------- *)
(* dict.fromkeys *)

Lemma dedup_acc_In seen l x : In x (dedup_acc seen l) <-> In x l /\ ~ In x seen.
Proof.
  revert seen; induction l as [|a l IH]; intros seen; cbn.
  - tauto.
  - destruct (memb a seen) eqn:E.
    + apply memb_In in E. rewrite IH. split.
      * intros [H1 H2]. tauto.
      * intros [[->|H1] H2]; [contradiction|tauto].
    + apply memb_false in E. cbn. rewrite IH. cbn. split.
      * intros [->|[H1 H2]]; [tauto|]. split; [tauto|]. intros H3. apply H2. right. exact H3.
      * intros [[->|H1] H2]; [left; reflexivity|].
        destruct (Nat.eq_dec a x) as [->|Hne]; [left; reflexivity|].
        right. split; [exact H1|]. intros [H3|H3]; [contradiction|contradiction].
Qed.

Lemma dedup_acc_NoDup seen l : NoDup (dedup_acc seen l).
Proof.
  revert seen; induction l as [|a l IH]; intros seen; cbn; [constructor|].
  destruct (memb a seen); [apply IH|].
  constructor; [|apply IH].
  rewrite dedup_acc_In. intros [_ H]. apply H. left. reflexivity.
Qed.

Lemma dedup_In l x : In x (dedup l) <-> In x l.
Proof. unfold dedup. rewrite dedup_acc_In. cbn. tauto. Qed.
Lemma dedup_NoDup l : NoDup (dedup l).
Proof. apply dedup_acc_NoDup. Qed.

(* ------------------------------------------------------------------------------------------- *)
(* reachability *)

Lemma Reach_snoc g a p x : Reach g a p -> Edge g p x -> Reach g a x.
Proof.
  induction 1 as [a b Hab|a c b Hac Hcb IH]; intros He.
  - eapply ReachS; [exact Hab|]. apply Reach1. exact He.
  - eapply ReachS; [exact Hac|]. apply IH. exact He.
Qed.

Lemma Reach_last g a x : Reach g a x -> exists p, Edge g p x /\ (a = p \/ Reach g a p).
Proof.
  induction 1 as [a b Hab|a c b Hac Hcb IH].
  - exists a. split; [exact Hab|left; reflexivity].
  - destruct IH as [p [Hp [->|Hr]]].
    + exists p. split; [exact Hp|]. right. apply Reach1. exact Hac.
    + exists p. split; [exact Hp|]. right. eapply ReachS; eauto.
Qed.

Lemma Reach_trans g a b c : Reach g a b -> Reach g b c -> Reach g a c.
Proof.
  induction 1 as [a b Hab|a d b Had Hdb IH]; intros H.
  - eapply ReachS; eauto.
  - eapply ReachS; [exact Had|]. apply IH. exact H.
Qed.

Lemma Reach_rank g r a b : Ranked g r -> Reach g a b -> r a < r b.
Proof.
  intros [Hr _]. induction 1 as [a b Hab|a c b Hac Hcb IH].
  - apply Hr. exact Hab.
  - apply Hr in Hac. lia.
Qed.

Lemma Ranked_irrefl g r x : Ranked g r -> ~ Reach g x x.
Proof. intros Hr H. apply (Reach_rank g r) in H; [lia|exact Hr]. Qed.

Lemma Ranked_no_loop g r x : Ranked g r -> ~ Edge g x x.
Proof. intros Hr H. apply (Ranked_irrefl g r x Hr). apply Reach1. exact H. Qed.

(* ------------------------------------------------------------------------------------------- *)
(* dag_iterator: soundness and absence of repetition *)

Section Iter.
  Variable g : dag.
  Hypothesis WF : Wf g.
  Let nm := name g.

  Record Seg (vis : list str) (out : list edge) (vis' : list str) : Prop := {
    seg_mono  : incl vis vis';
    seg_edge  : forall a b, In (a, b) out -> Edge g a b;
    seg_fresh : forall a b, In (a, b) out -> ~ In (nm a) vis /\ ~ In (nm b) vis;
    seg_cover : forall a b, In (a, b) out -> In (nm a) vis' /\ In (nm b) vis';
    seg_nodup : NoDup out
  }.

  Lemma seg_nil v : Seg v [] v.
  Proof. constructor; try (intros a b []); [apply incl_refl|constructor]. Qed.

  Lemma seg_app v0 o1 v1 o2 v2 : Seg v0 o1 v1 -> Seg v1 o2 v2 -> Seg v0 (o1 ++ o2) v2.
  Proof.
    intros S1 S2. constructor.
    - eapply incl_tran; [apply (seg_mono _ _ _ S1)|apply (seg_mono _ _ _ S2)].
    - intros a b H. apply in_app_or in H as [H|H]; [eapply seg_edge; eauto|eapply seg_edge; eauto].
    - intros a b H. apply in_app_or in H as [H|H].
      + eapply seg_fresh; eauto.
      + destruct (seg_fresh _ _ _ S2 a b H) as [Ha Hb].
        split; intros Hin; [apply Ha|apply Hb]; apply (seg_mono _ _ _ S1); exact Hin.
    - intros a b H. apply in_app_or in H as [H|H].
      + destruct (seg_cover _ _ _ S1 a b H) as [Ha Hb].
        split; apply (seg_mono _ _ _ S2); assumption.
      + eapply seg_cover; eauto.
    - apply NoDup_app_intro; [apply (seg_nodup _ _ _ S1)|apply (seg_nodup _ _ _ S2)|].
      intros [a b] H1 H2.
      destruct (seg_cover _ _ _ S1 a b H1) as [Ha _].
      destruct (seg_fresh _ _ _ S2 a b H2) as [Ha' _]. contradiction.
  Qed.

  Definition WSpec (W : id -> list str -> list edge * list str) : Prop :=
    forall y vis, ~ In (nm y) vis ->
      Seg vis (fst (W y vis)) (snd (W y vis)) /\ In (nm y) (snd (W y vis)).

  Lemma visit_list_seg W l : WSpec W -> forall vis,
    Seg vis (fst (visit_list W nm l vis)) (snd (visit_list W nm l vis))
    /\ forall y, In y l -> In (nm y) (snd (visit_list W nm l vis)).
  Proof.
    intros HW. induction l as [|y t IH]; intros vis; cbn [visit_list].
    - split; [apply seg_nil|intros y []].
    - destruct (smem (nm y) vis) eqn:E.
      + destruct (IH vis) as [S1 C1]. split; [exact S1|].
        intros z [<-|Hz]; [|apply C1; exact Hz].
        apply smem_In in E. apply (seg_mono _ _ _ S1). exact E.
      + apply smem_false in E. destruct (HW y vis E) as [S0 C0].
        destruct (IH (snd (W y vis))) as [S1 C1]. cbn [fst snd]. split.
        * eapply seg_app; eauto.
        * intros z [<-|Hz]; [|apply C1; exact Hz].
          apply (seg_mono _ _ _ S1). exact C0.
  Qed.

  Lemma in_up x vis1 a b :
    In (a, b) (map (fun p => (p, x)) (filter (fun p => negb (smem (nm p) vis1)) (parents g x))) <->
    b = x /\ In a (parents g x) /\ ~ In (nm a) vis1.
  Proof.
    rewrite in_map_iff. split.
    - intros [p [Hp Hin]]. inversion Hp; subst. apply filter_In in Hin as [H1 H2].
      apply negb_true_iff in H2. apply smem_false in H2. tauto.
    - intros [-> [H1 H2]]. exists a. split; [reflexivity|]. apply filter_In. split; [exact H1|].
      apply negb_true_iff. apply smem_false. exact H2.
  Qed.

  Lemma in_down x vis1 a b :
    In (a, b) (map (fun c => (x, c)) (filter (fun c => negb (smem (nm c) vis1)) (children g x))) <->
    a = x /\ In b (children g x) /\ ~ In (nm b) vis1.
  Proof.
    rewrite in_map_iff. split.
    - intros [p [Hp Hin]]. inversion Hp; subst. apply filter_In in Hin as [H1 H2].
      apply negb_true_iff in H2. apply smem_false in H2. tauto.
    - intros [-> [H1 H2]]. exists b. split; [reflexivity|]. apply filter_In. split; [exact H1|].
      apply negb_true_iff. apply smem_false. exact H2.
  Qed.

  Lemma NoDup_map_inj {A B} (f : A -> B) l :
    (forall a b, f a = f b -> a = b) -> NoDup l -> NoDup (map f l).
  Proof.
    intros Hf. induction 1 as [|a l Hn Hd IH]; cbn; constructor; [|exact IH].
    intros H. apply in_map_iff in H as [b [Hb Hin]]. apply Hf in Hb. subst. contradiction.
  Qed.

  Lemma walk_spec : forall f, WSpec (walk f g).
  Proof.
    induction f as [|f IH]; intros x vis Hx.
    - cbn [walk fst snd]. split; [|left; reflexivity].
      constructor; try (intros a b []); [apply incl_tl, incl_refl|constructor].
    - cbn [walk]. fold nm.
      set (vis1 := nm x :: vis).
      set (up := map (fun p => (p, x)) (filter (fun p => negb (smem (nm p) vis1)) (parents g x))).
      set (down := map (fun c => (x, c)) (filter (fun c => negb (smem (nm c) vis1)) (children g x))).
      destruct (visit_list_seg (walk f g) (parents g x) IH vis1) as [S3 C3].
      set (r3 := visit_list (walk f g) nm (parents g x) vis1) in *.
      destruct (visit_list_seg (walk f g) (children g x) IH (snd r3)) as [S4 C4].
      set (r4 := visit_list (walk f g) nm (children g x) (snd r3)) in *.
      cbn [fst snd].
      assert (S34 : Seg vis1 (fst r3 ++ fst r4) (snd r4)) by (eapply seg_app; eauto).
      assert (M1 : incl vis vis1) by (apply incl_tl, incl_refl).
      assert (Hx4 : In (nm x) (snd r4)).
      { apply (seg_mono _ _ _ S34). left. reflexivity. }
      split; [|exact Hx4].
      constructor.
      + eapply incl_tran; [exact M1|apply (seg_mono _ _ _ S34)].
      + intros a b H. apply in_app_or in H as [H|H].
        { apply in_up in H as [-> [H1 _]]. apply (wf_sym g WF). exact H1. }
        apply in_app_or in H as [H|H].
        { apply in_down in H as [-> [H1 _]]. exact H1. }
        eapply seg_edge; eauto.
      + intros a b H. apply in_app_or in H as [H|H].
        { apply in_up in H as [-> [_ H2]]. split; [|exact Hx]. intros Hin. apply H2. right. exact Hin. }
        apply in_app_or in H as [H|H].
        { apply in_down in H as [-> [_ H2]]. split; [exact Hx|]. intros Hin. apply H2. right. exact Hin. }
        destruct (seg_fresh _ _ _ S34 a b H) as [Ha Hb].
        split; intros Hin; [apply Ha|apply Hb]; right; exact Hin.
      + intros a b H. apply in_app_or in H as [H|H].
        { apply in_up in H as [-> [H1 _]]. split; [|exact Hx4].
          apply (seg_mono _ _ _ S4). apply C3. exact H1. }
        apply in_app_or in H as [H|H].
        { apply in_down in H as [-> [H1 _]]. split; [exact Hx4|]. apply C4. exact H1. }
        eapply seg_cover; eauto.
      + apply NoDup_app_intro.
        { apply NoDup_map_inj; [intros a b E; inversion E; reflexivity|].
          apply NoDup_filter. apply (wf_par_nodup g WF). }
        { apply NoDup_app_intro.
          - apply NoDup_map_inj; [intros a b E; inversion E; reflexivity|].
            apply NoDup_filter. apply (wf_kid_nodup g WF).
          - apply (seg_nodup _ _ _ S34).
          - intros [a b] H1 H2. apply in_down in H1 as [-> [_ _]].
            destruct (seg_fresh _ _ _ S34 x b H2) as [Ha _]. apply Ha. left. reflexivity. }
        intros [a b] H1 H2. apply in_up in H1 as [-> [_ Hna]].
        apply in_app_or in H2 as [H2|H2].
        { apply in_down in H2 as [-> _]. apply Hna. left. reflexivity. }
        destruct (seg_fresh _ _ _ S34 a x H2) as [_ Hb]. apply Hb. left. reflexivity.
  Qed.

  Lemma iter_seg x : exists V, Seg [] (dag_iterator g x) V /\ In (nm x) V.
  Proof.
    unfold dag_iterator. exists (snd (walk (S (dsize g)) g x [])).
    apply walk_spec. intros [].
  Qed.

  Theorem iter_sound x a b : In (a, b) (dag_iterator g x) -> Edge g a b.
  Proof. destruct (iter_seg x) as [V [S _]]. apply (seg_edge _ _ _ S). Qed.

  Theorem iter_nodup x : NoDup (dag_iterator g x).
  Proof. destruct (iter_seg x) as [V [S _]]. apply (seg_nodup _ _ _ S). Qed.

  (* ----------------------------------------------------------------------------------------- *)
  (* completeness: distinct names, no self loop, enough fuel *)

  Hypothesis DN : DistinctNames g.
  Hypothesis NL : forall x, ~ Edge g x x.

  Definition unvisited (vis : list str) : list id := filter (fun y => negb (smem (nm y) vis)) (ids g).

  Lemma unvisited_le vis vis' : incl vis vis' -> length (unvisited vis') <= length (unvisited vis).
  Proof.
    intros H. apply filter_length_le. intros y _ Hy.
    apply negb_true_iff in Hy. apply smem_false in Hy.
    apply negb_true_iff. apply smem_false. intros Hin. apply Hy. apply H. exact Hin.
  Qed.

  Lemma unvisited_lt vis vis' x :
    incl vis vis' -> x < dsize g -> ~ In (nm x) vis -> In (nm x) vis' ->
    length (unvisited vis') < length (unvisited vis).
  Proof.
    intros H Hx Hn Hi. apply filter_length_lt with (x := x).
    - intros y _ Hy. apply negb_true_iff in Hy. apply smem_false in Hy.
      apply negb_true_iff. apply smem_false. intros Hin. apply Hy. apply H. exact Hin.
    - apply in_ids. exact Hx.
    - apply negb_true_iff. apply smem_false. exact Hn.
    - apply negb_false_iff. apply smem_In. exact Hi.
  Qed.

  Record Clo (vis : list str) (out : list edge) (vis' : list str) : Prop := {
    clo_nb : forall y z, y < dsize g -> In (nm y) vis' -> ~ In (nm y) vis -> Adj g y z -> In (nm z) vis';
    clo_edges : forall a b, Edge g a b -> In (nm a) vis' -> ~ In (nm a) vis ->
                            In (nm b) vis' -> ~ In (nm b) vis -> In (a, b) out
  }.

  Lemma In_dec_str (s : str) l : In s l \/ ~ In s l.
  Proof. destruct (smem s l) eqn:E; [left; apply smem_In; exact E|right; apply smem_false; exact E]. Qed.

  Lemma edge_range a b : Edge g a b -> a < dsize g /\ b < dsize g.
  Proof. intros H. split; [eapply wf_kid_src; eauto|eapply wf_kid_range; eauto]. Qed.

  Lemma clo_nil v : Clo v [] v.
  Proof. constructor; intros; contradiction. Qed.

  Lemma clo_app v0 o1 v1 o2 v2 :
    incl v0 v1 -> incl v1 v2 -> Clo v0 o1 v1 -> Clo v1 o2 v2 -> Clo v0 (o1 ++ o2) v2.
  Proof.
    intros M1 M2 C1 C2. constructor.
    - intros y z Hy Hi Hn Hadj. destruct (In_dec_str (nm y) v1) as [H1|H1].
      + apply M2. eapply (clo_nb _ _ _ C1); eauto.
      + eapply (clo_nb _ _ _ C2); eauto.
    - intros a b He Ha Hna Hb Hnb. apply in_or_app.
      destruct (edge_range a b He) as [Ra Rb].
      destruct (In_dec_str (nm a) v1) as [A1|A1]; destruct (In_dec_str (nm b) v1) as [B1|B1].
      + left. eapply (clo_edges _ _ _ C1); eauto.
      + exfalso. apply B1. eapply (clo_nb _ _ _ C1 a b); eauto. left. exact He.
      + exfalso. apply A1. eapply (clo_nb _ _ _ C1 b a); eauto. right. exact He.
      + right. eapply (clo_edges _ _ _ C2); eauto.
  Qed.

  Definition WClo (W : id -> list str -> list edge * list str) (k : nat) : Prop :=
    forall y vis, y < dsize g -> ~ In (nm y) vis -> length (unvisited vis) <= k ->
      Clo vis (fst (W y vis)) (snd (W y vis)).

  Lemma visit_list_clo W k l : WSpec W -> WClo W k ->
    (forall y, In y l -> y < dsize g) ->
    forall vis, length (unvisited vis) <= k ->
    Clo vis (fst (visit_list W nm l vis)) (snd (visit_list W nm l vis)).
  Proof.
    intros HW HC. induction l as [|y t IH]; intros Hr vis Hk; cbn [visit_list].
    - apply clo_nil.
    - assert (Hr' : forall z, In z t -> z < dsize g) by (intros z Hz; apply Hr; right; exact Hz).
      destruct (smem (nm y) vis) eqn:E.
      + apply IH; assumption.
      + apply smem_false in E. destruct (HW y vis E) as [S0 C0]. cbn [fst snd].
        assert (M0 := seg_mono _ _ _ S0).
        assert (Hk' : length (unvisited (snd (W y vis))) <= k).
        { eapply Nat.le_trans; [apply unvisited_le; exact M0|exact Hk]. }
        destruct (visit_list_seg W t HW (snd (W y vis))) as [S1 _].
        eapply clo_app; [exact M0|apply (seg_mono _ _ _ S1)| |apply IH; assumption].
        apply HC; [apply Hr; left; reflexivity|exact E|exact Hk].
  Qed.

  Lemma walk_clo : forall f, WClo (walk f g) f.
  Proof.
    induction f as [|f IH]; intros x vis Hx Hn Hk.
    - exfalso. assert (L : length (unvisited (nm x :: vis)) < length (unvisited vis)).
      { apply unvisited_lt with (x := x); [apply incl_tl, incl_refl|exact Hx|exact Hn|left; reflexivity]. }
      lia.
    - cbn [walk]. fold nm.
      set (vis1 := nm x :: vis).
      set (up := map (fun p => (p, x)) (filter (fun p => negb (smem (nm p) vis1)) (parents g x))).
      set (down := map (fun c => (x, c)) (filter (fun c => negb (smem (nm c) vis1)) (children g x))).
      assert (M1 : incl vis vis1) by (apply incl_tl, incl_refl).
      assert (K1 : length (unvisited vis1) <= f).
      { assert (L : length (unvisited vis1) < length (unvisited vis)).
        { apply unvisited_lt with (x := x); [exact M1|exact Hx|exact Hn|left; reflexivity]. }
        lia. }
      assert (RP : forall y, In y (parents g x) -> y < dsize g) by (intros y Hy; eapply wf_par_range; eauto).
      assert (RC : forall y, In y (children g x) -> y < dsize g) by (intros y Hy; eapply wf_kid_range; eauto).
      destruct (visit_list_seg (walk f g) (parents g x) (walk_spec f) vis1) as [S3 C3].
      assert (Cl3 := visit_list_clo (walk f g) f (parents g x) (walk_spec f) IH RP vis1 K1).
      set (r3 := visit_list (walk f g) nm (parents g x) vis1) in *.
      assert (K3 : length (unvisited (snd r3)) <= f).
      { eapply Nat.le_trans; [apply unvisited_le; apply (seg_mono _ _ _ S3)|exact K1]. }
      destruct (visit_list_seg (walk f g) (children g x) (walk_spec f) (snd r3)) as [S4 C4].
      assert (Cl4 := visit_list_clo (walk f g) f (children g x) (walk_spec f) IH RC (snd r3) K3).
      set (r4 := visit_list (walk f g) nm (children g x) (snd r3)) in *.
      cbn [fst snd].
      assert (Cl34 : Clo vis1 (fst r3 ++ fst r4) (snd r4)).
      { eapply clo_app; [apply (seg_mono _ _ _ S3)|apply (seg_mono _ _ _ S4)|exact Cl3|exact Cl4]. }
      assert (M34 : incl vis1 (snd r4)).
      { eapply incl_tran; [apply (seg_mono _ _ _ S3)|apply (seg_mono _ _ _ S4)]. }
      assert (same : forall y, y < dsize g -> nm y = nm x -> y = x).
      { intros y Hy E. apply DN; assumption. }
      constructor.
      + intros y z Hy Hi Hny Hadj.
        destruct (str_eqb (nm y) (nm x)) eqn:E.
        * apply str_eqb_eq in E. apply same in E; [|exact Hy]. subst y.
          destruct Hadj as [He|He].
          { apply C4. exact He. }
          { apply (seg_mono _ _ _ S4). apply C3. apply (wf_sym g WF). exact He. }
        * apply str_eqb_neq in E.
          eapply (clo_nb _ _ _ Cl34 y z); eauto.
          intros [H|H]; [apply E; symmetry; exact H|contradiction].
      + intros a b He Ha Hna Hb Hnb.
        destruct (edge_range a b He) as [Ra Rb].
        destruct (str_eqb (nm a) (nm x)) eqn:EA.
        * apply str_eqb_eq in EA. apply same in EA; [|exact Ra]. subst a.
          apply in_or_app. right. apply in_or_app. left. apply in_down.
          split; [reflexivity|]. split; [exact He|].
          intros [H|H]; [|contradiction].
          assert (b = x) by (apply same; [exact Rb|symmetry; exact H]). subst b. exact (NL x He).
        * apply str_eqb_neq in EA.
          destruct (str_eqb (nm b) (nm x)) eqn:EB.
          { apply str_eqb_eq in EB. apply same in EB; [|exact Rb]. subst b.
            apply in_or_app. left. apply in_up.
            split; [reflexivity|]. split; [apply (wf_sym g WF); exact He|].
            intros [H|H]; [apply EA; symmetry; exact H|contradiction]. }
          apply str_eqb_neq in EB.
          apply in_or_app. right. apply in_or_app. right.
          eapply (clo_edges _ _ _ Cl34 a b); eauto.
          { intros [H|H]; [apply EA; symmetry; exact H|contradiction]. }
          { intros [H|H]; [apply EB; symmetry; exact H|contradiction]. }
  Qed.

  Lemma unvisited_nil : length (unvisited []) = dsize g.
  Proof.
    unfold unvisited. rewrite (proj2 (filter_length_forallb _ _)).
    - unfold ids. apply seq_length.
    - apply forallb_forall. intros y _. reflexivity.
  Qed.

  Theorem iter_complete x a b :
    WeaklyConnected g -> x < dsize g -> Edge g a b -> In (a, b) (dag_iterator g x).
  Proof.
    intros WC Hx He.
    destruct (walk_spec (S (dsize g)) x [] (fun H => H)) as [S0 Hx0].
    assert (C0 : Clo [] (fst (walk (S (dsize g)) g x [])) (snd (walk (S (dsize g)) g x []))).
    { apply walk_clo; [exact Hx|intros []|rewrite unvisited_nil; lia]. }
    set (V := snd (walk (S (dsize g)) g x [])) in *.
    assert (All : forall y, UReach g x y -> y < dsize g /\ In (nm y) V).
    { induction 1 as [a0|a0 c b0 Hu IH Hadj] in Hx, Hx0 |- *.
      - split; assumption.
      - destruct (IH Hx Hx0) as [Rc Ic].
        split.
        + destruct Hadj as [H|H]; apply edge_range in H; tauto.
        + eapply (clo_nb _ _ _ C0 c b0); eauto. }
    destruct (edge_range a b He) as [Ra Rb].
    unfold dag_iterator.
    eapply (clo_edges _ _ _ C0 a b); eauto.
    - apply All. apply WC; assumption.
    - apply All. apply WC; assumption.
  Qed.
End Iter.
