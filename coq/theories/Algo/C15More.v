(* C15, more: get_tree_diff for EVERY one-character separator, in terms of the two path sets.

   Algo/DiffProofs.v proves the clauses of C15 for sep = "/" and, for a one-character separator c <> "/",
   the boundary of known finding K4-C15 in terms of kept_paths (the marked path strings handed to
   dataframe_to_tree).  This file
     1. computes kept_paths for every one-character separator c (c = "/" included) from the two path sets:
          kept_paths [c] t1 t2 od al = map (row_path c ...) (keptM ... od)
        (keptM od = every path of either tree, resp. with only_diff the marked paths; row_path = the path
        rendered with c, removed / added components suffixed);  no lookalike_free guard;
     2. derives: None iff nothing is marked and only_diff (any c, no lookalike guard); for c <> "/":
        TreeError iff two kept nodes are rendered differently, iff (c outside " ()+-", lookalike_free) at least
        two nodes are kept; the property predicate prop_C15 holds of the model iff there is nothing to report.
   The steps 1 re-prove the join / suffixing abstraction of DiffProofs.Main with the separator as a parameter
   (the definitions status, comps, chsA, keptM, ... of DiffProofs are reused; they do not mention a separator). *)
From BT Require Import Base.Prelude Base.Str Base.Rose Algo.Diff Spec.PC15 Algo.DiffProofs.
From Coq Require Import Permutation.

(* ================================================================================================ *)
(* 1. the table with separator c                                                                      *)

Definition rowofc (c : N) (al : list str) (e : list str * attrs) : row :=
  Row (path_name [c] (fst e)) (last (fst e) []) (map (fun k => get_attr k (snd e)) al).

Lemma table_from_nodes_c c al (t : tree) : forall pre,
  table_from [c] al pre t = map (rowofc c al) (nodes_from pre t).
Proof.
  induction t as [g n a ks IH] using tree_ind'. intros pre.
  cbn [table_from nodes_from map]. f_equal.
  - unfold rowofc. cbn [fst snd]. rewrite last_last. reflexivity.
  - induction ks as [|k ks IHk]; [reflexivity|].
    inversion IH as [|? ? Hk Hks]; subst. cbn [flat_map]. rewrite map_app.
    rewrite Hk, IHk by exact Hks. reflexivity.
Qed.

Lemma table_nodes_c c al t : table [c] al t = map (rowofc c al) (nodes_of t).
Proof. apply table_from_nodes_c. Qed.

(* a path whose names are free of c *)
Definition cpath (c : N) (p : list str) : Prop := p <> [] /\ Forall (cfree c) p.

Lemma pnc_inj c p q : cpath c p -> cpath c q -> path_name [c] p = path_name [c] q -> p = q.
Proof. intros [Hp Fp] [Hq Fq]. apply path_name_inj; assumption. Qed.

(* ================================================================================================ *)
(* 2. join, suffixing, changes, only_diff with separator c on two node lists                          *)

Section MainC.
  Variable c : N.
  Variable al : list str.
  Variables N1 N2 : list (list str * attrs).

  Hypothesis HND1 : NoDup (map fst N1).
  Hypothesis HND2 : NoDup (map fst N2).
  Hypothesis Hc1 : forall p, In p (map fst N1) -> cpath c p.
  Hypothesis Hc2 : forall p, In p (map fst N2) -> cpath c p.
  Hypothesis Hpc1 : forall q x, q <> [] -> In (q ++ [x]) (map fst N1) -> In q (map fst N1).
  Hypothesis Hpc2 : forall q x, q <> [] -> In (q ++ [x]) (map fst N2) -> In q (map fst N2).

  Notation st := (status al N1 N2).
  Notation all := (all_paths N1 N2).

  Lemma all_c p : In p all -> cpath c p.
  Proof. intros H. apply in_all in H as [H|H]; [apply Hc1|apply Hc2]; exact H. Qed.

  Definition jr_ofc (p : list str) : jrow := set_path (jr_of al N1 N2 p) (path_name [c] p).

  Lemma key_eqb_rows_c p a q b :
    cpath c p -> cpath c q -> key_eqb (rowofc c al (p, a)) (rowofc c al (q, b)) = npath_eqb p q.
  Proof.
    intros Hp Hq. unfold key_eqb, rowofc. cbn [rpath rname fst snd].
    destruct (npath_eqb p q) eqn:E.
    - apply npath_eqb_eq in E. subst. rewrite !str_eqb_refl. reflexivity.
    - assert (Hn : str_eqb (path_name [c] p) (path_name [c] q) = false).
      { apply str_eqb_neq. intros H. apply pnc_inj in H; [|assumption|assumption]. subst.
        rewrite npath_eqb_refl in E. discriminate. }
      rewrite Hn. reflexivity.
  Qed.

  Lemma lookup_cons_eq' p b (N : list (list str * attrs)) : lookup p ((p, b) :: N) = Some b.
  Proof. unfold lookup. cbn [find fst]. rewrite npath_eqb_refl. reflexivity. Qed.

  Lemma lookup_cons_neq' p q b (N : list (list str * attrs)) : q <> p -> lookup p ((q, b) :: N) = lookup p N.
  Proof. intros H. unfold lookup. cbn [find fst]. rewrite npath_eqb_neq by exact H. reflexivity. Qed.

  Lemma filter_key_c p a1 (N : list (list str * attrs)) :
    NoDup (map fst N) -> (forall q, In q (map fst N) -> cpath c q) -> cpath c p ->
    filter (key_eqb (rowofc c al (p, a1))) (map (rowofc c al) N)
    = match lookup p N with Some a2 => [rowofc c al (p, a2)] | None => [] end.
  Proof.
    intros Hnd Hg Hp. induction N as [|[q b] N IH]; [reflexivity|].
    cbn [map fst] in Hnd. inversion Hnd as [|? ? Hq Hnd']; subst.
    assert (Hgq : cpath c q) by (apply Hg; left; reflexivity).
    assert (Hg' : forall q0, In q0 (map fst N) -> cpath c q0) by (intros q0 H0; apply Hg; right; exact H0).
    cbn [map filter]. rewrite key_eqb_rows_c by assumption.
    destruct (npath_eqb p q) eqn:E.
    - apply npath_eqb_eq in E. subst q. rewrite lookup_cons_eq'.
      rewrite (IH Hnd' Hg'). apply lookup_none_iff in Hq. rewrite Hq. reflexivity.
    - rewrite lookup_cons_neq'.
      + apply IH; assumption.
      + intros ->. rewrite npath_eqb_refl in E. discriminate.
  Qed.

  Lemma existsb_key_c q b (N : list (list str * attrs)) :
    (forall p, In p (map fst N) -> cpath c p) -> cpath c q ->
    existsb (fun r1 => key_eqb r1 (rowofc c al (q, b))) (map (rowofc c al) N) = in_paths q N.
  Proof.
    intros Hg Hq. unfold in_paths. induction N as [|[p a] N IH]; [reflexivity|].
    cbn [map existsb fst]. rewrite key_eqb_rows_c; [|apply Hg; left; reflexivity|exact Hq].
    rewrite IH; [reflexivity|]. intros p0 H0. apply Hg. right. exact H0.
  Qed.

  Lemma merge_abs_c :
    merge_outer (nn al) (map (rowofc c al) N1) (map (rowofc c al) N2) = map jr_ofc all.
  Proof.
    unfold merge_outer, all_paths. rewrite map_app. f_equal.
    - assert (G : forall l, incl l N1 ->
        flat_map (fun r1 => match filter (key_eqb r1) (map (rowofc c al) N2) with
                            | [] => [JR (rpath r1) (rvals r1) (nn al) LeftOnly]
                            | _ :: _ => map (fun r2 => JR (rpath r1) (rvals r1) (rvals r2) BothI)
                                          (filter (key_eqb r1) (map (rowofc c al) N2))
                            end) (map (rowofc c al) l) = map jr_ofc (map fst l)).
      { induction l as [|[p a1] l IH]; intros Hincl; [reflexivity|].
        cbn [map flat_map fst]. rewrite IH by (intros e He; apply Hincl; right; exact He).
        assert (Hin : In (p, a1) N1) by (apply Hincl; left; reflexivity).
        assert (Hp : cpath c p) by (apply Hc1; apply (in_map fst) in Hin; exact Hin).
        rewrite (filter_key_c p a1 N2 HND2 Hc2 Hp).
        unfold jr_ofc, jr_of. rewrite (lookup_nodup p a1 N1 HND1 Hin).
        destruct (lookup p N2) as [a2|]; reflexivity. }
      rewrite <- (G N1 (incl_refl N1)). apply flat_map_ext. intros r1.
      destruct (filter (key_eqb r1) (map (rowofc c al) N2)); reflexivity.
    - assert (G : forall l, incl l N2 ->
        map (fun r2 => JR (rpath r2) (nn al) (rvals r2) RightOnly)
          (filter (fun r2 => negb (existsb (fun r1 => key_eqb r1 r2) (map (rowofc c al) N1))) (map (rowofc c al) l))
        = map jr_ofc (filter (fun p => negb (in_paths p N1)) (map fst l))).
      { induction l as [|[q b] l IH]; intros Hincl; [reflexivity|].
        assert (Hin : In (q, b) N2) by (apply Hincl; left; reflexivity).
        assert (Hq : cpath c q) by (apply Hc2; apply (in_map fst) in Hin; exact Hin).
        assert (IH' := IH (fun e He => Hincl e (or_intror He))).
        cbn [map filter fst]. rewrite (existsb_key_c q b N1 Hc1 Hq).
        destruct (in_paths q N1) eqn:E; cbn [negb]; [exact IH'|].
        cbn [map]. rewrite IH'. f_equal. unfold jr_ofc, jr_of.
        assert (E1 : lookup q N1 = None).
        { apply lookup_none_iff. intros H. apply in_paths_iff in H. congruence. }
        rewrite E1, (lookup_nodup q b N2 HND2 Hin). reflexivity. }
      apply (G N2 (incl_refl N2)).
  Qed.

  Lemma jrc_path p : jpath (jr_ofc p) = path_name [c] p.
  Proof. reflexivity. Qed.

  Lemma jrc_left p : is_left (jind (jr_ofc p)) = mark_eqb (st p) MRem.
  Proof. apply (jr_left al N1 N2 p). Qed.

  Lemma jrc_right p : is_right (jind (jr_ofc p)) = mark_eqb (st p) MAdd.
  Proof. apply (jr_right al N1 N2 p). Qed.

  Definition rows0c : list jrow := map jr_ofc all.
  Definition removedc : list str := map jpath (filter (fun r => is_left (jind r)) rows0c).
  Definition addedc : list str := map jpath (filter (fun r => is_right (jind r)) rows0c).

  Lemma mem_removed_c q : cpath c q -> memstr (path_name [c] q) removedc = mark_eqb (st q) MRem.
  Proof.
    intros Hq. apply bool_eq_iff. rewrite memstr_in, mark_eqb_eq. unfold removedc, rows0c.
    rewrite in_map_iff. split.
    - intros [r [Hr Hin]]. apply filter_In in Hin as [Hin Hl]. apply in_map_iff in Hin as [p [<- Hp]].
      rewrite jrc_path in Hr. apply pnc_inj in Hr; [|apply all_c; exact Hp|exact Hq]. subst.
      rewrite jrc_left in Hl. apply mark_eqb_eq. exact Hl.
    - intros E. exists (jr_ofc q). split; [apply jrc_path|]. apply filter_In. split.
      + apply in_map. apply in_all. left. apply st_rem in E. apply E.
      + rewrite jrc_left, E. reflexivity.
  Qed.

  Lemma mem_added_c q : cpath c q -> memstr (path_name [c] q) addedc = mark_eqb (st q) MAdd.
  Proof.
    intros Hq. apply bool_eq_iff. rewrite memstr_in, mark_eqb_eq. unfold addedc, rows0c.
    rewrite in_map_iff. split.
    - intros [r [Hr Hin]]. apply filter_In in Hin as [Hin Hl]. apply in_map_iff in Hin as [p [<- Hp]].
      rewrite jrc_path in Hr. apply pnc_inj in Hr; [|apply all_c; exact Hp|exact Hq]. subst.
      rewrite jrc_right in Hl. apply mark_eqb_eq. exact Hl.
    - intros E. exists (jr_ofc q). split; [apply jrc_path|]. apply filter_In. split.
      + apply in_map. apply in_all. right. apply st_add in E. apply E.
      + rewrite jrc_right, E. reflexivity.
  Qed.

  Lemma mem_nil_paths_c f : memstr [] (map jpath (filter f rows0c)) = false.
  Proof.
    destruct (memstr [] (map jpath (filter f rows0c))) eqn:E; [|reflexivity].
    apply memstr_in in E. apply in_map_iff in E as [r [Hr Hin]]. apply filter_In in Hin as [Hin _].
    apply in_map_iff in Hin as [p [<- _]]. rewrite jrc_path in Hr. discriminate.
  Qed.

  (* --- the suffixing step: the same components as with "/" (DiffProofs.comps), joined with c ------- *)

  Notation comp1 := (comp1 al N1 N2).
  Notation comps := (comps al N1 N2).

  Definition mpc (q : list str) : str := path_name [c] (comps q).

  Lemma suffix_parts_abs_c : forall todo d,
    Forall (cfree c) (d ++ todo) ->
    suffix_parts [c] removedc addedc ([] :: d) todo = map (fun q => comp1 (d ++ q)) (inits todo).
  Proof.
    induction todo as [|x todo IH]; intros d HF; [reflexivity|].
    cbn [suffix_parts inits map]. f_equal.
    - assert (Hg : cpath c (d ++ [x])).
      { split; [destruct d; discriminate|]. apply Forall_app in HF as [Hd Hx].
        apply Forall_app. split; [exact Hd|]. inversion Hx; subst. constructor; [assumption|constructor]. }
      change (([] :: d) ++ [x]) with ([] :: (d ++ [x])).
      rewrite <- path_name_join by (destruct d; discriminate).
      rewrite mem_removed_c, mem_added_c by exact Hg.
      unfold DiffProofs.comp1, sfx1. rewrite last_last.
      destruct (st (d ++ [x])); cbn [mark_eqb]; try reflexivity; rewrite app_nil_r; reflexivity.
    - change (([] :: d) ++ [x]) with ([] :: (d ++ [x])).
      rewrite IH by (rewrite <- app_assoc; exact HF).
      rewrite map_map. apply map_ext. intros q. rewrite <- app_assoc. reflexivity.
  Qed.

  Lemma comps_nonempty_c p : p <> [] -> comps p <> [].
  Proof. destruct p; [contradiction|]. intros _. cbn. discriminate. Qed.

  Lemma add_suffix_abs_c p : cpath c p -> add_suffix [c] removedc addedc (path_name [c] p) = mpc p.
  Proof.
    intros Hp. unfold add_suffix. rewrite split_path_name; [|apply Hp|apply Hp].
    cbn [suffix_parts app].
    change (join [c] [[]]) with (@nil N).
    unfold removedc at 1, addedc at 1. rewrite !mem_nil_paths_c.
    unfold mpc. rewrite path_name_join by (apply comps_nonempty_c, Hp).
    f_equal. f_equal. apply (suffix_parts_abs_c p []). apply Hp.
  Qed.

  Definition jr_markedc (p : list str) : jrow := set_path (jr_of al N1 N2 p) (mpc p).

  Lemma marked_rows_abs_c :
    map (fun r => set_path r (add_suffix [c] removedc addedc (jpath r))) rows0c = map jr_markedc all.
  Proof.
    unfold rows0c. rewrite map_map. apply map_ext_in. intros p Hp.
    rewrite jrc_path, add_suffix_abs_c by (apply all_c; exact Hp). reflexivity.
  Qed.

  (* --- attribute changes ---------------------------------------------------------------------------- *)

  Definition to_changec (e : list str * (str * (val * val))) : change := (mpc (fst e), snd e).

  Lemma changes_for_abs_c pre a post :
    al = pre ++ a :: post ->
    changes_for (length pre) a (map jr_markedc all) = map to_changec (flat_map (ch_of N1 N2 a) all).
  Proof.
    intros Eal. unfold changes_for. generalize all. intros l.
    induction l as [|p l IH]; [reflexivity|].
    cbn [map flat_map]. rewrite map_app, <- IH. f_equal.
    unfold jr_markedc, jr_of, ch_of, set_path.
    destruct (lookup p N1) as [a1|], (lookup p N2) as [a2|]; cbn [jx jy jind jpath is_both].
    - unfold vals. rewrite Eal, !nth_map_mid. rewrite cond_simpl, andb_true_r.
      change (get_attr a a1) with (attr_val a a1). change (get_attr a a2) with (attr_val a a2).
      destruct (val_eqb (attr_val a a1) (attr_val a a2)); reflexivity.
    - rewrite andb_false_r. reflexivity.
    - rewrite andb_false_r. reflexivity.
    - rewrite !nth_nn. reflexivity.
  Qed.

  Lemma changes_from_abs_c : forall post pre,
    al = pre ++ post ->
    changes_from (length pre) post (map jr_markedc all)
    = map to_changec (flat_map (fun a => flat_map (ch_of N1 N2 a) all) post).
  Proof.
    induction post as [|a post IH]; intros pre Eal; [reflexivity|].
    cbn [changes_from flat_map]. rewrite map_app.
    rewrite (changes_for_abs_c pre a post Eal). f_equal.
    replace (S (length pre)) with (length (pre ++ [a])) by (rewrite app_length; cbn; lia).
    apply IH. rewrite <- app_assoc. exact Eal.
  Qed.

  Lemma changes_abs_c : changes_from 0 al (map jr_markedc all) = map to_changec (chsA al N1 N2).
  Proof. apply (changes_from_abs_c al []). reflexivity. Qed.

  Definition chpathsc : list str := map fst (map to_changec (chsA al N1 N2)).

  Lemma mpc_both p : In p all -> st p = MSame \/ st p = MChg -> mpc p = path_name [c] p.
  Proof.
    intros Hp Hs. destruct (st_both al N1 N2 p Hp Hs) as [H1 H2]. unfold mpc.
    rewrite (comps_both al N1 N2 Hpc1 Hpc2 p H1 H2). reflexivity.
  Qed.

  Lemma in_chpathsc_changed p : In p all -> st p = MChg -> In (mpc p) chpathsc.
  Proof.
    intros Hp E. destruct (changed_in_chsA al N1 N2 p Hp E) as [kv Hin].
    unfold chpathsc. rewrite map_map. apply in_map_iff. exists (p, kv). split; [reflexivity|exact Hin].
  Qed.

  Lemma in_chpathsc_inv s : In s chpathsc -> exists p, In p all /\ st p = MChg /\ s = mpc p.
  Proof.
    unfold chpathsc. rewrite map_map. intros H. apply in_map_iff in H as [e [<- He]].
    destruct (chsA_changed al N1 N2 e He) as [Hp Hs]. exists (fst e). auto.
  Qed.

  Lemma keep_row_abs_c od p :
    In p all -> keep_row od chpathsc (jr_markedc p) = negb od || marked al N1 N2 p.
  Proof.
    intros Hp. unfold keep_row, jr_markedc, set_path, marked. cbn [jind jpath]. rewrite jr_both.
    rewrite <- orb_assoc. f_equal.
    destruct (st p) eqn:E; cbn [mark_eqb negb andb orb]; try reflexivity.
    - (* MSame *) destruct (memstr (mpc p) chpathsc) eqn:M; [|reflexivity]. exfalso.
      apply memstr_in in M. apply in_chpathsc_inv in M as [p' [Hp' [Hs' Em]]].
      rewrite (mpc_both p Hp (or_introl E)), (mpc_both p' Hp' (or_intror Hs')) in Em.
      apply pnc_inj in Em; [|apply all_c; exact Hp|apply all_c; exact Hp']. subst. congruence.
    - (* MChg *) apply memstr_in. apply in_chpathsc_changed; assumption.
  Qed.

  Lemma kept_rows_abs_c od :
    map jpath (filter (keep_row od chpathsc) (map jr_markedc all)) = map mpc (keptM al N1 N2 od).
  Proof.
    unfold keptM. assert (G : forall l, incl l all ->
      map jpath (filter (keep_row od chpathsc) (map jr_markedc l))
      = map mpc (filter (fun p => negb od || marked al N1 N2 p) l)).
    { induction l as [|p l IH]; intros Hincl; [reflexivity|].
      assert (IH' := IH (fun e He => Hincl e (or_intror He))).
      cbn [map filter]. rewrite keep_row_abs_c by (apply Hincl; left; reflexivity).
      destruct (negb od || marked al N1 N2 p); [|exact IH'].
      cbn [map]. rewrite IH'. reflexivity. }
    apply G. apply incl_refl.
  Qed.
End MainC.

(* ================================================================================================ *)
(* 3. on trees: kept_paths for every one-character separator, from the two path sets                   *)

Lemma name_ok_c_slash c n : name_ok [c] n = true -> name_ok slash n = true.
Proof.
  unfold name_ok. intros H. apply andb_true_iff in H as [H H3]. apply andb_true_iff in H as [H1 H2].
  unfold slash. rewrite H1, H3. reflexivity.
Qed.

Lemma forallb_impl {A} (f g : A -> bool) (l : list A) :
  (forall x, f x = true -> g x = true) -> forallb f l = true -> forallb g l = true.
Proof.
  intros Hfg H. rewrite forallb_forall in *. intros x Hx. apply Hfg, H, Hx.
Qed.

Lemma domain_c_parts c t1 t2 al :
  domain_C15 [c] t1 t2 al = true ->
  forallb (name_ok [c]) (all_names t1) = true /\ forallb (name_ok [c]) (all_names t2) = true /\
  domain_C15 slash t1 t2 al = true.
Proof.
  unfold domain_C15. intros H.
  apply andb_true_iff in H as [H Hal]. apply andb_true_iff in H as [H Hs2].
  apply andb_true_iff in H as [H Hs1]. apply andb_true_iff in H as [H Hn2].
  apply andb_true_iff in H as [H Hn1]. apply andb_true_iff in H as [_ Hrt].
  split; [exact Hn1|]. split; [exact Hn2|].
  rewrite Hrt, Hs1, Hs2, Hal.
  rewrite (forallb_impl _ _ _ (name_ok_c_slash c) Hn1), (forallb_impl _ _ _ (name_ok_c_slash c) Hn2).
  reflexivity.
Qed.

Lemma paths_c c t p :
  forallb (name_ok [c]) (all_names t) = true -> In p (map fst (nodes_of t)) -> cpath c p.
Proof.
  intros Hall Hp. split.
  - destruct (nodes_from_form t [] p Hp) as [r ->]. discriminate.
  - apply Forall_forall. intros x Hx. apply (name_ok_sep c x).
    rewrite forallb_forall in Hall. apply Hall. eapply nodes_of_names; eassumption.
Qed.

Section TreesC.
  Variables (c : N) (t1 t2 : tree) (al : list str).
  Hypothesis Hdom : domain_C15 [c] t1 t2 al = true.

  Notation N1 := (nodes_of t1).
  Notation N2 := (nodes_of t2).

  Lemma C_slash : domain_C15 slash t1 t2 al = true.
  Proof. apply (domain_c_parts c t1 t2 al Hdom). Qed.
  Lemma C_c1 : forall p, In p (map fst N1) -> cpath c p.
  Proof. intros p. apply paths_c. apply (domain_c_parts c t1 t2 al Hdom). Qed.
  Lemma C_c2 : forall p, In p (map fst N2) -> cpath c p.
  Proof. intros p. apply paths_c. apply (domain_c_parts c t1 t2 al Hdom). Qed.

  Lemma marked_rows_trees_c :
    marked_rows [c] al t1 t2 = map (jr_markedc c al N1 N2) (all_paths N1 N2).
  Proof.
    unfold marked_rows. rewrite !table_nodes_c.
    change (map (fun _ : str => VNone) al) with (nn al).
    rewrite (merge_abs_c c al N1 N2 (T_HND1 t1 t2 al C_slash) (T_HND2 t1 t2 al C_slash) C_c1 C_c2).
    apply (marked_rows_abs_c c al N1 N2 C_c1 C_c2).
  Qed.

  (* the marked path strings handed to dataframe_to_tree, computed from the two path sets *)
  Theorem kept_paths_spec od :
    kept_paths [c] t1 t2 od al = map (mpc c al N1 N2) (keptM al N1 N2 od).
  Proof.
    unfold kept_paths. rewrite marked_rows_trees_c. rewrite changes_abs_c.
    apply (kept_rows_abs_c c al N1 N2 C_c1 C_c2 (T_pc1 t1) (T_pc2 t2)).
  Qed.
End TreesC.

(* what mpc and keptM are, without the vocabulary of the proofs *)
Lemma mpc_meaning c al N1 N2 p :
  mpc c al N1 N2 p
  = path_name [c] (map (fun q => last q [] ++ mark_suffix (match status al N1 N2 q with
                                                          | MRem => MRem | MAdd => MAdd | _ => MSame end))
                       (inits p)).
Proof.
  unfold mpc, comps. f_equal. apply map_ext. intros q. rewrite comp1_mark. reflexivity.
Qed.

Lemma keptM_meaning al N1 N2 od :
  keptM al N1 N2 od = filter (fun p => negb od || negb (mark_eqb (status al N1 N2 p) MSame)) (all_paths N1 N2).
Proof. reflexivity. Qed.

(* ================================================================================================ *)
(* 4. None iff nothing is kept, for every one-character separator and without lookalike_free          *)

Lemma diff_of_rows_none sep rows od al :
  diff_of_rows sep rows od al = Ret None <->
  map jpath (filter (keep_row od (map fst (changes_from 0 al rows))) rows) = [].
Proof.
  unfold diff_of_rows.
  destruct (map jpath (filter (keep_row od (map fst (changes_from 0 al rows))) rows)) as [|k0 K] eqn:EK.
  - split; reflexivity.
  - split; [|discriminate].
    destruct (rebuild (k0 :: K)) as [[root nodes]|e]; [|discriminate].
    destruct (apply_changes root nodes [] (changes_from 0 al rows)) as [[nodes1 st1]|e]; [|discriminate].
    destruct (apply_renames sep root nodes1 [] _) as [[nodes2 rs]|e]; discriminate.
Qed.

Lemma keptM_nil_iff al N1 N2 od :
  keptM al N1 N2 od = [] <-> filter (kept al N1 N2 od) (all_paths N1 N2) = [].
Proof.
  split; [apply kept_empty|]. intros F.
  destruct (keptM al N1 N2 od) as [|p K] eqn:EK; [reflexivity|]. exfalso.
  assert (Hp : In p (keptM al N1 N2 od)) by (rewrite EK; left; reflexivity).
  apply keptM_in in Hp as [Hp Hk].
  assert (Hin : In p (filter (kept al N1 N2 od) (all_paths N1 N2))).
  { apply filter_In. split; [exact Hp|]. destruct Hk as [->|Hm]; [reflexivity|].
    apply kept_marked; [exact Hp|]. intros E. unfold marked in Hm. rewrite E in Hm. discriminate. }
  rewrite F in Hin. contradiction.
Qed.

Lemma keptM_nil_meaning al N1 N2 od :
  all_paths N1 N2 <> [] ->
  (keptM al N1 N2 od = [] <-> od = true /\ forall p, In p (all_paths N1 N2) -> status al N1 N2 p = MSame).
Proof.
  intros Hne. split.
  - intros E. assert (Hno : forall p, ~ In p (keptM al N1 N2 od)) by (intros p Hp; rewrite E in Hp; exact Hp).
    split.
    + destruct od; [reflexivity|]. exfalso. destruct (all_paths N1 N2) as [|p l] eqn:Ea; [contradiction|].
      apply (Hno p). apply keptM_in. split; [rewrite Ea; left; reflexivity|left; reflexivity].
    + intros p Hp. destruct (status al N1 N2 p) eqn:Es; try reflexivity; exfalso; apply (Hno p); apply keptM_in;
        (split; [exact Hp|right; unfold marked; rewrite Es; reflexivity]).
  - intros [-> Hall]. destruct (keptM al N1 N2 true) as [|p K] eqn:EK; [reflexivity|]. exfalso.
    assert (Hp : In p (keptM al N1 N2 true)) by (rewrite EK; left; reflexivity).
    apply keptM_in in Hp as [Hp [Hf|Hm]]; [discriminate|]. unfold marked in Hm. rewrite (Hall p Hp) in Hm. discriminate.
Qed.

Theorem none_iff_nothing_kept c t1 t2 od al :
  domain_C15 [c] t1 t2 al = true ->
  (get_tree_diff [c] t1 t2 od al = Ret None <-> keptM al (nodes_of t1) (nodes_of t2) od = []).
Proof.
  intros Hdom. unfold get_tree_diff. rewrite diff_of_rows_none.
  fold (kept_paths [c] t1 t2 od al). rewrite (kept_paths_spec c t1 t2 al Hdom od).
  split; [apply map_eq_nil|intros ->; reflexivity].
Qed.

Theorem none_iff_nothing_marked c t1 t2 od al :
  domain_C15 [c] t1 t2 al = true ->
  (get_tree_diff [c] t1 t2 od al = Ret None <->
   od = true /\ forall p, In p (map fst (nodes_of t1)) \/ In p (map fst (nodes_of t2)) ->
                          status al (nodes_of t1) (nodes_of t2) p = MSame).
Proof.
  intros Hdom. rewrite (none_iff_nothing_kept c t1 t2 od al Hdom). rewrite keptM_nil_meaning.
  - split; intros [Ho H]; (split; [exact Ho|]); intros p Hp; apply H; apply in_all; exact Hp.
  - intros E. pose proof (nodes_of_root t1) as Hr.
    assert (Hin : In [tname t1] (all_paths (nodes_of t1) (nodes_of t2))) by (apply in_all; left; exact Hr).
    rewrite E in Hin. contradiction.
Qed.

(* identical trees yield None: C15_identical_none without the guard lookalike_free and for every
   one-character separator *)
Theorem identical_none_any_sep c t1 t2 al :
  domain_C15 [c] t1 t2 al = true ->
  (forall p, In p (map fst (nodes_of t1)) <-> In p (map fst (nodes_of t2))) ->
  (forall p a1 a2, In (p, a1) (nodes_of t1) -> In (p, a2) (nodes_of t2) -> diff_attrs al a1 a2 = []) ->
  get_tree_diff [c] t1 t2 true al = Ret None.
Proof.
  intros Hdom Hsame Hattrs. apply (none_iff_nothing_marked c t1 t2 true al Hdom). split; [reflexivity|].
  intros p Hp. pose proof (C_slash c t1 t2 al Hdom) as Hs.
  apply (st_same_iff al _ _ (T_HND1 t1 t2 al Hs) (T_HND2 t1 t2 al Hs) p); [apply in_all; exact Hp|].
  split; [|split].
  - destruct Hp as [Hp|Hp]; [exact Hp|apply Hsame; exact Hp].
  - destruct Hp as [Hp|Hp]; [apply Hsame; exact Hp|exact Hp].
  - intros a1 a2. apply Hattrs.
Qed.

Theorem same_tree_none_any_sep c t al :
  domain_C15 [c] t t al = true -> get_tree_diff [c] t t true al = Ret None.
Proof.
  intros Hdom. apply identical_none_any_sep; [exact Hdom|intros p; tauto|].
  intros p a1 a2 H1 H2. pose proof (T_HND1 t t al (C_slash c t t al Hdom)) as Hnd.
  apply (lookup_nodup p a1 _ Hnd) in H1. apply (lookup_nodup p a2 _ Hnd) in H2.
  rewrite H1 in H2. inversion H2; subst. apply diff_attrs_same.
Qed.

(* ================================================================================================ *)
(* 5. separators other than "/": TreeError and the property predicate, from the two path sets         *)

Theorem sep_refused_paths c t1 t2 od al :
  c <> 47%N -> domain_C15 [c] t1 t2 al = true ->
  (get_tree_diff [c] t1 t2 od al = Raise TreeError <->
   exists p q, In p (keptM al (nodes_of t1) (nodes_of t2) od) /\ In q (keptM al (nodes_of t1) (nodes_of t2) od) /\
               mpc c al (nodes_of t1) (nodes_of t2) p <> mpc c al (nodes_of t1) (nodes_of t2) q).
Proof.
  intros Hc Hdom. destruct (sep_refused_iff c t1 t2 od al Hc Hdom) as [H _]. rewrite H.
  rewrite (kept_paths_spec c t1 t2 al Hdom od). split.
  - intros [s [s' [Hs [Hs' Hne]]]]. apply in_map_iff in Hs as [p [<- Hp]]. apply in_map_iff in Hs' as [q [<- Hq]].
    exists p, q. auto.
  - intros [p [q [Hp [Hq Hne]]]]. exists (mpc c al (nodes_of t1) (nodes_of t2) p), (mpc c al (nodes_of t1) (nodes_of t2) q).
    split; [apply in_map; exact Hp|]. split; [apply in_map; exact Hq|exact Hne].
Qed.

(* the separator does not occur in the two structural markers " (-)" and " (+)" *)
Definition sep_plain (c : N) : Prop := ~ In c [32; 40; 41; 43; 45]%N.

Lemma comps_cfree c al N1 N2 p :
  sep_plain c -> Forall (cfree c) p -> Forall (cfree c) (comps al N1 N2 p).
Proof.
  intros Hc HF. unfold comps. apply Forall_forall. intros s Hs. apply in_map_iff in Hs as [q [<- Hq]].
  rewrite comp1_mark. apply in_inits in Hq as [Hne [r E]].
  assert (Hl : cfree c (last q [])).
  { rewrite Forall_forall in HF. apply HF. subst p. apply in_or_app. left. apply last_in. exact Hne. }
  intros Hin. apply in_app_or in Hin as [Hin|Hin]; [exact (Hl Hin)|].
  apply Hc. unfold m1 in Hin. destruct (status al N1 N2 q); cbn in Hin; cbn; tauto.
Qed.

Lemma mpc_inj c t1 t2 al :
  sep_plain c -> domain_C15 [c] t1 t2 al = true -> lookalike_free t1 t2 = true ->
  forall p q, In p (all_paths (nodes_of t1) (nodes_of t2)) -> In q (all_paths (nodes_of t1) (nodes_of t2)) ->
              mpc c al (nodes_of t1) (nodes_of t2) p = mpc c al (nodes_of t1) (nodes_of t2) q -> p = q.
Proof.
  intros Hc Hdom Hlook p q Hp Hq E.
  pose proof (all_c c _ _ (C_c1 c t1 t2 al Hdom) (C_c2 c t1 t2 al Hdom) p Hp) as [Hpn Hpf].
  pose proof (all_c c _ _ (C_c1 c t1 t2 al Hdom) (C_c2 c t1 t2 al Hdom) q Hq) as [Hqn Hqf].
  unfold mpc in E. apply path_name_inj in E.
  - apply (comps_inj al _ _ (T_look t1 t2 Hlook) p q Hp Hq E).
  - apply comps_nonempty_c. exact Hpn.
  - apply comps_nonempty_c. exact Hqn.
  - apply comps_cfree; assumption.
  - apply comps_cfree; assumption.
Qed.

(* for a separator outside " ()+-" and names that do not end in a marker: TreeError iff at least two nodes are kept *)
Theorem sep_refused_two_nodes c t1 t2 od al :
  c <> 47%N -> sep_plain c -> domain_C15 [c] t1 t2 al = true -> lookalike_free t1 t2 = true ->
  (get_tree_diff [c] t1 t2 od al = Raise TreeError <->
   exists p q, In p (keptM al (nodes_of t1) (nodes_of t2) od) /\ In q (keptM al (nodes_of t1) (nodes_of t2) od) /\ p <> q).
Proof.
  intros Hc Hpl Hdom Hlook. rewrite (sep_refused_paths c t1 t2 od al Hc Hdom).
  split; intros [p [q [Hp [Hq Hne]]]]; exists p, q; (split; [exact Hp|]); (split; [exact Hq|]).
  - intros ->. apply Hne. reflexivity.
  - intros E. apply Hne. apply keptM_in in Hp as [Hp _]. apply keptM_in in Hq as [Hq _].
    apply (mpc_inj c t1 t2 al Hpl Hdom Hlook p q Hp Hq E).
Qed.

(* every node of a returned tree has a path that starts with "/" (the rebuilt tree's separator) *)
Lemma result_paths_slash sep rows od al l :
  diff_of_rows sep rows od al = Ret (Some l) -> forall n, In n l -> exists s, fst n = 47%N :: s.
Proof.
  unfold diff_of_rows.
  destruct (map jpath (filter (keep_row od (map fst (changes_from 0 al rows))) rows)) as [|k0 K]; [discriminate|].
  destruct (rebuild (k0 :: K)) as [[root nodes]|e]; [|discriminate].
  destruct (apply_changes root nodes [] (changes_from 0 al rows)) as [[nodes1 st1]|e]; [|discriminate].
  destruct (apply_renames sep root nodes1 [] _) as [[nodes2 rs]|e]; [|discriminate].
  intros H. inversion H; subst. intros n Hn. apply in_map_iff in Hn as [q [<- _]].
  cbn [fst]. unfold final_path, path_name, slash. cbn [app]. eexists. reflexivity.
Qed.

Lemma expected_paths_c c al N1 N2 od n :
  In n (expected [c] al N1 N2 od) -> exists s, fst n = c :: s.
Proof.
  unfold expected. intros H. apply in_map_iff in H as [p [<- _]]. cbn [fst]. unfold shown_path. cbn [app].
  eexists. reflexivity.
Qed.

Lemma remove_first_some {A} (eqb : A -> A -> bool) x : forall l l',
  remove_first eqb x l = Some l' -> exists y, In y l /\ eqb x y = true.
Proof.
  induction l as [|y l IH]; intros l' H; [discriminate|]. cbn [remove_first] in H.
  destruct (eqb x y) eqn:E.
  - exists y. split; [left; reflexivity|exact E].
  - destruct (remove_first eqb x l) as [t'|] eqn:R; [|discriminate].
    destruct (IH t' eq_refl) as [z [Hz Ez]]. exists z. split; [right; exact Hz|exact Ez].
Qed.

Lemma ms_eqb_first_chars (l e : list PC15.onode) a b :
  a <> b -> e <> [] ->
  (forall n, In n l -> exists s, fst n = a :: s) -> (forall n, In n e -> exists s, fst n = b :: s) ->
  ms_eqb onode_eqb l e = false.
Proof.
  intros Hab He Hl Hee. destruct l as [|x l].
  - destruct e; [contradiction|reflexivity].
  - cbn [ms_eqb]. destruct (remove_first onode_eqb x e) as [e'|] eqn:R; [|reflexivity]. exfalso.
    destruct (remove_first_some onode_eqb x e e' R) as [y [Hy E]].
    unfold onode_eqb in E. apply andb_true_iff in E as [E _]. apply str_eqb_eq in E.
    destruct (Hl x (or_introl eq_refl)) as [s1 E1]. destruct (Hee y Hy) as [s2 E2].
    rewrite E1, E2 in E. inversion E. contradiction.
Qed.

(* K4-C15, exactly: with a one-character separator other than "/" the property predicate holds of the model's
   answer iff there is nothing to report *)
Theorem other_sep_prop_iff c t1 t2 od al :
  c <> 47%N -> domain_C15 [c] t1 t2 al = true ->
  (prop_C15 [c] t1 t2 od al (obs_of_res (get_tree_diff [c] t1 t2 od al)) = true <->
   od = true /\ forall p, In p (map fst (nodes_of t1)) \/ In p (map fst (nodes_of t2)) ->
                          status al (nodes_of t1) (nodes_of t2) p = MSame).
Proof.
  intros Hc Hdom. rewrite <- (none_iff_nothing_marked c t1 t2 od al Hdom).
  pose proof (none_iff_nothing_kept c t1 t2 od al Hdom) as HN.
  destruct (get_tree_diff [c] t1 t2 od al) as [[l|]|e] eqn:E; cbn [obs_of_res]; unfold prop_C15.
  - split; [|discriminate]. intros H. exfalso.
    destruct (expected [c] al (nodes_of t1) (nodes_of t2) od) as [|e0 es] eqn:Ee; [discriminate|].
    rewrite <- Ee in H.
    rewrite (ms_eqb_first_chars l (expected [c] al (nodes_of t1) (nodes_of t2) od) 47%N c) in H.
    + discriminate.
    + intros Hx. apply Hc. symmetry. exact Hx.
    + rewrite Ee. discriminate.
    + apply (result_paths_slash [c] (marked_rows [c] al t1 t2) od al l E).
    + intros n. apply expected_paths_c.
  - split; [reflexivity|]. intros _.
    assert (Hk : keptM al (nodes_of t1) (nodes_of t2) od = []) by (apply HN; reflexivity).
    apply keptM_nil_iff in Hk. unfold expected. rewrite Hk. reflexivity.
  - split; discriminate.
Qed.

(* ... and with a separator inside the markers two different kept nodes can be rendered by the same string:
   separator "(", removed node b next to the common path "b " / "-)" whose attribute x changed *)
Definition wit_t1 : tree :=
  T None [114%N] [] [T None [98%N] [] []; T None [98; 32]%N [] [T None [45; 41]%N [([120%N], VInt 1)] []]].
Definition wit_t2 : tree :=
  T None [114%N] [] [T None [98; 32]%N [] [T None [45; 41]%N [([120%N], VInt 2)] []]].

(* ================================================================================================ *)
(* 6. every separator that does not start with "/" (multi-character separators included): the predicate
      can hold of the model's answer only if the answer is None and there is nothing to report          *)

Lemma expected_paths_sep c s al N1 N2 od n :
  In n (expected (c :: s) al N1 N2 od) -> exists s', fst n = c :: s'.
Proof.
  unfold expected. intros H. apply in_map_iff in H as [p [<- _]]. cbn [fst]. unfold shown_path. cbn [app].
  eexists. reflexivity.
Qed.

Theorem any_sep_prop_only_none c s t1 t2 od al :
  c <> 47%N ->
  prop_C15 (c :: s) t1 t2 od al (obs_of_res (get_tree_diff (c :: s) t1 t2 od al)) = true ->
  get_tree_diff (c :: s) t1 t2 od al = Ret None /\ expected (c :: s) al (nodes_of t1) (nodes_of t2) od = [].
Proof.
  intros Hc. destruct (get_tree_diff (c :: s) t1 t2 od al) as [[l|]|e] eqn:E; cbn [obs_of_res]; unfold prop_C15.
  - intros H. exfalso.
    destruct (expected (c :: s) al (nodes_of t1) (nodes_of t2) od) as [|e0 es] eqn:Ee; [discriminate|].
    rewrite <- Ee in H.
    rewrite (ms_eqb_first_chars l (expected (c :: s) al (nodes_of t1) (nodes_of t2) od) 47%N c) in H.
    + discriminate.
    + intros Hx. apply Hc. symmetry. exact Hx.
    + rewrite Ee. discriminate.
    + apply (result_paths_slash (c :: s) (marked_rows (c :: s) al t1 t2) od al l E).
    + intros n. apply expected_paths_sep.
  - intros H. split; [reflexivity|].
    destruct (expected (c :: s) al (nodes_of t1) (nodes_of t2) od); [reflexivity|discriminate].
  - discriminate.
Qed.

(* without only_diff there is always something to report (the root), so the predicate is false *)
Theorem any_sep_all_nodes_refused c s t1 t2 al :
  c <> 47%N ->
  prop_C15 (c :: s) t1 t2 false al (obs_of_res (get_tree_diff (c :: s) t1 t2 false al)) = false.
Proof.
  intros Hc.
  destruct (prop_C15 (c :: s) t1 t2 false al (obs_of_res (get_tree_diff (c :: s) t1 t2 false al))) eqn:P; [|reflexivity].
  exfalso. destruct (any_sep_prop_only_none c s t1 t2 false al Hc P) as [_ He].
  unfold expected in He. apply map_eq_nil in He.
  assert (Hin : In [tname t1] (filter (kept al (nodes_of t1) (nodes_of t2) false) (all_paths (nodes_of t1) (nodes_of t2)))).
  { apply filter_In. split; [apply in_all; left; apply nodes_of_root|reflexivity]. }
  rewrite He in Hin. contradiction.
Qed.
