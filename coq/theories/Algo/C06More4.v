(* C06, textual half, fourth round: Newick attribute KEYS containing the quote character (and any other
   control character), the last name class of the bracketed attribute list that was kept out.

   tree_to_newick writes every key with _serialize, like names and values: a key with a control character is
   put between quotes and every ' inside is rewritten to the double quote.  newick_to_tree, in state
   PARSE_ATTRIBUTE_NAME, reads the text up to the next quote.  Hence
     run_token_key_q : for EVERY string k (no guard) the parser standing in front of `serialize k` with nothing
                       accumulated ends with `requote k` accumulated;
     items_run_any   : the whole text between the brackets, for ANY keys and ANY string values, is read as the
                       successive __dict__.update of (requote key, requote value) -- the only hypothesis is that
                       the rewritten key is a key the parser stores as an ordinary attribute (non-empty, not
                       _private, not "name": `reserved_key (requote k) = false`).  No distinctness hypothesis:
                       two keys that become equal after rewriting (k + quote and k + double quote) OVERWRITE each other, which is
                       what `set_all` says;
     items_run_kq    : with the rewritten keys pairwise distinct and new, the attributes are appended in order
                       (the form of items_run_q, now without `key_ok`);
     attr_write_read_any : writer and reader composed on one node's attribute list. *)
From BT Require Import Base.Prelude Base.Str Base.Rose Algo.TextIO Spec.PC06Text Algo.TextIOProofs Algo.C06More2.

Local Open Scope N_scope.

(* ------------------------------------------------------------------------------------------ *)
(* one key token, every string                                                                 *)

Lemma run_token_key_q la pf x rest ab cu be d ctr st has val :
  not_val st ->
  nw_run la pf (serialize x ++ rest) (mkP ab cu be d ctr st has [] val 0)
  = nw_run la pf rest (mkP ab cu be d ctr st has (requote x) val 0).
Proof.
  intros Hst. unfold serialize. destruct (has_special x) eqn:Hs.
  - pose proof (requote_no_quote x) as Hq.
    replace ((39 :: requote x ++ [39]) ++ rest) with (39 :: (requote x ++ [39]) ++ rest) by reflexivity.
    cbn [nw_run p_skip]. unfold nw_step. cbv beta iota. cbn [N.eqb Pos.eqb orb].
    rewrite <- app_assoc. cbn [app]. rewrite (find_quote_app (requote x) rest Hq).
    replace (requote x ++ 39 :: rest) with ((requote x ++ [39]) ++ rest) by (rewrite <- app_assoc; reflexivity).
    replace (S (length (requote x))) with (length (requote x ++ [39])) by (rewrite app_length; cbn; lia).
    destruct st; [| |contradiction]; cbn [is_nil negb]; rewrite run_skip; reflexivity.
  - rewrite (requote_id x (no_special_no_quote x Hs)).
    rewrite run_chars_cum by assumption. reflexivity.
Qed.

(* ------------------------------------------------------------------------------------------ *)
(* the attribute list between the brackets, any keys and values                                *)

(* keys AND values rewritten *)
Definition rqk_kvs (kvs : list (str * str)) : list (str * str) :=
  map (fun kv => (requote (fst kv), requote (snd kv))) kvs.

(* successive node.set_attrs({k: v}) *)
Definition set_all (kvs : list (str * str)) (a : attrs) : attrs :=
  fold_left (fun a kv => set_attr (fst kv) (VStr (snd kv)) a) kvs a.

(* the rewritten key is stored as an ordinary attribute *)
Definition key_storable (kv : str * str) : Prop := reserved_key (requote (fst kv)) = false.

Lemma storable_nonempty k : reserved_key (requote k) = false -> requote k <> [].
Proof. destruct k; [discriminate|discriminate]. Qed.

Lemma items_run_any la pf kvs : forall rest cu be d ctr g n a0 ab,
  kvs <> [] -> Forall key_storable kvs ->
  nw_run la pf (join [58] (map item kvs) ++ 93 :: rest)
         (mkP [] (cu ++ [T g n a0 ab]) be d ctr PName true [] [] 0)
  = nw_run la pf rest (mkP [] (cu ++ [T g n (set_all (rqk_kvs kvs) a0) ab]) be d ctr PStr true [] [] 0).
Proof.
  induction kvs as [|[k s] kvs IH]; intros rest cu be d ctr g n a0 ab Hne Hok; [contradiction|].
  inversion Hok as [|? ? Hk Hoks]; subst. unfold key_storable in Hk. cbn [fst] in Hk.
  pose proof (storable_nonempty k Hk) as Hkne.
  assert (Hset : set_last_attr (requote k) (VStr (requote s)) (cu ++ [T g n a0 ab])
                 = Ret (cu ++ [T g n (set_attr (requote k) (VStr (requote s)) a0) ab])).
  { unfold set_last_attr. rewrite Hk. rewrite on_last_app. reflexivity. }
  destruct kvs as [|kv2 kvs].
  - cbn [map join]. unfold item. cbn [fst snd]. rewrite <- !app_assoc.
    rewrite (run_token_key_q la pf k _ [] _ be d ctr PName true [] I).
    cbn [app nw_run p_skip]. unfold nw_step at 1. cbv beta iota. cbn [N.eqb Pos.eqb orb negb].
    destruct (requote k) as [|c0 k0] eqn:Ek; [contradiction|]. cbn [is_nil negb].
    rewrite (run_token_val_q la pf s _ [] _ be d ctr true (c0 :: k0)).
    cbn [nw_run p_skip]. unfold nw_step at 1. cbv beta iota. cbn [N.eqb Pos.eqb orb negb].
    rewrite Hset. unfold set_all, rqk_kvs. cbn [map fold_left fst snd]. rewrite Ek. reflexivity.
  - change (map item ((k, s) :: kv2 :: kvs)) with (item (k, s) :: map item (kv2 :: kvs)).
    change (join [58] (item (k, s) :: map item (kv2 :: kvs)))
      with (item (k, s) ++ [58] ++ join [58] (map item (kv2 :: kvs))).
    unfold item at 1. cbn [fst snd]. rewrite <- !app_assoc.
    rewrite (run_token_key_q la pf k _ [] _ be d ctr PName true [] I).
    cbn [app nw_run p_skip]. unfold nw_step at 1. cbv beta iota. cbn [N.eqb Pos.eqb orb negb].
    destruct (requote k) as [|c0 k0] eqn:Ek; [contradiction|]. cbn [is_nil negb].
    rewrite (run_token_val_q la pf s _ [] _ be d ctr true (c0 :: k0)).
    cbn [nw_run p_skip]. unfold nw_step at 1. cbv beta iota. cbn [N.eqb Pos.eqb orb negb].
    rewrite Hset.
    refine (eq_trans (IH rest cu be d ctr g n (set_attr (c0 :: k0) (VStr (requote s)) a0) ab
                         ltac:(discriminate) Hoks) _).
    unfold set_all, rqk_kvs. cbn [map fold_left fst snd]. rewrite Ek. reflexivity.
Qed.

(* with the rewritten keys pairwise distinct and new: appended in order *)
Lemma set_all_fresh kvs : forall a0, fresh_keys kvs a0 -> set_all kvs a0 = a0 ++ kv_attrs kvs.
Proof.
  induction kvs as [|[k s] kvs IH]; intros a0 H.
  - unfold set_all, kv_attrs. cbn. rewrite app_nil_r. reflexivity.
  - cbn [fresh_keys] in H. destruct H as [Hk Hr].
    unfold set_all. cbn [fold_left fst snd]. rewrite (set_attr_fresh k (VStr s) a0 Hk).
    fold (set_all kvs (a0 ++ [(k, VStr s)])). rewrite (IH _ Hr).
    unfold kv_attrs. cbn [map fst snd]. rewrite <- app_assoc. reflexivity.
Qed.

Lemma items_run_kq la pf kvs rest cu be d ctr g n a0 ab :
  kvs <> [] -> Forall key_storable kvs -> fresh_keys (rqk_kvs kvs) a0 ->
  nw_run la pf (join [58] (map item kvs) ++ 93 :: rest)
         (mkP [] (cu ++ [T g n a0 ab]) be d ctr PName true [] [] 0)
  = nw_run la pf rest (mkP [] (cu ++ [T g n (a0 ++ kv_attrs (rqk_kvs kvs)) ab]) be d ctr PStr true [] [] 0).
Proof.
  intros Hne Hok Hfr. rewrite (items_run_any la pf kvs rest cu be d ctr g n a0 ab Hne Hok).
  rewrite (set_all_fresh _ _ Hfr). reflexivity.
Qed.

(* the old guard is a special case: a key_ok key is storable and unchanged *)
Lemma key_ok_storable kv : key_ok (fst kv) = true -> key_storable kv /\ requote (fst kv) = fst kv.
Proof.
  intros H. destruct (key_ok_facts (fst kv) H) as (_ & Hq & Hr).
  unfold key_storable. rewrite (requote_id _ Hq). split; [exact Hr|reflexivity].
Qed.

(* a collision after rewriting: the later value wins, one attribute is left *)
Lemma set_all_collide k1 s1 k2 s2 :
  requote k1 = requote k2 ->
  set_all (rqk_kvs [(k1, s1); (k2, s2)]) [] = [(requote k2, VStr (requote s2))].
Proof.
  intros E. unfold set_all, rqk_kvs. cbn [map fold_left fst snd]. rewrite E.
  unfold set_attr at 2. cbn [existsb app].
  unfold set_attr. cbn [existsb map fst]. rewrite str_eqb_refl. cbn [orb]. reflexivity.
Qed.

(* ------------------------------------------------------------------------------------------ *)
(* writer and reader composed on one node's attribute list                                     *)

Theorem attr_write_read_any la pf ks a rest cu be d ctr g n a0 ab :
  vals_ok ks a -> kvs_on ks a <> [] -> Forall key_storable (kvs_on ks a) ->
  exists items,
    attr_items ks a = Ret items
    /\ nw_run la pf (join [58] items ++ 93 :: rest)
              (mkP [] (cu ++ [T g n a0 ab]) be d ctr PName true [] [] 0)
       = nw_run la pf rest
           (mkP [] (cu ++ [T g n (set_all (rqk_kvs (kvs_on ks a)) a0) ab]) be d ctr PStr true [] [] 0).
Proof.
  intros Hv Hne Hok. exists (map item (kvs_on ks a)). split; [apply attr_items_q; exact Hv|].
  apply items_run_any; assumption.
Qed.
