(* C05, the by-name entry points (add_dict_to_tree_by_name, add_dataframe_to_tree_by_name,
   add_polars_to_tree_by_name): the boolean predicate prop_C05 (= prop_byname of Spec/PC05.v), the one
   the correspondence check evaluates on every implementation output, holds of the model's own output,
   accepted and refused inputs alike, any start node.  Model: Algo/Construct.v; earlier proofs:
   Algo/ConstructProofs.v (section 19 by_name_exact etc.). *)
From BT Require Import Base.Prelude Base.Str Base.StrSep Base.Rose Algo.Construct Spec.PC05 Algo.ConstructProofs.

(* ======================================================================================== *)
(* 1. all_pos / pre / pre of the result in lock-step                                          *)

Definition go_pos :=
  fix go (i : nat) (l : list tree) : list pos :=
    match l with
    | [] => []
    | k :: r => map (cons i) (all_pos k) ++ go (S i) r
    end.

Lemma all_pos_unfold g n a ks : all_pos (T g n a ks) = [] :: go_pos 0 ks.
Proof. reflexivity. Qed.
Lemma go_pos_cons i k r : go_pos i (k :: r) = map (cons i) (all_pos k) ++ go_pos (S i) r.
Proof. reflexivity. Qed.

Lemma Forall2_map_left {A B C} (R : B -> C -> Prop) (f : A -> B) l m :
  Forall2 (fun x y => R (f x) y) l m -> Forall2 R (map f l) m.
Proof. intros H. induction H; cbn; constructor; auto. Qed.

Lemma all_pos_lockstep : forall t, Forall2 (fun q s => subtree_at t q = Some s) (all_pos t) (pre t).
Proof.
  induction t as [g n a ks IH] using tree_ind'.
  rewrite all_pos_unfold, pre_unfold. constructor; [reflexivity|].
  assert (G : forall r i,
             (forall j k, nth_error r j = Some k -> nth_error ks (i + j) = Some k) ->
             Forall (fun t => Forall2 (fun q s => subtree_at t q = Some s) (all_pos t) (pre t)) r ->
             Forall2 (fun q s => subtree_at (T g n a ks) q = Some s) (go_pos i r) (flat_map pre r)).
  { induction r as [|k r IHr]; intros i Hi HF; [constructor|].
    rewrite go_pos_cons. cbn [flat_map]. inversion HF as [|? ? Hk Hr]; subst.
    apply Forall2_app.
    - apply Forall2_map_left. pose proof (Hi 0 k eq_refl) as H0. rewrite Nat.add_0_r in H0.
      eapply Forall2_weaken; [|exact Hk]. intros q s Hq. cbn [subtree_at tkids]. now rewrite H0.
    - apply IHr; [|exact Hr]. intros j k' Hj. pose proof (Hi (S j) k' Hj) as H1.
      now rewrite Nat.add_succ_r in H1. }
  apply (G ks 0); [intros j k Hj; exact Hj|exact IH].
Qed.

Lemma Forall2_combine {A B C} (R1 : A -> B -> Prop) (R2 : A -> C -> Prop) l m1 m2 :
  Forall2 R1 l m1 -> Forall2 R2 l m2 ->
  Forall2 (fun x yz => R1 x (fst yz) /\ R2 x (snd yz)) l (combine m1 m2).
Proof.
  intros H1. revert m2. induction H1 as [|x y l m1 Hxy _ IH]; intros m2 H2; inversion H2; subst; cbn.
  - constructor.
  - constructor; [split; assumption|now apply IH].
Qed.

(* a per-position statement about two trees of the same shape lifts to the zipped pre-order lists *)
Lemma positions_lockstep (R : pos -> tree -> tree -> bool) t0 t' :
  all_pos t' = all_pos t0 ->
  (forall q s0 s', subtree_at t0 q = Some s0 -> subtree_at t' q = Some s' -> R q s0 s' = true) ->
  forallb2 (fun q (nds : tree * tree) => let (nd0, nd) := nds in R q nd0 nd)
           (all_pos t0) (combine (pre t0) (pre t')) = true.
Proof.
  intros Hs H.
  apply (Forall2_forallb2
           (fun q (yz : tree * tree) => subtree_at t0 q = Some (fst yz) /\ subtree_at t' q = Some (snd yz))).
  - apply (Forall2_combine (fun q s => subtree_at t0 q = Some s) (fun q s => subtree_at t' q = Some s));
      [apply all_pos_lockstep|rewrite <- Hs; apply all_pos_lockstep].
  - intros q [s0 s'] [H1 H2]. cbn [fst snd] in *. now apply H.
Qed.

(* ---- what upd_at / by_name_apply leave alone --------------------------------------------- *)

Lemma go_pos_map (f : tree -> tree) ks :
  Forall (fun k => all_pos (f k) = all_pos k) ks -> forall i, go_pos i (map f ks) = go_pos i ks.
Proof.
  induction 1 as [|k ks Hk _ IH]; intros i; [reflexivity|].
  cbn [map]. rewrite !go_pos_cons, Hk, IH. reflexivity.
Qed.

Lemma all_pos_by_name d : forall t, all_pos (by_name_apply d t) = all_pos t.
Proof.
  induction t as [g n a ks IH] using tree_ind'.
  rewrite by_name_apply_unfold, !all_pos_unfold. f_equal. now apply go_pos_map.
Qed.

Lemma go_pos_upd_nth (f : tree -> tree) :
  (forall k, all_pos (f k) = all_pos k) -> forall ks i j, go_pos i (upd_nth j f ks) = go_pos i ks.
Proof.
  intros E. induction ks as [|k ks IH]; intros i [|j]; cbn [upd_nth]; try reflexivity.
  - rewrite !go_pos_cons, E. reflexivity.
  - rewrite !go_pos_cons, IH. reflexivity.
Qed.

Lemma all_pos_upd_at f : (forall s, all_pos (f s) = all_pos s) ->
  forall p t, all_pos (upd_at p f t) = all_pos t.
Proof.
  intros E. induction p as [|i p IH]; intros t; [apply E|].
  destruct t as [g n a ks]. rewrite upd_at_cons, !all_pos_unfold. f_equal.
  now apply go_pos_upd_nth.
Qed.

Lemma paths_from_upd_at f : (forall s pfx, paths_from pfx (f s) = paths_from pfx s) ->
  forall p t pfx, paths_from pfx (upd_at p f t) = paths_from pfx t.
Proof.
  intros E. induction p as [|i p IH]; intros t pfx; [apply E|].
  destruct t as [g n a ks]. rewrite upd_at_cons, !paths_from_unfold. f_equal.
  apply flat_map_upd_nth_eq. intros k. apply IH.
Qed.

Lemma tags_upd_at f : (forall s, tags (f s) = tags s) -> forall p t, tags (upd_at p f t) = tags t.
Proof.
  intros E. induction p as [|i p IH]; intros t; [apply E|].
  destruct t as [g n a ks]. rewrite upd_at_cons, !tags_unfold. f_equal.
  apply flat_map_upd_nth_eq. intros k. apply IH.
Qed.

Lemma has_prefix_split : forall p q, has_prefix p q = true -> exists q2, q = p ++ q2.
Proof.
  induction p as [|x p IH]; intros q H; [exists q; reflexivity|].
  destruct q as [|y q]; [discriminate|]. cbn [has_prefix] in H. apply andb_true_iff in H as [E H].
  apply Nat.eqb_eq in E. subst y. destruct (IH q H) as [q2 ->]. exists q2. reflexivity.
Qed.

(* a node that is not below p keeps its attributes (its descendants may change) *)
Lemma upd_at_off f : forall p q t s0,
  has_prefix p q = false -> subtree_at t q = Some s0 ->
  exists s', subtree_at (upd_at p f t) q = Some s' /\ tattrs s' = tattrs s0.
Proof.
  induction p as [|i p IH]; intros q t s0 Hp Hq; [discriminate|].
  destruct t as [g n a ks]. rewrite upd_at_cons. destruct q as [|j q].
  - cbn in Hq. inversion Hq; subst. eexists. split; reflexivity.
  - cbn [subtree_at tkids] in *. cbn [has_prefix] in Hp.
    destruct (nth_error ks j) as [k|] eqn:Hk; [|discriminate].
    destruct (Nat.eqb i j) eqn:E.
    + apply Nat.eqb_eq in E. subst j. rewrite nth_error_upd_nth, Hk. cbn [option_map].
      cbn [andb] in Hp. now apply IH.
    + apply Nat.eqb_neq in E. rewrite nth_error_upd_nth_other by exact E. rewrite Hk.
      exists s0. split; [exact Hq|reflexivity].
Qed.

Lemma upd_at_on d p t sub q2 s0 :
  subtree_at t p = Some sub -> subtree_at t (p ++ q2) = Some s0 ->
  subtree_at (upd_at p (by_name_apply d) t) (p ++ q2) = Some (by_name_apply d s0).
Proof.
  intros Hp Hq. rewrite subtree_at_app in *. rewrite Hp in Hq.
  rewrite (subtree_upd_at _ _ _ _ Hp), subtree_by_name, Hq. reflexivity.
Qed.

(* ======================================================================================== *)
(* 2. attribute maps up to the value comparison val_eqb of the specification                  *)

Definition oveq (x y : option val) : Prop :=
  match x, y with
  | Some v, Some w => val_eqb v w = true
  | None, None => True
  | _, _ => False
  end.
Definition weq (a b : attrs) : Prop := forall k, oveq (attr_get a k) (attr_get b k).

Lemma weq_refl a : weq a a.
Proof. intros k. destruct (attr_get a k); cbn; [apply val_eqb_refl|exact I]. Qed.

Lemma aeq_weq a b c : aeq a b -> weq b c -> weq a c.
Proof. intros H1 H2 k. rewrite H1. apply H2. Qed.

Lemma val_eqb_sym v w : val_eqb v w = val_eqb w v.
Proof.
  destruct v as [|x|x|x|x1 x2], w as [|y|y|y|y1 y2]; cbn [val_eqb]; try reflexivity.
  - apply Z.eqb_sym.
  - apply str_eqb_sym.
  - destruct x, y; reflexivity.
  - apply Z.eqb_sym.
Qed.

Lemma weq_sym a b : weq a b -> weq b a.
Proof.
  intros H k. specialize (H k). destruct (attr_get a k), (attr_get b k); cbn in *; try assumption.
  now rewrite val_eqb_sym.
Qed.

Lemma attrs_sub_weq a b : NoDup (map fst a) -> weq a b -> attrs_sub a b = true.
Proof.
  intros Hn H. unfold attrs_sub. apply forallb_forall. intros [k v] Hin. cbn [fst snd].
  specialize (H k). rewrite (attr_get_In a k v Hn Hin) in H.
  destruct (attr_get b k) as [w|]; [|contradiction]. cbn in H. now rewrite val_eqb_sym.
Qed.

Lemma attrs_equiv_weq a b :
  NoDup (map fst a) -> NoDup (map fst b) -> weq a b -> attrs_equiv a b = true.
Proof.
  intros Ha Hb H. unfold attrs_equiv.
  rewrite (nodup_str_true _ Ha), (nodup_str_true _ Hb), (attrs_sub_weq a b Ha H),
    (attrs_sub_weq b a Hb (weq_sym _ _ H)). reflexivity.
Qed.

(* two attribute rows the frame check (attrs_eqb) takes for equal: same keys, val_eqb values *)
Definition peq (a b : attrs) : Prop :=
  Forall2 (fun x y => fst x = fst y /\ val_eqb (snd x) (snd y) = true) a b.

Lemma attrs_eqb_peq : forall a b, attrs_eqb a b = true -> peq a b.
Proof.
  induction a as [|[k v] a IH]; intros [|[k' v'] b] H; cbn [attrs_eqb] in H; try discriminate; [constructor|].
  apply andb_true_iff in H as [H H3]. apply andb_true_iff in H as [H1 H2].
  apply str_eqb_eq in H1. subst k'. constructor; [split; [reflexivity|exact H2]|now apply IH].
Qed.

Lemma peq_filter (f : str * val -> bool) a b :
  (forall x y, fst x = fst y -> val_eqb (snd x) (snd y) = true -> f x = f y) ->
  peq a b -> peq (filter f a) (filter f b).
Proof.
  intros Hf H. induction H as [|x y a b [H1 H2] _ IH]; [constructor|]. cbn [filter].
  rewrite (Hf x y H1 H2). destruct (f y); [constructor; [split; assumption|exact IH]|exact IH].
Qed.

Lemma weq_attr_set a b k v w : weq a b -> val_eqb v w = true -> weq (attr_set a k v) (attr_set b k w).
Proof. intros H Hv x. rewrite !attr_get_attr_set. destruct (str_eqb k x); [exact Hv|apply H]. Qed.

Lemma weq_set_attrs n1 n2 : peq n1 n2 -> forall a b, weq a b -> weq (set_attrs a n1) (set_attrs b n2).
Proof.
  induction 1 as [|[k v] [k' w] n1 n2 [H1 H2] _ IH]; intros a b H; [exact H|].
  cbn [fst snd] in H1, H2. subst k'. rewrite !set_attrs_cons. apply IH. now apply weq_attr_set.
Qed.

(* ======================================================================================== *)
(* 3. the specification's fold over all rows naming a node versus the model's single lookup  *)

Definition spec_fold (F : attrs -> attrs) (rows : list row) (n : str) (a : attrs) : attrs :=
  fold_left (fun a r => if str_eqb (fst r) n then set_attrs a (F (snd r)) else a) rows a.

Lemma spec_fold_cons F r rows n a :
  spec_fold F (r :: rows) n a
  = spec_fold F rows n (if str_eqb (fst r) n then set_attrs a (F (snd r)) else a).
Proof. reflexivity. Qed.

Lemma spec_fold_keys F n : forall rows a, NoDup (map fst a) -> NoDup (map fst (spec_fold F rows n a)).
Proof.
  induction rows as [|r rows IH]; intros a H; [exact H|]. rewrite spec_fold_cons. apply IH.
  destruct (str_eqb (fst r) n); [now apply set_attrs_keys|exact H].
Qed.

Lemma spec_fold_absent F n : forall rows a, ~ In n (map fst rows) -> spec_fold F rows n a = a.
Proof.
  induction rows as [|[k na] rows IH]; intros a H; [reflexivity|]. rewrite spec_fold_cons. cbn [fst snd].
  destruct (str_eqb k n) eqn:E; [apply str_eqb_eq in E; subst; exfalso; apply H; now left|].
  apply IH. intros Hin. apply H. now right.
Qed.

(* a Python dict (distinct keys): the fold is the single lookup *)
Lemma dict_fold F n : forall rows a,
  NoDup (map fst rows) ->
  spec_fold F rows n a = match dict_get rows n with Some na => set_attrs a (F na) | None => a end.
Proof.
  induction rows as [|[k na] rows IH]; intros a H; [reflexivity|]. cbn [map fst] in H.
  inversion H as [|? ? Hk Hr]; subst. rewrite spec_fold_cons. cbn [dict_get fst snd].
  destruct (str_eqb k n) eqn:E.
  - apply str_eqb_eq in E. subst. now apply spec_fold_absent.
  - now apply IH.
Qed.

(* rows that all carry (up to peq) the attributes N: applying them again and again changes nothing *)
Lemma fold_same (F : attrs -> attrs) n N a0 : forall rest b,
  (forall r, In r rest -> str_eqb (fst r) n = true -> peq N (F (snd r))) ->
  weq (set_attrs a0 N) b -> weq (set_attrs a0 N) (spec_fold F rest n b).
Proof.
  induction rest as [|r rest IH]; intros b Hr Hb; [exact Hb|]. rewrite spec_fold_cons.
  apply IH; [intros r' Hr' E'; apply Hr; [now right|exact E']|].
  destruct (str_eqb (fst r) n) eqn:E; [|exact Hb].
  eapply aeq_weq; [apply aeq_sym, set_attrs_idem|].
  apply weq_set_attrs; [apply Hr; [now left|exact E]|exact Hb].
Qed.

(* a frame without two different attribute rows for one name: the first row of the name decides *)
Lemma frame_fold (F' F : attrs -> attrs) n :
  (forall a b, peq a b -> peq (F a) (F b)) ->
  forall rows a0,
    (forall r, In r rows -> F' (snd r) = F (snd r)) ->
    has_duplicate_attribute rows = false ->
    weq (match dict_get rows n with Some na => set_attrs a0 (F' na) | None => a0 end)
        (spec_fold F rows n a0).
Proof.
  intros HF. induction rows as [|[k na] rows IH]; intros a0 Hg Hd; [apply weq_refl|].
  cbn [has_duplicate_attribute] in Hd. apply orb_false_iff in Hd as [Hd1 Hd2].
  rewrite spec_fold_cons. cbn [dict_get fst snd]. destruct (str_eqb k n) eqn:E.
  - pose proof (Hg (k, na) (or_introl eq_refl)) as Hg0. cbn [snd] in Hg0. rewrite Hg0.
    apply fold_same; [|apply weq_refl].
    intros r Hr Er. apply HF. apply attrs_eqb_peq.
    destruct (attrs_eqb na (snd r)) eqn:Ea; [reflexivity|]. exfalso.
    assert (X : existsb (rows_conflict (k, na)) rows = true); [|congruence].
    apply existsb_exists. exists r. split; [exact Hr|]. unfold rows_conflict. cbn [fst snd]. rewrite Ea.
    apply str_eqb_eq in E. apply str_eqb_eq in Er. subst k. rewrite <- Er, str_eqb_refl. reflexivity.
  - apply IH; [intros r Hr; apply Hg; now right|exact Hd2].
Qed.

Lemma conflict_has_dup : forall rows, conflict str_eqb rows = has_duplicate_attribute rows.
Proof.
  induction rows as [|[k a] rows IH]; [reflexivity|]. cbn [conflict has_duplicate_attribute].
  rewrite IH. reflexivity.
Qed.

(* ======================================================================================== *)
(* 4. the filters                                                                             *)

Lemma filter_filter {A} (f g : A -> bool) l : filter f (filter g l) = filter (fun x => g x && f x) l.
Proof.
  induction l as [|x l IH]; [reflexivity|]. cbn [filter]. destruct (g x); cbn [filter andb]; [|exact IH].
  destruct (f x); now rewrite IH.
Qed.

Lemma name_dict_filter pcol a : filter_attributes a [k_name] false = spec_filter KNameDict pcol a.
Proof.
  unfold filter_attributes, spec_filter, key_is. apply filter_ext. intros kv. cbn [existsb andb].
  now rewrite orb_false_r.
Qed.

(* the name column of a frame is not an attribute column *)
Definition pcol_guard (pcol : str) (rows : list row) : Prop :=
  pcol = k_name \/ forall r, In r rows -> ~ In pcol (map fst (snd r)).

Definition frame_filter (pcol : str) (a : attrs) : attrs :=
  filter (fun kv => not_null kv && negb (key_is k_name kv) && negb (key_is pcol kv)) a.

Lemma name_frame_filter pcol rows r :
  pcol_guard pcol rows -> In r rows ->
  filter_attributes (filter (fun kv => negb (isnull (snd kv))) (snd r)) [k_name] false
  = frame_filter pcol (snd r).
Proof.
  intros G Hr. unfold filter_attributes, frame_filter. rewrite filter_filter. apply filter_ext_in.
  intros [key v] Hin. unfold not_null, key_is. cbn [existsb andb fst snd]. rewrite orb_false_r.
  assert (Hv : negb (isnull v) = match v with VNone => false | _ => true end) by (destruct v; reflexivity).
  rewrite Hv. destruct G as [->|G].
  - destruct (match v with VNone => false | _ => true end), (str_eqb key k_name); reflexivity.
  - assert (E : str_eqb key pcol = false).
    { destruct (str_eqb key pcol) eqn:E; [|reflexivity]. apply str_eqb_eq in E. subst key.
      exfalso. apply (G r Hr). change pcol with (fst (pcol, v)). now apply in_map. }
    rewrite E. cbn [negb]. now rewrite andb_true_r.
Qed.

Lemma frame_filter_peq pcol a b : peq a b -> peq (frame_filter pcol a) (frame_filter pcol b).
Proof.
  apply peq_filter. intros [k v] [k' w] H1 H2. cbn [fst snd] in H1, H2. subst k'.
  unfold not_null, key_is. cbn [fst snd]. f_equal. f_equal.
  destruct v, w; cbn [val_eqb] in H2; try discriminate; reflexivity.
Qed.

(* ======================================================================================== *)
(* 5. prop_byname on the model's output                                                       *)

Definition name_attrs (d : list row) (s : tree) : attrs :=
  match dict_get d (tname s) with
  | Some na => set_attrs (tattrs s) (filter_attributes na [k_name] false)
  | None => tattrs s
  end.

Lemma tattrs_by_name d s : tattrs (by_name_apply d s) = name_attrs d s.
Proof. destruct s as [g n a ks]. reflexivity. Qed.

Definition byname_accept (k : kind) (rows : list row) : bool :=
  negb (is_nil rows) && (if is_frame k then negb (conflict str_eqb rows) else true).

Lemma keys_ok_byname k i :
  is_byname k = true -> keys_ok k i = forallb (row_keys_ok [k_name]) (i_rows i).
Proof. destruct k; try discriminate; reflexivity. Qed.

(* a refused call leaves the tree as it was *)
Lemma byname_refused k i e :
  attrs_wf (i_tree i) -> byname_accept k (i_rows i) = false ->
  prop_byname k i (out_name i (Raise e)) = true.
Proof.
  intros Hwf Ha. unfold prop_byname, out_name. cbn [o_res o_tree o_rets].
  destruct (negb (keys_ok k i && nodup_path (paths (i_tree i)))); [reflexivity|].
  unfold byname_accept in Ha. rewrite Ha. cbn [negb andb]. now apply same_tree_refl.
Qed.

(* an accepted call: same shape, names, node objects; attributes node by node *)
Lemma byname_accepted k i d sub :
  attrs_wf (i_tree i) -> subtree_at (i_tree i) (i_start i) = Some sub ->
  byname_accept k (i_rows i) = true ->
  (forall s, NoDup (map fst (tattrs s)) ->
     attrs_equiv (name_attrs d s)
                 (spec_fold (spec_filter k (i_pcol i)) (i_rows i) (tname s) (tattrs s)) = true) ->
  prop_byname k i (out_name i (Ret (by_name_apply d sub))) = true.
Proof.
  intros Hwf Hsub Ha Hnode. unfold prop_byname, out_name. cbn [o_res o_tree o_rets].
  destruct (negb (keys_ok k i && nodup_path (paths (i_tree i)))); [reflexivity|].
  unfold byname_accept in Ha. rewrite Ha. cbn [andb].
  rewrite (upd_at_ext_at (i_start i) (fun _ => by_name_apply d sub) (by_name_apply d) (i_tree i) sub Hsub eq_refl).
  set (t0 := i_tree i) in *. set (t' := upd_at (i_start i) (by_name_apply d) t0).
  assert (Hp : paths t' = paths t0).
  { unfold paths, t'. apply paths_from_upd_at. intros s pfx. apply paths_from_by_name. }
  assert (Hg : map ttag (pre t') = map ttag (pre t0)).
  { apply (tags_upd_at (by_name_apply d) (tags_by_name d)). }
  assert (Hs : all_pos t' = all_pos t0).
  { apply all_pos_upd_at. apply all_pos_by_name. }
  rewrite Hp, Hg, (list_eqb_refl path_eqb _ path_eqb_refl),
    (list_eqb_refl opt_tag_eqb _ opt_tag_eqb_refl). cbn [list_eqb]. rewrite pos_eqb_refl. cbn [andb].
  apply (positions_lockstep
           (fun q nd0 nd =>
              attrs_equiv (tattrs nd)
                (if has_prefix (i_start i) q
                 then fold_left (fun a r => if str_eqb (fst r) (tname nd0)
                                            then set_attrs a (spec_filter k (i_pcol i) (snd r)) else a)
                                (i_rows i) (tattrs nd0)
                 else tattrs nd0)) t0 t' Hs).
  intros q s0 s' H0 H'. pose proof (Hwf q s0 H0) as Hn.
  destruct (has_prefix (i_start i) q) eqn:Epre.
  - destruct (has_prefix_split _ _ Epre) as [q2 ->].
    unfold t' in H'. rewrite (upd_at_on d _ _ sub q2 s0 Hsub H0) in H'. inversion H'; subst s'.
    rewrite tattrs_by_name. now apply Hnode.
  - destruct (upd_at_off (by_name_apply d) _ _ _ _ Epre H0) as (s2 & H2 & Ht).
    unfold t' in H'. rewrite H2 in H'. inversion H'; subst s'. rewrite Ht.
    apply attrs_equiv_true; [exact Hn|exact Hn|apply aeq_refl].
Qed.

(* per node, dict kind *)
Lemma node_dict pcol rows s :
  NoDup (map fst rows) -> NoDup (map fst (tattrs s)) ->
  attrs_equiv (name_attrs rows s) (spec_fold (spec_filter KNameDict pcol) rows (tname s) (tattrs s)) = true.
Proof.
  intros Hk Hn. rewrite (dict_fold _ _ _ _ Hk). unfold name_attrs.
  destruct (dict_get rows (tname s)) as [na|].
  - rewrite (name_dict_filter pcol).
    apply attrs_equiv_true; [now apply set_attrs_keys|now apply set_attrs_keys|apply aeq_refl].
  - apply attrs_equiv_true; [exact Hn|exact Hn|apply aeq_refl].
Qed.

(* per node, frame kinds *)
Lemma node_frame pcol rows s :
  pcol_guard pcol rows -> has_duplicate_attribute rows = false -> NoDup (map fst (tattrs s)) ->
  attrs_equiv (name_attrs (frame_name_attrs rows) s)
              (spec_fold (frame_filter pcol) rows (tname s) (tattrs s)) = true.
Proof.
  intros G Hd Hn. unfold name_attrs. rewrite frame_name_attrs_get.
  pose proof (frame_fold
                (fun na => filter_attributes (filter (fun kv => negb (isnull (snd kv))) na) [k_name] false)
                (frame_filter pcol) (tname s) (frame_filter_peq pcol) rows (tattrs s)
                (fun r Hr => name_frame_filter pcol rows r G Hr) Hd) as W.
  destruct (dict_get rows (tname s)) as [na|]; cbn [option_map] in *.
  - apply attrs_equiv_weq; [now apply set_attrs_keys|now apply spec_fold_keys|exact W].
  - apply attrs_equiv_weq; [exact Hn|now apply spec_fold_keys|exact W].
Qed.

Lemma sep_not_nil (s : str) : s <> [] -> is_nil s = false.
Proof. destruct s; [congruence|reflexivity]. Qed.

(* ---- add_dict_to_tree_by_name ---- *)
Theorem model_satisfies_name_dict i sub :
  i_sep i <> [] -> attrs_wf (i_tree i) -> subtree_at (i_tree i) (i_start i) = Some sub ->
  NoDup (map fst (i_rows i)) ->
  prop_C05 KNameDict i (run KNameDict i) = true.
Proof.
  intros Hsep Hwf Hsub Hk. unfold prop_C05. cbn [is_byname]. unfold run. rewrite (sep_not_nil _ Hsep).
  destruct (forallb (row_keys_ok [k_name]) (i_rows i)) eqn:Ek.
  2:{ unfold prop_byname. rewrite (keys_ok_byname KNameDict i eq_refl), Ek. reflexivity. }
  rewrite Hsub. unfold add_dict_to_tree_by_name. destruct (i_rows i) as [|r rows] eqn:Er.
  - apply byname_refused; [exact Hwf|]. rewrite Er. reflexivity.
  - rewrite <- Er in *. apply byname_accepted; [exact Hwf|exact Hsub|rewrite Er; reflexivity|].
    intros s Hn. now apply node_dict.
Qed.

(* ---- add_dataframe_to_tree_by_name / add_polars_to_tree_by_name ---- *)
Lemma add_frame_by_name_run sub rows :
  add_frame_to_tree_by_name sub rows
  = if is_nil rows then Raise ValueError
    else if has_duplicate_attribute rows then Raise ValueError
         else Ret (by_name_apply (frame_name_attrs rows) sub).
Proof.
  unfold add_frame_to_tree_by_name. destruct rows as [|[k0 a0] rows]; [reflexivity|]. cbn [is_nil].
  destruct (has_duplicate_attribute ((k0, a0) :: rows)); [reflexivity|].
  unfold add_dict_to_tree_by_name, frame_name_attrs. cbn [first_rows existsb map]. reflexivity.
Qed.

Lemma frame_by_name_core k i sub :
  (k = KNameFrame \/ k = KNamePolars) ->
  attrs_wf (i_tree i) -> subtree_at (i_tree i) (i_start i) = Some sub ->
  pcol_guard (i_pcol i) (i_rows i) ->
  prop_byname k i (out_name i (add_frame_to_tree_by_name sub (i_rows i))) = true.
Proof.
  intros Hkind Hwf Hsub G. rewrite add_frame_by_name_run.
  assert (Hfr : is_frame k = true) by (destruct Hkind; subst; reflexivity).
  destruct (is_nil (i_rows i)) eqn:En.
  - apply byname_refused; [exact Hwf|]. unfold byname_accept. rewrite En. reflexivity.
  - destruct (has_duplicate_attribute (i_rows i)) eqn:Hd.
    + apply byname_refused; [exact Hwf|]. unfold byname_accept.
      rewrite Hfr, conflict_has_dup, Hd. now rewrite andb_false_r.
    + apply byname_accepted; [exact Hwf|exact Hsub| |].
      * unfold byname_accept. rewrite Hfr, conflict_has_dup, Hd, En. reflexivity.
      * intros s Hn.
        replace (spec_filter k (i_pcol i)) with (frame_filter (i_pcol i))
          by (destruct Hkind; subst; reflexivity).
        now apply node_frame.
Qed.

Theorem model_satisfies_name_frame i sub :
  i_sep i <> [] -> attrs_wf (i_tree i) -> subtree_at (i_tree i) (i_start i) = Some sub ->
  pcol_guard (i_pcol i) (i_rows i) ->
  prop_C05 KNameFrame i (run KNameFrame i) = true.
Proof.
  intros Hsep Hwf Hsub G. unfold prop_C05. cbn [is_byname]. unfold run. rewrite (sep_not_nil _ Hsep).
  destruct (forallb (row_keys_ok [k_name]) (i_rows i)) eqn:Ek.
  2:{ unfold prop_byname. rewrite (keys_ok_byname KNameFrame i eq_refl), Ek. reflexivity. }
  rewrite Hsub. apply frame_by_name_core; auto.
Qed.

(* polars raises inside rows_by_key on a non-empty frame without any attribute column: outside the
   modelled domain (run answers Unmodelled), hence the guard polars_modelled *)
Definition polars_modelled (rows : list row) : bool :=
  negb (forallb (fun r => is_nil (snd r)) rows && negb (is_nil rows)).

Theorem model_satisfies_name_polars i sub :
  i_sep i <> [] -> attrs_wf (i_tree i) -> subtree_at (i_tree i) (i_start i) = Some sub ->
  pcol_guard (i_pcol i) (i_rows i) -> polars_modelled (i_rows i) = true ->
  prop_C05 KNamePolars i (run KNamePolars i) = true.
Proof.
  intros Hsep Hwf Hsub G Hpm. unfold prop_C05. cbn [is_byname]. unfold run. rewrite (sep_not_nil _ Hsep).
  destruct (forallb (row_keys_ok [k_name]) (i_rows i)) eqn:Ek.
  2:{ unfold prop_byname. rewrite (keys_ok_byname KNamePolars i eq_refl), Ek. reflexivity. }
  unfold polars_modelled in Hpm. rewrite Hpm. cbn [andb].
  rewrite Hsub. apply frame_by_name_core; auto.
Qed.

(* ---- the harness hands a dict-taking entry point dict(rows): its keys are distinct ---- *)
Lemma dict_set_keys d k v :
  NoDup (map fst d) -> NoDup (map fst (dict_set d k v)) /\
  (forall x, In x (map fst (dict_set d k v)) <-> x = k \/ In x (map fst d)).
Proof.
  induction d as [|[k0 v0] d IH]; intros Hn; cbn [dict_set].
  - split; [repeat constructor; intros []|]. cbn. intros x. intuition.
  - cbn in Hn. inversion Hn as [|? ? Hk Hr]; subst. destruct (str_eqb k0 k) eqn:E.
    + apply str_eqb_eq in E. subst. cbn. split; [constructor; assumption|]. intros x. intuition.
    + destruct (IH Hr) as [H1 H2]. cbn [map fst]. split.
      * constructor; [|exact H1]. intros Hin. apply H2 in Hin as [->|Hin]; [|contradiction].
        rewrite str_eqb_refl in E. discriminate.
      * intros x. cbn [In]. rewrite H2. intuition.
Qed.

Lemma dict_of_rows_keys rows : NoDup (map fst (dict_of_rows rows)).
Proof.
  unfold dict_of_rows.
  assert (G : forall rows d, NoDup (map fst d) ->
                NoDup (map fst (fold_left (fun d kv => dict_set d (fst kv) (snd kv)) rows d))).
  { induction rows0 as [|r rows0 IH]; intros d H; [exact H|]. cbn [fold_left]. apply IH.
    now apply dict_set_keys. }
  apply G. constructor.
Qed.

Theorem model_satisfies_name_dict_eff i sub :
  i_sep i <> [] -> attrs_wf (i_tree i) -> subtree_at (i_tree i) (i_start i) = Some sub ->
  prop_C05 KNameDict (eff_input KNameDict i) (run KNameDict (eff_input KNameDict i)) = true.
Proof.
  intros Hsep Hwf Hsub. apply (model_satisfies_name_dict (eff_input KNameDict i) sub); try assumption.
  cbn. apply dict_of_rows_keys.
Qed.

(* one statement for the three by-name entry points *)
Theorem model_satisfies_byname k i sub :
  is_byname k = true ->
  i_sep i <> [] -> attrs_wf (i_tree i) -> subtree_at (i_tree i) (i_start i) = Some sub ->
  (k = KNameDict -> NoDup (map fst (i_rows i))) ->
  (is_frame k = true -> pcol_guard (i_pcol i) (i_rows i)) ->
  (k = KNamePolars -> polars_modelled (i_rows i) = true) ->
  prop_C05 k i (run k i) = true.
Proof.
  intros Hk Hsep Hwf Hsub Hd Hf Hp. destruct k; try discriminate.
  - apply (model_satisfies_name_dict i sub); auto.
  - apply (model_satisfies_name_frame i sub); auto.
  - apply (model_satisfies_name_polars i sub); auto.
Qed.

(* ---- Prop-level: the by-name update from ANY start node, seen from the root --------------- *)
Theorem by_name_any_start d t p sub :
  subtree_at t p = Some sub ->
  let t' := upd_at p (fun _ => by_name_apply d sub) t in
  paths t' = paths t
  /\ map ttag (pre t') = map ttag (pre t)
  /\ all_pos t' = all_pos t
  /\ (forall q s, subtree_at t q = Some s ->
        exists s', subtree_at t' q = Some s' /\
                   tattrs s' = if has_prefix p q then name_attrs d s else tattrs s).
Proof.
  intros Hsub t'. unfold t'.
  rewrite (upd_at_ext_at p (fun _ => by_name_apply d sub) (by_name_apply d) t sub Hsub eq_refl).
  split; [|split; [|split]].
  - unfold paths. apply paths_from_upd_at. intros s pfx. apply paths_from_by_name.
  - apply (tags_upd_at (by_name_apply d) (tags_by_name d)).
  - apply all_pos_upd_at. apply all_pos_by_name.
  - intros q s Hq. destruct (has_prefix p q) eqn:E.
    + destruct (has_prefix_split _ _ E) as [q2 ->]. exists (by_name_apply d s).
      split; [now apply (upd_at_on d p t sub q2 s)|apply tattrs_by_name].
    + now apply upd_at_off.
Qed.

(* ---- a boolean test for attrs_wf (for examples) ------------------------------------------- *)
Lemma subtree_in_pre : forall q t s, subtree_at t q = Some s -> In s (pre t).
Proof.
  induction q as [|i q IH]; intros t s H.
  - cbn in H. inversion H; subst. destruct s. rewrite pre_unfold. now left.
  - destruct t as [g n a ks]. cbn [subtree_at tkids] in H. rewrite pre_unfold. right.
    destruct (nth_error ks i) as [k|] eqn:Hk; [|discriminate].
    apply in_flat_map. exists k. split; [eapply nth_error_In; eauto|now apply IH].
Qed.

Lemma attrs_wf_b t : forallb (fun s => nodup_str (map fst (tattrs s))) (pre t) = true -> attrs_wf t.
Proof.
  intros H q s Hq. rewrite forallb_forall in H. apply nodup_str_NoDup. apply H.
  now apply (subtree_in_pre q).
Qed.

(* ======================================================================================== *)
(* ======================================================================================== *)
(* PART II.  The DataFrame / polars path entry points under the umbrella predicate           *)
(* ======================================================================================== *)

(* 6. stripping a character set is idempotent; the stripped string is read like the original  *)

Definition sstrip (s sp : str) : str := rstrip (lstrip s sp) sp.

Lemma lstrip_fix sp : forall s, lstrip (lstrip s sp) sp = lstrip s sp.
Proof.
  induction s as [|c t IH]; [reflexivity|]. cbn [lstrip]. destruct (memN c sp) eqn:E; [exact IH|].
  cbn [lstrip]. now rewrite E.
Qed.

Lemma lstrip_snoc sp c : memN c sp = false -> forall x, lstrip (x ++ [c]) sp = lstrip x sp ++ [c].
Proof.
  intros E. induction x as [|d x IH]; cbn [app lstrip]; [now rewrite E|].
  destruct (memN d sp); [exact IH|reflexivity].
Qed.

Lemma rstrip_cons sp c t : memN c sp = false -> rstrip (c :: t) sp = c :: rstrip t sp.
Proof.
  intros E. unfold rstrip. cbn [rev]. rewrite (lstrip_snoc sp c E), rev_app_distr. reflexivity.
Qed.

Lemma rstrip_fix sp u : rstrip (rstrip u sp) sp = rstrip u sp.
Proof. unfold rstrip. now rewrite rev_involutive, lstrip_fix. Qed.

Lemma lstrip_head sp : forall s,
  lstrip s sp = [] \/ exists c t, lstrip s sp = c :: t /\ memN c sp = false.
Proof.
  induction s as [|c t IH]; [now left|]. cbn [lstrip]. destruct (memN c sp) eqn:E; [exact IH|].
  right. exists c, t. auto.
Qed.

Lemma lstrip_sstrip s sp : lstrip (sstrip s sp) sp = sstrip s sp.
Proof.
  unfold sstrip. destruct (lstrip_head sp s) as [E|(c & t & E & Ec)]; rewrite E.
  - reflexivity.
  - rewrite (rstrip_cons sp c t Ec). cbn [lstrip]. now rewrite Ec.
Qed.

Lemma sstrip_fix s sp : sstrip (sstrip s sp) sp = sstrip s sp.
Proof.
  unfold sstrip at 1. rewrite lstrip_sstrip. unfold sstrip. apply rstrip_fix.
Qed.

Lemma sstrip_nil_iff s sp : sstrip s sp = [] <-> lstrip s sp = [].
Proof.
  unfold sstrip. destruct (lstrip_head sp s) as [E|(c & t & E & Ec)]; rewrite E.
  - split; reflexivity.
  - rewrite (rstrip_cons sp c t Ec). split; discriminate.
Qed.

Lemma branch_of_sstrip s sp : branch_of (sstrip s sp) sp = branch_of s sp.
Proof. unfold branch_of. change (rstrip (lstrip (sstrip s sp) sp) sp) with (sstrip (sstrip s sp) sp). now rewrite sstrip_fix. Qed.

Lemma branch_of_split_sstrip s sp : branch_of s sp = split (sstrip s sp) sp.
Proof. reflexivity. Qed.

(* trimming the empty components at both ends is idempotent *)
Definition trim (M : list str) : list str := rev (drop_empty (rev (drop_empty M))).

Lemma spec_parse_trim s sp : spec_parse s sp = trim (split s sp).
Proof. reflexivity. Qed.

Lemma drop_empty_split : forall X, exists n, X = repeat [] n ++ drop_empty X.
Proof.
  induction X as [|x X IH]; [exists 0; reflexivity|]. destruct x as [|ch x].
  - destruct IH as [n E]. exists (S n). cbn [repeat app drop_empty]. now rewrite <- E.
  - exists 0. reflexivity.
Qed.

Lemma drop_empty_head : forall X, drop_empty X = [] \/ exists y Y, drop_empty X = y :: Y /\ y <> [].
Proof.
  induction X as [|x X IH]; [now left|]. destruct x as [|ch x]; [exact IH|].
  right. exists (ch :: x), X. split; [reflexivity|discriminate].
Qed.

Lemma drop_empty_idem X : drop_empty (drop_empty X) = drop_empty X.
Proof.
  destruct (drop_empty_head X) as [E|(y & Y & E & Hy)]; rewrite E; [reflexivity|].
  apply drop_empty_id. exact Hy.
Qed.

Lemma rev_repeat_nil n : rev (repeat (@nil N) n) = repeat [] n.
Proof.
  induction n as [|n IH]; [reflexivity|]. cbn [repeat rev]. rewrite IH.
  clear. induction n as [|n IH]; [reflexivity|]. cbn [repeat app]. now rewrite IH.
Qed.

Lemma trim_idem M : trim (trim M) = trim M.
Proof.
  unfold trim. remember (drop_empty M) as A eqn:HA. remember (drop_empty (rev A)) as B eqn:HB0.
  assert (Hcase : B = [] \/ B <> []) by (destruct B; [now left|right; discriminate]).
  destruct Hcase as [->|HB]; [reflexivity|].
  destruct (drop_empty_split (rev A)) as [n En]. rewrite <- HB0 in En.
  assert (EA : A = rev B ++ repeat [] n).
  { rewrite <- (rev_involutive A), En, rev_app_distr, rev_repeat_nil. reflexivity. }
  assert (Hrev : drop_empty (rev B) = rev B).
  { apply drop_empty_id. destruct (rev B) as [|y Y] eqn:Er.
    - exfalso. apply HB. rewrite <- (rev_involutive B), Er. reflexivity.
    - cbn [hd]. cbn [app] in EA. destruct (drop_empty_head M) as [E|(y' & Y' & E & Hy)]; rewrite <- HA in E.
      + rewrite E in EA. discriminate.
      + rewrite E in EA. inversion EA; subst. exact Hy. }
  rewrite Hrev, rev_involutive. rewrite HB0 at 1. now rewrite drop_empty_idem, <- HB0.
Qed.

(* split is injective: join puts the string together again *)
Lemma join_split_go sp : sp <> [] -> forall fuel cur s,
  length s < fuel -> join sp (split_go fuel sp cur s) = rev cur ++ s.
Proof.
  intros Hsp. induction fuel as [|f IH]; intros cur s Hl; [lia|]. cbn [split_go].
  destruct s as [|c t]; [now rewrite join_single, app_nil_r|].
  destruct (startswith (c :: t) sp) eqn:E.
  - apply startswith_prefix in E as [r Er]. rewrite Er, skipn_app_exact.
    rewrite join_cons_ne by apply split_go_nonempty.
    rewrite IH; [reflexivity|].
    assert (length (c :: t) = length sp + length r) by (rewrite Er; apply app_length).
    destruct sp; [congruence|]. cbn [length] in *. lia.
  - rewrite IH by (cbn [length] in Hl; lia). cbn [rev]. now rewrite <- app_assoc.
Qed.

Lemma join_split sp s : sp <> [] -> join sp (split s sp) = s.
Proof.
  intros Hsp. unfold split. destruct sp as [|c0 sp'] eqn:E; [congruence|]. rewrite <- E in *.
  rewrite join_split_go; [reflexivity|exact Hsp|lia].
Qed.

Lemma split_nil sp : sp <> [] -> split [] sp = [[]].
Proof. destruct sp; [congruence|reflexivity]. Qed.

(* the stripped string of the frame variants is read like the original one *)
Lemma PG_sstrip sp s :
  sp <> [] -> PG sp s -> spec_parse (sstrip s sp) sp = spec_parse s sp /\ PG sp (sstrip s sp).
Proof.
  intros Hsp [(E & E1 & E2)|(E & E1 & E2 & E3)].
  - assert (Es : sstrip s sp = []) by now apply sstrip_nil_iff.
    rewrite Es, E1. assert (Ep : spec_parse [] sp = []).
    { rewrite spec_parse_trim, (split_nil sp Hsp). reflexivity. }
    split; [exact Ep|]. left. split; [reflexivity|]. split; [exact Ep|].
    unfold branch_of. cbn [lstrip]. unfold rstrip. cbn [rev lstrip]. now apply split_nil.
  - assert (Ep : spec_parse (sstrip s sp) sp = spec_parse s sp).
    { rewrite (spec_parse_trim (sstrip s sp)), <- branch_of_split_sstrip, <- E1, spec_parse_trim. apply trim_idem. }
    split; [exact Ep|]. right. split; [|split; [|split]].
    + rewrite lstrip_sstrip. intros H. apply sstrip_nil_iff in H. contradiction.
    + now rewrite Ep, E1, branch_of_sstrip.
    + rewrite lstrip_sstrip, branch_of_sstrip. reflexivity.
    + now rewrite branch_of_sstrip.
Qed.

Lemma sstrip_eq_iff sp s1 s2 :
  sp <> [] -> PG sp s1 -> PG sp s2 ->
  (sstrip s1 sp = sstrip s2 sp <-> spec_parse s1 sp = spec_parse s2 sp).
Proof.
  intros Hsp P1 P2. split.
  - intros H. rewrite <- (proj1 (PG_sstrip sp s1 Hsp P1)), <- (proj1 (PG_sstrip sp s2 Hsp P2)), H. reflexivity.
  - intros H. destruct P1 as [(A1 & B1 & C1)|(A1 & B1 & _ & _)], P2 as [(A2 & B2 & C2)|(A2 & B2 & _ & _)].
    + apply sstrip_nil_iff in A1, A2. congruence.
    + exfalso. rewrite B1, B2 in H. symmetry in H. now apply branch_of_nonempty in H.
    + exfalso. rewrite B1, B2 in H. now apply branch_of_nonempty in H.
    + rewrite B1, B2, !branch_of_split_sstrip in H.
      rewrite <- (join_split sp (sstrip s1 sp) Hsp), <- (join_split sp (sstrip s2 sp) Hsp), H. reflexivity.
Qed.

Lemma sstrip_eqb sp s1 s2 :
  sp <> [] -> PG sp s1 -> PG sp s2 ->
  str_eqb (sstrip s1 sp) (sstrip s2 sp) = path_eqb (spec_parse s1 sp) (spec_parse s2 sp).
Proof.
  intros Hsp P1 P2. pose proof (sstrip_eq_iff sp s1 s2 Hsp P1 P2) as H.
  destruct (str_eqb _ _) eqn:E1, (path_eqb _ _) eqn:E2; try reflexivity.
  - apply str_eqb_eq in E1. apply H in E1. apply path_eqb_eq in E1. congruence.
  - apply path_eqb_eq in E2. apply H in E2. apply str_eqb_eq in E2. congruence.
Qed.

(* the duplicate-attribute check on the stripped strings is the specification's conflict on paths *)
Lemma conflict_strip sp : sp <> [] -> forall rows,
  (forall r, In r rows -> PG sp (fst r)) ->
  conflict path_eqb (map (fun r : row => (spec_parse (fst r) sp, snd r)) rows)
  = has_duplicate_attribute (strip_rows rows sp).
Proof.
  intros Hsp. induction rows as [|[s0 a0] rows IH]; intros Hpg; [reflexivity|].
  cbn [map conflict strip_rows has_duplicate_attribute fst snd].
  rewrite IH by (intros r Hr; apply Hpg; now right). f_equal.
  assert (P0 : PG sp s0) by (apply (Hpg (s0, a0)); now left).
  assert (Hr : forall r, In r rows -> PG sp (fst r)) by (intros r Hr; apply Hpg; now right).
  clear IH Hpg. induction rows as [|[s1 a1] rows IH]; [reflexivity|].
  cbn [map existsb fst snd]. rewrite IH by (intros r Hr'; apply Hr; now right). f_equal.
  unfold rows_conflict. cbn [fst snd]. f_equal. symmetry.
  apply (sstrip_eqb sp s0 s1 Hsp P0). apply (Hr (s1, a1)). now left.
Qed.

(* ======================================================================================== *)
(* 7. add_dataframe_to_tree_by_path / add_polars_to_tree_by_path                              *)

Lemma frame_attrs_spec pcol a : frame_attrs pcol a = frame_filter pcol a.
Proof.
  unfold frame_attrs, filter_attributes, frame_filter, not_null, key_is. apply filter_ext. intros [key v].
  cbn [existsb fst snd]. rewrite orb_false_r.
  generalize (str_eqb key k_name) (str_eqb key pcol). intros x y. destruct v, x, y; reflexivity.
Qed.

Definition frame_mrows (pcol sp : str) (rows : list row) : list row :=
  map (fun r => (fst r, frame_attrs pcol (snd r))) (strip_rows rows sp).

Lemma add_frame_run t tsep rows pcol sep dup :
  add_frame_to_tree_by_path t tsep rows pcol sep dup
  = if is_nil rows then (t, Raise ValueError)
    else if has_duplicate_attribute (strip_rows rows sep) then (t, Raise ValueError)
         else add_rows t tsep sep dup (frame_mrows pcol sep rows) [].
Proof. unfold add_frame_to_tree_by_path, frame_mrows. destruct rows as [|r rows]; reflexivity. Qed.

Lemma frame_mrows_sprows pcol sp rows :
  sp <> [] -> (forall r, In r rows -> PG sp (fst r)) ->
  sprows sp (frame_mrows pcol sp rows)
  = map (fun r : row => (spec_parse (fst r) sp, frame_filter pcol (snd r))) rows.
Proof.
  intros Hsp Hpg. unfold sprows, frame_mrows, strip_rows. rewrite !map_map. apply map_ext_in.
  intros r Hr. cbn [fst snd]. change (rstrip (lstrip (fst r) sp) sp) with (sstrip (fst r) sp).
  now rewrite (proj1 (PG_sstrip sp (fst r) Hsp (Hpg r Hr))), frame_attrs_spec.
Qed.

Lemma frame_mrows_PG pcol sp rows :
  sp <> [] -> (forall r, In r rows -> PG sp (fst r)) ->
  forall r, In r (frame_mrows pcol sp rows) -> PG sp (fst r).
Proof.
  intros Hsp Hpg r Hr. unfold frame_mrows, strip_rows in Hr. rewrite map_map in Hr.
  apply in_map_iff in Hr as (x & <- & Hx). cbn [fst].
  change (rstrip (lstrip (fst x) sp) sp) with (sstrip (fst x) sp).
  exact (proj2 (PG_sstrip sp (fst x) Hsp (Hpg x Hx))).
Qed.

Lemma frame_mrows_fst pcol sp rows :
  sp <> [] -> (forall r, In r rows -> PG sp (fst r)) ->
  map fst (sprows sp rows) = map fst (sprows sp (frame_mrows pcol sp rows)).
Proof.
  intros Hsp Hpg. rewrite (frame_mrows_sprows pcol sp rows Hsp Hpg). unfold sprows. rewrite !map_map.
  reflexivity.
Qed.

(* add_kind_structure / acc_spec_add of ConstructProofs.v with the model's own row list *)
Lemma add_kind_structure_m k i sp tsep mrows t' ps :
  (forall r, In r mrows -> PG sp (fst r)) ->
  is_new k = false -> prows k i = sprows sp mrows ->
  sib_ok (i_tree i) -> attrs_wf (i_tree i) -> nonempty_names (i_tree i) -> NoDup (paths (i_tree i)) ->
  add_rows (i_tree i) tsep sp true mrows [] = (t', Ret ps) ->
  list_eqb path_eqb (paths t') (expected_paths k i) = true
  /\ list_eqb opt_tag_eqb (map ttag (pre t')) (map (expected_tag k i) (paths t')) = true
  /\ forallb2 (fun p nd => attrs_equiv (tattrs nd) (expected_attrs k i p)) (paths t') (pre t') = true
  /\ forallb (path_ok k i) (map fst (prows k i)) = true.
Proof.
  intros Hpg Hnew Hpr Hw Hwf Hne Hnd H.
  destruct (core_accepted sp tsep _ _ _ _ Hpg Hw Hwf Hne Hnd H) as (F1 & F2 & F3 & F4 & F5 & _).
  unfold expected_paths, all_paths, expected_tag, expected_attrs, base_attrs, path_ok, wrong_root, base, root_name.
  rewrite Hnew, Hpr. split; [|split; [|split]].
  - rewrite F1. apply list_eqb_refl. apply path_eqb_refl.
  - rewrite F2. apply list_eqb_refl. apply opt_tag_eqb_refl.
  - exact F3.
  - exact F5.
Qed.

Lemma acc_spec_add_m k i sp mrows :
  is_new k = false -> prows k i = sprows sp mrows ->
  forallb (path_ok k i) (map fst (prows k i)) && (i_dup i || names_distinct_after k i)
  = acc_spec (i_dup i) sp (i_tree i) mrows.
Proof.
  intros Hnew Hpr. unfold acc_spec, names_distinct_after, all_paths, path_ok, wrong_root, base, root_name.
  now rewrite Hnew, Hpr.
Qed.

Theorem model_satisfies_add_frame_multi k i :
  (k = KAddFrame \/ k = KAddPolars) ->
  i_sep i <> [] -> (forall r, In r (i_rows i) -> PG (i_sep i) (fst r)) -> attrs_wf (i_tree i) ->
  (guards k i = true -> i_dup i = false ->
   i_tsep i <> [] /\ nodup_guard (i_sep i) (i_tsep i) (i_tree i) (i_rows i)) ->
  prop_C05 k i (run k i) = true.
Proof.
  intros Hkind Hsne Hpg Hwf Hts. set (sp := i_sep i) in *.
  assert (Hnew : is_new k = false) by (destruct Hkind; subst; reflexivity).
  assert (Hfr : is_frame k = true) by (destruct Hkind; subst; reflexivity).
  assert (Hbn : is_byname k = false) by (destruct Hkind; subst; reflexivity).
  assert (Hnc : no_call k i = false) by (destruct Hkind; subst; reflexivity).
  assert (Hrets : forall o t', rets_ok k i o t' = list_eqb (list_eqb Nat.eqb) (o_rets o) [[]])
    by (destruct Hkind; subst; reflexivity).
  unfold prop_C05. rewrite Hbn. unfold prop_paths.
  destruct (guards k i) eqn:G; [cbn [negb]|reflexivity].
  destruct (guards_facts _ _ G) as (Hk & Hnd & Hne). unfold base in Hnd, Hne. rewrite Hnew in Hnd, Hne.
  pose proof (NoDup_paths_sib_ok _ [] Hnd) as Hw.
  set (mrows := frame_mrows (i_pcol i) sp (i_rows i)).
  assert (Hpr : prows k i = sprows sp mrows).
  { unfold mrows. rewrite (frame_mrows_sprows _ sp _ Hsne Hpg). unfold prows. fold sp.
    apply map_ext. intros r. destruct Hkind; subst; reflexivity. }
  pose proof (frame_mrows_PG (i_pcol i) sp (i_rows i) Hsne Hpg) as Hpgm. fold mrows in Hpgm.
  pose proof (frame_mrows_fst (i_pcol i) sp (i_rows i) Hsne Hpg) as Hfst. fold mrows in Hfst.
  assert (Hg : i_dup i = true \/ (i_tsep i <> [] /\ nodup_guard sp (i_tsep i) (i_tree i) mrows)).
  { destruct (i_dup i) eqn:Hd; [now left|right]. destruct (Hts eq_refl eq_refl) as [H1 H2].
    split; [exact H1|]. eapply nodup_guard_ext; eauto. }
  pose proof (loop_verdict (i_dup i) sp (i_tsep i) (i_tree i) mrows Hpgm Hw Hne Hg) as V.
  pose proof (acc_spec_add_m k i sp mrows Hnew Hpr) as Hacc.
  assert (Hroot : is_nil (root_name k i) = false).
  { unfold root_name. rewrite Hnew. destruct (tname (i_tree i)) eqn:E; [|reflexivity].
    exfalso. apply (Hne []); [|reflexivity]. rewrite <- E. apply tname_in_names. }
  assert (Hconf : conflict path_eqb (raw_prows i) = has_duplicate_attribute (strip_rows (i_rows i) sp)).
  { unfold raw_prows. fold sp. now apply conflict_strip. }
  assert (Hrun : run k i = out_add (i_tsep i) true
                   (add_frame_to_tree_by_path (i_tree i) (i_tsep i) (i_rows i) (i_pcol i) sp (i_dup i))).
  { unfold run. fold sp. rewrite (sep_not_nil _ Hsne).
    destruct Hkind; subst k;
      [change (forallb (row_keys_ok [k_name; i_pcol i]) (i_rows i)) with (keys_ok KAddFrame i)
      |change (forallb (row_keys_ok [k_name; i_pcol i]) (i_rows i)) with (keys_ok KAddPolars i)];
      rewrite Hk; reflexivity. }
  rewrite Hrun, add_frame_run. fold mrows.
  destruct (is_nil (i_rows i)) eqn:En.
  - cbn [out_add o_res o_tree]. unfold expected_accept, refused_at_once. rewrite Hnc, Hnew, En. cbn [negb orb andb].
    now apply same_tree_refl.
  - destruct (has_duplicate_attribute (strip_rows (i_rows i) sp)) eqn:Hd.
    + cbn [out_add o_res o_tree]. unfold expected_accept, refused_at_once. rewrite Hnc, Hnew, Hfr, Hconf, En.
      cbn [negb orb andb]. rewrite andb_false_r. cbn [negb orb andb]. now apply same_tree_refl.
    + destruct (add_rows (i_tree i) (i_tsep i) sp (i_dup i) mrows []) as [t1 [ps|e]] eqn:H;
        cbn [out_add o_res o_tree o_rets].
      * destruct V as (Va & Ht & Hdist).
        destruct (add_kind_structure_m k i sp _ mrows _ _ Hpgm Hnew Hpr Hw Hwf Hne Hnd Ht) as (C1 & C2 & C3 & C4).
        rewrite C1, C2, C3, Hrets. cbn [o_rets list_eqb Nat.eqb andb].
        assert (Hlast : i_dup i || nodup_str (names_of t1) = true).
        { destruct Hdist as [->|Hn]; [reflexivity|]. change (names_of t1) with (names t1).
          rewrite (nodup_str_true _ Hn). apply orb_true_r. }
        rewrite Hlast, andb_true_r. rewrite Va in Hacc. unfold expected_accept.
        rewrite Hnc, En, Hroot, Hfr, Hconf. cbn [negb orb andb]. rewrite andb_true_r. exact Hacc.
      * destruct V as (Vr & Vsame). rewrite Vr in Hacc.
        assert (Hrej : expected_accept k i = false).
        { unfold expected_accept. rewrite Hnc, En, Hroot, Hfr, Hconf. cbn [negb orb andb].
          rewrite andb_true_r. exact Hacc. }
        rewrite Hrej, Hnew. cbn [negb andb].
        destruct (refused_at_once k i) eqn:Ero; [|reflexivity].
        unfold refused_at_once in Ero. rewrite En, Hfr, Hconf, Hpr in Ero. cbn [andb orb] in Ero.
        destruct mrows as [|[s0 na0] mrows'] eqn:Em.
        { cbn in H. discriminate. }
        cbn [sprows map fst] in Ero. unfold wrong_root, root_name in Ero. rewrite Hnew in Ero.
        rewrite (Vsame Ero). now apply same_tree_refl.
Qed.

Theorem model_satisfies_add_frame k i c :
  (k = KAddFrame \/ k = KAddPolars) ->
  i_sep i = [c] -> attrs_wf (i_tree i) -> (i_dup i = true \/ exists c2, i_tsep i = [c2]) ->
  prop_C05 k i (run k i) = true.
Proof.
  intros Hkind Hsep Hwf Hts.
  assert (Hsne : i_sep i <> []) by (rewrite Hsep; discriminate).
  assert (Hpg : forall r, In r (i_rows i) -> PG (i_sep i) (fst r)) by (intros r _; rewrite Hsep; apply PG_single).
  apply model_satisfies_add_frame_multi; try assumption.
  intros G Hd. destruct Hts as [Ht|[c2 Ht]]; [congruence|]. rewrite Ht. split; [discriminate|].
  apply (nodup_guard_ext (i_sep i) [c2] _ (frame_mrows (i_pcol i) (i_sep i) (i_rows i))).
  - symmetry. now apply frame_mrows_fst.
  - replace (i_tree i) with (base k i) by (destruct Hkind; subst; reflexivity).
    apply (guards_nodup k i (i_sep i) c2 _ G Hd).
    + destruct Hkind; subst; exact Ht.
    + rewrite (frame_mrows_sprows _ _ _ Hsne Hpg). unfold prows. apply map_ext. intros r.
      destruct Hkind; subst; reflexivity.
Qed.

(* ======================================================================================== *)
(* 8. dataframe_to_tree / polars_to_tree                                                      *)

Lemma frame_to_tree_run rows pcol sep dup :
  frame_to_tree rows pcol sep dup
  = if is_nil rows then Raise ValueError
    else if has_duplicate_attribute (strip_rows rows sep) then Raise ValueError
    else
      let r := hd [] (split (sstrip (fst (hd ([], []) rows)) sep) sep) in
      let kw := match filter (fun x : row => str_eqb (fst x) r) (strip_rows rows sep) with
                | [] => []
                | x :: _ => frame_attrs pcol (snd x)
                end in
      if is_nil r then Raise TreeError
      else collapse (add_rows (T None r (set_attrs [] kw) []) default_sep sep dup (frame_mrows pcol sep rows) []).
Proof. destruct rows as [|[s0 a0] rest]; reflexivity. Qed.

Lemma is_nil_true {A} (l : list A) : is_nil l = true -> l = [].
Proof. destruct l; [reflexivity|discriminate]. Qed.

Theorem model_satisfies_frame_multi k i :
  (k = KFrame \/ k = KPolars) ->
  i_sep i <> [] -> (forall r, In r (i_rows i) -> PG (i_sep i) (fst r)) ->
  (guards k i = true -> i_dup i = false ->
   nodup_guard (i_sep i) default_sep (base k i) (i_rows i)) ->
  prop_C05 k i (run k i) = true.
Proof.
  intros Hkind Hsne Hpg Hts. set (sp := i_sep i) in *.
  assert (Hnew : is_new k = true) by (destruct Hkind; subst; reflexivity).
  assert (Hfr : is_frame k = true) by (destruct Hkind; subst; reflexivity).
  assert (Hbn : is_byname k = false) by (destruct Hkind; subst; reflexivity).
  assert (Hnc : no_call k i = false) by (destruct Hkind; subst; reflexivity).
  assert (Hrets : forall o t', rets_ok k i o t' = list_eqb (list_eqb Nat.eqb) (o_rets o) [[]])
    by (destruct Hkind; subst; reflexivity).
  unfold prop_C05. rewrite Hbn. unfold prop_paths.
  destruct (guards k i) eqn:G; [cbn [negb]|reflexivity].
  destruct (guards_facts _ _ G) as (Hk & _ & _).
  assert (Hrun : run k i = out_new sp (frame_to_tree (i_rows i) (i_pcol i) sp (i_dup i))).
  { unfold run. fold sp. rewrite (sep_not_nil _ Hsne).
    destruct Hkind; subst k;
      [change (forallb (row_keys_ok [k_name; i_pcol i]) (i_rows i)) with (keys_ok KFrame i)
      |change (forallb (row_keys_ok [k_name; i_pcol i]) (i_rows i)) with (keys_ok KPolars i)];
      rewrite Hk; reflexivity. }
  rewrite Hrun, frame_to_tree_run.
  pose proof (root_name_new k i Hnew) as Hrn. fold sp in Hrn.
  assert (Hconf : conflict path_eqb (raw_prows i) = has_duplicate_attribute (strip_rows (i_rows i) sp)).
  { unfold raw_prows. fold sp. now apply conflict_strip. }
  destruct (is_nil (i_rows i)) eqn:En.
  { cbn [out_new o_res o_tree]. unfold expected_accept. rewrite Hnc, Hnew, En. reflexivity. }
  assert (Hex : exists s0 a0 rest, i_rows i = (s0, a0) :: rest).
  { destruct (i_rows i) as [|[s0 a0] rest]; [discriminate|eauto]. }
  destruct Hex as (s0 & a0 & rest & Er).
  destruct (has_duplicate_attribute (strip_rows (i_rows i) sp)) eqn:Hd.
  { cbn [out_new o_res o_tree]. unfold expected_accept. rewrite Hnc, Hnew, Hfr, Hconf.
    cbn [negb]. rewrite andb_false_r. reflexivity. }
  cbv zeta.
  rewrite Er in Hrn. cbn [fst] in Hrn.
  pose proof (Hpg (s0, a0)) as Hpg0. rewrite Er in Hpg0. specialize (Hpg0 (or_introl eq_refl)). cbn [fst] in Hpg0.
  destruct (root_inference sp s0 Hsne Hpg0) as [_ Hri].
  assert (Hrt : hd [] (split (sstrip (fst (hd ([], []) (i_rows i))) sp) sp) = root_name k i).
  { rewrite Er. cbn [hd fst]. rewrite <- branch_of_split_sstrip, Hri, <- Hrn. reflexivity. }
  rewrite Hrt. set (r := root_name k i) in *.
  set (mrows := frame_mrows (i_pcol i) sp (i_rows i)).
  match goal with |- context [set_attrs [] ?x] => set (kw := x) end.
  destruct (is_nil r) eqn:Enr.
  { cbn [out_new o_res o_tree]. unfold expected_accept. fold r. rewrite Hnc, Hnew, Enr. cbn [negb].
    rewrite andb_false_r. reflexivity. }
  assert (Hr : r <> []) by (destruct r; [discriminate|discriminate]).
  assert (Hpr : prows k i = sprows sp mrows).
  { unfold mrows. rewrite (frame_mrows_sprows _ sp _ Hsne Hpg). unfold prows. fold sp.
    apply map_ext. intros r0. destruct Hkind; subst; reflexivity. }
  pose proof (frame_mrows_PG (i_pcol i) sp (i_rows i) Hsne Hpg) as Hpgm. fold mrows in Hpgm.
  pose proof (frame_mrows_fst (i_pcol i) sp (i_rows i) Hsne Hpg) as Hfst. fold mrows in Hfst.
  assert (Hrg : sgood sp r).
  { split; [exact Hr|]. destruct Hpg0 as [(_ & E1 & _)|(_ & E1 & _ & Hf)].
    - exfalso. apply Hr. rewrite Hrn, E1. reflexivity.
    - rewrite Hrn, E1 in *. destruct (branch_of s0 sp) as [|h t]; [cbn in Hr; congruence|].
      cbn [hd]. now inversion Hf. }
  assert (Hbound : forall key, attr_get (set_attrs [] kw) key <> None -> bound sp mrows [r] key).
  { intros key Hkey. rewrite attr_get_set_attrs_last in Hkey.
    destruct (attr_get (rev kw) key) eqn:Eg; [|cbn in Hkey; congruence].
    unfold kw in Eg.
    destruct (filter (fun x : row => str_eqb (fst x) r) (strip_rows (i_rows i) sp)) as [|x l] eqn:Ef;
      [discriminate|].
    assert (Hx : In x (filter (fun x : row => str_eqb (fst x) r) (strip_rows (i_rows i) sp)))
      by (rewrite Ef; now left).
    apply filter_In in Hx as [Hx Hxr]. apply str_eqb_eq in Hxr.
    exists (fst x, frame_attrs (i_pcol i) (snd x)). split; [|split].
    - unfold mrows, frame_mrows. apply in_map_iff. exists x. auto.
    - cbn [fst]. rewrite Hxr. now apply branch_of_word.
    - cbn [snd]. congruence. }
  set (b1 := T None r (set_attrs [] kw) []).
  assert (Hw : sib_ok b1) by (constructor; constructor).
  assert (Hne : nonempty_names b1).
  { intros n Hn. unfold b1 in Hn. rewrite names_unfold in Hn. destruct Hn as [<-|[]]. exact Hr. }
  assert (Hg : i_dup i = true \/ (default_sep <> [] /\ nodup_guard sp default_sep b1 mrows)).
  { destruct (i_dup i) eqn:Hdup; [now left|right]. split; [discriminate|].
    apply nodup_guard_root_attrs. eapply nodup_guard_ext; [exact Hfst|].
    replace (T None r [] []) with (base k i) by (unfold base; rewrite Hnew; reflexivity).
    now apply Hts. }
  pose proof (loop_verdict (i_dup i) sp default_sep b1 mrows Hpgm Hw Hne Hg) as V.
  pose proof (acc_spec_new k i sp r (set_attrs [] kw) mrows Hnew eq_refl Hpr) as Hacc. fold b1 in Hacc.
  destruct (add_rows b1 default_sep sp (i_dup i) mrows []) as [t1 [ps|e]] eqn:H;
    cbn [collapse out_new o_res o_tree o_rets].
  - destruct V as (Va & Ht & Hdist).
    destruct (new_kind_structure k i sp r (set_attrs [] kw) default_sep mrows t1 ps Hpgm Hnew eq_refl Hpr Hr)
      as (C1 & C2 & C3 & C4); [apply set_attrs_keys; constructor|exact Hbound|exact Ht|].
    rewrite C1, C2, C3, Hrets. cbn [o_rets list_eqb Nat.eqb andb].
    assert (Hlast : i_dup i || nodup_str (names_of t1) = true).
    { destruct Hdist as [->|Hn]; [reflexivity|]. change (names_of t1) with (names t1).
      rewrite (nodup_str_true _ Hn). apply orb_true_r. }
    rewrite Hlast, andb_true_r. rewrite Va in Hacc. unfold expected_accept. fold r.
    rewrite Hnc, En, Enr, Hfr, Hconf. cbn [negb orb andb]. rewrite andb_true_r. exact Hacc.
  - destruct V as (Vr & _). rewrite Vr in Hacc.
    assert (Hrej : expected_accept k i = false).
    { unfold expected_accept. fold r. rewrite Hnc, En, Enr, Hfr, Hconf. cbn [negb orb andb].
      rewrite andb_true_r. exact Hacc. }
    rewrite Hrej, Hnew. reflexivity.
Qed.

Theorem model_satisfies_frame k i c :
  (k = KFrame \/ k = KPolars) -> i_sep i = [c] -> prop_C05 k i (run k i) = true.
Proof.
  intros Hkind Hsep.
  assert (Hsne : i_sep i <> []) by (rewrite Hsep; discriminate).
  assert (Hpg : forall r, In r (i_rows i) -> PG (i_sep i) (fst r)) by (intros r _; rewrite Hsep; apply PG_single).
  apply model_satisfies_frame_multi; try assumption.
  intros G Hd.
  apply (nodup_guard_ext (i_sep i) default_sep _ (frame_mrows (i_pcol i) (i_sep i) (i_rows i))).
  - symmetry. now apply frame_mrows_fst.
  - apply (guards_nodup k i (i_sep i) 47%N _ G Hd).
    + destruct Hkind; subst; reflexivity.
    + rewrite (frame_mrows_sprows _ _ _ Hsne Hpg). unfold prows. apply map_ext. intros r.
      destruct Hkind; subst; reflexivity.
Qed.

(* ======================================================================================== *)
(* 9. every entry point of the property, one-character separator                              *)

Definition byname_hyps (k : kind) (i : input) : Prop :=
  (exists sub, subtree_at (i_tree i) (i_start i) = Some sub)
  /\ (k = KNameDict -> NoDup (map fst (i_rows i)))
  /\ (is_frame k = true -> pcol_guard (i_pcol i) (i_rows i))
  /\ (k = KNamePolars -> polars_modelled (i_rows i) = true).

Theorem model_satisfies_all k i c :
  i_sep i = [c] -> attrs_wf (i_tree i) -> (i_dup i = true \/ exists c2, i_tsep i = [c2]) ->
  (is_byname k = true -> byname_hyps k i) ->
  prop_C05 k i (run k i) = true.
Proof.
  intros Hsep Hwf Hts Hbn.
  assert (Hsne : i_sep i <> []) by (rewrite Hsep; discriminate).
  destruct k.
  - now apply (model_satisfies_list i c).
  - now apply (model_satisfies_dict i c).
  - apply (model_satisfies_frame KFrame i c); auto.
  - apply (model_satisfies_frame KPolars i c); auto.
  - now apply (model_satisfies_add_path i c).
  - now apply (model_satisfies_add_dict i c).
  - apply (model_satisfies_add_frame KAddFrame i c); auto.
  - apply (model_satisfies_add_frame KAddPolars i c); auto.
  - destruct (Hbn eq_refl) as ((sub & Hsub) & H1 & H2 & H3). apply (model_satisfies_name_dict i sub); auto.
  - destruct (Hbn eq_refl) as ((sub & Hsub) & H1 & H2 & H3). apply (model_satisfies_name_frame i sub); auto.
  - destruct (Hbn eq_refl) as ((sub & Hsub) & H1 & H2 & H3). apply (model_satisfies_name_polars i sub); auto.
Qed.
