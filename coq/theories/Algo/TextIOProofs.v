(* Proofs about the models of Algo/TextIO.v (textual half of C06). *)
From BT Require Import Base.Prelude Base.Str Base.Rose Algo.TextIO Spec.PC06Text.
From Coq Require Import DecimalN DecimalPos.
From Coq Require DecimalNat.

Local Open Scope N_scope.

(* ------------------------------------------------------------------------------------------ *)
(* generalities                                                                                *)

Lemma val_eqb_refl v : val_eqb v v = true.
Proof.
  destruct v; cbn; auto using Z.eqb_refl, str_eqb_refl, Bool.eqb_reflx.
Qed.

Lemma attrs_eqb_refl a : attrs_eqb a a = true.
Proof.
  induction a as [|[k v] a IH]; cbn; [reflexivity|].
  rewrite str_eqb_refl, val_eqb_refl, IH. reflexivity.
Qed.

Lemma tree_eqb_refl t : tree_eqb t t = true.
Proof.
  induction t as [g n a ks IH] using tree_ind'. cbn [tree_eqb].
  rewrite str_eqb_refl, attrs_eqb_refl. cbn [andb].
  induction ks as [|k ks IHk]; [reflexivity|].
  inversion IH as [|? ? Hk Hks]; subst. rewrite Hk. cbn [andb]. apply IHk. exact Hks.
Qed.

Lemma on_last_app {A} (f : A -> A) l x : on_last f (l ++ [x]) = l ++ [f x].
Proof.
  induction l as [|y l IH]; [reflexivity|].
  cbn [app on_last]. rewrite IH. destruct (l ++ [x]) eqn:E; [destruct l; discriminate|reflexivity].
Qed.

Lemma str_nodupb_names l : str_nodupb l = names_nodup l.
Proof. induction l as [|x l IH]; cbn; [reflexivity|]. rewrite IH. reflexivity. Qed.

Lemma map_tname_erase ks : map tname (map erase ks) = map tname ks.
Proof.
  induction ks as [|k ks IH]; [reflexivity|]. cbn [map]. rewrite IH. destruct k; reflexivity.
Qed.

Lemma all_nodes_inv p g n a ks :
  all_nodes p (T g n a ks) = true -> p (T g n a ks) = true /\ Forall (fun k => all_nodes p k = true) ks.
Proof.
  cbn [all_nodes]. intros H. apply andb_true_iff in H as [H1 H2]. split; [exact H1|].
  apply Forall_forall. intros k Hk. eapply forallb_forall in H2; eauto.
Qed.

Lemma sib_distinct_inv g n a ks :
  sib_distinct (T g n a ks) = true ->
  names_nodup (map tname ks) = true /\ Forall (fun k => sib_distinct k = true) ks.
Proof.
  cbn [sib_distinct]. intros H. apply andb_true_iff in H as [H1 H2]. split; [exact H1|].
  apply Forall_forall. intros k Hk. eapply forallb_forall in H2; eauto.
Qed.

(* ------------------------------------------------------------------------------------------ *)
(* Newick writer without length / attributes                                                   *)

Fixpoint nw_plain (t : tree) : str :=
  match t with
  | T _ n _ ks =>
      match ks with
      | [] => serialize n
      | _ => [40] ++ join [44] (map nw_plain ks) ++ [41] ++ serialize n
      end
  end.

Definition cfg_plain (lsep pf asep : str) : nwcfg := NwCfg true [] lsep [] pf asep.

Lemma nw_write_plain lsep pf asep isroot t :
  nw_write (cfg_plain lsep pf asep) isroot t = Ret (nw_plain t).
Proof.
  revert isroot. induction t as [g n a ks IH] using tree_ind'. intros isroot.
  cbn [nw_write nw_plain]. unfold name_str, attr_str, cfg_plain.
  cbn [nw_inter nw_len nw_attrs is_nil orb negb andb].
  destruct ks as [|k ks]; [rewrite app_nil_r; reflexivity|].
  assert (Hgo : forall l,
             Forall (fun t => forall isroot, nw_write (cfg_plain lsep pf asep) isroot t = Ret (nw_plain t)) l ->
             (fix go (l : list tree) : res (list str) :=
                   match l with
                   | [] => Ret []
                   | k0 :: r =>
                       match nw_write (NwCfg true [] lsep [] pf asep) false k0 with
                       | Raise e => Raise e
                       | Ret s => match go r with Raise e => Raise e | Ret ss => Ret (s :: ss) end
                       end
                   end) l = Ret (map nw_plain l)).
  { intros l Hl. induction Hl as [|x l Hx Hl IHl]; [reflexivity|].
    fold (cfg_plain lsep pf asep). rewrite Hx. unfold cfg_plain. rewrite IHl. reflexivity. }
  rewrite (Hgo (k :: ks) IH). rewrite app_nil_r. reflexivity.
Qed.

(* ------------------------------------------------------------------------------------------ *)
(* Newick parser on the writer's output                                                        *)

Section NewickMachine.
  Variables la pf : str.

  (* scanning state: PARSE_STRING, no current node, no pending value, not skipping *)
  Definition St (ab cu : list tree) (be : list (list tree)) (d : Z) (ctr : nat) (cum : str) : pst :=
    mkP ab cu be d ctr PStr false cum [] 0.

  Lemma not_special_chars c :
    memN c nw_specials = false ->
    N.eqb c 40 = false /\ N.eqb c 41 = false /\ N.eqb c 91 = false /\ N.eqb c 93 = false /\
    N.eqb c 61 = false /\ N.eqb c 39 = false /\ N.eqb c 58 = false /\ N.eqb c 44 = false.
  Proof.
    unfold memN, nw_specials. cbn [existsb]. intros H.
    repeat (apply orb_false_iff in H as [? H]). repeat split; assumption.
  Qed.

  Lemma run_plain_chars n : forall rest ab cu be d ctr cum,
    has_special n = false ->
    nw_run la pf (n ++ rest) (St ab cu be d ctr cum) = nw_run la pf rest (St ab cu be d ctr (cum ++ n)).
  Proof.
    induction n as [|c n IH]; intros rest ab cu be d ctr cum H.
    - rewrite app_nil_r. reflexivity.
    - unfold has_special in H. cbn [existsb] in H. apply orb_false_iff in H as [Hc Hn].
      destruct (not_special_chars c Hc) as (H1 & H2 & H3 & H4 & H5 & H6 & H7 & H8).
      unfold St at 1. cbn [app nw_run p_skip]. unfold nw_step. cbv beta iota.
      rewrite H1, H2, H3, H4, H5, H6, H7, H8. cbn [orb].
      fold (St ab cu be d ctr (cum ++ [c])). rewrite (IH rest ab cu be d ctr (cum ++ [c]) Hn).
      rewrite <- app_assoc. reflexivity.
  Qed.

  Lemma run_skip x : forall rest ab cu be d ctr st has cum val,
    nw_run la pf (x ++ rest) (mkP ab cu be d ctr st has cum val (length x))
    = nw_run la pf rest (mkP ab cu be d ctr st has cum val 0).
  Proof.
    induction x as [|c x IH]; intros; [reflexivity|].
    cbn [app length nw_run p_skip set_skip]. apply IH.
  Qed.

  Lemma find_quote_app n rest : no_quote n = true -> find_quote (n ++ 39 :: rest) = Some n.
  Proof.
    unfold no_quote, memN, q. induction n as [|c n IH]; intros H.
    - reflexivity.
    - cbn [existsb] in H. apply negb_true_iff in H. apply orb_false_iff in H as [Hc Hn].
      cbn [app find_quote]. rewrite N.eqb_sym, Hc. rewrite IH; [reflexivity|].
      apply negb_true_iff. exact Hn.
  Qed.

  Lemma requote_id n : no_quote n = true -> requote n = n.
  Proof.
    unfold no_quote, memN, q, requote. induction n as [|c n IH]; intros H; [reflexivity|].
    cbn [existsb] in H. apply negb_true_iff in H. apply orb_false_iff in H as [Hc Hn].
    cbn [map]. rewrite N.eqb_sym, Hc. rewrite IH; [reflexivity|]. apply negb_true_iff. exact Hn.
  Qed.

  Lemma run_name n rest ab cu be d ctr :
    no_quote n = true ->
    nw_run la pf (serialize n ++ rest) (St ab cu be d ctr []) = nw_run la pf rest (St ab cu be d ctr n).
  Proof.
    intros Hq. unfold serialize. destruct (has_special n) eqn:Hs.
    - rewrite (requote_id n Hq).
      replace ((39 :: n ++ [39]) ++ rest) with (39 :: (n ++ [39]) ++ rest) by reflexivity.
      unfold St at 1. cbn [nw_run p_skip]. unfold nw_step. cbv beta iota. cbn [N.eqb Pos.eqb orb].
      rewrite <- app_assoc. cbn [app]. rewrite (find_quote_app n rest Hq). cbn [is_nil negb].
      replace (n ++ 39 :: rest) with ((n ++ [39]) ++ rest) by (rewrite <- app_assoc; reflexivity).
      replace (S (length n)) with (length (n ++ [39])) by (rewrite app_length; cbn; lia).
      rewrite run_skip. reflexivity.
    - rewrite run_plain_chars by exact Hs. reflexivity.
  Qed.

  Lemma create_plain n ctr ks cu :
    n <> [] -> dup_names ks = false ->
    create_node on_last la false n ctr ks cu = Ret (ctr, cu ++ [T None n [] ks]).
  Proof.
    intros Hn Hd. unfold create_node. destruct n as [|c n]; [contradiction|].
    unfold attach. destruct ks as [|k ks]; [reflexivity|].
    rewrite Hd. rewrite on_last_app. reflexivity.
  Qed.

  Lemma step_comma rest n ctr ks cu be d :
    n <> [] -> dup_names ks = false ->
    nw_step la pf 44 rest (St ks cu be d ctr n) = Ret (St [] (cu ++ [T None n [] ks]) be d ctr []).
  Proof.
    intros Hn Hd. unfold nw_step, St. cbn [N.eqb Pos.eqb orb andb].
    rewrite (create_plain n ctr ks cu Hn Hd). reflexivity.
  Qed.

  Lemma step_close rest n ctr ks cu be d :
    n <> [] -> dup_names ks = false ->
    nw_step la pf 41 rest (St ks cu be d ctr n)
    = Ret (St (cu ++ [T None n [] ks]) (hd [] be) (tl be) (d - 1) ctr []).
  Proof.
    intros Hn Hd. unfold nw_step, St. cbn [N.eqb Pos.eqb orb andb].
    rewrite (create_plain n ctr ks cu Hn Hd). reflexivity.
  Qed.

  Lemma run_cons c rest ab cu be d ctr cum :
    nw_run la pf (c :: rest) (St ab cu be d ctr cum)
    = match nw_step la pf c rest (St ab cu be d ctr cum) with
      | Raise e => Raise e
      | Ret s' => nw_run la pf rest s'
      end.
  Proof. reflexivity. Qed.

  Lemma step_open rest cu be d ctr :
    nw_step la pf 40 rest (St [] cu be d ctr []) = Ret (St [] [] (cu :: be) (d + 1) ctr []).
  Proof. reflexivity. Qed.

  (* the guard of the round trip, per node *)
  Definition nm_ok (t : tree) : bool := name_ok (tname t).
  Definition tree_ok (t : tree) : Prop := all_nodes nm_ok t = true /\ sib_distinct t = true.

  Lemma name_ok_inv n : name_ok n = true -> n <> [] /\ no_quote n = true.
  Proof.
    unfold name_ok. intros H. apply andb_true_iff in H as [H1 H2]. split; [|exact H2].
    destruct n; [discriminate|discriminate].
  Qed.

  Lemma dup_erase ks : names_nodup (map tname ks) = true -> dup_names (map erase ks) = false.
  Proof.
    intros H. unfold dup_names. rewrite map_tname_erase, str_nodupb_names, H. reflexivity.
  Qed.

  (* after the text of t the machine holds t's (rebuilt) children above and t's name pending *)
  Definition core (t : tree) : Prop :=
    forall rest cu be d ctr,
      nw_run la pf (nw_plain t ++ rest) (St [] cu be d ctr [])
      = nw_run la pf rest (St (map erase (tkids t)) cu be d ctr (tname t)).

  Lemma erase_unfold t : erase t = T None (tname t) [] (map erase (tkids t)).
  Proof. destruct t; reflexivity. Qed.

  Lemma forest_run ks :
    ks <> [] ->
    Forall core ks -> Forall tree_ok ks ->
    forall rest cu be d ctr,
      nw_run la pf (join [44] (map nw_plain ks) ++ 41 :: rest) (St [] cu be d ctr [])
      = nw_run la pf rest (St (cu ++ map erase ks) (hd [] be) (tl be) (d - 1) ctr []).
  Proof.
    induction ks as [|k ks IH]; intros Hne Hc Hok rest cu be d ctr; [contradiction|].
    inversion Hc as [|? ? Hk Hks]; subst. inversion Hok as [|? ? Ok_k Ok_ks]; subst.
    destruct Ok_k as [Hnm Hsd].
    destruct k as [g n a kk].
    apply all_nodes_inv in Hnm as [Hn _]. unfold nm_ok in Hn. cbn [tname] in Hn.
    apply name_ok_inv in Hn as [Hne_n _].
    apply sib_distinct_inv in Hsd as [Hdup _]. apply dup_erase in Hdup.
    destruct ks as [|k2 ks].
    - cbn [map join]. rewrite (Hk (41 :: rest) cu be d ctr). cbn [tkids tname].
      cbn [nw_run St p_skip]. fold (St (map erase kk) cu be d ctr n).
      rewrite (step_close rest n ctr (map erase kk) cu be d Hne_n Hdup).
      rewrite erase_unfold. reflexivity.
    - change (map nw_plain (T g n a kk :: k2 :: ks))
        with (nw_plain (T g n a kk) :: map nw_plain (k2 :: ks)).
      change (join [44] (nw_plain (T g n a kk) :: map nw_plain (k2 :: ks)))
        with (nw_plain (T g n a kk) ++ [44] ++ join [44] (map nw_plain (k2 :: ks))).
      rewrite <- !app_assoc. rewrite (Hk _ cu be d ctr). cbn [tkids tname].
      cbn [app nw_run St p_skip]. fold (St (map erase kk) cu be d ctr n).
      rewrite (step_comma _ n ctr (map erase kk) cu be d Hne_n Hdup).
      rewrite (IH ltac:(discriminate) Hks Ok_ks rest _ be d ctr).
      rewrite <- app_assoc. reflexivity.
  Qed.

  Lemma tree_ok_kids g n a ks : tree_ok (T g n a ks) -> Forall tree_ok ks.
  Proof.
    intros [H1 H2]. apply all_nodes_inv in H1 as [_ H1]. apply sib_distinct_inv in H2 as [_ H2].
    apply Forall_forall. intros k Hk. split.
    - eapply Forall_forall in H1; eauto.
    - eapply Forall_forall in H2; eauto.
  Qed.

  Lemma core_all t : tree_ok t -> core t.
  Proof.
    induction t as [g n a ks IH] using tree_ind'. intros Hok.
    pose proof (tree_ok_kids _ _ _ _ Hok) as Hkids.
    destruct Hok as [Hnm Hsd].
    apply all_nodes_inv in Hnm as [Hn _]. unfold nm_ok in Hn. cbn [tname] in Hn.
    apply name_ok_inv in Hn as [_ Hq].
    intros rest cu be d ctr. cbn [tkids tname].
    destruct ks as [|k ks].
    - cbn [nw_plain map]. apply run_name. exact Hq.
    - assert (Hcore : Forall core (k :: ks)).
      { apply Forall_forall. intros x Hx. eapply Forall_forall in IH; eauto. apply IH.
        eapply Forall_forall in Hkids; eauto. }
      cbn [nw_plain]. rewrite <- !app_assoc.
      cbn [app]. rewrite run_cons, step_open.
      rewrite (forest_run (k :: ks) ltac:(discriminate) Hcore Hkids).
      cbn [hd tl app]. replace (d + 1 - 1)%Z with d by lia.
      apply run_name. exact Hq.
  Qed.

  Lemma nw_plain_nonempty t : tree_ok t -> nw_plain t <> [].
  Proof.
    destruct t as [g n a ks]. intros [Hnm _].
    apply all_nodes_inv in Hnm as [Hn _]. unfold nm_ok in Hn. cbn [tname] in Hn.
    apply name_ok_inv in Hn as [Hne _].
    cbn [nw_plain]. destruct ks; [|discriminate].
    unfold serialize. destruct (has_special n); [discriminate|exact Hne].
  Qed.

  Theorem nw_parse_plain t : tree_ok t -> nw_parse la pf (nw_plain t) = Ret (erase t).
  Proof.
    intros Hok. pose proof (nw_plain_nonempty t Hok) as Hne.
    assert (Hp : forall s, s <> [] ->
                 nw_parse la pf s = match nw_run la pf s p_init with
                                    | Raise e => Raise e
                                    | Ret st => nw_finish la st
                                    end).
    { intros [|c0 s0] Hs; [contradiction|reflexivity]. }
    rewrite (Hp _ Hne). clear Hp Hne.
    pose proof (core_all t Hok [] [] [] 1%Z 0%nat) as Hc. rewrite app_nil_r in Hc.
    change p_init with (St [] [] [] 1 0 []). rewrite Hc. cbn [nw_run].
    destruct t as [g n a ks]. cbn [tkids tname].
    destruct Hok as [Hnm Hsd].
    apply all_nodes_inv in Hnm as [Hn _]. unfold nm_ok in Hn. cbn [tname] in Hn.
    apply name_ok_inv in Hn as [Hne _].
    apply sib_distinct_inv in Hsd as [Hdup _]. apply dup_erase in Hdup.
    unfold nw_finish, St. cbn [p_depth p_cur p_cum p_ctr p_above Z.eqb Pos.eqb negb].
    rewrite (create_plain n 0%nat (map erase ks) [] Hne Hdup). reflexivity.
  Qed.
End NewickMachine.

(* ------------------------------------------------------------------------------------------ *)
(* The writer's text, read by the reference grammar of Spec/PC06Text.v, denotes the tree        *)

Section Reader.
  Variables la pf : str.

  Definition termb (rest : str) : bool :=
    match rest with [] => true | c :: _ => N.eqb c 44 || N.eqb c 41 end.

  Lemma termb_special c r : termb (c :: r) = true -> newick_special c = true.
  Proof.
    cbn [termb]. intros H. apply orb_true_iff in H as [H|H]; apply N.eqb_eq in H; subst; reflexivity.
  Qed.

  Lemma span_plain n : forall rest,
    has_special n = false -> termb rest = true ->
    span_p (fun c => negb (newick_special c)) (n ++ rest) = (n, rest).
  Proof.
    induction n as [|c n IH]; intros rest Hs Ht.
    - cbn [app]. destruct rest as [|c r]; [reflexivity|].
      cbn [span_p]. rewrite (termb_special c r Ht). reflexivity.
    - unfold has_special in Hs. cbn [existsb] in Hs. apply orb_false_iff in Hs as [Hc Hn].
      cbn [app span_p]. change (newick_special c) with (memN c nw_specials). rewrite Hc. cbn [negb].
      rewrite (IH rest Hn Ht). reflexivity.
  Qed.

  Lemma rd_quoted_app n rest : no_quote n = true -> rd_quoted (n ++ 39 :: rest) = Some (n, rest).
  Proof.
    unfold no_quote, memN, q. induction n as [|c n IH]; intros H.
    - reflexivity.
    - cbn [existsb] in H. apply negb_true_iff in H. apply orb_false_iff in H as [Hc Hn].
      cbn [app rd_quoted]. unfold q. rewrite N.eqb_sym, Hc. rewrite IH; [reflexivity|].
      apply negb_true_iff. exact Hn.
  Qed.

  Lemma rd_label_ser n rest :
    no_quote n = true -> n <> [] -> termb rest = true ->
    rd_label (serialize n ++ rest) = Some (n, rest).
  Proof.
    intros Hq Hne Ht. unfold serialize. destruct (has_special n) eqn:Hs.
    - rewrite (requote_id n Hq). cbn [app rd_label]. unfold q. cbn [N.eqb Pos.eqb].
      rewrite <- app_assoc. cbn [app]. apply rd_quoted_app. exact Hq.
    - destruct n as [|c n]; [contradiction|].
      pose proof Hs as Hs'. unfold has_special in Hs'. cbn [existsb] in Hs'.
      apply orb_false_iff in Hs' as [Hc _].
      destruct (not_special_chars c Hc) as (_ & _ & _ & _ & _ & H6 & _ & _).
      cbn [app rd_label]. unfold q. rewrite H6.
      change (c :: n ++ rest) with ((c :: n) ++ rest). rewrite (span_plain (c :: n) rest Hs Ht).
      reflexivity.
  Qed.

  Lemma rd_node_plain ks n rest :
    no_quote n = true -> n <> [] -> termb rest = true ->
    rd_node la pf ks (serialize n ++ rest) = Some (T None n [] ks, rest).
  Proof.
    intros Hq Hne Ht. unfold rd_node. rewrite (rd_label_ser n rest Hq Hne Ht).
    destruct rest as [|c r]; [reflexivity|].
    cbn [termb] in Ht. apply orb_true_iff in Ht as [H|H]; apply N.eqb_eq in H; subst; reflexivity.
  Qed.

  Lemma ser_head n rest c r : n <> [] -> no_quote n = true -> serialize n ++ rest = c :: r -> N.eqb c 40 = false.
  Proof.
    intros Hne Hq. unfold serialize. destruct (has_special n) eqn:Hs.
    - cbn [app]. intros E. inversion E; subst. reflexivity.
    - destruct n as [|x n]; [contradiction|]. cbn [app]. intros E. inversion E; subst.
      unfold has_special in Hs. cbn [existsb] in Hs. apply orb_false_iff in Hs as [Hc _].
      destruct (not_special_chars c Hc) as (H1 & _). exact H1.
  Qed.

  Definition reads (t : tree) : Prop :=
    forall fuel rest, termb rest = true -> (length (nw_plain t) < fuel)%nat ->
      rd_tree fuel la pf (nw_plain t ++ rest) = Some (erase t, rest).

  Lemma forest_reads ks :
    ks <> [] -> Forall reads ks -> Forall tree_ok ks ->
    forall fuel rest, (length (join [44%N] (map nw_plain ks)) + 1 < fuel)%nat ->
      rd_forest fuel la pf (join [44] (map nw_plain ks) ++ 41 :: rest) = Some (map erase ks, rest).
  Proof.
    induction ks as [|k ks IH]; intros Hne Hr Hok fuel rest Hf; [contradiction|].
    inversion Hr as [|? ? Hk Hks]; subst. inversion Hok as [|? ? Ok_k Ok_ks]; subst.
    destruct fuel as [|f]; [lia|].
    destruct ks as [|k2 ks].
    - cbn [map join] in *. cbn [rd_forest].
      rewrite (Hk f (41 :: rest) eq_refl ltac:(lia)). cbn [N.eqb Pos.eqb]. reflexivity.
    - change (map nw_plain (k :: k2 :: ks)) with (nw_plain k :: map nw_plain (k2 :: ks)) in *.
      change (join [44] (nw_plain k :: map nw_plain (k2 :: ks)))
        with (nw_plain k ++ [44] ++ join [44] (map nw_plain (k2 :: ks))) in *.
      rewrite !app_length in Hf. cbn [length] in Hf.
      pose proof (nw_plain_nonempty k Ok_k) as Hk_ne.
      assert (0 < length (nw_plain k))%nat by (destruct (nw_plain k); [contradiction|cbn; lia]).
      rewrite <- !app_assoc. cbn [rd_forest app].
      rewrite (Hk f (44 :: _) eq_refl ltac:(lia)). cbn [N.eqb Pos.eqb].
      rewrite (IH ltac:(discriminate) Hks Ok_ks f rest ltac:(lia)). reflexivity.
  Qed.

  Lemma reads_all t : tree_ok t -> reads t.
  Proof.
    induction t as [g n a ks IH] using tree_ind'. intros Hok.
    pose proof (tree_ok_kids _ _ _ _ Hok) as Hkids.
    destruct Hok as [Hnm Hsd].
    apply all_nodes_inv in Hnm as [Hn _]. unfold nm_ok in Hn. cbn [tname] in Hn.
    apply name_ok_inv in Hn as [Hne Hq].
    intros fuel rest Ht Hf. destruct fuel as [|f]; [lia|].
    destruct ks as [|k ks].
    - cbn [nw_plain erase map rd_tree].
      destruct (serialize n ++ rest) as [|c r] eqn:E.
      + rewrite <- E. apply rd_node_plain; assumption.
      + rewrite (ser_head n rest c r Hne Hq E). rewrite <- E. apply rd_node_plain; assumption.
    - assert (Hreads : Forall reads (k :: ks)).
      { apply Forall_forall. intros x Hx. eapply Forall_forall in IH; eauto. apply IH.
        eapply Forall_forall in Hkids; eauto. }
      cbn [nw_plain] in *. rewrite !app_length in Hf. cbn [length] in Hf.
      rewrite <- !app_assoc. cbn [app rd_tree N.eqb Pos.eqb].
      rewrite (forest_reads (k :: ks) ltac:(discriminate) Hreads Hkids f (serialize n ++ rest) ltac:(lia)).
      rewrite (rd_node_plain (map erase (k :: ks)) n rest Hq Hne Ht). reflexivity.
  Qed.

  Theorem newick_read_plain t : tree_ok t -> newick_read la pf (nw_plain t) = Some (erase t).
  Proof.
    intros Hok. unfold newick_read.
    pose proof (reads_all t Hok (S (length (nw_plain t))) [] eq_refl ltac:(lia)) as H.
    rewrite app_nil_r in H. rewrite H. reflexivity.
  Qed.
End Reader.

(* ------------------------------------------------------------------------------------------ *)
(* from the spec-level guard to the proof-level guard; the views                               *)

Definition opt_plain (pf : str) (b : bool) : nwopt := NwOpt true [] [] pf b.

Lemma alphabet_tree_ok pf b isroot t : newick_alphabet (opt_plain pf b) isroot t = true -> tree_ok t.
Proof.
  unfold newick_alphabet. intros H.
  repeat (apply andb_true_iff in H as [H ?]).
  split; [|assumption].
  clear - H. induction t as [g n a ks IH] using tree_ind'.
  apply all_nodes_inv in H as [H1 H2]. cbn [all_nodes].
  apply andb_true_iff. split.
  - unfold node_in_alphabet in H1. apply andb_true_iff in H1 as [H1 _]. exact H1.
  - apply forallb_forall. intros k Hk.
    eapply Forall_forall in IH; eauto. apply IH. eapply Forall_forall in H2; eauto.
Qed.

Lemma nw_view_plain pf b isroot t : nw_view (opt_plain pf b) isroot t = erase t.
Proof.
  revert isroot. induction t as [g n a ks IH] using tree_ind'. intros isroot.
  cbn [nw_view erase opt_plain o_inter o_len o_keys nilb orb flat_map app]. f_equal.
  induction IH as [|k ks Hk Hks IHk]; [reflexivity|]. cbn [map]. rewrite Hk, IHk. reflexivity.
Qed.

Lemma sort_tree_erase t : sort_tree (erase t) = erase t.
Proof.
  induction t as [g n a ks IH] using tree_ind'. cbn [erase sort_tree sort_attrs fold_right]. f_equal.
  induction IH as [|k ks Hk Hks IHk]; [reflexivity|]. cbn [map]. rewrite Hk, IHk. reflexivity.
Qed.

(* ------------------------------------------------------------------------------------------ *)
(* print_tree / str_to_tree                                                                    *)

(* pre-order (depth, name) list *)
Fixpoint pn (d : nat) (t : tree) : list (nat * str) :=
  match t with T _ n _ ks => (d, n) :: flat_map (pn (S d)) ks end.
Definition pnf (d : nat) (ks : list tree) : list (nat * str) := flat_map (pn d) ks.

Definition proj_dn (x : nat * bool * str) : nat * str := let '(d, _, n) := x in (d, n).

Lemma pre_info_pn t : forall d hr, map proj_dn (pre_info d hr t) = pn d t.
Proof.
  induction t as [g n a ks IH] using tree_ind'. intros d hr.
  cbn [pre_info pn map proj_dn]. f_equal.
  induction IH as [|k ks Hk Hks IHk]; [reflexivity|].
  cbn [flat_map]. rewrite map_app, Hk, IHk. reflexivity.
Qed.

(* --- the decoder: a tree is determined by its pre-order (depth, name) list --- *)

Definition deeper (d : nat) (l : list (nat * str)) : bool :=
  forallb (fun x : nat * str => Nat.ltb d (fst x)) l.
Definition head_le (d : nat) (l : list (nat * str)) : bool :=
  match l with [] => true | x :: _ => negb (Nat.ltb d (fst x)) end.

Lemma span_deeper_app d x : forall rest,
  deeper d x = true -> head_le d rest = true -> span_deeper d (x ++ rest) = (x, rest).
Proof.
  induction x as [|[e a] x IH]; intros rest Hd Hh.
  - cbn [app]. destruct rest as [|[e a] r]; [reflexivity|].
    cbn [span_deeper]. cbn [head_le fst] in Hh. apply negb_true_iff in Hh. rewrite Hh. reflexivity.
  - cbn [deeper forallb fst] in Hd. apply andb_true_iff in Hd as [H1 H2].
    cbn [app span_deeper]. rewrite H1. rewrite (IH rest H2 Hh). reflexivity.
Qed.

Lemma pn_deeper t : forall e d, (d < e)%nat -> deeper d (pn e t) = true.
Proof.
  induction t as [g n a ks IH] using tree_ind'. intros e d Hlt.
  cbn [pn deeper forallb fst]. apply andb_true_iff. split; [apply Nat.ltb_lt; exact Hlt|].
  fold (deeper d (flat_map (pn (S e)) ks)).
  induction IH as [|k ks Hk Hks IHk]; [reflexivity|].
  cbn [flat_map]. unfold deeper. rewrite forallb_app. apply andb_true_iff. split.
  - apply Hk. lia.
  - apply IHk.
Qed.

Lemma pnf_deeper ks e d : (d < e)%nat -> deeper d (pnf e ks) = true.
Proof.
  intros Hlt. induction ks as [|k ks IH]; [reflexivity|].
  unfold pnf. cbn [flat_map]. unfold deeper. rewrite forallb_app. apply andb_true_iff. split.
  - apply pn_deeper. exact Hlt.
  - apply IH.
Qed.

Lemma pnf_head_le ks d : head_le d (pnf d ks) = true.
Proof.
  destruct ks as [|[g n a kk] ks]; [reflexivity|].
  unfold pnf. cbn [flat_map pn app head_le fst]. rewrite Nat.ltb_irrefl. reflexivity.
Qed.

(* C06 "tree_of_preorder_depths": forest_of_pre inverts the pre-order listing *)
Lemma forest_of_pre_pnf : forall fuel ks d e,
  (length (pnf d ks) <= fuel)%nat -> forest_of_pre mk_plain fuel e (pnf d ks) = map erase ks.
Proof.
  induction fuel as [|f IH]; intros ks d e Hlen.
  { destruct ks as [|[g n a kk] ks]; [reflexivity|]. unfold pnf in Hlen. cbn in Hlen. lia. }
  destruct ks as [|[g n a kk] ks]; [reflexivity|].
  unfold pnf in Hlen |- *. cbn [flat_map pn app] in Hlen |- *. cbn [length] in Hlen. rewrite app_length in Hlen.
  cbn [forest_of_pre].
  fold (pnf (S d) kk) in Hlen |- *. fold (pnf d ks) in Hlen |- *.
  rewrite (span_deeper_app d (pnf (S d) kk) (pnf d ks) (pnf_deeper kk (S d) d ltac:(lia)) (pnf_head_le ks d)).
  rewrite (IH kk (S d) (S d) ltac:(lia)). rewrite (IH ks d e ltac:(lia)).
  reflexivity.
Qed.

Theorem forest_of_pre_pn t fuel :
  (length (pn 0 t) <= fuel)%nat -> forest_of_pre mk_plain fuel 0 (pn 0 t) = [erase t].
Proof.
  intros H. pose proof (forest_of_pre_pnf fuel [t] 0%nat 0%nat) as P.
  unfold pnf in P. cbn [flat_map map] in P. rewrite app_nil_r in P. apply P. exact H.
Qed.

(* --- pre-order depth sequences never jump by more than one --- *)

Fixpoint chain (c : nat) (l : list (nat * str)) : Prop :=
  match l with
  | [] => True
  | (d, _) :: r => (1 <= d /\ d <= c)%nat /\ chain (S d) r
  end.

Lemma chain_tree t : forall d c rest,
  (1 <= d /\ d <= c)%nat -> (forall c', (S d <= c')%nat -> chain c' rest) -> chain c (pn d t ++ rest).
Proof.
  induction t as [g n a ks IH] using tree_ind'. intros d c rest Hd Hrest.
  cbn [pn app chain]. split; [exact Hd|].
  assert (Hf : forall c', (S d <= c')%nat -> chain c' (flat_map (pn (S d)) ks ++ rest)).
  { induction IH as [|k ks Hk Hks IHk]; intros c' Hc'.
    - cbn [flat_map app]. apply Hrest. exact Hc'.
    - cbn [flat_map]. rewrite <- app_assoc. apply Hk; [lia|].
      intros c'' Hc''. apply IHk. lia. }
  apply Hf. lia.
Qed.

Lemma chain_pnf ks : chain 1 (pnf 1 ks).
Proof.
  assert (H : forall c', (1 <= c')%nat -> chain c' (pnf 1 ks ++ [])).
  { induction ks as [|k ks IH]; intros c' Hc'.
    - exact I.
    - unfold pnf. cbn [flat_map]. rewrite <- app_assoc. apply chain_tree; [lia|].
      intros c'' Hc''. apply IH. lia. }
  specialize (H 1%nat ltac:(lia)). rewrite app_nil_r in H. exact H.
Qed.

(* --- characters --- *)

Lemma glyph_not_10 c : glyph c = true -> N.eqb c 10 = false.
Proof.
  unfold glyph. intros H. apply N.eqb_neq. intros ->. cbn in H. discriminate.
Qed.
Lemma printable_not_10 c : printable c = true -> N.eqb c 10 = false.
Proof.
  unfold printable. intros H. apply N.eqb_neq. intros ->. cbn in H. discriminate.
Qed.
Lemma printable_ascii c : printable c = true -> (c <? 128) = true.
Proof.
  unfold printable. intros H. apply andb_true_iff in H as [_ H]. apply N.leb_le in H.
  apply N.ltb_lt. lia.
Qed.
Lemma head_not_space c : printable c = true -> N.eqb c 32 = false -> is_space c = false.
Proof.
  unfold printable, is_space. intros H H32. apply andb_true_iff in H as [H1 H2].
  apply N.leb_le in H1. apply N.leb_le in H2. apply N.eqb_neq in H32.
  apply orb_false_iff. split; apply andb_false_iff.
  - right. apply N.leb_gt. lia.
  - right. apply N.leb_gt. lia.
Qed.
Lemma head_not_glyph c g : printable c = true -> N.eqb c 32 = false -> glyph g = true -> N.eqb c g = false.
Proof.
  unfold printable, glyph. intros H H32 Hg. apply andb_true_iff in H as [H1 H2].
  apply N.leb_le in H2. apply N.eqb_neq in H32. apply N.eqb_neq. intros ->.
  apply orb_true_iff in Hg as [Hg|Hg].
  - apply N.leb_le in Hg. lia.
  - apply N.eqb_eq in Hg. contradiction.
Qed.

Definition pname (n : str) : Prop :=
  forallb printable n = true /\ exists c r, n = c :: r /\ N.eqb c 32 = false.

Lemma print_name_ok_pname n : print_name_ok n = true -> pname n.
Proof.
  unfold print_name_ok. intros H. apply andb_true_iff in H as [H1 H2]. split; [exact H1|].
  destruct n as [|c r]; [discriminate|]. exists c, r. split; [reflexivity|].
  apply negb_true_iff. exact H2.
Qed.

Lemma ascii_only_name n : forallb printable n = true -> ascii_only n = n.
Proof.
  unfold ascii_only. induction n as [|c n IH]; intros H; [reflexivity|].
  cbn [forallb] in H. apply andb_true_iff in H as [Hc Hn].
  cbn [filter]. rewrite (printable_ascii c Hc). rewrite (IH Hn). reflexivity.
Qed.

Lemma strip_prefix_name P n :
  forallb glyph P = true -> pname n -> lstrip_ws (ascii_only (P ++ n)) = n.
Proof.
  intros HP [Hpr (c & r & -> & Hc)].
  unfold ascii_only. rewrite filter_app. fold (ascii_only (c :: r)). rewrite (ascii_only_name _ Hpr).
  induction P as [|g P IH].
  - cbn [filter app lstrip_ws]. cbn [forallb] in Hpr. apply andb_true_iff in Hpr as [Hpc _].
    rewrite (head_not_space c Hpc Hc). reflexivity.
  - cbn [forallb] in HP. apply andb_true_iff in HP as [Hg HP].
    cbn [filter]. destruct (g <? 128) eqn:E.
    + unfold glyph in Hg. apply orb_true_iff in Hg as [Hg|Hg].
      * apply N.leb_le in Hg. apply N.ltb_lt in E. lia.
      * apply N.eqb_eq in Hg. subst g. cbn [app lstrip_ws is_space N.leb N.compare Pos.compare Pos.compare_cont andb orb].
        apply IH. exact HP.
    + apply IH. exact HP.
Qed.

Lemma startswith_refl s : startswith s s = true.
Proof. pose proof (startswith_app [] s) as H. rewrite app_nil_r in H. exact H. Qed.

Lemma find_sub_prefix P n :
  forallb glyph P = true -> pname n -> find_sub (P ++ n) n = Some (length P).
Proof.
  intros HP [Hpr (c & r & -> & Hc)].
  induction P as [|g P IH].
  - cbn [app find_sub]. rewrite startswith_refl. reflexivity.
  - cbn [forallb] in HP. apply andb_true_iff in HP as [Hg HP].
    cbn [forallb] in Hpr. pose proof Hpr as Hpr'. apply andb_true_iff in Hpr' as [Hpc _].
    cbn [app find_sub startswith]. rewrite (head_not_glyph c g Hpc Hc Hg). cbn [andb].
    rewrite (IH HP). reflexivity.
Qed.

(* --- the loop of str_to_tree on well-indented lines --- *)

Section Lines.
  Variable L : nat.
  Hypothesis HL : (0 < L)%nat.

  Definition line_ok (dn : nat * str) (line : str) : Prop :=
    pname (snd dn) /\ exists P, line = P ++ snd dn /\ length P = (L * fst dn)%nat /\ forallb glyph P = true.

  Lemma st_lines_some : forall dn lines c,
    chain c dn -> Forall2 line_ok dn lines -> st_lines lines (Some L) c = Ret dn.
  Proof.
    induction dn as [|[d n] dn IH]; intros lines c Hch Hf; inversion Hf as [|? line ? lines' Hl Hf']; subst.
    - reflexivity.
    - cbn [chain] in Hch. destruct Hch as [[Hd1 Hdc] Hch].
      destruct Hl as [Hpn (P & -> & HlenP & HgP)]. cbn [fst snd] in *.
      cbn [st_lines]. rewrite (strip_prefix_name P n HgP Hpn). rewrite (find_sub_prefix P n HgP Hpn).
      rewrite HlenP.
      assert (E0 : Nat.eqb L 0 = false) by (apply Nat.eqb_neq; lia). rewrite E0.
      rewrite (Nat.mul_comm L d), (Nat.mod_mul d L ltac:(lia)). cbn [Nat.eqb negb].
      rewrite (Nat.div_mul d L ltac:(lia)).
      assert (E1 : Nat.eqb d 0 = false) by (apply Nat.eqb_neq; lia). rewrite E1.
      destruct Hpn as [_ (c0 & r0 & En & _)]. rewrite En. cbn [is_nil]. rewrite <- En.
      rewrite (Nat.min_r c d Hdc). rewrite (IH lines' (S d) Hch Hf'). reflexivity.
  Qed.

  Lemma st_lines_none dn lines :
    chain 1 dn -> Forall2 line_ok dn lines -> st_lines lines None 1 = Ret dn.
  Proof.
    intros Hch Hf. rewrite <- (st_lines_some dn lines 1%nat Hch Hf).
    destruct dn as [|[d n] dn]; inversion Hf as [|? line ? lines' Hl Hf']; subst; [reflexivity|].
    cbn [chain] in Hch. destruct Hch as [[Hd1 Hdc] _]. assert (d = 1%nat) by lia. subst d.
    destruct Hl as [Hpn (P & -> & HlenP & HgP)]. cbn [fst snd] in *.
    cbn [st_lines]. rewrite (strip_prefix_name P n HgP Hpn). rewrite (find_sub_prefix P n HgP Hpn).
    rewrite HlenP, Nat.mul_1_r. reflexivity.
  Qed.
End Lines.

(* --- the lines yield_tree produces --- *)

Definition line_of (x : str * str * str) : str := let '(p, f, n) := x in p ++ f ++ n.

Lemma repeat_glyph k : forallb glyph (repeat 32 k) = true.
Proof. induction k as [|k IH]; [reflexivity|]. cbn [repeat forallb]. rewrite IH. reflexivity. Qed.

Section Yield.
  Variables stem branch final : str.
  Variable L : nat.
  Hypothesis Hs : length stem = L.
  Hypothesis Hb : length branch = L.
  Hypothesis Hf : length final = L.
  Hypothesis Gs : forallb glyph stem = true.
  Hypothesis Gb : forallb glyph branch = true.
  Hypothesis Gf : forallb glyph final = true.

  Let gap : str := repeat 32 L.

  Lemma gap_glyph : forallb glyph gap = true.
  Proof. apply repeat_glyph. Qed.
  Lemma gap_len : length gap = L.
  Proof. apply repeat_length. Qed.

  Lemma pre_s_ok (unc : list nat) (ks : list nat) :
    let s := concat (map (fun k => if memb k unc then stem else gap) ks) in
    length s = (L * length ks)%nat /\ forallb glyph s = true.
  Proof.
    induction ks as [|k ks [IH1 IH2]]; cbn [map concat length].
    - split; [lia|reflexivity].
    - rewrite app_length, forallb_app, IH1, IH2.
      destruct (memb k unc).
      + rewrite Hs, Gs. split; [lia|reflexivity].
      + rewrite gap_len, gap_glyph. split; [lia|reflexivity].
  Qed.

  Lemma yield_lines : forall l unc,
    Forall (fun x : nat * bool * str => pname (snd x)) l ->
    Forall2 (line_ok L) (map proj_dn l) (map line_of (yield_go (stem, branch, final) gap unc l)).
  Proof.
    induction l as [|[[d hr] n] l IH]; intros unc Hn; [constructor|].
    pose proof (Forall_inv Hn) as Hn1. pose proof (Forall_inv_tail Hn) as Hn2. cbn [snd] in Hn1.
    destruct d as [|d'].
    - cbn [yield_go map proj_dn line_of app]. constructor; [|apply IH; exact Hn2].
      split; [exact Hn1|]. exists []. cbn [fst snd length].
      split; [reflexivity|]. split; [lia|reflexivity].
    - cbn [yield_go map proj_dn line_of]. constructor; [|apply IH; exact Hn2].
      split; [exact Hn1|]. cbn [fst snd].
      set (unc' := if hr then set_add (S d') unc else set_remove (S d') unc).
      destruct (pre_s_ok unc' (seq 1 d')) as [P1 P2]. rewrite seq_length in P1.
      exists (concat (map (fun k => if memb k unc' then stem else gap) (seq 1 d')) ++ (if hr then branch else final)).
      split; [rewrite <- app_assoc; reflexivity|]. split.
      + rewrite app_length, P1. destruct hr; [rewrite Hb|rewrite Hf]; lia.
      + rewrite forallb_app, P2. destruct hr; [rewrite Gb|rewrite Gf]; reflexivity.
  Qed.
End Yield.

(* --- print(...) lines, strip and split --- *)

Fixpoint joinl (ls : list str) : str :=
  match ls with
  | [] => []
  | [l] => l
  | l :: r => l ++ 10 :: joinl r
  end.

Definition no10 (l : str) : bool := forallb (fun c => negb (N.eqb c 10)) l.

Lemma concat_lines ls : ls <> [] -> concat (map (fun l => l ++ [10]) ls) = joinl ls ++ [10].
Proof.
  induction ls as [|l ls IH]; intros H; [contradiction|].
  destruct ls as [|l2 ls].
  - cbn [map concat joinl]. rewrite app_nil_r. reflexivity.
  - cbn [map concat] in *. change (joinl (l :: l2 :: ls)) with (l ++ 10 :: joinl (l2 :: ls)).
    rewrite (IH ltac:(discriminate)). rewrite <- !app_assoc. reflexivity.
Qed.

Lemma split_line l rest : no10 l = true -> split_on 10 (l ++ 10 :: rest) = l :: split_on 10 rest.
Proof.
  unfold no10. induction l as [|c l IH]; intros H.
  - reflexivity.
  - cbn [forallb] in H. apply andb_true_iff in H as [Hc Hl]. apply negb_true_iff in Hc.
    cbn [app split_on]. rewrite Hc. rewrite (IH Hl). reflexivity.
Qed.
Lemma split_last l : no10 l = true -> split_on 10 l = [l].
Proof.
  unfold no10. induction l as [|c l IH]; intros H; [reflexivity|].
  cbn [forallb] in H. apply andb_true_iff in H as [Hc Hl]. apply negb_true_iff in Hc.
  cbn [split_on]. rewrite Hc. rewrite (IH Hl). reflexivity.
Qed.
Lemma split_joinl ls : ls <> [] -> forallb no10 ls = true -> split_on 10 (joinl ls) = ls.
Proof.
  induction ls as [|l ls IH]; intros Hne H; [contradiction|].
  cbn [forallb] in H. apply andb_true_iff in H as [Hl Hls].
  destruct ls as [|l2 ls].
  - cbn [joinl]. apply split_last. exact Hl.
  - change (joinl (l :: l2 :: ls)) with (l ++ 10 :: joinl (l2 :: ls)).
    rewrite (split_line l _ Hl). rewrite (IH ltac:(discriminate) Hls). reflexivity.
Qed.

Lemma lstrip_head c r chars : memN c chars = false -> lstrip (c :: r) chars = c :: r.
Proof. intros H. cbn [lstrip]. rewrite H. reflexivity. Qed.

Lemma rstrip_keep x c chars : memN c chars = false -> rstrip (x ++ [c]) chars = x ++ [c].
Proof.
  intros H. unfold rstrip. rewrite rev_unit. rewrite (lstrip_head c (rev x) chars H).
  cbn [rev]. rewrite rev_involutive. reflexivity.
Qed.
Lemma rstrip_drop x c chars : memN c chars = true -> rstrip (x ++ [c]) chars = rstrip x chars.
Proof.
  intros H. unfold rstrip. rewrite rev_unit. cbn [lstrip]. rewrite H. reflexivity.
Qed.

(* last character of a non-empty list *)
Lemma last_char (l : str) : l <> [] -> exists x c, l = x ++ [c].
Proof.
  intros H. destruct (exists_last H) as (x & c & E). exists x, c. exact E.
Qed.

Lemma joinl_last ls : ls <> [] -> exists pre, joinl ls = pre ++ last ls [].
Proof.
  induction ls as [|l ls IH]; intros H; [contradiction|].
  destruct ls as [|l2 ls].
  - exists []. reflexivity.
  - destruct (IH ltac:(discriminate)) as [pre E].
    exists (l ++ 10 :: pre). change (joinl (l :: l2 :: ls)) with (l ++ 10 :: joinl (l2 :: ls)).
    rewrite E. change (last (l :: l2 :: ls) []) with (last (l2 :: ls) []).
    rewrite <- app_assoc. reflexivity.
Qed.

Lemma no10_app_last x c : no10 (x ++ [c]) = true -> N.eqb c 10 = false.
Proof.
  unfold no10. rewrite forallb_app. intros H. apply andb_true_iff in H as [_ H].
  cbn [forallb] in H. apply andb_true_iff in H as [H _]. apply negb_true_iff. exact H.
Qed.

Lemma last_in (ls : list str) : ls <> [] -> In (last ls []) ls.
Proof.
  induction ls as [|l ls IH]; intros H; [contradiction|].
  destruct ls as [|l2 ls]; [left; reflexivity|].
  right. apply IH. discriminate.
Qed.

Lemma strip_lines ls :
  ls <> [] -> forallb no10 ls = true -> Forall (fun l => l <> []) ls ->
  strip (joinl ls ++ [10]) [10] = joinl ls.
Proof.
  intros Hne H10 Hnn.
  (* the text starts with a character of the first line *)
  assert (Hhead : exists c r, joinl ls = c :: r /\ N.eqb c 10 = false).
  { destruct ls as [|l ls]; [contradiction|].
    inversion Hnn as [|? ? Hl _]; subst. cbn [forallb] in H10. apply andb_true_iff in H10 as [Hl10 _].
    destruct l as [|c l]; [contradiction|].
    unfold no10 in Hl10. cbn [forallb] in Hl10. apply andb_true_iff in Hl10 as [Hc _].
    apply negb_true_iff in Hc.
    destruct ls as [|l2 ls].
    - exists c, l. split; [reflexivity|exact Hc].
    - exists c, (l ++ 10 :: joinl (l2 :: ls)). split; [reflexivity|exact Hc]. }
  (* and ends with a character of the last line *)
  assert (Htail : exists x c, joinl ls = x ++ [c] /\ N.eqb c 10 = false).
  { destruct (joinl_last ls Hne) as [pre E].
    pose proof (last_in ls Hne) as Hin.
    assert (Hl : last ls [] <> []) by (eapply Forall_forall in Hnn; eauto).
    assert (Hl10 : no10 (last ls []) = true) by (eapply forallb_forall in H10; eauto).
    destruct (last_char _ Hl) as (x & c & Ex). rewrite Ex in Hl10, E.
    exists (pre ++ x), c. split; [rewrite E, app_assoc; reflexivity|].
    apply (no10_app_last x c Hl10). }
  destruct Hhead as (c & r & Ec & Hc). destruct Htail as (x & c' & Ex & Hc').
  unfold strip. rewrite Ec. cbn [app]. rewrite lstrip_head by (unfold memN; cbn [existsb]; rewrite Hc; reflexivity).
  change (c :: r ++ [10]) with ((c :: r) ++ [10]). rewrite <- Ec.
  rewrite rstrip_drop by reflexivity. rewrite Ex.
  apply rstrip_keep. unfold memN. cbn [existsb]. rewrite Hc'. reflexivity.
Qed.

Lemma line_ok_no10 L dn line : line_ok L dn line -> no10 line = true /\ line <> [].
Proof.
  intros [[Hpr (c & r & En & _)] (P & -> & _ & HgP)]. split.
  - unfold no10. rewrite forallb_app. apply andb_true_iff. split.
    + apply forallb_forall. intros g Hg. eapply forallb_forall in HgP; eauto.
      rewrite (glyph_not_10 g HgP). reflexivity.
    + apply forallb_forall. intros g Hg. eapply forallb_forall in Hpr; eauto.
      rewrite (printable_not_10 g Hpr). reflexivity.
  - rewrite En. destruct P; discriminate.
Qed.

Lemma sib_dups_erase t : sib_distinct t = true -> sib_dups (erase t) = false.
Proof.
  induction t as [g n a ks IH] using tree_ind'. intros H.
  apply sib_distinct_inv in H as [Hd Hk].
  cbn [erase sib_dups]. rewrite (dup_erase ks Hd). cbn [orb].
  induction IH as [|k ks Hk1 Hks IHk]; [reflexivity|].
  inversion Hk as [|? ? Hk2 Hk3]; subst.
  cbn [map existsb]. rewrite (Hk1 Hk2). cbn [orb]. apply IHk.
  - cbn [map names_nodup] in Hd. apply andb_true_iff in Hd as [_ Hd]. exact Hd.
  - exact Hk3.
Qed.

Lemma pre_info_names p t : forall d hr,
  all_nodes (fun x => p (tname x)) t = true ->
  Forall (fun x : nat * bool * str => p (snd x) = true) (pre_info d hr t).
Proof.
  induction t as [g n a ks IH] using tree_ind'. intros d hr H.
  apply all_nodes_inv in H as [H1 H2]. cbn [tname] in H1.
  cbn [pre_info]. constructor; [exact H1|].
  induction IH as [|k ks Hk Hks IHk]; [constructor|].
  inversion H2 as [|? ? Hk2 Hk3]; subst.
  apply Forall_app. split; [apply Hk; exact Hk2|apply IHk; exact Hk3].
Qed.

Theorem print_roundtrip stem branch final t :
  print_alphabet (stem, branch, final) t = true ->
  exists s, print_str (stem, branch, final) t = Ret s /\ str_to_tree_m s = Ret (erase t).
Proof.
  unfold print_alphabet, style_inferable. intros H.
  repeat (apply andb_true_iff in H as [H ?]).
  rename H0 into Hsd, H1 into Hnames, H2 into Gf, H3 into Gb, H4 into Gs, H5 into Hne, H6 into Hbf.
  apply Nat.eqb_eq in H. apply Nat.eqb_eq in Hbf.
  assert (HLpos : (0 < length stem)%nat) by (destruct stem; [discriminate|cbn; lia]).
  unfold print_str, yield_tree.
  replace (Nat.eqb (length stem) (length branch)) with true by (symmetry; apply Nat.eqb_eq; exact H).
  replace (Nat.eqb (length branch) (length final)) with true by (symmetry; apply Nat.eqb_eq; exact Hbf).
  cbn [andb].
  eexists. split; [reflexivity|].
  (* the lines *)
  assert (Hmap : forall ys,
             concat (map (fun x : str * str * str => let '(p, f, n) := x in p ++ f ++ n ++ [10]) ys)
             = concat (map (fun l => l ++ [10]) (map line_of ys))).
  { intros ys. rewrite map_map. f_equal. apply map_ext. intros [[p f] n]. cbn [line_of].
    rewrite <- !app_assoc. reflexivity. }
  rewrite Hmap. clear Hmap.
  assert (Hpn : Forall (fun x : nat * bool * str => pname (snd x)) (pre_info 0 false t)).
  { pose proof (pre_info_names print_name_ok t 0%nat false Hnames) as Hp.
    eapply Forall_impl; [|exact Hp]. intros x Hx. apply print_name_ok_pname. exact Hx. }
  pose proof (yield_lines stem branch final (length stem) eq_refl (eq_sym H) (eq_sym (eq_trans H Hbf))
                          Gs Gb Gf (pre_info 0 false t) [] Hpn) as Hl.
  rewrite pre_info_pn in Hl.
  destruct t as [g n a ks]. cbn [pn] in Hl. fold (pnf 1 ks) in Hl.
  cbn [pre_info yield_go map line_of app] in Hl |- *.
  match goal with
  | |- context [map line_of ?Y] => set (lines := map line_of Y) in *
  end.
  change ((n ++ [10]) :: map (fun l : list N => l ++ [10]) lines)
    with (map (fun l : list N => l ++ [10]) (n :: lines)).
  assert (Hrest : Forall2 (line_ok (length stem)) (pnf 1 ks) lines) by (inversion Hl; assumption).
  assert (H10 : forallb no10 (n :: lines) = true /\ Forall (fun l => l <> []) (n :: lines)).
  { clear - Hl. induction Hl as [|dn line dns ls Hx Hxs IH]; [split; [reflexivity|constructor]|].
    destruct IH as [I1 I2]. destruct (line_ok_no10 (length stem) dn line Hx) as [A B].
    split; [cbn [forallb]; rewrite A, I1; reflexivity|constructor; assumption]. }
  destruct H10 as [H10 Hnn].
  rewrite (concat_lines (n :: lines) ltac:(discriminate)).
  unfold str_to_tree_m. rewrite (strip_lines (n :: lines) ltac:(discriminate) H10 Hnn).
  assert (Hjn : joinl (n :: lines) <> []).
  { inversion Hnn as [|? ? Hn0 _]; subst. destruct n as [|c r]; [contradiction|].
    destruct lines; discriminate. }
  destruct (joinl (n :: lines)) as [|c0 r0] eqn:Ej; [contradiction|]. rewrite <- Ej. clear Ej Hjn c0 r0.
  rewrite (split_joinl (n :: lines) ltac:(discriminate) H10).
  rewrite (st_lines_none (length stem) HLpos (pnf 1 ks) lines (chain_pnf ks) Hrest).
  change ((0%nat, n) :: pnf 1 ks) with (pn 0 (T g n a ks)).
  rewrite (forest_of_pre_pn (T g n a ks) (S (length (pnf 1 ks)))) by (cbn [pn length]; unfold pnf; lia).
  rewrite (sib_dups_erase (T g n a ks) Hsd). reflexivity.
Qed.

(* ------------------------------------------------------------------------------------------ *)
(* yield_tree's loop (set of unclosed depths) computes the textbook recursive rendering         *)

Lemma memb_set_add x y s : memb x (set_add y s) = Nat.eqb x y || memb x s.
Proof.
  unfold set_add. destruct (memb y s) eqn:E.
  - destruct (Nat.eqb x y) eqn:Exy; [|reflexivity]. apply Nat.eqb_eq in Exy. subst. rewrite E. reflexivity.
  - reflexivity.
Qed.

Lemma memb_set_remove x y s : memb x (set_remove y s) = negb (Nat.eqb x y) && memb x s.
Proof.
  unfold set_remove, memb. induction s as [|z s IH]; cbn [filter existsb].
  - rewrite andb_false_r. reflexivity.
  - destruct (Nat.eqb y z) eqn:Eyz; cbn [negb existsb].
    + rewrite IH. apply Nat.eqb_eq in Eyz. subst z. rewrite (Nat.eqb_sym x y).
      destruct (Nat.eqb y x); reflexivity.
    + rewrite IH. destruct (Nat.eqb x z) eqn:Exz; cbn [orb].
      * apply Nat.eqb_eq in Exz. subst z. rewrite (Nat.eqb_sym x y), Eyz. reflexivity.
      * reflexivity.
Qed.

Section Render.
  Variables stem branch final : str.
  Let st : style := (stem, branch, final).
  Let gap : str := repeat 32 (length stem).

  Definition pfxS (U : list nat) (m : nat) : str :=
    concat (map (fun k => if memb k U then stem else gap) (seq 1 m)).
  Definition agree (m : nat) (U U' : list nat) : Prop := forall j, (j <= m)%nat -> memb j U = memb j U'.

  Lemma pfxS_frame m U U' : agree m U U' -> pfxS U m = pfxS U' m.
  Proof.
    intros H. unfold pfxS. f_equal. apply map_ext_in. intros k Hk. apply in_seq in Hk.
    rewrite (H k ltac:(lia)). reflexivity.
  Qed.

  Lemma pfxS_S U m : pfxS U (S m) = pfxS U m ++ (if memb (S m) U then stem else gap).
  Proof.
    unfold pfxS. rewrite seq_S, map_app, concat_app. cbn [map concat Nat.add]. rewrite app_nil_r. reflexivity.
  Qed.

  Definition pre_kids (m : nat) (ks : list tree) : list (nat * bool * str) :=
    (fix go (l : list tree) : list (nat * bool * str) :=
       match l with
       | [] => []
       | k :: r => pre_info (S m) (negb (is_nil r)) k ++ go r
       end) ks.

  Definition ref_kids (pfx : str) (ks : list tree) : list str :=
    (fix go (l : list tree) : list str :=
       match l with
       | [] => []
       | k :: r =>
           let last := nilb r in
           (pfx ++ (if last then final else branch) ++ tname k)
             :: ref_below (stem, branch, final) (pfx ++ (if last then repeat 32 (length stem) else stem)) k ++ go r
       end) ks.

  Definition sub_spec (t : tree) : Prop :=
    forall d' hr U, exists U2,
      agree d' U U2 /\ memb (S d') U2 = hr /\
      forall rest,
        map line_of (yield_go st gap U (pre_info (S d') hr t ++ rest))
        = (pfxS U d' ++ (if hr then branch else final) ++ tname t)
            :: ref_below st (pfxS U d' ++ (if hr then stem else gap)) t
            ++ map line_of (yield_go st gap U2 rest).

  Lemma kids_spec ks : Forall sub_spec ks ->
    forall m U, exists U2,
      agree m U U2 /\
      forall rest,
        map line_of (yield_go st gap U (pre_kids m ks ++ rest))
        = ref_kids (pfxS U m) ks ++ map line_of (yield_go st gap U2 rest).
  Proof.
    intros HF. induction HF as [|k r Hk Hr IH]; intros m U.
    - exists U. split; [intros j _; reflexivity|]. intros rest. reflexivity.
    - destruct (Hk m (negb (is_nil r)) U) as (U1 & A1 & _ & E1).
      destruct (IH m U1) as (U2 & A2 & E2).
      exists U2. split; [intros j Hj; rewrite (A1 j Hj); apply A2; exact Hj|].
      intros rest.
      change (pre_kids m (k :: r)) with (pre_info (S m) (negb (is_nil r)) k ++ pre_kids m r).
      rewrite <- app_assoc. rewrite E1. rewrite E2.
      rewrite <- (pfxS_frame m U U1 A1).
      change (ref_kids (pfxS U m) (k :: r))
        with ((pfxS U m ++ (if nilb r then final else branch) ++ tname k)
                :: ref_below (stem, branch, final)
                     (pfxS U m ++ (if nilb r then repeat 32 (length stem) else stem)) k
                ++ ref_kids (pfxS U m) r).
      destruct r as [|k2 r]; cbn [is_nil nilb negb]. all: rewrite <- app_comm_cons, <- app_assoc; reflexivity.
  Qed.

  Lemma sub_spec_all t : sub_spec t.
  Proof.
    induction t as [g n a ks IH] using tree_ind'. intros d' hr U.
    set (U' := if hr then set_add (S d') U else set_remove (S d') U).
    assert (A' : agree d' U U').
    { intros j Hj. unfold U'. destruct hr.
      - rewrite memb_set_add. replace (Nat.eqb j (S d')) with false by (symmetry; apply Nat.eqb_neq; lia).
        reflexivity.
      - rewrite memb_set_remove. replace (Nat.eqb j (S d')) with false by (symmetry; apply Nat.eqb_neq; lia).
        reflexivity. }
    assert (M' : memb (S d') U' = hr).
    { unfold U'. destruct hr.
      - rewrite memb_set_add, Nat.eqb_refl. reflexivity.
      - rewrite memb_set_remove, Nat.eqb_refl. reflexivity. }
    destruct (kids_spec ks IH (S d') U') as (U2 & A2 & E2).
    exists U2. split; [|split].
    - intros j Hj. rewrite (A' j Hj). apply A2. lia.
    - rewrite <- (A2 (S d') ltac:(lia)). exact M'.
    - intros rest.
      change (pre_info (S d') hr (T g n a ks)) with ((S d', hr, n) :: pre_kids (S d') ks).
      cbn [app]. unfold st at 1. cbn [yield_go]. fold st. fold U'. cbn [map line_of tname].
      fold (pfxS U' d'). rewrite <- (pfxS_frame d' U U' A').
      f_equal. rewrite E2. f_equal.
      rewrite pfxS_S, M', <- (pfxS_frame d' U U' A'). reflexivity.
  Qed.

  Theorem yield_is_ref t :
    map line_of (yield_go st gap [] (pre_info 0 false t)) = tname t :: ref_below st [] t.
  Proof.
    destruct t as [g n a ks].
    change (pre_info 0 false (T g n a ks)) with ((0%nat, false, n) :: pre_kids 0 ks).
    cbn [yield_go map line_of app tname]. f_equal.
    assert (HF : Forall sub_spec ks) by (apply Forall_forall; intros k _; apply sub_spec_all).
    destruct (kids_spec ks HF 0%nat []) as (U2 & _ & E).
    specialize (E []). rewrite app_nil_r in E. rewrite E. cbn [yield_go map]. rewrite app_nil_r.
    reflexivity.
  Qed.
End Render.

Theorem print_is_ref stem branch final t :
  length stem = length branch -> length branch = length final ->
  print_str (stem, branch, final) t = Ret (ref_print (stem, branch, final) t).
Proof.
  intros H1 H2. unfold print_str, yield_tree.
  replace (Nat.eqb (length stem) (length branch)) with true by (symmetry; apply Nat.eqb_eq; exact H1).
  replace (Nat.eqb (length branch) (length final)) with true by (symmetry; apply Nat.eqb_eq; exact H2).
  cbn [andb]. apply f_equal. unfold ref_print.
  pose proof (yield_is_ref stem branch final t) as Y. cbv zeta in Y.
  apply eq_trans with
    (concat (map (fun l : list N => l ++ [10])
                 (map line_of (yield_go (stem, branch, final) (repeat 32 (length stem)) [] (pre_info 0 false t))))).
  - rewrite map_map. apply f_equal. apply map_ext. intros [[p f] n]. cbn [line_of].
    rewrite <- !app_assoc. reflexivity.
  - apply f_equal. apply f_equal. exact Y.
Qed.

(* ------------------------------------------------------------------------------------------ *)
(* Newick round trip and export clause in general: lengths, attributes, any prefix, root or     *)
(* inner start node, intermediate node names written or suppressed                              *)


(* ---- decimal digits ---- *)
Lemma uint_digits_digit d : forallb is_digit (uint_digits d) = true.
Proof. induction d; cbn [uint_digits forallb]; try reflexivity; rewrite IHd; reflexivity. Qed.

Lemma uint_digits_plain d : has_special (uint_digits d) = false.
Proof. unfold has_special. induction d; cbn [uint_digits existsb]; try reflexivity; rewrite IHd; reflexivity. Qed.

Definition dstep (a c : N) : N := a * 10 + (c - 48).

Lemma fold_acc d : forall acc : positive,
  fold_left dstep (uint_digits d) (Npos acc) = Npos (Pos.of_uint_acc d acc).
Proof.
  induction d; intros acc; cbn [uint_digits fold_left Pos.of_uint_acc]; try reflexivity;
    rewrite <- IHd; f_equal; unfold dstep; lia.
Qed.

Lemma fold_of_uint d : fold_left dstep (uint_digits d) 0 = Pos.of_uint d.
Proof.
  induction d; cbn [uint_digits fold_left Pos.of_uint]; try reflexivity.
  - exact IHd.
  - change (dstep 0 49) with (Npos 1). apply fold_acc.
  - change (dstep 0 50) with (Npos 2). apply fold_acc.
  - change (dstep 0 51) with (Npos 3). apply fold_acc.
  - change (dstep 0 52) with (Npos 4). apply fold_acc.
  - change (dstep 0 53) with (Npos 5). apply fold_acc.
  - change (dstep 0 54) with (Npos 6). apply fold_acc.
  - change (dstep 0 55) with (Npos 7). apply fold_acc.
  - change (dstep 0 56) with (Npos 8). apply fold_acc.
  - change (dstep 0 57) with (Npos 9). apply fold_acc.
Qed.

Lemma N_of_digits_str n : N_of_digits (str_of_N n) = n.
Proof.
  unfold N_of_digits, str_of_N. change (fun a c : N => a * 10 + (c - 48)) with dstep.
  rewrite fold_of_uint. apply (DecimalN.Unsigned.of_to n).
Qed.

Lemma length_val_pos p : length_val (str_of_N (Npos p)) = Ret (VInt (Zpos p)).
Proof.
  unfold length_val. unfold str_of_N at 1. rewrite uint_digits_digit. rewrite N_of_digits_str. reflexivity.
Qed.

Lemma str_of_N_nonempty p : str_of_N (Npos p) <> [].
Proof.
  intros E. pose proof (N_of_digits_str (Npos p)) as H. rewrite E in H. discriminate.
Qed.


Lemma is_nil_nilb {A} (l : list A) : is_nil l = nilb l.
Proof. destruct l; reflexivity. Qed.

Lemma str_eqb_sym a b : str_eqb a b = str_eqb b a.
Proof.
  destruct (str_eqb a b) eqn:E.
  - apply str_eqb_eq in E. subst. symmetry. apply str_eqb_refl.
  - symmetry. apply str_eqb_neq. apply str_eqb_neq in E. congruence.
Qed.

Section Machine2.
  Variables la pf : str.

  Definition not_val (st : nstate) : Prop := match st with PVal => False | _ => True end.

  Lemma run_chars_cum n : forall rest ab cu be d ctr st has cum val,
    not_val st -> has_special n = false ->
    nw_run la pf (n ++ rest) (mkP ab cu be d ctr st has cum val 0)
    = nw_run la pf rest (mkP ab cu be d ctr st has (cum ++ n) val 0).
  Proof.
    induction n as [|c n IH]; intros rest ab cu be d ctr st has cum val Hst H.
    - rewrite app_nil_r. reflexivity.
    - unfold has_special in H. cbn [existsb] in H. apply orb_false_iff in H as [Hc Hn].
      destruct (not_special_chars c Hc) as (H1 & H2 & H3 & H4 & H5 & H6 & H7 & H8).
      cbn [app nw_run p_skip]. unfold nw_step. cbv beta iota.
      rewrite H1, H2, H3, H4, H5, H6, H7, H8. cbn [orb].
      destruct st; [| |contradiction].
      + rewrite (IH rest ab cu be d ctr PStr has (cum ++ [c]) val I Hn). rewrite <- app_assoc. reflexivity.
      + rewrite (IH rest ab cu be d ctr PName has (cum ++ [c]) val I Hn). rewrite <- app_assoc. reflexivity.
  Qed.

  Lemma run_chars_val n : forall rest ab cu be d ctr has cum val,
    has_special n = false ->
    nw_run la pf (n ++ rest) (mkP ab cu be d ctr PVal has cum val 0)
    = nw_run la pf rest (mkP ab cu be d ctr PVal has cum (val ++ n) 0).
  Proof.
    induction n as [|c n IH]; intros rest ab cu be d ctr has cum val H.
    - rewrite app_nil_r. reflexivity.
    - unfold has_special in H. cbn [existsb] in H. apply orb_false_iff in H as [Hc Hn].
      destruct (not_special_chars c Hc) as (H1 & H2 & H3 & H4 & H5 & H6 & H7 & H8).
      cbn [app nw_run p_skip]. unfold nw_step. cbv beta iota.
      rewrite H1, H2, H3, H4, H5, H6, H7, H8. cbn [orb].
      rewrite (IH rest ab cu be d ctr has cum (val ++ [c]) Hn). rewrite <- app_assoc. reflexivity.
  Qed.

  Lemma run_token_cum x rest ab cu be d ctr st has val :
    not_val st -> no_quote x = true ->
    nw_run la pf (serialize x ++ rest) (mkP ab cu be d ctr st has [] val 0)
    = nw_run la pf rest (mkP ab cu be d ctr st has x val 0).
  Proof.
    intros Hst Hq. unfold serialize. destruct (has_special x) eqn:Hs.
    - rewrite (requote_id x Hq).
      replace ((39 :: x ++ [39]) ++ rest) with (39 :: (x ++ [39]) ++ rest) by reflexivity.
      cbn [nw_run p_skip]. unfold nw_step. cbv beta iota. cbn [N.eqb Pos.eqb orb].
      rewrite <- app_assoc. cbn [app]. rewrite (find_quote_app x rest Hq).
      replace (x ++ 39 :: rest) with ((x ++ [39]) ++ rest) by (rewrite <- app_assoc; reflexivity).
      replace (S (length x)) with (length (x ++ [39])) by (rewrite app_length; cbn; lia).
      destruct st; [| |contradiction]; cbn [is_nil negb]; rewrite run_skip; reflexivity.
    - rewrite run_chars_cum by assumption. reflexivity.
  Qed.

  Lemma run_token_val x rest ab cu be d ctr has cum :
    no_quote x = true ->
    nw_run la pf (serialize x ++ rest) (mkP ab cu be d ctr PVal has cum [] 0)
    = nw_run la pf rest (mkP ab cu be d ctr PVal has cum x 0).
  Proof.
    intros Hq. unfold serialize. destruct (has_special x) eqn:Hs.
    - rewrite (requote_id x Hq).
      replace ((39 :: x ++ [39]) ++ rest) with (39 :: (x ++ [39]) ++ rest) by reflexivity.
      cbn [nw_run p_skip]. unfold nw_step. cbv beta iota. cbn [N.eqb Pos.eqb orb].
      rewrite <- app_assoc. cbn [app]. rewrite (find_quote_app x rest Hq).
      replace (x ++ 39 :: rest) with ((x ++ [39]) ++ rest) by (rewrite <- app_assoc; reflexivity).
      replace (S (length x)) with (length (x ++ [39])) by (rewrite app_length; cbn; lia).
      cbn [is_nil negb]. rewrite run_skip. reflexivity.
    - rewrite run_chars_val by assumption. reflexivity.
  Qed.

  (* attribute list inside the brackets *)
  Definition item (kv : str * str) : str := serialize (fst kv) ++ [61] ++ serialize (snd kv).
  Definition has_key (k : str) (a : attrs) : bool := existsb (fun kv => str_eqb (fst kv) k) a.

  Lemma set_attr_fresh k v a : has_key k a = false -> set_attr k v a = a ++ [(k, v)].
  Proof. unfold set_attr, has_key. intros H. rewrite H. reflexivity. Qed.

  Lemma has_key_app k a b : has_key k (a ++ b) = has_key k a || has_key k b.
  Proof. unfold has_key. apply existsb_app. Qed.

  Definition kv_ok (kv : str * str) : Prop := key_ok (fst kv) = true /\ no_quote (snd kv) = true.

  Lemma key_ok_facts k : key_ok k = true -> k <> [] /\ no_quote k = true /\ reserved_key k = false.
  Proof.
    unfold key_ok. intros H. repeat (apply andb_true_iff in H as [H ?]).
    split; [destruct k; discriminate|]. split; [assumption|].
    unfold reserved_key. destruct k as [|c k]; [discriminate|].
    apply negb_true_iff in H1. apply negb_true_iff in H0. cbn [nilb] in *.
    rewrite H1. cbn [orb]. unfold key_name. exact H0.
  Qed.

  (* distinctness of the keys still to come w.r.t. the attributes already set *)
  Fixpoint fresh_keys (kvs : list (str * str)) (a : attrs) : Prop :=
    match kvs with
    | [] => True
    | (k, s) :: r => has_key k a = false /\ fresh_keys r (a ++ [(k, VStr s)])
    end.

  Definition kv_attrs (kvs : list (str * str)) : attrs := map (fun kv => (fst kv, VStr (snd kv))) kvs.

  Lemma items_run kvs : forall rest cu be d ctr g n a0 ab,
    kvs <> [] -> Forall kv_ok kvs -> fresh_keys kvs a0 ->
    nw_run la pf (join [58] (map item kvs) ++ 93 :: rest)
           (mkP [] (cu ++ [T g n a0 ab]) be d ctr PName true [] [] 0)
    = nw_run la pf rest (mkP [] (cu ++ [T g n (a0 ++ kv_attrs kvs) ab]) be d ctr PStr true [] [] 0).
  Proof.
    induction kvs as [|[k s] kvs IH]; intros rest cu be d ctr g n a0 ab Hne Hok Hfr; [contradiction|].
    inversion Hok as [|? ? [Hk Hs] Hoks]; subst. cbn [fst snd] in Hk, Hs.
    destruct (key_ok_facts k Hk) as (Hkne & Hkq & Hkr).
    cbn [fresh_keys] in Hfr. destruct Hfr as [Hfk Hfr].
    assert (Hset : set_last_attr k (VStr s) (cu ++ [T g n a0 ab]) = Ret (cu ++ [T g n (a0 ++ [(k, VStr s)]) ab])).
    { unfold set_last_attr. rewrite Hkr. rewrite on_last_app. cbn [tset_attr].
      rewrite (set_attr_fresh k (VStr s) a0 Hfk). reflexivity. }
    destruct kvs as [|kv2 kvs].
    - cbn [map join]. unfold item. cbn [fst snd]. rewrite <- !app_assoc.
      rewrite (run_token_cum k _ [] _ be d ctr PName true [] I Hkq).
      cbn [app nw_run p_skip]. unfold nw_step at 1. cbv beta iota. cbn [N.eqb Pos.eqb orb negb].
      destruct k as [|c0 k0]; [contradiction|]. cbn [is_nil negb].
      rewrite (run_token_val s _ [] _ be d ctr true (c0 :: k0) Hs).
      cbn [nw_run p_skip]. unfold nw_step at 1. cbv beta iota. cbn [N.eqb Pos.eqb orb negb].
      rewrite Hset. cbn [kv_attrs map fst snd]. reflexivity.
    - change (map item ((k, s) :: kv2 :: kvs)) with (item (k, s) :: map item (kv2 :: kvs)).
      change (join [58] (item (k, s) :: map item (kv2 :: kvs)))
        with (item (k, s) ++ [58] ++ join [58] (map item (kv2 :: kvs))).
      unfold item at 1. cbn [fst snd]. rewrite <- !app_assoc.
      rewrite (run_token_cum k _ [] _ be d ctr PName true [] I Hkq).
      cbn [app nw_run p_skip]. unfold nw_step at 1. cbv beta iota. cbn [N.eqb Pos.eqb orb negb].
      destruct k as [|c0 k0]; [contradiction|]. cbn [is_nil negb].
      rewrite (run_token_val s _ [] _ be d ctr true (c0 :: k0) Hs).
      cbn [nw_run p_skip]. unfold nw_step at 1. cbv beta iota. cbn [N.eqb Pos.eqb orb negb].
      rewrite Hset.
      refine (eq_trans (IH rest cu be d ctr g n (a0 ++ [(c0 :: k0, VStr s)]) ab ltac:(discriminate) Hoks Hfr) _).
      cbn [kv_attrs map fst snd]. rewrite <- app_assoc. reflexivity.
  Qed.
End Machine2.


(* ---- distinct key lists ---- *)
Lemma nodup_remove pre k r : names_nodup (pre ++ k :: r) = true -> names_nodup (pre ++ r) = true.
Proof.
  induction pre as [|x pre IH]; cbn [app names_nodup]; intros H.
  - apply andb_true_iff in H as [_ H]. exact H.
  - apply andb_true_iff in H as [H1 H2]. apply andb_true_iff. split; [|apply IH; exact H2].
    apply negb_true_iff in H1. apply negb_true_iff.
    rewrite existsb_app in H1 |- *. cbn [existsb] in H1.
    apply orb_false_iff in H1 as [A B]. apply orb_false_iff in B as [_ B]. rewrite A, B. reflexivity.
Qed.

Lemma nodup_app_notin ks0 k r :
  names_nodup (ks0 ++ k :: r) = true -> existsb (fun x => str_eqb x k) ks0 = false.
Proof.
  induction ks0 as [|x ks0 IH]; cbn [app names_nodup existsb]; intros H; [reflexivity|].
  apply andb_true_iff in H as [H1 H2]. rewrite (IH H2). rewrite orb_false_r.
  apply negb_true_iff in H1. rewrite existsb_app in H1. cbn [existsb] in H1.
  apply orb_false_iff in H1 as [_ B]. apply orb_false_iff in B as [B _]. exact B.
Qed.

Lemma has_key_map k a : has_key k a = existsb (fun x => str_eqb x k) (map fst a).
Proof. unfold has_key. induction a as [|kv a IH]; cbn [existsb map]; [reflexivity|]. rewrite IH. reflexivity. Qed.

Lemma fresh_from kvs : forall a0,
  names_nodup (map fst a0 ++ map fst kvs) = true -> fresh_keys kvs a0.
Proof.
  induction kvs as [|[k s] kvs IH]; intros a0 H; [exact I|].
  cbn [fresh_keys]. cbn [map fst] in H. split.
  - rewrite has_key_map. apply (nodup_app_notin _ k _ H).
  - apply IH. rewrite map_app. cbn [map fst]. rewrite <- app_assoc. exact H.
Qed.

Section Full.
  Variables (inter : bool) (len : str) (keys : list str) (pf : str).
  Definition oF : nwopt := NwOpt inter len keys pf true.
  Definition cfgF : nwcfg := NwCfg inter len [58] keys pf [58].
  Definition laF : str := la_of oF.

  Definition kv_pick (a : attrs) (k : str) : list (str * str) :=
    match attr_get k a with
    | Some (VStr s) => if nilb s then [] else [(k, s)]
    | _ => []
    end.
  Definition kvs_on (ks : list str) (a : attrs) : list (str * str) := flat_map (kv_pick a) ks.
  Definition kvs_of (a : attrs) := kvs_on keys a.

  Definition skip_len (isroot : bool) : bool := nilb len || isroot.

  Definition len_attr (isroot : bool) (a : attrs) : attrs :=
    if skip_len isroot then []
    else match attr_get len a with Some v => [(len, v)] | None => [] end.
  Definition len_text (isroot : bool) (a : attrs) : str :=
    if skip_len isroot then []
    else match attr_get len a with
         | Some v => match py_str v with Ret s => [58] ++ s | Raise _ => [] end
         | None => []
         end.
  (* a length value v whose written form s is read back as v itself: truthy, written with str(),
     the text is a plain token and int()/float() of it gives v again *)
  Definition lit_ok (v : val) (s : str) : Prop :=
    truthy v = true /\ py_str v = Ret s /\ s <> [] /\ has_special s = false /\ length_val s = Ret v.
  Definition attr_text (a : attrs) : str :=
    match kvs_of a with
    | [] => []
    | kvs => [91] ++ pf ++ join [58] (map item kvs) ++ [93]
    end.

  (* the label: suppressed on internal nodes when intermediate names are not written *)
  Definition name_text (leaf : bool) (n : str) : str := if inter || leaf then serialize n else [].

  Fixpoint text (isroot : bool) (t : tree) : str :=
    match t with
    | T _ n a ks =>
        match ks with
        | [] => (name_text true n ++ len_text isroot a) ++ attr_text a
        | _ => [40] ++ join [44] (map (text false) ks) ++ [41] ++ (name_text false n ++ len_text isroot a) ++ attr_text a
        end
    end.

  (* guards *)
  Definition keys_good : Prop :=
    Forall (fun k => key_ok k = true) keys /\ names_nodup keys = true
    /\ (nilb len = false -> key_ok len = true /\ existsb (str_eqb len) keys = false).

  Definition node_good (isroot : bool) (t : tree) : Prop :=
    node_in_alphabet oF t = true
    /\ (skip_len isroot = false -> exists v s, attr_get len (tattrs t) = Some v /\ lit_ok v s).

  Inductive good : bool -> tree -> Prop :=
  | good_node isroot g n a ks :
      node_good isroot (T g n a ks) -> names_nodup (map tname ks) = true ->
      Forall (good false) ks -> good isroot (T g n a ks).

  Lemma lookup_attr_get k a : lookup k a = match attr_get k a with Some v => v | None => VNone end.
  Proof. unfold lookup, attr_get. destruct (find _ a); reflexivity. Qed.

  Lemma len_ok_inv t : len_ok oF t = true -> exists p, attr_get len (tattrs t) = Some (VInt (Zpos p)).
  Proof.
    unfold len_ok. cbn [oF o_len]. destruct (attr_get len (tattrs t)) as [[| z | | |]|]; try discriminate.
    destruct z; try discriminate. intros _. eexists. reflexivity.
  Qed.

  Lemma lit_ok_int p : lit_ok (VInt (Zpos p)) (str_of_N (Npos p)).
  Proof.
    repeat split.
    - apply str_of_N_nonempty.
    - unfold str_of_N. apply uint_digits_plain.
    - apply length_val_pos.
  Qed.

  Lemma len_ok_lit t : len_ok oF t = true -> exists v s, attr_get len (tattrs t) = Some v /\ lit_ok v s.
  Proof.
    intros H. destruct (len_ok_inv t H) as [p Hp]. exists (VInt (Zpos p)), (str_of_N (Npos p)).
    split; [exact Hp|apply lit_ok_int].
  Qed.

  (* --- the writer --- *)
  Lemma name_str_good isroot leaf g n a ks :
    node_good isroot (T g n a ks) ->
    name_str cfgF isroot leaf n a = Ret (name_text leaf n ++ len_text isroot a).
  Proof.
    intros [_ Hl]. unfold name_str, len_text, skip_len, name_text in *. cbn [cfgF nw_inter nw_len nw_lsep].
    rewrite is_nil_nilb. destruct (nilb len) eqn:El; cbn [negb andb orb] in *.
    - rewrite app_nil_r. reflexivity.
    - destruct isroot; cbn [negb] in *; [rewrite app_nil_r; reflexivity|].
      destruct (Hl eq_refl) as (v & s & Hp & Htr & Hpy & _). cbn [tattrs] in Hp.
      rewrite lookup_attr_get, Hp, Htr, Hpy. reflexivity.
  Qed.

  Lemma attr_items_good a : forall ks,
    forallb (fun k => match attr_get k a with
                      | None => true | Some VNone => true
                      | Some (VStr s) => negb (nilb s) && no_quote s
                      | Some _ => false end) ks = true ->
    attr_items ks a = Ret (map item (kvs_on ks a)).
  Proof.
    induction ks as [|k ks IH]; intros H; [reflexivity|].
    cbn [forallb] in H. apply andb_true_iff in H as [Hk Hks].
    cbn [attr_items]. unfold kvs_on. cbn [flat_map]. fold (kvs_on ks a). rewrite map_app.
    rewrite (IH Hks). rewrite lookup_attr_get. unfold kv_pick.
    destruct (attr_get k a) as [[| z | s | b | x y]|]; try discriminate; try reflexivity.
    apply andb_true_iff in Hk as [Hs _]. cbn [truthy]. rewrite is_nil_nilb.
    destruct (nilb s); [discriminate|]. reflexivity.
  Qed.

  Lemma item_nonempty kv : item kv <> [].
  Proof. unfold item. destruct (serialize (fst kv)); discriminate. Qed.

  Lemma join_items_nil kvs : kvs <> [] -> is_nil (join [58] (map item kvs)) = false.
  Proof.
    destruct kvs as [|kv kvs]; [contradiction|]. intros _.
    pose proof (item_nonempty kv) as H.
    destruct kvs as [|kv2 kvs]; cbn [map join].
    - destruct (item kv); [contradiction|reflexivity].
    - destruct (item kv); [contradiction|reflexivity].
  Qed.

  Lemma attr_str_good isroot g n a ks :
    node_good isroot (T g n a ks) -> attr_str cfgF a = Ret (attr_text a).
  Proof.
    intros [Hn _]. unfold node_in_alphabet in Hn. apply andb_true_iff in Hn as [_ Hn].
    cbn [oF o_keys tattrs] in Hn.
    unfold attr_str, attr_text, kvs_of. cbn [cfgF nw_attrs nw_asep nw_prefix].
    destruct keys as [|k0 ks0] eqn:Ek; [reflexivity|]. rewrite <- Ek in *.
    rewrite (attr_items_good a keys Hn).
    destruct (kvs_on keys a) as [|kv kvs] eqn:E; [reflexivity|].
    rewrite join_items_nil by discriminate. reflexivity.
  Qed.

  Lemma nw_write_full t : forall isroot, good isroot t -> nw_write cfgF isroot t = Ret (text isroot t).
  Proof.
    induction t as [g n a ks IH] using tree_ind'. intros isroot Hg.
    inversion Hg as [? ? ? ? ? Hnode Hdup Hkids]; subst.
    cbn [nw_write text].
    rewrite (name_str_good isroot (is_nil ks) g n a ks Hnode).
    rewrite (attr_str_good isroot g n a ks Hnode).
    destruct ks as [|k ks]; [reflexivity|].
    assert (Hgo : forall l, Forall (fun t => forall isroot, good isroot t -> nw_write cfgF isroot t = Ret (text isroot t)) l ->
                  Forall (good false) l ->
             (fix go (l : list tree) : res (list str) :=
                   match l with
                   | [] => Ret []
                   | k0 :: r =>
                       match nw_write cfgF false k0 with
                       | Raise e => Raise e
                       | Ret s => match go r with Raise e => Raise e | Ret ss => Ret (s :: ss) end
                       end
                   end) l = Ret (map (text false) l)).
    { intros l Hl Hgl. induction Hl as [|x l Hx Hl IHl]; [reflexivity|].
      inversion Hgl as [|? ? Hgx Hgl']; subst.
      rewrite (Hx false Hgx). rewrite (IHl Hgl'). reflexivity. }
    rewrite (Hgo (k :: ks) IH Hkids). reflexivity.
  Qed.
End Full.


Section FullMachine.
  Variables (inter : bool) (len : str) (keys : list str) (pf : str).
  Let la := laF inter len keys pf.

  Hypothesis Hkeys : keys_good len keys.

  (* the state in which a node's text has been consumed and only the terminator is missing *)
  Definition ready (s : pst) (cu : list tree) (be : list (list tree)) (d : Z) (ctr : nat) (V : tree) : Prop :=
    p_state s = PStr /\ p_val s = [] /\ p_skip s = 0%nat /\ p_below s = be /\ p_depth s = d /\
    create_node on_last la (p_has s) (p_cum s) (p_ctr s) (p_above s) (p_cur s) = Ret (ctr, cu ++ [V]) /\
    (cu = [] -> match p_cur s with
                | [] => p_has s = false
                | _ => create_node on_first la true (p_cum s) (p_ctr s) (p_above s) (p_cur s) = Ret (ctr, [V])
                end).

  Lemma ready_comma s cu be d ctr V rest :
    ready s cu be d ctr V ->
    nw_run la pf (44 :: rest) s = nw_run la pf rest (St [] (cu ++ [V]) be d ctr []).
  Proof.
    destruct s as [ab cu0 be0 d0 ctr0 st has cum val sk].
    intros (H1 & H2 & H3 & H4 & H5 & H6 & _). cbn [p_state p_val p_skip p_below p_depth p_has p_cum p_ctr p_above p_cur] in *.
    subst. cbn [nw_run p_skip]. unfold nw_step. cbn [N.eqb Pos.eqb orb andb].
    rewrite H6. reflexivity.
  Qed.

  Lemma ready_close s cu be d ctr V rest :
    ready s cu be d ctr V ->
    nw_run la pf (41 :: rest) s = nw_run la pf rest (St (cu ++ [V]) (hd [] be) (tl be) (d - 1) ctr []).
  Proof.
    destruct s as [ab cu0 be0 d0 ctr0 st has cum val sk].
    intros (H1 & H2 & H3 & H4 & H5 & H6 & _). cbn [p_state p_val p_skip p_below p_depth p_has p_cum p_ctr p_above p_cur] in *.
    subst. cbn [nw_run p_skip]. unfold nw_step. cbn [N.eqb Pos.eqb orb andb].
    rewrite H6. reflexivity.
  Qed.

  Lemma ready_finish s be ctr V : ready s [] be 1%Z ctr V -> nw_finish la s = Ret V.
  Proof.
    destruct s as [ab cu0 be0 d0 ctr0 st has cum val sk].
    intros (H1 & H2 & H3 & H4 & H5 & H6 & H7). cbn [p_state p_val p_skip p_below p_depth p_has p_cum p_ctr p_above p_cur] in *.
    specialize (H7 eq_refl). subst. unfold nw_finish. cbn [p_depth p_cur p_cum p_ctr p_above Z.eqb Pos.eqb negb].
    destruct cu0 as [|x cu0].
    - subst has. rewrite H6. reflexivity.
    - rewrite H7. reflexivity.
  Qed.

  Lemma laF_len : nilb len = false -> la = len.
  Proof. unfold la, laF, la_of. cbn [oF o_len]. intros ->. reflexivity. Qed.

  (* the part of a node's text after its label: length and attributes.  cum0 is the pending label
     ("" when the label is suppressed), nm / ctr' the name and counter _create_node will produce *)
  Lemma node_tail isroot g n a ks0 (ab : list tree) rest cu be d ctr cum0 nm ctr' :
    node_good inter len keys pf isroot (T g n a ks0) ->
    create_node on_last la false cum0 ctr ab cu = Ret (ctr', cu ++ [T None nm [] ab]) ->
    exists s',
      nw_run la pf (len_text len isroot a ++ attr_text keys pf a ++ rest) (St ab cu be d ctr cum0)
      = nw_run la pf rest s'
      /\ ready s' cu be d ctr' (T None nm (len_attr len isroot a ++ kv_attrs (kvs_of keys a)) ab).
  Proof.
    intros [Hn Hl] Hcreate.
    destruct Hkeys as (Hkok & Hknd & Hklen).
    pose proof Hn as Hn'. unfold node_in_alphabet in Hn'. apply andb_true_iff in Hn' as [Hname Hvals].
    cbn [tname tattrs oF o_keys] in Hname, Hvals.
    (* the attribute items are well formed *)
    assert (Hkv : Forall kv_ok (kvs_of keys a)).
    { unfold kvs_of. clear - Hkok Hvals. induction keys as [|k ks IH]; [constructor|].
      inversion Hkok as [|? ? Hk Hks]; subst. cbn [forallb] in Hvals. apply andb_true_iff in Hvals as [Hv Hvs].
      unfold kvs_on. cbn [flat_map]. apply Forall_app. split; [|apply IH; assumption].
      unfold kv_pick. revert Hv. destruct (attr_get k a) as [[| z | s | b | x y]|]; intros Hv; try constructor.
      destruct (nilb s) eqn:Es; [constructor|]. constructor; [|constructor].
      split; [exact Hk|]. cbn [snd negb andb] in Hv |- *. exact Hv. }
    assert (Hsub : forall pre, names_nodup (pre ++ keys) = true ->
                               names_nodup (pre ++ map fst (kvs_of keys a)) = true).
    { unfold kvs_of. clear. induction keys as [|k ks IH]; intros pre H; [exact H|].
      unfold kvs_on. cbn [flat_map]. rewrite map_app. fold (kvs_on ks a).
      unfold kv_pick at 1.
      destruct (attr_get k a) as [[| z | s | b | x y]|]; cbn [map app];
        try (apply IH; apply (nodup_remove pre k ks H)).
      destruct (nilb s); cbn [map app fst].
      - apply IH. apply (nodup_remove pre k ks H).
      - replace (pre ++ k :: map fst (kvs_on ks a)) with ((pre ++ [k]) ++ map fst (kvs_on ks a))
          by (rewrite <- app_assoc; reflexivity).
        apply IH. rewrite <- app_assoc. exact H. }
    unfold len_text, len_attr, attr_text.
    destruct (skip_len len isroot) eqn:Esk.
    - (* no length *)
      cbn [app].
      destruct (kvs_of keys a) as [|kv kvs] eqn:Ekv.
      + (* label only *)
        cbn [app].
        eexists. split; [reflexivity|].
        unfold ready, St. cbn [p_state p_val p_skip p_below p_depth p_has p_cum p_ctr p_above p_cur kv_attrs map].
        repeat split.
        * exact Hcreate.
        * intros ->. reflexivity.
      + (* label [attrs] *)
        cbn [app]. rewrite <- !app_assoc. rewrite run_cons.
        assert (Hstep : forall rest', nw_step la pf 91 (pf ++ rest') (St ab cu be d ctr cum0)
                        = Ret (mkP [] (cu ++ [T None nm [] ab]) be d ctr' PName true [] [] (length pf))).
        { intros rest'. unfold nw_step, St. cbn [N.eqb Pos.eqb orb andb]. rewrite startswith_app.
          rewrite Hcreate. reflexivity. }
        rewrite Hstep. rewrite run_skip.
        rewrite <- Ekv in *.
        assert (Hne_kv : kvs_of keys a <> []) by (rewrite Ekv; discriminate).
        pose proof (fresh_from (kvs_of keys a) [] (Hsub [] Hknd)) as Hfr.
        cbn [app].
        rewrite (items_run la pf (kvs_of keys a) rest cu be d ctr' None nm [] ab Hne_kv Hkv Hfr).
        eexists. split; [reflexivity|].
        unfold ready. cbn [p_state p_val p_skip p_below p_depth p_has p_cum p_ctr p_above p_cur app].
        repeat split.
        intros ->. cbn [app]. reflexivity.
    - (* length *)
      unfold skip_len in Esk. apply orb_false_iff in Esk as [Elen Eroot].
      destruct (Hl eq_refl) as (v & s & Hp & _ & Hpy & Hdig & Hplain & Hlv).
      cbn [tattrs] in Hp. rewrite Hp, Hpy.
      destruct (Hklen Elen) as [Hlk Hlnotin].
      destruct (key_ok_facts len Hlk) as (_ & _ & Hlres).
      pose proof (laF_len Elen) as Ela.
      assert (Hcolon : forall rest', nw_step la pf 58 rest' (St ab cu be d ctr cum0)
                       = Ret (mkP [] (cu ++ [T None nm [] ab]) be d ctr' PStr true [] [] 0)).
      { intros rest'. unfold nw_step, St. cbn [N.eqb Pos.eqb orb andb].
        rewrite Hcreate. reflexivity. }
      assert (Hsetlen : forall sel, (forall (f : tree -> tree) x, sel f (cu ++ [x]) = cu ++ [f x]) ->
                 create_node sel la true (s) ctr' [] (cu ++ [T None nm [] ab])
                 = Ret (ctr', cu ++ [T None nm [(len, v)] ab])).
      { intros sel Hsel. unfold create_node. destruct s as [|c0 r0]; [contradiction|].
        rewrite Ela, Hlres, Hlv. unfold attach. rewrite Hsel. reflexivity. }
      destruct (kvs_of keys a) as [|kv kvs] eqn:Ekv.
      + (* label:len *)
        cbn [app]. rewrite run_cons, Hcolon.
        rewrite (run_chars_cum la pf s rest [] _ be d ctr' PStr true [] [] I Hplain).
        cbn [app].
        eexists. split; [reflexivity|].
        unfold ready. cbn [p_state p_val p_skip p_below p_depth p_has p_cum p_ctr p_above p_cur kv_attrs map].
        repeat split.
        * apply Hsetlen. intros f x. apply on_last_app.
        * intros ->. cbn [app]. apply (Hsetlen on_first). intros f x. reflexivity.
      + (* label:len[attrs] *)
        rewrite <- !app_assoc.
        cbn [app]. rewrite run_cons, Hcolon.
        rewrite (run_chars_cum la pf s _ [] _ be d ctr' PStr true [] [] I Hplain).
        cbn [app].
        cbn [nw_run p_skip].
        assert (Hstep : forall rest', nw_step la pf 91 (pf ++ rest')
                                (mkP [] (cu ++ [T None nm [] ab]) be d ctr' PStr true (s) [] 0)
                        = Ret (mkP [] (cu ++ [T None nm [(len, v)] ab]) be d ctr' PName true [] [] (length pf))).
        { intros rest'. unfold nw_step. cbn [N.eqb Pos.eqb orb andb]. rewrite startswith_app.
          rewrite (Hsetlen on_last (fun f x => on_last_app f cu x)). reflexivity. }
        rewrite Hstep. rewrite run_skip.
        rewrite <- Ekv in *.
        assert (Hne_kv : kvs_of keys a <> []) by (rewrite Ekv; discriminate).
        assert (Hnd : names_nodup ([len] ++ keys) = true).
        { cbn [app names_nodup]. rewrite Hlnotin, Hknd. reflexivity. }
        pose proof (fresh_from (kvs_of keys a) [(len, v)] (Hsub [len] Hnd)) as Hfr.
        cbn [app].
        rewrite (items_run la pf (kvs_of keys a) rest cu be d ctr' None nm _ ab Hne_kv Hkv Hfr).
        eexists. split; [reflexivity|].
        unfold ready. cbn [p_state p_val p_skip p_below p_depth p_has p_cum p_ctr p_above p_cur app].
        repeat split.
        intros ->. cbn [app]. reflexivity.
  Qed.

  (* name and counter _create_node gives to a node *)
  Definition out_name (leaf : bool) (n : str) (ctr : nat) : str :=
    if inter || leaf then n else node_word ++ str_of_nat ctr.
  Definition out_ctr (leaf : bool) (ctr : nat) : nat := if inter || leaf then ctr else S ctr.

  Lemma create_blank ctr ks cu :
    dup_names ks = false ->
    create_node on_last la false [] ctr ks cu = Ret (S ctr, cu ++ [T None (node_word ++ str_of_nat ctr) [] ks]).
  Proof.
    intros Hd. unfold create_node. unfold attach. destruct ks as [|k ks]; [reflexivity|].
    rewrite Hd. rewrite on_last_app. reflexivity.
  Qed.

  (* the part of a node's text after its children *)
  Lemma node_run isroot leaf g n a ks0 (ab : list tree) rest cu be d ctr :
    node_good inter len keys pf isroot (T g n a ks0) -> dup_names ab = false ->
    exists s',
      nw_run la pf ((name_text inter leaf n ++ len_text len isroot a) ++ attr_text keys pf a ++ rest)
             (St ab cu be d ctr [])
      = nw_run la pf rest s'
      /\ ready s' cu be d (out_ctr leaf ctr)
               (T None (out_name leaf n ctr) (len_attr len isroot a ++ kv_attrs (kvs_of keys a)) ab).
  Proof.
    intros Hnode Hdup.
    pose proof Hnode as [Hn _]. unfold node_in_alphabet in Hn. apply andb_true_iff in Hn as [Hname _].
    cbn [tname] in Hname. destruct (name_ok_inv n Hname) as [Hne Hq].
    unfold name_text, out_name, out_ctr. rewrite <- app_assoc.
    destruct (inter || leaf).
    - rewrite (run_name la pf n _ ab cu be d ctr Hq).
      apply (node_tail isroot g n a ks0 ab rest cu be d ctr n n ctr Hnode).
      apply create_plain; assumption.
    - cbn [app].
      apply (node_tail isroot g n a ks0 ab rest cu be d ctr [] _ (S ctr) Hnode).
      apply create_blank. exact Hdup.
  Qed.
End FullMachine.


(* ---- the names the importer invents ---- *)
Definition autoname (i : nat) : str := node_word ++ str_of_nat i.

Lemma uint_digits_inj d : forall d', uint_digits d = uint_digits d' -> d = d'.
Proof.
  induction d; intros d' H; destruct d'; cbn [uint_digits] in H; try discriminate; try reflexivity;
    inversion H as [H1]; f_equal; apply IHd; exact H1.
Qed.

Lemma to_uint_nonnil n : Nat.to_uint n <> Decimal.Nil.
Proof.
  pose proof (DecimalNat.Unsigned.to_of (Nat.to_uint n)) as H.
  rewrite DecimalNat.Unsigned.of_to in H. rewrite H.
  unfold Decimal.unorm. destruct (Decimal.nzhead (Nat.to_uint n)); discriminate.
Qed.

Lemma autoname_inj i j : autoname i = autoname j -> i = j.
Proof.
  unfold autoname, str_of_nat. intros H. apply app_inv_head in H.
  apply uint_digits_inj in H. apply DecimalNat.Unsigned.to_uint_inj. exact H.
Qed.

Lemma autoname_auto i : auto_name (autoname i) = true.
Proof.
  unfold autoname, str_of_nat, node_word.
  pose proof (to_uint_nonnil i) as Hn. pose proof (uint_digits_digit (Nat.to_uint i)) as Hd.
  destruct (Nat.to_uint i) eqn:E; try contradiction; cbn [uint_digits app auto_name] in *; exact Hd.
Qed.


Section FullTree.
  Variables (inter : bool) (len : str) (keys : list str) (pf : str).
  Let la := laF inter len keys pf.
  Hypothesis Hkeys : keys_good len keys.

  (* the tree the importer rebuilds: rb isroot c t v c' -- starting with unlabelled-node counter c,
     t is rebuilt as v and the counter becomes c' *)
  Inductive rb : bool -> nat -> tree -> tree -> nat -> Prop :=
  | rb_node isroot c g n a ks ks' c1 :
      rbf c ks ks' c1 ->
      rb isroot c (T g n a ks)
         (T None (out_name inter (nilb ks) n c1) (len_attr len isroot a ++ kv_attrs (kvs_of keys a)) ks')
         (out_ctr inter (nilb ks) c1)
  with rbf : nat -> list tree -> list tree -> nat -> Prop :=
  | rbf_nil c : rbf c [] [] c
  | rbf_cons c k k' c' r r' c'' : rb false c k k' c' -> rbf c' r r' c'' -> rbf c (k :: r) (k' :: r') c''.

  Lemma out_ctr_le leaf c : (c <= out_ctr inter leaf c)%nat.
  Proof. unfold out_ctr. destruct (inter || leaf); lia. Qed.

  Scheme rb_mut := Induction for rb Sort Prop
  with rbf_mut := Induction for rbf Sort Prop.

  Lemma rb_mono : forall isroot c t v c', rb isroot c t v c' -> (c <= c')%nat.
  Proof.
    apply (rb_mut (fun isroot c t v c' _ => (c <= c')%nat) (fun c ks ks' c' _ => (c <= c')%nat)).
    - intros isroot c g n a ks ks' c1 _ IH. pose proof (out_ctr_le (nilb ks) c1). lia.
    - intros. lia.
    - intros. lia.
  Qed.
  Lemma rbf_mono : forall c ks ks' c', rbf c ks ks' c' -> (c <= c')%nat.
  Proof.
    apply (rbf_mut (fun isroot c t v c' _ => (c <= c')%nat) (fun c ks ks' c' _ => (c <= c')%nat)).
    - intros isroot c g n a ks ks' c1 _ IH. pose proof (out_ctr_le (nilb ks) c1). lia.
    - intros. lia.
    - intros. lia.
  Qed.

  (* the name of a rebuilt node: the original one, or an invented one numbered inside [c, c') *)
  Lemma rb_name isroot c t v c' :
    rb isroot c t v c' ->
    tname v = tname t \/ (inter = false /\ exists i, (c <= i < c')%nat /\ tname v = autoname i).
  Proof.
    intros H. inversion H as [? ? g n a ks ks' c1 Hf]; subst. cbn [tname].
    unfold out_name, out_ctr. destruct inter; cbn [orb]; [left; reflexivity|].
    destruct (nilb ks); [left; reflexivity|].
    right. split; [reflexivity|]. exists c1. pose proof (rbf_mono _ _ _ _ Hf). split; [lia|reflexivity].
  Qed.

  Definition no_auto (t : tree) : Prop := inter = false -> auto_name (tname t) = false.

  (* names of rebuilt siblings are distinct *)
  Lemma rbf_names c ks ks' c' :
    rbf c ks ks' c' ->
    Forall (fun x => (exists k, In k ks /\ x = tname k)
                     \/ (inter = false /\ exists i, (c <= i)%nat /\ x = autoname i)) (map tname ks').
  Proof.
    induction 1 as [c|c k k' c1 r r' c2 Hk Hr IH]; [constructor|].
    cbn [map]. constructor.
    - destruct (rb_name _ _ _ _ _ Hk) as [E|(Ei & i & Hi & E)].
      + left. exists k. split; [left; reflexivity|exact E].
      + right. split; [exact Ei|]. exists i. split; [lia|exact E].
    - eapply Forall_impl; [|exact IH]. intros x [(kj & Hin & E)|(Ei & i & Hi & E)].
      + left. exists kj. split; [right; exact Hin|exact E].
      + right. split; [exact Ei|]. exists i. pose proof (rb_mono _ _ _ _ _ Hk). split; [lia|exact E].
  Qed.

  Lemma existsb_str_false x l : (forall y, In y l -> x <> y) -> existsb (str_eqb x) l = false.
  Proof.
    intros H. induction l as [|y l IH]; [reflexivity|].
    cbn [existsb]. rewrite IH by (intros z Hz; apply H; right; exact Hz).
    rewrite orb_false_r. apply str_eqb_neq. apply H. left. reflexivity.
  Qed.

  Lemma nodup_notin x l : names_nodup (x :: l) = true -> forall y, In y l -> x <> y.
  Proof.
    cbn [names_nodup]. intros H y Hy E. subst y. apply andb_true_iff in H as [H _].
    apply negb_true_iff in H.
    assert (existsb (str_eqb x) l = true).
    { apply existsb_exists. exists x. split; [exact Hy|apply str_eqb_refl]. }
    congruence.
  Qed.

  Lemma rbf_nodup c ks ks' c' :
    rbf c ks ks' c' -> names_nodup (map tname ks) = true -> Forall no_auto ks ->
    names_nodup (map tname ks') = true.
  Proof.
    induction 1 as [c|c k k' c1 r r' c2 Hk Hr IH]; intros Hnd Hna; [reflexivity|].
    inversion Hna as [|? ? Hna_k Hna_r]; subst.
    cbn [map names_nodup] in Hnd |- *. pose proof Hnd as Hnd'. apply andb_true_iff in Hnd' as [_ Hnd_r].
    rewrite (IH Hnd_r Hna_r). rewrite andb_true_r. apply negb_true_iff.
    apply existsb_str_false. intros y Hy.
    pose proof (rbf_names _ _ _ _ Hr) as Hnames. eapply Forall_forall in Hnames; [|exact Hy].
    destruct (rb_name _ _ _ _ _ Hk) as [E|(Ei & i & Hi & E)]; rewrite E.
    - destruct Hnames as [(kj & Hin & Ey)|(Ei & j & Hj & Ey)]; subst y.
      + apply (nodup_notin _ _ Hnd). apply in_map. exact Hin.
      + intros Eq. pose proof (Hna_k Ei) as Hf. rewrite Eq, autoname_auto in Hf. discriminate.
    - destruct Hnames as [(kj & Hin & Ey)|(_ & j & Hj & Ey)]; subst y.
      + intros Eq. eapply Forall_forall in Hna_r; [|exact Hin].
        pose proof (Hna_r Ei) as Hf. rewrite <- Eq, autoname_auto in Hf. discriminate.
      + intros Eq. apply autoname_inj in Eq. lia.
  Qed.

  (* guards: as before, plus no reserved (nodeN) name when labels are suppressed *)
  Inductive good2 : bool -> tree -> Prop :=
  | good2_node isroot g n a ks :
      node_good inter len keys pf isroot (T g n a ks) -> names_nodup (map tname ks) = true ->
      Forall no_auto ks -> Forall (good2 false) ks -> good2 isroot (T g n a ks).

  Definition core2 (isroot : bool) (t : tree) : Prop :=
    forall rest cu be d ctr, exists s' v ctr',
      rb isroot ctr t v ctr'
      /\ nw_run la pf (text inter len keys pf isroot t ++ rest) (St [] cu be d ctr []) = nw_run la pf rest s'
      /\ ready inter len keys pf s' cu be d ctr' v.

  Lemma forest2 ks :
    ks <> [] -> Forall (core2 false) ks ->
    forall rest cu be d ctr, exists ks' ctr',
      rbf ctr ks ks' ctr'
      /\ nw_run la pf (join [44] (map (text inter len keys pf false) ks) ++ 41 :: rest) (St [] cu be d ctr [])
         = nw_run la pf rest (St (cu ++ ks') (hd [] be) (tl be) (d - 1) ctr' []).
  Proof.
    induction ks as [|k ks IH]; intros Hne Hc rest cu be d ctr; [contradiction|].
    inversion Hc as [|? ? Hk Hks]; subst.
    destruct ks as [|k2 ks].
    - cbn [map join]. destruct (Hk (41 :: rest) cu be d ctr) as (s' & v & c' & R & E & Rd).
      exists [v], c'. split; [econstructor; [exact R|constructor]|].
      rewrite E. apply (ready_close inter len keys pf s' cu be d c' _ rest Rd).
    - change (map (text inter len keys pf false) (k :: k2 :: ks))
        with (text inter len keys pf false k :: map (text inter len keys pf false) (k2 :: ks)).
      change (join [44] (text inter len keys pf false k :: map (text inter len keys pf false) (k2 :: ks)))
        with (text inter len keys pf false k ++ [44] ++ join [44] (map (text inter len keys pf false) (k2 :: ks))).
      rewrite <- !app_assoc. cbn [app].
      destruct (Hk (44 :: join [44] (map (text inter len keys pf false) (k2 :: ks)) ++ 41 :: rest) cu be d ctr)
        as (s' & v & c' & R & E & Rd).
      destruct (IH ltac:(discriminate) Hks rest (cu ++ [v]) be d c') as (ks' & c'' & Rf & Ef).
      exists (v :: ks'), c''. split; [econstructor; eassumption|].
      rewrite E. rewrite (ready_comma inter len keys pf s' cu be d c' _ _ Rd).
      etransitivity; [exact Ef|]. rewrite <- app_assoc. reflexivity.
  Qed.

  Lemma rbf_tnames_inter c ks ks' c' : rbf c ks ks' c' -> inter = true -> map tname ks' = map tname ks.
  Proof.
    induction 1 as [c|c k k' c1 r r' c2 Hk Hr IH]; intros Ei; [reflexivity|].
    cbn [map]. rewrite (IH Ei). f_equal.
    destruct (rb_name _ _ _ _ _ Hk) as [E|(Ef & _)]; [exact E|congruence].
  Qed.

  Lemma core2_all t : forall isroot, good2 isroot t -> core2 isroot t.
  Proof.
    induction t as [g n a ks IH] using tree_ind'. intros isroot Hg.
    inversion Hg as [? ? ? ? ? Hnode Hdup Hna Hkids]; subst.
    intros rest cu be d ctr. cbn [text].
    destruct ks as [|k ks].
    - rewrite <- app_assoc.
      destruct (node_run inter len keys pf Hkeys isroot true g n a [] [] rest cu be d ctr Hnode eq_refl) as (s' & E & R).
      eexists s', _, _. split; [apply (rb_node isroot ctr g n a [] [] ctr); constructor|].
      split; [exact E|exact R].
    - assert (Hcore : Forall (core2 false) (k :: ks)).
      { apply Forall_forall. intros x Hx. eapply Forall_forall in IH; eauto. apply IH.
        eapply Forall_forall in Hkids; eauto. }
      rewrite <- !app_assoc. cbn [app]. rewrite run_cons, step_open.
      destruct (forest2 (k :: ks) ltac:(discriminate) Hcore
                        (name_text inter false n ++ len_text len isroot a ++ attr_text keys pf a ++ rest)
                        [] (cu :: be) (d + 1)%Z ctr) as (ks' & c1 & Rf & Ef).
      rewrite Ef. cbn [hd tl app]. replace (d + 1 - 1)%Z with d by lia. rewrite app_assoc.
      assert (Hdupv : dup_names ks' = false).
      { unfold dup_names. rewrite str_nodupb_names. rewrite (rbf_nodup _ _ _ _ Rf Hdup Hna). reflexivity. }
      destruct (node_run inter len keys pf Hkeys isroot false g n a (k :: ks) ks' rest cu be d c1 Hnode Hdupv)
        as (s' & E & R).
      eexists s', _, _. split; [apply (rb_node isroot ctr g n a (k :: ks) ks' c1 Rf)|].
      split; [exact E|exact R].
  Qed.

  Lemma text_nonempty2 isroot t : good2 isroot t -> text inter len keys pf isroot t <> [].
  Proof.
    intros Hg. inversion Hg as [? g n a ks [Hn _] _ _ _]; subst.
    unfold node_in_alphabet in Hn. apply andb_true_iff in Hn as [Hn _]. cbn [tname] in Hn.
    apply name_ok_inv in Hn as [Hne _].
    cbn [text]. destruct ks; [|discriminate].
    unfold name_text. rewrite orb_true_r.
    unfold serialize. destruct (has_special n); [discriminate|].
    destruct n; [contradiction|discriminate].
  Qed.

  Theorem nw_parse_full2 isroot t :
    good2 isroot t ->
    exists v c', rb isroot 0 t v c' /\ nw_parse la pf (text inter len keys pf isroot t) = Ret v.
  Proof.
    intros Hg. pose proof (text_nonempty2 isroot t Hg) as Hne.
    assert (Hp : forall s, s <> [] ->
                 nw_parse la pf s = match nw_run la pf s p_init with
                                    | Raise e => Raise e
                                    | Ret st => nw_finish la st
                                    end).
    { intros [|c0 s0] Hs; [contradiction|reflexivity]. }
    rewrite (Hp _ Hne). clear Hp Hne.
    destruct (core2_all t isroot Hg [] [] [] 1%Z 0%nat) as (s' & v & c' & R & E & Rd).
    exists v, c'. split; [exact R|].
    rewrite app_nil_r in E. change p_init with (St [] [] [] 1 0 []). rewrite E. cbn [nw_run].
    apply (ready_finish inter len keys pf s' [] c' _ Rd).
  Qed.
End FullTree.


(* ------------------------------------------------------------------------------------------ *)
(* the reference reader on the full writer output                                              *)

Definition stopb (rest : str) : bool :=
  match rest with [] => true | c :: _ => newick_special c end.

Lemma span_plain_stop n : forall rest,
  has_special n = false -> stopb rest = true ->
  span_p (fun c => negb (newick_special c)) (n ++ rest) = (n, rest).
Proof.
  induction n as [|c n IH]; intros rest Hs Ht.
  - cbn [app]. destruct rest as [|c r]; [reflexivity|].
    cbn [span_p]. cbn [stopb] in Ht. rewrite Ht. reflexivity.
  - unfold has_special in Hs. cbn [existsb] in Hs. apply orb_false_iff in Hs as [Hc Hn].
    cbn [app span_p]. change (newick_special c) with (memN c nw_specials). rewrite Hc. cbn [negb].
    rewrite (IH rest Hn Ht). reflexivity.
Qed.

Lemma rd_label_stop n rest :
  no_quote n = true -> n <> [] -> stopb rest = true ->
  rd_label (serialize n ++ rest) = Some (n, rest).
Proof.
  intros Hq Hne Ht. unfold serialize. destruct (has_special n) eqn:Hs.
  - rewrite (requote_id n Hq). cbn [app rd_label]. unfold q. cbn [N.eqb Pos.eqb].
    rewrite <- app_assoc. cbn [app]. apply rd_quoted_app. exact Hq.
  - destruct n as [|c n]; [contradiction|].
    pose proof Hs as Hs'. unfold has_special in Hs'. cbn [existsb] in Hs'.
    apply orb_false_iff in Hs' as [Hc _].
    destruct (not_special_chars c Hc) as (_ & _ & _ & _ & _ & H6 & _ & _).
    cbn [app rd_label]. unfold q. rewrite H6.
    change (c :: n ++ rest) with ((c :: n) ++ rest). rewrite (span_plain_stop (c :: n) rest Hs Ht).
    reflexivity.
Qed.

(* digits *)
Lemma span_digits d : forall rest,
  match rest with [] => true | c :: _ => negb (digitb c) end = true ->
  span_p digitb (uint_digits d ++ rest) = (uint_digits d, rest).
Proof.
  intros rest Hr.
  assert (G : forall l, forallb digitb l = true -> span_p digitb (l ++ rest) = (l, rest)).
  { induction l as [|c l IH]; intros Hl.
    - cbn [app]. destruct rest as [|c r]; [reflexivity|]. cbn [span_p].
      apply negb_true_iff in Hr. rewrite Hr. reflexivity.
    - cbn [forallb] in Hl. apply andb_true_iff in Hl as [Hc Hl].
      cbn [app span_p]. rewrite Hc, (IH Hl). reflexivity. }
  apply G. clear. induction d; cbn [uint_digits forallb]; try reflexivity; rewrite IHd; reflexivity.
Qed.

Lemma digits_value_str p : digits_value (str_of_N (Npos p)) = Zpos p.
Proof.
  unfold digits_value. pose proof (N_of_digits_str (Npos p)) as H. unfold N_of_digits in H.
  rewrite H. reflexivity.
Qed.

Lemma rd_kvs_items kvs : forall fuel rest,
  kvs <> [] -> Forall kv_ok kvs ->
  Forall (fun kv : str * str => snd kv <> []) kvs ->
  (length kvs <= fuel)%nat ->
  rd_kvs fuel (join [58] (map item kvs) ++ 93 :: rest) = Some (kv_attrs kvs, rest).
Proof.
  induction kvs as [|[k s] kvs IH]; intros fuel rest Hne Hok Hsn Hf; [contradiction|].
  inversion Hok as [|? ? [Hk Hs] Hoks]; subst. cbn [fst snd] in Hk, Hs.
  inversion Hsn as [|? ? Hs1 Hsns]; subst. cbn [snd] in Hs1.
  destruct (key_ok_facts k Hk) as (Hkne & Hkq & _).
  destruct fuel as [|f]; [cbn in Hf; lia|]. cbn [length] in Hf.
  destruct kvs as [|kv2 kvs].
  - cbn [map join]. unfold item. cbn [fst snd rd_kvs]. rewrite <- !app_assoc. cbn [app].
    rewrite (rd_label_stop k (61 :: _) Hkq Hkne eq_refl). cbn [N.eqb Pos.eqb].
    rewrite (rd_label_stop s (93 :: _) Hs Hs1 eq_refl). cbn [N.eqb Pos.eqb]. reflexivity.
  - change (map item ((k, s) :: kv2 :: kvs)) with (item (k, s) :: map item (kv2 :: kvs)).
    change (join [58] (item (k, s) :: map item (kv2 :: kvs)))
      with (item (k, s) ++ [58] ++ join [58] (map item (kv2 :: kvs))).
    unfold item at 1. cbn [fst snd rd_kvs]. rewrite <- !app_assoc. cbn [app].
    rewrite (rd_label_stop k (61 :: _) Hkq Hkne eq_refl). cbn [N.eqb Pos.eqb].
    rewrite (rd_label_stop s (58 :: _) Hs Hs1 eq_refl). cbn [N.eqb Pos.eqb].
    rewrite (IH f rest ltac:(discriminate) Hoks Hsns ltac:(cbn [length] in *; lia)).
    reflexivity.
Qed.

Lemma special_not_digit c : newick_special c = true -> digitb c = false.
Proof.
  unfold newick_special, memN. cbn [existsb]. intros H.
  repeat (apply orb_true_iff in H as [H|H]; [apply N.eqb_eq in H; subst; reflexivity|]).
  discriminate.
Qed.

Lemma skipn_app_exact {A} (p x : list A) : skipn (length p) (p ++ x) = x.
Proof. induction p as [|a p IH]; [reflexivity|]. cbn [length app skipn]. exact IH. Qed.

Lemma join_items_len kvs : (length kvs <= length (join [58%N] (map item kvs)))%nat.
Proof.
  induction kvs as [|kv kvs IH]; [cbn; lia|].
  pose proof (item_nonempty kv) as Hi.
  assert (1 <= length (item kv))%nat by (destruct (item kv); [contradiction|cbn; lia]).
  destruct kvs as [|kv2 kvs].
  - cbn [map join length]. lia.
  - change (map item (kv :: kv2 :: kvs)) with (item kv :: map item (kv2 :: kvs)).
    change (join [58] (item kv :: map item (kv2 :: kvs)))
      with (item kv ++ [58] ++ join [58] (map item (kv2 :: kvs))).
    rewrite !app_length. cbn [length] in *. lia.
Qed.

Lemma match_nocolon {B} (R : str) (f : N -> str -> B) (y : B) :
  match R with c :: _ => N.eqb c 58 = false | [] => True end ->
  match R with c :: r => if N.eqb c 58 then f c r else y | [] => y end = y.
Proof. destruct R; intros H; [reflexivity|rewrite H; reflexivity]. Qed.

Lemma rd_label_blank R :
  match R with [] => true | c :: _ => N.eqb c 58 || N.eqb c 91 || N.eqb c 44 || N.eqb c 41 end = true ->
  rd_label R = Some ([], R).
Proof.
  destruct R as [|c r]; [reflexivity|]. intros H. cbn [rd_label].
  repeat (apply orb_true_iff in H as [H|H]); apply N.eqb_eq in H; subst; reflexivity.
Qed.

Section ReaderFull.
  Variables (inter : bool) (len : str) (keys : list str) (pf : str).
  Let la := laF inter len keys pf.
  Hypothesis Hkeys : keys_good len keys.

  Lemma kvs_of_ok a :
    forallb (fun k => match attr_get k a with
                      | None => true | Some VNone => true
                      | Some (VStr s) => negb (nilb s) && no_quote s
                      | Some _ => false end) keys = true ->
    Forall kv_ok (kvs_of keys a) /\ Forall (fun kv : str * str => snd kv <> []) (kvs_of keys a).
  Proof.
    destruct Hkeys as (Hkok & _ & _). unfold kvs_of. clear Hkeys. intros Hvals.
    induction keys as [|k ks IH]; [split; constructor|].
    inversion Hkok as [|? ? Hk Hks]; subst. cbn [forallb] in Hvals. apply andb_true_iff in Hvals as [Hv Hvs].
    destruct (IH Hks Hvs) as [I1 I2].
    unfold kvs_on. cbn [flat_map]. split; apply Forall_app; (split; [|assumption]).
    - unfold kv_pick. revert Hv. destruct (attr_get k a) as [[| z | s | b | x y]|]; intros Hv; try constructor.
      destruct (nilb s) eqn:Es; [constructor|]. constructor; [|constructor].
      split; [exact Hk|]. cbn [snd negb andb] in Hv |- *. exact Hv.
    - unfold kv_pick. destruct (attr_get k a) as [[| z | s | b | x y]|]; try constructor.
      destruct (nilb s) eqn:Es; [constructor|]. constructor; [|constructor].
      cbn [snd]. intros ->. discriminate.
  Qed.

  Definition shown_name (leaf : bool) (n : str) : str := if inter || leaf then n else [].

  Lemma rd_node_full isroot leaf g n a ks0 ks rest :
    node_good inter len keys pf isroot (T g n a ks0) ->
    (skip_len len isroot = false -> len_ok (oF inter len keys pf) (T g n a ks0) = true) ->   (* integer lengths *)
    termb rest = true ->
    rd_node la pf ks ((name_text inter leaf n ++ len_text len isroot a) ++ attr_text keys pf a ++ rest)
    = Some (T None (shown_name leaf n) (len_attr len isroot a ++ kv_attrs (kvs_of keys a)) ks, rest).
  Proof.
    intros [Hn _] Hl Ht.
    pose proof Hn as Hn'. unfold node_in_alphabet in Hn'. apply andb_true_iff in Hn' as [Hname Hvals].
    cbn [tname tattrs oF o_keys] in Hname, Hvals.
    destruct (name_ok_inv n Hname) as [Hne Hq].
    destruct (kvs_of_ok a Hvals) as [Hkv Hsn].
    destruct Hkeys as (Hkok & Hknd & Hklen).
    assert (Hstop_rest : stopb rest = true).
    { destruct rest as [|c r]; [reflexivity|]. apply (termb_special c r Ht). }
    (* the attribute part, read after the label and the length *)
    assert (Hattr : forall lenattrs,
               match attr_text keys pf a ++ rest with
               | c :: r =>
                   if N.eqb c 91 then
                     if startswith r pf then
                       match rd_kvs (S (length r)) (skipn (length pf) r) with
                       | Some (ats, r3) => Some (T None (shown_name leaf n) (lenattrs ++ ats) ks, r3)
                       | None => None
                       end
                     else None
                   else Some (T None (shown_name leaf n) lenattrs ks, attr_text keys pf a ++ rest)
               | [] => Some (T None (shown_name leaf n) lenattrs ks, attr_text keys pf a ++ rest)
               end = Some (T None (shown_name leaf n) (lenattrs ++ kv_attrs (kvs_of keys a)) ks, rest)).
    { intros lenattrs. unfold attr_text.
      destruct (kvs_of keys a) as [|kv kvs] eqn:Ekv.
      - cbn [app kv_attrs map]. rewrite app_nil_r.
        destruct rest as [|c r]; [reflexivity|].
        cbn [termb] in Ht. apply orb_true_iff in Ht as [H|H]; apply N.eqb_eq in H; subst; reflexivity.
      - rewrite <- Ekv in *. cbn [app]. rewrite <- !app_assoc. cbn [N.eqb Pos.eqb].
        rewrite startswith_app. rewrite skipn_app_exact. cbn [app].
        assert (Hne_kv : kvs_of keys a <> []) by (rewrite Ekv; discriminate).
        rewrite (rd_kvs_items (kvs_of keys a) _ rest Hne_kv Hkv Hsn).
        + reflexivity.
        + pose proof (join_items_len (kvs_of keys a)). rewrite !app_length. lia. }
    assert (Hstop_R : stopb (attr_text keys pf a ++ rest) = true).
    { unfold attr_text. destruct (kvs_of keys a); [exact Hstop_rest|reflexivity]. }
    assert (Hlabel : forall R,
               match R with [] => true | c :: _ => N.eqb c 58 || N.eqb c 91 || N.eqb c 44 || N.eqb c 41 end = true ->
               rd_label (name_text inter leaf n ++ R) = Some (shown_name leaf n, R)).
    { intros R HR. unfold name_text, shown_name. destruct (inter || leaf).
      - apply rd_label_stop; [exact Hq|exact Hne|].
        destruct R as [|c r]; [reflexivity|]. cbn [stopb].
        repeat (apply orb_true_iff in HR as [HR|HR]); apply N.eqb_eq in HR; subst; reflexivity.
      - cbn [app]. apply rd_label_blank. exact HR. }
    assert (Hhead_rest : match rest with [] => true | c :: _ => N.eqb c 58 || N.eqb c 91 || N.eqb c 44 || N.eqb c 41 end = true).
    { destruct rest as [|c r]; [reflexivity|]. cbn [termb] in Ht.
      apply orb_true_iff in Ht as [H|H]; apply N.eqb_eq in H; subst; reflexivity. }
    assert (Hhead_R : match attr_text keys pf a ++ rest with [] => true | c :: _ => N.eqb c 58 || N.eqb c 91 || N.eqb c 44 || N.eqb c 41 end = true).
    { unfold attr_text. destruct (kvs_of keys a); [exact Hhead_rest|reflexivity]. }
    unfold rd_node, len_text, len_attr.
    destruct (skip_len len isroot) eqn:Esk.
    - rewrite app_nil_r. rewrite (Hlabel _ Hhead_R).
      cbn [app].
      assert (Hnocolon : match attr_text keys pf a ++ rest with
                         | c :: r => N.eqb c 58 = false | [] => True end).
      { unfold attr_text. destruct (kvs_of keys a).
        - cbn [app]. destruct rest as [|c r]; [exact I|].
          cbn [termb] in Ht. apply orb_true_iff in Ht as [H|H]; apply N.eqb_eq in H; subst; reflexivity.
        - reflexivity. }
      rewrite (match_nocolon (attr_text keys pf a ++ rest) _ _ Hnocolon).
      exact (Hattr []).
    - unfold skip_len in Esk. apply orb_false_iff in Esk as [Elen Eroot].
      destruct (len_ok_inv inter len keys pf _ (Hl eq_refl)) as [p Hp].
      cbn [tattrs] in Hp. rewrite Hp. cbn [py_str str_of_Z].
      pose proof (laF_len inter len keys pf Elen) as Ela. fold la in Ela.
      rewrite <- !app_assoc. cbn [app].
      rewrite (Hlabel (58 :: _) eq_refl). cbn [N.eqb Pos.eqb].
      unfold str_of_N at 1.
      rewrite span_digits.
      + fold (str_of_N (N.pos p)).
        assert (Hnn : nilb (str_of_N (N.pos p)) = false).
        { destruct (str_of_N (N.pos p)) as [|c0 r0] eqn:Ed; [exfalso; apply (str_of_N_nonempty p Ed)|reflexivity]. }
        rewrite Hnn. rewrite digits_value_str, Ela.
        exact (Hattr [(len, VInt (Z.pos p))]).
      + destruct (attr_text keys pf a ++ rest) as [|c r]; [reflexivity|].
        cbn [stopb] in Hstop_R. rewrite (special_not_digit c Hstop_R). reflexivity.
  Qed.
End ReaderFull.

Section ReaderFullTree.
  Variables (inter : bool) (len : str) (keys : list str) (pf : str).
  Let la := laF inter len keys pf.
  Hypothesis Hkeys : keys_good len keys.

  (* what the text denotes: labels as written (blank where suppressed) *)
  Fixpoint sview (isroot : bool) (t : tree) : tree :=
    match t with
    | T _ n a ks => T None (shown_name inter (nilb ks) n) (len_attr len isroot a ++ kv_attrs (kvs_of keys a))
                      (map (sview false) ks)
    end.

  (* the reference grammar of the spec reads digit strings as lengths: integer lengths everywhere *)
  Inductive intlen : bool -> tree -> Prop :=
  | intlen_node isroot g n a ks :
      (skip_len len isroot = false -> len_ok (oF inter len keys pf) (T g n a ks) = true) ->
      Forall (intlen false) ks -> intlen isroot (T g n a ks).

  Definition reads_full (isroot : bool) (t : tree) : Prop :=
    forall fuel rest, termb rest = true -> (length (text inter len keys pf isroot t) < fuel)%nat ->
      rd_tree fuel la pf (text inter len keys pf isroot t ++ rest) = Some (sview isroot t, rest).

  Lemma forest_reads_full ks :
    ks <> [] -> Forall (reads_full false) ks -> Forall (good2 inter len keys pf false) ks ->
    forall fuel rest, (length (join [44%N] (map (text inter len keys pf false) ks)) + 1 < fuel)%nat ->
      rd_forest fuel la pf (join [44] (map (text inter len keys pf false) ks) ++ 41 :: rest)
      = Some (map (sview false) ks, rest).
  Proof.
    induction ks as [|k ks IH]; intros Hne Hr Hok fuel rest Hf; [contradiction|].
    inversion Hr as [|? ? Hk Hks]; subst. inversion Hok as [|? ? Ok_k Ok_ks]; subst.
    destruct fuel as [|f]; [lia|].
    destruct ks as [|k2 ks].
    - cbn [map join] in *. cbn [rd_forest].
      rewrite (Hk f (41 :: rest) eq_refl ltac:(lia)). cbn [N.eqb Pos.eqb]. reflexivity.
    - change (map (text inter len keys pf false) (k :: k2 :: ks))
        with (text inter len keys pf false k :: map (text inter len keys pf false) (k2 :: ks)) in *.
      change (join [44] (text inter len keys pf false k :: map (text inter len keys pf false) (k2 :: ks)))
        with (text inter len keys pf false k ++ [44] ++ join [44] (map (text inter len keys pf false) (k2 :: ks))) in *.
      rewrite !app_length in Hf. cbn [length] in Hf.
      pose proof (text_nonempty2 inter len keys pf false k Ok_k) as Hk_ne.
      assert (0 < length (text inter len keys pf false k))%nat
        by (destruct (text inter len keys pf false k); [contradiction|cbn; lia]).
      rewrite <- !app_assoc. cbn [rd_forest app].
      rewrite (Hk f (44 :: _) eq_refl ltac:(lia)). cbn [N.eqb Pos.eqb].
      rewrite (IH ltac:(discriminate) Hks Ok_ks f rest ltac:(lia)). reflexivity.
  Qed.

  Lemma reads_full_all t : forall isroot, good2 inter len keys pf isroot t -> intlen isroot t -> reads_full isroot t.
  Proof.
    induction t as [g n a ks IH] using tree_ind'. intros isroot Hg Hi.
    inversion Hg as [? ? ? ? ? Hnode Hdup Hna Hkids]; subst.
    inversion Hi as [? ? ? ? ? Hint Hikids]; subst.
    pose proof Hnode as [Hn _]. unfold node_in_alphabet in Hn. apply andb_true_iff in Hn as [Hname _].
    cbn [tname] in Hname. destruct (name_ok_inv n Hname) as [Hne Hq].
    intros fuel rest Ht Hf. destruct fuel as [|f]; [lia|].
    destruct ks as [|k ks].
    - cbn [text sview map rd_tree nilb]. rewrite <- app_assoc.
      destruct ((name_text inter true n ++ len_text len isroot a) ++ attr_text keys pf a ++ rest) as [|c r] eqn:E.
      + rewrite <- E. apply (rd_node_full inter len keys pf Hkeys isroot true g n a [] [] rest Hnode Hint Ht).
      + assert (Hc : N.eqb c 40 = false).
        { unfold name_text in E. rewrite orb_true_r in E. rewrite <- app_assoc in E.
          apply (ser_head n _ c r Hne Hq E). }
        rewrite Hc. rewrite <- E. apply (rd_node_full inter len keys pf Hkeys isroot true g n a [] [] rest Hnode Hint Ht).
    - assert (Hreads : Forall (reads_full false) (k :: ks)).
      { apply Forall_forall. intros x Hx. eapply Forall_forall in IH; eauto. apply IH.
        - eapply Forall_forall in Hkids; eauto.
        - eapply Forall_forall in Hikids; eauto. }
      cbn [text sview nilb] in *. rewrite !app_length in Hf. cbn [length] in Hf.
      rewrite <- !app_assoc. cbn [app rd_tree N.eqb Pos.eqb].
      rewrite (forest_reads_full (k :: ks) ltac:(discriminate) Hreads Hkids f _ ltac:(lia)).
      rewrite app_assoc.
      apply (rd_node_full inter len keys pf Hkeys isroot false g n a (k :: ks) _ rest Hnode Hint Ht).
  Qed.

  Theorem newick_read_full isroot t :
    good2 inter len keys pf isroot t -> intlen isroot t ->
    newick_read la pf (text inter len keys pf isroot t) = Some (sview isroot t).
  Proof.
    intros Hg Hi. unfold newick_read.
    pose proof (reads_full_all t isroot Hg Hi (S (length (text inter len keys pf isroot t))) [] eq_refl ltac:(lia)) as H.
    rewrite app_nil_r in H. rewrite H. reflexivity.
  Qed.
End ReaderFullTree.


Section Glue.
  Variables (inter : bool) (len : str) (keys : list str) (pf : str).
  Let o := oF inter len keys pf.

  (* the attribute part of the spec's view *)
  Definition view_attrs (isroot : bool) (a : attrs) : attrs :=
    (if nilb len || isroot then []
     else match attr_get len a with Some v => [(len, v)] | None => [] end)
    ++ flat_map (fun k => match attr_get k a with
                          | Some VNone | None => []
                          | Some v => [(k, v)]
                          end) keys.

  Lemma view_attrs_good isroot g n a ks :
    node_good inter len keys pf isroot (T g n a ks) ->
    view_attrs isroot a = len_attr len isroot a ++ kv_attrs (kvs_of keys a).
  Proof.
    intros [Hn Hl]. unfold view_attrs.
    apply f_equal2; [unfold len_attr, skip_len; destruct (nilb len || isroot); reflexivity|].
    - unfold node_in_alphabet in Hn. apply andb_true_iff in Hn as [_ Hv]. cbn [tattrs oF o_keys] in Hv.
      unfold kvs_of. clear - Hv. induction keys as [|k ks IH]; [reflexivity|].
      cbn [forallb] in Hv. apply andb_true_iff in Hv as [Hk Hks].
      unfold kvs_on. cbn [flat_map]. unfold kv_attrs. rewrite map_app. fold (kvs_on ks a). fold (kv_attrs (kvs_on ks a)).
      rewrite (IH Hks). f_equal. unfold kv_pick.
      destruct (attr_get k a) as [[| z | s | b | x y]|]; try discriminate; try reflexivity.
      destruct (nilb s); [discriminate|reflexivity].
  Qed.

  Lemma nw_view_unfold isroot g n a ks :
    nw_view o isroot (T g n a ks)
    = T None (shown_name inter (nilb ks) n) (view_attrs isroot a) (map (nw_view o false) ks).
  Proof. reflexivity. Qed.

  Lemma sview_is_nw_view t : forall isroot,
    good2 inter len keys pf isroot t -> nw_view o isroot t = sview inter len keys isroot t.
  Proof.
    induction t as [g n a ks IH] using tree_ind'. intros isroot Hg.
    inversion Hg as [? ? ? ? ? Hnode Hdup Hna Hkids]; subst.
    rewrite nw_view_unfold. cbn [sview]. rewrite (view_attrs_good isroot g n a ks Hnode). f_equal.
    clear Hdup Hnode Hna Hg. induction IH as [|k ks Hk Hks IHk]; [reflexivity|].
    inversion Hkids as [|? ? Hg1 Hg2]; subst. cbn [map]. rewrite (Hk false Hg1), (IHk Hg2). reflexivity.
  Qed.

  (* normal form in which prop_newick_back compares *)
  Definition nz (x : tree) : tree := if inter then sort_tree x else blank_internal (sort_tree x).

  Lemma nz_node nm1 nm2 a ks1 ks2 :
    map nz ks1 = map nz ks2 -> length ks1 = length ks2 ->
    (inter = true \/ ks1 = [] -> nm1 = nm2) ->
    nz (T None nm1 a ks1) = nz (T None nm2 a ks2).
  Proof.
    unfold nz. intros Hk Hlen Hn. destruct inter.
    - cbn [sort_tree]. rewrite (Hn (or_introl eq_refl)). f_equal. exact Hk.
    - cbn [sort_tree].
      destruct ks1 as [|k1 ks1]; destruct ks2 as [|k2 ks2]; try discriminate.
      + cbn [map blank_internal]. rewrite (Hn (or_intror eq_refl)). reflexivity.
      + cbn [map blank_internal]. f_equal.
        rewrite <- !map_map with (f := sort_tree) (g := blank_internal) in Hk.
        cbn [map] in Hk. exact Hk.
  Qed.

  Lemma rb_nz :
    forall isroot c t v c', rb inter len keys isroot c t v c' -> good2 inter len keys pf isroot t ->
                            nz (nw_view o isroot t) = nz v.
  Proof.
    apply (rb_mut inter len keys
             (fun isroot c t v c' _ => good2 inter len keys pf isroot t -> nz (nw_view o isroot t) = nz v)
             (fun c ks ks' c' _ => Forall (good2 inter len keys pf false) ks ->
                                   map nz (map (nw_view o false) ks) = map nz ks' /\ length ks = length ks')).
    - intros isroot c g n a ks ks' c1 Hf IH Hg.
      inversion Hg as [? ? ? ? ? Hnode Hdup Hna Hkids]; subst.
      destruct (IH Hkids) as [Hmap Hlen].
      rewrite nw_view_unfold, (view_attrs_good isroot g n a ks Hnode).
      apply nz_node.
      + exact Hmap.
      + rewrite map_length. exact Hlen.
      + unfold shown_name, out_name. intros [Ei|Ek].
        * rewrite Ei. reflexivity.
        * destruct ks; [|discriminate]. cbn [nilb]. rewrite !orb_true_r. reflexivity.
    - intros c _. split; reflexivity.
    - intros c k k' c' r r' c'' Hk IHk Hr IHr Hg.
      inversion Hg as [|? ? Hg1 Hg2]; subst. destruct (IHr Hg2) as [A B].
      cbn [map length]. rewrite (IHk Hg1), A, B. split; reflexivity.
  Qed.
End Glue.

(* from the boolean alphabets of the spec to the guards used in the proofs *)
Lemma good2_of_guard inter len keys pf (lenp : tree -> bool)
      (Hlenp : forall x, lenp x = true -> exists v s, attr_get len (tattrs x) = Some v /\ lit_ok v s) t :
  forall isroot,
  all_nodes (node_in_alphabet (oF inter len keys pf)) t = true ->
  (inter = false -> all_nodes (fun x => negb (auto_name (tname x))) t = true) ->
  sib_distinct t = true ->
  (nilb len = false ->
     (isroot = false -> lenp t = true) /\ forallb (all_nodes lenp) (tkids t) = true) ->
  good2 inter len keys pf isroot t.
Proof.
  induction t as [g n a ks IH] using tree_ind'. intros isroot Hn Hauto Hsd Hlen.
  apply all_nodes_inv in Hn as [Hn1 Hn2]. apply sib_distinct_inv in Hsd as [Hd1 Hd2].
  assert (Hauto_k : forall k, In k ks -> inter = false -> all_nodes (fun x => negb (auto_name (tname x))) k = true).
  { intros k Hk Ei. specialize (Hauto Ei). apply all_nodes_inv in Hauto as [_ Ha].
    eapply Forall_forall in Ha; eauto. }
  constructor.
  - split; [exact Hn1|]. unfold skip_len. intros E. apply orb_false_iff in E as [E1 E2].
    apply Hlenp. apply (proj1 (Hlen E1) E2).
  - exact Hd1.
  - apply Forall_forall. intros k Hk Ei. pose proof (Hauto_k k Hk Ei) as Ha.
    destruct k as [g' n' a' ks']. apply all_nodes_inv in Ha as [Ha _]. cbn [tname] in *.
    apply negb_true_iff. exact Ha.
  - apply Forall_forall. intros k Hk.
    eapply Forall_forall in IH; eauto. apply IH.
    + eapply Forall_forall in Hn2; eauto.
    + apply Hauto_k. exact Hk.
    + eapply Forall_forall in Hd2; eauto.
    + intros E. destruct (Hlen E) as [_ Hall]. cbn [tkids] in Hall.
      eapply forallb_forall in Hall; eauto. destruct k as [g' n' a' ks'].
      cbn [all_nodes] in Hall. apply andb_true_iff in Hall as [A B]. split; [intros _; exact A|exact B].
Qed.

Lemma intlen_of inter len keys pf t : forall isroot,
  (nilb len = false ->
     (isroot = false -> len_ok (oF inter len keys pf) t = true)
     /\ forallb (all_nodes (len_ok (oF inter len keys pf))) (tkids t) = true) ->
  intlen inter len keys pf isroot t.
Proof.
  induction t as [g n a ks IH] using tree_ind'. intros isroot Hlen. constructor.
  - unfold skip_len. intros E. apply orb_false_iff in E as [E1 E2]. apply (proj1 (Hlen E1) E2).
  - apply Forall_forall. intros k Hk. eapply Forall_forall in IH; eauto. apply IH.
    intros E. destruct (Hlen E) as [_ Hall]. cbn [tkids] in Hall.
    eapply forallb_forall in Hall; eauto. destruct k as [g' n' a' ks'].
    cbn [all_nodes] in Hall. apply andb_true_iff in Hall as [A B]. split; [intros _; exact A|exact B].
Qed.

Lemma alphabet_gen inter len keys pf isroot t :
  newick_alphabet (oF inter len keys pf) isroot t = true ->
  keys_good len keys /\ good2 inter len keys pf isroot t /\ intlen inter len keys pf isroot t.
Proof.
  unfold newick_alphabet. cbn [oF o_inter o_len o_keys o_seps_default]. intros H.
  apply andb_true_iff in H as [H Hseps]. apply andb_true_iff in H as [H Hlen].
  apply andb_true_iff in H as [H Hknd]. apply andb_true_iff in H as [H Hkok].
  apply andb_true_iff in H as [H Hsd]. apply andb_true_iff in H as [Hnodes Hauto].
  assert (Hlen' : nilb len = false ->
                  key_ok len = true /\ existsb (str_eqb len) keys = false
                  /\ (isroot = false -> len_ok (oF inter len keys pf) t = true)
                  /\ forallb (all_nodes (len_ok (oF inter len keys pf))) (tkids t) = true).
  { intros E. rewrite E in Hlen. cbn [orb] in Hlen.
    apply andb_true_iff in Hlen as [Hlen Hall]. apply andb_true_iff in Hlen as [Hlen Hroot].
    apply andb_true_iff in Hlen as [Hlk Hnotin].
    split; [exact Hlk|]. split; [apply negb_true_iff; exact Hnotin|]. split; [|exact Hall].
    intros ->. cbn [orb] in Hroot. exact Hroot. }
  split; [|split].
  - split; [apply Forall_forall; intros k Hk; eapply forallb_forall in Hkok; eauto|].
    split; [exact Hknd|]. intros E. destruct (Hlen' E) as (A & B & _). split; assumption.
  - apply (good2_of_guard inter len keys pf (len_ok (oF inter len keys pf)) (len_ok_lit inter len keys pf));
      [exact Hnodes| |exact Hsd|].
    + intros ->. cbn [orb] in Hauto. exact Hauto.
    + intros E. destruct (Hlen' E) as (_ & _ & C & D). split; assumption.
  - apply intlen_of. intros E. destruct (Hlen' E) as (_ & _ & C & D). split; assumption.
Qed.

Lemma good2_good inter len keys pf t : forall isroot, good2 inter len keys pf isroot t -> good inter len keys pf isroot t.
Proof.
  induction t as [g n a ks IH] using tree_ind'. intros isroot Hg.
  inversion Hg as [? ? ? ? ? Hnode Hdup Hna Hkids]; subst. constructor; [exact Hnode|exact Hdup|].
  apply Forall_forall. intros k Hk. eapply Forall_forall in IH; eauto. apply IH.
  eapply Forall_forall in Hkids; eauto.
Qed.

Lemma newick_roundtrip_core inter len keys pf isroot t :
  keys_good len keys -> good2 inter len keys pf isroot t ->
  exists s back,
    nw_write (cfgF inter len keys pf) isroot t = Ret s
    /\ nw_parse (laF inter len keys pf) pf s = Ret back
    /\ prop_newick_back (oF inter len keys pf) isroot t back = true.
Proof.
  intros Hk Hg.
  destruct (nw_parse_full2 inter len keys pf Hk isroot t Hg) as (v & c' & R & P).
  exists (text inter len keys pf isroot t), v.
  split; [apply nw_write_full; apply good2_good; exact Hg|]. split; [exact P|].
  unfold prop_newick_back. cbn [oF o_inter]. fold (oF inter len keys pf).
  pose proof (rb_nz inter len keys pf isroot 0%nat t v c' R Hg) as E. unfold nz in E.
  destruct inter; rewrite E; apply tree_eqb_refl.
Qed.

Theorem newick_roundtrip_gen inter len keys pf isroot t :
  newick_alphabet (oF inter len keys pf) isroot t = true ->
  exists s back,
    nw_write (cfgF inter len keys pf) isroot t = Ret s
    /\ nw_parse (laF inter len keys pf) pf s = Ret back
    /\ prop_newick_back (oF inter len keys pf) isroot t back = true.
Proof.
  intros H. destruct (alphabet_gen inter len keys pf isroot t H) as (Hk & Hg & _).
  apply newick_roundtrip_core; assumption.
Qed.

Theorem newick_export_gen inter len keys pf isroot t :
  newick_alphabet (oF inter len keys pf) isroot t = true ->
  exists s, nw_write (cfgF inter len keys pf) isroot t = Ret s
            /\ prop_newick_export (oF inter len keys pf) isroot t s = true.
Proof.
  intros H. destruct (alphabet_gen inter len keys pf isroot t H) as (Hk & Hg & Hi).
  exists (text inter len keys pf isroot t). split.
  - apply nw_write_full. apply good2_good. exact Hg.
  - unfold prop_newick_export. change (la_of (oF inter len keys pf)) with (laF inter len keys pf).
    cbn [oF o_prefix]. fold (oF inter len keys pf).
    rewrite (newick_read_full inter len keys pf Hk isroot t Hg Hi).
    rewrite (sview_is_nw_view inter len keys pf t isroot Hg). apply tree_eqb_refl.
Qed.

(* ------------------------------------------------------------------------------------------ *)
(* float lengths: every length literal the writer produces and the parser reads back as itself  *)

Definition val_same (a b : val) : bool :=
  match a, b with
  | VNone, VNone => true
  | VInt x, VInt y => Z.eqb x y
  | VStr x, VStr y => str_eqb x y
  | VBool x, VBool y => Bool.eqb x y
  | VFloat a1 b1, VFloat a2 b2 => Z.eqb a1 a2 && Z.eqb b1 b2
  | _, _ => false
  end.

Lemma val_same_eq a b : val_same a b = true -> a = b.
Proof.
  destruct a, b; cbn [val_same]; intros H; try discriminate; try reflexivity.
  - apply Z.eqb_eq in H. subst. reflexivity.
  - apply str_eqb_eq in H. subst. reflexivity.
  - apply Bool.eqb_prop in H. subst. reflexivity.
  - apply andb_true_iff in H as [H1 H2]. apply Z.eqb_eq in H1. apply Z.eqb_eq in H2. subst. reflexivity.
Qed.

(* decidable form of lit_ok: the value is truthy, str() of it is a non-empty token without special
   characters, and int()/float() of that token is the value again (same fraction, same form) *)
Definition lit_okb (v : val) : bool :=
  truthy v &&
  match py_str v with
  | Ret s => negb (is_nil s) && negb (has_special s)
             && match length_val s with Ret v' => val_same v' v | Raise _ => false end
  | Raise _ => false
  end.

Lemma lit_okb_ok v : lit_okb v = true -> exists s, lit_ok v s.
Proof.
  unfold lit_okb. intros H. apply andb_true_iff in H as [Ht H].
  destruct (py_str v) as [s|e] eqn:Epy; [|discriminate].
  apply andb_true_iff in H as [H Hlv]. apply andb_true_iff in H as [Hne Hsp].
  destruct (length_val s) as [v'|e] eqn:Elv; [|discriminate]. apply val_same_eq in Hlv. subst v'.
  exists s. repeat split; try assumption.
  - destruct s; [discriminate|discriminate].
  - apply negb_true_iff. exact Hsp.
Qed.

Definition len_canon (len : str) (t : tree) : bool :=
  match attr_get len (tattrs t) with Some v => lit_okb v | None => false end.

(* every exported length (all nodes but the real root) is such a literal *)
Definition lengths_canonical (len : str) (isroot : bool) (t : tree) : bool :=
  nilb len || ((isroot || len_canon len t) && forallb (all_nodes (len_canon len)) (tkids t)).

Lemma alphabet_ext_gen inter len keys pf isroot t :
  newick_alphabet_ext (oF inter len keys pf) isroot t = true ->
  lengths_canonical len isroot t = true ->
  keys_good len keys /\ good2 inter len keys pf isroot t.
Proof.
  unfold newick_alphabet_ext. cbn [oF o_inter o_len o_keys o_seps_default]. intros H Hc.
  apply andb_true_iff in H as [H Hseps]. apply andb_true_iff in H as [H Hlen].
  apply andb_true_iff in H as [H Hknd]. apply andb_true_iff in H as [H Hkok].
  apply andb_true_iff in H as [H Hsd]. apply andb_true_iff in H as [Hnodes Hauto].
  assert (Hlen' : nilb len = false -> key_ok len = true /\ existsb (str_eqb len) keys = false).
  { intros E. rewrite E in Hlen. cbn [orb] in Hlen.
    apply andb_true_iff in Hlen as [Hlen _]. apply andb_true_iff in Hlen as [Hlen _].
    apply andb_true_iff in Hlen as [Hlk Hnotin].
    split; [exact Hlk|apply negb_true_iff; exact Hnotin]. }
  split.
  - split; [apply Forall_forall; intros k Hk; eapply forallb_forall in Hkok; eauto|].
    split; [exact Hknd|exact Hlen'].
  - apply (good2_of_guard inter len keys pf (len_canon len)); [|exact Hnodes| |exact Hsd|].
    + intros x Hx. unfold len_canon in Hx. destruct (attr_get len (tattrs x)) as [v|] eqn:E; [|discriminate].
      destruct (lit_okb_ok v Hx) as [s Hs]. exists v, s. split; [reflexivity|exact Hs].
    + intros ->. cbn [orb] in Hauto. exact Hauto.
    + intros E. unfold lengths_canonical in Hc. rewrite E in Hc. cbn [orb] in Hc.
      apply andb_true_iff in Hc as [C D]. split; [|exact D].
      intros ->. cbn [orb] in C. exact C.
Qed.

Theorem newick_roundtrip_ext inter len keys pf isroot t :
  newick_alphabet_ext (oF inter len keys pf) isroot t = true ->
  lengths_canonical len isroot t = true ->
  exists s back,
    nw_write (cfgF inter len keys pf) isroot t = Ret s
    /\ nw_parse (laF inter len keys pf) pf s = Ret back
    /\ prop_newick_back (oF inter len keys pf) isroot t back = true.
Proof.
  intros H Hc. destruct (alphabet_ext_gen inter len keys pf isroot t H Hc) as (Hk & Hg).
  apply newick_roundtrip_core; assumption.
Qed.
