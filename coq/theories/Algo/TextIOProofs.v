(* Proofs about the models of Algo/TextIO.v (textual half of C06). *)
From BT Require Import Base.Prelude Base.Str Base.Rose Algo.TextIO Spec.PC06Text.

Local Open Scope N_scope.

(* ------------------------------------------------------------------------------------------ *)
(* generalities                                                                                *)

Lemma val_eqb_refl v : val_eqb v v = true.
Proof.
  destruct v; cbn; auto using Z.eqb_refl, str_eqb_refl, Bool.eqb_reflx.
Qed.

Lemma attrs_eqb_refl a : attrs_eqb a a = true.
Proof.
  induction a as [|[k v] a IH]; cbn; [reflexivity|].
  rewrite str_eqb_refl, val_eqb_refl, IH. reflexivity.
Qed.

Lemma tree_eqb_refl t : tree_eqb t t = true.
Proof.
  induction t as [g n a ks IH] using tree_ind'. cbn [tree_eqb].
  rewrite str_eqb_refl, attrs_eqb_refl. cbn [andb].
  induction ks as [|k ks IHk]; [reflexivity|].
  inversion IH as [|? ? Hk Hks]; subst. rewrite Hk. cbn [andb]. apply IHk. exact Hks.
Qed.

Lemma on_last_app {A} (f : A -> A) l x : on_last f (l ++ [x]) = l ++ [f x].
Proof.
  induction l as [|y l IH]; [reflexivity|].
  cbn [app on_last]. rewrite IH. destruct (l ++ [x]) eqn:E; [destruct l; discriminate|reflexivity].
Qed.

Lemma str_nodupb_names l : str_nodupb l = names_nodup l.
Proof. induction l as [|x l IH]; cbn; [reflexivity|]. rewrite IH. reflexivity. Qed.

Lemma map_tname_erase ks : map tname (map erase ks) = map tname ks.
Proof.
  induction ks as [|k ks IH]; [reflexivity|]. cbn [map]. rewrite IH. destruct k; reflexivity.
Qed.

Lemma all_nodes_inv p g n a ks :
  all_nodes p (T g n a ks) = true -> p (T g n a ks) = true /\ Forall (fun k => all_nodes p k = true) ks.
Proof.
  cbn [all_nodes]. intros H. apply andb_true_iff in H as [H1 H2]. split; [exact H1|].
  apply Forall_forall. intros k Hk. eapply forallb_forall in H2; eauto.
Qed.

Lemma sib_distinct_inv g n a ks :
  sib_distinct (T g n a ks) = true ->
  names_nodup (map tname ks) = true /\ Forall (fun k => sib_distinct k = true) ks.
Proof.
  cbn [sib_distinct]. intros H. apply andb_true_iff in H as [H1 H2]. split; [exact H1|].
  apply Forall_forall. intros k Hk. eapply forallb_forall in H2; eauto.
Qed.

(* ------------------------------------------------------------------------------------------ *)
(* Newick writer without length / attributes                                                   *)

Fixpoint nw_plain (t : tree) : str :=
  match t with
  | T _ n _ ks =>
      match ks with
      | [] => serialize n
      | _ => [40] ++ join [44] (map nw_plain ks) ++ [41] ++ serialize n
      end
  end.

Definition cfg_plain (lsep pf asep : str) : nwcfg := NwCfg true [] lsep [] pf asep.

Lemma nw_write_plain lsep pf asep isroot t :
  nw_write (cfg_plain lsep pf asep) isroot t = Ret (nw_plain t).
Proof.
  revert isroot. induction t as [g n a ks IH] using tree_ind'. intros isroot.
  cbn [nw_write nw_plain]. unfold name_str, attr_str, cfg_plain.
  cbn [nw_inter nw_len nw_attrs is_nil orb negb andb].
  destruct ks as [|k ks]; [rewrite app_nil_r; reflexivity|].
  assert (Hgo : forall l,
             Forall (fun t => forall isroot, nw_write (cfg_plain lsep pf asep) isroot t = Ret (nw_plain t)) l ->
             (fix go (l : list tree) : res (list str) :=
                   match l with
                   | [] => Ret []
                   | k0 :: r =>
                       match nw_write (NwCfg true [] lsep [] pf asep) false k0 with
                       | Raise e => Raise e
                       | Ret s => match go r with Raise e => Raise e | Ret ss => Ret (s :: ss) end
                       end
                   end) l = Ret (map nw_plain l)).
  { intros l Hl. induction Hl as [|x l Hx Hl IHl]; [reflexivity|].
    fold (cfg_plain lsep pf asep). rewrite Hx. unfold cfg_plain. rewrite IHl. reflexivity. }
  rewrite (Hgo (k :: ks) IH). rewrite app_nil_r. reflexivity.
Qed.

(* ------------------------------------------------------------------------------------------ *)
(* Newick parser on the writer's output                                                        *)

Section NewickMachine.
  Variables la pf : str.

  (* scanning state: PARSE_STRING, no current node, no pending value, not skipping *)
  Definition St (ab cu : list tree) (be : list (list tree)) (d : Z) (ctr : nat) (cum : str) : pst :=
    mkP ab cu be d ctr PStr false cum [] 0.

  Lemma not_special_chars c :
    memN c nw_specials = false ->
    N.eqb c 40 = false /\ N.eqb c 41 = false /\ N.eqb c 91 = false /\ N.eqb c 93 = false /\
    N.eqb c 61 = false /\ N.eqb c 39 = false /\ N.eqb c 58 = false /\ N.eqb c 44 = false.
  Proof.
    unfold memN, nw_specials. cbn [existsb]. intros H.
    repeat (apply orb_false_iff in H as [? H]). repeat split; assumption.
  Qed.

  Lemma run_plain_chars n : forall rest ab cu be d ctr cum,
    has_special n = false ->
    nw_run la pf (n ++ rest) (St ab cu be d ctr cum) = nw_run la pf rest (St ab cu be d ctr (cum ++ n)).
  Proof.
    induction n as [|c n IH]; intros rest ab cu be d ctr cum H.
    - rewrite app_nil_r. reflexivity.
    - unfold has_special in H. cbn [existsb] in H. apply orb_false_iff in H as [Hc Hn].
      destruct (not_special_chars c Hc) as (H1 & H2 & H3 & H4 & H5 & H6 & H7 & H8).
      unfold St at 1. cbn [app nw_run p_skip]. unfold nw_step. cbv beta iota.
      rewrite H1, H2, H3, H4, H5, H6, H7, H8. cbn [orb].
      fold (St ab cu be d ctr (cum ++ [c])). rewrite (IH rest ab cu be d ctr (cum ++ [c]) Hn).
      rewrite <- app_assoc. reflexivity.
  Qed.

  Lemma run_skip x : forall rest ab cu be d ctr st has cum val,
    nw_run la pf (x ++ rest) (mkP ab cu be d ctr st has cum val (length x))
    = nw_run la pf rest (mkP ab cu be d ctr st has cum val 0).
  Proof.
    induction x as [|c x IH]; intros; [reflexivity|].
    cbn [app length nw_run p_skip set_skip]. apply IH.
  Qed.

  Lemma find_quote_app n rest : no_quote n = true -> find_quote (n ++ 39 :: rest) = Some n.
  Proof.
    unfold no_quote, memN, q. induction n as [|c n IH]; intros H.
    - reflexivity.
    - cbn [existsb] in H. apply negb_true_iff in H. apply orb_false_iff in H as [Hc Hn].
      cbn [app find_quote]. rewrite N.eqb_sym, Hc. rewrite IH; [reflexivity|].
      apply negb_true_iff. exact Hn.
  Qed.

  Lemma requote_id n : no_quote n = true -> requote n = n.
  Proof.
    unfold no_quote, memN, q, requote. induction n as [|c n IH]; intros H; [reflexivity|].
    cbn [existsb] in H. apply negb_true_iff in H. apply orb_false_iff in H as [Hc Hn].
    cbn [map]. rewrite N.eqb_sym, Hc. rewrite IH; [reflexivity|]. apply negb_true_iff. exact Hn.
  Qed.

  Lemma run_name n rest ab cu be d ctr :
    no_quote n = true ->
    nw_run la pf (serialize n ++ rest) (St ab cu be d ctr []) = nw_run la pf rest (St ab cu be d ctr n).
  Proof.
    intros Hq. unfold serialize. destruct (has_special n) eqn:Hs.
    - rewrite (requote_id n Hq).
      replace ((39 :: n ++ [39]) ++ rest) with (39 :: (n ++ [39]) ++ rest) by reflexivity.
      unfold St at 1. cbn [nw_run p_skip]. unfold nw_step. cbv beta iota. cbn [N.eqb Pos.eqb orb].
      rewrite <- app_assoc. cbn [app]. rewrite (find_quote_app n rest Hq). cbn [is_nil negb].
      replace (n ++ 39 :: rest) with ((n ++ [39]) ++ rest) by (rewrite <- app_assoc; reflexivity).
      replace (S (length n)) with (length (n ++ [39])) by (rewrite app_length; cbn; lia).
      rewrite run_skip. reflexivity.
    - rewrite run_plain_chars by exact Hs. reflexivity.
  Qed.

  Lemma create_plain n ctr ks cu :
    n <> [] -> dup_names ks = false ->
    create_node on_last la false n ctr ks cu = Ret (ctr, cu ++ [T None n [] ks]).
  Proof.
    intros Hn Hd. unfold create_node. destruct n as [|c n]; [contradiction|].
    unfold attach. destruct ks as [|k ks]; [reflexivity|].
    rewrite Hd. rewrite on_last_app. reflexivity.
  Qed.

  Lemma step_comma rest n ctr ks cu be d :
    n <> [] -> dup_names ks = false ->
    nw_step la pf 44 rest (St ks cu be d ctr n) = Ret (St [] (cu ++ [T None n [] ks]) be d ctr []).
  Proof.
    intros Hn Hd. unfold nw_step, St. cbn [N.eqb Pos.eqb orb andb].
    rewrite (create_plain n ctr ks cu Hn Hd). reflexivity.
  Qed.

  Lemma step_close rest n ctr ks cu be d :
    n <> [] -> dup_names ks = false ->
    nw_step la pf 41 rest (St ks cu be d ctr n)
    = Ret (St (cu ++ [T None n [] ks]) (hd [] be) (tl be) (d - 1) ctr []).
  Proof.
    intros Hn Hd. unfold nw_step, St. cbn [N.eqb Pos.eqb orb andb].
    rewrite (create_plain n ctr ks cu Hn Hd). reflexivity.
  Qed.

  Lemma run_cons c rest ab cu be d ctr cum :
    nw_run la pf (c :: rest) (St ab cu be d ctr cum)
    = match nw_step la pf c rest (St ab cu be d ctr cum) with
      | Raise e => Raise e
      | Ret s' => nw_run la pf rest s'
      end.
  Proof. reflexivity. Qed.

  Lemma step_open rest cu be d ctr :
    nw_step la pf 40 rest (St [] cu be d ctr []) = Ret (St [] [] (cu :: be) (d + 1) ctr []).
  Proof. reflexivity. Qed.

  (* the guard of the round trip, per node *)
  Definition nm_ok (t : tree) : bool := name_ok (tname t).
  Definition tree_ok (t : tree) : Prop := all_nodes nm_ok t = true /\ sib_distinct t = true.

  Lemma name_ok_inv n : name_ok n = true -> n <> [] /\ no_quote n = true.
  Proof.
    unfold name_ok. intros H. apply andb_true_iff in H as [H1 H2]. split; [|exact H2].
    destruct n; [discriminate|discriminate].
  Qed.

  Lemma dup_erase ks : names_nodup (map tname ks) = true -> dup_names (map erase ks) = false.
  Proof.
    intros H. unfold dup_names. rewrite map_tname_erase, str_nodupb_names, H. reflexivity.
  Qed.

  (* after the text of t the machine holds t's (rebuilt) children above and t's name pending *)
  Definition core (t : tree) : Prop :=
    forall rest cu be d ctr,
      nw_run la pf (nw_plain t ++ rest) (St [] cu be d ctr [])
      = nw_run la pf rest (St (map erase (tkids t)) cu be d ctr (tname t)).

  Lemma erase_unfold t : erase t = T None (tname t) [] (map erase (tkids t)).
  Proof. destruct t; reflexivity. Qed.

  Lemma forest_run ks :
    ks <> [] ->
    Forall core ks -> Forall tree_ok ks ->
    forall rest cu be d ctr,
      nw_run la pf (join [44] (map nw_plain ks) ++ 41 :: rest) (St [] cu be d ctr [])
      = nw_run la pf rest (St (cu ++ map erase ks) (hd [] be) (tl be) (d - 1) ctr []).
  Proof.
    induction ks as [|k ks IH]; intros Hne Hc Hok rest cu be d ctr; [contradiction|].
    inversion Hc as [|? ? Hk Hks]; subst. inversion Hok as [|? ? Ok_k Ok_ks]; subst.
    destruct Ok_k as [Hnm Hsd].
    destruct k as [g n a kk].
    apply all_nodes_inv in Hnm as [Hn _]. unfold nm_ok in Hn. cbn [tname] in Hn.
    apply name_ok_inv in Hn as [Hne_n _].
    apply sib_distinct_inv in Hsd as [Hdup _]. apply dup_erase in Hdup.
    destruct ks as [|k2 ks].
    - cbn [map join]. rewrite (Hk (41 :: rest) cu be d ctr). cbn [tkids tname].
      cbn [nw_run St p_skip]. fold (St (map erase kk) cu be d ctr n).
      rewrite (step_close rest n ctr (map erase kk) cu be d Hne_n Hdup).
      rewrite erase_unfold. reflexivity.
    - change (map nw_plain (T g n a kk :: k2 :: ks))
        with (nw_plain (T g n a kk) :: map nw_plain (k2 :: ks)).
      change (join [44] (nw_plain (T g n a kk) :: map nw_plain (k2 :: ks)))
        with (nw_plain (T g n a kk) ++ [44] ++ join [44] (map nw_plain (k2 :: ks))).
      rewrite <- !app_assoc. rewrite (Hk _ cu be d ctr). cbn [tkids tname].
      cbn [app nw_run St p_skip]. fold (St (map erase kk) cu be d ctr n).
      rewrite (step_comma _ n ctr (map erase kk) cu be d Hne_n Hdup).
      rewrite (IH ltac:(discriminate) Hks Ok_ks rest _ be d ctr).
      rewrite <- app_assoc. reflexivity.
  Qed.

  Lemma tree_ok_kids g n a ks : tree_ok (T g n a ks) -> Forall tree_ok ks.
  Proof.
    intros [H1 H2]. apply all_nodes_inv in H1 as [_ H1]. apply sib_distinct_inv in H2 as [_ H2].
    apply Forall_forall. intros k Hk. split.
    - eapply Forall_forall in H1; eauto.
    - eapply Forall_forall in H2; eauto.
  Qed.

  Lemma core_all t : tree_ok t -> core t.
  Proof.
    induction t as [g n a ks IH] using tree_ind'. intros Hok.
    pose proof (tree_ok_kids _ _ _ _ Hok) as Hkids.
    destruct Hok as [Hnm Hsd].
    apply all_nodes_inv in Hnm as [Hn _]. unfold nm_ok in Hn. cbn [tname] in Hn.
    apply name_ok_inv in Hn as [_ Hq].
    intros rest cu be d ctr. cbn [tkids tname].
    destruct ks as [|k ks].
    - cbn [nw_plain map]. apply run_name. exact Hq.
    - assert (Hcore : Forall core (k :: ks)).
      { apply Forall_forall. intros x Hx. eapply Forall_forall in IH; eauto. apply IH.
        eapply Forall_forall in Hkids; eauto. }
      cbn [nw_plain]. rewrite <- !app_assoc.
      cbn [app]. rewrite run_cons, step_open.
      rewrite (forest_run (k :: ks) ltac:(discriminate) Hcore Hkids).
      cbn [hd tl app]. replace (d + 1 - 1)%Z with d by lia.
      apply run_name. exact Hq.
  Qed.

  Lemma nw_plain_nonempty t : tree_ok t -> nw_plain t <> [].
  Proof.
    destruct t as [g n a ks]. intros [Hnm _].
    apply all_nodes_inv in Hnm as [Hn _]. unfold nm_ok in Hn. cbn [tname] in Hn.
    apply name_ok_inv in Hn as [Hne _].
    cbn [nw_plain]. destruct ks; [|discriminate].
    unfold serialize. destruct (has_special n); [discriminate|exact Hne].
  Qed.

  Theorem nw_parse_plain t : tree_ok t -> nw_parse la pf (nw_plain t) = Ret (erase t).
  Proof.
    intros Hok. pose proof (nw_plain_nonempty t Hok) as Hne.
    assert (Hp : forall s, s <> [] ->
                 nw_parse la pf s = match nw_run la pf s p_init with
                                    | Raise e => Raise e
                                    | Ret st => nw_finish la st
                                    end).
    { intros [|c0 s0] Hs; [contradiction|reflexivity]. }
    rewrite (Hp _ Hne). clear Hp Hne.
    pose proof (core_all t Hok [] [] [] 1%Z 0%nat) as Hc. rewrite app_nil_r in Hc.
    change p_init with (St [] [] [] 1 0 []). rewrite Hc. cbn [nw_run].
    destruct t as [g n a ks]. cbn [tkids tname].
    destruct Hok as [Hnm Hsd].
    apply all_nodes_inv in Hnm as [Hn _]. unfold nm_ok in Hn. cbn [tname] in Hn.
    apply name_ok_inv in Hn as [Hne _].
    apply sib_distinct_inv in Hsd as [Hdup _]. apply dup_erase in Hdup.
    unfold nw_finish, St. cbn [p_depth p_cur p_cum p_ctr p_above Z.eqb Pos.eqb negb].
    rewrite (create_plain n 0%nat (map erase ks) [] Hne Hdup). reflexivity.
  Qed.
End NewickMachine.

(* ------------------------------------------------------------------------------------------ *)
(* The writer's text, read by the reference grammar of Spec/PC06Text.v, denotes the tree        *)

Section Reader.
  Variables la pf : str.

  Definition termb (rest : str) : bool :=
    match rest with [] => true | c :: _ => N.eqb c 44 || N.eqb c 41 end.

  Lemma termb_special c r : termb (c :: r) = true -> newick_special c = true.
  Proof.
    cbn [termb]. intros H. apply orb_true_iff in H as [H|H]; apply N.eqb_eq in H; subst; reflexivity.
  Qed.

  Lemma span_plain n : forall rest,
    has_special n = false -> termb rest = true ->
    span_p (fun c => negb (newick_special c)) (n ++ rest) = (n, rest).
  Proof.
    induction n as [|c n IH]; intros rest Hs Ht.
    - cbn [app]. destruct rest as [|c r]; [reflexivity|].
      cbn [span_p]. rewrite (termb_special c r Ht). reflexivity.
    - unfold has_special in Hs. cbn [existsb] in Hs. apply orb_false_iff in Hs as [Hc Hn].
      cbn [app span_p]. change (newick_special c) with (memN c nw_specials). rewrite Hc. cbn [negb].
      rewrite (IH rest Hn Ht). reflexivity.
  Qed.

  Lemma rd_quoted_app n rest : no_quote n = true -> rd_quoted (n ++ 39 :: rest) = Some (n, rest).
  Proof.
    unfold no_quote, memN, q. induction n as [|c n IH]; intros H.
    - reflexivity.
    - cbn [existsb] in H. apply negb_true_iff in H. apply orb_false_iff in H as [Hc Hn].
      cbn [app rd_quoted]. unfold q. rewrite N.eqb_sym, Hc. rewrite IH; [reflexivity|].
      apply negb_true_iff. exact Hn.
  Qed.

  Lemma rd_label_ser n rest :
    no_quote n = true -> n <> [] -> termb rest = true ->
    rd_label (serialize n ++ rest) = Some (n, rest).
  Proof.
    intros Hq Hne Ht. unfold serialize. destruct (has_special n) eqn:Hs.
    - rewrite (requote_id n Hq). cbn [app rd_label]. unfold q. cbn [N.eqb Pos.eqb].
      rewrite <- app_assoc. cbn [app]. apply rd_quoted_app. exact Hq.
    - destruct n as [|c n]; [contradiction|].
      pose proof Hs as Hs'. unfold has_special in Hs'. cbn [existsb] in Hs'.
      apply orb_false_iff in Hs' as [Hc _].
      destruct (not_special_chars c Hc) as (_ & _ & _ & _ & _ & H6 & _ & _).
      cbn [app rd_label]. unfold q. rewrite H6.
      change (c :: n ++ rest) with ((c :: n) ++ rest). rewrite (span_plain (c :: n) rest Hs Ht).
      reflexivity.
  Qed.

  Lemma rd_node_plain ks n rest :
    no_quote n = true -> n <> [] -> termb rest = true ->
    rd_node la pf ks (serialize n ++ rest) = Some (T None n [] ks, rest).
  Proof.
    intros Hq Hne Ht. unfold rd_node. rewrite (rd_label_ser n rest Hq Hne Ht).
    destruct rest as [|c r]; [reflexivity|].
    cbn [termb] in Ht. apply orb_true_iff in Ht as [H|H]; apply N.eqb_eq in H; subst; reflexivity.
  Qed.

  Lemma ser_head n rest c r : n <> [] -> no_quote n = true -> serialize n ++ rest = c :: r -> N.eqb c 40 = false.
  Proof.
    intros Hne Hq. unfold serialize. destruct (has_special n) eqn:Hs.
    - cbn [app]. intros E. inversion E; subst. reflexivity.
    - destruct n as [|x n]; [contradiction|]. cbn [app]. intros E. inversion E; subst.
      unfold has_special in Hs. cbn [existsb] in Hs. apply orb_false_iff in Hs as [Hc _].
      destruct (not_special_chars c Hc) as (H1 & _). exact H1.
  Qed.

  Definition reads (t : tree) : Prop :=
    forall fuel rest, termb rest = true -> (length (nw_plain t) < fuel)%nat ->
      rd_tree fuel la pf (nw_plain t ++ rest) = Some (erase t, rest).

  Lemma forest_reads ks :
    ks <> [] -> Forall reads ks -> Forall tree_ok ks ->
    forall fuel rest, (length (join [44%N] (map nw_plain ks)) + 1 < fuel)%nat ->
      rd_forest fuel la pf (join [44] (map nw_plain ks) ++ 41 :: rest) = Some (map erase ks, rest).
  Proof.
    induction ks as [|k ks IH]; intros Hne Hr Hok fuel rest Hf; [contradiction|].
    inversion Hr as [|? ? Hk Hks]; subst. inversion Hok as [|? ? Ok_k Ok_ks]; subst.
    destruct fuel as [|f]; [lia|].
    destruct ks as [|k2 ks].
    - cbn [map join] in *. cbn [rd_forest].
      rewrite (Hk f (41 :: rest) eq_refl ltac:(lia)). cbn [N.eqb Pos.eqb]. reflexivity.
    - change (map nw_plain (k :: k2 :: ks)) with (nw_plain k :: map nw_plain (k2 :: ks)) in *.
      change (join [44] (nw_plain k :: map nw_plain (k2 :: ks)))
        with (nw_plain k ++ [44] ++ join [44] (map nw_plain (k2 :: ks))) in *.
      rewrite !app_length in Hf. cbn [length] in Hf.
      pose proof (nw_plain_nonempty k Ok_k) as Hk_ne.
      assert (0 < length (nw_plain k))%nat by (destruct (nw_plain k); [contradiction|cbn; lia]).
      rewrite <- !app_assoc. cbn [rd_forest].
      rewrite (Hk f _ eq_refl ltac:(lia)). cbn [app N.eqb Pos.eqb].
      rewrite (IH ltac:(discriminate) Hks Ok_ks f rest ltac:(lia)). reflexivity.
  Qed.

  Lemma reads_all t : tree_ok t -> reads t.
  Proof.
    induction t as [g n a ks IH] using tree_ind'. intros Hok.
    pose proof (tree_ok_kids _ _ _ _ Hok) as Hkids.
    destruct Hok as [Hnm Hsd].
    apply all_nodes_inv in Hnm as [Hn _]. unfold nm_ok in Hn. cbn [tname] in Hn.
    apply name_ok_inv in Hn as [Hne Hq].
    intros fuel rest Ht Hf. destruct fuel as [|f]; [lia|].
    destruct ks as [|k ks].
    - cbn [nw_plain erase map rd_tree].
      destruct (serialize n ++ rest) as [|c r] eqn:E.
      + rewrite <- E. apply rd_node_plain; assumption.
      + rewrite (ser_head n rest c r Hne Hq E). rewrite <- E. apply rd_node_plain; assumption.
    - assert (Hreads : Forall reads (k :: ks)).
      { apply Forall_forall. intros x Hx. eapply Forall_forall in IH; eauto. apply IH.
        eapply Forall_forall in Hkids; eauto. }
      cbn [nw_plain] in *. rewrite !app_length in Hf. cbn [length] in Hf.
      rewrite <- !app_assoc. cbn [app rd_tree N.eqb Pos.eqb].
      rewrite (forest_reads (k :: ks) ltac:(discriminate) Hreads Hkids f (serialize n ++ rest) ltac:(lia)).
      rewrite (rd_node_plain (map erase (k :: ks)) n rest Hq Hne Ht). reflexivity.
  Qed.

  Theorem newick_read_plain t : tree_ok t -> newick_read la pf (nw_plain t) = Some (erase t).
  Proof.
    intros Hok. unfold newick_read.
    pose proof (reads_all t Hok (S (length (nw_plain t))) [] eq_refl ltac:(lia)) as H.
    rewrite app_nil_r in H. rewrite H. reflexivity.
  Qed.
End Reader.

(* ------------------------------------------------------------------------------------------ *)
(* from the spec-level guard to the proof-level guard; the views                               *)

Definition opt_plain (pf : str) (b : bool) : nwopt := NwOpt true [] [] pf b.

Lemma alphabet_tree_ok pf b isroot t : newick_alphabet (opt_plain pf b) isroot t = true -> tree_ok t.
Proof.
  unfold newick_alphabet. intros H.
  repeat (apply andb_true_iff in H as [H ?]).
  split; [|assumption].
  clear - H. induction t as [g n a ks IH] using tree_ind'.
  apply all_nodes_inv in H as [H1 H2]. cbn [all_nodes].
  apply andb_true_iff. split.
  - unfold node_in_alphabet in H1. apply andb_true_iff in H1 as [H1 _]. exact H1.
  - apply forallb_forall. intros k Hk.
    eapply Forall_forall in IH; eauto. apply IH. eapply Forall_forall in H2; eauto.
Qed.

Lemma nw_view_plain pf b isroot t : nw_view (opt_plain pf b) isroot t = erase t.
Proof.
  revert isroot. induction t as [g n a ks IH] using tree_ind'. intros isroot.
  cbn [nw_view erase opt_plain o_inter o_len o_keys nilb orb flat_map app]. f_equal.
  induction IH as [|k ks Hk Hks IHk]; [reflexivity|]. cbn [map]. rewrite Hk, IHk. reflexivity.
Qed.

Lemma sort_tree_erase t : sort_tree (erase t) = erase t.
Proof.
  induction t as [g n a ks IH] using tree_ind'. cbn [erase sort_tree sort_attrs fold_right]. f_equal.
  induction IH as [|k ks Hk Hks IHk]; [reflexivity|]. cbn [map]. rewrite Hk, IHk. reflexivity.
Qed.
