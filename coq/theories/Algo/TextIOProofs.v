(* Proofs about the models of Algo/TextIO.v (textual half of C06). *)
From BT Require Import Base.Prelude Base.Str Base.Rose Algo.TextIO Spec.PC06Text.

Local Open Scope N_scope.

(* ------------------------------------------------------------------------------------------ *)
(* generalities                                                                                *)

Lemma val_eqb_refl v : val_eqb v v = true.
Proof.
  destruct v; cbn; auto using Z.eqb_refl, str_eqb_refl, Bool.eqb_reflx.
Qed.

Lemma attrs_eqb_refl a : attrs_eqb a a = true.
Proof.
  induction a as [|[k v] a IH]; cbn; [reflexivity|].
  rewrite str_eqb_refl, val_eqb_refl, IH. reflexivity.
Qed.

Lemma tree_eqb_refl t : tree_eqb t t = true.
Proof.
  induction t as [g n a ks IH] using tree_ind'. cbn [tree_eqb].
  rewrite str_eqb_refl, attrs_eqb_refl. cbn [andb].
  induction ks as [|k ks IHk]; [reflexivity|].
  inversion IH as [|? ? Hk Hks]; subst. rewrite Hk. cbn [andb]. apply IHk. exact Hks.
Qed.

Lemma on_last_app {A} (f : A -> A) l x : on_last f (l ++ [x]) = l ++ [f x].
Proof.
  induction l as [|y l IH]; [reflexivity|].
  cbn [app on_last]. rewrite IH. destruct (l ++ [x]) eqn:E; [destruct l; discriminate|reflexivity].
Qed.

Lemma str_nodupb_names l : str_nodupb l = names_nodup l.
Proof. induction l as [|x l IH]; cbn; [reflexivity|]. rewrite IH. reflexivity. Qed.

Lemma map_tname_erase ks : map tname (map erase ks) = map tname ks.
Proof.
  induction ks as [|k ks IH]; [reflexivity|]. cbn [map]. rewrite IH. destruct k; reflexivity.
Qed.

Lemma all_nodes_inv p g n a ks :
  all_nodes p (T g n a ks) = true -> p (T g n a ks) = true /\ Forall (fun k => all_nodes p k = true) ks.
Proof.
  cbn [all_nodes]. intros H. apply andb_true_iff in H as [H1 H2]. split; [exact H1|].
  apply Forall_forall. intros k Hk. eapply forallb_forall in H2; eauto.
Qed.

Lemma sib_distinct_inv g n a ks :
  sib_distinct (T g n a ks) = true ->
  names_nodup (map tname ks) = true /\ Forall (fun k => sib_distinct k = true) ks.
Proof.
  cbn [sib_distinct]. intros H. apply andb_true_iff in H as [H1 H2]. split; [exact H1|].
  apply Forall_forall. intros k Hk. eapply forallb_forall in H2; eauto.
Qed.

(* ------------------------------------------------------------------------------------------ *)
(* Newick writer without length / attributes                                                   *)

Fixpoint nw_plain (t : tree) : str :=
  match t with
  | T _ n _ ks =>
      match ks with
      | [] => serialize n
      | _ => [40] ++ join [44] (map nw_plain ks) ++ [41] ++ serialize n
      end
  end.

Definition cfg_plain (lsep pf asep : str) : nwcfg := NwCfg true [] lsep [] pf asep.

Lemma nw_write_plain lsep pf asep isroot t :
  nw_write (cfg_plain lsep pf asep) isroot t = Ret (nw_plain t).
Proof.
  revert isroot. induction t as [g n a ks IH] using tree_ind'. intros isroot.
  cbn [nw_write nw_plain]. unfold name_str, attr_str, cfg_plain.
  cbn [nw_inter nw_len nw_attrs is_nil orb negb andb].
  destruct ks as [|k ks]; [rewrite app_nil_r; reflexivity|].
  assert (Hgo : forall l,
             Forall (fun t => forall isroot, nw_write (cfg_plain lsep pf asep) isroot t = Ret (nw_plain t)) l ->
             (fix go (l : list tree) : res (list str) :=
                   match l with
                   | [] => Ret []
                   | k0 :: r =>
                       match nw_write (NwCfg true [] lsep [] pf asep) false k0 with
                       | Raise e => Raise e
                       | Ret s => match go r with Raise e => Raise e | Ret ss => Ret (s :: ss) end
                       end
                   end) l = Ret (map nw_plain l)).
  { intros l Hl. induction Hl as [|x l Hx Hl IHl]; [reflexivity|].
    fold (cfg_plain lsep pf asep). rewrite Hx. unfold cfg_plain. rewrite IHl. reflexivity. }
  rewrite (Hgo (k :: ks) IH). rewrite app_nil_r. reflexivity.
Qed.

(* ------------------------------------------------------------------------------------------ *)
(* Newick parser on the writer's output                                                        *)

Section NewickMachine.
  Variables la pf : str.

  (* scanning state: PARSE_STRING, no current node, no pending value, not skipping *)
  Definition St (ab cu : list tree) (be : list (list tree)) (d : Z) (ctr : nat) (cum : str) : pst :=
    mkP ab cu be d ctr PStr false cum [] 0.

  Lemma not_special_chars c :
    memN c nw_specials = false ->
    N.eqb c 40 = false /\ N.eqb c 41 = false /\ N.eqb c 91 = false /\ N.eqb c 93 = false /\
    N.eqb c 61 = false /\ N.eqb c 39 = false /\ N.eqb c 58 = false /\ N.eqb c 44 = false.
  Proof.
    unfold memN, nw_specials. cbn [existsb]. intros H.
    repeat (apply orb_false_iff in H as [? H]). repeat split; assumption.
  Qed.

  Lemma run_plain_chars n : forall rest ab cu be d ctr cum,
    has_special n = false ->
    nw_run la pf (n ++ rest) (St ab cu be d ctr cum) = nw_run la pf rest (St ab cu be d ctr (cum ++ n)).
  Proof.
    induction n as [|c n IH]; intros rest ab cu be d ctr cum H.
    - rewrite app_nil_r. reflexivity.
    - unfold has_special in H. cbn [existsb] in H. apply orb_false_iff in H as [Hc Hn].
      destruct (not_special_chars c Hc) as (H1 & H2 & H3 & H4 & H5 & H6 & H7 & H8).
      unfold St at 1. cbn [app nw_run p_skip]. unfold nw_step. cbv beta iota.
      rewrite H1, H2, H3, H4, H5, H6, H7, H8. cbn [orb].
      fold (St ab cu be d ctr (cum ++ [c])). rewrite (IH rest ab cu be d ctr (cum ++ [c]) Hn).
      rewrite <- app_assoc. reflexivity.
  Qed.

  Lemma run_skip x : forall rest ab cu be d ctr st has cum val,
    nw_run la pf (x ++ rest) (mkP ab cu be d ctr st has cum val (length x))
    = nw_run la pf rest (mkP ab cu be d ctr st has cum val 0).
  Proof.
    induction x as [|c x IH]; intros; [reflexivity|].
    cbn [app length nw_run p_skip set_skip]. apply IH.
  Qed.

  Lemma find_quote_app n rest : no_quote n = true -> find_quote (n ++ 39 :: rest) = Some n.
  Proof.
    unfold no_quote, memN, q. induction n as [|c n IH]; intros H.
    - reflexivity.
    - cbn [existsb] in H. apply negb_true_iff in H. apply orb_false_iff in H as [Hc Hn].
      cbn [app find_quote]. rewrite N.eqb_sym, Hc. rewrite IH; [reflexivity|].
      apply negb_true_iff. exact Hn.
  Qed.

  Lemma requote_id n : no_quote n = true -> requote n = n.
  Proof.
    unfold no_quote, memN, q, requote. induction n as [|c n IH]; intros H; [reflexivity|].
    cbn [existsb] in H. apply negb_true_iff in H. apply orb_false_iff in H as [Hc Hn].
    cbn [map]. rewrite N.eqb_sym, Hc. rewrite IH; [reflexivity|]. apply negb_true_iff. exact Hn.
  Qed.

  Lemma run_name n rest ab cu be d ctr :
    no_quote n = true ->
    nw_run la pf (serialize n ++ rest) (St ab cu be d ctr []) = nw_run la pf rest (St ab cu be d ctr n).
  Proof.
    intros Hq. unfold serialize. destruct (has_special n) eqn:Hs.
    - rewrite (requote_id n Hq).
      replace ((39 :: n ++ [39]) ++ rest) with (39 :: (n ++ [39]) ++ rest) by reflexivity.
      unfold St at 1. cbn [nw_run p_skip]. unfold nw_step. cbv beta iota. cbn [N.eqb Pos.eqb orb].
      rewrite <- app_assoc. cbn [app]. rewrite (find_quote_app n rest Hq). cbn [is_nil negb].
      replace (n ++ 39 :: rest) with ((n ++ [39]) ++ rest) by (rewrite <- app_assoc; reflexivity).
      replace (S (length n)) with (length (n ++ [39])) by (rewrite app_length; cbn; lia).
      rewrite run_skip. reflexivity.
    - rewrite run_plain_chars by exact Hs. reflexivity.
  Qed.

  Lemma create_plain n ctr ks cu :
    n <> [] -> dup_names ks = false ->
    create_node on_last la false n ctr ks cu = Ret (ctr, cu ++ [T None n [] ks]).
  Proof.
    intros Hn Hd. unfold create_node. destruct n as [|c n]; [contradiction|].
    unfold attach. destruct ks as [|k ks]; [reflexivity|].
    rewrite Hd. rewrite on_last_app. reflexivity.
  Qed.

  Lemma step_comma rest n ctr ks cu be d :
    n <> [] -> dup_names ks = false ->
    nw_step la pf 44 rest (St ks cu be d ctr n) = Ret (St [] (cu ++ [T None n [] ks]) be d ctr []).
  Proof.
    intros Hn Hd. unfold nw_step, St. cbn [N.eqb Pos.eqb orb andb].
    rewrite (create_plain n ctr ks cu Hn Hd). reflexivity.
  Qed.

  Lemma step_close rest n ctr ks cu be d :
    n <> [] -> dup_names ks = false ->
    nw_step la pf 41 rest (St ks cu be d ctr n)
    = Ret (St (cu ++ [T None n [] ks]) (hd [] be) (tl be) (d - 1) ctr []).
  Proof.
    intros Hn Hd. unfold nw_step, St. cbn [N.eqb Pos.eqb orb andb].
    rewrite (create_plain n ctr ks cu Hn Hd). reflexivity.
  Qed.

  Lemma run_cons c rest ab cu be d ctr cum :
    nw_run la pf (c :: rest) (St ab cu be d ctr cum)
    = match nw_step la pf c rest (St ab cu be d ctr cum) with
      | Raise e => Raise e
      | Ret s' => nw_run la pf rest s'
      end.
  Proof. reflexivity. Qed.

  Lemma step_open rest cu be d ctr :
    nw_step la pf 40 rest (St [] cu be d ctr []) = Ret (St [] [] (cu :: be) (d + 1) ctr []).
  Proof. reflexivity. Qed.

  (* the guard of the round trip, per node *)
  Definition nm_ok (t : tree) : bool := name_ok (tname t).
  Definition tree_ok (t : tree) : Prop := all_nodes nm_ok t = true /\ sib_distinct t = true.

  Lemma name_ok_inv n : name_ok n = true -> n <> [] /\ no_quote n = true.
  Proof.
    unfold name_ok. intros H. apply andb_true_iff in H as [H1 H2]. split; [|exact H2].
    destruct n; [discriminate|discriminate].
  Qed.

  Lemma dup_erase ks : names_nodup (map tname ks) = true -> dup_names (map erase ks) = false.
  Proof.
    intros H. unfold dup_names. rewrite map_tname_erase, str_nodupb_names, H. reflexivity.
  Qed.

  (* after the text of t the machine holds t's (rebuilt) children above and t's name pending *)
  Definition core (t : tree) : Prop :=
    forall rest cu be d ctr,
      nw_run la pf (nw_plain t ++ rest) (St [] cu be d ctr [])
      = nw_run la pf rest (St (map erase (tkids t)) cu be d ctr (tname t)).

  Lemma erase_unfold t : erase t = T None (tname t) [] (map erase (tkids t)).
  Proof. destruct t; reflexivity. Qed.

  Lemma forest_run ks :
    ks <> [] ->
    Forall core ks -> Forall tree_ok ks ->
    forall rest cu be d ctr,
      nw_run la pf (join [44] (map nw_plain ks) ++ 41 :: rest) (St [] cu be d ctr [])
      = nw_run la pf rest (St (cu ++ map erase ks) (hd [] be) (tl be) (d - 1) ctr []).
  Proof.
    induction ks as [|k ks IH]; intros Hne Hc Hok rest cu be d ctr; [contradiction|].
    inversion Hc as [|? ? Hk Hks]; subst. inversion Hok as [|? ? Ok_k Ok_ks]; subst.
    destruct Ok_k as [Hnm Hsd].
    destruct k as [g n a kk].
    apply all_nodes_inv in Hnm as [Hn _]. unfold nm_ok in Hn. cbn [tname] in Hn.
    apply name_ok_inv in Hn as [Hne_n _].
    apply sib_distinct_inv in Hsd as [Hdup _]. apply dup_erase in Hdup.
    destruct ks as [|k2 ks].
    - cbn [map join]. rewrite (Hk (41 :: rest) cu be d ctr). cbn [tkids tname].
      cbn [nw_run St p_skip]. fold (St (map erase kk) cu be d ctr n).
      rewrite (step_close rest n ctr (map erase kk) cu be d Hne_n Hdup).
      rewrite erase_unfold. reflexivity.
    - change (map nw_plain (T g n a kk :: k2 :: ks))
        with (nw_plain (T g n a kk) :: map nw_plain (k2 :: ks)).
      change (join [44] (nw_plain (T g n a kk) :: map nw_plain (k2 :: ks)))
        with (nw_plain (T g n a kk) ++ [44] ++ join [44] (map nw_plain (k2 :: ks))).
      rewrite <- !app_assoc. rewrite (Hk _ cu be d ctr). cbn [tkids tname].
      cbn [app nw_run St p_skip]. fold (St (map erase kk) cu be d ctr n).
      rewrite (step_comma _ n ctr (map erase kk) cu be d Hne_n Hdup).
      rewrite (IH ltac:(discriminate) Hks Ok_ks rest _ be d ctr).
      rewrite <- app_assoc. reflexivity.
  Qed.

  Lemma tree_ok_kids g n a ks : tree_ok (T g n a ks) -> Forall tree_ok ks.
  Proof.
    intros [H1 H2]. apply all_nodes_inv in H1 as [_ H1]. apply sib_distinct_inv in H2 as [_ H2].
    apply Forall_forall. intros k Hk. split.
    - eapply Forall_forall in H1; eauto.
    - eapply Forall_forall in H2; eauto.
  Qed.

  Lemma core_all t : tree_ok t -> core t.
  Proof.
    induction t as [g n a ks IH] using tree_ind'. intros Hok.
    pose proof (tree_ok_kids _ _ _ _ Hok) as Hkids.
    destruct Hok as [Hnm Hsd].
    apply all_nodes_inv in Hnm as [Hn _]. unfold nm_ok in Hn. cbn [tname] in Hn.
    apply name_ok_inv in Hn as [_ Hq].
    intros rest cu be d ctr. cbn [tkids tname].
    destruct ks as [|k ks].
    - cbn [nw_plain map]. apply run_name. exact Hq.
    - assert (Hcore : Forall core (k :: ks)).
      { apply Forall_forall. intros x Hx. eapply Forall_forall in IH; eauto. apply IH.
        eapply Forall_forall in Hkids; eauto. }
      cbn [nw_plain]. rewrite <- !app_assoc.
      cbn [app]. rewrite run_cons, step_open.
      rewrite (forest_run (k :: ks) ltac:(discriminate) Hcore Hkids).
      cbn [hd tl app]. replace (d + 1 - 1)%Z with d by lia.
      apply run_name. exact Hq.
  Qed.

  Lemma nw_plain_nonempty t : tree_ok t -> nw_plain t <> [].
  Proof.
    destruct t as [g n a ks]. intros [Hnm _].
    apply all_nodes_inv in Hnm as [Hn _]. unfold nm_ok in Hn. cbn [tname] in Hn.
    apply name_ok_inv in Hn as [Hne _].
    cbn [nw_plain]. destruct ks; [|discriminate].
    unfold serialize. destruct (has_special n); [discriminate|exact Hne].
  Qed.

  Theorem nw_parse_plain t : tree_ok t -> nw_parse la pf (nw_plain t) = Ret (erase t).
  Proof.
    intros Hok. pose proof (nw_plain_nonempty t Hok) as Hne.
    assert (Hp : forall s, s <> [] ->
                 nw_parse la pf s = match nw_run la pf s p_init with
                                    | Raise e => Raise e
                                    | Ret st => nw_finish la st
                                    end).
    { intros [|c0 s0] Hs; [contradiction|reflexivity]. }
    rewrite (Hp _ Hne). clear Hp Hne.
    pose proof (core_all t Hok [] [] [] 1%Z 0%nat) as Hc. rewrite app_nil_r in Hc.
    change p_init with (St [] [] [] 1 0 []). rewrite Hc. cbn [nw_run].
    destruct t as [g n a ks]. cbn [tkids tname].
    destruct Hok as [Hnm Hsd].
    apply all_nodes_inv in Hnm as [Hn _]. unfold nm_ok in Hn. cbn [tname] in Hn.
    apply name_ok_inv in Hn as [Hne _].
    apply sib_distinct_inv in Hsd as [Hdup _]. apply dup_erase in Hdup.
    unfold nw_finish, St. cbn [p_depth p_cur p_cum p_ctr p_above Z.eqb Pos.eqb negb].
    rewrite (create_plain n 0%nat (map erase ks) [] Hne Hdup). reflexivity.
  Qed.
End NewickMachine.

(* ------------------------------------------------------------------------------------------ *)
(* The writer's text, read by the reference grammar of Spec/PC06Text.v, denotes the tree        *)

Section Reader.
  Variables la pf : str.

  Definition termb (rest : str) : bool :=
    match rest with [] => true | c :: _ => N.eqb c 44 || N.eqb c 41 end.

  Lemma termb_special c r : termb (c :: r) = true -> newick_special c = true.
  Proof.
    cbn [termb]. intros H. apply orb_true_iff in H as [H|H]; apply N.eqb_eq in H; subst; reflexivity.
  Qed.

  Lemma span_plain n : forall rest,
    has_special n = false -> termb rest = true ->
    span_p (fun c => negb (newick_special c)) (n ++ rest) = (n, rest).
  Proof.
    induction n as [|c n IH]; intros rest Hs Ht.
    - cbn [app]. destruct rest as [|c r]; [reflexivity|].
      cbn [span_p]. rewrite (termb_special c r Ht). reflexivity.
    - unfold has_special in Hs. cbn [existsb] in Hs. apply orb_false_iff in Hs as [Hc Hn].
      cbn [app span_p]. change (newick_special c) with (memN c nw_specials). rewrite Hc. cbn [negb].
      rewrite (IH rest Hn Ht). reflexivity.
  Qed.

  Lemma rd_quoted_app n rest : no_quote n = true -> rd_quoted (n ++ 39 :: rest) = Some (n, rest).
  Proof.
    unfold no_quote, memN, q. induction n as [|c n IH]; intros H.
    - reflexivity.
    - cbn [existsb] in H. apply negb_true_iff in H. apply orb_false_iff in H as [Hc Hn].
      cbn [app rd_quoted]. unfold q. rewrite N.eqb_sym, Hc. rewrite IH; [reflexivity|].
      apply negb_true_iff. exact Hn.
  Qed.

  Lemma rd_label_ser n rest :
    no_quote n = true -> n <> [] -> termb rest = true ->
    rd_label (serialize n ++ rest) = Some (n, rest).
  Proof.
    intros Hq Hne Ht. unfold serialize. destruct (has_special n) eqn:Hs.
    - rewrite (requote_id n Hq). cbn [app rd_label]. unfold q. cbn [N.eqb Pos.eqb].
      rewrite <- app_assoc. cbn [app]. apply rd_quoted_app. exact Hq.
    - destruct n as [|c n]; [contradiction|].
      pose proof Hs as Hs'. unfold has_special in Hs'. cbn [existsb] in Hs'.
      apply orb_false_iff in Hs' as [Hc _].
      destruct (not_special_chars c Hc) as (_ & _ & _ & _ & _ & H6 & _ & _).
      cbn [app rd_label]. unfold q. rewrite H6.
      change (c :: n ++ rest) with ((c :: n) ++ rest). rewrite (span_plain (c :: n) rest Hs Ht).
      reflexivity.
  Qed.

  Lemma rd_node_plain ks n rest :
    no_quote n = true -> n <> [] -> termb rest = true ->
    rd_node la pf ks (serialize n ++ rest) = Some (T None n [] ks, rest).
  Proof.
    intros Hq Hne Ht. unfold rd_node. rewrite (rd_label_ser n rest Hq Hne Ht).
    destruct rest as [|c r]; [reflexivity|].
    cbn [termb] in Ht. apply orb_true_iff in Ht as [H|H]; apply N.eqb_eq in H; subst; reflexivity.
  Qed.

  Lemma ser_head n rest c r : n <> [] -> no_quote n = true -> serialize n ++ rest = c :: r -> N.eqb c 40 = false.
  Proof.
    intros Hne Hq. unfold serialize. destruct (has_special n) eqn:Hs.
    - cbn [app]. intros E. inversion E; subst. reflexivity.
    - destruct n as [|x n]; [contradiction|]. cbn [app]. intros E. inversion E; subst.
      unfold has_special in Hs. cbn [existsb] in Hs. apply orb_false_iff in Hs as [Hc _].
      destruct (not_special_chars c Hc) as (H1 & _). exact H1.
  Qed.

  Definition reads (t : tree) : Prop :=
    forall fuel rest, termb rest = true -> (length (nw_plain t) < fuel)%nat ->
      rd_tree fuel la pf (nw_plain t ++ rest) = Some (erase t, rest).

  Lemma forest_reads ks :
    ks <> [] -> Forall reads ks -> Forall tree_ok ks ->
    forall fuel rest, (length (join [44%N] (map nw_plain ks)) + 1 < fuel)%nat ->
      rd_forest fuel la pf (join [44] (map nw_plain ks) ++ 41 :: rest) = Some (map erase ks, rest).
  Proof.
    induction ks as [|k ks IH]; intros Hne Hr Hok fuel rest Hf; [contradiction|].
    inversion Hr as [|? ? Hk Hks]; subst. inversion Hok as [|? ? Ok_k Ok_ks]; subst.
    destruct fuel as [|f]; [lia|].
    destruct ks as [|k2 ks].
    - cbn [map join] in *. cbn [rd_forest].
      rewrite (Hk f (41 :: rest) eq_refl ltac:(lia)). cbn [N.eqb Pos.eqb]. reflexivity.
    - change (map nw_plain (k :: k2 :: ks)) with (nw_plain k :: map nw_plain (k2 :: ks)) in *.
      change (join [44] (nw_plain k :: map nw_plain (k2 :: ks)))
        with (nw_plain k ++ [44] ++ join [44] (map nw_plain (k2 :: ks))) in *.
      rewrite !app_length in Hf. cbn [length] in Hf.
      pose proof (nw_plain_nonempty k Ok_k) as Hk_ne.
      assert (0 < length (nw_plain k))%nat by (destruct (nw_plain k); [contradiction|cbn; lia]).
      rewrite <- !app_assoc. cbn [rd_forest app].
      rewrite (Hk f (44 :: _) eq_refl ltac:(lia)). cbn [N.eqb Pos.eqb].
      rewrite (IH ltac:(discriminate) Hks Ok_ks f rest ltac:(lia)). reflexivity.
  Qed.

  Lemma reads_all t : tree_ok t -> reads t.
  Proof.
    induction t as [g n a ks IH] using tree_ind'. intros Hok.
    pose proof (tree_ok_kids _ _ _ _ Hok) as Hkids.
    destruct Hok as [Hnm Hsd].
    apply all_nodes_inv in Hnm as [Hn _]. unfold nm_ok in Hn. cbn [tname] in Hn.
    apply name_ok_inv in Hn as [Hne Hq].
    intros fuel rest Ht Hf. destruct fuel as [|f]; [lia|].
    destruct ks as [|k ks].
    - cbn [nw_plain erase map rd_tree].
      destruct (serialize n ++ rest) as [|c r] eqn:E.
      + rewrite <- E. apply rd_node_plain; assumption.
      + rewrite (ser_head n rest c r Hne Hq E). rewrite <- E. apply rd_node_plain; assumption.
    - assert (Hreads : Forall reads (k :: ks)).
      { apply Forall_forall. intros x Hx. eapply Forall_forall in IH; eauto. apply IH.
        eapply Forall_forall in Hkids; eauto. }
      cbn [nw_plain] in *. rewrite !app_length in Hf. cbn [length] in Hf.
      rewrite <- !app_assoc. cbn [app rd_tree N.eqb Pos.eqb].
      rewrite (forest_reads (k :: ks) ltac:(discriminate) Hreads Hkids f (serialize n ++ rest) ltac:(lia)).
      rewrite (rd_node_plain (map erase (k :: ks)) n rest Hq Hne Ht). reflexivity.
  Qed.

  Theorem newick_read_plain t : tree_ok t -> newick_read la pf (nw_plain t) = Some (erase t).
  Proof.
    intros Hok. unfold newick_read.
    pose proof (reads_all t Hok (S (length (nw_plain t))) [] eq_refl ltac:(lia)) as H.
    rewrite app_nil_r in H. rewrite H. reflexivity.
  Qed.
End Reader.

(* ------------------------------------------------------------------------------------------ *)
(* from the spec-level guard to the proof-level guard; the views                               *)

Definition opt_plain (pf : str) (b : bool) : nwopt := NwOpt true [] [] pf b.

Lemma alphabet_tree_ok pf b isroot t : newick_alphabet (opt_plain pf b) isroot t = true -> tree_ok t.
Proof.
  unfold newick_alphabet. intros H.
  repeat (apply andb_true_iff in H as [H ?]).
  split; [|assumption].
  clear - H. induction t as [g n a ks IH] using tree_ind'.
  apply all_nodes_inv in H as [H1 H2]. cbn [all_nodes].
  apply andb_true_iff. split.
  - unfold node_in_alphabet in H1. apply andb_true_iff in H1 as [H1 _]. exact H1.
  - apply forallb_forall. intros k Hk.
    eapply Forall_forall in IH; eauto. apply IH. eapply Forall_forall in H2; eauto.
Qed.

Lemma nw_view_plain pf b isroot t : nw_view (opt_plain pf b) isroot t = erase t.
Proof.
  revert isroot. induction t as [g n a ks IH] using tree_ind'. intros isroot.
  cbn [nw_view erase opt_plain o_inter o_len o_keys nilb orb flat_map app]. f_equal.
  induction IH as [|k ks Hk Hks IHk]; [reflexivity|]. cbn [map]. rewrite Hk, IHk. reflexivity.
Qed.

Lemma sort_tree_erase t : sort_tree (erase t) = erase t.
Proof.
  induction t as [g n a ks IH] using tree_ind'. cbn [erase sort_tree sort_attrs fold_right]. f_equal.
  induction IH as [|k ks Hk Hks IHk]; [reflexivity|]. cbn [map]. rewrite Hk, IHk. reflexivity.
Qed.

(* ------------------------------------------------------------------------------------------ *)
(* print_tree / str_to_tree                                                                    *)

(* pre-order (depth, name) list *)
Fixpoint pn (d : nat) (t : tree) : list (nat * str) :=
  match t with T _ n _ ks => (d, n) :: flat_map (pn (S d)) ks end.
Definition pnf (d : nat) (ks : list tree) : list (nat * str) := flat_map (pn d) ks.

Definition proj_dn (x : nat * bool * str) : nat * str := let '(d, _, n) := x in (d, n).

Lemma pre_info_pn t : forall d hr, map proj_dn (pre_info d hr t) = pn d t.
Proof.
  induction t as [g n a ks IH] using tree_ind'. intros d hr.
  cbn [pre_info pn map proj_dn]. f_equal.
  induction IH as [|k ks Hk Hks IHk]; [reflexivity|].
  cbn [flat_map]. rewrite map_app, Hk, IHk. reflexivity.
Qed.

(* --- the decoder: a tree is determined by its pre-order (depth, name) list --- *)

Definition deeper (d : nat) (l : list (nat * str)) : bool :=
  forallb (fun x : nat * str => Nat.ltb d (fst x)) l.
Definition head_le (d : nat) (l : list (nat * str)) : bool :=
  match l with [] => true | x :: _ => negb (Nat.ltb d (fst x)) end.

Lemma span_deeper_app d x : forall rest,
  deeper d x = true -> head_le d rest = true -> span_deeper d (x ++ rest) = (x, rest).
Proof.
  induction x as [|[e a] x IH]; intros rest Hd Hh.
  - cbn [app]. destruct rest as [|[e a] r]; [reflexivity|].
    cbn [span_deeper]. cbn [head_le fst] in Hh. apply negb_true_iff in Hh. rewrite Hh. reflexivity.
  - cbn [deeper forallb fst] in Hd. apply andb_true_iff in Hd as [H1 H2].
    cbn [app span_deeper]. rewrite H1. rewrite (IH rest H2 Hh). reflexivity.
Qed.

Lemma pn_deeper t : forall e d, (d < e)%nat -> deeper d (pn e t) = true.
Proof.
  induction t as [g n a ks IH] using tree_ind'. intros e d Hlt.
  cbn [pn deeper forallb fst]. apply andb_true_iff. split; [apply Nat.ltb_lt; exact Hlt|].
  fold (deeper d (flat_map (pn (S e)) ks)).
  induction IH as [|k ks Hk Hks IHk]; [reflexivity|].
  cbn [flat_map]. unfold deeper. rewrite forallb_app. apply andb_true_iff. split.
  - apply Hk. lia.
  - apply IHk.
Qed.

Lemma pnf_deeper ks e d : (d < e)%nat -> deeper d (pnf e ks) = true.
Proof.
  intros Hlt. induction ks as [|k ks IH]; [reflexivity|].
  unfold pnf. cbn [flat_map]. unfold deeper. rewrite forallb_app. apply andb_true_iff. split.
  - apply pn_deeper. exact Hlt.
  - apply IH.
Qed.

Lemma pnf_head_le ks d : head_le d (pnf d ks) = true.
Proof.
  destruct ks as [|[g n a kk] ks]; [reflexivity|].
  unfold pnf. cbn [flat_map pn app head_le fst]. rewrite Nat.ltb_irrefl. reflexivity.
Qed.

(* C06 "tree_of_preorder_depths": forest_of_pre inverts the pre-order listing *)
Lemma forest_of_pre_pnf : forall fuel ks d e,
  (length (pnf d ks) <= fuel)%nat -> forest_of_pre mk_plain fuel e (pnf d ks) = map erase ks.
Proof.
  induction fuel as [|f IH]; intros ks d e Hlen.
  { destruct ks as [|[g n a kk] ks]; [reflexivity|]. unfold pnf in Hlen. cbn in Hlen. lia. }
  destruct ks as [|[g n a kk] ks]; [reflexivity|].
  unfold pnf in Hlen |- *. cbn [flat_map pn app] in Hlen |- *. cbn [length] in Hlen. rewrite app_length in Hlen.
  cbn [forest_of_pre].
  fold (pnf (S d) kk) in Hlen |- *. fold (pnf d ks) in Hlen |- *.
  rewrite (span_deeper_app d (pnf (S d) kk) (pnf d ks) (pnf_deeper kk (S d) d ltac:(lia)) (pnf_head_le ks d)).
  rewrite (IH kk (S d) (S d) ltac:(lia)). rewrite (IH ks d e ltac:(lia)).
  reflexivity.
Qed.

Theorem forest_of_pre_pn t fuel :
  (length (pn 0 t) <= fuel)%nat -> forest_of_pre mk_plain fuel 0 (pn 0 t) = [erase t].
Proof.
  intros H. pose proof (forest_of_pre_pnf fuel [t] 0%nat 0%nat) as P.
  unfold pnf in P. cbn [flat_map map] in P. rewrite app_nil_r in P. apply P. exact H.
Qed.

(* --- pre-order depth sequences never jump by more than one --- *)

Fixpoint chain (c : nat) (l : list (nat * str)) : Prop :=
  match l with
  | [] => True
  | (d, _) :: r => (1 <= d /\ d <= c)%nat /\ chain (S d) r
  end.

Lemma chain_tree t : forall d c rest,
  (1 <= d /\ d <= c)%nat -> (forall c', (S d <= c')%nat -> chain c' rest) -> chain c (pn d t ++ rest).
Proof.
  induction t as [g n a ks IH] using tree_ind'. intros d c rest Hd Hrest.
  cbn [pn app chain]. split; [exact Hd|].
  assert (Hf : forall c', (S d <= c')%nat -> chain c' (flat_map (pn (S d)) ks ++ rest)).
  { induction IH as [|k ks Hk Hks IHk]; intros c' Hc'.
    - cbn [flat_map app]. apply Hrest. exact Hc'.
    - cbn [flat_map]. rewrite <- app_assoc. apply Hk; [lia|].
      intros c'' Hc''. apply IHk. lia. }
  apply Hf. lia.
Qed.

Lemma chain_pnf ks : chain 1 (pnf 1 ks).
Proof.
  assert (H : forall c', (1 <= c')%nat -> chain c' (pnf 1 ks ++ [])).
  { induction ks as [|k ks IH]; intros c' Hc'.
    - exact I.
    - unfold pnf. cbn [flat_map]. rewrite <- app_assoc. apply chain_tree; [lia|].
      intros c'' Hc''. apply IH. lia. }
  specialize (H 1%nat ltac:(lia)). rewrite app_nil_r in H. exact H.
Qed.

(* --- characters --- *)

Lemma glyph_not_10 c : glyph c = true -> N.eqb c 10 = false.
Proof.
  unfold glyph. intros H. apply N.eqb_neq. intros ->. cbn in H. discriminate.
Qed.
Lemma printable_not_10 c : printable c = true -> N.eqb c 10 = false.
Proof.
  unfold printable. intros H. apply N.eqb_neq. intros ->. cbn in H. discriminate.
Qed.
Lemma printable_ascii c : printable c = true -> (c <? 128) = true.
Proof.
  unfold printable. intros H. apply andb_true_iff in H as [_ H]. apply N.leb_le in H.
  apply N.ltb_lt. lia.
Qed.
Lemma head_not_space c : printable c = true -> N.eqb c 32 = false -> is_space c = false.
Proof.
  unfold printable, is_space. intros H H32. apply andb_true_iff in H as [H1 H2].
  apply N.leb_le in H1. apply N.leb_le in H2. apply N.eqb_neq in H32.
  apply orb_false_iff. split; apply andb_false_iff.
  - right. apply N.leb_gt. lia.
  - right. apply N.leb_gt. lia.
Qed.
Lemma head_not_glyph c g : printable c = true -> N.eqb c 32 = false -> glyph g = true -> N.eqb c g = false.
Proof.
  unfold printable, glyph. intros H H32 Hg. apply andb_true_iff in H as [H1 H2].
  apply N.leb_le in H2. apply N.eqb_neq in H32. apply N.eqb_neq. intros ->.
  apply orb_true_iff in Hg as [Hg|Hg].
  - apply N.leb_le in Hg. lia.
  - apply N.eqb_eq in Hg. contradiction.
Qed.

Definition pname (n : str) : Prop :=
  forallb printable n = true /\ exists c r, n = c :: r /\ N.eqb c 32 = false.

Lemma print_name_ok_pname n : print_name_ok n = true -> pname n.
Proof.
  unfold print_name_ok. intros H. apply andb_true_iff in H as [H1 H2]. split; [exact H1|].
  destruct n as [|c r]; [discriminate|]. exists c, r. split; [reflexivity|].
  apply negb_true_iff. exact H2.
Qed.

Lemma ascii_only_name n : forallb printable n = true -> ascii_only n = n.
Proof.
  unfold ascii_only. induction n as [|c n IH]; intros H; [reflexivity|].
  cbn [forallb] in H. apply andb_true_iff in H as [Hc Hn].
  cbn [filter]. rewrite (printable_ascii c Hc). rewrite (IH Hn). reflexivity.
Qed.

Lemma strip_prefix_name P n :
  forallb glyph P = true -> pname n -> lstrip_ws (ascii_only (P ++ n)) = n.
Proof.
  intros HP [Hpr (c & r & -> & Hc)].
  unfold ascii_only. rewrite filter_app. fold (ascii_only (c :: r)). rewrite (ascii_only_name _ Hpr).
  induction P as [|g P IH].
  - cbn [filter app lstrip_ws]. cbn [forallb] in Hpr. apply andb_true_iff in Hpr as [Hpc _].
    rewrite (head_not_space c Hpc Hc). reflexivity.
  - cbn [forallb] in HP. apply andb_true_iff in HP as [Hg HP].
    cbn [filter]. destruct (g <? 128) eqn:E.
    + unfold glyph in Hg. apply orb_true_iff in Hg as [Hg|Hg].
      * apply N.leb_le in Hg. apply N.ltb_lt in E. lia.
      * apply N.eqb_eq in Hg. subst g. cbn [app lstrip_ws is_space N.leb N.compare Pos.compare Pos.compare_cont andb orb].
        apply IH. exact HP.
    + apply IH. exact HP.
Qed.

Lemma startswith_refl s : startswith s s = true.
Proof. pose proof (startswith_app [] s) as H. rewrite app_nil_r in H. exact H. Qed.

Lemma find_sub_prefix P n :
  forallb glyph P = true -> pname n -> find_sub (P ++ n) n = Some (length P).
Proof.
  intros HP [Hpr (c & r & -> & Hc)].
  induction P as [|g P IH].
  - cbn [app find_sub]. rewrite startswith_refl. reflexivity.
  - cbn [forallb] in HP. apply andb_true_iff in HP as [Hg HP].
    cbn [forallb] in Hpr. pose proof Hpr as Hpr'. apply andb_true_iff in Hpr' as [Hpc _].
    cbn [app find_sub startswith]. rewrite (head_not_glyph c g Hpc Hc Hg). cbn [andb].
    rewrite (IH HP). reflexivity.
Qed.

(* --- the loop of str_to_tree on well-indented lines --- *)

Section Lines.
  Variable L : nat.
  Hypothesis HL : (0 < L)%nat.

  Definition line_ok (dn : nat * str) (line : str) : Prop :=
    pname (snd dn) /\ exists P, line = P ++ snd dn /\ length P = (L * fst dn)%nat /\ forallb glyph P = true.

  Lemma st_lines_some : forall dn lines c,
    chain c dn -> Forall2 line_ok dn lines -> st_lines lines (Some L) c = Ret dn.
  Proof.
    induction dn as [|[d n] dn IH]; intros lines c Hch Hf; inversion Hf as [|? line ? lines' Hl Hf']; subst.
    - reflexivity.
    - cbn [chain] in Hch. destruct Hch as [[Hd1 Hdc] Hch].
      destruct Hl as [Hpn (P & -> & HlenP & HgP)]. cbn [fst snd] in *.
      cbn [st_lines]. rewrite (strip_prefix_name P n HgP Hpn). rewrite (find_sub_prefix P n HgP Hpn).
      rewrite HlenP.
      assert (E0 : Nat.eqb L 0 = false) by (apply Nat.eqb_neq; lia). rewrite E0.
      rewrite (Nat.mul_comm L d), (Nat.mod_mul d L ltac:(lia)). cbn [Nat.eqb negb].
      rewrite (Nat.div_mul d L ltac:(lia)).
      assert (E1 : Nat.eqb d 0 = false) by (apply Nat.eqb_neq; lia). rewrite E1.
      destruct Hpn as [_ (c0 & r0 & En & _)]. rewrite En. cbn [is_nil]. rewrite <- En.
      rewrite (Nat.min_r c d Hdc). rewrite (IH lines' (S d) Hch Hf'). reflexivity.
  Qed.

  Lemma st_lines_none dn lines :
    chain 1 dn -> Forall2 line_ok dn lines -> st_lines lines None 1 = Ret dn.
  Proof.
    intros Hch Hf. rewrite <- (st_lines_some dn lines 1%nat Hch Hf).
    destruct dn as [|[d n] dn]; inversion Hf as [|? line ? lines' Hl Hf']; subst; [reflexivity|].
    cbn [chain] in Hch. destruct Hch as [[Hd1 Hdc] _]. assert (d = 1%nat) by lia. subst d.
    destruct Hl as [Hpn (P & -> & HlenP & HgP)]. cbn [fst snd] in *.
    cbn [st_lines]. rewrite (strip_prefix_name P n HgP Hpn). rewrite (find_sub_prefix P n HgP Hpn).
    rewrite HlenP, Nat.mul_1_r. reflexivity.
  Qed.
End Lines.

(* --- the lines yield_tree produces --- *)

Definition line_of (x : str * str * str) : str := let '(p, f, n) := x in p ++ f ++ n.

Lemma repeat_glyph k : forallb glyph (repeat 32 k) = true.
Proof. induction k as [|k IH]; [reflexivity|]. cbn [repeat forallb]. rewrite IH. reflexivity. Qed.

Section Yield.
  Variables stem branch final : str.
  Variable L : nat.
  Hypothesis Hs : length stem = L.
  Hypothesis Hb : length branch = L.
  Hypothesis Hf : length final = L.
  Hypothesis Gs : forallb glyph stem = true.
  Hypothesis Gb : forallb glyph branch = true.
  Hypothesis Gf : forallb glyph final = true.

  Let gap : str := repeat 32 L.

  Lemma gap_glyph : forallb glyph gap = true.
  Proof. apply repeat_glyph. Qed.
  Lemma gap_len : length gap = L.
  Proof. apply repeat_length. Qed.

  Lemma pre_s_ok (unc : list nat) (ks : list nat) :
    let s := concat (map (fun k => if memb k unc then stem else gap) ks) in
    length s = (L * length ks)%nat /\ forallb glyph s = true.
  Proof.
    induction ks as [|k ks [IH1 IH2]]; cbn [map concat length].
    - split; [lia|reflexivity].
    - rewrite app_length, forallb_app, IH1, IH2.
      destruct (memb k unc).
      + rewrite Hs, Gs. split; [lia|reflexivity].
      + rewrite gap_len, gap_glyph. split; [lia|reflexivity].
  Qed.

  Lemma yield_lines : forall l unc,
    Forall (fun x : nat * bool * str => pname (snd x)) l ->
    Forall2 (line_ok L) (map proj_dn l) (map line_of (yield_go (stem, branch, final) gap unc l)).
  Proof.
    induction l as [|[[d hr] n] l IH]; intros unc Hn; [constructor|].
    pose proof (Forall_inv Hn) as Hn1. pose proof (Forall_inv_tail Hn) as Hn2. cbn [snd] in Hn1.
    destruct d as [|d'].
    - cbn [yield_go map proj_dn line_of app]. constructor; [|apply IH; exact Hn2].
      split; [exact Hn1|]. exists []. cbn [fst snd length].
      split; [reflexivity|]. split; [lia|reflexivity].
    - cbn [yield_go map proj_dn line_of]. constructor; [|apply IH; exact Hn2].
      split; [exact Hn1|]. cbn [fst snd].
      set (unc' := if hr then set_add (S d') unc else set_remove (S d') unc).
      destruct (pre_s_ok unc' (seq 1 d')) as [P1 P2]. rewrite seq_length in P1.
      exists (concat (map (fun k => if memb k unc' then stem else gap) (seq 1 d')) ++ (if hr then branch else final)).
      split; [rewrite <- app_assoc; reflexivity|]. split.
      + rewrite app_length, P1. destruct hr; [rewrite Hb|rewrite Hf]; lia.
      + rewrite forallb_app, P2. destruct hr; [rewrite Gb|rewrite Gf]; reflexivity.
  Qed.
End Yield.

(* --- print(...) lines, strip and split --- *)

Fixpoint joinl (ls : list str) : str :=
  match ls with
  | [] => []
  | [l] => l
  | l :: r => l ++ 10 :: joinl r
  end.

Definition no10 (l : str) : bool := forallb (fun c => negb (N.eqb c 10)) l.

Lemma concat_lines ls : ls <> [] -> concat (map (fun l => l ++ [10]) ls) = joinl ls ++ [10].
Proof.
  induction ls as [|l ls IH]; intros H; [contradiction|].
  destruct ls as [|l2 ls].
  - cbn [map concat joinl]. rewrite app_nil_r. reflexivity.
  - cbn [map concat] in *. change (joinl (l :: l2 :: ls)) with (l ++ 10 :: joinl (l2 :: ls)).
    rewrite (IH ltac:(discriminate)). rewrite <- !app_assoc. reflexivity.
Qed.

Lemma split_line l rest : no10 l = true -> split_on 10 (l ++ 10 :: rest) = l :: split_on 10 rest.
Proof.
  unfold no10. induction l as [|c l IH]; intros H.
  - reflexivity.
  - cbn [forallb] in H. apply andb_true_iff in H as [Hc Hl]. apply negb_true_iff in Hc.
    cbn [app split_on]. rewrite Hc. rewrite (IH Hl). reflexivity.
Qed.
Lemma split_last l : no10 l = true -> split_on 10 l = [l].
Proof.
  unfold no10. induction l as [|c l IH]; intros H; [reflexivity|].
  cbn [forallb] in H. apply andb_true_iff in H as [Hc Hl]. apply negb_true_iff in Hc.
  cbn [split_on]. rewrite Hc. rewrite (IH Hl). reflexivity.
Qed.
Lemma split_joinl ls : ls <> [] -> forallb no10 ls = true -> split_on 10 (joinl ls) = ls.
Proof.
  induction ls as [|l ls IH]; intros Hne H; [contradiction|].
  cbn [forallb] in H. apply andb_true_iff in H as [Hl Hls].
  destruct ls as [|l2 ls].
  - cbn [joinl]. apply split_last. exact Hl.
  - change (joinl (l :: l2 :: ls)) with (l ++ 10 :: joinl (l2 :: ls)).
    rewrite (split_line l _ Hl). rewrite (IH ltac:(discriminate) Hls). reflexivity.
Qed.

Lemma lstrip_head c r chars : memN c chars = false -> lstrip (c :: r) chars = c :: r.
Proof. intros H. cbn [lstrip]. rewrite H. reflexivity. Qed.

Lemma rstrip_keep x c chars : memN c chars = false -> rstrip (x ++ [c]) chars = x ++ [c].
Proof.
  intros H. unfold rstrip. rewrite rev_unit. rewrite (lstrip_head c (rev x) chars H).
  cbn [rev]. rewrite rev_involutive. reflexivity.
Qed.
Lemma rstrip_drop x c chars : memN c chars = true -> rstrip (x ++ [c]) chars = rstrip x chars.
Proof.
  intros H. unfold rstrip. rewrite rev_unit. cbn [lstrip]. rewrite H. reflexivity.
Qed.

(* last character of a non-empty list *)
Lemma last_char (l : str) : l <> [] -> exists x c, l = x ++ [c].
Proof.
  intros H. destruct (exists_last H) as (x & c & E). exists x, c. exact E.
Qed.

Lemma joinl_last ls : ls <> [] -> exists pre, joinl ls = pre ++ last ls [].
Proof.
  induction ls as [|l ls IH]; intros H; [contradiction|].
  destruct ls as [|l2 ls].
  - exists []. reflexivity.
  - destruct (IH ltac:(discriminate)) as [pre E].
    exists (l ++ 10 :: pre). change (joinl (l :: l2 :: ls)) with (l ++ 10 :: joinl (l2 :: ls)).
    rewrite E. change (last (l :: l2 :: ls) []) with (last (l2 :: ls) []).
    rewrite <- app_assoc. reflexivity.
Qed.

Lemma no10_app_last x c : no10 (x ++ [c]) = true -> N.eqb c 10 = false.
Proof.
  unfold no10. rewrite forallb_app. intros H. apply andb_true_iff in H as [_ H].
  cbn [forallb] in H. apply andb_true_iff in H as [H _]. apply negb_true_iff. exact H.
Qed.

Lemma last_in (ls : list str) : ls <> [] -> In (last ls []) ls.
Proof.
  induction ls as [|l ls IH]; intros H; [contradiction|].
  destruct ls as [|l2 ls]; [left; reflexivity|].
  right. apply IH. discriminate.
Qed.

Lemma strip_lines ls :
  ls <> [] -> forallb no10 ls = true -> Forall (fun l => l <> []) ls ->
  strip (joinl ls ++ [10]) [10] = joinl ls.
Proof.
  intros Hne H10 Hnn.
  (* the text starts with a character of the first line *)
  assert (Hhead : exists c r, joinl ls = c :: r /\ N.eqb c 10 = false).
  { destruct ls as [|l ls]; [contradiction|].
    inversion Hnn as [|? ? Hl _]; subst. cbn [forallb] in H10. apply andb_true_iff in H10 as [Hl10 _].
    destruct l as [|c l]; [contradiction|].
    unfold no10 in Hl10. cbn [forallb] in Hl10. apply andb_true_iff in Hl10 as [Hc _].
    apply negb_true_iff in Hc.
    destruct ls as [|l2 ls].
    - exists c, l. split; [reflexivity|exact Hc].
    - exists c, (l ++ 10 :: joinl (l2 :: ls)). split; [reflexivity|exact Hc]. }
  (* and ends with a character of the last line *)
  assert (Htail : exists x c, joinl ls = x ++ [c] /\ N.eqb c 10 = false).
  { destruct (joinl_last ls Hne) as [pre E].
    pose proof (last_in ls Hne) as Hin.
    assert (Hl : last ls [] <> []) by (eapply Forall_forall in Hnn; eauto).
    assert (Hl10 : no10 (last ls []) = true) by (eapply forallb_forall in H10; eauto).
    destruct (last_char _ Hl) as (x & c & Ex). rewrite Ex in Hl10, E.
    exists (pre ++ x), c. split; [rewrite E, app_assoc; reflexivity|].
    apply (no10_app_last x c Hl10). }
  destruct Hhead as (c & r & Ec & Hc). destruct Htail as (x & c' & Ex & Hc').
  unfold strip. rewrite Ec. cbn [app]. rewrite lstrip_head by (unfold memN; cbn [existsb]; rewrite Hc; reflexivity).
  change (c :: r ++ [10]) with ((c :: r) ++ [10]). rewrite <- Ec.
  rewrite rstrip_drop by reflexivity. rewrite Ex.
  apply rstrip_keep. unfold memN. cbn [existsb]. rewrite Hc'. reflexivity.
Qed.

Lemma line_ok_no10 L dn line : line_ok L dn line -> no10 line = true /\ line <> [].
Proof.
  intros [[Hpr (c & r & En & _)] (P & -> & _ & HgP)]. split.
  - unfold no10. rewrite forallb_app. apply andb_true_iff. split.
    + apply forallb_forall. intros g Hg. eapply forallb_forall in HgP; eauto.
      rewrite (glyph_not_10 g HgP). reflexivity.
    + apply forallb_forall. intros g Hg. eapply forallb_forall in Hpr; eauto.
      rewrite (printable_not_10 g Hpr). reflexivity.
  - rewrite En. destruct P; discriminate.
Qed.

Lemma sib_dups_erase t : sib_distinct t = true -> sib_dups (erase t) = false.
Proof.
  induction t as [g n a ks IH] using tree_ind'. intros H.
  apply sib_distinct_inv in H as [Hd Hk].
  cbn [erase sib_dups]. rewrite (dup_erase ks Hd). cbn [orb].
  induction IH as [|k ks Hk1 Hks IHk]; [reflexivity|].
  inversion Hk as [|? ? Hk2 Hk3]; subst.
  cbn [map existsb]. rewrite (Hk1 Hk2). cbn [orb]. apply IHk.
  - cbn [map names_nodup] in Hd. apply andb_true_iff in Hd as [_ Hd]. exact Hd.
  - exact Hk3.
Qed.

Lemma pre_info_names p t : forall d hr,
  all_nodes (fun x => p (tname x)) t = true ->
  Forall (fun x : nat * bool * str => p (snd x) = true) (pre_info d hr t).
Proof.
  induction t as [g n a ks IH] using tree_ind'. intros d hr H.
  apply all_nodes_inv in H as [H1 H2]. cbn [tname] in H1.
  cbn [pre_info]. constructor; [exact H1|].
  induction IH as [|k ks Hk Hks IHk]; [constructor|].
  inversion H2 as [|? ? Hk2 Hk3]; subst.
  apply Forall_app. split; [apply Hk; exact Hk2|apply IHk; exact Hk3].
Qed.

Theorem print_roundtrip stem branch final t :
  print_alphabet (stem, branch, final) t = true ->
  exists s, print_str (stem, branch, final) t = Ret s /\ str_to_tree_m s = Ret (erase t).
Proof.
  unfold print_alphabet, style_inferable. intros H.
  repeat (apply andb_true_iff in H as [H ?]).
  rename H0 into Hsd, H1 into Hnames, H2 into Gf, H3 into Gb, H4 into Gs, H5 into Hne, H6 into Hbf.
  apply Nat.eqb_eq in H. apply Nat.eqb_eq in Hbf.
  assert (HLpos : (0 < length stem)%nat) by (destruct stem; [discriminate|cbn; lia]).
  unfold print_str, yield_tree.
  replace (Nat.eqb (length stem) (length branch)) with true by (symmetry; apply Nat.eqb_eq; exact H).
  replace (Nat.eqb (length branch) (length final)) with true by (symmetry; apply Nat.eqb_eq; exact Hbf).
  cbn [andb].
  eexists. split; [reflexivity|].
  (* the lines *)
  assert (Hmap : forall ys,
             concat (map (fun x : str * str * str => let '(p, f, n) := x in p ++ f ++ n ++ [10]) ys)
             = concat (map (fun l => l ++ [10]) (map line_of ys))).
  { intros ys. rewrite map_map. f_equal. apply map_ext. intros [[p f] n]. cbn [line_of].
    rewrite <- !app_assoc. reflexivity. }
  rewrite Hmap. clear Hmap.
  assert (Hpn : Forall (fun x : nat * bool * str => pname (snd x)) (pre_info 0 false t)).
  { pose proof (pre_info_names print_name_ok t 0%nat false Hnames) as Hp.
    eapply Forall_impl; [|exact Hp]. intros x Hx. apply print_name_ok_pname. exact Hx. }
  pose proof (yield_lines stem branch final (length stem) eq_refl (eq_sym H) (eq_sym (eq_trans H Hbf))
                          Gs Gb Gf (pre_info 0 false t) [] Hpn) as Hl.
  rewrite pre_info_pn in Hl.
  destruct t as [g n a ks]. cbn [pn] in Hl. fold (pnf 1 ks) in Hl.
  cbn [pre_info yield_go map line_of app] in Hl |- *.
  match goal with
  | |- context [map line_of ?Y] => set (lines := map line_of Y) in *
  end.
  change ((n ++ [10]) :: map (fun l : list N => l ++ [10]) lines)
    with (map (fun l : list N => l ++ [10]) (n :: lines)).
  assert (Hrest : Forall2 (line_ok (length stem)) (pnf 1 ks) lines) by (inversion Hl; assumption).
  assert (H10 : forallb no10 (n :: lines) = true /\ Forall (fun l => l <> []) (n :: lines)).
  { clear - Hl. induction Hl as [|dn line dns ls Hx Hxs IH]; [split; [reflexivity|constructor]|].
    destruct IH as [I1 I2]. destruct (line_ok_no10 (length stem) dn line Hx) as [A B].
    split; [cbn [forallb]; rewrite A, I1; reflexivity|constructor; assumption]. }
  destruct H10 as [H10 Hnn].
  rewrite (concat_lines (n :: lines) ltac:(discriminate)).
  unfold str_to_tree_m. rewrite (strip_lines (n :: lines) ltac:(discriminate) H10 Hnn).
  assert (Hjn : joinl (n :: lines) <> []).
  { inversion Hnn as [|? ? Hn0 _]; subst. destruct n as [|c r]; [contradiction|].
    destruct lines; discriminate. }
  destruct (joinl (n :: lines)) as [|c0 r0] eqn:Ej; [contradiction|]. rewrite <- Ej. clear Ej Hjn c0 r0.
  rewrite (split_joinl (n :: lines) ltac:(discriminate) H10).
  rewrite (st_lines_none (length stem) HLpos (pnf 1 ks) lines (chain_pnf ks) Hrest).
  change ((0%nat, n) :: pnf 1 ks) with (pn 0 (T g n a ks)).
  rewrite (forest_of_pre_pn (T g n a ks) (S (length (pnf 1 ks)))) by (cbn [pn length]; unfold pnf; lia).
  rewrite (sib_dups_erase (T g n a ks) Hsd). reflexivity.
Qed.

(* ------------------------------------------------------------------------------------------ *)
(* yield_tree's loop (set of unclosed depths) computes the textbook recursive rendering         *)

Lemma memb_set_add x y s : memb x (set_add y s) = Nat.eqb x y || memb x s.
Proof.
  unfold set_add. destruct (memb y s) eqn:E.
  - destruct (Nat.eqb x y) eqn:Exy; [|reflexivity]. apply Nat.eqb_eq in Exy. subst. rewrite E. reflexivity.
  - reflexivity.
Qed.

Lemma memb_set_remove x y s : memb x (set_remove y s) = negb (Nat.eqb x y) && memb x s.
Proof.
  unfold set_remove, memb. induction s as [|z s IH]; cbn [filter existsb].
  - rewrite andb_false_r. reflexivity.
  - destruct (Nat.eqb y z) eqn:Eyz; cbn [negb existsb].
    + rewrite IH. apply Nat.eqb_eq in Eyz. subst z. rewrite (Nat.eqb_sym x y).
      destruct (Nat.eqb y x); reflexivity.
    + rewrite IH. destruct (Nat.eqb x z) eqn:Exz; cbn [orb].
      * apply Nat.eqb_eq in Exz. subst z. rewrite (Nat.eqb_sym x y), Eyz. reflexivity.
      * reflexivity.
Qed.

Section Render.
  Variables stem branch final : str.
  Let st : style := (stem, branch, final).
  Let gap : str := repeat 32 (length stem).

  Definition pfxS (U : list nat) (m : nat) : str :=
    concat (map (fun k => if memb k U then stem else gap) (seq 1 m)).
  Definition agree (m : nat) (U U' : list nat) : Prop := forall j, (j <= m)%nat -> memb j U = memb j U'.

  Lemma pfxS_frame m U U' : agree m U U' -> pfxS U m = pfxS U' m.
  Proof.
    intros H. unfold pfxS. f_equal. apply map_ext_in. intros k Hk. apply in_seq in Hk.
    rewrite (H k ltac:(lia)). reflexivity.
  Qed.

  Lemma pfxS_S U m : pfxS U (S m) = pfxS U m ++ (if memb (S m) U then stem else gap).
  Proof.
    unfold pfxS. rewrite seq_S, map_app, concat_app. cbn [map concat Nat.add]. rewrite app_nil_r. reflexivity.
  Qed.

  Definition pre_kids (m : nat) (ks : list tree) : list (nat * bool * str) :=
    (fix go (l : list tree) : list (nat * bool * str) :=
       match l with
       | [] => []
       | k :: r => pre_info (S m) (negb (is_nil r)) k ++ go r
       end) ks.

  Definition ref_kids (pfx : str) (ks : list tree) : list str :=
    (fix go (l : list tree) : list str :=
       match l with
       | [] => []
       | k :: r =>
           let last := nilb r in
           (pfx ++ (if last then final else branch) ++ tname k)
             :: ref_below (stem, branch, final) (pfx ++ (if last then repeat 32 (length stem) else stem)) k ++ go r
       end) ks.

  Definition sub_spec (t : tree) : Prop :=
    forall d' hr U, exists U2,
      agree d' U U2 /\ memb (S d') U2 = hr /\
      forall rest,
        map line_of (yield_go st gap U (pre_info (S d') hr t ++ rest))
        = (pfxS U d' ++ (if hr then branch else final) ++ tname t)
            :: ref_below st (pfxS U d' ++ (if hr then stem else gap)) t
            ++ map line_of (yield_go st gap U2 rest).

  Lemma kids_spec ks : Forall sub_spec ks ->
    forall m U, exists U2,
      agree m U U2 /\
      forall rest,
        map line_of (yield_go st gap U (pre_kids m ks ++ rest))
        = ref_kids (pfxS U m) ks ++ map line_of (yield_go st gap U2 rest).
  Proof.
    intros HF. induction HF as [|k r Hk Hr IH]; intros m U.
    - exists U. split; [intros j _; reflexivity|]. intros rest. reflexivity.
    - destruct (Hk m (negb (is_nil r)) U) as (U1 & A1 & _ & E1).
      destruct (IH m U1) as (U2 & A2 & E2).
      exists U2. split; [intros j Hj; rewrite (A1 j Hj); apply A2; exact Hj|].
      intros rest.
      change (pre_kids m (k :: r)) with (pre_info (S m) (negb (is_nil r)) k ++ pre_kids m r).
      rewrite <- app_assoc. rewrite E1. rewrite E2.
      rewrite <- (pfxS_frame m U U1 A1).
      change (ref_kids (pfxS U m) (k :: r))
        with ((pfxS U m ++ (if nilb r then final else branch) ++ tname k)
                :: ref_below (stem, branch, final)
                     (pfxS U m ++ (if nilb r then repeat 32 (length stem) else stem)) k
                ++ ref_kids (pfxS U m) r).
      destruct r as [|k2 r]; cbn [is_nil nilb negb]. all: rewrite <- app_comm_cons, <- app_assoc; reflexivity.
  Qed.

  Lemma sub_spec_all t : sub_spec t.
  Proof.
    induction t as [g n a ks IH] using tree_ind'. intros d' hr U.
    set (U' := if hr then set_add (S d') U else set_remove (S d') U).
    assert (A' : agree d' U U').
    { intros j Hj. unfold U'. destruct hr.
      - rewrite memb_set_add. replace (Nat.eqb j (S d')) with false by (symmetry; apply Nat.eqb_neq; lia).
        reflexivity.
      - rewrite memb_set_remove. replace (Nat.eqb j (S d')) with false by (symmetry; apply Nat.eqb_neq; lia).
        reflexivity. }
    assert (M' : memb (S d') U' = hr).
    { unfold U'. destruct hr.
      - rewrite memb_set_add, Nat.eqb_refl. reflexivity.
      - rewrite memb_set_remove, Nat.eqb_refl. reflexivity. }
    destruct (kids_spec ks IH (S d') U') as (U2 & A2 & E2).
    exists U2. split; [|split].
    - intros j Hj. rewrite (A' j Hj). apply A2. lia.
    - rewrite <- (A2 (S d') ltac:(lia)). exact M'.
    - intros rest.
      change (pre_info (S d') hr (T g n a ks)) with ((S d', hr, n) :: pre_kids (S d') ks).
      cbn [app]. unfold st at 1. cbn [yield_go]. fold st. fold U'. cbn [map line_of tname].
      fold (pfxS U' d'). rewrite <- (pfxS_frame d' U U' A').
      f_equal. rewrite E2. f_equal.
      rewrite pfxS_S, M', <- (pfxS_frame d' U U' A'). reflexivity.
  Qed.

  Theorem yield_is_ref t :
    map line_of (yield_go st gap [] (pre_info 0 false t)) = tname t :: ref_below st [] t.
  Proof.
    destruct t as [g n a ks].
    change (pre_info 0 false (T g n a ks)) with ((0%nat, false, n) :: pre_kids 0 ks).
    cbn [yield_go map line_of app tname]. f_equal.
    assert (HF : Forall sub_spec ks) by (apply Forall_forall; intros k _; apply sub_spec_all).
    destruct (kids_spec ks HF 0%nat []) as (U2 & _ & E).
    specialize (E []). rewrite app_nil_r in E. rewrite E. cbn [yield_go map]. rewrite app_nil_r.
    reflexivity.
  Qed.
End Render.

Theorem print_is_ref stem branch final t :
  length stem = length branch -> length branch = length final ->
  print_str (stem, branch, final) t = Ret (ref_print (stem, branch, final) t).
Proof.
  intros H1 H2. unfold print_str, yield_tree.
  replace (Nat.eqb (length stem) (length branch)) with true by (symmetry; apply Nat.eqb_eq; exact H1).
  replace (Nat.eqb (length branch) (length final)) with true by (symmetry; apply Nat.eqb_eq; exact H2).
  cbn [andb]. apply f_equal. unfold ref_print.
  pose proof (yield_is_ref stem branch final t) as Y. cbv zeta in Y.
  apply eq_trans with
    (concat (map (fun l : list N => l ++ [10])
                 (map line_of (yield_go (stem, branch, final) (repeat 32 (length stem)) [] (pre_info 0 false t))))).
  - rewrite map_map. apply f_equal. apply map_ext. intros [[p f] n]. cbn [line_of].
    rewrite <- !app_assoc. reflexivity.
  - apply f_equal. apply f_equal. exact Y.
Qed.
