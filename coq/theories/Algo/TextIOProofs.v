(* Proofs about the models of Algo/TextIO.v (textual half of C06). *)
From BT Require Import Base.Prelude Base.Str Base.Rose Algo.TextIO Spec.PC06Text.
