(* Proofs about the models of Algo/Relation.v against the specifications of Spec/PC13.v (property C13). *)
From BT Require Import Base.Prelude Base.Str Base.Rose Algo.Relation Spec.PC13.
From Coq Require Import Permutation.

Definition out_of {A} (m : res A) : out A :=
  match m with Ret a => Acc a | Raise e => Rej (exn_code e) end.

(* ============================================================================================== *)
(* heap lists *)

Lemma parent_idx_cases k : 1 <= k -> k = 2 * parent_idx k + 1 \/ k = 2 * parent_idx k + 2.
Proof.
  intros Hk. unfold parent_idx.
  pose proof (Nat.div_mod (k + 1) 2 ltac:(lia)) as Hd.
  pose proof (Nat.mod_upper_bound (k + 1) 2 ltac:(lia)) as Hm.
  lia.
Qed.

Lemma parent_idx_spec k : 1 <= k -> parent_idx k = (k - 1) / 2.
Proof.
  intros Hk. destruct (parent_idx_cases k Hk) as [H|H].
  - apply Nat.div_unique with (r := 0); lia.
  - apply Nat.div_unique with (r := 1); lia.
Qed.

(* the arithmetic fact on N: int((i+1)/2) - 1 = (i-1)//2 for i >= 1 *)
Lemma parent_idx_N (i : N) : (1 <= i)%N -> ((i + 1) / 2 - 1 = (i - 1) / 2)%N.
Proof.
  intros Hi.
  pose proof (N.div_mod' (i + 1) 2) as Hd.
  pose proof (N.mod_upper_bound (i + 1) 2 ltac:(lia)) as Hm.
  remember ((i + 1) / 2)%N as q. remember ((i + 1) mod 2)%N as m.
  destruct (N.eq_dec m 0) as [E|E].
  - apply N.div_unique with (r := 0%N); lia.
  - apply N.div_unique with (r := 1%N); lia.
Qed.

Definition slot_spec (k p : nat) : slots :=
  (if Nat.ltb (2 * p + 1) k then Some (2 * p + 1) else None,
   if Nat.ltb (2 * p + 2) k then Some (2 * p + 2) else None).

Definition table_spec (k : nat) : list slots := map (slot_spec k) (seq 0 k).

Lemma set_nth_map_seq {A} (f : nat -> A) (v : A) :
  forall k s p, p < k ->
  set_nth p v (map f (seq s k)) = map (fun q => if Nat.eqb q (s + p) then v else f q) (seq s k).
Proof.
  induction k as [|k IH]; intros s p Hp; [lia|].
  cbn [seq map]. destruct p as [|p].
  - cbn [set_nth]. rewrite Nat.add_0_r, Nat.eqb_refl. f_equal.
    apply map_ext_in. intros q Hq. apply in_seq in Hq.
    destruct (Nat.eqb q s) eqn:E; [apply Nat.eqb_eq in E; lia|reflexivity].
  - cbn [set_nth]. destruct (Nat.eqb s (s + S p)) eqn:E; [apply Nat.eqb_eq in E; lia|].
    f_equal. rewrite IH by lia. apply map_ext. intros q. replace (S s + p) with (s + S p) by lia. reflexivity.
Qed.

Lemma nth_error_map_seq {A} (f : nat -> A) k p : p < k -> nth_error (map f (seq 0 k)) p = Some (f p).
Proof.
  intros Hp. rewrite nth_error_map, nth_error_nth' with (d := 0) by (rewrite seq_length; exact Hp).
  rewrite seq_nth by exact Hp. reflexivity.
Qed.

Lemma heap_attach_step k : 1 <= k -> heap_attach (table_spec k) k = Ret (table_spec (S k)).
Proof.
  intros Hk. unfold heap_attach.
  pose proof (parent_idx_cases k Hk) as Hc. set (p := parent_idx k) in *.
  assert (Hp : p < k) by lia.
  unfold table_spec at 1. rewrite nth_error_map_seq by exact Hp.
  assert (Hlast : table_spec (S k) = map (slot_spec (S k)) (seq 0 k) ++ [(None, None)]).
  { unfold table_spec. rewrite seq_S, map_app. cbn [map Nat.add]. f_equal. unfold slot_spec.
    destruct (Nat.ltb (2 * k + 1) (S k)) eqn:E1; [apply Nat.ltb_lt in E1; lia|].
    destruct (Nat.ltb (2 * k + 2) (S k)) eqn:E2; [apply Nat.ltb_lt in E2; lia|]. reflexivity. }
  rewrite Hlast. unfold slot_spec at 1.
  destruct Hc as [Hc|Hc].
  - (* odd: left slot *)
    destruct (Nat.ltb (2 * p + 1) k) eqn:E1; [apply Nat.ltb_lt in E1; lia|].
    f_equal. f_equal. unfold table_spec. rewrite set_nth_map_seq by exact Hp.
    apply map_ext_in. intros q Hq. cbn [Nat.add]. unfold slot_spec.
    destruct (Nat.eqb q p) eqn:E.
    + apply Nat.eqb_eq in E. subst q.
      destruct (Nat.ltb (2 * p + 1) (S k)) eqn:F1; [|apply Nat.ltb_ge in F1; lia].
      destruct (Nat.ltb (2 * p + 2) (S k)) eqn:F2; [apply Nat.ltb_lt in F2; lia|].
      destruct (Nat.ltb (2 * p + 2) k) eqn:F3; [apply Nat.ltb_lt in F3; lia|].
      f_equal. f_equal. lia.
    + apply Nat.eqb_neq in E.
      destruct (Nat.ltb (2 * q + 1) k) eqn:F1, (Nat.ltb (2 * q + 1) (S k)) eqn:F2,
               (Nat.ltb (2 * q + 2) k) eqn:F3, (Nat.ltb (2 * q + 2) (S k)) eqn:F4;
        try reflexivity; exfalso;
        repeat match goal with
               | H : Nat.ltb _ _ = true |- _ => apply Nat.ltb_lt in H
               | H : Nat.ltb _ _ = false |- _ => apply Nat.ltb_ge in H
               end; lia.
  - (* even: right slot *)
    destruct (Nat.ltb (2 * p + 1) k) eqn:E1; [|apply Nat.ltb_ge in E1; lia].
    destruct (Nat.ltb (2 * p + 2) k) eqn:E2; [apply Nat.ltb_lt in E2; lia|].
    f_equal. f_equal. unfold table_spec. rewrite set_nth_map_seq by exact Hp.
    apply map_ext_in. intros q Hq. cbn [Nat.add]. unfold slot_spec.
    destruct (Nat.eqb q p) eqn:E.
    + apply Nat.eqb_eq in E. subst q.
      destruct (Nat.ltb (2 * p + 1) (S k)) eqn:F1; [|apply Nat.ltb_ge in F1; lia].
      destruct (Nat.ltb (2 * p + 2) (S k)) eqn:F2; [|apply Nat.ltb_ge in F2; lia].
      f_equal. f_equal. lia.
    + apply Nat.eqb_neq in E.
      destruct (Nat.ltb (2 * q + 1) k) eqn:F1, (Nat.ltb (2 * q + 1) (S k)) eqn:F2,
               (Nat.ltb (2 * q + 2) k) eqn:F3, (Nat.ltb (2 * q + 2) (S k)) eqn:F4;
        try reflexivity; exfalso;
        repeat match goal with
               | H : Nat.ltb _ _ = true |- _ => apply Nat.ltb_lt in H
               | H : Nat.ltb _ _ = false |- _ => apply Nat.ltb_ge in H
               end; lia.
Qed.

Lemma heap_loop_spec m : forall k, 1 <= k -> heap_loop m k (table_spec k) = Ret (table_spec (k + m)).
Proof.
  induction m as [|m IH]; intros k Hk; cbn [heap_loop].
  - rewrite Nat.add_0_r. reflexivity.
  - rewrite heap_attach_step by exact Hk. rewrite IH by lia. f_equal. f_equal. lia.
Qed.

Lemma heap_table_spec l : l <> [] -> heap_table l = Ret (table_spec (length l)).
Proof.
  destruct l as [|x t]; [congruence|]. intros _. unfold heap_table.
  change [(None, None)] with (table_spec 1). rewrite heap_loop_spec by lia. reflexivity.
Qed.

Lemma nth_table_spec n i : i < n -> nth i (table_spec n) (None, None) = slot_spec n i.
Proof.
  intros Hi. unfold table_spec.
  rewrite nth_indep with (d' := slot_spec n 0) by (rewrite map_length, seq_length; exact Hi).
  rewrite map_nth. rewrite seq_nth by exact Hi. reflexivity.
Qed.

(* reading the table back never runs out of fuel, and gives the heap-shaped tree *)
Lemma heap_tree_fuel (l : list Z) : forall fuel i,
  i < length l -> length l - i <= fuel ->
  exists b, hbt_of fuel l (table_spec (length l)) i = Some b /\ is_heap_of l i b = true.
Proof.
  induction fuel as [|f IH]; intros i Hi Hf; [lia|].
  cbn [hbt_of]. rewrite nth_table_spec by exact Hi. unfold slot_spec. cbn [fst snd].
  assert (Hv : nth_error l i = Some (nth i l 0%Z)) by (apply nth_error_nth'; exact Hi).
  destruct (Nat.ltb (2 * i + 1) (length l)) eqn:E1; destruct (Nat.ltb (2 * i + 2) (length l)) eqn:E2.
  - pose proof E1 as E1'. pose proof E2 as E2'. apply Nat.ltb_lt in E1', E2'.
    destruct (IH (2 * i + 1)) as [lb [Hl1 Hl2]]; [lia|lia|].
    destruct (IH (2 * i + 2)) as [rb [Hr1 Hr2]]; [lia|lia|].
    rewrite Hl1, Hr1. eexists; split; [reflexivity|].
    cbn [is_heap_of]. rewrite Hv, Z.eqb_refl, E1, E2, Hl2, Hr2. reflexivity.
  - pose proof E1 as E1'. apply Nat.ltb_lt in E1'. pose proof E2 as E2'. apply Nat.ltb_ge in E2'.
    destruct (IH (2 * i + 1)) as [lb [Hl1 Hl2]]; [lia|lia|].
    rewrite Hl1. eexists; split; [reflexivity|].
    cbn [is_heap_of]. rewrite Hv, Z.eqb_refl, E1, Hl2.
    apply Nat.leb_le in E2'. rewrite E2'. reflexivity.
  - apply Nat.ltb_ge in E1. apply Nat.ltb_lt in E2. lia.
  - eexists; split; [reflexivity|]. cbn [is_heap_of]. rewrite Hv, Z.eqb_refl.
    apply Nat.ltb_ge in E1, E2. apply Nat.leb_le in E1, E2. rewrite E1, E2. reflexivity.
Qed.

Theorem heap_correct l : l <> [] ->
  exists b, list_to_binarytree l = Ret b /\ is_heap_of l 0 b = true.
Proof.
  intros Hl. unfold list_to_binarytree. rewrite heap_table_spec by exact Hl.
  assert (Hn : 0 < length l) by (destruct l; [congruence|cbn; lia]).
  destruct (heap_tree_fuel l (length l) 0 Hn ltac:(lia)) as [b [H1 H2]].
  rewrite H1. exists b. split; [reflexivity|exact H2].
Qed.

Theorem heap_prop l : prop_heap l (out_of (list_to_binarytree l)) = true.
Proof.
  destruct l as [|x t]; [reflexivity|].
  destruct (heap_correct (x :: t) ltac:(discriminate)) as [b [H1 H2]].
  rewrite H1. exact H2.
Qed.

(* "element i is the child of element (i-1)/2, left iff i is odd": stated on the node table the loop builds *)
Theorem heap_parent l : l <> [] ->
  exists tbl, heap_table l = Ret tbl /\ length tbl = length l /\
    forall i, 1 <= i < length l ->
      parent_idx i = (i - 1) / 2 /\
      (Nat.odd i = true -> fst (nth ((i - 1) / 2) tbl (None, None)) = Some i) /\
      (Nat.even i = true -> snd (nth ((i - 1) / 2) tbl (None, None)) = Some i).
Proof.
  intros Hl. exists (table_spec (length l)). split; [apply heap_table_spec; exact Hl|].
  split; [unfold table_spec; rewrite map_length, seq_length; reflexivity|].
  intros i [Hi1 Hi2]. split; [apply parent_idx_spec; exact Hi1|].
  rewrite <- parent_idx_spec by exact Hi1.
  pose proof (parent_idx_cases i Hi1) as Hc. set (p := parent_idx i) in *.
  rewrite nth_table_spec by lia. unfold slot_spec. cbn [fst snd].
  split; intros Hpar.
  - destruct Hc as [Hc|Hc].
    + destruct (Nat.ltb (2 * p + 1) (length l)) eqn:E; [f_equal; lia|apply Nat.ltb_ge in E; lia].
    + exfalso. rewrite Hc in Hpar. replace (2 * p + 2) with (2 * (p + 1)) in Hpar by lia.
      rewrite Nat.odd_mul in Hpar. cbn in Hpar. discriminate.
  - destruct Hc as [Hc|Hc].
    + exfalso. rewrite Hc in Hpar. replace (2 * p + 1) with (S (2 * p)) in Hpar by lia.
      rewrite Nat.even_succ, Nat.odd_mul in Hpar. cbn in Hpar. discriminate.
    + destruct (Nat.ltb (2 * p + 2) (length l)) eqn:E; [f_equal; lia|apply Nat.ltb_ge in E; lia].
Qed.

(* and nothing else is linked: a filled slot of node p holds 2p+1 (left) / 2p+2 (right) *)
Theorem heap_slots_only l tbl : heap_table l = Ret tbl ->
  forall p j, p < length l ->
    (fst (nth p tbl (None, None)) = Some j -> j = 2 * p + 1 /\ j < length l) /\
    (snd (nth p tbl (None, None)) = Some j -> j = 2 * p + 2 /\ j < length l).
Proof.
  intros H p j Hp. assert (Hl : l <> []) by (intros ->; cbn in Hp; lia).
  rewrite heap_table_spec in H by exact Hl. inversion H; subst tbl.
  rewrite nth_table_spec by exact Hp. unfold slot_spec. cbn [fst snd].
  split; intros Hs.
  - destruct (Nat.ltb (2 * p + 1) (length l)) eqn:E; [|discriminate].
    apply Nat.ltb_lt in E. inversion Hs; subst. split; [reflexivity|exact E].
  - destruct (Nat.ltb (2 * p + 2) (length l)) eqn:E; [|discriminate].
    apply Nat.ltb_lt in E. inversion Hs; subst. split; [reflexivity|exact E].
Qed.

(* ============================================================================================== *)
(* small facts about the boolean list predicates *)

Lemma str_eqb_sym a b : str_eqb a b = str_eqb b a.
Proof.
  destruct (str_eqb a b) eqn:E.
  - apply str_eqb_eq in E. subst. symmetry. apply str_eqb_refl.
  - symmetry. apply str_eqb_neq. apply str_eqb_neq in E. congruence.
Qed.

Lemma mem_str_In x l : mem_str x l = true <-> In x l.
Proof.
  unfold mem_str. rewrite existsb_exists. split.
  - intros [y [Hy E]]. apply str_eqb_eq in E. subst. exact Hy.
  - intros H. exists x. split; [exact H|apply str_eqb_refl].
Qed.

Lemma mem_str_nIn x l : mem_str x l = false <-> ~ In x l.
Proof.
  split.
  - intros H Hin. apply mem_str_In in Hin. congruence.
  - intros H. destruct (mem_str x l) eqn:E; [apply mem_str_In in E; contradiction|reflexivity].
Qed.

Lemma distinct_names_NoDup l : distinct_names l = true <-> NoDup l.
Proof.
  induction l as [|x t IH]; cbn [distinct_names].
  - split; [constructor|reflexivity].
  - rewrite andb_true_iff, negb_true_iff, IH. fold (mem_str x t). rewrite mem_str_nIn.
    split; [intros [H1 H2]; constructor; assumption|intros H; inversion H; subst; split; assumption].
Qed.

(* ============================================================================================== *)
(* nested dictionaries *)

Section NdInd.
  Variable P : nd -> Prop.
  Hypothesis H : forall e k ks, Forall P ks -> P (ND e k ks).
  Fixpoint nd_ind' (d : nd) : P d :=
    match d with
    | ND e k ks =>
        H e k ks ((fix go (l : list nd) : Forall P l :=
                     match l with
                     | [] => Forall_nil P
                     | x :: r => Forall_cons x (nd_ind' x) (go r)
                     end) ks)
    end.
End NdInd.

(* a Python dict has no repeated key *)
Fixpoint nd_keys_ok (d : nd) : bool :=
  match d with
  | ND e _ ks => distinct_names (map fst e) && forallb nd_keys_ok ks
  end.

Fixpoint build_list (nk : str) (l : list nd) (acc : list tree) : res (list tree) :=
  match l with
  | [] => Ret (rev acc)
  | c :: r => match nd_build nk (map tname acc) c with
              | Raise e => Raise e
              | Ret t => build_list nk r (t :: acc)
              end
  end.

Fixpoint mirror_list (nk : str) (l : list nd) : option (list tree) :=
  match l with
  | [] => Some []
  | k :: r => match mirror nk k, mirror_list nk r with
              | Some t, Some ts => Some (t :: ts)
              | _, _ => None
              end
  end.

Lemma nd_build_unfold nk sibs e kind ks :
  nd_build nk sibs (ND e kind ks) =
  match pop_key nk e with
  | None => Raise KeyError
  | Some (VStr nm, rest) =>
      match kind with
      | CBad => Raise TypeError
      | _ =>
        if mem_str nm sibs then Raise TreeError else
        match nm with
        | [] => Raise TreeError
        | _ => match (match kind with CList => build_list nk ks [] | _ => Ret [] end) with
               | Raise e => Raise e
               | Ret ts => Ret (T None nm rest ts)
               end
        end
      end
  | Some (_, _) => Raise Unmodelled
  end.
Proof.
  cbn [nd_build].
  assert (E : forall l acc,
    (fix go (l : list nd) (acc : list tree) : res (list tree) :=
       match l with
       | [] => Ret (rev acc)
       | c :: r => match nd_build nk (map tname acc) c with
                   | Raise e => Raise e
                   | Ret t => go r (t :: acc)
                   end
       end) l acc = build_list nk l acc).
  { induction l as [|c r IH]; intros acc; cbn [build_list]; [reflexivity|].
    destruct (nd_build nk (map tname acc) c); [apply IH|reflexivity]. }
  rewrite E. reflexivity.
Qed.

Lemma mirror_unfold nk e kind ks :
  mirror nk (ND e kind ks) =
  match lookup_key nk e, kind with
  | Some (VStr (c :: nm)), CMissing =>
      Some (T None (c :: nm) (filter (fun kv => negb (str_eqb (fst kv) nk)) e) [])
  | Some (VStr (c :: nm)), CList =>
      match mirror_list nk ks with
      | Some ts => if distinct_names (map tname ts)
                   then Some (T None (c :: nm) (filter (fun kv => negb (str_eqb (fst kv) nk)) e) ts)
                   else None
      | None => None
      end
  | _, _ => None
  end.
Proof.
  cbn [mirror].
  assert (E : forall l,
    (fix go (l : list nd) : option (list tree) :=
       match l with
       | [] => Some []
       | k :: r => match mirror nk k, go r with
                   | Some t, Some ts => Some (t :: ts)
                   | _, _ => None
                   end
       end) l = mirror_list nk l).
  { induction l as [|k r IH]; cbn [mirror_list]; [reflexivity|]. rewrite IH. reflexivity. }
  rewrite E. reflexivity.
Qed.

Lemma filter_other_keys k (l : list (str * val)) :
  ~ In k (map fst l) -> filter (fun kv => negb (str_eqb (fst kv) k)) l = l.
Proof.
  induction l as [|[k' v] t IH]; intros H; cbn [filter fst]; [reflexivity|].
  cbn [map fst] in H. destruct (str_eqb k' k) eqn:E.
  - apply str_eqb_eq in E. subst. exfalso. apply H. left. reflexivity.
  - cbn [negb]. f_equal. apply IH. intros Hin. apply H. right. exact Hin.
Qed.

Lemma pop_key_lookup k : forall l v,
  lookup_key k l = Some v -> NoDup (map fst l) ->
  pop_key k l = Some (v, filter (fun kv => negb (str_eqb (fst kv) k)) l).
Proof.
  induction l as [|[k' v'] t IH]; intros v Hl Hnd; cbn [lookup_key] in Hl; [discriminate|].
  cbn [pop_key filter fst]. cbn [map fst] in Hnd. inversion Hnd as [|? ? Hnin Hnd']; subst.
  rewrite (str_eqb_sym k' k). destruct (str_eqb k k') eqn:E.
  - inversion Hl; subst. cbn [negb]. apply str_eqb_eq in E. subst k'.
    rewrite filter_other_keys by exact Hnin. reflexivity.
  - rewrite (IH v Hl Hnd'). cbn [negb]. reflexivity.
Qed.

Lemma mirror_name nk d t : mirror nk d = Some t -> tname t <> [].
Proof.
  destruct d as [e kind ks]. rewrite mirror_unfold.
  destruct (lookup_key nk e) as [[| |[|c nm]| |]|]; try discriminate;
    destruct kind; try discriminate.
  - intros H; inversion H; subst. cbn. discriminate.
  - destruct (mirror_list nk ks); [|discriminate].
    destruct (distinct_names (map tname l)); [|discriminate].
    intros H; inversion H; subst. cbn. discriminate.
Qed.

Lemma nd_build_mirror nk : forall d,
  nd_keys_ok d = true ->
  forall t sibs, mirror nk d = Some t -> mem_str (tname t) sibs = false -> nd_build nk sibs d = Ret t.
Proof.
  induction d as [e kind ks IH] using nd_ind'. intros Hk t sibs Hm Hs.
  cbn [nd_keys_ok] in Hk. apply andb_true_iff in Hk as [Hk1 Hk2].
  apply distinct_names_NoDup in Hk1.
  rewrite mirror_unfold in Hm. rewrite nd_build_unfold.
  destruct (lookup_key nk e) as [v|] eqn:El; [|discriminate].
  rewrite (pop_key_lookup nk e v El Hk1).
  destruct v as [| |[|c nm]| |]; try discriminate.
  destruct kind; try discriminate.
  - inversion Hm; subst t. cbn [tname] in Hs. rewrite Hs. reflexivity.
  - destruct (mirror_list nk ks) as [ts|] eqn:Eml; [|discriminate].
    destruct (distinct_names (map tname ts)) eqn:Ed; [|discriminate].
    inversion Hm; subst t. cbn [tname] in Hs. rewrite Hs.
    assert (Hgo : forall l, Forall (fun d => nd_keys_ok d = true ->
                      forall t sibs, mirror nk d = Some t -> mem_str (tname t) sibs = false ->
                      nd_build nk sibs d = Ret t) l ->
                    forallb nd_keys_ok l = true ->
                    forall ts acc, mirror_list nk l = Some ts ->
                    NoDup (map tname (rev acc ++ ts)) ->
                    build_list nk l acc = Ret (rev acc ++ ts)).
    { clear. induction l as [|k r IHl]; intros HP Hok ts acc Hml Hnd; cbn [mirror_list] in Hml.
      - inversion Hml; subst. rewrite app_nil_r. reflexivity.
      - destruct (mirror nk k) as [t|] eqn:Emk; [|discriminate].
        destruct (mirror_list nk r) as [ts'|] eqn:Emr; [|discriminate].
        inversion Hml; subst ts. inversion HP as [|? ? HPk HPr]; subst.
        cbn [forallb] in Hok. apply andb_true_iff in Hok as [Hok1 Hok2].
        cbn [build_list]. rewrite (HPk Hok1 t (map tname acc) Emk).
        + rewrite (IHl HPr Hok2 ts' (t :: acc) eq_refl).
          * cbn [rev]. rewrite <- app_assoc. reflexivity.
          * cbn [rev]. rewrite <- app_assoc. exact Hnd.
        + apply mem_str_nIn. intros Hin. rewrite map_app in Hnd. cbn [map] in Hnd.
          apply NoDup_remove_2 in Hnd. apply Hnd. apply in_or_app. left.
          rewrite map_rev. apply in_rev. rewrite rev_involutive. exact Hin. }
    rewrite (Hgo ks IH Hk2 ts [] Eml).
    + reflexivity.
    + cbn [rev app]. apply distinct_names_NoDup. exact Ed.
Qed.

Theorem nested_mirror nk d t :
  nd_keys_ok d = true -> mirror nk d = Some t -> nested_dict_to_tree nk d = Ret t.
Proof.
  intros Hk Hm. unfold nested_dict_to_tree.
  assert (Hb : nd_build nk [] d = Ret t) by (apply nd_build_mirror; [exact Hk|exact Hm|reflexivity]).
  destruct d as [[|kv e] kind ks]; [|exact Hb].
  rewrite mirror_unfold in Hm. cbn [lookup_key] in Hm. discriminate.
Qed.

(* reflexivity of the comparison used by the property predicates *)
Lemma val_eqb_refl v : val_eqb v v = true.
Proof.
  destruct v; cbn [val_eqb]; try reflexivity.
  - apply Z.eqb_refl.
  - apply str_eqb_refl.
  - destruct b; reflexivity.
  - apply Z.eqb_refl.
Qed.

Lemma attrs_equ_refl a : attrs_equ a a = true.
Proof.
  unfold attrs_equ. rewrite Nat.eqb_refl. cbn [andb].
  assert (H : forallb (fun kv => attr_in kv a) a = true).
  { apply forallb_forall. intros kv Hin. unfold attr_in. apply existsb_exists. exists kv.
    split; [exact Hin|]. rewrite str_eqb_refl, val_eqb_refl. reflexivity. }
  rewrite H. reflexivity.
Qed.

Lemma tree_equ_refl t : tree_equ t t = true.
Proof.
  induction t as [g n a ks IH] using tree_ind'. cbn [tree_equ].
  rewrite str_eqb_refl, attrs_equ_refl. cbn [andb].
  induction ks as [|k r IHr]; [reflexivity|].
  inversion IH as [|? ? Hk Hr]; subst. rewrite Hk. cbn [andb]. apply IHr. exact Hr.
Qed.

Theorem nested_prop nk d :
  nd_keys_ok d = true -> prop_nested nk d (out_of (nested_dict_to_tree nk d)) = true.
Proof.
  intros Hk. unfold prop_nested. destruct (mirror nk d) as [t|] eqn:Em; [|reflexivity].
  rewrite (nested_mirror nk d t Hk Em). cbn [out_of]. apply tree_equ_refl.
Qed.

(* ============================================================================================== *)
(* relations: generic facts *)

Lemma ostr_eqb_eq a b : ostr_eqb a b = true <-> a = b.
Proof.
  destruct a as [a|], b as [b|]; cbn; split; intros H; try reflexivity; try discriminate.
  - apply str_eqb_eq in H. subst. reflexivity.
  - inversion H; subst. apply str_eqb_refl.
Qed.

Lemma pair_eqb_eq a b : pair_eqb a b = true <-> a = b.
Proof.
  destruct a as [a1 a2], b as [b1 b2]. unfold pair_eqb. cbn [fst snd]. rewrite andb_true_iff, str_eqb_eq, ostr_eqb_eq.
  split; [intros [-> ->]; reflexivity|intros H; inversion H; subst; split; reflexivity].
Qed.

Lemma existsb_pair_In x l : existsb (pair_eqb x) l = true <-> In x l.
Proof.
  rewrite existsb_exists. split.
  - intros [y [Hy E]]. apply pair_eqb_eq in E. subst. exact Hy.
  - intros H. exists x. split; [exact H|apply pair_eqb_eq; reflexivity].
Qed.

Lemma dedupe_pairs_In x l : In x (dedupe_pairs l) <-> In x l.
Proof.
  induction l as [|y t IH]; cbn [dedupe_pairs]; [tauto|].
  destruct (existsb (pair_eqb y) t) eqn:E.
  - rewrite IH. split; [intros H; right; exact H|].
    intros [->|H]; [apply existsb_pair_In; exact E|exact H].
  - cbn [In]. rewrite IH. tauto.
Qed.

Lemma dedupe_pairs_NoDup l : NoDup (dedupe_pairs l).
Proof.
  induction l as [|y t IH]; cbn [dedupe_pairs]; [constructor|].
  destruct (existsb (pair_eqb y) t) eqn:E; [exact IH|].
  constructor; [|exact IH]. rewrite dedupe_pairs_In. intros H. apply existsb_pair_In in H. congruence.
Qed.

Lemma dedupe_str_In x l : In x (dedupe_str l) <-> In x l.
Proof.
  induction l as [|y t IH]; cbn [dedupe_str]; [tauto|].
  destruct (mem_str y t) eqn:E.
  - rewrite IH. split; [intros H; right; exact H|].
    intros [->|H]; [apply mem_str_In; exact E|exact H].
  - cbn [In]. rewrite IH. tauto.
Qed.

Lemma dedupe_str_NoDup l : NoDup (dedupe_str l).
Proof.
  induction l as [|y t IH]; cbn [dedupe_str]; [constructor|].
  destruct (mem_str y t) eqn:E; [exact IH|].
  constructor; [|exact IH]. rewrite dedupe_str_In. apply mem_str_nIn. exact E.
Qed.

Lemma dedupe_str_const x l : l <> [] -> (forall y, In y l -> y = x) -> dedupe_str l = [x].
Proof.
  induction l as [|y t IH]; intros Hne Hall; [congruence|].
  cbn [dedupe_str]. assert (y = x) by (apply Hall; left; reflexivity). subst y.
  destruct t as [|z t'].
  - reflexivity.
  - assert (Hm : mem_str x (z :: t') = true).
    { apply mem_str_In. left. apply Hall. right. left. reflexivity. }
    rewrite Hm. apply IH; [discriminate|]. intros w Hw. apply Hall. right. exact Hw.
Qed.

Lemma two_distinct_length {A} (x y : A) l : In x l -> In y l -> x <> y -> 2 <= length l.
Proof.
  intros Hx Hy Hne. destruct l as [|a [|b t]].
  - destruct Hx.
  - destruct Hx as [Hx|[]], Hy as [Hy|[]]. congruence.
  - cbn [length]. lia.
Qed.

Lemma filter_length_le {A} (f : A -> bool) l : length (filter f l) <= length l.
Proof. induction l as [|x t IH]; cbn; [lia|]. destruct (f x); cbn; lia. Qed.

Lemma filter_filter_length_le {A} (f g : A -> bool) l : length (filter f (filter g l)) <= length (filter f l).
Proof.
  induction l as [|x t IH]; cbn [filter]; [lia|].
  destruct (g x), (f x) eqn:Ef; cbn [filter length]; try rewrite Ef; cbn [length]; lia.
Qed.

Lemma dedupe_pairs_filter_le (f : str * option str -> bool) l :
  length (filter f (dedupe_pairs l)) <= length (filter f l).
Proof.
  induction l as [|x t IH]; cbn [dedupe_pairs filter]; [lia|].
  destruct (existsb (pair_eqb x) t); destruct (f x) eqn:Ef; cbn [filter length]; try rewrite Ef; cbn [length]; lia.
Qed.

Lemma same_parent_ostr r1 r2 : same_parent r1 r2 = ostr_eqb (rparent r1) (rparent r2).
Proof. unfold same_parent, ostr_eqb, opt_eqb. destruct (rparent r1), (rparent r2); reflexivity. Qed.

Lemma has_parent_ostr r p : has_parent r p = ostr_eqb (rparent r) (Some p).
Proof. unfold has_parent, ostr_eqb, opt_eqb. destruct (rparent r); reflexivity. Qed.

Lemma has_parent_eq r p : has_parent r p = true <-> rparent r = Some p.
Proof. rewrite has_parent_ostr. apply ostr_eqb_eq. Qed.

Lemma child_rows_spec rows p : child_rows rows p = filter (fun r => has_parent r p) rows.
Proof. unfold child_rows. apply filter_ext. intros r. symmetry. apply has_parent_ostr. Qed.

Lemma In_pairs_of r rows : In r rows -> In (rchild r, rparent r) (pairs_of rows).
Proof. intros H. unfold pairs_of. apply in_map_iff. exists r. split; [reflexivity|exact H]. Qed.

Lemma In_pairs_of_inv c p rows : In (c, p) (pairs_of rows) -> exists r, In r rows /\ rchild r = c /\ rparent r = p.
Proof.
  unfold pairs_of. intros H. apply in_map_iff in H as [r [E Hr]]. inversion E; subst.
  exists r. repeat split; assumption.
Qed.

(* ---------------------------------------------------------------------------------------------- *)
(* an ambiguous repeated non-leaf name is refused *)

Lemma ambiguous_dup_children rows : ambiguous rows = true -> dup_children rows = true.
Proof.
  unfold ambiguous. intros H. apply existsb_exists in H as [r1 [Hr1 H]].
  apply andb_true_iff in H as [Hpar H]. apply existsb_exists in H as [r2 [Hr2 H]].
  apply andb_true_iff in H as [Hc Hp]. apply str_eqb_eq in Hc.
  apply negb_true_iff in Hp. rewrite same_parent_ostr in Hp.
  unfold occurs_as_parent in Hpar. apply existsb_exists in Hpar as [r3 [Hr3 Hpar]].
  apply has_parent_eq in Hpar.
  set (c := rchild r1) in *.
  set (d := dedupe_pairs (pairs_of rows)).
  assert (H1 : In (c, rparent r1) d) by (apply dedupe_pairs_In; apply In_pairs_of; exact Hr1).
  assert (H2 : In (c, rparent r2) d) by (apply dedupe_pairs_In; rewrite Hc; apply In_pairs_of; exact Hr2).
  assert (H3 : In (rchild r3, Some c) d) by (apply dedupe_pairs_In; rewrite <- Hpar; apply In_pairs_of; exact Hr3).
  assert (Hkeep : forall p : option str, existsb (fun q => ostr_eqb (snd q) (Some (fst (c, p)))) d = true).
  { intros p. apply existsb_exists. exists (rchild r3, Some c). split; [exact H3|].
    cbn [fst snd]. apply ostr_eqb_eq. reflexivity. }
  assert (D1 : In (c, rparent r1) (data_check rows)).
  { unfold data_check. fold d. apply filter_In. split; [exact H1|apply Hkeep]. }
  assert (D2 : In (c, rparent r2) (data_check rows)).
  { unfold data_check. fold d. apply filter_In. split; [exact H2|apply Hkeep]. }
  unfold dup_children. apply existsb_exists. exists (c, rparent r1). split; [exact D1|].
  cbn [fst]. apply Nat.ltb_lt. unfold count_child.
  apply (two_distinct_length (c, rparent r1) (c, rparent r2)).
  - apply filter_In. split; [exact D1|apply str_eqb_refl].
  - apply filter_In. split; [exact D2|apply str_eqb_refl].
  - intros E. inversion E as [E']. rewrite E' in Hp. 
    assert (ostr_eqb (rparent r2) (rparent r2) = true) by (apply ostr_eqb_eq; reflexivity). congruence.
Qed.

Theorem ambiguous_refused rows : ambiguous rows = true -> rel_to_tree false rows = Raise ValueError.
Proof.
  intros H. pose proof (ambiguous_dup_children rows H) as Hd.
  unfold rel_to_tree. destruct rows as [|r t]; [reflexivity|]. rewrite Hd. reflexivity.
Qed.

(* ---------------------------------------------------------------------------------------------- *)
(* root inference: the model's candidate set is the specification's *)

Lemma existsb_map {A B} (f : A -> B) (p : B -> bool) l : existsb p (map f l) = existsb (fun x => p (f x)) l.
Proof. induction l as [|x t IH]; cbn; [reflexivity|]. rewrite IH. reflexivity. Qed.

Lemma existsb_ext' {A} (f g : A -> bool) l : (forall x, f x = g x) -> existsb f l = existsb g l.
Proof. intros H. induction l as [|x t IH]; cbn; [reflexivity|]. rewrite H, IH. reflexivity. Qed.

Lemma occurs_as_child_mem rows x : mem_str x (map rchild rows) = occurs_as_child rows x.
Proof.
  unfold mem_str, occurs_as_child. rewrite existsb_map. apply existsb_ext'. intros r. apply str_eqb_sym.
Qed.

Lemma occurs_as_child_In rows x : occurs_as_child rows x = true <-> In x (map rchild rows).
Proof. rewrite <- occurs_as_child_mem. apply mem_str_In. Qed.

Lemma In_parent_names rows x : In x (parent_names rows) <-> exists r, In r rows /\ rparent r = Some x.
Proof.
  unfold parent_names. rewrite in_flat_map. split.
  - intros [r [Hr H]]. exists r. split; [exact Hr|]. destruct (rparent r) as [p|]; [|destruct H].
    destruct H as [->|[]]. reflexivity.
  - intros [r [Hr H]]. exists r. split; [exact Hr|]. rewrite H. left. reflexivity.
Qed.

Lemma occurs_as_parent_In rows x : occurs_as_parent rows x = true <-> In x (parent_names rows).
Proof.
  rewrite In_parent_names. unfold occurs_as_parent. rewrite existsb_exists.
  split; intros [r [Hr H]]; exists r; (split; [exact Hr|]); apply has_parent_eq; exact H.
Qed.

Lemma In_null_children rows x : In x (null_children rows) <-> exists r, In r rows /\ rparent r = None /\ rchild r = x.
Proof.
  unfold null_children. rewrite in_map_iff. split.
  - intros [r [E H]]. apply filter_In in H as [Hr Hn]. exists r. repeat split; try assumption.
    destruct (rparent r); [discriminate|reflexivity].
  - intros [r [Hr [Hn E]]]. exists r. split; [exact E|]. apply filter_In. split; [exact Hr|]. rewrite Hn. reflexivity.
Qed.

Lemma root_names_candidate rows x : In x (root_names rows) <-> root_candidate rows x = true.
Proof.
  unfold root_names, root_candidate. rewrite dedupe_str_In, in_app_iff, orb_true_iff, filter_In.
  rewrite In_null_children, negb_true_iff, occurs_as_child_mem, andb_true_iff, negb_true_iff, occurs_as_parent_In.
  rewrite existsb_exists. split.
  - intros [[r [Hr [Hn E]]]|H]; [left|right; exact H].
    exists r. split; [exact Hr|]. unfold null_parent. rewrite Hn, E, str_eqb_refl. reflexivity.
  - intros [[r [Hr H]]|H]; [left|right; exact H].
    apply andb_true_iff in H as [E Hn]. apply str_eqb_eq in E. exists r. repeat split; try assumption.
    unfold null_parent in Hn. destruct (rparent r); [discriminate|reflexivity].
Qed.

Lemma candidate_in_all_names rows x : root_candidate rows x = true -> In x (all_names rows).
Proof.
  unfold root_candidate, all_names. rewrite orb_true_iff, in_flat_map. intros [H|H].
  - apply existsb_exists in H as [r [Hr H]]. apply andb_true_iff in H as [E _]. apply str_eqb_eq in E.
    exists r. split; [exact Hr|]. left. exact E.
  - apply andb_true_iff in H as [H _]. apply occurs_as_parent_In, In_parent_names in H as [r [Hr H]].
    exists r. split; [exact Hr|]. right. rewrite H. left. reflexivity.
Qed.

Lemma root_names_the_root rows x : root_names rows = [x] -> the_root rows = Some x.
Proof.
  intros H. unfold the_root.
  assert (Hall : forall y, In y (filter (root_candidate rows) (all_names rows)) -> y = x).
  { intros y Hy. apply filter_In in Hy as [_ Hy]. apply root_names_candidate in Hy. rewrite H in Hy.
    destruct Hy as [->|[]]. reflexivity. }
  assert (Hx : In x (filter (root_candidate rows) (all_names rows))).
  { assert (Hc : root_candidate rows x = true) by (apply root_names_candidate; rewrite H; left; reflexivity).
    apply filter_In. split; [apply candidate_in_all_names; exact Hc|exact Hc]. }
  destruct (filter (root_candidate rows) (all_names rows)) as [|y t]; [destruct Hx|].
  assert (y = x) by (apply Hall; left; reflexivity). subst y.
  assert (Hf : forallb (str_eqb x) t = true).
  { apply forallb_forall. intros z Hz. apply str_eqb_eq. symmetry. apply Hall. right. exact Hz. }
  rewrite Hf. reflexivity.
Qed.

Lemma the_root_root_names rows x : the_root rows = Some x -> root_names rows = [x].
Proof.
  unfold the_root. intros H.
  destruct (filter (root_candidate rows) (all_names rows)) as [|y t] eqn:EL; [discriminate|].
  destruct (forallb (str_eqb y) t) eqn:Ef; [|discriminate]. inversion H; subst y.
  assert (Hall : forall z, root_candidate rows z = true -> z = x).
  { intros z Hz. assert (Hin : In z (x :: t)).
    { rewrite <- EL. apply filter_In. split; [apply candidate_in_all_names; exact Hz|exact Hz]. }
    destruct Hin as [->|Hin]; [reflexivity|].
    rewrite forallb_forall in Ef. symmetry. apply str_eqb_eq. apply Ef. exact Hin. }
  assert (Hx : root_candidate rows x = true).
  { assert (Hin : In x (filter (root_candidate rows) (all_names rows))) by (rewrite EL; left; reflexivity).
    apply filter_In in Hin as [_ Hin]. exact Hin. }
  pose proof (dedupe_str_NoDup (null_children rows ++
     filter (fun p => negb (mem_str p (map rchild rows))) (parent_names rows))) as Hnd.
  fold (root_names rows) in Hnd.
  assert (Hin : forall z, In z (root_names rows) <-> z = x).
  { intros z. rewrite root_names_candidate. split; [apply Hall|intros ->; exact Hx]. }
  destruct (root_names rows) as [|a [|b l]].
  - exfalso. apply (Hin x). reflexivity.
  - f_equal. apply Hin. left. reflexivity.
  - exfalso. assert (a = x) by (apply Hin; left; reflexivity).
    assert (b = x) by (apply Hin; right; left; reflexivity). subst.
    inversion Hnd as [|? ? Hn _]; subst. apply Hn. left. reflexivity.
Qed.

Theorem root_errors ad rows : the_root rows = None -> rel_to_tree ad rows = Raise ValueError.
Proof.
  intros H. unfold rel_to_tree. destruct rows as [|r t]; [reflexivity|].
  destruct (negb ad && dup_children (r :: t)); [reflexivity|].
  destruct (root_names (r :: t)) as [|[|c x] [|y l]] eqn:E; try reflexivity;
    apply root_names_the_root in E; congruence.
Qed.

(* the model's set of candidates has exactly one element iff the specification's has *)
Theorem root_names_length rows : length (root_names rows) <> 1 -> forall ad, rel_to_tree ad rows = Raise ValueError.
Proof.
  intros H ad. apply root_errors. destruct (the_root rows) as [x|] eqn:E; [|reflexivity].
  apply the_root_root_names in E. rewrite E in H. cbn in H. congruence.
Qed.

(* ---------------------------------------------------------------------------------------------- *)
(* every accepted result satisfies the specification: root, edges, sibling order, attributes *)

Lemma pre_unfold t : pre t = t :: flat_map pre (tkids t).
Proof. destruct t; reflexivity. Qed.

Lemma forallb_flat_map {A B} (f : B -> bool) (g : A -> list B) l :
  forallb f (flat_map g l) = forallb (fun x => forallb f (g x)) l.
Proof. induction l as [|x t IH]; cbn; [reflexivity|]. rewrite forallb_app, IH. reflexivity. Qed.

Lemma forall2b_Forall2 {A B} (f : A -> B -> bool) x y :
  Forall2 (fun a b => f a b = true) x y -> forall2b f x y = true.
Proof. induction 1 as [|a b x y Hab _ IH]; cbn; [reflexivity|]. rewrite Hab, IH. reflexivity. Qed.

Lemma Forall2_impl' {A B} (P Q : A -> B -> Prop) x y :
  (forall a b, P a b -> Q a b) -> Forall2 P x y -> Forall2 Q x y.
Proof. intros H. induction 1; constructor; auto. Qed.

Lemma attach_ret rec : forall crs acc ks,
  attach rec crs acc = Ret ks ->
  exists new, ks = rev acc ++ new /\
    Forall2 (fun k r => tname k = rchild r /\ tattrs k = retrieve_attr r /\ ttag k = None
                        /\ rec (rchild r) = Ret (tkids k)) new crs.
Proof.
  induction crs as [|r rest IH]; intros acc ks H; cbn [attach] in H.
  - inversion H; subst. exists []. rewrite app_nil_r. split; [reflexivity|constructor].
  - destruct (rchild r) as [|c0 nm0] eqn:Ec; [discriminate|]. rewrite <- Ec in *.
    destruct (mem_str (rchild r) (map tname acc)); [discriminate|].
    destruct (rec (rchild r)) as [sub|] eqn:Er; [|discriminate].
    destruct (IH _ _ H) as [new [E F]]. cbn [rev] in E. rewrite <- app_assoc in E.
    exists (T None (rchild r) (retrieve_attr r) sub :: new). split; [exact E|].
    constructor; [|exact F]. cbn. repeat split; try reflexivity. exact Er.
Qed.

Definition all_ok (rows : list row) (k : tree) : Prop := forallb (node_ok rows) (pre k) = true.

Lemma add_children_sound rows : forall fuel p ks,
  add_children fuel rows p = Ret ks ->
  forall2b (fun k r => str_eqb (tname k) (rchild r) && attrs_equ (tattrs k) (nonnull_attrs r))
           ks (filter (fun r => has_parent r p) rows) = true
  /\ Forall (all_ok rows) ks.
Proof.
  induction fuel as [|f IH]; intros p ks H; cbn [add_children] in H; [discriminate|].
  apply attach_ret in H as [new [E F]]. cbn [rev app] in E. subst ks.
  rewrite child_rows_spec in F.
  remember (filter (fun r => has_parent r p) rows) as crs eqn:Ecrs. clear Ecrs p. split.
  - apply forall2b_Forall2. eapply Forall2_impl'; [|exact F].
    intros k r [Hn [Ha _]]. cbn beta. rewrite Hn, Ha, str_eqb_refl. apply attrs_equ_refl.
  - induction F as [|k r new crs [Hn [Ha [_ Hr]]] _ IHF]; constructor; [|exact IHF].
    unfold all_ok. rewrite pre_unfold. cbn [forallb].
    destruct (IH _ _ Hr) as [H1 H2]. unfold node_ok. rewrite Hn, H1. cbn [andb].
    rewrite forallb_flat_map. apply forallb_forall. intros c Hc.
    rewrite Forall_forall in H2. apply H2. exact Hc.
Qed.

Theorem accepted_sound ad rows t : rel_to_tree ad rows = Ret t -> prop_rel ad rows (Acc t) = true.
Proof.
  unfold rel_to_tree. destruct rows as [|r0 rs]; [discriminate|].
  remember (r0 :: rs) as rows eqn:Erows.
  destruct (negb ad && dup_children rows) eqn:Ed; [discriminate|].
  destruct (root_names rows) as [|[|c0 nm0] [|y l]] eqn:Er; try discriminate.
  remember (c0 :: nm0) as root eqn:Eroot.
  destruct (add_children (S (length rows)) rows root) as [ks|] eqn:Ea; [|discriminate].
  intros H. inversion H; subst t. clear H.
  assert (Hamb : (ad || negb (ambiguous rows)) = true).
  { destruct ad; [reflexivity|]. cbn [negb andb orb] in *.
    destruct (ambiguous rows) eqn:Eamb; [|reflexivity].
    apply ambiguous_dup_children in Eamb. congruence. }
  destruct (add_children_sound rows _ _ _ Ea) as [H1 H2].
  assert (Hpre : forallb (node_ok rows) (pre (T None root (root_attrs rows root) ks)) = true).
  { cbn [pre forallb]. unfold node_ok at 1. cbn [tkids tname]. rewrite H1. cbn [andb].
    rewrite forallb_flat_map. apply forallb_forall. intros c Hc. rewrite Forall_forall in H2. apply H2. exact Hc. }
  assert (Hra : root_attrs_ok rows (T None root (root_attrs rows root) ks) = true).
  { unfold root_attrs_ok, root_attrs. cbn [tname tattrs].
    destruct (filter (fun r => str_eqb (rchild r) root) rows) as [|r1 l1]; [reflexivity|].
    apply attrs_equ_refl. }
  subst rows. unfold prop_rel. rewrite (root_names_the_root _ root Er), Hamb, Hpre, Hra.
  cbn [tname]. rewrite str_eqb_refl. reflexivity.
Qed.

(* ============================================================================================== *)
(* ---------------------------------------------------------------------------------------------- *)
(* relations of a tree *)

Definition cnt (x : str) (l : list str) : nat := length (filter (str_eqb x) l).

Definition normal_node (n : tree) : bool :=
  match ttag n with None => true | Some _ => false end
  && forallb (fun kv => negb (is_null (snd kv))) (tattrs n).

(* node n of tree t: fresh object without null attributes (what a constructor can return), a non-empty name and
   children with distinct names (Node invariants), and - unless n is a leaf - no other node of t has n's name *)
Definition valid_node (t n : tree) : bool :=
  normal_node n && match tname n with [] => false | _ => true end && distinct_names (map tname (tkids n))
  && (is_leaf n || Nat.eqb (cnt (tname n) (map tname (pre t))) 1).

Definition valid_tree (t : tree) : bool := forallb (valid_node t) (pre t).

Definition row_of (p k : tree) : row := (tname k, Some (tname p), tattrs k).
Definition edge_rows (t : tree) : list row := flat_map (fun n => map (row_of n) (tkids n)) (pre t).
Definition root_row (t : tree) : row := (tname t, None, tattrs t).
Definition rows_of (with_root : bool) (t : tree) : list row :=
  (if with_root then [root_row t] else []) ++ edge_rows t.

(* the relation list can express the tree: the root's attributes need a root row *)
Definition presentable (with_root : bool) (t : tree) : Prop :=
  with_root = true \/ (tkids t <> [] /\ tattrs t = []).

(* ---- counting *)

Lemma filter_perm {A} (f : A -> bool) l l' : Permutation l l' -> Permutation (filter f l) (filter f l').
Proof.
  induction 1 as [|x l l' _ IH|x y l|l l' l'' _ IH1 _ IH2]; cbn [filter].
  - constructor.
  - destruct (f x); [constructor; exact IH|exact IH].
  - destruct (f x), (f y); try apply Permutation_refl. apply perm_swap.
  - eapply Permutation_trans; eassumption.
Qed.

Lemma cnt_perm x l l' : Permutation l l' -> cnt x l = cnt x l'.
Proof. intros H. unfold cnt. apply Permutation_length. apply filter_perm. exact H. Qed.

Lemma cnt_app x l l' : cnt x (l ++ l') = cnt x l + cnt x l'.
Proof. unfold cnt. rewrite filter_app, app_length. reflexivity. Qed.

Lemma cnt_cons x y l : cnt x (y :: l) = (if str_eqb x y then 1 else 0) + cnt x l.
Proof. unfold cnt. cbn [filter]. destruct (str_eqb x y); reflexivity. Qed.

Lemma cnt_In x l : In x l -> 1 <= cnt x l.
Proof.
  intros H. unfold cnt. assert (Hin : In x (filter (str_eqb x) l)) by (apply filter_In; split; [exact H|apply str_eqb_refl]).
  destruct (filter (str_eqb x) l); [destruct Hin|cbn; lia].
Qed.

Lemma cnt_0_nIn x l : cnt x l = 0 -> ~ In x l.
Proof. intros H Hin. apply cnt_In in Hin. lia. Qed.

(* ---- the nodes of a tree other than the root are exactly the children of its nodes *)

Lemma flat_map_cons_perm {A B} (f : A -> B) (g : A -> list B) l :
  Permutation (flat_map (fun k => f k :: g k) l) (map f l ++ flat_map g l).
Proof.
  induction l as [|a l IH]; cbn [flat_map map app]; [constructor|].
  constructor. eapply Permutation_trans; [apply Permutation_app_head; exact IH|].
  apply Permutation_app_swap_app.
Qed.

Lemma kids_perm t : Permutation (flat_map tkids (pre t)) (tl (pre t)).
Proof.
  induction t as [g n a ks IH] using tree_ind'. cbn [pre tl flat_map tkids].
  induction ks as [|k r IHr]; [constructor|].
  inversion IH as [|? ? Hk Hr]; subst. specialize (IHr Hr).
  cbn [flat_map]. rewrite flat_map_app.
  replace (pre k ++ flat_map pre r) with (k :: (tl (pre k) ++ flat_map pre r)) by (destruct k; reflexivity).
  cbn [app]. constructor.
  eapply Permutation_trans; [apply Permutation_app_head; apply Permutation_app; [exact Hk|apply Permutation_refl]|].
  eapply Permutation_trans; [apply Permutation_app_swap_app|].
  apply Permutation_app_head. exact IHr.
Qed.

Lemma map_flat_map' {A B C} (f : B -> C) (g : A -> list B) l :
  map f (flat_map g l) = flat_map (fun x => map f (g x)) l.
Proof. induction l as [|x t IH]; cbn; [reflexivity|]. rewrite map_app, IH. reflexivity. Qed.

Lemma edge_rows_children t : map rchild (edge_rows t) = map tname (flat_map tkids (pre t)).
Proof.
  unfold edge_rows. rewrite !map_flat_map'. apply flat_map_ext. intros n. rewrite map_map. reflexivity.
Qed.

Lemma rows_of_children_perm b t :
  exists extra, Permutation (extra ++ map rchild (rows_of b t)) (map tname (pre t)) .
Proof.
  unfold rows_of. rewrite map_app, edge_rows_children.
  pose proof (Permutation_map tname (kids_perm t)) as Hp.
  assert (E : map tname (pre t) = tname t :: map tname (tl (pre t))) by (destruct t; reflexivity).
  rewrite E. destruct b.
  - exists []. cbn [app map]. change (rchild (root_row t)) with (tname t). constructor. exact Hp.
  - exists [tname t]. cbn [app map]. constructor. exact Hp.
Qed.

Lemma cnt_children_le b t x : cnt x (map rchild (rows_of b t)) <= cnt x (map tname (pre t)).
Proof.
  destruct (rows_of_children_perm b t) as [extra Hp].
  rewrite <- (cnt_perm x _ _ Hp), cnt_app. lia.
Qed.

Lemma In_edge_rows r t :
  In r (edge_rows t) <-> exists n k, In n (pre t) /\ In k (tkids n) /\ r = row_of n k.
Proof.
  unfold edge_rows. rewrite in_flat_map. split.
  - intros [n [Hn H]]. apply in_map_iff in H as [k [E Hk]]. exists n, k. repeat split; auto.
  - intros [n [k [Hn [Hk E]]]]. exists n. split; [exact Hn|]. apply in_map_iff. exists k. split; auto.
Qed.

Lemma In_rows_of r b t :
  In r (rows_of b t) -> (b = true /\ r = root_row t) \/ exists n k, In n (pre t) /\ In k (tkids n) /\ r = row_of n k.
Proof.
  unfold rows_of. rewrite in_app_iff. intros [H|H].
  - left. destruct b; [|destruct H]. destruct H as [<-|[]]. split; reflexivity.
  - right. apply In_edge_rows. exact H.
Qed.

(* ---- consequences of validity *)

Lemma valid_node_of t n : valid_tree t = true -> In n (pre t) -> valid_node t n = true.
Proof. unfold valid_tree. rewrite forallb_forall. auto. Qed.

Lemma valid_nonleaf_cnt t n :
  valid_tree t = true -> In n (pre t) -> tkids n <> [] -> cnt (tname n) (map tname (pre t)) = 1.
Proof.
  intros Hv Hn Hk. pose proof (valid_node_of t n Hv Hn) as H. unfold valid_node in H.
  apply andb_true_iff in H as [_ H]. apply orb_true_iff in H as [H|H].
  - unfold is_leaf in H. destruct (tkids n); [congruence|discriminate].
  - apply Nat.eqb_eq. exact H.
Qed.

Lemma valid_normal t n : valid_tree t = true -> In n (pre t) ->
  ttag n = None /\ filter (fun kv => negb (is_null (snd kv))) (tattrs n) = tattrs n.
Proof.
  intros Hv Hn. pose proof (valid_node_of t n Hv Hn) as H. unfold valid_node, normal_node in H.
  apply andb_true_iff in H as [H _]. apply andb_true_iff in H as [H _]. apply andb_true_iff in H as [H _].
  apply andb_true_iff in H as [H1 H2].
  split; [destruct (ttag n); [discriminate|reflexivity]|].
  clear - H2. induction (tattrs n) as [|kv l IH]; [reflexivity|].
  cbn [forallb] in H2. apply andb_true_iff in H2 as [H H2]. cbn [filter]. rewrite H. f_equal. apply IH. exact H2.
Qed.

Lemma valid_sibs t n : valid_tree t = true -> In n (pre t) -> NoDup (map tname (tkids n)).
Proof.
  intros Hv Hn. pose proof (valid_node_of t n Hv Hn) as H. unfold valid_node in H.
  apply andb_true_iff in H as [H _]. apply andb_true_iff in H as [_ H]. apply distinct_names_NoDup. exact H.
Qed.

Lemma valid_name t n : valid_tree t = true -> In n (pre t) -> tname n <> [].
Proof.
  intros Hv Hn. pose proof (valid_node_of t n Hv Hn) as H. unfold valid_node in H.
  apply andb_true_iff in H as [H _]. apply andb_true_iff in H as [H _]. apply andb_true_iff in H as [_ H].
  destruct (tname n); [discriminate|discriminate].
Qed.

(* ---- the three checks before the recursion pass on the relations of a valid tree, in any row order *)

Lemma count_child_pairs c rows : count_child c (pairs_of rows) = cnt c (map rchild rows).
Proof.
  unfold count_child, cnt, pairs_of. induction rows as [|r t IH]; [reflexivity|].
  cbn [map filter fst]. rewrite (str_eqb_sym (rchild r) c). destruct (str_eqb c (rchild r)); cbn [length]; rewrite IH; reflexivity.
Qed.

Lemma parent_is_nonleaf b t rows r c :
  Permutation rows (rows_of b t) -> In r rows -> rparent r = Some c ->
  exists n, In n (pre t) /\ tname n = c /\ tkids n <> [].
Proof.
  intros Hp Hr Hc. apply (Permutation_in _ Hp) in Hr. apply In_rows_of in Hr as [[_ ->]|[n [k [Hn [Hk ->]]]]].
  - discriminate.
  - cbn in Hc. inversion Hc; subst. exists n. repeat split; [exact Hn|]. intros E. rewrite E in Hk. destruct Hk.
Qed.

Lemma tree_rows_no_dup b t rows :
  valid_tree t = true -> Permutation rows (rows_of b t) -> dup_children rows = false.
Proof.
  intros Hv Hp. unfold dup_children. destruct (existsb _ _) eqn:E; [exfalso|reflexivity].
  apply existsb_exists in E as [pr [Hpr Hc]]. apply Nat.ltb_lt in Hc.
  unfold data_check in Hpr. apply filter_In in Hpr as [Hd Hq].
  apply existsb_exists in Hq as [q [Hq Hs]]. apply ostr_eqb_eq in Hs.
  apply -> dedupe_pairs_In in Hq. destruct q as [qc qp]. cbn [snd] in Hs. subst qp.
  apply In_pairs_of_inv in Hq as [r [Hr [_ Hrp]]].
  destruct (parent_is_nonleaf b t rows r (fst pr) Hp Hr Hrp) as [n [Hn [En Hk]]].
  pose proof (valid_nonleaf_cnt t n Hv Hn Hk) as Hcnt. rewrite En in Hcnt.
  assert (Hle : count_child (fst pr) (data_check rows) <= 1).
  { unfold data_check, count_child.
    eapply Nat.le_trans; [apply filter_filter_length_le|].
    eapply Nat.le_trans; [apply dedupe_pairs_filter_le|].
    fold (count_child (fst pr) (pairs_of rows)). rewrite count_child_pairs.
    rewrite (cnt_perm _ _ _ (Permutation_map rchild Hp)).
    rewrite <- Hcnt. apply cnt_children_le. }
  lia.
Qed.

Lemma root_not_child t :
  valid_tree t = true -> tkids t <> [] -> cnt (tname t) (map rchild (edge_rows t)) = 0.
Proof.
  intros Hv Hk. assert (Ht : In t (pre t)) by (rewrite pre_unfold; left; reflexivity).
  pose proof (valid_nonleaf_cnt t t Hv Ht Hk) as Hc.
  assert (E : map tname (pre t) = tname t :: map tname (tl (pre t))) by (destruct t; reflexivity).
  rewrite E, cnt_cons, str_eqb_refl in Hc.
  rewrite edge_rows_children, (cnt_perm _ _ _ (Permutation_map tname (kids_perm t))). lia.
Qed.

Lemma nonroot_is_child t n : In n (pre t) -> n = t \/ In (tname n) (map rchild (edge_rows t)).
Proof.
  intros Hn. rewrite pre_unfold in Hn. destruct Hn as [<-|Hn]; [left; reflexivity|right].
  rewrite edge_rows_children. apply in_map.
  apply (Permutation_in _ (Permutation_sym (kids_perm t))). rewrite pre_unfold. exact Hn.
Qed.

Lemma leaf_root_no_edges t : tkids t = [] -> edge_rows t = [].
Proof. intros H. unfold edge_rows. rewrite pre_unfold, H. cbn [flat_map]. rewrite H. reflexivity. Qed.

Lemma tree_root_names b t rows :
  valid_tree t = true -> Permutation rows (rows_of b t) -> presentable b t ->
  root_names rows = [tname t].
Proof.
  intros Hv Hp Hpres. unfold root_names. apply dedupe_str_const.
  - (* some candidate *)
    destruct b.
    + assert (Hin : In (tname t) (null_children rows)).
      { apply In_null_children. exists (root_row t). repeat split.
        apply (Permutation_in _ (Permutation_sym Hp)). left. reflexivity. }
      intros E. apply app_eq_nil in E as [E _]. rewrite E in Hin. destruct Hin.
    + destruct Hpres as [Hb|[Hk _]]; [discriminate|].
      destruct (tkids t) as [|k ks] eqn:Ek; [congruence|].
      assert (Hrow : In (row_of t k) rows).
      { apply (Permutation_in _ (Permutation_sym Hp)). cbn [rows_of app]. apply In_edge_rows.
        exists t, k. repeat split; [rewrite pre_unfold; left; reflexivity|rewrite Ek; left; reflexivity]. }
      assert (Hin : In (tname t) (filter (fun p => negb (mem_str p (map rchild rows))) (parent_names rows))).
      { apply filter_In. split.
        - apply In_parent_names. exists (row_of t k). split; [exact Hrow|reflexivity].
        - apply negb_true_iff, mem_str_nIn. apply cnt_0_nIn.
          rewrite (cnt_perm _ _ _ (Permutation_map rchild Hp)). cbn [rows_of app].
          apply root_not_child; [exact Hv|congruence]. }
      intros E. apply app_eq_nil in E as [_ E]. rewrite E in Hin. destruct Hin.
  - (* every candidate is the root's name *)
    intros y Hy. apply in_app_or in Hy as [Hy|Hy].
    + apply In_null_children in Hy as [r [Hr [Hn E]]].
      apply (Permutation_in _ Hp), In_rows_of in Hr as [[_ ->]|[n [k [_ [_ ->]]]]]; [symmetry; exact E|discriminate].
    + apply filter_In in Hy as [Hy Hnc]. apply negb_true_iff, mem_str_nIn in Hnc.
      apply In_parent_names in Hy as [r [Hr Hy]].
      apply (Permutation_in _ Hp), In_rows_of in Hr as [[_ ->]|[n [k [Hn [_ ->]]]]]; [discriminate|].
      cbn in Hy. inversion Hy; subst y.
      destruct (nonroot_is_child t n Hn) as [->|Hc]; [reflexivity|].
      exfalso. apply Hnc. apply (Permutation_in _ (Permutation_sym (Permutation_map rchild Hp))).
      unfold rows_of. rewrite map_app. apply in_or_app. right. exact Hc.
Qed.

Lemma filter_none {A} (f : A -> bool) l : (forall x, In x l -> f x = false) -> filter f l = [].
Proof.
  induction l as [|x t IH]; intros H; [reflexivity|]. cbn [filter].
  rewrite (H x (or_introl eq_refl)). apply IH. intros y Hy. apply H. right. exact Hy.
Qed.

Lemma tree_root_attrs b t rows :
  valid_tree t = true -> Permutation rows (rows_of b t) -> presentable b t ->
  root_attrs rows (tname t) = tattrs t.
Proof.
  intros Hv Hp Hpres. unfold root_attrs.
  pose proof (filter_perm (fun r => str_eqb (rchild r) (tname t)) _ _ Hp) as Hf.
  assert (He : filter (fun r => str_eqb (rchild r) (tname t)) (edge_rows t) = []).
  { destruct (tkids t) as [|k ks] eqn:Ek; [rewrite leaf_root_no_edges by exact Ek; reflexivity|].
    apply filter_none. intros r Hr. destruct (str_eqb (rchild r) (tname t)) eqn:E; [exfalso|reflexivity].
    apply str_eqb_eq in E. assert (Hk : tkids t <> []) by congruence.
    apply (cnt_0_nIn _ _ (root_not_child t Hv Hk)). rewrite <- E. apply in_map. exact Hr. }
  unfold rows_of in Hf. rewrite filter_app, He, app_nil_r in Hf.
  assert (Ht : In t (pre t)) by (rewrite pre_unfold; left; reflexivity).
  destruct b.
  - cbn [filter] in Hf. change (rchild (root_row t)) with (tname t) in Hf. rewrite str_eqb_refl in Hf.
    apply Permutation_sym, Permutation_length_1_inv in Hf. rewrite Hf.
    unfold retrieve_attr. change (rattrs (root_row t)) with (tattrs t).
    apply (valid_normal t t Hv Ht).
  - cbn [filter] in Hf. apply Permutation_sym, Permutation_nil in Hf. rewrite Hf.
    destruct Hpres as [Hb|[_ Ha]]; [discriminate|]. symmetry. exact Ha.
Qed.

(* ---- the recursion rebuilds a tree whose child lists are the rows' child lists *)

Definition kids_match (rows : list row) (n : tree) : Prop :=
  map (fun k => (tname k, tattrs k)) (tkids n)
  = map (fun r => (rchild r, retrieve_attr r)) (child_rows rows (tname n)).

Lemma tree_eta k : k = T (ttag k) (tname k) (tattrs k) (tkids k).
Proof. destruct k; reflexivity. Qed.

Lemma attach_ok rec : forall ks crs acc,
  map (fun k => (tname k, tattrs k)) ks = map (fun r => (rchild r, retrieve_attr r)) crs ->
  Forall (fun k => (ttag k = None /\ tname k <> []) /\ rec (tname k) = Ret (tkids k)) ks ->
  NoDup (map tname (rev acc ++ ks)) ->
  attach rec crs acc = Ret (rev acc ++ ks).
Proof.
  induction ks as [|k ks IH]; intros crs acc Hm Hf Hnd; destruct crs as [|r crs]; try discriminate.
  - cbn [attach]. rewrite app_nil_r. reflexivity.
  - cbn [map] in Hm. inversion Hm as [[Hn Ha Hrest]]. inversion Hf as [|? ? [[Hg Hne] Hr] Hf']; subst.
    cbn [attach]. destruct (rchild r) as [|c0 nm0] eqn:Ec; [congruence|]. rewrite <- Ec in *.
    assert (Hmem : mem_str (rchild r) (map tname acc) = false).
    { apply mem_str_nIn. intros Hin. rewrite map_app in Hnd. cbn [map] in Hnd.
      apply NoDup_remove_2 in Hnd. apply Hnd. apply in_or_app. left.
      rewrite map_rev. apply in_rev. rewrite rev_involutive. rewrite Hn. exact Hin. }
    rewrite Hmem. rewrite <- Hn, Hr.
    assert (Ek : T None (tname k) (retrieve_attr r) (tkids k) = k).
    { rewrite <- Ha, <- Hg. symmetry. apply tree_eta. }
    rewrite Ek. rewrite (IH crs (k :: acc) Hrest Hf').
    + cbn [rev]. rewrite <- app_assoc. reflexivity.
    + cbn [rev]. rewrite <- app_assoc. exact Hnd.
Qed.

Lemma height_kid k ks : In k ks -> height k <= fold_right (fun k a => Nat.max (height k) a) 0 ks.
Proof.
  induction ks as [|x r IH]; intros H; [destruct H|]. cbn [fold_right]. destruct H as [->|H]; [lia|].
  specialize (IH H). lia.
Qed.

Lemma pre_kid n k t : In k (tkids t) -> In n (pre k) -> In n (pre t).
Proof.
  intros Hk Hn. rewrite (pre_unfold t). right. apply in_flat_map. exists k. split; assumption.
Qed.

Lemma build_ok rows : forall t,
  (forall n, In n (pre t) -> kids_match rows n /\ NoDup (map tname (tkids n)) /\ ttag n = None /\ tname n <> []) ->
  forall fuel, height t <= fuel -> add_children fuel rows (tname t) = Ret (tkids t).
Proof.
  induction t as [g nm a ks IH] using tree_ind'. intros Hall fuel Hf.
  destruct fuel as [|f]; [cbn [height] in Hf; lia|].
  cbn [add_children tname tkids].
  assert (Ht : In (T g nm a ks) (pre (T g nm a ks))) by (rewrite pre_unfold; left; reflexivity).
  destruct (Hall _ Ht) as [Hm [Hnd _]]. unfold kids_match in Hm. cbn [tkids tname] in Hm, Hnd.
  change (Ret ks) with (Ret (A := list tree) (rev [] ++ ks)).
  apply attach_ok; [exact Hm| |exact Hnd].
  apply Forall_forall. intros k Hk. rewrite Forall_forall in IH.
  assert (Hallk : forall n, In n (pre k) -> kids_match rows n /\ NoDup (map tname (tkids n)) /\ ttag n = None /\ tname n <> []).
  { intros n Hn. apply Hall. apply (pre_kid n k (T g nm a ks)); [exact Hk|exact Hn]. }
  split.
  - apply (Hallk k). rewrite pre_unfold. left. reflexivity.
  - apply (IH k Hk Hallk). cbn [height] in Hf. pose proof (height_kid k ks Hk). lia.
Qed.

Lemma height_le_size t : height t <= tsize t.
Proof.
  induction t as [g n a ks IH] using tree_ind'. cbn [height tsize]. apply le_n_S.
  induction ks as [|k r IHr]; [cbn; lia|]. inversion IH as [|? ? Hk Hr]; subst. specialize (IHr Hr).
  cbn [fold_right]. lia.
Qed.

Lemma rows_of_length b t : tsize t <= S (length (rows_of b t)).
Proof.
  unfold rows_of. rewrite app_length.
  assert (E : length (edge_rows t) = length (tl (pre t))).
  { rewrite <- (map_length rchild), edge_rows_children, map_length. apply Permutation_length, kids_perm. }
  rewrite E, <- pre_length, (pre_unfold t). cbn [tl length]. lia.
Qed.

(* ---- the child rows of a node's name, in the canonical presentation *)

Lemma filter_flat_map' {A B} (p : B -> bool) (g : A -> list B) l :
  filter p (flat_map g l) = flat_map (fun x => filter p (g x)) l.
Proof. induction l as [|x t IH]; cbn; [reflexivity|]. rewrite filter_app, IH. reflexivity. Qed.

Lemma flat_map_nil {A B} (g : A -> list B) l : (forall x, In x l -> g x = []) -> flat_map g l = [].
Proof.
  induction l as [|x t IH]; intros H; [reflexivity|]. cbn [flat_map].
  rewrite (H x (or_introl eq_refl)). apply IH. intros y Hy. apply H. right. exact Hy.
Qed.

Lemma child_rows_row_of n x :
  child_rows (map (row_of n) (tkids n)) x = if str_eqb (tname n) x then map (row_of n) (tkids n) else [].
Proof.
  unfold child_rows. induction (tkids n) as [|k ks IH]; cbn [map filter]; [destruct (str_eqb (tname n) x); reflexivity|].
  change (rparent (row_of n k)) with (Some (tname n)). cbn [ostr_eqb opt_eqb].
  destruct (str_eqb (tname n) x) eqn:E; rewrite IH; reflexivity.
Qed.

Lemma child_rows_tree b t n :
  valid_tree t = true -> In n (pre t) ->
  child_rows (rows_of b t) (tname n) = map (row_of n) (tkids n).
Proof.
  intros Hv Hn.
  assert (E0 : child_rows (rows_of b t) (tname n) = child_rows (edge_rows t) (tname n)).
  { unfold rows_of, child_rows. rewrite filter_app. destruct b; reflexivity. }
  rewrite E0. unfold child_rows, edge_rows. rewrite filter_flat_map'.
  fold (child_rows).
  assert (E1 : flat_map (fun m => filter (fun r => ostr_eqb (rparent r) (Some (tname n))) (map (row_of m) (tkids m))) (pre t)
             = flat_map (fun m => if str_eqb (tname m) (tname n) then map (row_of m) (tkids m) else []) (pre t)).
  { apply flat_map_ext. intros m. apply (child_rows_row_of m (tname n)). }
  rewrite E1. clear E0 E1.
  destruct (in_split _ _ Hn) as [l1 [l2 El]].
  assert (Hother : forall m, In m (l1 ++ l2) ->
            (if str_eqb (tname m) (tname n) then map (row_of m) (tkids m) else []) = []).
  { intros m Hm. destruct (str_eqb (tname m) (tname n)) eqn:E; [|reflexivity].
    apply str_eqb_eq in E.
    assert (Hm' : In m (pre t)).
    { rewrite El. apply in_app_or in Hm. apply in_or_app. destruct Hm; [left|right; right]; assumption. }
    assert (H2 : 2 <= cnt (tname n) (map tname (pre t))).
    { assert (H1 : 1 <= cnt (tname n) (map tname l1) + cnt (tname n) (map tname l2)).
      { rewrite <- cnt_app, <- map_app. apply cnt_In. rewrite <- E. apply in_map. exact Hm. }
      rewrite El, map_app, cnt_app. cbn [map]. rewrite cnt_cons, str_eqb_refl. lia. }
    destruct (tkids m) as [|k ks] eqn:Ek; [reflexivity|exfalso].
    assert (Hk : tkids m <> []) by congruence.
    pose proof (valid_nonleaf_cnt t m Hv Hm' Hk) as Hc. rewrite E in Hc. lia. }
  rewrite El, flat_map_app. cbn [flat_map]. rewrite str_eqb_refl.
  rewrite (flat_map_nil _ l1), (flat_map_nil _ l2).
  - rewrite app_nil_r. reflexivity.
  - intros m Hm. apply Hother. apply in_or_app. right. exact Hm.
  - intros m Hm. apply Hother. apply in_or_app. left. exact Hm.
Qed.

Lemma pre_trans m : forall t n, In n (pre t) -> In m (pre n) -> In m (pre t).
Proof.
  induction t as [g nm a ks IH] using tree_ind'. intros n Hn Hm.
  rewrite pre_unfold in Hn. cbn [tkids] in Hn. destruct Hn as [<-|Hn]; [exact Hm|].
  apply in_flat_map in Hn as [k [Hk Hn]]. rewrite Forall_forall in IH.
  rewrite pre_unfold. right. cbn [tkids]. apply in_flat_map. exists k. split; [exact Hk|].
  apply (IH k Hk n Hn Hm).
Qed.

Lemma kid_in_pre t n k : In n (pre t) -> In k (tkids n) -> In k (pre t).
Proof.
  intros Hn Hk. apply (pre_trans k t n Hn). rewrite pre_unfold. right.
  apply in_flat_map. exists k. split; [exact Hk|rewrite pre_unfold; left; reflexivity].
Qed.

Lemma kids_match_tree b t n :
  valid_tree t = true -> In n (pre t) -> kids_match (rows_of b t) n.
Proof.
  intros Hv Hn. unfold kids_match. rewrite (child_rows_tree b t n Hv Hn), map_map.
  apply map_ext_in. intros k Hk. cbn [row_of rchild fst]. f_equal.
  unfold retrieve_attr. change (rattrs (row_of n k)) with (tattrs k).
  symmetry. apply (valid_normal t k Hv). apply (kid_in_pre t n k Hn Hk).
Qed.

(* ---- building from the relations of a tree *)

Lemma rows_of_nonempty b t : presentable b t -> rows_of b t <> [].
Proof.
  intros [->|[Hk _]]; [discriminate|]. unfold rows_of, edge_rows. rewrite pre_unfold. cbn [flat_map].
  destruct (tkids t) as [|k ks]; [congruence|]. destruct b; discriminate.
Qed.

Lemma rel_build b t rows t' :
  valid_tree t = true -> presentable b t -> Permutation rows (rows_of b t) ->
  tname t' = tname t -> tattrs t' = tattrs t -> ttag t' = None ->
  (forall n, In n (pre t') -> kids_match rows n /\ NoDup (map tname (tkids n)) /\ ttag n = None /\ tname n <> []) ->
  height t' <= S (length rows) ->
  rel_to_tree false rows = Ret t'.
Proof.
  intros Hv Hpres Hp Hn Ha Hg Hall Hh. unfold rel_to_tree.
  destruct rows as [|r0 rs].
  { exfalso. apply Permutation_nil in Hp. exact (rows_of_nonempty b t Hpres Hp). }
  remember (r0 :: rs) as rows eqn:Erows.
  rewrite (tree_rows_no_dup b t rows Hv Hp). cbn [negb andb].
  rewrite (tree_root_names b t rows Hv Hp Hpres).
  rewrite <- Hn. rewrite (build_ok rows t' Hall _ Hh).
  rewrite Hn, (tree_root_attrs b t rows Hv Hp Hpres), <- Hn, <- Ha, <- Hg.
  assert (Hne : tname t' <> []) by (apply (Hall t'); rewrite pre_unfold; left; reflexivity).
  destruct (tname t') as [|c0 nm0] eqn:Ec; [congruence|]. rewrite <- Ec. f_equal. symmetry. apply tree_eta.
Qed.

Theorem relation_of_tree b t :
  valid_tree t = true -> presentable b t -> rel_to_tree false (rows_of b t) = Ret t.
Proof.
  intros Hv Hpres.
  assert (Ht : In t (pre t)) by (rewrite pre_unfold; left; reflexivity).
  apply (rel_build b t (rows_of b t) t Hv Hpres (Permutation_refl _) eq_refl eq_refl).
  - apply (valid_normal t t Hv Ht).
  - intros n Hn. split; [apply kids_match_tree; assumption|].
    split; [apply (valid_sibs t n Hv Hn)|]. split; [apply (valid_normal t n Hv Hn)|apply (valid_name t n Hv Hn)].
  - pose proof (height_le_size t). pose proof (rows_of_length b t). lia.
Qed.

(* ---- any row order: the same tree up to the order of siblings, which is the order of the rows *)

Inductive sim : tree -> tree -> Prop :=
| sim_node g g' n a ks ks1 ks' :
    Permutation ks ks1 -> Forall2 sim ks1 ks' -> sim (T g n a ks) (T g' n a ks').

Lemma sim_name t t' : sim t t' -> tname t' = tname t /\ tattrs t' = tattrs t.
Proof. intros H. inversion H; subst. split; reflexivity. Qed.

Lemma Forall_exists_Forall2 {A B} (Q : A -> B -> Prop) l :
  Forall (fun a => exists b, Q a b) l -> exists l', Forall2 Q l l'.
Proof.
  induction 1 as [|a l [b Hb] _ [l' IH]]; [exists []; constructor|].
  exists (b :: l'). constructor; assumption.
Qed.

Lemma Forall2_In_r {A B} (Q : A -> B -> Prop) l l' b : Forall2 Q l l' -> In b l' -> exists a, In a l /\ Q a b.
Proof.
  induction 1 as [|x y l l' Hxy _ IH]; intros Hin; [destruct Hin|].
  destruct Hin as [<-|Hin]; [exists x; split; [left; reflexivity|exact Hxy]|].
  destruct (IH Hin) as [a [Ha Hq]]. exists a. split; [right; exact Ha|exact Hq].
Qed.

Lemma Forall2_map_eq {A B C} (f : A -> C) (g : B -> C) l l' :
  Forall2 (fun a b => f a = g b) l l' -> map f l = map g l'.
Proof. induction 1 as [|x y l l' Hxy _ IH]; [reflexivity|]. cbn [map]. rewrite Hxy, IH. reflexivity. Qed.

Lemma max_height_perm l l' : Permutation l l' ->
  fold_right (fun k a => Nat.max (height k) a) 0 l = fold_right (fun k a => Nat.max (height k) a) 0 l'.
Proof.
  induction 1 as [|x l l' _ IH|x y l|l l' l'' _ IH1 _ IH2]; cbn [fold_right]; try lia.
Qed.

Lemma max_height_Forall2 l l' : Forall2 (fun a b => height b = height a) l l' ->
  fold_right (fun k a => Nat.max (height k) a) 0 l' = fold_right (fun k a => Nat.max (height k) a) 0 l.
Proof. induction 1 as [|x y l l' Hxy _ IH]; [reflexivity|]. cbn [fold_right]. rewrite Hxy, IH. reflexivity. Qed.

Lemma reorder_exists rows : forall t,
  (forall n, In n (pre t) ->
     ttag n = None /\ NoDup (map tname (tkids n))
     /\ Permutation (child_rows rows (tname n)) (map (row_of n) (tkids n))
     /\ filter (fun kv => negb (is_null (snd kv))) (tattrs n) = tattrs n
     /\ tname n <> []) ->
  exists t', sim t t' /\ height t' = height t /\
     (forall n', In n' (pre t') -> kids_match rows n' /\ NoDup (map tname (tkids n')) /\ ttag n' = None /\ tname n' <> []).
Proof.
  induction t as [g nm a ks IH] using tree_ind'. intros Hall.
  set (t := T g nm a ks) in *.
  assert (Ht : In t (pre t)) by (rewrite pre_unfold; left; reflexivity).
  destruct (Hall t Ht) as [_ [Hnd [Hperm [_ Hne]]]]. cbn [tname tkids t] in Hnd, Hperm, Hne.
  destruct (Permutation_map_inv _ _ Hperm) as [ks2 [Ecr Hp2]].
  set (Q := fun k k' => sim k k' /\ height k' = height k /\
     (forall n', In n' (pre k') -> kids_match rows n' /\ NoDup (map tname (tkids n')) /\ ttag n' = None /\ tname n' <> [])).
  assert (HQ : Forall (fun k => exists k', Q k k') ks2).
  { apply Forall_forall. intros k Hk. apply (Permutation_in _ (Permutation_sym Hp2)) in Hk.
    rewrite Forall_forall in IH. apply (IH k Hk). intros n Hn. apply Hall.
    apply (pre_kid n k t); [exact Hk|exact Hn]. }
  apply Forall_exists_Forall2 in HQ as [ks' HQ].
  exists (T None nm a ks').
  assert (Hsim : Forall2 sim ks2 ks') by (eapply Forall2_impl'; [|exact HQ]; intros k k' [H _]; exact H).
  assert (Hnames : map (fun k => (tname k, tattrs k)) ks2 = map (fun k => (tname k, tattrs k)) ks').
  { apply Forall2_map_eq. eapply Forall2_impl'; [|exact Hsim]. intros k k' Hs. cbn beta.
    destruct (sim_name k k' Hs) as [-> ->]. reflexivity. }
  split; [|split].
  - unfold t. apply (sim_node g None nm a ks ks2 ks' Hp2 Hsim).
  - unfold t. cbn [height]. f_equal.
    rewrite (max_height_perm ks ks2 Hp2). apply max_height_Forall2.
    eapply Forall2_impl'; [|exact HQ]. intros k k' [_ [H _]]. exact H.
  - intros n' Hn'. rewrite pre_unfold in Hn'. cbn [tkids] in Hn'. destruct Hn' as [<-|Hn'].
    + cbn [tkids tname ttag]. split; [|split; [|split; [reflexivity|exact Hne]]].
      * unfold kids_match. cbn [tkids tname]. rewrite <- Hnames, Ecr, map_map.
        apply map_ext_in. intros k Hk. cbn [row_of rchild fst]. f_equal.
        unfold retrieve_attr. change (rattrs (row_of t k)) with (tattrs k). symmetry.
        apply (Permutation_in _ (Permutation_sym Hp2)) in Hk.
        apply (Hall k). apply (kid_in_pre t t k Ht). exact Hk.
      * assert (E : map tname ks' = map tname ks2).
        { symmetry. apply Forall2_map_eq. eapply Forall2_impl'; [|exact Hsim]. intros k k' Hs. cbn beta.
          destruct (sim_name k k' Hs) as [-> _]. reflexivity. }
        rewrite E. apply (Permutation_NoDup (Permutation_map tname Hp2)). exact Hnd.
    + apply in_flat_map in Hn' as [k' [Hk' Hn']].
      destruct (Forall2_In_r _ _ _ _ HQ Hk') as [k [_ [_ [_ Hq]]]]. apply Hq. exact Hn'.
Qed.

Theorem row_order b t rows :
  valid_tree t = true -> presentable b t -> Permutation rows (rows_of b t) ->
  exists t', rel_to_tree false rows = Ret t' /\ sim t t'.
Proof.
  intros Hv Hpres Hp.
  destruct (reorder_exists rows t) as [t' [Hsim [Hh Hall]]].
  { intros n Hn. destruct (valid_normal t n Hv Hn) as [Hg Ha].
    split; [exact Hg|]. split; [apply (valid_sibs t n Hv Hn)|]. split; [|split; [exact Ha|apply (valid_name t n Hv Hn)]].
    rewrite <- (child_rows_tree b t n Hv Hn). unfold child_rows. apply filter_perm. exact Hp. }
  exists t'. split; [|exact Hsim].
  destruct (sim_name t t' Hsim) as [Hn Ha].
  apply (rel_build b t rows t' Hv Hpres Hp Hn Ha).
  - apply (Hall t'). rewrite pre_unfold. left. reflexivity.
  - exact Hall.
  - rewrite Hh, (Permutation_length Hp). pose proof (height_le_size t). pose proof (rows_of_length b t). lia.
Qed.

(* ---- exactly the given pairs as edges, exactly the given names as nodes *)

Definition edge_pairs (rows : list row) : list (str * str) :=
  flat_map (fun r => match rparent r with Some p => [(p, rchild r)] | None => [] end) rows.

Lemma flat_map_flat_map {A B C} (f : B -> list C) (g : A -> list B) l :
  flat_map f (flat_map g l) = flat_map (fun x => flat_map f (g x)) l.
Proof. induction l as [|x t IH]; cbn; [reflexivity|]. rewrite flat_map_app, IH. reflexivity. Qed.

Lemma edges_unfold t : edges t = map (fun k => (tname t, tname k)) (tkids t) ++ flat_map edges (tkids t).
Proof.
  unfold edges at 1. rewrite pre_unfold. cbn [flat_map]. f_equal. rewrite flat_map_flat_map. reflexivity.
Qed.

Lemma Forall2_flat_map_perm {A B C} (f : A -> list C) (g : B -> list C) l l' :
  Forall2 (fun a b => Permutation (f a) (g b)) l l' -> Permutation (flat_map f l) (flat_map g l').
Proof.
  induction 1 as [|x y l l' Hxy _ IH]; [constructor|]. cbn [flat_map]. apply Permutation_app; assumption.
Qed.

Lemma Forall2_Forall_l {A B} (P : A -> Prop) (Q R : A -> B -> Prop) l l' :
  Forall P l -> (forall a b, P a -> Q a b -> R a b) -> Forall2 Q l l' -> Forall2 R l l'.
Proof.
  intros HP Himp H. induction H as [|x y l l' Hxy _ IH]; [constructor|].
  inversion HP; subst. constructor; auto.
Qed.

Lemma sim_edges : forall t t', sim t t' -> Permutation (edges t) (edges t').
Proof.
  induction t as [g nm a ks IH] using tree_ind'. intros t' Hs. inversion Hs as [? g' ? ? ? ks1 ks' Hp HF]; subst.
  rewrite !edges_unfold. cbn [tname tkids].
  assert (IH1 : Forall (fun k => forall k', sim k k' -> Permutation (edges k) (edges k')) ks1).
  { apply (Permutation_Forall Hp). exact IH. }
  apply Permutation_app.
  - eapply Permutation_trans; [apply Permutation_map; exact Hp|].
    assert (E : map (fun k => (nm, tname k)) ks1 = map (fun k => (nm, tname k)) ks').
    { apply Forall2_map_eq. eapply Forall2_impl'; [|exact HF]. intros k k' Hk. cbn beta.
      destruct (sim_name k k' Hk) as [-> _]. reflexivity. }
    rewrite E. apply Permutation_refl.
  - eapply Permutation_trans; [apply Permutation_flat_map; exact Hp|].
    apply Forall2_flat_map_perm. eapply Forall2_Forall_l; [exact IH1| |exact HF].
    intros k k' Hk Hsk. apply Hk. exact Hsk.
Qed.

Lemma sim_names : forall t t', sim t t' -> Permutation (map tname (pre t)) (map tname (pre t')).
Proof.
  induction t as [g nm a ks IH] using tree_ind'. intros t' Hs. inversion Hs as [? g' ? ? ? ks1 ks' Hp HF]; subst.
  cbn [pre map tname]. constructor. rewrite !map_flat_map'.
  assert (IH1 : Forall (fun k => forall k', sim k k' -> Permutation (map tname (pre k)) (map tname (pre k'))) ks1).
  { apply (Permutation_Forall Hp). exact IH. }
  eapply Permutation_trans; [apply Permutation_flat_map; exact Hp|].
  apply Forall2_flat_map_perm. eapply Forall2_Forall_l; [exact IH1| |exact HF].
  intros k k' Hk Hsk. apply Hk. exact Hsk.
Qed.

Lemma edge_pairs_rows_of b t : edge_pairs (rows_of b t) = edges t.
Proof.
  unfold edge_pairs, rows_of. rewrite flat_map_app.
  assert (E : flat_map (fun r => match rparent r with Some p => [(p, rchild r)] | None => [] end)
                (if b then [root_row t] else []) = []) by (destruct b; reflexivity).
  rewrite E. cbn [app]. unfold edge_rows, edges. rewrite flat_map_flat_map. apply flat_map_ext. intros n.
  induction (tkids n) as [|k ks IH]; [reflexivity|]. cbn [map flat_map]. rewrite IH. reflexivity.
Qed.

Theorem edges_exact b t rows t' :
  valid_tree t = true -> presentable b t -> Permutation rows (rows_of b t) ->
  rel_to_tree false rows = Ret t' ->
  Permutation (edges t') (edge_pairs rows) /\ Permutation (map tname (pre t')) (map tname (pre t)).
Proof.
  intros Hv Hpres Hp Hr. destruct (row_order b t rows Hv Hpres Hp) as [t'' [Hr' Hsim]].
  rewrite Hr in Hr'. inversion Hr'; subst t''. split.
  - eapply Permutation_trans; [apply Permutation_sym, sim_edges; exact Hsim|].
    rewrite <- (edge_pairs_rows_of b t). unfold edge_pairs. apply Permutation_flat_map. apply Permutation_sym. exact Hp.
  - apply Permutation_sym, sim_names. exact Hsim.
Qed.

(* ---- the recursion never runs out of fuel on the relations of a tree *)

Theorem no_fuel_exhaustion b t rows :
  valid_tree t = true -> presentable b t -> Permutation rows (rows_of b t) ->
  exists ks, forall fuel, height t <= fuel -> add_children fuel rows (tname t) = Ret ks.
Proof.
  intros Hv Hpres Hp.
  destruct (reorder_exists rows t) as [t' [Hsim [Hh Hall]]].
  { intros n Hn. destruct (valid_normal t n Hv Hn) as [Hg Ha].
    split; [exact Hg|]. split; [apply (valid_sibs t n Hv Hn)|]. split; [|split; [exact Ha|apply (valid_name t n Hv Hn)]].
    rewrite <- (child_rows_tree b t n Hv Hn). unfold child_rows. apply filter_perm. exact Hp. }
  exists (tkids t'). intros fuel Hf. destruct (sim_name t t' Hsim) as [Hn _]. rewrite <- Hn.
  apply build_ok; [exact Hall|lia].
Qed.

(* ---- summary statements used by Props/C13.v *)

Theorem row_order_full b t rows :
  valid_tree t = true -> presentable b t -> Permutation rows (rows_of b t) ->
  exists t', rel_to_tree false rows = Ret t' /\ sim t t' /\ forallb (node_ok rows) (pre t') = true.
Proof.
  intros Hv Hpres Hp. destruct (row_order b t rows Hv Hpres Hp) as [t' [Hr Hs]].
  exists t'. split; [exact Hr|]. split; [exact Hs|].
  pose proof (accepted_sound false rows t' Hr) as H. unfold prop_rel in H.
  destruct rows as [|r0 rs]; [discriminate|]. destruct (the_root (r0 :: rs)); [|discriminate].
  apply andb_true_iff in H as [H _]. apply andb_true_iff in H as [_ H]. exact H.
Qed.

Theorem prop_on_trees b t rows :
  valid_tree t = true -> presentable b t -> Permutation rows (rows_of b t) ->
  prop_rel false rows (out_of (rel_to_tree false rows)) = true.
Proof.
  intros Hv Hpres Hp. destruct (row_order b t rows Hv Hpres Hp) as [t' [Hr _]].
  rewrite Hr. cbn [out_of]. apply accepted_sound. exact Hr.
Qed.

(* whatever the input: an accepted result satisfies the specification *)
Theorem prop_on_accepted ad rows :
  (exists t, rel_to_tree ad rows = Ret t) -> prop_rel ad rows (out_of (rel_to_tree ad rows)) = true.
Proof. intros [t Hr]. rewrite Hr. cbn [out_of]. apply accepted_sound. exact Hr. Qed.

(* ---- nested dictionaries that do not have the documented form are refused *)

Lemma pop_key_none k : forall l, lookup_key k l = None -> pop_key k l = None.
Proof.
  induction l as [|[k' v] t IH]; intros H; [reflexivity|]. cbn [lookup_key] in H. cbn [pop_key].
  destruct (str_eqb k k'); [discriminate|]. rewrite (IH H). reflexivity.
Qed.

Lemma NoDup_app_single {A} (l : list A) x : NoDup l -> ~ In x l -> NoDup (l ++ [x]).
Proof.
  intros Hl Hx. apply (Permutation_NoDup (Permutation_cons_append l x)). constructor; assumption.
Qed.

Lemma nd_build_clash nk d t sibs :
  nd_keys_ok d = true -> mirror nk d = Some t -> mem_str (tname t) sibs = true ->
  nd_build nk sibs d = Raise TreeError.
Proof.
  destruct d as [e kind ks]. intros Hk Hm Hs. cbn [nd_keys_ok] in Hk. apply andb_true_iff in Hk as [Hk _].
  apply distinct_names_NoDup in Hk. rewrite mirror_unfold in Hm. rewrite nd_build_unfold.
  destruct (lookup_key nk e) as [v|] eqn:El; [|discriminate].
  rewrite (pop_key_lookup nk e v El Hk).
  destruct v as [| |[|c nm]| |]; try discriminate.
  destruct kind; try discriminate.
  - inversion Hm; subst t. cbn [tname] in Hs. rewrite Hs. reflexivity.
  - destruct (mirror_list nk ks); [|discriminate]. destruct (distinct_names (map tname l)); [|discriminate].
    inversion Hm; subst t. cbn [tname] in Hs. rewrite Hs. reflexivity.
Qed.

Theorem nested_refused nk : forall d,
  nd_keys_ok d = true -> mirror nk d = None -> forall sibs, exists e, nd_build nk sibs d = Raise e.
Proof.
  induction d as [e kind ks IH] using nd_ind'. intros Hk Hm sibs.
  cbn [nd_keys_ok] in Hk. apply andb_true_iff in Hk as [Hk1 Hk2]. apply distinct_names_NoDup in Hk1.
  rewrite mirror_unfold in Hm. rewrite nd_build_unfold.
  destruct (lookup_key nk e) as [v|] eqn:El.
  2:{ rewrite (pop_key_none nk e El). eexists; reflexivity. }
  rewrite (pop_key_lookup nk e v El Hk1).
  destruct v as [| |[|c nm]| |]; try (eexists; reflexivity).
  - destruct kind; try (eexists; reflexivity); destruct (mem_str [] sibs); eexists; reflexivity.
  - destruct kind; try discriminate; try (eexists; reflexivity).
    destruct (mem_str (c :: nm) sibs); [eexists; reflexivity|].
    assert (Hgo : forall l, Forall (fun d => nd_keys_ok d = true -> mirror nk d = None ->
                                 forall sibs, exists e, nd_build nk sibs d = Raise e) l ->
                  forallb nd_keys_ok l = true ->
                  forall acc, NoDup (map tname (rev acc)) ->
                  (mirror_list nk l = None \/
                   exists ts, mirror_list nk l = Some ts /\ ~ NoDup (map tname (rev acc) ++ map tname ts)) ->
                  exists e, build_list nk l acc = Raise e).
    { clear. induction l as [|k r IHl]; intros HP Hok acc Hnd Hbad.
      - exfalso. cbn [mirror_list] in Hbad. destruct Hbad as [Hbad|[ts [E Hbad]]]; [discriminate|].
        inversion E; subst ts. apply Hbad. cbn [map]. rewrite app_nil_r. exact Hnd.
      - inversion HP as [|? ? HPk HPr]; subst. cbn [forallb] in Hok. apply andb_true_iff in Hok as [Hok1 Hok2].
        cbn [build_list]. destruct (nd_build nk (map tname acc) k) as [t0|e0] eqn:Eb; [|eexists; reflexivity].
        destruct (mirror nk k) as [t|] eqn:Emk.
        2:{ destruct (HPk Hok1 eq_refl (map tname acc)) as [e1 He1]. congruence. }
        destruct (mem_str (tname t) (map tname acc)) eqn:Emem.
        { rewrite (nd_build_clash nk k t _ Hok1 Emk Emem) in Eb. discriminate. }
        rewrite (nd_build_mirror nk k Hok1 t _ Emk Emem) in Eb. inversion Eb; subst t0.
        apply (IHl HPr Hok2 (t :: acc)).
        + cbn [rev]. rewrite map_app. cbn [map]. apply NoDup_app_single. 
          * exact Hnd.
          * rewrite map_rev. intros Hin. apply in_rev in Hin. apply mem_str_nIn in Emem. contradiction.
        + cbn [mirror_list] in Hbad. rewrite Emk in Hbad.
          destruct (mirror_list nk r) as [ts'|]; [right|left; reflexivity].
          destruct Hbad as [Hbad|[ts [E Hbad]]]; [discriminate|]. inversion E; subst ts.
          exists ts'. split; [reflexivity|]. cbn [rev]. rewrite map_app, <- app_assoc. exact Hbad. }
    destruct (Hgo ks IH Hk2 []) as [e1 He1].
    + constructor.
    + destruct (mirror_list nk ks) as [ts|]; [right|left; reflexivity].
      exists ts. split; [reflexivity|]. cbn [rev map app].
      destruct (distinct_names (map tname ts)) eqn:Ed; [discriminate|].
      intros Hnd. apply distinct_names_NoDup in Hnd. congruence.
    + rewrite He1. eexists; reflexivity.
Qed.

Theorem nested_refused_top nk d :
  nd_keys_ok d = true -> mirror nk d = None -> exists e, nested_dict_to_tree nk d = Raise e.
Proof.
  intros Hk Hm. unfold nested_dict_to_tree.
  destruct (nested_refused nk d Hk Hm []) as [e He].
  destruct d as [[|kv en] [| |] ks]; try (exists e; exact He). eexists; reflexivity.
Qed.

(* ============================================================================================== *)
(* ---- every row list that passes the specification's test `presents_tree` is accepted *)

Lemma existsb_false_forall {A} (f : A -> bool) l : existsb f l = false -> forall x, In x l -> f x = false.
Proof.
  intros H x Hx. destruct (f x) eqn:E; [|reflexivity].
  assert (existsb f l = true) by (apply existsb_exists; exists x; split; assumption). congruence.
Qed.

Definition is_parent (rows : list row) (c : str) : Prop := exists r, In r rows /\ rparent r = Some c.

Lemma is_parent_occurs rows c : is_parent rows c -> occurs_as_parent rows c = true.
Proof.
  intros [r [Hr Hp]]. unfold occurs_as_parent. apply existsb_exists. exists r. split; [exact Hr|].
  apply has_parent_eq. exact Hp.
Qed.

(* F1: without an ambiguous name, all rows listing a parent name as child give it the same parent *)
Lemma unambiguous_parent rows c r1 r2 :
  ambiguous rows = false -> is_parent rows c -> In r1 rows -> In r2 rows ->
  rchild r1 = c -> rchild r2 = c -> rparent r1 = rparent r2.
Proof.
  intros Ha Hc H1 H2 E1 E2. unfold ambiguous in Ha.
  pose proof (existsb_false_forall _ _ Ha r1 H1) as H. cbn beta in H.
  rewrite E1, (is_parent_occurs rows c Hc) in H. cbn [andb] in H.
  pose proof (existsb_false_forall _ _ H r2 H2) as H'. cbn beta in H'.
  rewrite E2, str_eqb_refl in H'. cbn [andb] in H'. apply negb_false_iff in H'.
  rewrite same_parent_ostr in H'. apply ostr_eqb_eq. exact H'.
Qed.

Lemma NoDup_filter' {A} (f : A -> bool) l : NoDup l -> NoDup (filter f l).
Proof.
  induction 1 as [|x l Hx _ IH]; cbn [filter]; [constructor|].
  destruct (f x); [|exact IH]. constructor; [|exact IH]. intros Hin. apply filter_In in Hin as [Hin _]. contradiction.
Qed.

Lemma NoDup_app_l {A} (l l' : list A) : NoDup (l ++ l') -> NoDup l.
Proof.
  induction l as [|x l IH]; intros H; [constructor|]. cbn [app] in H. inversion H as [|? ? Hn Hd]; subst.
  constructor; [intros Hin; apply Hn; apply in_or_app; left; exact Hin|apply IH; exact Hd].
Qed.

Lemma unambiguous_no_dup rows : ambiguous rows = false -> dup_children rows = false.
Proof.
  intros Ha. unfold dup_children. destruct (existsb _ _) eqn:E; [exfalso|reflexivity].
  apply existsb_exists in E as [pr [Hpr Hc]]. apply Nat.ltb_lt in Hc.
  set (c := fst pr) in *.
  assert (Hpar : is_parent rows c).
  { unfold data_check in Hpr. apply filter_In in Hpr as [_ Hq]. apply existsb_exists in Hq as [q [Hq Hs]].
    apply ostr_eqb_eq in Hs. apply -> dedupe_pairs_In in Hq. destruct q as [qc qp]. cbn [snd] in Hs. subst qp.
    apply In_pairs_of_inv in Hq as [r [Hr [_ Hrp]]]. exists r. split; assumption. }
  unfold count_child in Hc.
  assert (Hnd : NoDup (filter (fun pr0 => str_eqb (fst pr0) c) (data_check rows))).
  { apply NoDup_filter'. unfold data_check. apply NoDup_filter'. apply dedupe_pairs_NoDup. }
  destruct (filter (fun pr0 => str_eqb (fst pr0) c) (data_check rows)) as [|x [|y l]] eqn:EL;
    [cbn in Hc; lia|cbn in Hc; lia|].
  assert (Hx : In x (x :: y :: l)) by (left; reflexivity).
  assert (Hy : In y (x :: y :: l)) by (right; left; reflexivity).
  rewrite <- EL in Hx, Hy. apply filter_In in Hx as [Hx Ex]. apply filter_In in Hy as [Hy Ey].
  apply str_eqb_eq in Ex, Ey.
  unfold data_check in Hx, Hy. apply filter_In in Hx as [Hx _]. apply filter_In in Hy as [Hy _].
  apply -> dedupe_pairs_In in Hx. apply -> dedupe_pairs_In in Hy.
  destruct x as [xc xp], y as [yc yp]. cbn [fst] in Ex, Ey. subst xc yc.
  apply In_pairs_of_inv in Hx as [r1 [H1 [E1 P1]]]. apply In_pairs_of_inv in Hy as [r2 [H2 [E2 P2]]].
  pose proof (unambiguous_parent rows c r1 r2 Ha Hpar H1 H2 E1 E2) as Hp.
  rewrite P1, P2 in Hp. subst yp. inversion Hnd as [|? ? Hn _]; subst. apply Hn. left. try rewrite Hp. reflexivity.
Qed.

Lemma climbs_parent rows root : forall k x,
  climbs k rows root x = true -> x <> root -> is_parent rows root.
Proof.
  induction k as [|k IH]; intros x H Hx; cbn [climbs] in H.
  - rewrite orb_false_r in H. apply str_eqb_eq in H. contradiction.
  - apply orb_true_iff in H as [H|H]; [apply str_eqb_eq in H; contradiction|].
    destruct (find (fun r => str_eqb (rchild r) x) rows) as [r|] eqn:Ef; [|discriminate].
    destruct (rparent r) as [p|] eqn:Ep; [|discriminate].
    apply find_some in Ef as [Hr _].
    destruct (str_eqb p root) eqn:E.
    + apply str_eqb_eq in E. subst p. exists r. split; assumption.
    + apply (IH p H). apply str_eqb_neq. exact E.
Qed.

Section Accept.
  Variable rows : list row.
  Variable root : str.
  Hypothesis Hroot : the_root rows = Some root.
  Hypothesis Hamb : ambiguous rows = false.
  Hypothesis Hnd : nodup_pairs rows = true.
  Hypothesis Hne : forall r, In r rows -> rchild r <> [].
  Hypothesis Hclimb : forall r p, In r rows -> rparent r = Some p -> climbs (length rows) rows root p = true.

  (* F2: the root is not listed as the child of anything *)
  Lemma root_not_listed r p : In r rows -> rparent r = Some p -> rchild r <> root.
  Proof.
    intros Hr Hp E.
    assert (Hc : root_candidate rows root = true).
    { apply root_names_candidate. rewrite (the_root_root_names rows root Hroot). left. reflexivity. }
    unfold root_candidate in Hc. apply orb_true_iff in Hc as [Hc|Hc].
    - apply existsb_exists in Hc as [r0 [Hr0 Hc]]. apply andb_true_iff in Hc as [E0 N0].
      apply str_eqb_eq in E0. unfold null_parent in N0. destruct (rparent r0) eqn:P0; [discriminate|].
      assert (Hnp : ~ is_parent rows root).
      { intros Hpar. pose proof (unambiguous_parent rows root r0 r Hamb Hpar Hr0 Hr E0 E) as H.
        rewrite P0, Hp in H. discriminate. }
      apply Hnp. destruct (str_eqb p root) eqn:Epr.
      + apply str_eqb_eq in Epr. subst p. exists r. split; assumption.
      + apply (climbs_parent rows root _ p (Hclimb r p Hr Hp)). apply str_eqb_neq. exact Epr.
    - apply andb_true_iff in Hc as [_ Hc]. apply negb_true_iff in Hc.
      assert (occurs_as_child rows root = true).
      { unfold occurs_as_child. apply existsb_exists. exists r. split; [exact Hr|]. rewrite E. apply str_eqb_refl. }
      congruence.
  Qed.

  (* the rows followed from the root down to the node being built, most recent first *)
  Inductive chain : list row -> str -> Prop :=
  | chain_nil : chain [] root
  | chain_cons r path p : chain path p -> In r rows -> rparent r = Some p -> chain (r :: path) (rchild r).

  Lemma chain_incl path p : chain path p -> incl path rows.
  Proof. induction 1 as [|r path p _ IH Hr _]; [intros x []|]. intros x [<-|Hx]; [exact Hr|apply IH; exact Hx]. Qed.

  Lemma chain_parents path p : chain path p ->
    map rparent path = map Some (tl (map rchild path ++ [root])) /\ p = hd root (map rchild path ++ [root]).
  Proof.
    induction 1 as [|r path p _ [IH1 IH2] _ Hp]; [split; reflexivity|].
    split; [|reflexivity]. cbn [map app tl]. rewrite Hp, IH1, IH2.
    destruct (map rchild path ++ [root]) as [|x l] eqn:E; [destruct (map rchild path); discriminate|reflexivity].
  Qed.

  Lemma chain_names_parents path p : chain path p -> is_parent rows p ->
    forall x, In x (map rchild path) -> is_parent rows x.
  Proof.
    induction 1 as [|r path p _ IH Hr Hp]; intros Hpar x Hx; [destruct Hx|].
    cbn [map] in Hx. destruct Hx as [<-|Hx]; [exact Hpar|].
    apply IH; [exists r; split; assumption|exact Hx].
  Qed.

  Lemma chain_extend path p r :
    chain path p -> NoDup (map rchild path ++ [root]) -> In r rows -> rparent r = Some p ->
    NoDup (map rchild (r :: path) ++ [root]).
  Proof.
    intros Hch Hnd' Hr Hp. cbn [map app]. constructor; [|exact Hnd'].
    intros Hin. apply in_app_or in Hin as [Hin|[Hin|[]]].
    - (* the child's name is already on the path: then it is a parent name with two different parents *)
      assert (Hpar : is_parent rows p) by (exists r; split; assumption).
      pose proof (chain_names_parents path p Hch Hpar _ Hin) as Hcpar.
      apply in_map_iff in Hin as [ri [Ei Hi]].
      pose proof (unambiguous_parent rows (rchild r) ri r Hamb Hcpar (chain_incl path p Hch ri Hi) Hr Ei eq_refl) as E.
      rewrite Hp in E.
      destruct (chain_parents path p Hch) as [Hps Hhd].
      assert (Hin2 : In (Some p) (map rparent path)) by (rewrite <- E; apply in_map; exact Hi).
      rewrite Hps in Hin2. apply in_map_iff in Hin2 as [q [Eq Hq]]. inversion Eq; subst q.
      destruct (map rchild path ++ [root]) as [|x l]; [destruct Hq|].
      cbn [hd] in Hhd. cbn [tl] in Hq. subst x. inversion Hnd' as [|? ? Hn _]; subst. contradiction.
    - symmetry in Hin. exact (root_not_listed r p Hr Hp Hin).
  Qed.

  Lemma child_rows_names_nodup p : NoDup (map rchild (child_rows rows p)).
  Proof.
    rewrite child_rows_spec. clear - Hnd. induction rows as [|r t IH]; [constructor|].
    cbn [nodup_pairs] in Hnd. apply andb_true_iff in Hnd as [H1 H2]. apply negb_true_iff in H1.
    cbn [filter]. destruct (has_parent r p) eqn:E; [|apply IH; exact H2].
    cbn [map]. constructor; [|apply IH; exact H2].
    intros Hin. apply in_map_iff in Hin as [r' [Ec Hr']]. apply filter_In in Hr' as [Hr' E'].
    pose proof (existsb_false_forall _ _ H1 r' Hr') as H. cbn beta in H.
    rewrite Ec, str_eqb_refl in H. cbn [andb] in H. rewrite same_parent_ostr in H.
    apply has_parent_eq in E, E'. rewrite E, E' in H.
    assert (ostr_eqb (Some p) (Some p) = true) by (apply ostr_eqb_eq; reflexivity). congruence.
  Qed.

  Lemma attach_succeeds rec : forall crs acc,
    (forall r, In r crs -> rchild r <> [] /\ exists ks, rec (rchild r) = Ret ks) ->
    NoDup (map tname (rev acc) ++ map rchild crs) ->
    exists ks, attach rec crs acc = Ret ks.
  Proof.
    induction crs as [|r rest IH]; intros acc Hall Hnd'; cbn [attach]; [eexists; reflexivity|].
    destruct (Hall r (or_introl eq_refl)) as [Hn [ks Hk]].
    destruct (rchild r) as [|c0 nm0] eqn:Ec; [congruence|]. rewrite <- Ec in *.
    assert (Hm : mem_str (rchild r) (map tname acc) = false).
    { apply mem_str_nIn. intros Hin. cbn [map] in Hnd'. apply NoDup_remove_2 in Hnd'. apply Hnd'.
      apply in_or_app. left. rewrite map_rev. apply in_rev. rewrite rev_involutive. exact Hin. }
    rewrite Hm, Hk. apply IH.
    - intros r' Hr'. apply Hall. right. exact Hr'.
    - cbn [rev tname]. rewrite map_app. cbn [map tname]. rewrite <- app_assoc. exact Hnd'.
  Qed.

  Lemma build_succeeds : forall f path p,
    chain path p -> NoDup (map rchild path ++ [root]) -> length path + f = S (length rows) ->
    exists ks, add_children f rows p = Ret ks.
  Proof.
    induction f as [|f IH]; intros path p Hch Hnd' Hlen.
    - exfalso.
      assert (Hnp : NoDup path).
      { apply NoDup_app_l in Hnd'. apply (NoDup_map_inv rchild). exact Hnd'. }
      pose proof (NoDup_incl_length Hnp (chain_incl path p Hch)). lia.
    - cbn [add_children]. apply attach_succeeds.
      + intros r Hr. unfold child_rows in Hr. apply filter_In in Hr as [Hr Hp]. apply ostr_eqb_eq in Hp.
        split; [apply Hne; exact Hr|].
        apply (IH (r :: path) (rchild r)).
        * apply (chain_cons r path p Hch Hr Hp).
        * apply (chain_extend path p r Hch Hnd' Hr Hp).
        * cbn [length]. lia.
      + cbn [rev map app]. apply child_rows_names_nodup.
  Qed.
End Accept.

Lemma rel_to_tree_nonempty ad rows : rows <> [] ->
  rel_to_tree ad rows =
  if negb ad && dup_children rows then Raise ValueError
  else match root_names rows with
       | [[]] => Raise TreeError
       | [root_name] =>
           match add_children (S (length rows)) rows root_name with
           | Raise e => Raise e
           | Ret ks => Ret (T None root_name (root_attrs rows root_name) ks)
           end
       | _ => Raise ValueError
       end.
Proof. destruct rows; [congruence|reflexivity]. Qed.

Lemma presents_tree_inv rows : presents_tree rows = true ->
  exists root, rows <> [] /\ the_root rows = Some root /\ ambiguous rows = false /\ nodup_pairs rows = true
    /\ root <> [] /\ (forall r, In r rows -> rchild r <> [])
    /\ (forall r p, In r rows -> rparent r = Some p -> climbs (length rows) rows root p = true).
Proof.
  unfold presents_tree. destruct rows as [|r0 rs]; [discriminate|].
  destruct (the_root (r0 :: rs)) as [root|]; [|discriminate].
  intros H. apply andb_true_iff in H as [H Hcl]. apply andb_true_iff in H as [H Hcn].
  apply andb_true_iff in H as [H Hrn]. apply andb_true_iff in H as [Ha Hnd]. apply negb_true_iff in Ha.
  rewrite forallb_forall in Hcl, Hcn.
  exists root. split; [discriminate|]. split; [reflexivity|]. split; [exact Ha|]. split; [exact Hnd|].
  split; [destruct root; [discriminate|discriminate]|]. split.
  - intros r Hr. specialize (Hcn r Hr). destruct (rchild r); [discriminate|discriminate].
  - intros r p Hr Hp. specialize (Hcl r Hr). rewrite Hp in Hcl. exact Hcl.
Qed.

Theorem presents_tree_accepted ad rows : presents_tree rows = true -> exists t, rel_to_tree ad rows = Ret t.
Proof.
  intros H. destruct (presents_tree_inv rows H) as [root [Hne [Eroot [Ha [Hnd [Hrn [Hcn Hcl]]]]]]].
  rewrite (rel_to_tree_nonempty ad rows Hne).
  rewrite (unambiguous_no_dup rows Ha), andb_false_r.
  rewrite (the_root_root_names rows root Eroot).
  destruct (build_succeeds rows root Eroot Ha Hnd Hcn Hcl (S (length rows)) [] root) as [ks Hks].
  - constructor.
  - cbn. constructor; [intros []|constructor].
  - reflexivity.
  - rewrite Hks. destruct root as [|c0 nm0]; [congruence|]. eexists. reflexivity.
Qed.

(* the predicate the check evaluates on the implementation's output holds of the model on EVERY input *)
Theorem prop_rel_model ad rows : prop_rel ad rows (out_of (rel_to_tree ad rows)) = true.
Proof.
  destruct (rel_to_tree ad rows) as [t|e] eqn:E; cbn [out_of].
  - apply accepted_sound. exact E.
  - cbn [prop_rel]. destruct (presents_tree rows) eqn:Ep; [|reflexivity].
    destruct (presents_tree_accepted ad rows Ep) as [t Ht]. congruence.
Qed.
