(* Model of the derived (read-only) node queries of BaseNode:
     bigtree/node/basenode.py:409-573  ancestors, descendants, leaves, siblings, left_sibling,
                                       right_sibling, node_path, is_root, is_leaf, root, diameter,
                                       depth, max_depth
     bigtree/node/basenode.py:659-711  go_to
     bigtree/node/binarynode.py:378-385 BinaryNode.is_leaf
   A node object is (the whole tree it lives in, its position): `node.parent` drops the last child
   index, `node.children` appends one.  Upward queries walk `parent` (recursion on explicit fuel, as
   the Python recursion / while loop does), downward queries traverse the subtree rooted at the node
   (utils/iterators.py:137-145 preorder_iter).  No proofs in this file. *)
From BT Require Import Base.Prelude Base.Rose.

Definition pos_eqb : pos -> pos -> bool := list_eqb Nat.eqb.

(* ---- the links ------------------------------------------------------------------------------ *)

(* node.parent  (None for the root) *)
Definition node_parent (p : pos) : option pos :=
  match p with [] => None | _ :: _ => Some (removelast p) end.

Definition node_arity (t : tree) (p : pos) : nat :=
  match subtree_at t p with Some s => length (tkids s) | None => 0 end.

(* node.children, in order *)
Definition node_children (t : tree) (p : pos) : list pos :=
  map (fun i => p ++ [i]) (seq 0 (node_arity t p)).

(* list.index(x) on node lists (length when absent) *)
Fixpoint index_pos (x : pos) (l : list pos) : nat :=
  match l with [] => 0 | y :: r => if pos_eqb x y then 0 else S (index_pos x r) end.

Definition mem_pos (x : pos) (l : list pos) : bool := existsb (pos_eqb x) l.

(* ---- upward queries --------------------------------------------------------------------------- *)

(* basenode.py:409-419   node = self.parent; while node is not None: yield node; node = node.parent *)
Fixpoint ancestors_f (fuel : nat) (p : pos) : list pos :=
  match fuel with
  | 0 => []
  | S f => match node_parent p with
           | None => []
           | Some q => q :: ancestors_f f q
           end
  end.
Definition node_ancestors (p : pos) : list pos := ancestors_f (S (length p)) p.

(* basenode.py:494-500   return self.parent is None *)
Definition node_is_root (p : pos) : bool :=
  match node_parent p with None => true | Some _ => false end.

(* basenode.py:512-521   if self.parent is None: return self; return self.parent.root *)
Fixpoint root_f (fuel : nat) (p : pos) : pos :=
  match fuel with
  | 0 => p
  | S f => match node_parent p with None => p | Some q => root_f f q end
  end.
Definition node_root (p : pos) : pos := root_f (S (length p)) p.

(* basenode.py:482-491   if self.parent is None: return [self]
                         return tuple(list(self.parent.node_path) + [self]) *)
Fixpoint node_path_f (fuel : nat) (p : pos) : list pos :=
  match fuel with
  | 0 => [p]
  | S f => match node_parent p with None => [p] | Some q => node_path_f f q ++ [p] end
  end.
Definition node_path (p : pos) : list pos := node_path_f (S (length p)) p.

(* basenode.py:554-563   if self.parent is None: return 1; return self.parent.depth + 1 *)
Fixpoint depth_f (fuel : nat) (p : pos) : nat :=
  match fuel with
  | 0 => 1
  | S f => match node_parent p with None => 1 | Some q => depth_f f q + 1 end
  end.
Definition node_depth (p : pos) : nat := depth_f (S (length p)) p.

(* basenode.py:443-452   if self.parent is None: return ()
                         return tuple(child for child in self.parent.children if child is not self) *)
Definition node_siblings (t : tree) (p : pos) : list pos :=
  match node_parent p with
  | None => []
  | Some q => filter (fun c => negb (pos_eqb c p)) (node_children t q)
  end.

(* basenode.py:454-465   if self.parent: children = self.parent.children
                           child_idx = children.index(self)
                           if child_idx: return self.parent.children[child_idx - 1]      (else None) *)
Definition node_left_sibling (t : tree) (p : pos) : option pos :=
  match node_parent p with
  | None => None
  | Some q =>
      let children := node_children t q in
      let child_idx := index_pos p children in
      if Nat.eqb child_idx 0 then None else nth_error children (child_idx - 1)
  end.

(* basenode.py:467-478   ... if child_idx + 1 < len(children): return self.parent.children[child_idx + 1] *)
Definition node_right_sibling (t : tree) (p : pos) : option pos :=
  match node_parent p with
  | None => None
  | Some q =>
      let children := node_children t q in
      let child_idx := index_pos p children in
      if Nat.ltb (child_idx + 1) (length children) then nth_error children (child_idx + 1) else None
  end.

(* ---- downward queries ------------------------------------------------------------------------- *)

(* basenode.py:503-509   return not len(list(self.children)) *)
Definition sub_is_leaf (s : tree) : bool := Nat.eqb (length (tkids s)) 0.
Definition node_is_leaf (t : tree) (p : pos) : bool := Nat.eqb (length (node_children t p)) 0.

(* iterators.py:137-145   preorder_iter without stop condition / max_depth:
     if not filter_condition or filter_condition(tree): yield tree
     for child in tree.children: yield from preorder_iter(child, ...)
   every visited node with the subtree it roots *)
Fixpoint preorder_at (p : pos) (s : tree) : list (pos * tree) :=
  match s with
  | T _ _ _ ks =>
      (p, s) :: (fix go (i : nat) (l : list tree) : list (pos * tree) :=
                   match l with
                   | [] => []
                   | k :: r => preorder_at (p ++ [i]) k ++ go (S i) r
                   end) 0 ks
  end.

Definition preorder_iter (t : tree) (p : pos) (filter_condition : pos * tree -> bool) : list pos :=
  match subtree_at t p with
  | Some s => map fst (filter filter_condition (preorder_at p s))
  | None => []
  end.

(* basenode.py:421-430   preorder_iter(self, filter_condition=lambda _node: _node != self) *)
Definition node_descendants (t : tree) (p : pos) : list pos :=
  preorder_iter t p (fun n => negb (pos_eqb (fst n) p)).

(* basenode.py:432-441   preorder_iter(self, filter_condition=lambda _node: _node.is_leaf) *)
Definition node_leaves (t : tree) (p : pos) : list pos :=
  preorder_iter t p (fun n => sub_is_leaf (snd n)).

(* basenode.py:565-573   max([self.root.depth] + [node.depth for node in list(self.root.descendants)])
   NB computed from the root of the whole tree, whatever node it is asked of *)
Definition node_max_depth (t : tree) (p : pos) : nat :=
  let r := node_root p in
  list_max (node_depth r :: map node_depth (node_descendants t r)).

(* heapq.nlargest(n, l) = sorted(l, reverse=True)[:n] *)
Fixpoint insert_desc (x : nat) (l : list nat) : list nat :=
  match l with
  | [] => [x]
  | y :: r => if Nat.leb y x then x :: l else y :: insert_desc x r
  end.
Definition sort_desc (l : list nat) : list nat := fold_right insert_desc [] l.
Definition nlargest (n : nat) (l : list nat) : list nat := firstn n (sort_desc l).

(* basenode.py:523-553   _recursive_diameter(node) with the `nonlocal diameter` accumulator threaded
   through: returns (the value returned, the accumulator afterwards)
       if node.is_leaf: return 1
       child_length = [_recursive_diameter(child) for child in node.children if child]
         (`if child` only drops the empty slots of a BinaryNode; a BaseNode's children are all nodes)
       diameter = max(diameter, sum(heapq.nlargest(2, child_length)))
       return 1 + max(child_length) *)
Fixpoint recursive_diameter (node : tree) (diameter : nat) : nat * nat :=
  match node with
  | T _ _ _ ks =>
      match ks with
      | [] => (1, diameter)
      | _ :: _ =>
          let '(child_length, diameter1) :=
            (fix go (l : list tree) (d : nat) : list nat * nat :=
               match l with
               | [] => ([], d)
               | k :: r => let '(x, d1) := recursive_diameter k d in
                           let '(xs, d2) := go r d1 in (x :: xs, d2)
               end) ks diameter in
          (1 + list_max child_length, Nat.max diameter1 (list_sum (nlargest 2 child_length)))
      end
  end.

(* diameter = 0; if self.is_leaf: return diameter; _recursive_diameter(self); return diameter *)
Definition sub_diameter (s : tree) : nat :=
  if sub_is_leaf s then 0 else snd (recursive_diameter s 0).
Definition node_diameter (t : tree) (p : pos) : nat :=
  match subtree_at t p with Some s => sub_diameter s | None => 0 end.

(* ---- go_to ------------------------------------------------------------------------------------ *)

(* a node of a forest: (number of the tree, position in it) *)
Definition nodeid := (nat * pos)%type.
Definition nodeid_eqb (a b : nodeid) : bool := Nat.eqb (fst a) (fst b) && pos_eqb (snd a) (snd b).
Definition nodeid_root (a : nodeid) : nodeid := (fst a, node_root (snd a)).

Inductive goarg := GNode (n : nodeid) | GJunk.     (* GJunk: not a BaseNode instance *)

(* sorted([(index, node) ...])[0]: the pair with the least index (indices are pairwise distinct, so
   the node component never takes part in a comparison) *)
Fixpoint min_pair (l : list (nat * pos)) : option (nat * pos) :=
  match l with
  | [] => None
  | x :: r => match min_pair r with
              | None => Some x
              | Some y => if Nat.leb (fst x) (fst y) then Some x else Some y
              end
  end.

(* basenode.py:692-711
     if not isinstance(node, BaseNode): raise TypeError
     if self.root != node.root: raise TreeError
     if self == node: return [self]
     self_path = [self] + list(self.ancestors)
     node_path = ([node] + list(node.ancestors))[::-1]
     common_nodes = set(self_path).intersection(set(node_path))
     self_min_index, min_common_node = sorted([(self_path.index(_node), _node) for _node in common_nodes])[0]
     node_min_index = node_path.index(min_common_node)
     return self_path[:self_min_index] + node_path[node_min_index:]
   The result is a list of nodes of self's tree. *)
Definition node_go_to (self : nodeid) (a : goarg) : res (list pos) :=
  match a with
  | GJunk => Raise TypeError
  | GNode node =>
      if negb (nodeid_eqb (nodeid_root self) (nodeid_root node)) then Raise TreeError else
      let p := snd self in
      let q := snd node in
      if pos_eqb p q then Ret [p] else
      let self_path := p :: node_ancestors p in
      let node_path_ := rev (q :: node_ancestors q) in
      let common_nodes := filter (fun x => mem_pos x node_path_) self_path in
      match min_pair (map (fun x => (index_pos x self_path, x)) common_nodes) with
      | None => Raise IndexError
      | Some (self_min_index, min_common_node) =>
          let node_min_index := index_pos min_common_node node_path_ in
          Ret (firstn self_min_index self_path ++ skipn node_min_index node_path_)
      end
  end.

(* ---- BinaryNode ------------------------------------------------------------------------------- *)

(* binarynode.py:378-385   return not len([child for child in self.children if child])
   children = the two slots, each a node or None *)
Definition is_some {A} (o : option A) : bool := match o with Some _ => true | None => false end.
Definition binary_is_leaf {A} (children : list (option A)) : bool :=
  Nat.eqb (length (filter is_some children)) 0.

(* ---- the inherited queries executed on a BinaryNode tree ---------------------------------------- *)
(* BinaryNode.children is always the pair of slots (left, right), each a node or None
   (binarynode.py:286-292); BaseNode.diameter and BaseNode.siblings are inherited unchanged and
   iterate over that pair. *)
Inductive btree := BT (tag : nat) (l r : option btree).

Definition bt_tag (b : btree) : nat := match b with BT g _ _ => g end.
Definition bt_children (b : btree) : list (option btree) := match b with BT _ l r => [l; r] end.
Definition bt_is_leaf (b : btree) : bool := binary_is_leaf (bt_children b).

(* basenode.py:534-550 on a BinaryNode (as repaired by 8c12410):
       if node.is_leaf: return 1                                   (the binary-aware is_leaf)
       child_length = [_recursive_diameter(child) for child in node.children if child]   (empty slots skipped)
       diameter = max(diameter, sum(heapq.nlargest(2, child_length)))
       return 1 + max(child_length)                (child_length is not empty: the node is not a leaf) *)
Fixpoint bt_recursive_diameter (node : btree) (diameter : nat) : nat * nat :=
  match node with
  | BT _ l r =>
      if binary_is_leaf [l; r] then (1, diameter) else
      let call (c : option btree) (d : nat) : list nat * nat :=
        match c with
        | None => ([], d)
        | Some b => let '(x, d1) := bt_recursive_diameter b d in ([x], d1)
        end in
      let '(xs, d1) := call l diameter in
      let '(ys, d2) := call r d1 in
      let child_length := xs ++ ys in
      (1 + list_max child_length, Nat.max d2 (list_sum (nlargest 2 child_length)))
  end.

Definition bt_diameter (b : btree) : nat :=
  if bt_is_leaf b then 0 else snd (bt_recursive_diameter b 0).

(* the node with tag g, and the node one of whose slots holds it *)
Fixpoint bt_find (b : btree) (g : nat) : option btree :=
  match b with
  | BT h l r =>
      if Nat.eqb h g then Some b else
      match (match l with Some lb => bt_find lb g | None => None end) with
      | Some x => Some x
      | None => match r with Some rb => bt_find rb g | None => None end
      end
  end.

Definition slot_is (g : nat) (c : option btree) : bool :=
  match c with Some b => Nat.eqb (bt_tag b) g | None => false end.

Fixpoint bt_parent_of (b : btree) (g : nat) : option btree :=
  match b with
  | BT _ l r =>
      if slot_is g l || slot_is g r then Some b else
      match (match l with Some lb => bt_parent_of lb g | None => None end) with
      | Some x => Some x
      | None => match r with Some rb => bt_parent_of rb g | None => None end
      end
  end.

(* basenode.py:443-452 on a BinaryNode: tuple(child for child in self.parent.children if child is not self)
   — the other entry of the parent's pair of slots; an empty slot (None) "is not self" and is kept
   (tests/node/test_binarynode.py pins `(None,)` for an only child) *)
Definition bt_siblings (root : btree) (g : nat) : list (option nat) :=
  match bt_parent_of root g with
  | None => []
  | Some parent =>
      map (option_map bt_tag) (filter (fun c => negb (slot_is g c)) (bt_children parent))
  end.
