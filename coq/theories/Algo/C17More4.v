(* C17, fourth round: the dict analogue left open by round 3.  dict_to_dag does not depend on the ORDER
   of the entries of the dictionary it is given, nor on the order (or repetitions) of the names in each
   entry's "parents" list, nor on whether an empty parents list is written [] or left out.
   `DictOf g md d` : d is ANY dictionary describing the DAG g under the attribute mode md -- one entry
   per node of g (keys pairwise distinct, as in a Python dict), each entry with the exported attributes
   of its node and a parents list holding exactly the names of the node's parents.  dict_to_dag of such
   a d succeeds (when no reserved key is exported) and builds a table with g's names, g's edge set and
   the exported attributes, which is again a DAG like g that re-exports to the first export.
   dag_to_dict g x md is such a d, and so is every rearrangement of it (`SameDict`).
   Proofs on top of Algo/DagAlgoProofs.v and Algo/C17More.v (dict_part_ok). *)
From BT Require Import Base.Prelude Base.Str Base.Rose Algo.DagAlgo Algo.DagIO Spec.PC16 Spec.PC17
     Algo.DagAlgoProofs Algo.C17More.
Require Import Permutation.

Definition DictOf (g : dag) (md : amode) (d : list dentry) : Prop :=
  NoDup (map de_name d)
  /\ (forall y, y < dsize g -> exists e, In e d /\ de_name e = name g y)
  /\ (forall e, In e d -> exists y, y < dsize g /\ de_name e = name g y
        /\ de_attrs e = export_attrs md (nattrs g y)
        /\ (forall pn, In pn (entry_parents e) <-> exists p, In p (parents g y) /\ pn = name g p)).

Lemma dict_of_relations g md d : Wf g -> DistinctNames g -> DictOf g md d ->
  (forall pn cn, In (pn, cn) (dict_relations d) -> exists p c, Edge g p c /\ pn = name g p /\ cn = name g c)
  /\ (forall p c, Edge g p c -> In (name g p, name g c) (dict_relations d)).
Proof.
  intros WF DN [KD [EN EY]]. split.
  - intros pn cn H. unfold dict_relations in H. apply in_flat_map in H as [e [He H]].
    apply in_map_iff in H as [pn' [E Hpn]]. inversion E; subst pn' cn.
    destruct (EY e He) as [y [Hy [Ny [_ PP]]]]. fold (entry_parents e) in Hpn.
    apply PP in Hpn as [p [Hp ->]]. exists p, y. split; [apply (wf_sym g WF); exact Hp|]. split; [reflexivity|exact Ny].
  - intros p c He. destruct (edge_range g WF p c He) as [_ Rc].
    destruct (EN c Rc) as [e [Hin Ne]]. destruct (EY e Hin) as [y [Hy [Ny [_ PP]]]].
    assert (y = c) by (apply DN; try assumption; congruence). subst y.
    unfold dict_relations. apply in_flat_map. exists e. split; [exact Hin|].
    apply in_map_iff. exists (name g p). split; [rewrite Ne; reflexivity|].
    fold (entry_parents e). apply PP. exists p. split; [apply (wf_sym g WF); exact He|reflexivity].
Qed.

(* ------------------------------------------------------------------------------------------- *)
(** * 1. dict_to_dag on any dictionary describing g *)

Theorem dict_any_description g r md d :
  Wf g -> Ranked g r -> DistinctNames g -> WeaklyConnected g -> (exists p c, Edge g p c) ->
  (forall y, y < dsize g -> existsb (fun kv => reserved (fst kv)) (export_attrs md (nattrs g y)) = false) ->
  DictOf g md d ->
  exists b ret, dict_to_dag d = Ret (b, Some ret)
    /\ Good b
    /\ SameNames g (b_names b)
    /\ NoDup (b_edges b)
    /\ (forall pn cn, HasEdge b pn cn <-> exists p c, Edge g p c /\ pn = name g p /\ cn = name g c)
    /\ length (b_attrs b) = bsize b
    /\ (forall i y, i < bsize b -> y < dsize g -> bname b i = name g y ->
          nth i (b_attrs b) [] = norm (export_attrs md (nattrs g y))).
Proof.
  intros WF RK DN WC HE RES DO.
  destruct (dict_of_relations g md d WF DN DO) as [LG LE].
  destruct DO as [KD [EN EY]].
  assert (RES' : forall e, In e d -> existsb (fun kv => reserved (fst kv)) (de_attrs e) = false).
  { intros e He. destruct (EY e He) as [y [Hy [_ [Ae _]]]]. rewrite Ae. apply RES. exact Hy. }
  assert (H0 : 0 < dsize g).
  { destruct HE as [p [c He]]. destruct (edge_range g WF p c He) as [Rp _]. lia. }
  destruct (dict_part_ok g r 0 md d d WF RK DN KD EY LG H0 (incl_refl d) KD RES')
    as [b [last [done' [EF [[G [Em [A1 [A2 A3]]]] [EQ LS]]]]]].
  destruct (fold_entry_spec d b_empty None b last good_empty EF) as [_ [_ HEd]].
  assert (LS' : exists p, last = Some p).
  { apply LS. destruct HE as [p [c He]]. destruct (edge_range g WF p c He) as [_ Rc].
    destruct (EN c Rc) as [e [Hin Ne]]. exists e. split; [exact Hin|].
    destruct (EY e Hin) as [y [Hy [Ny [_ PP]]]].
    assert (y = c) by (apply DN; try assumption; congruence). subst y.
    intros N. assert (Hp : In (name g p) (entry_parents e)).
    { apply PP. exists p. split; [apply (wf_sym g WF); exact He|reflexivity]. }
    rewrite N in Hp. exact Hp. }
  destruct LS' as [ret ->]. exists b, ret.
  split.
  { unfold dict_to_dag. destruct d as [|e0 d0].
    - exfalso. destruct (EN 0 H0) as [e [[] _]].
    - rewrite EF. reflexivity. }
  split; [exact G|].
  destruct G as [I AC]. destruct Em as [E1 E2].
  split.
  { split; [apply (bi_nodup_n b I)|]. intros s. split.
    - intros Hs. apply (In_nth _ _ []) in Hs as [i [Hi Es]]. fold (bsize b) in Hi. fold (bname b i) in Es.
      rewrite <- Es. apply E2. exact Hi.
    - intros [y [Hy <-]]. destruct (incident_edge g y WF WC HE Hy) as [p [c [He Hor]]].
      destruct (HEd _ (LE p c He)) as [i [j [_ [Hi [Hj [N1 N2]]]]]]. cbn in N1, N2.
      destruct Hor as [->| ->]; [rewrite <- N1|rewrite <- N2]; apply nth_In; assumption. }
  split; [apply (bi_nodup_e b I)|]. split.
  { intros pn cn. split.
    - intros [i [j [Hin [Hi [Hj [<- <-]]]]]]. apply LG. apply (E1 (i, j) Hin).
    - intros [p [c [He [-> ->]]]]. apply (HEd (name g p, name g c)). apply LE. exact He. }
  split; [exact A1|].
  intros i y Hi Hy Ni. destruct (A3 i Hi) as [B1 _].
  destruct (EN y Hy) as [e [Hin Ne]]. destruct (EY e Hin) as [y' [Hy' [Ny' [Ae _]]]].
  assert (y' = y) by (apply DN; try assumption; congruence). subst y'.
  rewrite B1.
  - rewrite Ni, <- Ne. unfold dict_attrs. rewrite (dget_of_in d e KD Hin), Ae. reflexivity.
  - apply EQ. rewrite Ni, <- Ne. apply in_map. exact Hin.
Qed.

(* ... and the rebuilt table is a DAG like g that re-exports to g's export *)
Theorem dict_any_description_rebuilt g r x md d :
  Wf g -> Ranked g r -> DistinctNames g -> WeaklyConnected g -> x < dsize g -> (exists p c, Edge g p c) ->
  (forall y, y < dsize g -> existsb (fun kv => reserved (fst kv)) (export_attrs md (nattrs g y)) = false) ->
  DictOf g md d ->
  exists b ret, dict_to_dag d = Ret (b, Some ret) /\ RebuiltLike g x b.
Proof.
  intros WF RK DN WC Hx HE RES DO.
  destruct (dict_any_description g r md d WF RK DN WC HE RES DO) as [b [ret [RT [GB [SN [_ [HH _]]]]]]].
  exists b, ret. split; [exact RT|]. apply (rebuilt_like g r x b WF RK DN WC Hx GB SN HH).
Qed.

(* two descriptions of the same DAG: same names, same edges, same attributes on each name *)
Theorem dict_two_descriptions_agree g r md d d' :
  Wf g -> Ranked g r -> DistinctNames g -> WeaklyConnected g -> (exists p c, Edge g p c) ->
  (forall y, y < dsize g -> existsb (fun kv => reserved (fst kv)) (export_attrs md (nattrs g y)) = false) ->
  DictOf g md d -> DictOf g md d' ->
  exists b ret b' ret', dict_to_dag d = Ret (b, Some ret) /\ dict_to_dag d' = Ret (b', Some ret')
    /\ Permutation (b_names b) (b_names b')
    /\ (forall pn cn, HasEdge b pn cn <-> HasEdge b' pn cn)
    /\ (forall i j, i < bsize b -> j < bsize b' -> bname b i = bname b' j ->
          nth i (b_attrs b) [] = nth j (b_attrs b') []).
Proof.
  intros WF RK DN WC HE RES D1 D2.
  destruct (dict_any_description g r md d WF RK DN WC HE RES D1) as [b [ret [RT [_ [[N1 S1] [_ [H1 [_ A1]]]]]]]].
  destruct (dict_any_description g r md d' WF RK DN WC HE RES D2) as [b' [ret' [RT' [_ [[N2 S2] [_ [H2 [_ A2]]]]]]]].
  exists b, ret, b', ret'. split; [exact RT|]. split; [exact RT'|]. split.
  - apply NoDup_Permutation; [exact N1|exact N2|]. intros s. rewrite S1, S2. tauto.
  - split.
    + intros pn cn. rewrite H1, H2. tauto.
    + intros i j Hi Hj E.
      assert (Hin : In (bname b i) (b_names b)) by (apply nth_In; exact Hi).
      apply S1 in Hin as [y [Hy Ny]].
      rewrite (A1 i y Hi Hy (eq_sym Ny)). rewrite (A2 j y Hj Hy); [reflexivity|congruence].
Qed.

(* ------------------------------------------------------------------------------------------- *)
(** * 2. the export is such a description, and so is every rearrangement of it *)

Lemma export_is_description g r x md :
  Wf g -> Ranked g r -> DistinctNames g -> WeaklyConnected g -> x < dsize g -> (exists p c, Edge g p c) ->
  exists d, dag_to_dict g x md = Ret d /\ DictOf g md d.
Proof.
  intros WF RK DN WC Hx HE.
  destruct (dict_export_facts g r x md WF RK DN WC Hx HE) as [d [ED [KD [EN [EY _]]]]].
  exists d. split; [exact ED|]. split; [exact KD|]. split; [exact EN|exact EY].
Qed.

(* d' holds the keys of d in some order; entries under the same key have the same attributes and
   parents lists with the same names (any order, repetitions, None or Some [] for "no parent") *)
Definition SameDict (d d' : list dentry) : Prop :=
  Permutation (map de_name d) (map de_name d')
  /\ forall e e', In e d -> In e' d' -> de_name e = de_name e' ->
       de_attrs e = de_attrs e' /\ forall pn, In pn (entry_parents e) <-> In pn (entry_parents e').

Lemma same_dict_description g md d d' : DictOf g md d -> SameDict d d' -> DictOf g md d'.
Proof.
  intros [KD [EN EY]] [P SE].
  split; [apply (Permutation_NoDup P KD)|]. split.
  - intros y Hy. destruct (EN y Hy) as [e [He Ne]].
    assert (Hk : In (de_name e) (map de_name d')) by (apply (Permutation_in _ P); apply in_map; exact He).
    apply in_map_iff in Hk as [e' [E' He']]. exists e'. split; [exact He'|congruence].
  - intros e' He'.
    assert (Hk : In (de_name e') (map de_name d)).
    { apply (Permutation_in _ (Permutation_sym P)). apply in_map. exact He'. }
    apply in_map_iff in Hk as [e [E He]].
    destruct (EY e He) as [y [Hy [Ny [Ae PP]]]]. destruct (SE e e' He He' E) as [SA SP].
    exists y. split; [exact Hy|]. split; [congruence|]. split; [congruence|].
    intros pn. rewrite <- SP. apply PP.
Qed.

(* permuting the entries, and the parents list inside each entry *)
Inductive PermEntry : dentry -> dentry -> Prop :=
| PE_none n a : PermEntry (DE n None a) (DE n None a)
| PE_some n ps ps' a : Permutation ps ps' -> PermEntry (DE n (Some ps) a) (DE n (Some ps') a).

Lemma perm_entries_same_dict d d0 d' :
  NoDup (map de_name d) -> Forall2 PermEntry d d0 -> Permutation d0 d' -> SameDict d d'.
Proof.
  intros KD F P.
  assert (NM : map de_name d = map de_name d0).
  { clear KD P. induction F as [|e e0 l l0 H F IH]; [reflexivity|]. cbn. rewrite IH. destruct H; reflexivity. }
  assert (SE0 : forall e e0, In e d -> In e0 d0 -> de_name e = de_name e0 ->
            de_attrs e = de_attrs e0 /\ forall pn, In pn (entry_parents e) <-> In pn (entry_parents e0)).
  { clear P. revert KD NM. induction F as [|a a0 l l0 H F IH]; intros KD NM e e0 He He0 E; [destruct He|].
    cbn in KD, NM. inversion KD as [|? ? Hn Hd]; subst. inversion NM as [[Na Nl]].
    destruct He as [<-|He]; destruct He0 as [<-|He0].
    - destruct H as [n at0|n ps ps' at0 PP]; cbn; split; try reflexivity; try tauto.
      intros pn. split; [apply Permutation_in; exact PP|apply Permutation_in; apply Permutation_sym; exact PP].
    - exfalso. apply Hn. rewrite E, Nl. apply in_map. exact He0.
    - exfalso. apply Hn. rewrite Na, <- E. apply in_map. exact He.
    - apply IH; assumption. }
  split.
  - rewrite NM. apply Permutation_map. exact P.
  - intros e e' He He' E. apply SE0; [exact He| |exact E].
    apply (Permutation_in _ (Permutation_sym P)). exact He'.
Qed.

Theorem dict_any_arrangement g r x md d' :
  Wf g -> Ranked g r -> DistinctNames g -> WeaklyConnected g -> x < dsize g -> (exists p c, Edge g p c) ->
  (forall y, y < dsize g -> existsb (fun kv => reserved (fst kv)) (export_attrs md (nattrs g y)) = false) ->
  (exists d, dag_to_dict g x md = Ret d /\ SameDict d d') ->
  exists b ret, dict_to_dag d' = Ret (b, Some ret)
    /\ SameNames g (b_names b)
    /\ NoDup (b_edges b)
    /\ (forall pn cn, HasEdge b pn cn <-> exists p c, Edge g p c /\ pn = name g p /\ cn = name g c)
    /\ length (b_attrs b) = bsize b
    /\ (forall i y, i < bsize b -> y < dsize g -> bname b i = name g y ->
          nth i (b_attrs b) [] = norm (export_attrs md (nattrs g y)))
    /\ RebuiltLike g x b.
Proof.
  intros WF RK DN WC Hx HE RES [d [ED SD]].
  destruct (export_is_description g r x md WF RK DN WC Hx HE) as [d0 [ED0 DO]].
  rewrite ED in ED0. inversion ED0; subst d0.
  assert (DO' := same_dict_description g md d d' DO SD).
  destruct (dict_any_description g r md d' WF RK DN WC HE RES DO') as [b [ret [RT [GB [SN [ND [HH [LA AT]]]]]]]].
  exists b, ret. split; [exact RT|]. split; [exact SN|]. split; [exact ND|]. split; [exact HH|].
  split; [exact LA|]. split; [exact AT|].
  apply (rebuilt_like g r x b WF RK DN WC Hx GB SN HH).
Qed.

Theorem dict_any_order g r x md d0 d' :
  Wf g -> Ranked g r -> DistinctNames g -> WeaklyConnected g -> x < dsize g -> (exists p c, Edge g p c) ->
  (forall y, y < dsize g -> existsb (fun kv => reserved (fst kv)) (export_attrs md (nattrs g y)) = false) ->
  (exists d, dag_to_dict g x md = Ret d /\ Forall2 PermEntry d d0 /\ Permutation d0 d') ->
  exists b ret, dict_to_dag d' = Ret (b, Some ret)
    /\ SameNames g (b_names b)
    /\ NoDup (b_edges b)
    /\ (forall pn cn, HasEdge b pn cn <-> exists p c, Edge g p c /\ pn = name g p /\ cn = name g c)
    /\ length (b_attrs b) = bsize b
    /\ (forall i y, i < bsize b -> y < dsize g -> bname b i = name g y ->
          nth i (b_attrs b) [] = norm (export_attrs md (nattrs g y)))
    /\ RebuiltLike g x b.
Proof.
  intros WF RK DN WC Hx HE RES [d [ED [F P]]].
  apply (dict_any_arrangement g r x md d' WF RK DN WC Hx HE RES).
  exists d. split; [exact ED|].
  destruct (export_is_description g r x md WF RK DN WC Hx HE) as [d1 [ED1 [KD _]]].
  rewrite ED in ED1. inversion ED1; subst d1.
  exact (perm_entries_same_dict d d0 d' KD F P).
Qed.
