(* C08, further clauses (proofs; statements in Props/C08_more.v).

   Part A.  Two refused families as prop_C08 statements for ALL inputs: from_paths / to_paths of different
            lengths (all five functions), and copy_nodes / copy_nodes_from_tree_to_tree with an empty to-path.
   Part B.  merge_children together with COPY (copy_nodes): the source node is copied first (the whole tree is,
            through the parent link), the children of the COPY are appended, in order, under the destination —
            created (destination absent) or already there (no overriding) — as new objects (retag: tag None),
            and the tree itself loses nothing.  Cross-piece version of mc_loop_spec: the loop runs over piece 1
            (the copy) and appends to piece 0 (the tree).
   Part C.  the string layer: C08_prop_existing_generic (tool for destinations that exist).
   Part D.  overriding together with merge_children onto an existing destination = plain override (F5 scenario).
   Part E.  merge_children together with delete_children (shift and copy): mc_loop with dc = true, inside one
            tree and across pieces; the grandchildren become trees of their own.
   Part F.  umbrella statements over copy x delete_children (mc_kids, mc_table) and their string-level versions
            with prop_C08 on the model's output. *)
From BT Require Import Base.Prelude Base.Str Base.StrSep Base.Rose Algo.Modify Spec.PC08 Corr.ModifyCorr Algo.ModifyProofs.

(* ============================================================================================== *)
(* Part A.  refused before any pair is looked at                                                    *)

Lemma more_seps_of_trees_ok i : trees_ok i = true -> seps_ok (cfg_of i) = true.
Proof.
  intros Hok. unfold trees_ok in Hok. apply andb_true_iff in Hok as [Hok _]. apply andb_true_iff in Hok as [Hok _].
  apply andb_true_iff in Hok as [Hok _]. cbn [forallb] in Hok. unfold seps_ok, cfg_of. cbn [c_sep c_ssep c_dsep].
  apply andb_true_iff in Hok as [H1 Hok]. apply andb_true_iff in Hok as [H2 Hok]. apply andb_true_iff in Hok as [H3 _].
  rewrite H1, H2. cbn [andb]. destruct (is_tt (mi_op i)); [exact H3|exact H2].
Qed.

Lemma more_refused_matches i :
  matches i (SDone (rows (mi_src i)) (if is_tt (mi_op i) then rows (mi_dst i) else rows (mi_src i)) (Some ValueError))
          (obs_of i (init_forest i, Some ValueError)) = true.
Proof.
  unfold matches, obs_of. cbn [fst snd code_of o_code o_src o_dst]. rewrite Nat.eqb_refl. cbn [andb].
  unfold init_forest. destruct (is_tt (mi_op i)); cbn [piece nth negb orb andb];
    rewrite !table_of_obs_flatten, !table_eqb_refl; reflexivity.
Qed.

(* from_paths and to_paths of different lengths: ValueError, nothing changed — every function, every flag
   combination, every separator (also empty ones), every tree *)
Lemma more_length_mismatch_run i :
  length (mi_from i) <> length (mi_to i) -> run i = (init_forest i, Some ValueError).
Proof.
  intros Hlen. apply Nat.eqb_neq in Hlen. unfold run, run_from.
  destruct (is_replace (mi_op i)).
  - unfold replace_logic. destruct (empty_sep_refusal true _ _ _); [reflexivity|].
    unfold rp_validate. rewrite Hlen. reflexivity.
  - unfold copy_or_shift_logic. destruct (empty_sep_refusal false _ _ _); [reflexivity|].
    unfold cs_validate. destruct (f_mc (c_fl (cfg_of i)) && f_ml (c_fl (cfg_of i))); [reflexivity|].
    rewrite Hlen. reflexivity.
Qed.

Theorem C08_prop_length_mismatch_stmt i :
  length (mi_from i) <> length (mi_to i) ->
  run i = (init_forest i, Some ValueError) /\ prop_C08 i (obs_of i (run i)) None = true.
Proof.
  intros Hlen. split; [apply more_length_mismatch_run; exact Hlen|].
  rewrite (more_length_mismatch_run i Hlen). apply Nat.eqb_neq in Hlen.
  unfold prop_C08, spec_call. destruct (trees_ok i); [|reflexivity]. cbn [negb].
  destruct (negb (is_replace (mi_op i)) && f_mc (mi_fl i) && f_ml (mi_fl i));
    [rewrite more_refused_matches; reflexivity|].
  rewrite Hlen. cbn [negb]. rewrite more_refused_matches. reflexivity.
Qed.

(* copy_nodes / copy_nodes_from_tree_to_tree with a to-path that is None or "": ValueError, nothing changed *)
Definition has_empty_to (tps : list (option str)) : bool :=
  existsb (fun o => match truthy o with None => true | Some _ => false end) tps.

Lemma more_copy_empty_to_run i :
  is_replace (mi_op i) = false -> is_copy (mi_op i) = true -> has_empty_to (mi_to i) = true ->
  run i = (init_forest i, Some ValueError).
Proof.
  intros Hr Hc He. unfold run, run_from. rewrite Hr.
  unfold copy_or_shift_logic. destruct (empty_sep_refusal false _ _ _); [reflexivity|].
  unfold cs_validate. destruct (f_mc (c_fl (cfg_of i)) && f_ml (c_fl (cfg_of i))); [reflexivity|].
  destruct (negb (Nat.eqb (length (mi_from i)) (length (mi_to i)))); [reflexivity|].
  unfold cfg_of at 1. cbn [c_copy]. rewrite Hc. unfold has_empty_to in He. rewrite He. reflexivity.
Qed.

Theorem C08_prop_copy_empty_to_stmt i :
  is_replace (mi_op i) = false -> is_copy (mi_op i) = true -> has_empty_to (mi_to i) = true ->
  run i = (init_forest i, Some ValueError) /\ prop_C08 i (obs_of i (run i)) None = true.
Proof.
  intros Hr Hc He. split; [apply more_copy_empty_to_run; assumption|].
  rewrite (more_copy_empty_to_run i Hr Hc He).
  unfold prop_C08, spec_call. destruct (trees_ok i); [|reflexivity]. cbn [negb]. rewrite Hr. cbn [negb andb].
  destruct (f_mc (mi_fl i) && f_ml (mi_fl i)); [rewrite more_refused_matches; reflexivity|].
  destruct (negb (Nat.eqb (length (mi_from i)) (length (mi_to i)))); [rewrite more_refused_matches; reflexivity|].
  rewrite Hc.
  change (existsb (fun o => match truthy o with None => true | Some _ => false end) (mi_to i)) with (has_empty_to (mi_to i)).
  rewrite He.
  cbn [andb]. rewrite more_refused_matches. reflexivity.
Qed.

(* ============================================================================================== *)
(* Part B.  merge_children with copy                                                                *)

(* x.parent = y where x lives in piece 1 (the copy) and y in piece 0 (the tree) *)
Lemma more_move_cross nr (t0 c : tree) rest p' q k ks :
  p' <> [] -> tget c p' = Some k -> fkids q (tkids t0) = Some ks -> (forall k', In k' ks -> tname k' <> tname k) ->
  move nr (t0 :: c :: rest) (1 :: p') (Some (0 :: q))
  = MvOk (t_append q k t0 :: t_remove p' c :: rest) (track (1 :: p') ((0 :: q) ++ [length ks])).
Proof.
  intros Hp Hk Hks Hfresh. unfold move.
  assert (Hg : fget (1 :: p') (t0 :: c :: rest) = Some k).
  { cbn [fget nth_error]. destruct p' as [|j p']; [congruence|]. exact Hk. }
  rewrite Hg. cbn [is_prefix Nat.eqb andb].
  replace (fkids (0 :: q) (t0 :: c :: rest)) with (Some ks) by (symmetry; exact Hks).
  rewrite dup_child_false by exact Hfresh.
  assert (Hprot : protected nr (1 :: p') = false) by (destruct p'; [congruence|reflexivity]).
  rewrite Hprot.
  assert (Hadj : adj' (1 :: p') (0 :: q) = 0 :: q) by (unfold adj'; destruct p'; [congruence|reflexivity]).
  rewrite Hadj.
  assert (Hrem : fremove (1 :: p') (t0 :: c :: rest) = t0 :: t_remove p' c :: rest) by (destruct p'; [congruence|reflexivity]).
  rewrite Hrem.
  replace (fkids (0 :: q) (t0 :: t_remove p' c :: rest)) with (Some ks) by (symmetry; exact Hks).
  reflexivity.
Qed.

Lemma more_track_same_piece a x nx z :
  x <> [] -> is_prefix x z = false -> track (a :: x) nx (a :: z) = a :: adj' x z.
Proof.
  intros Hx Hz. unfold track. rewrite is_prefix_cons, Nat.eqb_refl. cbn [andb]. rewrite Hz.
  unfold adj'. rewrite adj_cons_same by exact Hx.
  destruct (adj x z) eqn:E; [reflexivity|]. apply adj_none in E; [congruence|exact Hx].
Qed.

Lemma more_track_other_piece x nx z : x <> [] -> track (1 :: x) nx (0 :: z) = 0 :: z.
Proof. intros Hx. unfold track. cbn [is_prefix Nat.eqb andb]. unfold adj'. destruct x; [congruence|reflexivity]. Qed.

(* the loop of modify.py:1208-1211 (no delete_children) when the children are those of a node of piece 1 and the
   destination is a node of piece 0: piece 0 receives the children in order, piece 1 loses them *)
Lemma more_mc_loop_cross nr rest p q : p <> [] ->
  forall K (t0 c : tree) cs trk nm,
  length cs = length K ->
  (forall i r, nth_error cs i = Some r -> trk r = 1 :: p ++ [i]) ->
  (exists P, tpath c p = Some P) -> (exists PQ, tpath t0 q = Some PQ) ->
  qnames q t0 = Some nm -> NoDup (nm ++ map tname K) ->
  mc_loop nr false (t0 :: t_setk p K c :: rest) cs trk (Some (0 :: q)) (1 :: p)
  = (app_all q K t0 :: t_setk p [] c :: rest, Ret (1 :: p)).
Proof.
  intros Hp. induction K as [|k0 K IH]; intros t0 c cs trk nm Hlen Htrk [P HP] [PQ HPQ] Hnm Hnd.
  - destruct cs; [|discriminate]. reflexivity.
  - destruct cs as [|c0 cs]; [discriminate|]. cbn [mc_loop]. unfold app_all. cbn [fold_left]. fold (app_all q K (t_append q k0 t0)).
    rewrite (Htrk 0 c0 eq_refl).
    set (m := t_setk p (k0 :: K) c).
    assert (Hne : p ++ [0] <> []) by (destruct p; discriminate).
    assert (Hg : tget m (p ++ [0]) = Some k0).
    { unfold tget, m, t_setk. rewrite tkids_set_kids. eapply fget_first_child; [exact HP|exact Hp]. }
    destruct (fkids_of_fpath _ _ _ _ HPQ) as [kq Hkq].
    assert (Hnames : map tname kq = nm).
    { unfold qnames in Hnm. rewrite Hkq in Hnm. cbn in Hnm. inversion Hnm. reflexivity. }
    assert (Hfresh : forall k, In k kq -> tname k <> tname k0).
    { intros k Hk E. eapply (NoDup_app_disj nm (map tname (k0 :: K)) (tname k0) Hnd).
      - rewrite <- Hnames, <- E. apply in_map. exact Hk.
      - left. reflexivity. }
    cbn [option_map].
    pose proof (more_move_cross nr t0 m rest (p ++ [0]) q k0 kq Hne Hg Hkq Hfresh) as Hm.
    match goal with |- context [move ?x1 ?x2 ?x3 ?x4] =>
      replace (move x1 x2 x3 x4) with
        (MvOk (t_append q k0 t0 :: t_remove (p ++ [0]) m :: rest) (track (1 :: p ++ [0]) ((0 :: q) ++ [length kq])))
        by (symmetry; exact Hm) end.
    set (t2 := track (1 :: p ++ [0]) ((0 :: q) ++ [length kq])).
    assert (Ht2q : t2 (0 :: q) = 0 :: q) by (apply more_track_other_piece; exact Hne).
    assert (Ht2p : t2 (1 :: p) = 1 :: p).
    { unfold t2. rewrite more_track_same_piece; [|exact Hne|apply is_prefix_child_false; right; reflexivity].
      rewrite adj'_child_removed by (right; reflexivity). reflexivity. }
    cbn beta. rewrite Ht2q, Ht2p.
    assert (Hrm : t_remove (p ++ [0]) m = t_setk p K c).
    { unfold t_remove, m, t_setk. rewrite set_kids_set_kids, tkids_set_kids, fremove_first_child. reflexivity. }
    rewrite Hrm.
    apply (IH (t_append q k0 t0) c cs (fun z => t2 (trk z)) (nm ++ [tname k0])).
    + cbn in Hlen. lia.
    + intros i r Hr. rewrite (Htrk (S i) r Hr). unfold t2.
      rewrite more_track_same_piece; [|exact Hne|apply is_prefix_sibling_false; lia].
      rewrite adj'_later_sibling. reflexivity.
    + exists P. exact HP.
    + exists PQ. unfold tpath, t_append. rewrite tname_set_kids, tkids_set_kids.
      apply fpath_fappend_frame. exact HPQ.
    + unfold qnames, t_append in *. rewrite tkids_set_kids.
      rewrite (fkids_fappend_self q _ k0 kq Hkq). cbn. rewrite map_app, Hnames. reflexivity.
    + rewrite <- app_assoc. exact Hnd.
Qed.

Lemma more_wf_retag t : wf_t t -> wf_t (retag t).
Proof.
  induction t as [g n a ks IH] using tree_ind'. intros H. inversion H as [? ? ? ? Hnd Hf]; subst. cbn [retag]. constructor.
  - rewrite map_map. rewrite (map_ext _ tname) by (intros k; apply tname_retag). exact Hnd.
  - apply Forall_forall. intros k' Hin. apply in_map_iff in Hin as [k [<- Hk]].
    rewrite Forall_forall in IH, Hf. apply IH; [exact Hk|apply Hf; exact Hk].
Qed.

Lemma more_map_tname_retag (K : list tree) : map tname (map retag K) = map tname K.
Proof. rewrite map_map. apply map_ext. intros k. apply tname_retag. Qed.

(* attach with copy and merge_children (no delete_children) onto a node q of the tree: the children of the copy
   of x arrive under q; the tree loses nothing; the destination may be anywhere (also inside the source subtree) *)
Lemma more_mc_attach_copy c t1 p q x PX Q :
  c_copy c = true -> f_dc (c_fl c) = false -> wf_t t1 ->
  p <> [] -> tget t1 p = Some x -> tpath t1 p = Some PX -> tpath t1 q = Some Q ->
  (forall k, In k (tkids x) -> has (rows t1) (Q ++ [tname k]) = false) ->
  exists rest,
    attach c true [t1] (0 :: p) (Some (0 :: q)) = (app_all q (map retag (tkids x)) t1 :: rest, None)
    /\ rows (app_all q (map retag (tkids x)) t1) = ins_all Q (map retag (tkids x)) (rows t1)
    /\ wf_t (app_all q (map retag (tkids x)) t1).
Proof.
  intros Hc Hdc Hwf1 Hp Hx1 HPX1 HQ1 Hkabs.
  set (K := map retag (tkids x)). set (cp := retag t1).
  assert (Hwfx : wf_t x) by (apply (wf_tget t1 p x Hwf1 Hx1)).
  destruct (fkids_of_fpath _ _ _ _ HQ1) as [kq Hkq].
  assert (Hnd : NoDup (map tname kq ++ map tname K)).
  { unfold K. rewrite more_map_tname_retag. apply NoDup_app_intro.
    - apply (wf_fkids q (tkids t1) kq (wf_t_kids _ Hwf1) Hkq).
    - apply (wf_t_kids _ Hwfx).
    - intros n Hn1 Hn2. apply in_map_iff in Hn2 as [k [<- Hk]].
      pose proof (Hkabs k Hk) as Hh. rewrite (t_has_child t1 q Q kq (tname k) Hwf1 HQ1 Hkq) in Hh.
      apply in_map_iff in Hn1 as [k' [E Hk']].
      assert (existsb (fun k0 => str_eqb (tname k0) (tname k)) kq = true)
        by (eapply existsb_true; [exact Hk'|apply str_eqb_eq; exact E]). congruence. }
  assert (Hqn : qnames q t1 = Some (map tname kq)) by (unfold qnames; rewrite Hkq; reflexivity).
  assert (HKwf : Forall wf_t K).
  { unfold K. apply Forall_forall. intros k' Hin. apply in_map_iff in Hin as [k [<- Hk]].
    apply more_wf_retag. eapply wf_t_In; eassumption. }
  destruct (app_all_facts q Q K t1 (map tname kq) Hwf1 HQ1 Hqn Hnd HKwf) as [Hwfn [Hrn _]].
  assert (Hxc : tget cp p = Some (retag x)).
  { unfold tget, cp. rewrite tkids_retag, fget_retag. unfold tget in Hx1. rewrite Hx1. reflexivity. }
  assert (HPc : tpath cp p = Some PX).
  { unfold tpath, cp. rewrite tname_retag, tkids_retag, fpath_retag. exact HPX1. }
  assert (Hkc : fkids p (tkids cp) = Some K).
  { rewrite fkids_fget by exact Hp. unfold tget in Hxc. rewrite Hxc. cbn [option_map]. rewrite tkids_retag. reflexivity. }
  set (y := set_kids (retag x) []).
  assert (Hy : tget (t_setk p [] cp) p = Some y).
  { unfold tget, t_setk. rewrite tkids_set_kids. apply fget_fsetk_self. exact Hxc. }
  exists [t_remove p (t_setk p [] cp); y]. split; [|split; [exact Hrn|exact Hwfn]].
  unfold attach. rewrite Hc. unfold copy_node. cbn [nth_error length]. change ([t1] ++ [retag t1]) with [t1; cp].
  cbn [orb andb].
  replace (fkids (1 :: p) [t1; cp]) with (Some K) by (symmetry; exact Hkc).
  rewrite Hdc.
  pose proof (more_mc_loop_cross (nroots c) [] p q Hp K t1 cp (child_refs (1 :: p) (length K)) (fun z => z) (map tname kq)
                (length_child_refs _ _) (fun i r Hr => child_refs_nth _ _ _ _ Hr)
                (ex_intro _ PX HPc) (ex_intro _ Q HQ1) Hqn Hnd) as Hloop.
  rewrite (t_setk_id p cp K Hkc) in Hloop.
  match goal with |- context [mc_loop ?a1 ?a2 ?a3 ?a4 ?a5 ?a6 ?a7] =>
    replace (mc_loop a1 a2 a3 a4 a5 a6 a7) with ([app_all q K t1; t_setk p [] cp], @Ret ref (1 :: p))
      by (symmetry; exact Hloop) end.
  pose proof (detach_in_piece (nroots c) [app_all q K t1] (t_setk p [] cp) [] p y Hp Hy) as Hm.
  cbn [length app] in Hm.
  match goal with |- context [move ?a1 ?a2 ?a3 ?a4] =>
    replace (move a1 a2 a3 a4) with
      (MvOk [app_all q K t1; t_remove p (t_setk p [] cp); y] (track (1 :: p) [2])) by (symmetry; exact Hm) end.
  reflexivity.
Qed.

(* the items Spec.edit_cs attaches for merge_children with copy: the child subtrees as new objects, in order *)
Lemma more_attach_items_children_fresh Q n : forall K (tb : table),
  (forall k, In k K -> has tb (Q ++ [tname k]) = false) -> NoDup (map tname K) ->
  forall PX, length PX = n ->
  attach_items tb Q true (map (fun k => (S n, rows_from PX k)) K) = Some (ins_all Q (map retag K) tb).
Proof.
  induction K as [|k K IH]; intros tb Hhas Hnd PX Hn; [reflexivity|]. subst n.
  cbn [map attach_items ins_all fold_left]. unfold reroot. cbn [fst snd Nat.sub]. rewrite Nat.sub_0_r.
  rewrite (reroot_rows_from k PX Q true). rewrite rows_from_eq at 1. cbn [rpath fst]. rewrite tname_retag.
  rewrite (Hhas k (or_introl eq_refl)). rewrite <- (tname_retag k), <- rows_from_eq.
  cbn [map] in Hnd. inversion Hnd as [|? ? Hnotin Hnd']; subst.
  apply IH; [|exact Hnd'|reflexivity].
  intros k' Hk'. rewrite has_insert_last, (Hhas k' (or_intror Hk')), has_rows_child. cbn [orb].
  rewrite tname_retag. apply str_eqb_neq. intros E. apply Hnotin. rewrite E. apply in_map. exact Hk'.
Qed.

(* copy_nodes with merge_children, destination ABSENT (created), no delete_children *)
Theorem C08_merge_children_copy_stmt sep tsep fl t p x comps PX :
  f_mc fl = true -> f_ml fl = false -> f_dc fl = false -> wf_t t ->
  p <> [] -> tget t p = Some x -> tpath t p = Some PX ->
  (forall cc, In cc comps -> cc <> []) ->
  pfx PX (tname t :: comps) = false ->
  has (rows t) ((tname t :: comps) ++ [tname x]) = false ->
  (forall k, In k (tkids x) -> has (rows t) ((tname t :: comps) ++ [tname k]) = false) ->
  exists t2 rest,
    cs_core (cfg_same true sep tsep fl) [t] (0 :: p) (TNew comps) = (t2 :: rest, None)
    /\ rows t2 = ins_all (tname t :: comps) (map retag (tkids x)) (ensure (rows t) [tname t] comps)
    /\ edit_cs true true fl (rows t) (rows t) PX (Some ((tname t :: comps) ++ [tname x])) = PNext (rows t2) (rows t2)
    /\ subseq (rows t) (rows t2).
Proof.
  intros Hmc Hml Hdc Hwf Hp Hx HPX Hne Hnotin Habs Hkabs. set (Q := tname t :: comps) in *.
  set (c := cfg_same true sep tsep fl).
  destruct (add_walk_spec comps [t] [0] [] [tname t] (wf_f_single _ Hwf) ltac:(discriminate) eq_refl Hne)
    as [f' [q [Ha [Hwf' [Hlen [Hrows [Hq [Hpre [Hfr1 Hfr2]]]]]]]]].
  destruct (forest1 f' Hlen) as [t1 ->].
  destruct q as [|q0 q]; [discriminate|]. cbn [is_prefix] in Hpre. rewrite andb_true_r in Hpre.
  apply Nat.eqb_eq in Hpre. subst q0.
  assert (Hwf1 : wf_t t1) by (destruct Hwf' as [_ Hf]; inversion Hf; assumption).
  assert (Hr1 : rows t1 = ensure (rows t) [tname t] comps).
  { unfold frows in Hrows. cbn [flat_map] in Hrows. rewrite !app_nil_r in Hrows. exact Hrows. }
  assert (HQ1 : tpath t1 q = Some Q) by exact Hq.
  assert (HPX1 : tpath t1 p = Some PX) by exact (Hfr2 (0 :: p) PX HPX).
  assert (Hpq : is_prefix p q = false).
  { destruct (is_prefix p q) eqn:E; [|reflexivity].
    rewrite (fpath_prefix_mono _ _ _ _ _ _ E HPX1 HQ1) in Hnotin. discriminate. }
  assert (Hx1 : tget t1 p = Some x).
  { unfold tget. rewrite <- (fget_cons0 p t1 []) by exact Hp. apply Hfr1.
    - rewrite is_prefix_cons. cbn. exact Hpq.
    - rewrite fget_cons0 by exact Hp. exact Hx. }
  assert (Hkabs1 : forall k, In k (tkids x) -> has (rows t1) (Q ++ [tname k]) = false).
  { intros k Hk. rewrite Hr1, has_ensure_long; [apply Hkabs; exact Hk|unfold Q; rewrite app_length; cbn [length]; lia]. }
  destruct (more_mc_attach_copy c t1 p q x PX Q eq_refl Hdc Hwf1 Hp Hx1 HPX1 HQ1 Hkabs1) as [rest [Hatt [Hrows2 _]]].
  rewrite Hr1 in Hrows2.
  exists (app_all q (map retag (tkids x)) t1), rest. split; [|split; [exact Hrows2|split]].
  - unfold cs_core. change (dpiece c) with 0. rewrite Ha. change (f_mc (c_fl c)) with (f_mc fl). rewrite Hmc. exact Hatt.
  - rewrite Hrows2.
    destruct (t_sub_rows t p x PX Hwf Hp Hx HPX) as [P0 [HP0 Hsub]].
    assert (Hneq : PX <> Q ++ [tname x]).
    { intros E. rewrite <- E in Habs. rewrite (t_has_row t p PX Hp HPX) in Habs. discriminate. }
    assert (Hwfx : wf_t x) by (apply (wf_tget t p x Hwf Hx)).
    unfold edit_cs. cbn [negb andb].
    rewrite removelast_last, !last_last. rewrite HP0 at 1. rewrite last_last, str_eqb_refl. cbn [negb].
    replace (path_eqb (Q ++ [tname x]) PX) with false.
    2: { symmetry. destruct (path_eqb (Q ++ [tname x]) PX) eqn:E; [|reflexivity]. apply path_eqb_eq in E. congruence. }
    rewrite (pfx_snoc_false PX Q (tname x) Hnotin Hneq). cbn [andb]. rewrite Habs.
    replace (Nat.ltb (length (Q ++ [tname x])) 2) with false.
    2: { symmetry. apply Nat.ltb_ge. rewrite app_length. unfold Q. cbn [length]. lia. }
    rewrite Hmc, Hdc.
    assert (He : ensure (rows t) [] Q = ensure (rows t) [tname t] comps).
    { unfold Q. cbn [ensure app]. rewrite has_root. reflexivity. }
    rewrite He. rewrite (t_child_rows t p x PX Hwf Hp Hx HPX), map_map. cbn [rpath fst].
    rewrite (map_ext_in _ (fun k => (S (length PX), rows_from PX k))).
    2: { intros k Hk. f_equal. apply (t_sub_rows_child t p x PX k Hwf Hp Hx HPX Hk). }
    rewrite (more_attach_items_children_fresh Q (length PX) (tkids x) _) with (PX := PX);
      [reflexivity| |apply (wf_t_kids _ Hwfx)|reflexivity].
    intros k Hk. rewrite has_ensure_long; [apply Hkabs; exact Hk|unfold Q; rewrite app_length; cbn [length]; lia].
  - rewrite Hrows2. eapply subseq_trans; [apply subseq_ensure|apply subseq_ins_all].
Qed.

Lemma more_ref_neq p d : p <> d -> ref_eqb (0 :: p) (0 :: d) = false.
Proof.
  intros Hne. unfold ref_eqb. cbn [list_eqb Nat.eqb andb]. destruct (list_eqb Nat.eqb p d) eqn:E; [|reflexivity].
  exfalso. apply Hne. clear -E. revert d E.
  induction p as [|a p IH]; intros [|b d] E; cbn in E; try discriminate; [reflexivity|].
  apply andb_true_iff in E as [E1 E2]. apply Nat.eqb_eq in E1. subst. f_equal. apply IH. exact E2.
Qed.

(* copy_nodes with merge_children onto a destination node that EXISTS (no overriding, no delete_children).  The
   destination is any node other than the source node itself: an unrelated node, an ancestor of the source, the root,
   or a node inside the source subtree (a copy cannot create a loop).  The clause about Spec.edit_cs excludes the last
   case, where the predicate is lenient. *)
Theorem C08_merge_children_copy_existing_stmt sep tsep fl t p d x PX PD :
  f_mc fl = true -> f_over fl = false -> f_dc fl = false -> wf_t t ->
  p <> [] -> p <> d -> tget t p = Some x -> tpath t p = Some PX -> tpath t d = Some PD ->
  (forall k, In k (tkids x) -> has (rows t) (PD ++ [tname k]) = false) ->
  exists t2 rest,
    cs_core (cfg_same true sep tsep fl) [t] (0 :: p) (TNode (0 :: d)) = (t2 :: rest, None)
    /\ rows t2 = ins_all PD (map retag (tkids x)) (rows t)
    /\ (pfx PX PD = false -> last PD [] = tname x ->
        edit_cs true true fl (rows t) (rows t) PX (Some PD) = PNext (rows t2) (rows t2))
    /\ subseq (rows t) (rows t2).
Proof.
  intros Hmc Hov Hdc Hwf Hp Hpd Hx HPX HPD Hkabs.
  set (c := cfg_same true sep tsep fl).
  destruct (more_mc_attach_copy c t p d x PX PD eq_refl Hdc Hwf Hp Hx HPX HPD Hkabs) as [rest [Hatt [Hrows2 _]]].
  exists (app_all d (map retag (tkids x)) t), rest. split; [|split; [exact Hrows2|split]].
  - unfold cs_core. rewrite (more_ref_neq p d Hpd).
    change (f_mc (c_fl c)) with (f_mc fl). change (f_over (c_fl c)) with (f_over fl). rewrite Hmc, Hov. cbn [negb].
    exact Hatt.
  - intros Hnotin Hlast. rewrite Hrows2.
    destruct (t_sub_rows t p x PX Hwf Hp Hx HPX) as [P0 [HP0 Hsub]].
    assert (Hwfx : wf_t x) by (apply (wf_tget t p x Hwf Hx)).
    unfold edit_cs. cbn [negb andb].
    rewrite HP0 at 1. rewrite last_last, Hlast, str_eqb_refl. cbn [negb].
    replace (path_eqb PD PX) with false.
    2: { symmetry. destruct (path_eqb PD PX) eqn:E; [|reflexivity]. apply path_eqb_eq in E.
         rewrite E, pfx_refl in Hnotin. discriminate. }
    rewrite Hnotin. cbn [andb]. rewrite (t_has_path t d PD HPD). rewrite Hmc, Hov. cbn [negb andb]. rewrite Hdc.
    rewrite (t_child_rows t p x PX Hwf Hp Hx HPX), map_map. cbn [rpath fst].
    rewrite (map_ext_in _ (fun k => (S (length PX), rows_from PX k))).
    2: { intros k Hk. f_equal. apply (t_sub_rows_child t p x PX k Hwf Hp Hx HPX Hk). }
    rewrite (more_attach_items_children_fresh PD (length PX) (tkids x) _) with (PX := PX);
      [reflexivity|exact Hkabs|apply (wf_t_kids _ Hwfx)|reflexivity].
  - rewrite Hrows2. apply subseq_ins_all.
Qed.

(* ============================================================================================== *)
(* Part C.  the string layer: whole calls on path strings, and prop_C08 on the model's output        *)

(* the tool for a destination that EXISTS (companion of C08_prop_absent_generic): if cs_core's table for TNode is
   edit_cs's table then the whole string-level call returns it and satisfies prop_C08 *)
Theorem C08_prop_existing_generic_stmt a1 o1 a2 o2 cp fl t lf lt PX PD p d x t2 rest :
  Forall (sgood (a1 :: o1)) PX -> Forall (sgood (a2 :: o2)) PX ->
  Forall (sgood (a1 :: o1)) PD -> Forall (sgood (a2 :: o2)) PD ->
  f_full fl = true -> f_mc fl && f_ml fl = false -> wf_t t ->
  p <> [] -> tget t p = Some x -> tpath t p = Some PX -> tpath t d = Some PD -> last PD [] = tname x ->
  cs_core (cfg_same cp (a1 :: o1) (a2 :: o2) fl) [t] (0 :: p) (TNode (0 :: d)) = (t2 :: rest, None) ->
  edit_cs cp true fl (rows t) (rows t) PX (Some PD) = PNext (rows t2) (rows t2) ->
  let i := sl_in cp fl (a1 :: o1) (a2 :: o2) t lf PX lt PD in
  run i = (t2 :: rest, None) /\ prop_C08 i (obs_of i (run i)) None = true.
Proof.
  intros Hg1 Hg2 Hd1 Hd2 Hfull Hmm Hwf Hp Hx HPX HPD Hlast Hcore Hedit i.
  destruct (tpath_ext _ _ _ HPX) as [restp [HPe _]]. destruct (tpath_ext _ _ _ HPD) as [restd [HDe _]].
  destruct (t_sub_rows t p x PX Hwf Hp Hx HPX) as [P0 [HP0 _]].
  assert (HneX : PX <> []) by (rewrite HPe; discriminate).
  assert (HneD : PD <> []) by (rewrite HDe; discriminate).
  assert (Hck : sl_checks fl t PX PD = true).
  { apply sl_checks_ok; [rewrite HPe; reflexivity|rewrite HDe; reflexivity|]. rewrite HP0, last_last. symmetry. exact Hlast. }
  apply (fam_prop_of_edit a1 o1 a2 o2 cp fl t lf lt PX PD HneX HneD Hg1 Hg2 Hd1 Hd2 Hfull Hmm Hck Hwf p x Hp Hx HPX
           (TNode (0 :: d)) (t2 :: rest, None)).
  - rewrite HDe. cbn [tl]. change (0 :: d) with ([0] ++ d).
    apply (walk_names_complete d (tkids t) [0] [tname t] restd (wf_t_kids _ Hwf)). unfold tpath in HPD. rewrite HPD, HDe. reflexivity.
  - exact I.
  - exact Hcore.
  - exact Hedit.
Qed.

(* ============================================================================================== *)
(* Part D.  overriding TOGETHER with merge_children onto an existing destination (the F5 scenario):   *)
(* modify.py:1164 sets merge_children = False for this pair, so the pair is a plain override.         *)

Definition no_mc (fl : mflags) : mflags := MF (f_skip fl) (f_over fl) false (f_ml fl) (f_dc fl) (f_full fl).

Lemma more_override_mc_core cp sep tsep fl (f : forest) fr dr :
  f_over fl = true -> f_ml fl = false -> ref_eqb fr dr = false ->
  cs_core (cfg_same cp sep tsep fl) f fr (TNode dr) = cs_core (cfg_same cp sep tsep (no_mc fl)) f fr (TNode dr).
Proof.
  intros Hov Hml Hne. destruct fl as [sk ov mc ml dc fu]. cbn in Hov, Hml. subst ov ml.
  unfold cs_core, no_mc, cfg_same. cbn [c_fl f_mc f_ml f_over f_skip f_dc f_full nroots c_two]. rewrite Hne. cbn [negb].
  destruct mc; reflexivity.
Qed.

Lemma more_override_mc_edit cp fl src dst pf pt :
  f_over fl = true -> f_ml fl = false -> has dst pt = true -> path_eqb pt pf = false ->
  edit_cs cp true fl src dst pf (Some pt) = edit_cs cp true (no_mc fl) src dst pf (Some pt).
Proof.
  intros Hov Hml Hhas E. destruct fl as [sk ov mc ml dc fu]. cbn in Hov, Hml. subst ov ml.
  unfold edit_cs, no_mc. cbn [f_mc f_ml f_over f_skip f_dc f_full]. rewrite E, Hhas.
  destruct mc; reflexivity.
Qed.

(* C08_override with merge_children=True as well: same call, same result *)
Theorem C08_override_merge_children_stmt sep tsep fl t p d x D PX PD :
  f_over fl = true -> f_mc fl = true -> f_ml fl = false -> f_dc fl = false -> wf_t t ->
  p <> [] -> d <> [] -> tget t p = Some x -> tget t d = Some D ->
  tpath t p = Some PX -> tpath t d = Some PD ->
  pfx PX PD = false -> pfx PD PX = false -> tname D = tname x ->
  exists t2,
    cs_core (cfg_same false sep tsep fl) [t] (0 :: p) (TNode (0 :: d)) = ([t2; D], None)
    /\ rows t2 = insert_last (minus (minus (rows t) PD) PX) (removelast PD) (rows_from (removelast PD) x)
    /\ edit_cs false true fl (rows t) (rows t) PX (Some PD) = PNext (rows t2) (rows t2)
    /\ has (minus (rows t2) (removelast PD ++ [tname x])) PD = false
    /\ subseq (minus (minus (rows t) PD) PX) (rows t2).
Proof.
  intros Hov Hmc Hml Hdc Hwf Hp Hd Hx HD HPX HPD Hn1 Hn2 Hname.
  assert (Hpd : p <> d).
  { intros E. subst d. rewrite HPX in HPD. inversion HPD; subst PD. rewrite pfx_refl in Hn1. discriminate. }
  assert (HE : path_eqb PD PX = false).
  { destruct (path_eqb PD PX) eqn:E; [|reflexivity]. apply path_eqb_eq in E. rewrite E, pfx_refl in Hn1. discriminate. }
  destruct (C08_override_stmt sep tsep (no_mc fl) t p d x D PX PD Hov eq_refl Hml Hdc Hwf Hp Hd Hx HD HPX HPD Hn1 Hn2 Hname)
    as [t2 [H1 [H2 [H3 [H4 H5]]]]].
  exists t2. split; [|split; [exact H2|split; [|split; [exact H4|exact H5]]]].
  - rewrite (more_override_mc_core false sep tsep fl [t] (0 :: p) (0 :: d) Hov Hml (more_ref_neq p d Hpd)). exact H1.
  - rewrite (more_override_mc_edit false fl _ _ PX PD Hov Hml (t_has_path t d PD HPD) HE). exact H3.
Qed.

(* ... and as a whole call on path strings, with prop_C08 *)
Theorem C08_prop_override_merge_children_stmt a1 o1 a2 o2 fl t lf lt p d x D PX PD :
  Forall (sgood (a1 :: o1)) PX -> Forall (sgood (a2 :: o2)) PX ->
  Forall (sgood (a1 :: o1)) PD -> Forall (sgood (a2 :: o2)) PD ->
  f_full fl = true -> f_over fl = true -> f_mc fl = true -> f_ml fl = false -> f_dc fl = false -> wf_t t ->
  p <> [] -> d <> [] -> tget t p = Some x -> tget t d = Some D ->
  tpath t p = Some PX -> tpath t d = Some PD ->
  pfx PX PD = false -> pfx PD PX = false -> tname D = tname x ->
  let i := sl_in false fl (a1 :: o1) (a2 :: o2) t lf PX lt PD in
  exists t2, run i = ([t2; D], None)
    /\ rows t2 = insert_last (minus (minus (rows t) PD) PX) (removelast PD) (rows_from (removelast PD) x)
    /\ prop_C08 i (obs_of i (run i)) None = true.
Proof.
  intros Hg1 Hg2 Hd1 Hd2 Hfull Hov Hmc Hml Hdc Hwf Hp Hd Hx HD HPX HPD Hn1 Hn2 Hname i.
  destruct (C08_override_merge_children_stmt (a1 :: o1) (a2 :: o2) fl t p d x D PX PD
              Hov Hmc Hml Hdc Hwf Hp Hd Hx HD HPX HPD Hn1 Hn2 Hname) as [t2 [Hcore [Hrows [Hedit _]]]].
  assert (Hmm : f_mc fl && f_ml fl = false) by (rewrite Hml; apply andb_false_r).
  destruct (t_sub_rows t d D PD Hwf Hd HD HPD) as [P1 [HP1 _]].
  assert (Hlast : last PD [] = tname x) by (rewrite HP1, last_last; exact Hname).
  destruct (C08_prop_existing_generic_stmt a1 o1 a2 o2 false fl t lf lt PX PD p d x t2 [D]
              Hg1 Hg2 Hd1 Hd2 Hfull Hmm Hwf Hp Hx HPX HPD Hlast Hcore Hedit) as [Hrun Hprop].
  exists t2. split; [exact Hrun|]. split; [exact Hrows|exact Hprop].
Qed.

(* ============================================================================================== *)
(* Part E.  merge_children together with delete_children: every child of the source node first loses  *)
(* its own children (they become trees of their own), then the bare child is appended.               *)

Definition bare (k : tree) : tree := set_kids k [].

Lemma more_tname_bare k : tname (bare k) = tname k.
Proof. apply tname_set_kids. Qed.

Lemma more_map_tname_bare (K : list tree) : map tname (map bare K) = map tname K.
Proof. rewrite map_map. apply map_ext. intros k. apply more_tname_bare. Qed.

Lemma more_fsetk_first_child_bare p : forall (f : forest) k0 K,
  fsetk (p ++ [0]) [] (fsetk p (k0 :: K) f) = fsetk p (bare k0 :: K) f.
Proof.
  induction p as [|i p IH]; intros f k0 K; [reflexivity|].
  cbn [app fsetk]. rewrite upd_nth_upd_nth. apply upd_nth_ext. intros t.
  rewrite set_kids_set_kids, tkids_set_kids, IH. reflexivity.
Qed.

Lemma more_first_child_facts p K k0 (s : tree) P :
  p <> [] -> tpath s p = Some P ->
  let m := t_setk p (k0 :: K) s in
  tget m (p ++ [0]) = Some k0 /\ tpath m (p ++ [0]) = Some (P ++ [tname k0]) /\ fkids (p ++ [0]) (tkids m) = Some (tkids k0).
Proof.
  intros Hp HP m.
  assert (Hg : tget m (p ++ [0]) = Some k0).
  { unfold tget, m, t_setk. rewrite tkids_set_kids. eapply fget_first_child; [exact HP|exact Hp]. }
  split; [exact Hg|]. split.
  - unfold tpath, m, t_setk. rewrite tname_set_kids, tkids_set_kids.
    apply (fpath_snoc p [tname s] _ P (k0 :: K) 0 k0).
    + rewrite fpath_fsetk by (right; reflexivity). exact HP.
    + eapply fkids_fsetk_self. exact HP.
    + reflexivity.
  - rewrite fkids_fget by (destruct p; discriminate). unfold tget in Hg. rewrite Hg. reflexivity.
Qed.

(* the loop of modify.py:1208-1211 WITH delete_children, inside one tree *)
Lemma more_mc_loop_dc nr p q : p <> [] -> is_prefix p q = false ->
  forall K (s : tree) rest cs trk nm,
  length cs = length K ->
  (forall i c, nth_error cs i = Some c -> trk c = 0 :: p ++ [i]) ->
  (exists P, tpath s p = Some P) -> (exists PQ, tpath s q = Some PQ) ->
  qnames q s = Some nm -> NoDup (nm ++ map tname K) ->
  mc_loop nr true (t_setk p K s :: rest) cs trk (Some (0 :: q)) (0 :: p)
  = (t_setk p [] (app_all q (map bare K) s) :: rest ++ flat_map tkids K, Ret (0 :: p)).
Proof.
  intros Hp Hpq. induction K as [|k0 K IH]; intros s rest cs trk nm Hlen Htrk [P HP] [PQ HPQ] Hnm Hnd.
  - destruct cs; [|discriminate]. cbn. rewrite app_nil_r. reflexivity.
  - destruct cs as [|c0 cs]; [discriminate|]. cbn [mc_loop].
    rewrite (Htrk 0 c0 eq_refl).
    set (m := t_setk p (k0 :: K) s).
    destruct (more_first_child_facts p K k0 s P Hp HP) as [Hg [HPk Hkk]]. fold m in Hg, HPk, Hkk.
    assert (Hne : p ++ [0] <> []) by (destruct p; discriminate).
    assert (Hpq0 : is_prefix (p ++ [0]) q = false) by (apply is_prefix_child_false; left; exact Hpq).
    (* del children.children *)
    unfold del_children. rewrite fkids_cons0, Hkk.
    destruct (del_children_go_piece nr [] (tkids k0) m rest (p ++ [0]) [] (fun z => z) Hne (ex_intro _ _ HPk))
      as [trk1 [Hgo [Hk1 _]]].
    rewrite (t_setk_id (p ++ [0]) m _ Hkk), app_nil_r in Hgo. cbn [app length] in Hgo, Hk1.
    assert (Hm1 : t_setk (p ++ [0]) [] m = t_setk p (bare k0 :: K) s).
    { unfold m, t_setk. rewrite set_kids_set_kids, tkids_set_kids, more_fsetk_first_child_bare. reflexivity. }
    rewrite Hm1 in Hgo. set (m1 := t_setk p (bare k0 :: K) s) in *.
    match goal with |- context [del_children_go ?x1 ?x2 ?x3 ?x4 ?x5] =>
      replace (del_children_go x1 x2 x3 x4 x5) with (MvOk (m1 :: rest ++ tkids k0) trk1) by (symmetry; exact Hgo) end.
    rewrite (Hk1 (p ++ [0]) (or_intror eq_refl) eq_refl). cbn [option_map].
    rewrite (Hk1 q (or_introl Hpq0) eq_refl).
    (* children.parent = to_node *)
    destruct (more_first_child_facts p K (bare k0) s P Hp HP) as [Hg1 _]. fold m1 in Hg1.
    assert (HPQm : tpath m1 q = Some PQ).
    { unfold tpath, m1, t_setk. rewrite tname_set_kids, tkids_set_kids, fpath_fsetk by (left; exact Hpq). exact HPQ. }
    destruct (fkids_of_fpath _ _ _ _ HPQm) as [kqm Hkqm].
    assert (Hnames : map tname kqm = nm).
    { pose proof (fkids_names_fsetk p q (tkids s) (bare k0 :: K) Hpq) as E. unfold m1, t_setk in Hkqm.
      rewrite tkids_set_kids in Hkqm. rewrite Hkqm in E. unfold qnames in Hnm.
      destruct (fkids q (tkids s)); cbn in *; [|discriminate]. inversion Hnm; subst. inversion E. reflexivity. }
    assert (Hfresh : forall k, In k kqm -> tname k <> tname (bare k0)).
    { intros k Hk E. rewrite more_tname_bare in E. eapply (NoDup_app_disj nm (map tname (k0 :: K)) (tname k0) Hnd).
      - rewrite <- Hnames, <- E. apply in_map. exact Hk.
      - left. reflexivity. }
    destruct (move_in_tree' nr m1 (rest ++ tkids k0) (p ++ [0]) q (bare k0) kqm Hne Hg1 Hpq0 Hkqm Hfresh (ex_intro _ PQ HPQm))
      as [n Hm].
    match goal with |- context [move ?x1 ?x2 ?x3 ?x4] =>
      replace (move x1 x2 x3 x4) with
        (MvOk (t_move (p ++ [0]) q (bare k0) m1 :: rest ++ tkids k0) (track (0 :: p ++ [0]) ((0 :: adj' (p ++ [0]) q) ++ [n])))
        by (symmetry; exact Hm) end.
    set (t2 := track (0 :: p ++ [0]) ((0 :: adj' (p ++ [0]) q) ++ [n])).
    assert (Ht2q : t2 (0 :: q) = 0 :: q).
    { unfold t2. rewrite track_cons0 by assumption. rewrite adj'_child_removed by (left; exact Hpq). reflexivity. }
    assert (Hpp0 : is_prefix (p ++ [0]) p = false) by (apply is_prefix_child_false; right; reflexivity).
    assert (Ht2p : t2 (0 :: p) = 0 :: p).
    { unfold t2. rewrite track_cons0; [|exact Hne|exact Hpp0]. rewrite adj'_child_removed by (right; reflexivity). reflexivity. }
    cbn beta. rewrite ?(Hk1 q (or_introl Hpq0) eq_refl), ?(Hk1 p (or_introl Hpp0) eq_refl), ?Ht2q, ?Ht2p.
    assert (Hmove : t_move (p ++ [0]) q (bare k0) m1 = t_setk p K (t_append q (bare k0) s)).
    { unfold t_move. rewrite adj'_child_removed by (left; exact Hpq).
      unfold t_remove, m1, t_setk, t_append. rewrite !set_kids_set_kids, !tkids_set_kids.
      rewrite fremove_first_child. f_equal. symmetry. eapply fsetk_fappend; [exact HP|exact Hpq]. }
    rewrite Hmove.
    cbn [map flat_map]. unfold app_all. cbn [fold_left]. fold (app_all q (map bare K) (t_append q (bare k0) s)).
    rewrite app_assoc.
    apply (IH (t_append q (bare k0) s) (rest ++ tkids k0) cs (fun z => t2 (trk1 (trk z))) (nm ++ [tname k0])).
    + cbn in Hlen. lia.
    + intros i c Hc. rewrite (Htrk (S i) c Hc).
      assert (Hsib : is_prefix (p ++ [0]) (p ++ [S i]) = false) by (apply is_prefix_sibling_false; lia).
      rewrite (Hk1 (p ++ [S i]) (or_introl Hsib) eq_refl). unfold t2.
      rewrite track_cons0; [|exact Hne|exact Hsib]. rewrite adj'_later_sibling. reflexivity.
    + exists P. unfold tpath, t_append. rewrite tname_set_kids, tkids_set_kids.
      apply fpath_fappend_frame. exact HP.
    + exists PQ. unfold tpath, t_append. rewrite tname_set_kids, tkids_set_kids.
      apply fpath_fappend_frame. exact HPQ.
    + unfold qnames, t_append in *. rewrite tkids_set_kids.
      destruct (fkids q (tkids s)) as [kq|] eqn:Ekq; [|discriminate]. cbn in Hnm. inversion Hnm; subst nm.
      rewrite (fkids_fappend_self q _ (bare k0) kq Ekq). cbn. rewrite map_app. cbn [map]. rewrite more_tname_bare. reflexivity.
    + rewrite <- app_assoc. exact Hnd.
Qed.

Lemma more_wf_bare k : wf_t (bare k).
Proof. apply wf_t_set_kids. split; constructor. Qed.

Lemma more_rows_bare Q k : rows_from Q (bare k) = [(Q ++ [tname k], ttag k, tattrs k)].
Proof. destruct k; reflexivity. Qed.

(* attach for shift with merge_children and delete_children onto the node q (created or existing) *)
Lemma more_mc_attach_dc c t1 p q x PX Q :
  c_copy c = false -> f_dc (c_fl c) = true -> wf_t t1 ->
  p <> [] -> tget t1 p = Some x -> tpath t1 p = Some PX -> tpath t1 q = Some Q -> is_prefix p q = false ->
  (forall k, In k (tkids x) -> has (rows t1) (Q ++ [tname k]) = false) ->
  exists t2 y,
    attach c true [t1] (0 :: p) (Some (0 :: q)) = (t2 :: flat_map tkids (tkids x) ++ [set_kids y []], None)
    /\ rows t2 = minus (ins_all Q (map bare (tkids x)) (minus_strict (rows t1) PX)) PX.
Proof.
  intros Hc Hdc Hwf1 Hp Hx1 HPX1 HQ1 Hpq Hkabs.
  set (K := tkids x) in *. set (s := t_strip p t1).
  assert (Hwfs : wf_t s) by (apply wf_t_set_kids, wf_fsetk_nil, wf_t_kids; exact Hwf1).
  assert (HQs : tpath s q = Some Q).
  { unfold tpath, s, t_strip. rewrite tname_set_kids, tkids_set_kids, fpath_fsetk by (left; exact Hpq). exact HQ1. }
  assert (HPXs : tpath s p = Some PX).
  { unfold tpath, s, t_strip. rewrite tname_set_kids, tkids_set_kids, fpath_fsetk by (right; reflexivity). exact HPX1. }
  assert (Hrs : rows s = minus_strict (rows t1) PX) by (apply rows_t_strip; assumption).
  assert (Hks : fkids p (tkids t1) = Some K).
  { rewrite fkids_fget by exact Hp. unfold tget in Hx1. rewrite Hx1. reflexivity. }
  assert (Hwfx : wf_t x) by (apply (wf_tget t1 p x Hwf1 Hx1)).
  destruct (fkids_of_fpath _ _ _ _ HQs) as [kq Hkq].
  assert (Hhas_s : forall k, In k K -> has (rows s) (Q ++ [tname k]) = false).
  { intros k Hk. rewrite Hrs. unfold minus_strict. apply has_filter_false. apply Hkabs. exact Hk. }
  assert (Hnd : NoDup (map tname kq ++ map tname K)).
  { apply NoDup_app_intro.
    - apply (wf_fkids q (tkids s) kq (wf_t_kids _ Hwfs) Hkq).
    - apply (wf_t_kids _ Hwfx).
    - intros n Hn1 Hn2. apply in_map_iff in Hn2 as [k [<- Hk]].
      pose proof (Hhas_s k Hk) as Hh. rewrite (t_has_child s q Q kq (tname k) Hwfs HQs Hkq) in Hh.
      apply in_map_iff in Hn1 as [k' [E Hk']].
      assert (existsb (fun k0 => str_eqb (tname k0) (tname k)) kq = true)
        by (eapply existsb_true; [exact Hk'|apply str_eqb_eq; exact E]). congruence. }
  assert (Hqn : qnames q s = Some (map tname kq)) by (unfold qnames; rewrite Hkq; reflexivity).
  assert (Hnd' : NoDup (map tname kq ++ map tname (map bare K))) by (rewrite more_map_tname_bare; exact Hnd).
  assert (HKwf : Forall wf_t (map bare K)).
  { apply Forall_forall. intros k' Hin. apply in_map_iff in Hin as [k [<- _]]. apply more_wf_bare. }
  destruct (app_all_facts q Q (map bare K) s (map tname kq) Hwfs HQs Hqn Hnd' HKwf) as [Hwfn [Hrn Hfrn]].
  set (sn := app_all q (map bare K) s) in *.
  assert (HPXn : tpath sn p = Some PX) by (apply Hfrn; exact HPXs).
  destruct (fpath_fget _ _ _ _ Hp HPXn) as [y Hy].
  exists (t_remove p sn), y. split.
  - unfold attach. rewrite Hc. cbn [orb andb]. rewrite fkids_cons0, Hks, Hdc.
    assert (Ht1 : t1 = t_setk p K s).
    { unfold t_setk, s, t_strip. rewrite set_kids_set_kids, tkids_set_kids, fsetk_fsetk, (fsetk_id p _ _ Hks).
      symmetry. apply set_kids_id. }
    pose proof (more_mc_loop_dc (nroots c) p q Hp Hpq K s [] (child_refs (0 :: p) (length K)) (fun z => z) (map tname kq)
                  (length_child_refs _ _) (fun i c0 Hc0 => child_refs_nth _ _ _ _ Hc0)
                  (ex_intro _ PX HPXs) (ex_intro _ Q HQs) Hqn Hnd) as Hloop.
    rewrite <- Ht1 in Hloop. fold sn in Hloop. cbn [app] in Hloop.
    match goal with |- context [mc_loop ?a ?b ?c0 ?d ?e ?g ?h] =>
      replace (mc_loop a b c0 d e g h) with (t_setk p [] sn :: flat_map tkids K, @Ret ref (0 :: p)) by (symmetry; exact Hloop) end.
    assert (Hgm : tget (t_setk p [] sn) p = Some (set_kids y [])).
    { unfold tget, t_setk. rewrite tkids_set_kids. apply fget_fsetk_self. exact Hy. }
    pose proof (detach_in_tree (nroots c) (t_setk p [] sn) (flat_map tkids K) p (set_kids y []) Hp Hgm) as Hm.
    match goal with |- context [move ?a ?b ?c0 ?d] =>
      replace (move a b c0 d) with
        (MvOk ((t_remove p (t_setk p [] sn) :: flat_map tkids K) ++ [set_kids y []]) (track (0 :: p) [S (length (flat_map tkids K))]))
        by (symmetry; exact Hm) end.
    cbn [app]. f_equal. f_equal. unfold t_remove, t_setk. rewrite set_kids_set_kids, tkids_set_kids.
    rewrite fremove_fsetk by exact Hp. reflexivity.
  - rewrite (rows_t_remove sn p PX Hwfn Hp HPXn), Hrn, Hrs. reflexivity.
Qed.

(* attach_items in general: item k re-rooted = the rows of the tree g k *)
Lemma more_attach_items_gen Q fresh (g : tree -> tree) (it : tree -> item) :
  (forall k, tname (g k) = tname k) ->
  forall K (tb : table),
  (forall k, In k K -> reroot Q fresh (it k) = rows_from Q (g k)) ->
  (forall k, In k K -> has tb (Q ++ [tname k]) = false) -> NoDup (map tname K) ->
  attach_items tb Q fresh (map it K) = Some (ins_all Q (map g K) tb).
Proof.
  intros Hg. induction K as [|k K IH]; intros tb Hre Hhas Hnd; [reflexivity|].
  cbn [map attach_items ins_all fold_left]. rewrite (Hre k (or_introl eq_refl)).
  rewrite rows_from_eq at 1. cbn [rpath fst]. rewrite Hg, (Hhas k (or_introl eq_refl)).
  rewrite <- (Hg k), <- rows_from_eq.
  cbn [map] in Hnd. inversion Hnd as [|? ? Hnotin Hnd']; subst.
  apply IH; [intros k' Hk'; apply Hre; right; exact Hk'| |exact Hnd'].
  intros k' Hk'. rewrite has_insert_last, (Hhas k' (or_intror Hk')), has_rows_child. cbn [orb].
  rewrite Hg. apply str_eqb_neq. intros E. apply Hnotin. rewrite E. apply in_map. exact Hk'.
Qed.

Lemma more_reroot_bare Q PX (fresh : bool) k :
  reroot Q fresh (S (length PX), [(PX ++ [tname k], ttag k, tattrs k)])
  = rows_from Q (bare (if fresh then retag k else k)).
Proof.
  unfold reroot. cbn [fst snd Nat.sub map rpath rtag rattrs]. rewrite Nat.sub_0_r, skipn_app_exact.
  destruct k as [g n a ks]. destruct fresh; reflexivity.
Qed.

(* the child items of Spec.edit_cs with delete_children: one row per child *)
Lemma more_child_items_dc t p x PX :
  wf_t t -> p <> [] -> tget t p = Some x -> tpath t p = Some PX ->
  map (fun r : row => (S (length PX), [r]))
      (filter (fun r : row => under PX r && Nat.eqb (length (rpath r)) (S (length PX))) (rows t))
  = map (fun k => (S (length PX), [(PX ++ [tname k], ttag k, tattrs k)])) (tkids x).
Proof. intros Hwf Hp Hx HPX. rewrite (t_child_rows t p x PX Hwf Hp Hx HPX), map_map. reflexivity. Qed.

Lemma more_attach_items_bare Q PX (fresh : bool) K (tb : table) :
  (forall k, In k K -> has tb (Q ++ [tname k]) = false) -> NoDup (map tname K) ->
  attach_items tb Q fresh (map (fun k => (S (length PX), [(PX ++ [tname k], ttag k, tattrs k)])) K)
  = Some (ins_all Q (map (fun k => bare (if fresh then retag k else k)) K) tb).
Proof.
  intros Hhas Hnd. apply (more_attach_items_gen Q fresh (fun k => bare (if fresh then retag k else k))).
  - intros k. rewrite more_tname_bare. destruct fresh; [apply tname_retag|reflexivity].
  - intros k _. apply more_reroot_bare.
  - exact Hhas.
  - exact Hnd.
Qed.

(* shift_nodes with merge_children AND delete_children, destination absent *)
Theorem C08_merge_children_dc_stmt sep tsep fl t p x comps PX :
  f_mc fl = true -> f_ml fl = false -> f_dc fl = true -> wf_t t ->
  p <> [] -> tget t p = Some x -> tpath t p = Some PX ->
  (forall cc, In cc comps -> cc <> []) ->
  pfx PX (tname t :: comps) = false ->
  has (rows t) ((tname t :: comps) ++ [tname x]) = false ->
  (forall k, In k (tkids x) -> has (rows t) ((tname t :: comps) ++ [tname k]) = false) ->
  exists t2 rest,
    cs_core (cfg_same false sep tsep fl) [t] (0 :: p) (TNew comps) = (t2 :: rest, None)
    /\ rows t2 = minus (ins_all (tname t :: comps) (map bare (tkids x))
                                (minus_strict (ensure (rows t) [tname t] comps) PX)) PX
    /\ edit_cs false true fl (rows t) (rows t) PX (Some ((tname t :: comps) ++ [tname x])) = PNext (rows t2) (rows t2)
    /\ subseq (minus (rows t) PX) (rows t2).
Proof.
  intros Hmc Hml Hdc Hwf Hp Hx HPX Hne Hnotin Habs Hkabs. set (Q := tname t :: comps) in *.
  set (c := cfg_same false sep tsep fl).
  destruct (add_walk_spec comps [t] [0] [] [tname t] (wf_f_single _ Hwf) ltac:(discriminate) eq_refl Hne)
    as [f' [q [Ha [Hwf' [Hlen [Hrows [Hq [Hpre [Hfr1 Hfr2]]]]]]]]].
  destruct (forest1 f' Hlen) as [t1 ->].
  destruct q as [|q0 q]; [discriminate|]. cbn [is_prefix] in Hpre. rewrite andb_true_r in Hpre.
  apply Nat.eqb_eq in Hpre. subst q0.
  assert (Hwf1 : wf_t t1) by (destruct Hwf' as [_ Hf]; inversion Hf; assumption).
  assert (Hr1 : rows t1 = ensure (rows t) [tname t] comps).
  { unfold frows in Hrows. cbn [flat_map] in Hrows. rewrite !app_nil_r in Hrows. exact Hrows. }
  assert (HQ1 : tpath t1 q = Some Q) by exact Hq.
  assert (HPX1 : tpath t1 p = Some PX) by exact (Hfr2 (0 :: p) PX HPX).
  assert (Hpq : is_prefix p q = false).
  { destruct (is_prefix p q) eqn:E; [|reflexivity].
    rewrite (fpath_prefix_mono _ _ _ _ _ _ E HPX1 HQ1) in Hnotin. discriminate. }
  assert (Hx1 : tget t1 p = Some x).
  { unfold tget. rewrite <- (fget_cons0 p t1 []) by exact Hp. apply Hfr1.
    - rewrite is_prefix_cons. cbn. exact Hpq.
    - rewrite fget_cons0 by exact Hp. exact Hx. }
  assert (Hkabs1 : forall k, In k (tkids x) -> has (rows t1) (Q ++ [tname k]) = false).
  { intros k Hk. rewrite Hr1, has_ensure_long; [apply Hkabs; exact Hk|unfold Q; rewrite app_length; cbn [length]; lia]. }
  destruct (more_mc_attach_dc c t1 p q x PX Q eq_refl Hdc Hwf1 Hp Hx1 HPX1 HQ1 Hpq Hkabs1) as [t2 [y [Hatt Hrows2]]].
  rewrite Hr1 in Hrows2.
  exists t2, (flat_map tkids (tkids x) ++ [set_kids y []]). split; [|split; [exact Hrows2|split]].
  - unfold cs_core. change (dpiece c) with 0. rewrite Ha. change (f_mc (c_fl c)) with (f_mc fl). rewrite Hmc. exact Hatt.
  - rewrite Hrows2.
    destruct (t_sub_rows t p x PX Hwf Hp Hx HPX) as [P0 [HP0 Hsub]].
    destruct (tpath_ext _ _ _ HPX) as [rest0 [HPe Hl]].
    assert (Hk2 : Nat.eqb (length PX) 1 = false).
    { apply Nat.eqb_neq. rewrite HPe. cbn [length]. destruct p; [congruence|cbn in Hl; lia]. }
    assert (Hneq : PX <> Q ++ [tname x]).
    { intros E. rewrite <- E in Habs. rewrite (t_has_row t p PX Hp HPX) in Habs. discriminate. }
    assert (Hwfx : wf_t x) by (apply (wf_tget t p x Hwf Hx)).
    unfold edit_cs. rewrite Hk2. cbn [negb andb].
    rewrite removelast_last, !last_last. rewrite HP0 at 1. rewrite last_last, str_eqb_refl. cbn [negb].
    replace (path_eqb (Q ++ [tname x]) PX) with false.
    2: { symmetry. destruct (path_eqb (Q ++ [tname x]) PX) eqn:E; [|reflexivity]. apply path_eqb_eq in E. congruence. }
    rewrite (pfx_snoc_false PX Q (tname x) Hnotin Hneq). cbn [andb]. rewrite Habs.
    replace (Nat.ltb (length (Q ++ [tname x])) 2) with false.
    2: { symmetry. apply Nat.ltb_ge. rewrite app_length. unfold Q. cbn [length]. lia. }
    rewrite Hmc, Hdc.
    assert (He : ensure (rows t) [] Q = ensure (rows t) [tname t] comps).
    { unfold Q. cbn [ensure app]. rewrite has_root. reflexivity. }
    rewrite He. rewrite (more_child_items_dc t p x PX Hwf Hp Hx HPX).
    rewrite (more_attach_items_bare Q PX false (tkids x)); [reflexivity| |apply (wf_t_kids _ Hwfx)].
    intros k Hk. unfold minus_strict. apply has_filter_false.
    rewrite has_ensure_long; [apply Hkabs; exact Hk|unfold Q; rewrite app_length; cbn [length]; lia].
  - rewrite Hrows2. rewrite <- (minus_minus_strict (rows t) PX). apply subseq_filter_mono.
    eapply subseq_trans; [|apply subseq_ins_all]. apply subseq_filter_mono. apply subseq_ensure.
Qed.

(* shift_nodes with merge_children AND delete_children onto a destination that exists (no overriding) *)
Theorem C08_merge_children_dc_existing_stmt sep tsep fl t p d x PX PD :
  f_mc fl = true -> f_over fl = false -> f_dc fl = true -> wf_t t ->
  p <> [] -> tget t p = Some x -> tpath t p = Some PX -> tpath t d = Some PD ->
  pfx PX PD = false -> last PD [] = tname x ->
  (forall k, In k (tkids x) -> has (rows t) (PD ++ [tname k]) = false) ->
  exists t2 rest,
    cs_core (cfg_same false sep tsep fl) [t] (0 :: p) (TNode (0 :: d)) = (t2 :: rest, None)
    /\ rows t2 = minus (ins_all PD (map bare (tkids x)) (minus_strict (rows t) PX)) PX
    /\ edit_cs false true fl (rows t) (rows t) PX (Some PD) = PNext (rows t2) (rows t2)
    /\ subseq (minus (rows t) PX) (rows t2).
Proof.
  intros Hmc Hov Hdc Hwf Hp Hx HPX HPD Hnotin Hlast Hkabs.
  set (c := cfg_same false sep tsep fl).
  assert (Hpd : is_prefix p d = false) by (eapply not_pfx_not_prefix; eassumption).
  destruct (more_mc_attach_dc c t p d x PX PD eq_refl Hdc Hwf Hp Hx HPX HPD Hpd Hkabs) as [t2 [y [Hatt Hrows2]]].
  exists t2, (flat_map tkids (tkids x) ++ [set_kids y []]). split; [|split; [exact Hrows2|split]].
  - unfold cs_core. rewrite more_ref_neq.
    2: { intros E. subst d. rewrite is_prefix_refl in Hpd. discriminate. }
    change (f_mc (c_fl c)) with (f_mc fl). change (f_over (c_fl c)) with (f_over fl). rewrite Hmc, Hov. cbn [negb].
    exact Hatt.
  - rewrite Hrows2.
    destruct (t_sub_rows t p x PX Hwf Hp Hx HPX) as [P0 [HP0 Hsub]].
    destruct (tpath_ext _ _ _ HPX) as [rest0 [HPe Hl]].
    assert (Hk2 : Nat.eqb (length PX) 1 = false).
    { apply Nat.eqb_neq. rewrite HPe. cbn [length]. destruct p; [congruence|cbn in Hl; lia]. }
    assert (Hwfx : wf_t x) by (apply (wf_tget t p x Hwf Hx)).
    unfold edit_cs. rewrite Hk2. cbn [negb andb].
    rewrite HP0 at 1. rewrite last_last, Hlast, str_eqb_refl. cbn [negb].
    replace (path_eqb PD PX) with false.
    2: { symmetry. destruct (path_eqb PD PX) eqn:E; [|reflexivity]. apply path_eqb_eq in E.
         rewrite E, pfx_refl in Hnotin. discriminate. }
    rewrite Hnotin. cbn [andb]. rewrite (t_has_path t d PD HPD). rewrite Hmc, Hov, Hdc. cbn [negb andb].
    rewrite (more_child_items_dc t p x PX Hwf Hp Hx HPX).
    rewrite (more_attach_items_bare PD PX false (tkids x)); [reflexivity| |apply (wf_t_kids _ Hwfx)].
    intros k Hk. unfold minus_strict. apply has_filter_false. apply Hkabs. exact Hk.
  - rewrite Hrows2. rewrite <- (minus_minus_strict (rows t) PX). apply subseq_filter_mono. apply subseq_ins_all.
Qed.

(* the same loop with delete_children when the children are those of a node of piece 1 (the copy) *)
Lemma more_mc_loop_cross_dc nr p q : p <> [] ->
  forall K (t0 c : tree) rest cs trk nm,
  length cs = length K ->
  (forall i r, nth_error cs i = Some r -> trk r = 1 :: p ++ [i]) ->
  (exists P, tpath c p = Some P) -> (exists PQ, tpath t0 q = Some PQ) ->
  qnames q t0 = Some nm -> NoDup (nm ++ map tname K) ->
  mc_loop nr true (t0 :: t_setk p K c :: rest) cs trk (Some (0 :: q)) (1 :: p)
  = (app_all q (map bare K) t0 :: t_setk p [] c :: rest ++ flat_map tkids K, Ret (1 :: p)).
Proof.
  intros Hp. induction K as [|k0 K IH]; intros t0 c rest cs trk nm Hlen Htrk [P HP] [PQ HPQ] Hnm Hnd.
  - destruct cs; [|discriminate]. cbn. rewrite app_nil_r. reflexivity.
  - destruct cs as [|c0 cs]; [discriminate|]. cbn [mc_loop].
    rewrite (Htrk 0 c0 eq_refl).
    set (m := t_setk p (k0 :: K) c).
    destruct (more_first_child_facts p K k0 c P Hp HP) as [Hg [HPk Hkk]]. fold m in Hg, HPk, Hkk.
    assert (Hne : p ++ [0] <> []) by (destruct p; discriminate).
    (* del children.children *)
    unfold del_children.
    replace (fkids (1 :: p ++ [0]) (t0 :: m :: rest)) with (Some (tkids k0)) by (symmetry; exact Hkk).
    destruct (del_children_go_piece nr [t0] (tkids k0) m rest (p ++ [0]) [] (fun z => z) Hne (ex_intro _ _ HPk))
      as [trk1 [Hgo [Hk1 Hk2]]].
    rewrite (t_setk_id (p ++ [0]) m _ Hkk), app_nil_r in Hgo. cbn [app length] in Hgo, Hk1, Hk2.
    assert (Hm1 : t_setk (p ++ [0]) [] m = t_setk p (bare k0 :: K) c).
    { unfold m, t_setk. rewrite set_kids_set_kids, tkids_set_kids, more_fsetk_first_child_bare. reflexivity. }
    rewrite Hm1 in Hgo. set (m1 := t_setk p (bare k0 :: K) c) in *.
    match goal with |- context [del_children_go ?x1 ?x2 ?x3 ?x4 ?x5] =>
      replace (del_children_go x1 x2 x3 x4 x5) with (MvOk (t0 :: m1 :: rest ++ tkids k0) trk1) by (symmetry; exact Hgo) end.
    rewrite (Hk1 (p ++ [0]) (or_intror eq_refl) eq_refl). cbn [option_map].
    rewrite (Hk2 0 q ltac:(lia) eq_refl).
    (* children.parent = to_node *)
    destruct (more_first_child_facts p K (bare k0) c P Hp HP) as [Hg1 _]. fold m1 in Hg1.
    destruct (fkids_of_fpath _ _ _ _ HPQ) as [kq Hkq].
    assert (Hnames : map tname kq = nm).
    { unfold qnames in Hnm. rewrite Hkq in Hnm. cbn in Hnm. inversion Hnm. reflexivity. }
    assert (Hfresh : forall k, In k kq -> tname k <> tname (bare k0)).
    { intros k Hk E. rewrite more_tname_bare in E. eapply (NoDup_app_disj nm (map tname (k0 :: K)) (tname k0) Hnd).
      - rewrite <- Hnames, <- E. apply in_map. exact Hk.
      - left. reflexivity. }
    pose proof (more_move_cross nr t0 m1 (rest ++ tkids k0) (p ++ [0]) q (bare k0) kq Hne Hg1 Hkq Hfresh) as Hm.
    match goal with |- context [move ?x1 ?x2 ?x3 ?x4] =>
      replace (move x1 x2 x3 x4) with
        (MvOk (t_append q (bare k0) t0 :: t_remove (p ++ [0]) m1 :: rest ++ tkids k0)
              (track (1 :: p ++ [0]) ((0 :: q) ++ [length kq])))
        by (symmetry; exact Hm) end.
    set (t2 := track (1 :: p ++ [0]) ((0 :: q) ++ [length kq])).
    assert (Ht2q : t2 (0 :: q) = 0 :: q) by (apply more_track_other_piece; exact Hne).
    assert (Hpp0 : is_prefix (p ++ [0]) p = false) by (apply is_prefix_child_false; right; reflexivity).
    assert (Ht2p : t2 (1 :: p) = 1 :: p).
    { unfold t2. rewrite more_track_same_piece; [|exact Hne|exact Hpp0].
      rewrite adj'_child_removed by (right; reflexivity). reflexivity. }
    cbn beta. rewrite ?(Hk2 0 q ltac:(lia) eq_refl), ?(Hk1 p (or_introl Hpp0) eq_refl), ?Ht2q, ?Ht2p.
    assert (Hrm : t_remove (p ++ [0]) m1 = t_setk p K c).
    { unfold t_remove, m1, t_setk. rewrite set_kids_set_kids, tkids_set_kids, fremove_first_child. reflexivity. }
    rewrite Hrm.
    cbn [map flat_map]. unfold app_all. cbn [fold_left]. fold (app_all q (map bare K) (t_append q (bare k0) t0)).
    rewrite app_assoc.
    apply (IH (t_append q (bare k0) t0) c (rest ++ tkids k0) cs (fun z => t2 (trk1 (trk z))) (nm ++ [tname k0])).
    + cbn in Hlen. lia.
    + intros i r Hr. rewrite (Htrk (S i) r Hr).
      assert (Hsib : is_prefix (p ++ [0]) (p ++ [S i]) = false) by (apply is_prefix_sibling_false; lia).
      rewrite (Hk1 (p ++ [S i]) (or_introl Hsib) eq_refl). unfold t2.
      rewrite more_track_same_piece; [|exact Hne|exact Hsib]. rewrite adj'_later_sibling. reflexivity.
    + exists P. exact HP.
    + exists PQ. unfold tpath, t_append. rewrite tname_set_kids, tkids_set_kids.
      apply fpath_fappend_frame. exact HPQ.
    + unfold qnames, t_append in *. rewrite tkids_set_kids.
      rewrite (fkids_fappend_self q _ (bare k0) kq Hkq). cbn. rewrite map_app, Hnames. cbn [map].
      rewrite more_tname_bare. reflexivity.
    + rewrite <- app_assoc. exact Hnd.
Qed.

Definition bare_copies (x : tree) : list tree := map (fun k => bare (retag k)) (tkids x).

Lemma more_mc_attach_copy_dc c t1 p q x PX Q :
  c_copy c = true -> f_dc (c_fl c) = true -> wf_t t1 ->
  p <> [] -> tget t1 p = Some x -> tpath t1 p = Some PX -> tpath t1 q = Some Q ->
  (forall k, In k (tkids x) -> has (rows t1) (Q ++ [tname k]) = false) ->
  exists rest,
    attach c true [t1] (0 :: p) (Some (0 :: q)) = (app_all q (bare_copies x) t1 :: rest, None)
    /\ rows (app_all q (bare_copies x) t1) = ins_all Q (bare_copies x) (rows t1).
Proof.
  intros Hc Hdc Hwf1 Hp Hx1 HPX1 HQ1 Hkabs.
  set (K := map retag (tkids x)). set (cp := retag t1).
  assert (HKb : bare_copies x = map bare K) by (unfold bare_copies, K; rewrite map_map; reflexivity).
  assert (Hwfx : wf_t x) by (apply (wf_tget t1 p x Hwf1 Hx1)).
  destruct (fkids_of_fpath _ _ _ _ HQ1) as [kq Hkq].
  assert (Hnd : NoDup (map tname kq ++ map tname K)).
  { unfold K. rewrite more_map_tname_retag. apply NoDup_app_intro.
    - apply (wf_fkids q (tkids t1) kq (wf_t_kids _ Hwf1) Hkq).
    - apply (wf_t_kids _ Hwfx).
    - intros n Hn1 Hn2. apply in_map_iff in Hn2 as [k [<- Hk]].
      pose proof (Hkabs k Hk) as Hh. rewrite (t_has_child t1 q Q kq (tname k) Hwf1 HQ1 Hkq) in Hh.
      apply in_map_iff in Hn1 as [k' [E Hk']].
      assert (existsb (fun k0 => str_eqb (tname k0) (tname k)) kq = true)
        by (eapply existsb_true; [exact Hk'|apply str_eqb_eq; exact E]). congruence. }
  assert (Hqn : qnames q t1 = Some (map tname kq)) by (unfold qnames; rewrite Hkq; reflexivity).
  assert (Hnd' : NoDup (map tname kq ++ map tname (map bare K))) by (rewrite more_map_tname_bare; exact Hnd).
  assert (HKwf : Forall wf_t (map bare K)).
  { apply Forall_forall. intros k' Hin. apply in_map_iff in Hin as [k [<- _]]. apply more_wf_bare. }
  destruct (app_all_facts q Q (map bare K) t1 (map tname kq) Hwf1 HQ1 Hqn Hnd' HKwf) as [_ [Hrn _]].
  assert (Hxc : tget cp p = Some (retag x)).
  { unfold tget, cp. rewrite tkids_retag, fget_retag. unfold tget in Hx1. rewrite Hx1. reflexivity. }
  assert (HPc : tpath cp p = Some PX).
  { unfold tpath, cp. rewrite tname_retag, tkids_retag, fpath_retag. exact HPX1. }
  assert (Hkc : fkids p (tkids cp) = Some K).
  { rewrite fkids_fget by exact Hp. unfold tget in Hxc. rewrite Hxc. cbn [option_map]. rewrite tkids_retag. reflexivity. }
  set (y := set_kids (retag x) []).
  assert (Hy : tget (t_setk p [] cp) p = Some y).
  { unfold tget, t_setk. rewrite tkids_set_kids. apply fget_fsetk_self. exact Hxc. }
  rewrite HKb.
  exists (t_remove p (t_setk p [] cp) :: flat_map tkids K ++ [y]). split; [|exact Hrn].
  unfold attach. rewrite Hc. unfold copy_node. cbn [nth_error length]. change ([t1] ++ [retag t1]) with [t1; cp].
  cbn [orb andb].
  replace (fkids (1 :: p) [t1; cp]) with (Some K) by (symmetry; exact Hkc).
  rewrite Hdc.
  pose proof (more_mc_loop_cross_dc (nroots c) p q Hp K t1 cp [] (child_refs (1 :: p) (length K)) (fun z => z) (map tname kq)
                (length_child_refs _ _) (fun i r Hr => child_refs_nth _ _ _ _ Hr)
                (ex_intro _ PX HPc) (ex_intro _ Q HQ1) Hqn Hnd) as Hloop.
  rewrite (t_setk_id p cp K Hkc) in Hloop. cbn [app] in Hloop.
  match goal with |- context [mc_loop ?a1 ?a2 ?a3 ?a4 ?a5 ?a6 ?a7] =>
    replace (mc_loop a1 a2 a3 a4 a5 a6 a7)
      with (app_all q (map bare K) t1 :: t_setk p [] cp :: flat_map tkids K, @Ret ref (1 :: p))
      by (symmetry; exact Hloop) end.
  pose proof (detach_in_piece (nroots c) [app_all q (map bare K) t1] (t_setk p [] cp) (flat_map tkids K) p y Hp Hy) as Hm.
  cbn [length app] in Hm.
  match goal with |- context [move ?a1 ?a2 ?a3 ?a4] =>
    replace (move a1 a2 a3 a4) with
      (MvOk (app_all q (map bare K) t1 :: t_remove p (t_setk p [] cp) :: flat_map tkids K ++ [y])
            (track (1 :: p) [S (S (length (flat_map tkids K)))])) by (symmetry; exact Hm) end.
  reflexivity.
Qed.

(* copy_nodes with merge_children AND delete_children, destination absent: the bare copies of the children (tag None,
   same names and attributes, no children) arrive in order; the tree loses nothing *)
Theorem C08_merge_children_copy_dc_stmt sep tsep fl t p x comps PX :
  f_mc fl = true -> f_ml fl = false -> f_dc fl = true -> wf_t t ->
  p <> [] -> tget t p = Some x -> tpath t p = Some PX ->
  (forall cc, In cc comps -> cc <> []) ->
  pfx PX (tname t :: comps) = false ->
  has (rows t) ((tname t :: comps) ++ [tname x]) = false ->
  (forall k, In k (tkids x) -> has (rows t) ((tname t :: comps) ++ [tname k]) = false) ->
  exists t2 rest,
    cs_core (cfg_same true sep tsep fl) [t] (0 :: p) (TNew comps) = (t2 :: rest, None)
    /\ rows t2 = ins_all (tname t :: comps) (bare_copies x) (ensure (rows t) [tname t] comps)
    /\ edit_cs true true fl (rows t) (rows t) PX (Some ((tname t :: comps) ++ [tname x])) = PNext (rows t2) (rows t2)
    /\ subseq (rows t) (rows t2).
Proof.
  intros Hmc Hml Hdc Hwf Hp Hx HPX Hne Hnotin Habs Hkabs. set (Q := tname t :: comps) in *.
  set (c := cfg_same true sep tsep fl).
  destruct (add_walk_spec comps [t] [0] [] [tname t] (wf_f_single _ Hwf) ltac:(discriminate) eq_refl Hne)
    as [f' [q [Ha [Hwf' [Hlen [Hrows [Hq [Hpre [Hfr1 Hfr2]]]]]]]]].
  destruct (forest1 f' Hlen) as [t1 ->].
  destruct q as [|q0 q]; [discriminate|]. cbn [is_prefix] in Hpre. rewrite andb_true_r in Hpre.
  apply Nat.eqb_eq in Hpre. subst q0.
  assert (Hwf1 : wf_t t1) by (destruct Hwf' as [_ Hf]; inversion Hf; assumption).
  assert (Hr1 : rows t1 = ensure (rows t) [tname t] comps).
  { unfold frows in Hrows. cbn [flat_map] in Hrows. rewrite !app_nil_r in Hrows. exact Hrows. }
  assert (HQ1 : tpath t1 q = Some Q) by exact Hq.
  assert (HPX1 : tpath t1 p = Some PX) by exact (Hfr2 (0 :: p) PX HPX).
  assert (Hpq : is_prefix p q = false).
  { destruct (is_prefix p q) eqn:E; [|reflexivity].
    rewrite (fpath_prefix_mono _ _ _ _ _ _ E HPX1 HQ1) in Hnotin. discriminate. }
  assert (Hx1 : tget t1 p = Some x).
  { unfold tget. rewrite <- (fget_cons0 p t1 []) by exact Hp. apply Hfr1.
    - rewrite is_prefix_cons. cbn. exact Hpq.
    - rewrite fget_cons0 by exact Hp. exact Hx. }
  assert (Hkabs1 : forall k, In k (tkids x) -> has (rows t1) (Q ++ [tname k]) = false).
  { intros k Hk. rewrite Hr1, has_ensure_long; [apply Hkabs; exact Hk|unfold Q; rewrite app_length; cbn [length]; lia]. }
  destruct (more_mc_attach_copy_dc c t1 p q x PX Q eq_refl Hdc Hwf1 Hp Hx1 HPX1 HQ1 Hkabs1) as [rest [Hatt Hrows2]].
  rewrite Hr1 in Hrows2.
  exists (app_all q (bare_copies x) t1), rest. split; [|split; [exact Hrows2|split]].
  - unfold cs_core. change (dpiece c) with 0. rewrite Ha. change (f_mc (c_fl c)) with (f_mc fl). rewrite Hmc. exact Hatt.
  - rewrite Hrows2.
    destruct (t_sub_rows t p x PX Hwf Hp Hx HPX) as [P0 [HP0 Hsub]].
    assert (Hneq : PX <> Q ++ [tname x]).
    { intros E. rewrite <- E in Habs. rewrite (t_has_row t p PX Hp HPX) in Habs. discriminate. }
    assert (Hwfx : wf_t x) by (apply (wf_tget t p x Hwf Hx)).
    unfold edit_cs. cbn [negb andb].
    rewrite removelast_last, !last_last. rewrite HP0 at 1. rewrite last_last, str_eqb_refl. cbn [negb].
    replace (path_eqb (Q ++ [tname x]) PX) with false.
    2: { symmetry. destruct (path_eqb (Q ++ [tname x]) PX) eqn:E; [|reflexivity]. apply path_eqb_eq in E. congruence. }
    rewrite (pfx_snoc_false PX Q (tname x) Hnotin Hneq). cbn [andb]. rewrite Habs.
    replace (Nat.ltb (length (Q ++ [tname x])) 2) with false.
    2: { symmetry. apply Nat.ltb_ge. rewrite app_length. unfold Q. cbn [length]. lia. }
    rewrite Hmc, Hdc.
    assert (He : ensure (rows t) [] Q = ensure (rows t) [tname t] comps).
    { unfold Q. cbn [ensure app]. rewrite has_root. reflexivity. }
    rewrite He. rewrite (more_child_items_dc t p x PX Hwf Hp Hx HPX).
    rewrite (more_attach_items_bare Q PX true (tkids x)); [reflexivity| |apply (wf_t_kids _ Hwfx)].
    intros k Hk. rewrite has_ensure_long; [apply Hkabs; exact Hk|unfold Q; rewrite app_length; cbn [length]; lia].
  - rewrite Hrows2. eapply subseq_trans; [apply subseq_ensure|apply subseq_ins_all].
Qed.

(* ... and onto a destination that exists (no overriding; any node other than the source node itself) *)
Theorem C08_merge_children_copy_dc_existing_stmt sep tsep fl t p d x PX PD :
  f_mc fl = true -> f_over fl = false -> f_dc fl = true -> wf_t t ->
  p <> [] -> p <> d -> tget t p = Some x -> tpath t p = Some PX -> tpath t d = Some PD ->
  (forall k, In k (tkids x) -> has (rows t) (PD ++ [tname k]) = false) ->
  exists t2 rest,
    cs_core (cfg_same true sep tsep fl) [t] (0 :: p) (TNode (0 :: d)) = (t2 :: rest, None)
    /\ rows t2 = ins_all PD (bare_copies x) (rows t)
    /\ (pfx PX PD = false -> last PD [] = tname x ->
        edit_cs true true fl (rows t) (rows t) PX (Some PD) = PNext (rows t2) (rows t2))
    /\ subseq (rows t) (rows t2).
Proof.
  intros Hmc Hov Hdc Hwf Hp Hpd Hx HPX HPD Hkabs.
  set (c := cfg_same true sep tsep fl).
  destruct (more_mc_attach_copy_dc c t p d x PX PD eq_refl Hdc Hwf Hp Hx HPX HPD Hkabs) as [rest [Hatt Hrows2]].
  exists (app_all d (bare_copies x) t), rest. split; [|split; [exact Hrows2|split]].
  - unfold cs_core. rewrite (more_ref_neq p d Hpd).
    change (f_mc (c_fl c)) with (f_mc fl). change (f_over (c_fl c)) with (f_over fl). rewrite Hmc, Hov. cbn [negb].
    exact Hatt.
  - intros Hnotin Hlast. rewrite Hrows2.
    destruct (t_sub_rows t p x PX Hwf Hp Hx HPX) as [P0 [HP0 Hsub]].
    assert (Hwfx : wf_t x) by (apply (wf_tget t p x Hwf Hx)).
    unfold edit_cs. cbn [negb andb].
    rewrite HP0 at 1. rewrite last_last, Hlast, str_eqb_refl. cbn [negb].
    replace (path_eqb PD PX) with false.
    2: { symmetry. destruct (path_eqb PD PX) eqn:E; [|reflexivity]. apply path_eqb_eq in E.
         rewrite E, pfx_refl in Hnotin. discriminate. }
    rewrite Hnotin. cbn [andb]. rewrite (t_has_path t d PD HPD). rewrite Hmc, Hov. cbn [negb andb]. rewrite Hdc.
    rewrite (more_child_items_dc t p x PX Hwf Hp Hx HPX).
    rewrite (more_attach_items_bare PD PX true (tkids x)); [reflexivity|exact Hkabs|apply (wf_t_kids _ Hwfx)].
  - rewrite Hrows2. apply subseq_ins_all.
Qed.

(* ============================================================================================== *)
(* Part F.  merge_children over its whole option space: shift / copy x with / without delete_children *)

(* what arrives under the destination: the children of the source node — copies (tag None) when copying, bare
   (without their own children) with delete_children *)
Definition mc_kids (cp dc : bool) (x : tree) : list tree :=
  map (fun k => let k' := if cp then retag k else k in if dc then bare k' else k') (tkids x).

(* the table: the arrivals appended in order under Q; when shifting, the source node and everything below it gone *)
Definition mc_table (cp : bool) (Q PX : list str) (K : list tree) (tb : table) : table :=
  if cp then ins_all Q K tb else minus (ins_all Q K (minus_strict tb PX)) PX.

Lemma more_mc_kids_ff x : mc_kids false false x = tkids x.
Proof. unfold mc_kids. cbn. apply map_id. Qed.

Theorem C08_merge_children_all_stmt (cp : bool) sep tsep fl t p x comps PX :
  f_mc fl = true -> f_ml fl = false -> wf_t t ->
  p <> [] -> tget t p = Some x -> tpath t p = Some PX ->
  (forall cc, In cc comps -> cc <> []) ->
  pfx PX (tname t :: comps) = false ->
  has (rows t) ((tname t :: comps) ++ [tname x]) = false ->
  (forall k, In k (tkids x) -> has (rows t) ((tname t :: comps) ++ [tname k]) = false) ->
  exists t2 rest,
    cs_core (cfg_same cp sep tsep fl) [t] (0 :: p) (TNew comps) = (t2 :: rest, None)
    /\ rows t2 = mc_table cp (tname t :: comps) PX (mc_kids cp (f_dc fl) x) (ensure (rows t) [tname t] comps)
    /\ edit_cs cp true fl (rows t) (rows t) PX (Some ((tname t :: comps) ++ [tname x])) = PNext (rows t2) (rows t2)
    /\ subseq (if cp then rows t else minus (rows t) PX) (rows t2).
Proof.
  intros Hmc Hml Hwf Hp Hx HPX Hne Hnotin Habs Hkabs. unfold mc_table.
  destruct cp; destruct (f_dc fl) eqn:Hdc.
  - exact (C08_merge_children_copy_dc_stmt sep tsep fl t p x comps PX Hmc Hml Hdc Hwf Hp Hx HPX Hne Hnotin Habs Hkabs).
  - exact (C08_merge_children_copy_stmt sep tsep fl t p x comps PX Hmc Hml Hdc Hwf Hp Hx HPX Hne Hnotin Habs Hkabs).
  - exact (C08_merge_children_dc_stmt sep tsep fl t p x comps PX Hmc Hml Hdc Hwf Hp Hx HPX Hne Hnotin Habs Hkabs).
  - rewrite more_mc_kids_ff.
    exact (C08_merge_children_stmt sep tsep fl t p x comps PX Hmc Hml Hdc Hwf Hp Hx HPX Hne Hnotin Habs Hkabs).
Qed.

Theorem C08_merge_children_existing_all_stmt (cp : bool) sep tsep fl t p d x PX PD :
  f_mc fl = true -> f_over fl = false -> wf_t t ->
  p <> [] -> tget t p = Some x -> tpath t p = Some PX -> tpath t d = Some PD ->
  pfx PX PD = false -> last PD [] = tname x ->
  (forall k, In k (tkids x) -> has (rows t) (PD ++ [tname k]) = false) ->
  exists t2 rest,
    cs_core (cfg_same cp sep tsep fl) [t] (0 :: p) (TNode (0 :: d)) = (t2 :: rest, None)
    /\ rows t2 = mc_table cp PD PX (mc_kids cp (f_dc fl) x) (rows t)
    /\ edit_cs cp true fl (rows t) (rows t) PX (Some PD) = PNext (rows t2) (rows t2)
    /\ subseq (if cp then rows t else minus (rows t) PX) (rows t2).
Proof.
  intros Hmc Hov Hwf Hp Hx HPX HPD Hnotin Hlast Hkabs. unfold mc_table.
  assert (Hpd : p <> d).
  { intros E. subst d. rewrite HPX in HPD. inversion HPD; subst PD. rewrite pfx_refl in Hnotin. discriminate. }
  destruct cp; destruct (f_dc fl) eqn:Hdc.
  - destruct (C08_merge_children_copy_dc_existing_stmt sep tsep fl t p d x PX PD Hmc Hov Hdc Hwf Hp Hpd Hx HPX HPD Hkabs)
      as [t2 [rest [H1 [H2 [H3 H4]]]]]. exists t2, rest. auto.
  - destruct (C08_merge_children_copy_existing_stmt sep tsep fl t p d x PX PD Hmc Hov Hdc Hwf Hp Hpd Hx HPX HPD Hkabs)
      as [t2 [rest [H1 [H2 [H3 H4]]]]]. exists t2, rest. auto.
  - exact (C08_merge_children_dc_existing_stmt sep tsep fl t p d x PX PD Hmc Hov Hdc Hwf Hp Hx HPX HPD Hnotin Hlast Hkabs).
  - rewrite more_mc_kids_ff.
    exact (C08_merge_children_existing_stmt sep tsep fl t p d x PX PD Hmc Hov Hdc Hwf Hp Hx HPX HPD Hnotin Hlast Hkabs).
Qed.

(* ... as whole calls on path strings (separators of any positive length, sep <> tree.sep and leading separators
   allowed), with prop_C08 on the model's output *)
Theorem C08_prop_merge_children_absent_stmt a1 o1 a2 o2 (cp : bool) fl t lf lt PX p x comps :
  let Q := tname t :: comps in
  let TX := Q ++ [tname x] in
  Forall (sgood (a1 :: o1)) PX -> Forall (sgood (a2 :: o2)) PX ->
  Forall (sgood (a1 :: o1)) Q -> Forall (sgood (a2 :: o2)) Q ->
  f_full fl = true -> f_mc fl = true -> f_ml fl = false -> wf_t t ->
  p <> [] -> tget t p = Some x -> tpath t p = Some PX ->
  pfx PX Q = false -> has (rows t) TX = false ->
  (forall k, In k (tkids x) -> has (rows t) (Q ++ [tname k]) = false) ->
  let i := sl_in cp fl (a1 :: o1) (a2 :: o2) t lf PX lt TX in
  exists t2 rest, run i = (t2 :: rest, None)
    /\ rows t2 = mc_table cp Q PX (mc_kids cp (f_dc fl) x) (ensure (rows t) [tname t] comps)
    /\ edit_cs cp true fl (rows t) (rows t) PX (Some TX) = PNext (rows t2) (rows t2)
    /\ prop_C08 i (obs_of i (run i)) None = true.
Proof.
  intros Q TX Hg1 Hg2 Hq1 Hq2 Hfull Hmc Hml Hwf Hp Hx HPX Hnotin Habs Hkabs i.
  assert (Hne : forall cc, In cc comps -> cc <> []).
  { intros cc Hcc. rewrite Forall_forall in Hq1. destruct (Hq1 cc (or_intror Hcc)) as [H _]. exact H. }
  assert (Hmm : f_mc fl && f_ml fl = false) by (rewrite Hml; apply andb_false_r).
  destruct (C08_merge_children_all_stmt cp (a1 :: o1) (a2 :: o2) fl t p x comps PX Hmc Hml Hwf Hp Hx HPX Hne Hnotin Habs Hkabs)
    as [t2 [rest [Hcore [Hrows [Hedit _]]]]].
  destruct (C08_prop_absent_generic_stmt a1 o1 a2 o2 cp fl t lf lt PX p x comps t2 rest
              Hg1 Hg2 Hq1 Hq2 Hfull Hmm Hwf Hp Hx HPX Habs Hcore Hedit) as [Hrun Hprop].
  exists t2, rest. split; [exact Hrun|]. split; [exact Hrows|]. split; [exact Hedit|exact Hprop].
Qed.

Theorem C08_prop_merge_children_existing_stmt a1 o1 a2 o2 (cp : bool) fl t lf lt p d x PX PD :
  Forall (sgood (a1 :: o1)) PX -> Forall (sgood (a2 :: o2)) PX ->
  Forall (sgood (a1 :: o1)) PD -> Forall (sgood (a2 :: o2)) PD ->
  f_full fl = true -> f_mc fl = true -> f_ml fl = false -> f_over fl = false -> wf_t t ->
  p <> [] -> tget t p = Some x -> tpath t p = Some PX -> tpath t d = Some PD ->
  pfx PX PD = false -> last PD [] = tname x ->
  (forall k, In k (tkids x) -> has (rows t) (PD ++ [tname k]) = false) ->
  let i := sl_in cp fl (a1 :: o1) (a2 :: o2) t lf PX lt PD in
  exists t2 rest, run i = (t2 :: rest, None)
    /\ rows t2 = mc_table cp PD PX (mc_kids cp (f_dc fl) x) (rows t)
    /\ edit_cs cp true fl (rows t) (rows t) PX (Some PD) = PNext (rows t2) (rows t2)
    /\ prop_C08 i (obs_of i (run i)) None = true.
Proof.
  intros Hg1 Hg2 Hd1 Hd2 Hfull Hmc Hml Hov Hwf Hp Hx HPX HPD Hnotin Hlast Hkabs i.
  assert (Hmm : f_mc fl && f_ml fl = false) by (rewrite Hml; apply andb_false_r).
  destruct (C08_merge_children_existing_all_stmt cp (a1 :: o1) (a2 :: o2) fl t p d x PX PD
              Hmc Hov Hwf Hp Hx HPX HPD Hnotin Hlast Hkabs) as [t2 [rest [Hcore [Hrows [Hedit _]]]]].
  destruct (C08_prop_existing_generic_stmt a1 o1 a2 o2 cp fl t lf lt PX PD p d x t2 rest
              Hg1 Hg2 Hd1 Hd2 Hfull Hmm Hwf Hp Hx HPX HPD Hlast Hcore Hedit) as [Hrun Hprop].
  exists t2, rest. split; [exact Hrun|]. split; [exact Hrows|]. split; [exact Hedit|exact Hprop].
Qed.
