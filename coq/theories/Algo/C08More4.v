(* C08 — shift/copy/replace: fourth batch.  Tree-to-tree merge_leaves onto an ABSENT destination path
   (copy_nodes_from_tree_to_tree with merge_leaves, overriding or not — overriding is not consulted when the destination
   does not exist —, source subtree of any depth): the forest is [s; dt], the missing intermediate nodes are created in
   piece 1 (add_path_to_tree), then fresh copies of the leaves of the source node are appended, in order, under the created
   parent; piece 0 (the source tree) is the same value.  Builds on C08_tt_merge_leaves_existing_stmt (Algo/C08More2.v),
   add_walk_spec (Algo/ModifyProofs.v) and m3_add_walk_shift (Algo/C08More3.v). *)
From BT Require Import Base.Prelude Base.Str Base.StrSep Base.Rose Algo.Modify Spec.PC08 Corr.ModifyCorr Algo.ModifyProofs
                       Algo.C08More Algo.C08More2 Algo.C08More3.

(* the configuration with overriding switched off *)
Definition m4_no_over (c : cfg) : cfg :=
  CFG (c_copy c) (c_two c) (c_sep c) (c_ssep c) (c_dsep c)
      (MF (f_skip (c_fl c)) false (f_mc (c_fl c)) (f_ml (c_fl c)) (f_dc (c_fl c)) (f_full (c_fl c))).

(* the attach step never consults `overriding` *)
Lemma m4_attach_no_over c mc f fr tn : attach (m4_no_over c) mc f fr tn = attach c mc f fr tn.
Proof. destruct c as [cp tw a b d [sk ov m l dc fu]]. reflexivity. Qed.

Lemma m4_tt_no_over c : tt_cfg c -> tt_cfg (m4_no_over c).
Proof. intros [H1 H2]. split; [exact H1|exact H2]. Qed.

(* the attach step of tree-to-tree merge_leaves onto an existing node, whatever `overriding` says *)
Lemma m4_tt_ml_attach c s dt p d x PX PD :
  tt_cfg c -> f_mc (c_fl c) = false -> f_ml (c_fl c) = true ->
  wf_t s -> wf_t dt -> p <> [] -> tget s p = Some x -> tpath s p = Some PX -> tpath dt d = Some PD -> tkids x <> [] ->
  (forall l, In l (lvs x) -> has (rows dt) (PD ++ [tname l]) = false) -> NoDup (map tname (lvs x)) ->
  let L := map retag (lvs x) in
  let t2 := app_all d L dt in
  (exists rest, attach c false [s; dt] (0 :: p) (Some (1 :: d)) = (s :: t2 :: rest, None))
  /\ rows t2 = ins_all PD L (rows dt) /\ wf_t t2.
Proof.
  intros Htt Hmc Hml Hwfs Hwfd Hp Hx HPX HPD HKne Hhas Hnd L t2.
  destruct (C08_tt_merge_leaves_existing_stmt (m4_no_over c) s dt p d x PX PD (m4_tt_no_over c Htt)
              Hmc Hml eq_refl Hwfs Hwfd Hp Hx HPX HPD HKne Hhas Hnd) as [[rest Hcore] [Hr _]].
  fold L in Hcore, Hr. fold t2 in Hcore, Hr.
  split; [|split; [exact Hr|]].
  - exists rest. rewrite <- m4_attach_no_over. rewrite <- Hcore.
    unfold cs_core. cbn [ref_eqb list_eqb Nat.eqb andb].
    change (f_mc (c_fl (m4_no_over c))) with (f_mc (c_fl c)).
    change (f_ml (c_fl (m4_no_over c))) with (f_ml (c_fl c)).
    change (f_over (c_fl (m4_no_over c))) with false.
    rewrite Hmc, Hml. reflexivity.
  - destruct (fkids_of_fpath _ _ _ _ HPD) as [kq Hkq].
    assert (HnL : map tname L = map tname (lvs x)) by (unfold L; apply more_map_tname_retag).
    assert (Hnd2 : NoDup (map tname kq ++ map tname L)).
    { rewrite HnL. apply (m2_names_ok dt d PD kq (lvs x) Hwfd HPD Hkq Hhas Hnd). }
    assert (Hqn : qnames d dt = Some (map tname kq)) by (unfold qnames; rewrite Hkq; reflexivity).
    assert (HLwf : Forall wf_t L) by (unfold L; rewrite <- m2_lvs_retag; apply m2_wf_lvs).
    destruct (app_all_facts d PD L dt (map tname kq) Hwfd HPD Hqn Hnd2 HLwf) as [Hw _]. exact Hw.
Qed.

(* the row of the decision table: destination path absent in the destination tree, merge_leaves *)
Theorem C08_tt_merge_leaves_absent_stmt c s dt p x comps PX :
  let Q := tname dt :: comps in
  tt_cfg c -> f_mc (c_fl c) = false -> f_ml (c_fl c) = true ->
  wf_t s -> wf_t dt -> p <> [] -> tget s p = Some x -> tpath s p = Some PX -> tkids x <> [] ->
  (forall cc, In cc comps -> cc <> []) ->
  has (rows dt) (Q ++ [tname x]) = false ->
  (forall l, In l (lvs x) -> has (rows dt) (Q ++ [tname l]) = false) -> NoDup (map tname (lvs x)) ->
  let L := map retag (lvs x) in
  exists t2 rest,
    cs_core c [s; dt] (0 :: p) (TNew comps) = (s :: t2 :: rest, None)
    /\ rows t2 = ins_all Q L (ensure (rows dt) [tname dt] comps)
    /\ wf_t t2
    /\ edit_cs true false (c_fl c) (rows s) (rows dt) PX (Some (Q ++ [tname x])) = PNext (rows s) (rows t2)
    /\ subseq (rows dt) (rows t2).
Proof.
  intros Q Htt Hmc Hml Hwfs Hwfd Hp Hx HPX HKne Hne Habs Hhas Hnd L.
  pose proof (m2_is_leaf_false x HKne) as Hl.
  destruct (add_walk_spec comps [dt] [0] [] [tname dt] (wf_f_single _ Hwfd) ltac:(discriminate) eq_refl Hne)
    as [f' [q [Ha [Hwf' [Hlen [Hrows [Hq [Hpre _]]]]]]]].
  destruct (forest1 f' Hlen) as [t1 ->].
  destruct q as [|q0 q]; [discriminate|]. cbn [is_prefix] in Hpre. rewrite andb_true_r in Hpre.
  apply Nat.eqb_eq in Hpre. subst q0.
  assert (Hwf1 : wf_t t1) by (destruct Hwf' as [_ Hf]; inversion Hf; assumption).
  assert (Hr1 : rows t1 = ensure (rows dt) [tname dt] comps).
  { unfold frows in Hrows. cbn [flat_map] in Hrows. rewrite !app_nil_r in Hrows. exact Hrows. }
  assert (HQ1 : tpath t1 q = Some Q) by exact Hq.
  assert (Hlong : forall n : str, length [tname dt] + length comps < length (Q ++ [n])).
  { intros n. unfold Q. rewrite app_length. cbn [length]. lia. }
  assert (Hhas1 : forall l, In l (lvs x) -> has (rows t1) (Q ++ [tname l]) = false).
  { intros l Hin. rewrite Hr1, has_ensure_long; [apply Hhas; exact Hin|apply Hlong]. }
  destruct (m4_tt_ml_attach c s t1 p q x PX Q Htt Hmc Hml Hwfs Hwf1 Hp Hx HPX HQ1 HKne Hhas1 Hnd)
    as [[rest Hatt] [Hr Hw]].
  fold L in Hatt, Hr, Hw. rewrite Hr1 in Hr.
  exists (app_all q L t1), rest.
  split; [|split; [exact Hr|split; [exact Hw|split]]].
  - unfold cs_core. destruct Htt as [Hc Htwo]. unfold dpiece. rewrite Htwo.
    rewrite (m3_add_walk_shift s comps [dt] 0 [] [t1] (Ret (0 :: q)) Ha). cbn [m3_rsh m3_sh]. rewrite Hmc. exact Hatt.
  - rewrite Hr.
    destruct (t_sub_rows s p x PX Hwfs Hp Hx HPX) as [P0 [HP0 Hsub]].
    unfold edit_cs. cbn [negb andb].
    rewrite removelast_last, !last_last. rewrite HP0 at 1. rewrite last_last, str_eqb_refl. cbn [negb].
    rewrite Habs.
    replace (Nat.ltb (length (Q ++ [tname x])) 2) with false.
    2: { symmetry. apply Nat.ltb_ge. rewrite app_length. unfold Q. cbn [length]. lia. }
    rewrite Hmc, Hml.
    assert (He : ensure (rows dt) [] Q = ensure (rows dt) [tname dt] comps).
    { unfold Q. cbn [ensure app]. rewrite has_root. reflexivity. }
    rewrite He.
    fold (sub_rows (rows s) PX). rewrite (m2_spec_leafs s p x PX Hwfs Hp Hx HPX Hl).
    rewrite (m2_leaf_items Q true x PX _ Hl); [reflexivity| |exact Hnd].
    intros l Hin. rewrite has_ensure_long; [apply Hhas; exact Hin|apply Hlong].
  - rewrite Hr. eapply subseq_trans; [apply subseq_ensure|apply subseq_ins_all].
Qed.

(* the observable pieces: no exception, the source tree is the same value, every path of the destination tree is still a
   path of the result *)
Corollary C08_tt_merge_leaves_absent_obs c s dt p x comps PX :
  let Q := tname dt :: comps in
  tt_cfg c -> f_mc (c_fl c) = false -> f_ml (c_fl c) = true ->
  wf_t s -> wf_t dt -> p <> [] -> tget s p = Some x -> tpath s p = Some PX -> tkids x <> [] ->
  (forall cc, In cc comps -> cc <> []) ->
  has (rows dt) (Q ++ [tname x]) = false ->
  (forall l, In l (lvs x) -> has (rows dt) (Q ++ [tname l]) = false) -> NoDup (map tname (lvs x)) ->
  let o := cs_core c [s; dt] (0 :: p) (TNew comps) in
  snd o = None /\ piece (fst o) 0 = s
  /\ rows (piece (fst o) 1) = ins_all Q (map retag (lvs x)) (ensure (rows dt) [tname dt] comps)
  /\ wf_t (piece (fst o) 1)
  /\ subseq (rows dt) (rows (piece (fst o) 1)).
Proof.
  intros Q Htt Hmc Hml Hwfs Hwfd Hp Hx HPX HKne Hne Habs Hhas Hnd o.
  destruct (C08_tt_merge_leaves_absent_stmt c s dt p x comps PX Htt Hmc Hml Hwfs Hwfd Hp Hx HPX HKne Hne Habs Hhas Hnd)
    as [t2 [rest [Hcore [Hr [Hw [_ Hsub]]]]]].
  unfold o. rewrite Hcore. cbn [fst snd piece nth].
  split; [reflexivity|split; [reflexivity|split; [exact Hr|split; [exact Hw|exact Hsub]]]].
Qed.

(* tree-to-tree merge_leaves onto an EXISTING node: the wf part and the attach step, which the round-2 statement left out *)
Corollary C08_tt_merge_leaves_existing_wf c s dt p d x PX PD :
  tt_cfg c -> f_mc (c_fl c) = false -> f_ml (c_fl c) = true -> f_over (c_fl c) = false ->
  wf_t s -> wf_t dt -> p <> [] -> tget s p = Some x -> tpath s p = Some PX -> tpath dt d = Some PD -> tkids x <> [] ->
  (forall l, In l (lvs x) -> has (rows dt) (PD ++ [tname l]) = false) -> NoDup (map tname (lvs x)) ->
  let o := cs_core c [s; dt] (0 :: p) (TNode (1 :: d)) in
  snd o = None /\ piece (fst o) 0 = s /\ piece (fst o) 1 = app_all d (map retag (lvs x)) dt /\ wf_t (piece (fst o) 1).
Proof.
  intros Htt Hmc Hml Hov Hwfs Hwfd Hp Hx HPX HPD HKne Hhas Hnd o.
  destruct (C08_tt_merge_leaves_existing_stmt c s dt p d x PX PD Htt Hmc Hml Hov Hwfs Hwfd Hp Hx HPX HPD HKne Hhas Hnd)
    as [[rest Hcore] _].
  destruct (m4_tt_ml_attach c s dt p d x PX PD Htt Hmc Hml Hwfs Hwfd Hp Hx HPX HPD HKne Hhas Hnd) as [_ [_ Hw]].
  unfold o. rewrite Hcore. cbn [fst snd piece nth].
  split; [reflexivity|split; [reflexivity|split; [reflexivity|exact Hw]]].
Qed.
